/-
  Property C02 for the Four-Russians elimination `_mzd_echelonize_m4ri` itself and for
  `_mzd_top_echelonize_m4ri` (model: M4ri/M4riElim.lean, an exact step-by-step mirror of brilliantrussian.c
  on rows-as-`Nat`).  Core Lean only.

  Contents
    §0   helpers
    §1   `_mzd_gauss_submatrix_full`: `Blk` (identity block), `clearByTmp`, `clearAbove`, row/column loops,
         `gaussSubmatrixFull_spec`
    §2   tables: `applyTables_spec` (lookup through 1..6 tables = XOR of the selected pivot rows; skipping the
         all-zero lookups loses nothing), `redRow`, `processRows_spec`; `chunks_sum`
    §3   `findPivotB_none/_some`
    §4   `OInv`, the invariant of the main loop; `OInv.advance`, `OInv.swapWiden`
    §5   one pass for `full = 1` (`coreFull_spec`)
    §6   the main loop: `echStep_eq`, `CoreSpec`, `Done`, `echLoop_spec` (incl. termination within the fuel)
    §7   consequences of `Done`: row echelon form, RREF, rank, `= rref`
    §8   C02 for `full = 1`:  `echelonizeM4ri_full_*`
    §9   `_mzd_gauss_submatrix`: `Tri` (unit upper triangular block), `gaussSubmatrix_spec`
    §10  `_mzd_gauss_submatrix_top`, `_mzd_copy_back_rows`, one pass for `full = 0` (`coreEch_spec`)
    §11  C02 for `full = 0`:  `echelonizeM4ri_ech_*`;  both modes: `echelonizeM4ri_correct`
    §12  `_mzd_top_echelonize_m4ri` on an echelon form: `topEchelonizeM4ri_done`,
         `topEchelonizeM4ri_of_isRowEchelon`, `topEchelonizeM4ri_echelonizeM4ri`; a counterexample without the
         echelon hypothesis
  All results hold for every `k ≥ 1` (the C code needs `6k ≤ 64` only because `mzd_read_bits` reads at most
  one word; on rows-as-`Nat` there is no such limit) and for arbitrary prior contents `junk` of the `L` arrays.
-/
import M4riProofs.Gauss
import M4riProofs.Gray
import M4ri.M4riElim
namespace M4ri
namespace BMat
namespace M4RI

/-! ## §0 small helpers -/

theorem testBit_bitsAt (a y n l : Nat) :
    (bitsAt a y n).testBit l = (decide (l < n) && a.testBit (y + l)) := by
  unfold bitsAt; rw [Nat.testBit_mod_two_pow, Nat.testBit_shiftRight]

theorem foldl_range_succ {α : Type} (f : α → Nat → α) (a : α) (n : Nat) :
    (List.range (n + 1)).foldl f a = f ((List.range n).foldl f a) n := by
  rw [List.range_succ, List.foldl_append]; rfl

/-- adding a row whose entries left of `off` vanish: everything one needs to know -/
theorem add_facts {M : BMat} (hM : M.WF) (dst src off : Nat) (hd : dst < M.nrows) (hs : src < M.nrows)
    (hne : dst ≠ src) (hlow : ∀ j, j < off → M.get src j = false) :
    (M.addRowFrom dst src off).WF ∧ SameSpan M (M.addRowFrom dst src off) ∧
    (∀ k, (M.addRowFrom dst src off).row k = if k = dst then M.row dst ^^^ M.row src else M.row k) ∧
    (∀ k p, (M.addRowFrom dst src off).get k p =
      if k = dst then (M.get dst p ^^ M.get src p) else M.get k p) := by
  have hr := fun k => row_addRowFrom_of_low hM dst src off k hd hlow
  refine ⟨WF_addRowFrom hM _ _ _, sameSpan_addRowFrom hM _ _ _ hd hs hne hlow, hr, fun k p => ?_⟩
  unfold get
  rw [hr]
  split
  · rw [Nat.testBit_xor]
  · rfl

/-! ## §1 `_mzd_gauss_submatrix_full` -/

/-- state of the pivot search in the block `[c, c + kk)` below row `r`, after `t` pivots:
    rows `< r` untouched, rows `≥ r` zero left of `c`, rows `r .. r+t-1` carry an identity in columns
    `c .. c+t-1`; the row space is that of `M0`. -/
structure Blk (M0 M : BMat) (r c t : Nat) : Prop where
  wf : M.WF
  nr : M.nrows = M0.nrows
  nc : M.ncols = M0.ncols
  span : SameSpan M0 M
  top : ∀ i, i < r → M.row i = M0.row i
  low : ∀ i, r ≤ i → ∀ p, p < c → M.get i p = false
  le : r + t ≤ M.nrows
  idn : ∀ l u, l < t → u < t → M.get (r + l) (c + u) = decide (l = u)

theorem Blk.pivLow {M0 M : BMat} {r c t : Nat} (h : Blk M0 M r c t) {l : Nat} (hl : l < t) :
    ∀ j, j < c + l → M.get (r + l) j = false := by
  intro j hj
  by_cases hjc : j < c
  · exact h.low _ (by omega) _ hjc
  · obtain ⟨u, rfl⟩ : ∃ u, j = c + u := ⟨j - c, by omega⟩
    rw [h.idn l u hl (by omega)]
    simp; omega

/-- adding pivot row `r + l` to a row below the pivot rows -/
theorem Blk.addPiv {M0 M : BMat} {r c t : Nat} (h : Blk M0 M r c t) {i l : Nat} (hi : r + t ≤ i)
    (hin : i < M.nrows) (hl : l < t) :
    Blk M0 (M.addRowFrom i (r + l) (c + l)) r c t ∧
    (∀ k p, (M.addRowFrom i (r + l) (c + l)).get k p =
      if k = i then (M.get i p ^^ M.get (r + l) p) else M.get k p) := by
  obtain ⟨f1, f2, f3, f4⟩ := add_facts h.wf i (r + l) (c + l) hin (by have := h.le; omega) (by omega)
    (h.pivLow hl)
  refine ⟨⟨f1, h.nr, h.nc, h.span.trans f2, ?_, ?_, h.le, ?_⟩, f4⟩
  · intro k hk
    rw [f3, if_neg (by omega)]; exact h.top k hk
  · intro k hk p hp
    rw [f4]
    split
    · rw [h.low i (by omega) p hp, h.low (r + l) (by omega) p hp]; rfl
    · exact h.low k hk p hp
  · intro l' u hl' hu
    rw [f4, if_neg (by omega)]; exact h.idn l' u hl' hu

theorem Blk.swap {M0 M : BMat} {r c t : Nat} (h : Blk M0 M r c t) {a b : Nat} (ha : r + t ≤ a)
    (han : a < M.nrows) (hb : r + t ≤ b) (hbn : b < M.nrows) :
    Blk M0 (M.swapRows a b) r c t ∧
    (∀ k, (M.swapRows a b).row k = if k = a then M.row b else if k = b then M.row a else M.row k) := by
  have hr := fun k => row_swapRows h.wf a b k han hbn
  refine ⟨⟨WF_swapRows h.wf a b, by simp [h.nr], by simp [h.nc],
    h.span.trans (sameSpan_swapRows h.wf a b han hbn), ?_, ?_, by simpa using h.le, ?_⟩, hr⟩
  · intro k hk
    rw [hr, if_neg (by omega), if_neg (by omega)]; exact h.top k hk
  · intro k hk p hp
    unfold get
    rw [hr]
    split
    · exact h.low b (by omega) p hp
    · split
      · exact h.low a (by omega) p hp
      · exact h.low k hk p hp
  · intro l u hl hu
    unfold get
    rw [hr, if_neg (by omega), if_neg (by omega)]; exact h.idn l u hl hu

/-- `clearByTmp` on a row below the pivot rows: the row is cleared in the columns `c .. c+t-1` -/
theorem clearByTmp_spec {M0 M : BMat} {r c t : Nat} (h : Blk M0 M r c t) {i : Nat} (hi : r + t ≤ i)
    (hin : i < M.nrows) (tmp : Nat) (htmp : ∀ u, u < t → tmp.testBit u = M.get i (c + u)) :
    Blk M0 (clearByTmp M i r c t tmp) r c t ∧
    (∀ k, k ≠ i → (clearByTmp M i r c t tmp).row k = M.row k) ∧
    (∀ u, u < t → (clearByTmp M i r c t tmp).get i (c + u) = false) := by
  suffices H : ∀ n, n ≤ t →
      Blk M0 ((List.range n).foldl
        (fun M l => if tmp.testBit l then M.addRowFrom i (r + l) (c + l) else M) M) r c t ∧
      (∀ k, k ≠ i → ((List.range n).foldl
        (fun M l => if tmp.testBit l then M.addRowFrom i (r + l) (c + l) else M) M).row k = M.row k) ∧
      (∀ u, u < n → ((List.range n).foldl
        (fun M l => if tmp.testBit l then M.addRowFrom i (r + l) (c + l) else M) M).get i (c + u) = false) ∧
      (∀ u, n ≤ u → u < t → ((List.range n).foldl
        (fun M l => if tmp.testBit l then M.addRowFrom i (r + l) (c + l) else M) M).get i (c + u)
          = M.get i (c + u)) by
    obtain ⟨a, b, c', _⟩ := H t (Nat.le_refl _)
    exact ⟨a, b, c'⟩
  intro n
  induction n with
  | zero =>
    intro _
    exact ⟨h, fun _ _ => rfl, fun u hu => absurd hu (Nat.not_lt_zero _), fun _ _ _ => rfl⟩
  | succ n ih =>
    intro hn
    obtain ⟨b1, b2, b3, b4⟩ := ih (by omega)
    rw [foldl_range_succ]
    generalize (List.range n).foldl
        (fun M l => if tmp.testBit l then M.addRowFrom i (r + l) (c + l) else M) M = N at b1 b2 b3 b4 ⊢
    have hbit : tmp.testBit n = N.get i (c + n) := by
      rw [htmp n (by omega), b4 n (Nat.le_refl _) (by omega)]
    by_cases hb : tmp.testBit n = true
    · rw [if_pos hb]
      have hin' : i < N.nrows := by rw [b1.nr, ← h.nr]; exact hin
      obtain ⟨g1, g2⟩ := b1.addPiv hi hin' (show n < t by omega)
      refine ⟨g1, ?_, ?_, ?_⟩
      · intro k hk
        have := g2 k
        unfold get at this
        have e : (N.addRowFrom i (r + n) (c + n)).row k = N.row k := by
          apply Nat.eq_of_testBit_eq; intro p
          have := this p
          rwa [if_neg hk] at this
        rw [e]; exact b2 k hk
      · intro u hu
        rw [g2, if_pos rfl, b1.idn n u (by omega) (by omega)]
        by_cases hun : u = n
        · subst hun
          rw [← hbit, hb]; simp
        · rw [b3 u (by omega)]
          have : ¬ n = u := fun e => hun e.symm
          simp [this]
      · intro u hu1 hu2
        rw [g2, if_pos rfl, b1.idn n u (by omega) hu2, b4 u (by omega) hu2]
        have : ¬ n = u := by omega
        simp [this]
    · rw [if_neg hb]
      refine ⟨b1, b2, ?_, ?_⟩
      · intro u hu
        by_cases hun : u = n
        · subst hun
          rw [← hbit]; simpa using hb
        · exact b3 u (by omega)
      · intro u hu1 hu2
        exact b4 u (by omega) hu2

/-- `clearAbove` with the new pivot row `r + t` (zero in the columns `< c + t`, one in column `c + t`):
    the identity block grows by one -/
theorem clearAbove_spec {M0 M : BMat} {r c t : Nat} (h : Blk M0 M r c t) (hlt : r + t < M.nrows)
    (hz : ∀ u, u < t → M.get (r + t) (c + u) = false) (hone : M.get (r + t) (c + t) = true) :
    Blk M0 (clearAbove M r (r + t) (c + t)) r c (t + 1) := by
  unfold clearAbove
  rw [Nat.add_sub_cancel_left]
  suffices H : ∀ m n (M : BMat), n + m = t → Blk M0 M r c t → r + t < M.nrows →
      (∀ u, u < t → M.get (r + t) (c + u) = false) → M.get (r + t) (c + t) = true →
      (∀ l, l < n → M.get (r + l) (c + t) = false) →
      Blk M0 ((List.range' (r + n) m).foldl
        (fun M l => if M.get l (c + t) then M.addRowFrom l (r + t) (c + t) else M) M) r c (t + 1) from
    H t 0 M (by omega) h hlt hz hone (fun l hl => absurd hl (Nat.not_lt_zero _))
  intro m
  induction m with
  | zero =>
    intro n M hn h hlt hz hone hcl
    have hn : n = t := by omega
    subst hn
    simp only [List.range'_zero, List.foldl_nil]
    refine ⟨h.wf, h.nr, h.nc, h.span, h.top, h.low, by omega, ?_⟩
    intro l u hl hu
    by_cases hlt' : l < n
    · by_cases hut : u < n
      · exact h.idn l u hlt' hut
      · have : u = n := by omega
        subst this
        rw [hcl l hlt']
        have : ¬ l = u := by omega
        simp [this]
    · have : l = n := by omega
      subst this
      by_cases hut : u < l
      · rw [hz u hut]
        have : ¬ l = u := by omega
        simp [this]
      · have : u = l := by omega
        subst this
        rw [hone]; simp
  | succ m ih =>
    intro n M hn h hlt hz hone hcl
    rw [List.range'_succ, List.foldl_cons]
    have hlow : ∀ j, j < c + t → M.get (r + t) j = false := by
      intro j hj
      by_cases hjc : j < c
      · exact h.low _ (by omega) _ hjc
      · obtain ⟨u, rfl⟩ : ∃ u, j = c + u := ⟨j - c, by omega⟩
        exact hz u (by omega)
    by_cases hb : M.get (r + n) (c + t) = true
    · rw [if_pos hb]
      obtain ⟨f1, f2, f3, f4⟩ := add_facts h.wf (r + n) (r + t) (c + t) (by omega) hlt (by omega) hlow
      have hB : Blk M0 (M.addRowFrom (r + n) (r + t) (c + t)) r c t := by
        refine ⟨f1, h.nr, h.nc, h.span.trans f2, ?_, ?_, h.le, ?_⟩
        · intro k hk
          rw [f3, if_neg (by omega)]; exact h.top k hk
        · intro k hk p hp
          rw [f4]
          split
          · rw [h.low (r + n) (by omega) p hp, h.low (r + t) (by omega) p hp]; rfl
          · exact h.low k hk p hp
        · intro l u hl hu
          rw [f4]
          split
          · rename_i e
            have : l = n := by omega
            subst this
            rw [hz u hu, h.idn l u hl hu]; simp
          · exact h.idn l u hl hu
      apply ih (n + 1) _ (by omega) hB (by simpa using hlt)
      · intro u hu
        rw [f4, if_neg (by omega)]; exact hz u hu
      · rw [f4, if_neg (by omega)]; exact hone
      · intro l hl
        rw [f4]
        split
        · rw [hb, hone]; rfl
        · rename_i e
          exact hcl l (by omega)
    · rw [if_neg hb]
      apply ih (n + 1) _ (by omega) h hlt hz hone
      intro l hl
      by_cases e : l = n
      · subst e; simpa using hb
      · exact hcl l (by omega)

/-- the row loop of `_mzd_gauss_submatrix_full` for column `c + t`, over the rows `s .. s+n-1`:
    either a pivot was found and the identity block has grown, or all rows visited so far are zero in the
    columns `c .. c+t` -/
theorem fullRows_spec {M0 : BMat} {r c t : Nat} : ∀ (n s : Nat) (M : BMat), Blk M0 M r c t → r + t ≤ s →
    s + n ≤ M.nrows → (∀ i, r + t ≤ i → i < s → ∀ u, u ≤ t → M.get i (c + u) = false) →
    ((fullRows r c (c + t) (r + t) (List.range' s n) M).2 = true →
      Blk M0 (fullRows r c (c + t) (r + t) (List.range' s n) M).1 r c (t + 1)) ∧
    ((fullRows r c (c + t) (r + t) (List.range' s n) M).2 = false →
      Blk M0 (fullRows r c (c + t) (r + t) (List.range' s n) M).1 r c t ∧
      ∀ i, r + t ≤ i → i < s + n → ∀ u, u ≤ t →
        (fullRows r c (c + t) (r + t) (List.range' s n) M).1.get i (c + u) = false) := by
  intro n
  induction n with
  | zero =>
    intro s M h hs hn hv
    simp only [List.range'_zero, fullRows]
    exact ⟨fun e => absurd e (by decide), fun _ => ⟨h, by simpa using hv⟩⟩
  | succ n ih =>
    intro s M h hs hn hv
    rw [List.range'_succ]
    simp only [fullRows, Nat.add_sub_cancel_left]
    have htmp : ∀ u, u < t + 1 → (bitsAt (M.row s) c (t + 1)).testBit u = M.get s (c + u) := by
      intro u hu
      rw [testBit_bitsAt]; simp [hu, get]
    by_cases h0 : bitsAt (M.row s) c (t + 1) = 0
    · rw [if_neg (by simpa using h0)]
      have key := ih (s + 1) M h (by omega) (by omega) ?_
      · rw [Nat.add_right_comm] at key; exact key
      intro i hi1 hi2 u hu
      by_cases e : i = s
      · subst e
        rw [← htmp u (by omega), h0]; simp
      · exact hv i hi1 (by omega) u hu
    · rw [if_pos h0]
      obtain ⟨c1, c2, c3⟩ := clearByTmp_spec h hs (by omega) (bitsAt (M.row s) c (t + 1))
        (fun u hu => htmp u (by omega))
      generalize clearByTmp M s r c t (bitsAt (M.row s) c (t + 1)) = N at c1 c2 c3 ⊢
      have hNn : N.nrows = M.nrows := by rw [c1.nr, h.nr]
      by_cases hp : N.get s (c + t) = true
      · rw [if_pos hp]
        refine ⟨fun _ => ?_, fun e => Bool.noConfusion e⟩
        obtain ⟨d1, d2⟩ := c1.swap (a := s) (b := r + t) hs (by omega) (Nat.le_refl _) (by omega)
        apply clearAbove_spec d1 (by simp; omega)
        · intro u hu
          unfold get
          rw [d2]
          split
          · rename_i e; rw [e]; exact c3 u hu
          · rw [if_pos rfl]; exact c3 u hu
        · unfold get
          rw [d2]
          split
          · rename_i e; rw [e]; exact hp
          · rw [if_pos rfl]; exact hp
      · rw [if_neg hp]
        have key := ih (s + 1) N c1 (by omega) (by omega) ?_
        · rw [Nat.add_right_comm] at key; exact key
        intro i hi1 hi2 u hu
        by_cases e : i = s
        · subst e
          by_cases hut : u < t
          · exact c3 u hut
          · have : u = t := by omega
            subst this; simpa using hp
        · unfold get
          rw [c2 i e]
          exact hv i hi1 (by omega) u hu

/-- the column loop of `_mzd_gauss_submatrix_full` -/
theorem fullCols_spec {M0 : BMat} {r c endRow : Nat} : ∀ (n t : Nat) (M : BMat), Blk M0 M r c t →
    endRow ≤ M.nrows →
    t ≤ (fullCols r c endRow n (c + t) (r + t) M).2 ∧ (fullCols r c endRow n (c + t) (r + t) M).2 ≤ t + n ∧
    Blk M0 (fullCols r c endRow n (c + t) (r + t) M).1 r c (fullCols r c endRow n (c + t) (r + t) M).2 ∧
    ((fullCols r c endRow n (c + t) (r + t) M).2 < t + n →
      ∀ i, r + (fullCols r c endRow n (c + t) (r + t) M).2 ≤ i → i < endRow →
        ∀ u, u ≤ (fullCols r c endRow n (c + t) (r + t) M).2 →
          (fullCols r c endRow n (c + t) (r + t) M).1.get i (c + u) = false) := by
  intro n
  induction n with
  | zero =>
    intro t M h he
    simp only [fullCols, Nat.add_sub_cancel_left]
    exact ⟨Nat.le_refl _, Nat.le_refl _, h, fun hlt => absurd hlt (by omega)⟩
  | succ n ih =>
    intro t M h he
    rw [fullCols]
    have hsp := fullRows_spec (M0 := M0) (r := r) (c := c) (t := t) (endRow - (r + t)) (r + t) M h
      (Nat.le_refl _) (by have := h.le; omega) (fun i h1 h2 => absurd h2 (by omega))
    generalize fullRows r c (c + t) (r + t) (List.range' (r + t) (endRow - (r + t))) M = res at hsp ⊢
    obtain ⟨M', found⟩ := res
    cases found with
    | true =>
      simp only [if_true]
      have hB := hsp.1 rfl
      have he' : endRow ≤ M'.nrows := by rw [hB.nr, ← h.nr]; exact he
      obtain ⟨i1, i2, i3, i4⟩ := ih (t + 1) M' hB he'
      simp only [← Nat.add_assoc] at i1 i2 i3 i4
      refine ⟨by have := i1; omega, by have := i2; omega, i3, fun hlt => i4 (by omega)⟩
    | false =>
      simp only [Bool.false_eq_true, if_false, Nat.add_sub_cancel_left]
      obtain ⟨hB, hz⟩ := hsp.2 rfl
      refine ⟨Nat.le_refl _, by omega, hB, fun _ i hi1 hi2 u hu => hz i hi1 (by omega) u hu⟩

/-- **`_mzd_gauss_submatrix_full(A, r, c, end_row, k)`** on a matrix whose rows `≥ r` vanish left of `c`:
    returns `kbar ≤ k`; the row space, the shape and the rows `< r` are unchanged, the rows `≥ r` still
    vanish left of `c`, the rows `r .. r+kbar-1` carry an identity block in the columns `c .. c+kbar-1`, and
    if `kbar < k` the rows `r+kbar .. end_row-1` vanish in the columns `c .. c+kbar` -/
theorem gaussSubmatrixFull_spec {M : BMat} (hM : M.WF) {r c endRow k : Nat} (hr : r ≤ M.nrows)
    (he : endRow ≤ M.nrows) (hlow : ∀ i, r ≤ i → ∀ p, p < c → M.get i p = false) :
    (gaussSubmatrixFull M r c endRow k).2 ≤ k ∧
    Blk M (gaussSubmatrixFull M r c endRow k).1 r c (gaussSubmatrixFull M r c endRow k).2 ∧
    ((gaussSubmatrixFull M r c endRow k).2 < k →
      ∀ i, r + (gaussSubmatrixFull M r c endRow k).2 ≤ i → i < endRow →
        ∀ u, u ≤ (gaussSubmatrixFull M r c endRow k).2 →
          (gaussSubmatrixFull M r c endRow k).1.get i (c + u) = false) := by
  have h0 : Blk M M r c 0 := ⟨hM, rfl, rfl, SameSpan.refl M, fun _ _ => rfl, hlow, hr,
    fun l u hl => absurd hl (Nat.not_lt_zero _)⟩
  obtain ⟨_, i2, i3, i4⟩ := fullCols_spec (endRow := endRow) k 0 M h0 he
  unfold gaussSubmatrixFull
  simp only [Nat.add_zero, Nat.zero_add] at i2 i3 i4
  exact ⟨i2, i3, i4⟩

/-! ## §2 the tables and `mzd_process_rows*` -/

theorem combRows_congr (rows : Array Nat) (r mask : Nat) : ∀ (k x y : Nat),
    (∀ j, j < k → x.testBit j = y.testBit j) → combRows rows r mask k x = combRows rows r mask k y := by
  intro k
  induction k with
  | zero => intro x y _; rfl
  | succ k ih =>
    intro x y h
    rw [combRows, combRows, ih x y (fun j hj => h j (by omega)), h k (by omega)]

theorem combRows_mod (rows : Array Nat) (r mask k x : Nat) :
    combRows rows r mask k (x % 2 ^ k) = combRows rows r mask k x := by
  apply combRows_congr
  intro j hj
  rw [Nat.testBit_mod_two_pow]; simp [hj]

/-- splitting the selector: the first `a` rows with the low `a` bits, the other rows with the rest -/
theorem combRows_split (rows : Array Nat) (r mask a : Nat) : ∀ (b x : Nat),
    combRows rows r mask (a + b) x =
      combRows rows r mask a x ^^^ combRows rows (r + a) mask b (x >>> a) := by
  intro b
  induction b with
  | zero => intro x; simp [combRows]
  | succ b ih =>
    intro x
    rw [← Nat.add_assoc, combRows, ih, combRows, Nat.testBit_shiftRight, Nat.xor_assoc, Nat.add_assoc r a b]

theorem buildOrd_zero (k : Nat) : (buildOrd k).getD 0 0 = 0 := by
  rw [getD_buildOrd k 0 (Nat.two_pow_pos k)]; rfl

/-- the tables of `makeTables` looked up through `applyTables` give the XOR of the selected source rows,
    and when all indices are 0 that XOR is 0 (so the skipped rows of `mzd_process_rows2..6` lose nothing) -/
theorem applyTables_spec (M : BMat) (r c : Nat) (junk : Nat → Nat) : ∀ (chs : List Nat) (off bits : Nat),
    r + off + chs.sum ≤ M.nrows →
    (applyTables (makeTables M r c junk chs off) bits).1 =
      combRows M.rows (r + off) (colMask c M.ncols) chs.sum bits ∧
    ((applyTables (makeTables M r c junk chs off) bits).2 = true →
      (applyTables (makeTables M r c junk chs off) bits).1 = 0) := by
  intro chs
  induction chs with
  | nil => intro off bits _; simp [makeTables, applyTables, combRows]
  | cons ka rest ih =>
    intro off bits hle
    simp only [List.sum_cons] at hle
    obtain ⟨ih1, ih2⟩ := ih (off + ka) (bits >>> ka) (by omega)
    simp only [makeTables, applyTables, List.sum_cons]
    have hx : bits % 2 ^ ka < 2 ^ ka := Nat.mod_lt _ (Nat.two_pow_pos ka)
    obtain ⟨_, _, _, l4, l5⟩ := makeTable_lookup M.rows M.nrows M.ncols (r + off) c ka
      (freshTable ka junk).1 (freshTable ka junk).2 (by omega)
      (by simp [freshTable]) (by simp [freshTable])
      (by simp [freshTable, Array.getD, Nat.two_pow_pos]) (bits % 2 ^ ka) hx
    rw [l5, combRows_mod, ih1, combRows_split, Nat.add_assoc]
    refine ⟨rfl, fun hz => ?_⟩
    rw [Bool.and_eq_true] at hz
    obtain ⟨hz1, hz2⟩ := hz
    have hz1 : (makeTable M.rows M.nrows M.ncols (r + off) c ka (freshTable ka junk).1
        (freshTable ka junk).2).2.getD (bits % 2 ^ ka) 0 = 0 := by simpa using hz1
    rw [hz1, buildOrd_zero] at l4
    rw [← ih1, ih2 hz2, Nat.xor_zero, ← combRows_mod, ← l4, combRows_zero]

/-- the value written by `mzd_process_rows*` into a row `v`: `v` plus the combination of the pivot rows
    `r .. r+k-1` of `M1` selected by the bits of `v` in the columns `c .. c+k-1` -/
def redRow (M1 : BMat) (r c k v : Nat) : Nat :=
  v ^^^ combRows M1.rows r (colMask c M1.ncols) k (bitsAt v c k)

theorem foldl_select (f g : Nat → Bool) (u : Nat) : ∀ k, (∀ j, j < k → g j = decide (j = u)) →
    (List.range k).foldl (fun acc j => acc ^^ (f j && g j)) false = (decide (u < k) && f u) := by
  intro k
  induction k with
  | zero => intro _; simp
  | succ k ih =>
    intro h
    rw [foldl_range_succ, ih (fun j hj => h j (by omega)), h k (by omega)]
    by_cases e : k = u
    · subst e; simp
    · have h1 : decide (u < k + 1) = decide (u < k) := by
        apply decide_eq_decide.mpr; omega
      simp [e, h1]

theorem redRow_low (M1 : BMat) (r c k v p : Nat) (hp : p < c) :
    (redRow M1 r c k v).testBit p = v.testBit p := by
  unfold redRow
  rw [Nat.testBit_xor, combRows_testBit, colMask_testBit]
  have : ¬ c ≤ p := by omega
  simp [this]

theorem redRow_lt (M1 : BMat) (r c k : Nat) {v : Nat} (hv : v < 2 ^ M1.ncols) :
    redRow M1 r c k v < 2 ^ M1.ncols := by
  unfold redRow
  apply Nat.xor_lt_two_pow hv
  apply Nat.lt_pow_two_of_testBit
  intro p hp
  rw [combRows_testBit, colMask_testBit]
  have : ¬ p < M1.ncols := by omega
  simp [this]

theorem redRow_blk {M0 M1 : BMat} {r c k : Nat} (h : Blk M0 M1 r c k) (hck : c + k ≤ M1.ncols)
    (v u : Nat) (hu : u < k) : (redRow M1 r c k v).testBit (c + u) = false := by
  unfold redRow
  rw [Nat.testBit_xor, combRows_testBit, colMask_testBit,
    foldl_select _ (fun j => (M1.rows.getD (r + j) 0).testBit (c + u)) u k
      (fun j hj => h.idn j u hj hu), testBit_bitsAt]
  have h1 : c ≤ c + u := by omega
  have h2 : c + u < M1.ncols := by omega
  simp [hu, h1, h2]

/-- the pivot rows are not changed by the column mask of `mzd_make_table` -/
theorem Blk.mask_row {M0 M1 : BMat} {r c k : Nat} (h : Blk M0 M1 r c k) (l : Nat) :
    M1.row (r + l) &&& colMask c M1.ncols = M1.row (r + l) := by
  apply Nat.eq_of_testBit_eq
  intro p
  rw [Nat.testBit_and, colMask_testBit]
  by_cases h1 : p < c
  · have : (M1.row (r + l)).testBit p = false := h.low (r + l) (by omega) p h1
    simp [this]
  · by_cases h2 : p < M1.ncols
    · have h1' : c ≤ p := by omega
      simp [h1', h2]
    · have : (M1.row (r + l)).testBit p = false := get_of_ge_ncols h.wf (r + l) p (by omega)
      simp [this]

theorem comb_span {M0 M1 : BMat} {r c k : Nat} (h : Blk M0 M1 r c k) {L : List Nat}
    (hL : ∀ l, l < k → InSpan L (M1.row (r + l))) (x : Nat) : ∀ k', k' ≤ k →
    InSpan L (combRows M1.rows r (colMask c M1.ncols) k' x) := by
  intro k'
  induction k' with
  | zero => intro _; exact InSpan.zero
  | succ k' ih =>
    intro hk
    rw [combRows]
    apply (ih (by omega)).xor
    split
    · have := h.mask_row k'
      unfold row at this
      rw [this]
      exact hL k' (by omega)
    · exact InSpan.zero

/-- a row-wise update loop: `g M i` rewrites row `i` as a function `φ` of its current value -/
theorem foldl_rows (g : BMat → Nat → BMat) (φ : Nat → Nat)
    (hg : ∀ (M : BMat) (i : Nat), i < M.rows.size → (g M i).rows.size = M.rows.size ∧
      (g M i).nrows = M.nrows ∧ (g M i).ncols = M.ncols ∧
      ∀ k, (g M i).row k = if k = i then φ (M.row i) else M.row k) :
    ∀ (n s : Nat) (M : BMat), (n ≠ 0 → s + n ≤ M.rows.size) →
      ((List.range' s n).foldl g M).rows.size = M.rows.size ∧
      ((List.range' s n).foldl g M).nrows = M.nrows ∧ ((List.range' s n).foldl g M).ncols = M.ncols ∧
      ∀ k, ((List.range' s n).foldl g M).row k = if s ≤ k ∧ k < s + n then φ (M.row k) else M.row k := by
  intro n
  induction n with
  | zero =>
    intro s M _
    simp only [List.range'_zero, List.foldl_nil]
    exact ⟨trivial, trivial, trivial, fun k => by rw [if_neg (by omega)]⟩
  | succ n ih =>
    intro s M hs
    have hs := hs (by omega)
    rw [List.range'_succ, List.foldl_cons]
    obtain ⟨g1, g2, g3, g4⟩ := hg M s (by omega)
    obtain ⟨i1, i2, i3, i4⟩ := ih (s + 1) (g M s) (fun _ => by omega)
    refine ⟨i1.trans g1, i2.trans g2, i3.trans g3, fun k => ?_⟩
    rw [i4, g4]
    by_cases e : k = s
    · subst e
      rw [if_neg (by omega), if_pos rfl, if_pos (by omega)]
    · rw [if_neg e]
      by_cases h1 : s + 1 ≤ k ∧ k < s + 1 + n
      · rw [if_pos h1, if_pos (by omega)]
      · rw [if_neg h1, if_neg (by omega)]

/-- `mzd_process_rows*` row by row -/
theorem processRows_row (M1 : BMat) (r c : Nat) (junk : Nat → Nat) (chs : List Nat)
    (hle : r + chs.sum ≤ M1.nrows) (M : BMat) (s e : Nat) (he : e ≤ M.rows.size) :
    (processRows M s e c chs.sum (makeTables M1 r c junk chs 0)).rows.size = M.rows.size ∧
    (processRows M s e c chs.sum (makeTables M1 r c junk chs 0)).nrows = M.nrows ∧
    (processRows M s e c chs.sum (makeTables M1 r c junk chs 0)).ncols = M.ncols ∧
    ∀ k, (processRows M s e c chs.sum (makeTables M1 r c junk chs 0)).row k =
      if s ≤ k ∧ k < e then redRow M1 r c chs.sum (M.row k) else M.row k := by
  unfold processRows
  have key := foldl_rows
    (fun M i =>
      if ((makeTables M1 r c junk chs 0).length ≥ 2 &&
          (applyTables (makeTables M1 r c junk chs 0) (bitsAt (M.row i) c chs.sum)).2) = true then M
      else M.setRow i (M.row i ^^^
        (applyTables (makeTables M1 r c junk chs 0) (bitsAt (M.row i) c chs.sum)).1))
    (redRow M1 r c chs.sum) ?_ (e - s) s M (fun _ => by omega)
  · obtain ⟨k1, k2, k3, k4⟩ := key
    refine ⟨k1, k2, k3, fun k => ?_⟩
    rw [k4]
    by_cases h : s ≤ k ∧ k < e
    · rw [if_pos h, if_pos (by omega)]
    · rw [if_neg h, if_neg (by omega)]
  · intro M i hi
    obtain ⟨a1, a2⟩ := applyTables_spec M1 r c junk chs 0 (bitsAt (M.row i) c chs.sum) (by omega)
    simp only [Nat.add_zero] at a1
    split
    · rename_i hz
      rw [Bool.and_eq_true] at hz
      refine ⟨rfl, rfl, rfl, fun k => ?_⟩
      split
      · rename_i e
        subst e
        unfold redRow
        rw [← a1, a2 hz.2, Nat.xor_zero]
      · rfl
    · refine ⟨size_setRow _ _ _, rfl, rfl, fun k => ?_⟩
      rw [row_setRow]
      by_cases e : k = i
      · rw [if_pos ⟨e, hi⟩, if_pos e, a1]; rfl
      · rw [if_neg (fun h => e h.1), if_neg e]

/-- **`mzd_process_rows*`** with the tables of the identity block of `M1`, applied to rows outside the
    block of a matrix `M` that agrees with `M1` on the block: shape and row space are kept, the processed
    rows become `redRow` of themselves -/
theorem processRows_spec {M0 M1 : BMat} {r c kb : Nat} (junk : Nat → Nat) (chs : List Nat)
    (hsum : chs.sum = kb) (h : Blk M0 M1 r c kb) {M : BMat} (hM : M.WF) (hnr : M.nrows = M1.nrows)
    (hnc : M.ncols = M1.ncols) (hag : ∀ l, l < kb → M.row (r + l) = M1.row (r + l))
    (s e : Nat) (he : e ≤ M.nrows) (hdis : e ≤ r ∨ r + kb ≤ s) :
    (processRows M s e c kb (makeTables M1 r c junk chs 0)).WF ∧
    (processRows M s e c kb (makeTables M1 r c junk chs 0)).nrows = M.nrows ∧
    (processRows M s e c kb (makeTables M1 r c junk chs 0)).ncols = M.ncols ∧
    SameSpan M (processRows M s e c kb (makeTables M1 r c junk chs 0)) ∧
    ∀ k, (processRows M s e c kb (makeTables M1 r c junk chs 0)).row k =
      if s ≤ k ∧ k < e then redRow M1 r c kb (M.row k) else M.row k := by
  subst hsum
  obtain ⟨p1, p2, p3, p4⟩ := processRows_row M1 r c junk chs h.le M s e (by rw [hM.1]; exact he)
  generalize processRows M s e c chs.sum (makeTables M1 r c junk chs 0) = N at p1 p2 p3 p4 ⊢
  have hpiv : ∀ l, l < chs.sum → N.row (r + l) = M1.row (r + l) := by
    intro l hl
    rw [p4, if_neg (by omega)]; exact hag l hl
  have hle := h.le
  refine ⟨⟨by rw [p1, hM.1, p2], fun k => ?_⟩, p2, p3, ?_, p4⟩
  · rw [p4, p3]
    split
    · rw [hnc]; exact redRow_lt M1 r c _ (by rw [← hnc]; exact hM.2 k)
    · exact hM.2 k
  · apply sameSpan_of_rows
    · intro i hi
      by_cases hr : s ≤ i ∧ i < e
      · have hc : InSpan N.rowList (combRows M1.rows r (colMask c M1.ncols) chs.sum
            (bitsAt (M.row i) c chs.sum)) :=
          comb_span h (fun l hl => by
            rw [← hpiv l hl]; exact row_inSpan N (r + l) (by omega)) _ _ (Nat.le_refl _)
        have hN := (row_inSpan N i (by omega)).xor hc
        rw [p4, if_pos hr] at hN
        unfold redRow at hN
        rwa [Nat.xor_assoc, Nat.xor_self, Nat.xor_zero] at hN
      · have hN := row_inSpan N i (by omega)
        rwa [p4, if_neg hr] at hN
    · intro i hi
      rw [p4]
      split
      · unfold redRow
        apply (row_inSpan M i (by omega)).xor
        exact comb_span h (fun l hl => by
          rw [← hag l hl]; exact row_inSpan M (r + l) (by omega)) _ _ (Nat.le_refl _)
      · exact row_inSpan M i (by omega)

theorem chunks_sum (k kbar : Nat) : (chunks k kbar).sum = kbar := by
  unfold chunks
  repeat' split
  all_goals simp only [List.sum_cons, List.sum_nil]
  all_goals (repeat' split)
  all_goals omega

/-! ## §3 `mzd_find_pivot` on rows-as-Nat -/

theorem findSome_range' {β : Type} (f : Nat → Option β) : ∀ (n s : Nat),
    ((List.range' s n).findSome? f = none → ∀ j, s ≤ j → j < s + n → f j = none) ∧
    (∀ b, (List.range' s n).findSome? f = some b →
      ∃ j, s ≤ j ∧ j < s + n ∧ f j = some b ∧ ∀ j', s ≤ j' → j' < j → f j' = none) := by
  intro n
  induction n with
  | zero =>
    intro s
    simp only [List.range'_zero, List.findSome?_nil]
    exact ⟨fun _ j h1 h2 => absurd h2 (by omega), fun b hb => by cases hb⟩
  | succ n ih =>
    intro s
    rw [List.range'_succ, List.findSome?_cons]
    obtain ⟨i1, i2⟩ := ih (s + 1)
    cases hf : f s with
    | none =>
      simp only
      refine ⟨fun hn j h1 h2 => ?_, fun b hb => ?_⟩
      · by_cases e : j = s
        · rw [e]; exact hf
        · exact i1 hn j (by omega) (by omega)
      · obtain ⟨j, j1, j2, j3, j4⟩ := i2 b hb
        refine ⟨j, by omega, by omega, j3, fun j' h1 h2 => ?_⟩
        by_cases e : j' = s
        · rw [e]; exact hf
        · exact j4 j' (by omega) h2
    | some b0 =>
      simp only
      refine ⟨fun hn => (by cases hn), fun b hb => ?_⟩
      refine ⟨s, Nat.le_refl _, by omega, ?_, fun j' h1 h2 => absurd h2 (by omega)⟩
      rw [hf]; exact hb

/-- `mzd_find_pivot` returning 0: the rows `≥ r` are zero from column `c` on -/
theorem findPivotB_none {M : BMat} (hM : M.WF) {r c : Nat} (h : findPivotB M r c = none) :
    ∀ i, r ≤ i → ∀ j, c ≤ j → M.get i j = false := by
  intro i hi j hj
  by_cases hin : i < M.nrows
  · by_cases hjn : j < M.ncols
    · have := (findSome_range' _ (M.ncols - c) c).1 h j hj (by omega)
      rw [Option.map_eq_none_iff, List.find?_range'_eq_none] at this
      simpa using this i hi (by omega)
    · exact get_of_ge_ncols hM i j (by omega)
  · exact get_of_ge_nrows hM i j (by omega)

/-- `mzd_find_pivot` returning `(rbar, cbar)`: a one in the region, and the rows `≥ r` are zero in the
    columns `c .. cbar-1` -/
theorem findPivotB_some {M : BMat} (hM : M.WF) {r c rb cb : Nat} (h : findPivotB M r c = some (rb, cb)) :
    r ≤ rb ∧ rb < M.nrows ∧ c ≤ cb ∧ cb < M.ncols ∧ M.get rb cb = true ∧
    ∀ i, r ≤ i → ∀ j, c ≤ j → j < cb → M.get i j = false := by
  obtain ⟨j, j1, j2, j3, j4⟩ := (findSome_range' _ (M.ncols - c) c).2 _ h
  rw [Option.map_eq_some_iff] at j3
  obtain ⟨i0, hi0, e⟩ := j3
  cases e
  rw [List.find?_range'_eq_some] at hi0
  obtain ⟨g1, g2, _⟩ := hi0
  rw [List.mem_range'_1] at g2
  refine ⟨g2.1, by omega, j1, by omega, g1, fun i hi j' hj1 hj2 => ?_⟩
  by_cases hin : i < M.nrows
  · have := j4 j' hj1 hj2
    rw [Option.map_eq_none_iff, List.find?_range'_eq_none] at this
    simpa using this i hi (by omega)
  · exact get_of_ge_nrows hM i j' (by omega)

/-! ## §4 the invariant of the main loop of `_mzd_echelonize_m4ri` -/

/-- state `(M, r, c)` of the main loop: same shape and row space as the input `A`; the rows `≥ r` vanish
    left of column `c`; each of the first `r` rows has a leading one, in a column `< c`, and the later rows
    vanish up to and including that column; with `full` the earlier rows vanish in that column as well. -/
structure OInv (full : Bool) (A M : BMat) (r c : Nat) : Prop where
  wf : M.WF
  nr : M.nrows = A.nrows
  nc : M.ncols = A.ncols
  span : SameSpan A M
  rle : r ≤ M.nrows
  cle : c ≤ M.ncols
  low : ∀ i, r ≤ i → ∀ p, p < c → M.get i p = false
  nz : ∀ i, i < r → ∃ p, IsLead (M.row i) p
  ech : ∀ i, i < r → ∀ p, IsLead (M.row i) p → p < c ∧ ∀ i', i < i' → ∀ q, q ≤ p → M.get i' q = false
  red : full = true → ∀ i, i < r → ∀ p, IsLead (M.row i) p → ∀ i', i' < i → M.get i' p = false

theorem OInv.init {A : BMat} (hA : A.WF) (full : Bool) : OInv full A A 0 0 :=
  ⟨hA, rfl, rfl, SameSpan.refl A, Nat.zero_le _, Nat.zero_le _,
    fun _ _ p hp => absurd hp (Nat.not_lt_zero p), fun i hi => absurd hi (Nat.not_lt_zero i),
    fun i hi => absurd hi (Nat.not_lt_zero i), fun _ i hi => absurd hi (Nat.not_lt_zero i)⟩

theorem isLead_of_agree {v w p : Nat} (h : IsLead v p) (hag : ∀ q, q ≤ p → w.testBit q = v.testBit q) :
    IsLead w p :=
  ⟨by rw [hag p (Nat.le_refl _)]; exact h.1, fun j hj => by rw [hag j (by omega)]; exact h.2 j hj⟩

/-- one pass of the main loop in abstract form: `kb` new pivot rows `r .. r+kb-1` with leading ones in the
    columns `c .. c+kb-1` -/
theorem OInv.advance {full : Bool} {A M M' : BMat} {r c kb : Nat} (h : OInv full A M r c)
    (wf' : M'.WF) (nr' : M'.nrows = M.nrows) (nc' : M'.ncols = M.ncols) (sp : SameSpan M M')
    (hr : r + kb ≤ M.nrows) (hc : c + kb ≤ M.ncols)
    (a : ∀ i, i < r → ∀ p, p < c → M'.get i p = M.get i p)
    (b : ∀ i, r ≤ i → ∀ p, p < c → M'.get i p = false)
    (d1 : ∀ l, l < kb → M'.get (r + l) (c + l) = true)
    (d2 : ∀ l u, l < kb → u < l → M'.get (r + l) (c + u) = false)
    (e : ∀ i, r + kb ≤ i → ∀ u, u < kb → M'.get i (c + u) = false)
    (g1 : full = true → ∀ i, i < r → ∀ u, u < kb → M'.get i (c + u) = false)
    (g2 : full = true → ∀ l u, l < u → u < kb → M'.get (r + l) (c + u) = false) :
    OInv full A M' (r + kb) (c + kb) := by
  have old : ∀ i, i < r → ∃ p0, IsLead (M.row i) p0 ∧ p0 < c ∧ IsLead (M'.row i) p0 := by
    intro i hi
    obtain ⟨p0, hp0⟩ := h.nz i hi
    have hlt := (h.ech i hi p0 hp0).1
    exact ⟨p0, hp0, hlt, isLead_of_agree hp0 (fun q hq => a i hi q (by omega))⟩
  have new : ∀ l, l < kb → IsLead (M'.row (r + l)) (c + l) := by
    intro l hl
    refine ⟨d1 l hl, fun j hj => ?_⟩
    by_cases hjc : j < c
    · exact b (r + l) (by omega) j hjc
    · obtain ⟨u, rfl⟩ : ∃ u, j = c + u := ⟨j - c, by omega⟩
      exact d2 l u hl (by omega)
  refine ⟨wf', nr'.trans h.nr, nc'.trans h.nc, h.span.trans sp, by omega, by omega, ?_, ?_, ?_, ?_⟩
  · intro i hi p hp
    by_cases hpc : p < c
    · exact b i (by omega) p hpc
    · obtain ⟨u, rfl⟩ : ∃ u, p = c + u := ⟨p - c, by omega⟩
      exact e i hi u (by omega)
  · intro i hi
    by_cases hir : i < r
    · obtain ⟨p0, _, _, h3⟩ := old i hir
      exact ⟨p0, h3⟩
    · obtain ⟨l, rfl⟩ : ∃ l, i = r + l := ⟨i - r, by omega⟩
      exact ⟨c + l, new l (by omega)⟩
  · intro i hi p hp
    by_cases hir : i < r
    · obtain ⟨p0, h1, h2, h3⟩ := old i hir
      have : p = p0 := hp.unique h3
      subst this
      refine ⟨by omega, fun i' hi' q hq => ?_⟩
      by_cases hi'r : i' < r
      · rw [a i' hi'r q (by omega)]
        exact (h.ech i hir p h1).2 i' hi' q hq
      · exact b i' (by omega) q (by omega)
    · obtain ⟨l, rfl⟩ : ∃ l, i = r + l := ⟨i - r, by omega⟩
      have hl : l < kb := by omega
      have : p = c + l := hp.unique (new l hl)
      subst this
      refine ⟨by omega, fun i' hi' q hq => ?_⟩
      by_cases hqc : q < c
      · exact b i' (by omega) q hqc
      · obtain ⟨u, rfl⟩ : ∃ u, q = c + u := ⟨q - c, by omega⟩
        by_cases hi'k : i' < r + kb
        · obtain ⟨l', rfl⟩ : ∃ l', i' = r + l' := ⟨i' - r, by omega⟩
          exact d2 l' u (by omega) (by omega)
        · exact e i' (by omega) u (by omega)
  · intro hf i hi p hp i' hi'
    by_cases hir : i < r
    · obtain ⟨p0, h1, h2, h3⟩ := old i hir
      have : p = p0 := hp.unique h3
      subst this
      rw [a i' (by omega) p h2]
      exact h.red hf i hir p h1 i' hi'
    · obtain ⟨l, rfl⟩ : ∃ l, i = r + l := ⟨i - r, by omega⟩
      have hl : l < kb := by omega
      have : p = c + l := hp.unique (new l hl)
      subst this
      by_cases hi'r : i' < r
      · exact g1 hf i' hi'r l hl
      · obtain ⟨l', rfl⟩ : ∃ l', i' = r + l' := ⟨i' - r, by omega⟩
        exact g2 hf l' l (by omega) hl

/-- after `mzd_find_pivot`: the zero region left of the new column, and the row swap among the rows `≥ r` -/
theorem OInv.swapWiden {full : Bool} {A M : BMat} {r c c2 : Nat} (h : OInv full A M r c) (hc : c ≤ c2)
    (hc2 : c2 ≤ M.ncols) (hz : ∀ i, r ≤ i → ∀ p, p < c2 → M.get i p = false) {a b : Nat}
    (ha : r ≤ a) (han : a < M.nrows) (hb : r ≤ b) (hbn : b < M.nrows) :
    OInv full A (M.swapRows a b) r c2 := by
  have hr := fun k => row_swapRows h.wf a b k han hbn
  have hsame : ∀ k, k < r → (M.swapRows a b).row k = M.row k := by
    intro k hk
    rw [hr, if_neg (by omega), if_neg (by omega)]
  have hget : ∀ k p, ∃ k', (k < r → k' = k) ∧ (r ≤ k → r ≤ k') ∧
      (M.swapRows a b).get k p = M.get k' p := by
    intro k p
    unfold get
    rw [hr]
    by_cases h1 : k = a
    · exact ⟨b, by omega, by omega, by rw [if_pos h1]⟩
    · by_cases h2 : k = b
      · exact ⟨a, by omega, by omega, by rw [if_neg h1, if_pos h2]⟩
      · exact ⟨k, by omega, by omega, by rw [if_neg h1, if_neg h2]⟩
  refine ⟨WF_swapRows h.wf a b, by simp [h.nr], by simp [h.nc],
    h.span.trans (sameSpan_swapRows h.wf a b han hbn), by simpa using h.rle, by simpa using hc2,
    ?_, ?_, ?_, ?_⟩
  · intro i hi p hp
    obtain ⟨k', _, k2, k3⟩ := hget i p
    rw [k3]; exact hz k' (k2 hi) p hp
  · intro i hi
    rw [hsame i hi]; exact h.nz i hi
  · intro i hi p hp
    rw [hsame i hi] at hp
    obtain ⟨e1, e2⟩ := h.ech i hi p hp
    refine ⟨by omega, fun i' hi' q hq => ?_⟩
    obtain ⟨k', k1, k2, k3⟩ := hget i' q
    rw [k3]
    by_cases hi'r : i' < r
    · rw [k1 hi'r]; exact e2 i' hi' q hq
    · exact e2 k' (by have := k2 (by omega); omega) q hq
  · intro hf i hi p hp i' hi'
    rw [hsame i hi] at hp
    unfold get
    rw [hsame i' (by omega)]
    exact h.red hf i hi p hp i' hi'

/-! ## §5 one pass, `full = 1` -/

/-- the body of the main loop for `full = 1` up to (excluding) `r += kbar; c += kbar` -/
def coreFull (k : Nat) (junk : Nat → Nat) (M : BMat) (r c kk : Nat) : BMat × Nat :=
  let Mk := gaussSubmatrixFull M r c M.nrows kk
  let tabs := makeTables Mk.1 r c junk (chunks k Mk.2) 0
  let M2 := if Mk.2 > 0 ∧ Mk.2 = kk then processRows Mk.1 (r + Mk.2) Mk.1.nrows c Mk.2 tabs else Mk.1
  let M3 := if Mk.2 > 0 then processRows M2 0 r c Mk.2 tabs else M2
  (M3, Mk.2)

theorem coreFull_spec {A M : BMat} {r c kk : Nat} (k : Nat) (junk : Nat → Nat) (h : OInv true A M r c)
    (hkk : c + kk ≤ M.ncols) :
    (coreFull k junk M r c kk).2 ≤ kk ∧
    OInv true A (coreFull k junk M r c kk).1 (r + (coreFull k junk M r c kk).2)
      (c + (coreFull k junk M r c kk).2) ∧
    ((coreFull k junk M r c kk).2 < kk → ∀ i, r + (coreFull k junk M r c kk).2 ≤ i →
      (coreFull k junk M r c kk).1.get i (c + (coreFull k junk M r c kk).2) = false) := by
  obtain ⟨G1, B, Z⟩ := gaussSubmatrixFull_spec h.wf h.rle (Nat.le_refl _) h.low (k := kk)
  unfold coreFull
  dsimp only
  generalize gaussSubmatrixFull M r c M.nrows kk = Mk at G1 B Z ⊢
  obtain ⟨M1, kb⟩ := Mk
  dsimp only at G1 B Z ⊢
  have hnr1 : M1.nrows = M.nrows := B.nr
  have hnc1 : M1.ncols = M.ncols := B.nc
  have hle := B.le
  -- rows at or beyond the end of the matrix are zero
  have Z' : kb < kk → ∀ i, r + kb ≤ i → ∀ u, u ≤ kb → M1.get i (c + u) = false := by
    intro hlt i hi u hu
    by_cases hin : i < M.nrows
    · exact Z hlt i hi hin u hu
    · exact get_of_ge_nrows B.wf i _ (by omega)
  by_cases hk0 : kb = 0
  · subst hk0
    simp only [Nat.lt_irrefl, gt_iff_lt, false_and, if_false, Nat.add_zero]
    refine ⟨G1, ?_, fun hlt i hi => by simpa using Z' hlt i (by simpa using hi) 0 (Nat.le_refl _)⟩
    have := h.advance (kb := 0) B.wf hnr1 hnc1 B.span (by simpa using h.rle) (by simpa using h.cle)
      (fun i hi p _ => by unfold get; rw [B.top i hi]) B.low
      (fun l hl => absurd hl (Nat.not_lt_zero _)) (fun l u hl => absurd hl (Nat.not_lt_zero _))
      (fun i _ u hu => absurd hu (Nat.not_lt_zero _)) (fun _ i _ u hu => absurd hu (Nat.not_lt_zero _))
      (fun _ l u _ hu => absurd hu (Nat.not_lt_zero _))
    simpa using this
  · have hkpos : kb > 0 := by omega
    have hck : c + kb ≤ M1.ncols := by omega
    simp only [hkpos, true_and, if_true]
    -- the rows below
    have F2 : ∃ M2, M2 = (if kb = kk then processRows M1 (r + kb) M1.nrows c kb
          (makeTables M1 r c junk (chunks k kb) 0) else M1) ∧
        M2.WF ∧ M2.nrows = M1.nrows ∧ M2.ncols = M1.ncols ∧ SameSpan M1 M2 ∧
        ∀ i, M2.row i = if kb = kk ∧ r + kb ≤ i ∧ i < M1.nrows then redRow M1 r c kb (M1.row i)
          else M1.row i := by
      refine ⟨_, rfl, ?_⟩
      by_cases hkk' : kb = kk
      · rw [if_pos hkk']
        obtain ⟨q1, q2, q3, q4, q5⟩ := processRows_spec junk (chunks k kb) (chunks_sum k kb) B
          (M := M1) B.wf rfl rfl (fun _ _ => rfl) (r + kb) M1.nrows (Nat.le_refl _)
          (Or.inr (Nat.le_refl _))
        refine ⟨q1, q2, q3, q4, fun i => ?_⟩
        rw [q5]
        by_cases hc : r + kb ≤ i ∧ i < M1.nrows
        · rw [if_pos hc, if_pos ⟨hkk', hc⟩]
        · rw [if_neg hc, if_neg (fun hh => hc hh.2)]
      · rw [if_neg hkk']
        exact ⟨B.wf, rfl, rfl, SameSpan.refl _, fun i => by rw [if_neg (fun hh => hkk' hh.1)]⟩
    obtain ⟨M2, hM2, w2, n2, c2, s2, r2⟩ := F2
    rw [← hM2]
    obtain ⟨w3, n3, c3, s3, r3⟩ := processRows_spec junk (chunks k kb) (chunks_sum k kb) B
      (M := M2) w2 n2 c2 (fun l hl => by rw [r2, if_neg (by omega)]) 0 r (by omega)
      (Or.inl (Nat.le_refl _))
    generalize processRows M2 0 r c kb (makeTables M1 r c junk (chunks k kb) 0) = M3 at w3 n3 c3 s3 r3 ⊢
    have hlowrow : ∀ i p, p < c → M3.get i p = M1.get i p := by
      intro i p hp
      unfold get
      rw [r3]
      have h2 : (M2.row i).testBit p = (M1.row i).testBit p := by
        rw [r2]; split
        · exact redRow_low _ _ _ _ _ _ hp
        · rfl
      split
      · rw [redRow_low _ _ _ _ _ _ hp, h2]
      · exact h2
    have hblk : ∀ l, l < kb → M3.row (r + l) = M1.row (r + l) := by
      intro l hl
      rw [r3, if_neg (by omega), r2, if_neg (by omega)]
    have hbelow : ∀ i, r + kb ≤ i → ∀ u, u < kb → M3.get i (c + u) = false := by
      intro i hi u hu
      unfold get
      rw [r3, if_neg (by omega), r2]
      split
      · exact redRow_blk B hck _ u hu
      · rename_i hn
        by_cases hin : i < M1.nrows
        · have : kb < kk := by
            rcases Nat.lt_or_ge kb kk with h1 | h1
            · exact h1
            · exact absurd ⟨Nat.le_antisymm G1 h1, hi, hin⟩ hn
          exact Z' this i hi u (by omega)
        · exact get_of_ge_nrows B.wf i _ (by omega)
    refine ⟨G1, ?_, ?_⟩
    · apply h.advance w3 (by omega) (by omega) (B.span.trans (s2.trans s3)) (by omega) (by omega)
      · intro i hi p hp
        rw [hlowrow i p hp]; unfold get; rw [B.top i hi]
      · intro i hi p hp
        rw [hlowrow i p hp]; exact B.low i hi p hp
      · intro l hl
        unfold get; rw [hblk l hl]
        have := B.idn l l hl hl
        unfold get at this
        rw [this]; simp
      · intro l u hl hu
        unfold get; rw [hblk l hl]
        have := B.idn l u hl (by omega)
        unfold get at this
        rw [this]; simp; omega
      · exact hbelow
      · intro _ i hi u hu
        unfold get
        rw [r3, if_pos ⟨Nat.zero_le _, hi⟩]
        exact redRow_blk B hck _ u hu
      · intro _ l u hlu hu
        unfold get; rw [hblk l (by omega)]
        have := B.idn l u (by omega) hu
        unfold get at this
        rw [this]; simp; omega
    · intro hlt i hi
      unfold get
      rw [r3, if_neg (by omega), r2, if_neg (by omega)]
      exact Z' hlt i hi kb (Nat.le_refl _)

/-! ## §6 the main loop -/

/-- the body of the main loop for `full = 0` up to (excluding) `r += kbar; c += kbar` -/
def coreEch (k : Nat) (junk : Nat → Nat) (M : BMat) (r c kk : Nat) : BMat × Nat :=
  let Mk := gaussSubmatrix M r c M.nrows kk
  let U := saveRows Mk.1 r Mk.2
  let M2 := (gaussSubmatrixTop Mk.1 r c Mk.2).1
  let tabs := makeTables M2 r c junk (chunks k Mk.2) 0
  let M3 := if Mk.2 > 0 ∧ Mk.2 = kk then processRows M2 (r + Mk.2) M2.nrows c Mk.2 tabs else M2
  (copyBackRows M3 U r c Mk.2, Mk.2)

/-- the body of the main loop up to (excluding) `r += kbar; c += kbar`, verbatim -/
def coreRaw (full : Bool) (k : Nat) (junk : Nat → Nat) (M : BMat) (r c kk : Nat) : BMat × Nat :=
  let Mk := if full then gaussSubmatrixFull M r c M.nrows kk else gaussSubmatrix M r c M.nrows kk
  let kbar := Mk.2
  let U := saveRows Mk.1 r kbar
  let M := if full then Mk.1 else (gaussSubmatrixTop Mk.1 r c kbar).1
  let tabs := makeTables M r c junk (chunks k kbar) 0
  let M := if kbar > 0 ∧ kbar = kk then processRows M (r + kbar) M.nrows c kbar tabs else M
  let M := if kbar > 0 ∧ full then processRows M 0 r c kbar tabs else M
  let M := if full then M else copyBackRows M U r c kbar
  (M, kbar)

/-- `if (c + kk > ncols) kk = ncols - c;` -/
def clip (s : St) : Nat := if s.c + s.kk > s.M.ncols then s.M.ncols - s.c else s.kk

/-- the end of the loop body: `r += kbar; c += kbar;` and the pivot search when `kk != kbar` -/
def stepOf (kk : Nat) (res : BMat × Nat) (r c : Nat) : St × Bool :=
  if kk ≠ res.2 then
    match findPivotB res.1 (r + res.2) (c + res.2) with
    | some (rbar, cbar) => (⟨res.1.swapRows (r + res.2) rbar, r + res.2, cbar, kk⟩, true)
    | none => (⟨res.1, r + res.2, c + res.2, kk⟩, false)
  else (⟨res.1, r + res.2, c + res.2, kk⟩, true)

theorem echStep_eq (full : Bool) (k : Nat) (junk : Nat → Nat) (s : St) :
    echStep full k junk s = stepOf (clip s) (coreRaw full k junk s.M s.r s.c (clip s)) s.r s.c := rfl

theorem coreRaw_true (k : Nat) (junk : Nat → Nat) (M : BMat) (r c kk : Nat) :
    coreRaw true k junk M r c kk = coreFull k junk M r c kk := by
  simp [coreRaw, coreFull]

theorem coreRaw_false (k : Nat) (junk : Nat → Nat) (M : BMat) (r c kk : Nat) :
    coreRaw false k junk M r c kk = coreEch k junk M r c kk := by
  simp [coreRaw, coreEch]

/-- what one pass establishes before the pivot search (proved below for `full = 1` and `full = 0`) -/
def CoreSpec (full : Bool) (k : Nat) (junk : Nat → Nat) : Prop :=
  ∀ (A M : BMat) (r c kk : Nat), OInv full A M r c → c + kk ≤ M.ncols →
    (coreRaw full k junk M r c kk).2 ≤ kk ∧
    OInv full A (coreRaw full k junk M r c kk).1 (r + (coreRaw full k junk M r c kk).2)
      (c + (coreRaw full k junk M r c kk).2) ∧
    ((coreRaw full k junk M r c kk).2 < kk → ∀ i, r + (coreRaw full k junk M r c kk).2 ≤ i →
      (coreRaw full k junk M r c kk).1.get i (c + (coreRaw full k junk M r c kk).2) = false)

theorem coreSpec_true (k : Nat) (junk : Nat → Nat) : CoreSpec true k junk := by
  intro A M r c kk h hkk
  rw [coreRaw_true]
  exact coreFull_spec k junk h hkk

/-- the state when the loop has ended -/
structure Done (full : Bool) (A R : BMat) (r : Nat) : Prop where
  wf : R.WF
  nr : R.nrows = A.nrows
  nc : R.ncols = A.ncols
  span : SameSpan A R
  rle : r ≤ R.nrows
  zero : ∀ i, r ≤ i → R.row i = 0
  nz : ∀ i, i < r → ∃ p, IsLead (R.row i) p
  ech : ∀ i, i < r → ∀ p, IsLead (R.row i) p → ∀ i', i < i' → ∀ q, q ≤ p → R.get i' q = false
  red : full = true → ∀ i, i < r → ∀ p, IsLead (R.row i) p → ∀ i', i' < i → R.get i' p = false

theorem Done.of_OInv {full : Bool} {A M : BMat} {r c : Nat} (h : OInv full A M r c)
    (hz : ∀ i, r ≤ i → ∀ p, M.get i p = false) : Done full A M r :=
  ⟨h.wf, h.nr, h.nc, h.span, h.rle,
    fun i hi => Nat.eq_of_testBit_eq (fun p => by rw [Nat.zero_testBit]; exact hz i hi p),
    h.nz, fun i hi p hp => (h.ech i hi p hp).2, h.red⟩

theorem echLoop_spec {full : Bool} {k : Nat} {junk : Nat → Nat} (CS : CoreSpec full k junk) {A : BMat} :
    ∀ (fuel : Nat) (s : St), OInv full A s.M s.r s.c → 1 ≤ s.kk → s.M.ncols - s.c < fuel →
      Done full A (echLoop full k junk fuel s).M (echLoop full k junk fuel s).r := by
  intro fuel
  induction fuel with
  | zero => intro s _ _ hf; exact absurd hf (Nat.not_lt_zero _)
  | succ fuel ih =>
    intro s h hkk hf
    rw [echLoop]
    by_cases hc : s.c < s.M.ncols
    · rw [if_pos hc]
      dsimp only
      rw [echStep_eq]
      have hclip1 : 1 ≤ clip s := by unfold clip; split <;> omega
      have hclip2 : s.c + clip s ≤ s.M.ncols := by unfold clip; split <;> omega
      obtain ⟨c1, c2, c3⟩ := CS A s.M s.r s.c (clip s) h hclip2
      generalize coreRaw full k junk s.M s.r s.c (clip s) = res at c1 c2 c3 ⊢
      obtain ⟨M', kb⟩ := res
      dsimp only at c1 c2 c3
      unfold stepOf
      dsimp only
      by_cases hne : clip s ≠ kb
      · rw [if_pos hne]
        have hlt : kb < clip s := by omega
        split
        · rename_i rb cb hfp
          obtain ⟨p1, p2, p3, p4, p5, p6⟩ := findPivotB_some c2.wf hfp
          dsimp only
          rw [if_pos rfl]
          have hnc : M'.ncols = s.M.ncols := by rw [c2.nc, h.nc]
          have hcb : s.c < cb := by
            rcases Nat.lt_or_ge s.c cb with h1 | h1
            · exact h1
            · exfalso
              have hk0 : kb = 0 := by omega
              subst hk0
              have : cb = s.c + 0 := by omega
              rw [this, c3 hlt rb p1] at p5
              exact Bool.noConfusion p5
          apply ih
          · dsimp only
            apply c2.swapWiden p3 (by omega) _ (Nat.le_refl _) (by omega) p1 p2
            intro i hi p hp
            by_cases hpc : p < s.c + kb
            · exact c2.low i hi p hpc
            · exact p6 i hi p (by omega) hp
          · exact hclip1
          · dsimp only
            rw [ncols_swapRows]
            omega
        · rename_i hfp
          dsimp only
          simp only [Bool.false_eq_true, if_false]
          apply Done.of_OInv c2
          intro i hi p
          by_cases hpc : p < s.c + kb
          · exact c2.low i hi p hpc
          · exact findPivotB_none c2.wf hfp i hi p (by omega)
      · rw [if_neg hne]
        dsimp only
        rw [if_pos rfl]
        have hnc : M'.ncols = s.M.ncols := by rw [c2.nc, h.nc]
        apply ih
        · exact c2
        · exact hclip1
        · dsimp only; omega
    · rw [if_neg hc]
      apply Done.of_OInv h
      intro i hi p
      by_cases hp : p < s.c
      · exact h.low i hi p hp
      · exact get_of_ge_ncols h.wf i p (by have := h.cle; omega)

/-! ## §7 consequences of `Done` -/

theorem Done.echRel {full : Bool} {A R : BMat} {r : Nat} (h : Done full A R r) (i j : Nat) (hij : i < j) :
    EchRel (R.row i) (R.row j) := by
  by_cases hi : i < r
  · refine ⟨fun h0 => ?_, fun p hp q hq => h.ech i hi p hp j hij q hq⟩
    obtain ⟨p, hp⟩ := h.nz i hi
    exact absurd h0 hp.ne_zero
  · refine ⟨fun _ => h.zero j (by omega), fun p hp => ?_⟩
    rw [h.zero i (by omega)] at hp
    exact absurd hp (not_isLead_zero p)

theorem Done.redRel {A R : BMat} {r : Nat} (h : Done true A R r) (i j : Nat) (hij : i < j) :
    RedRel (R.row i) (R.row j) := by
  intro p hp
  by_cases hj : j < r
  · exact h.red rfl j hj p hp i hij
  · rw [h.zero j (by omega)] at hp
    exact absurd hp (not_isLead_zero p)

theorem Done.isRowEchelon {full : Bool} {A R : BMat} {r : Nat} (h : Done full A R r) :
    R.isRowEchelon = true :=
  (isRowEchelon_iff_rows h.wf).mpr (fun i j hij _ => h.echRel i j hij)

theorem Done.isRREF {A R : BMat} {r : Nat} (h : Done true A R r) : R.isRREF = true :=
  (isRREF_iff_rows h.wf).mpr (fun i j hij _ => ⟨h.echRel i j hij, h.redRel i j hij⟩)

theorem Done.rank_eq {full : Bool} {A R : BMat} {r : Nat} (hA : A.WF) (h : Done full A R r) :
    r = A.rank := by
  rw [← count_eq_rank_of_isRowEchelon hA h.wf h.isRowEchelon h.span]
  unfold rowList
  rw [List.countP_map, countP_range_of_threshold _ r _ _ R.nrows]
  · exact (Nat.min_eq_left h.rle).symm
  · intro k hk
    obtain ⟨p, hp⟩ := h.nz k hk
    simpa using hp.ne_zero
  · intro k hk
    simpa using h.zero k hk

theorem Done.eq_rref {A R : BMat} {r : Nat} (hA : A.WF) (h : Done true A R r) : R = A.rref :=
  eq_rref_of_isRREF hA h.wf h.nr h.nc h.isRREF h.span

/-- the loop of `_mzd_echelonize_m4ri` ends in a `Done` state -/
theorem echelonizeM4ri_done {full : Bool} {k : Nat} {junk : Nat → Nat} (CS : CoreSpec full k junk)
    {A : BMat} (hA : A.WF) (hk : 1 ≤ k) :
    Done full A (echelonizeM4ri A full k junk).1 (echelonizeM4ri A full k junk).2 := by
  unfold echelonizeM4ri
  exact echLoop_spec CS (A.ncols + 1) ⟨A, 0, 0, 6 * k⟩ (OInv.init hA full) (by show 1 ≤ 6 * k; omega)
    (by show A.ncols - 0 < A.ncols + 1; omega)

/-! ## §8 **C02 for `_mzd_echelonize_m4ri(A, 1, k, 0, _)`** (any `k ≥ 1`, in particular `6k ≤ 64`) -/

section FullTrue
variable {A : BMat} (hA : A.WF) {k : Nat} (hk : 1 ≤ k) (junk : Nat → Nat)
include hA hk

theorem echelonizeM4ri_full_WF : (echelonizeM4ri A true k junk).1.WF :=
  (echelonizeM4ri_done (coreSpec_true k junk) hA hk).wf
theorem echelonizeM4ri_full_nrows : (echelonizeM4ri A true k junk).1.nrows = A.nrows :=
  (echelonizeM4ri_done (coreSpec_true k junk) hA hk).nr
theorem echelonizeM4ri_full_ncols : (echelonizeM4ri A true k junk).1.ncols = A.ncols :=
  (echelonizeM4ri_done (coreSpec_true k junk) hA hk).nc
/-- the row space is preserved -/
theorem echelonizeM4ri_full_sameSpan : SameSpan A (echelonizeM4ri A true k junk).1 :=
  (echelonizeM4ri_done (coreSpec_true k junk) hA hk).span
/-- the result is in row echelon form -/
theorem echelonizeM4ri_full_isRowEchelon : (echelonizeM4ri A true k junk).1.isRowEchelon = true :=
  (echelonizeM4ri_done (coreSpec_true k junk) hA hk).isRowEchelon
/-- the result is in reduced row echelon form -/
theorem echelonizeM4ri_full_isRREF : (echelonizeM4ri A true k junk).1.isRREF = true :=
  (echelonizeM4ri_done (coreSpec_true k junk) hA hk).isRREF
/-- the returned value is the rank -/
theorem echelonizeM4ri_full_rank : (echelonizeM4ri A true k junk).2 = A.rank :=
  (echelonizeM4ri_done (coreSpec_true k junk) hA hk).rank_eq hA
/-- the rows from the rank on are zero -/
theorem echelonizeM4ri_full_row_eq_zero (i : Nat) (hi : (echelonizeM4ri A true k junk).2 ≤ i) :
    (echelonizeM4ri A true k junk).1.row i = 0 :=
  (echelonizeM4ri_done (coreSpec_true k junk) hA hk).zero i hi
/-- **M4RI with `full = 1` computes THE reduced row echelon form**, the same matrix as the naive routine -/
theorem echelonizeM4ri_full_eq_rref : (echelonizeM4ri A true k junk).1 = A.rref :=
  (echelonizeM4ri_done (coreSpec_true k junk) hA hk).eq_rref hA
/-- in terms of the checker used by the differential tests -/
theorem echelonizeM4ri_full_check :
    checkEchelon A (echelonizeM4ri A true k junk).1 (echelonizeM4ri A true k junk).2 true = true := by
  rw [echelonizeM4ri_full_eq_rref hA hk junk, echelonizeM4ri_full_rank hA hk junk]
  exact checkEchelon_rref hA

end FullTrue

/-- non-vacuity: a well-formed 3×4 matrix, `k = 1` (`6k ≤ 64`) -/
example : (echelonizeM4ri ⟨3, 4, #[6, 3, 5]⟩ true 1).1 = (⟨3, 4, #[6, 3, 5]⟩ : BMat).rref :=
  echelonizeM4ri_full_eq_rref wf_example (Nat.le_refl 1) _

/-! ## §9 `full = 0`: `_mzd_gauss_submatrix` -/

/-- as `Blk`, with a unit upper triangular block instead of the identity block -/
structure Tri (M0 M : BMat) (r c t : Nat) : Prop where
  wf : M.WF
  nr : M.nrows = M0.nrows
  nc : M.ncols = M0.ncols
  span : SameSpan M0 M
  top : ∀ i, i < r → M.row i = M0.row i
  low : ∀ i, r ≤ i → ∀ p, p < c → M.get i p = false
  le : r + t ≤ M.nrows
  diag : ∀ l, l < t → M.get (r + l) (c + l) = true
  ltri : ∀ l u, l < t → u < l → M.get (r + l) (c + u) = false

theorem Tri.pivLow {M0 M : BMat} {r c t : Nat} (h : Tri M0 M r c t) {l : Nat} (hl : l < t) :
    ∀ j, j < c + l → M.get (r + l) j = false := by
  intro j hj
  by_cases hjc : j < c
  · exact h.low _ (by omega) _ hjc
  · obtain ⟨u, rfl⟩ : ∃ u, j = c + u := ⟨j - c, by omega⟩
    exact h.ltri l u hl (by omega)

theorem Tri.addPiv {M0 M : BMat} {r c t : Nat} (h : Tri M0 M r c t) {i l : Nat} (hi : r + t ≤ i)
    (hin : i < M.nrows) (hl : l < t) :
    Tri M0 (M.addRowFrom i (r + l) (c + l)) r c t ∧
    (∀ k p, (M.addRowFrom i (r + l) (c + l)).get k p =
      if k = i then (M.get i p ^^ M.get (r + l) p) else M.get k p) := by
  obtain ⟨f1, f2, f3, f4⟩ := add_facts h.wf i (r + l) (c + l) hin (by have := h.le; omega) (by omega)
    (h.pivLow hl)
  refine ⟨⟨f1, h.nr, h.nc, h.span.trans f2, ?_, ?_, h.le, ?_, ?_⟩, f4⟩
  · intro k hk
    rw [f3, if_neg (by omega)]; exact h.top k hk
  · intro k hk p hp
    rw [f4]
    split
    · rw [h.low i (by omega) p hp, h.low (r + l) (by omega) p hp]; rfl
    · exact h.low k hk p hp
  · intro l' hl'
    rw [f4, if_neg (by omega)]; exact h.diag l' hl'
  · intro l' u hl' hu
    rw [f4, if_neg (by omega)]; exact h.ltri l' u hl' hu

theorem Tri.swap {M0 M : BMat} {r c t : Nat} (h : Tri M0 M r c t) {a b : Nat} (ha : r + t ≤ a)
    (han : a < M.nrows) (hb : r + t ≤ b) (hbn : b < M.nrows) :
    Tri M0 (M.swapRows a b) r c t ∧
    (∀ k, (M.swapRows a b).row k = if k = a then M.row b else if k = b then M.row a else M.row k) := by
  have hr := fun k => row_swapRows h.wf a b k han hbn
  refine ⟨⟨WF_swapRows h.wf a b, by simp [h.nr], by simp [h.nc],
    h.span.trans (sameSpan_swapRows h.wf a b han hbn), ?_, ?_, by simpa using h.le, ?_, ?_⟩, hr⟩
  · intro k hk
    rw [hr, if_neg (by omega), if_neg (by omega)]; exact h.top k hk
  · intro k hk p hp
    unfold get
    rw [hr]
    split
    · exact h.low b (by omega) p hp
    · split
      · exact h.low a (by omega) p hp
      · exact h.low k hk p hp
  · intro l hl
    unfold get
    rw [hr, if_neg (by omega), if_neg (by omega)]; exact h.diag l hl
  · intro l u hl hu
    unfold get
    rw [hr, if_neg (by omega), if_neg (by omega)]; exact h.ltri l u hl hu

/-- `clearLive` on a row below the pivot rows: the row is cleared in the columns `c .. c+t-1` -/
theorem clearLive_spec {M0 M : BMat} {r c t : Nat} (h : Tri M0 M r c t) {i : Nat} (hi : r + t ≤ i)
    (hin : i < M.nrows) :
    Tri M0 (clearLive M i r c t) r c t ∧
    (∀ k, k ≠ i → (clearLive M i r c t).row k = M.row k) ∧
    (∀ u, u < t → (clearLive M i r c t).get i (c + u) = false) := by
  unfold clearLive
  suffices H : ∀ n, n ≤ t →
      Tri M0 ((List.range n).foldl
        (fun M l => if M.get i (c + l) then M.addRowFrom i (r + l) (c + l) else M) M) r c t ∧
      (∀ k, k ≠ i → ((List.range n).foldl
        (fun M l => if M.get i (c + l) then M.addRowFrom i (r + l) (c + l) else M) M).row k = M.row k) ∧
      (∀ u, u < n → ((List.range n).foldl
        (fun M l => if M.get i (c + l) then M.addRowFrom i (r + l) (c + l) else M) M).get i (c + u)
          = false) from H t (Nat.le_refl _)
  intro n
  induction n with
  | zero =>
    intro _
    exact ⟨h, fun _ _ => rfl, fun u hu => absurd hu (Nat.not_lt_zero _)⟩
  | succ n ih =>
    intro hn
    obtain ⟨b1, b2, b3⟩ := ih (by omega)
    rw [foldl_range_succ]
    generalize (List.range n).foldl
        (fun M l => if M.get i (c + l) then M.addRowFrom i (r + l) (c + l) else M) M = N at b1 b2 b3 ⊢
    by_cases hb : N.get i (c + n) = true
    · rw [if_pos hb]
      have hin' : i < N.nrows := by rw [b1.nr, ← h.nr]; exact hin
      obtain ⟨g1, g2⟩ := b1.addPiv hi hin' (show n < t by omega)
      refine ⟨g1, ?_, ?_⟩
      · intro k hk
        have e : (N.addRowFrom i (r + n) (c + n)).row k = N.row k := by
          apply Nat.eq_of_testBit_eq; intro p
          have := g2 k p
          unfold get at this
          rwa [if_neg hk] at this
        rw [e]; exact b2 k hk
      · intro u hu
        rw [g2, if_pos rfl]
        by_cases hun : u = n
        · subst hun
          rw [hb, b1.diag u (by omega)]; rfl
        · rw [b3 u (by omega), b1.ltri n u (by omega) (by omega)]; rfl
    · rw [if_neg hb]
      refine ⟨b1, b2, ?_⟩
      intro u hu
      by_cases hun : u = n
      · subst hun; simpa using hb
      · exact b3 u (by omega)

theorem subRows_spec {M0 : BMat} {r c t : Nat} : ∀ (n s : Nat) (M : BMat), Tri M0 M r c t → r + t ≤ s →
    s + n ≤ M.nrows → (∀ i, r + t ≤ i → i < s → ∀ u, u ≤ t → M.get i (c + u) = false) →
    ((subRows r c (c + t) (r + t) (List.range' s n) M).2 = true →
      Tri M0 (subRows r c (c + t) (r + t) (List.range' s n) M).1 r c (t + 1)) ∧
    ((subRows r c (c + t) (r + t) (List.range' s n) M).2 = false →
      Tri M0 (subRows r c (c + t) (r + t) (List.range' s n) M).1 r c t ∧
      ∀ i, r + t ≤ i → i < s + n → ∀ u, u ≤ t →
        (subRows r c (c + t) (r + t) (List.range' s n) M).1.get i (c + u) = false) := by
  intro n
  induction n with
  | zero =>
    intro s M h hs hn hv
    simp only [List.range'_zero, subRows]
    exact ⟨fun e => absurd e (by decide), fun _ => ⟨h, by simpa using hv⟩⟩
  | succ n ih =>
    intro s M h hs hn hv
    rw [List.range'_succ]
    simp only [subRows, Nat.add_sub_cancel_left]
    obtain ⟨c1, c2, c3⟩ := clearLive_spec h hs (show s < M.nrows by omega)
    generalize clearLive M s r c t = N at c1 c2 c3 ⊢
    have hNn : N.nrows = M.nrows := by rw [c1.nr, h.nr]
    by_cases hp : N.get s (c + t) = true
    · rw [if_pos hp]
      refine ⟨fun _ => ?_, fun e => Bool.noConfusion e⟩
      obtain ⟨d1, d2⟩ := c1.swap (a := s) (b := r + t) hs (by omega) (Nat.le_refl _) (by omega)
      have hrow : (N.swapRows s (r + t)).row (r + t) = N.row s := by
        rw [d2]
        split
        · rename_i e; rw [e]
        · rw [if_pos rfl]
      refine ⟨d1.wf, d1.nr, d1.nc, d1.span, d1.top, d1.low, by simp; omega, ?_, ?_⟩
      · intro l hl
        by_cases hlt : l < t
        · exact d1.diag l hlt
        · have : l = t := by omega
          subst this
          unfold get; rw [hrow]; exact hp
      · intro l u hl hu
        by_cases hlt : l < t
        · exact d1.ltri l u hlt hu
        · have : l = t := by omega
          subst this
          unfold get; rw [hrow]; exact c3 u hu
    · rw [if_neg hp]
      have key := ih (s + 1) N c1 (by omega) (by omega) ?_
      · rw [Nat.add_right_comm] at key; exact key
      intro i hi1 hi2 u hu
      by_cases e : i = s
      · subst e
        by_cases hut : u < t
        · exact c3 u hut
        · have : u = t := by omega
          subst this; simpa using hp
      · unfold get
        rw [c2 i e]
        exact hv i hi1 (by omega) u hu

theorem subCols_spec {M0 : BMat} {r c endRow : Nat} : ∀ (n t : Nat) (M : BMat), Tri M0 M r c t →
    endRow ≤ M.nrows →
    t ≤ (subCols r c endRow n (c + t) (r + t) M).2 ∧ (subCols r c endRow n (c + t) (r + t) M).2 ≤ t + n ∧
    Tri M0 (subCols r c endRow n (c + t) (r + t) M).1 r c (subCols r c endRow n (c + t) (r + t) M).2 ∧
    ((subCols r c endRow n (c + t) (r + t) M).2 < t + n →
      ∀ i, r + (subCols r c endRow n (c + t) (r + t) M).2 ≤ i → i < endRow →
        ∀ u, u ≤ (subCols r c endRow n (c + t) (r + t) M).2 →
          (subCols r c endRow n (c + t) (r + t) M).1.get i (c + u) = false) := by
  intro n
  induction n with
  | zero =>
    intro t M h he
    simp only [subCols, Nat.add_sub_cancel_left]
    exact ⟨Nat.le_refl _, Nat.le_refl _, h, fun hlt => absurd hlt (by omega)⟩
  | succ n ih =>
    intro t M h he
    rw [subCols]
    have hsp := subRows_spec (M0 := M0) (r := r) (c := c) (t := t) (endRow - (r + t)) (r + t) M h
      (Nat.le_refl _) (by have := h.le; omega) (fun i h1 h2 => absurd h2 (by omega))
    generalize subRows r c (c + t) (r + t) (List.range' (r + t) (endRow - (r + t))) M = res at hsp ⊢
    obtain ⟨M', found⟩ := res
    cases found with
    | true =>
      simp only [if_true]
      have hB := hsp.1 rfl
      have he' : endRow ≤ M'.nrows := by rw [hB.nr, ← h.nr]; exact he
      obtain ⟨i1, i2, i3, i4⟩ := ih (t + 1) M' hB he'
      simp only [← Nat.add_assoc] at i1 i2 i3 i4
      refine ⟨by have := i1; omega, by have := i2; omega, i3, fun hlt => i4 (by omega)⟩
    | false =>
      simp only [Bool.false_eq_true, if_false, Nat.add_sub_cancel_left]
      obtain ⟨hB, hz⟩ := hsp.2 rfl
      refine ⟨Nat.le_refl _, by omega, hB, fun _ i hi1 hi2 u hu => hz i hi1 (by omega) u hu⟩

/-- **`_mzd_gauss_submatrix(A, r, c, end_row, k)`**: as `gaussSubmatrixFull_spec`, with a unit upper
    triangular block in the rows `r .. r+kbar-1` -/
theorem gaussSubmatrix_spec {M : BMat} (hM : M.WF) {r c endRow k : Nat} (hr : r ≤ M.nrows)
    (he : endRow ≤ M.nrows) (hlow : ∀ i, r ≤ i → ∀ p, p < c → M.get i p = false) :
    (gaussSubmatrix M r c endRow k).2 ≤ k ∧
    Tri M (gaussSubmatrix M r c endRow k).1 r c (gaussSubmatrix M r c endRow k).2 ∧
    ((gaussSubmatrix M r c endRow k).2 < k →
      ∀ i, r + (gaussSubmatrix M r c endRow k).2 ≤ i → i < endRow →
        ∀ u, u ≤ (gaussSubmatrix M r c endRow k).2 →
          (gaussSubmatrix M r c endRow k).1.get i (c + u) = false) := by
  have h0 : Tri M M r c 0 := ⟨hM, rfl, rfl, SameSpan.refl M, fun _ _ => rfl, hlow, hr,
    fun l hl => absurd hl (Nat.not_lt_zero _), fun l u hl => absurd hl (Nat.not_lt_zero _)⟩
  obtain ⟨_, i2, i3, i4⟩ := subCols_spec (endRow := endRow) k 0 M h0 he
  unfold gaussSubmatrix
  simp only [Nat.add_zero, Nat.zero_add] at i2 i3 i4
  exact ⟨i2, i3, i4⟩

/-! ## §10 `full = 0`: `_mzd_gauss_submatrix_top`, `_mzd_copy_back_rows`, one pass -/

theorem row_addRowFrom' (M : BMat) (dst src off k : Nat) :
    (M.addRowFrom dst src off).row k =
      if k = dst ∧ dst < M.rows.size then M.row dst ^^^ ((M.row src >>> off) <<< off) else M.row k := by
  unfold addRowFrom; rw [row_setRow]

/-- a loop of `mzd_row_add_offset(A, l, s, j)` over rows `l` in a range that does not contain `s`:
    rows outside the range are unchanged, rows inside either unchanged or increased by the tail of row `s` -/
theorem foldAdd_rows (s j : Nat) : ∀ (n a : Nat) (M : BMat), (s < a ∨ a + n ≤ s) →
    (∀ k, (k < a ∨ a + n ≤ k) →
      ((List.range' a n).foldl (fun M l => if M.get l j then M.addRowFrom l s j else M) M).row k = M.row k) ∧
    (∀ k, ((List.range' a n).foldl (fun M l => if M.get l j then M.addRowFrom l s j else M) M).row k
        = M.row k ∨
      ((List.range' a n).foldl (fun M l => if M.get l j then M.addRowFrom l s j else M) M).row k
        = M.row k ^^^ ((M.row s >>> j) <<< j)) := by
  intro n
  induction n with
  | zero =>
    intro a M _
    simp only [List.range'_zero, List.foldl_nil]
    exact ⟨fun _ _ => trivial, fun _ => Or.inl trivial⟩
  | succ n ih =>
    intro a M hs
    rw [List.range'_succ, List.foldl_cons]
    have h1 : ∀ k, k ≠ a → (if M.get a j then M.addRowFrom a s j else M).row k = M.row k := by
      intro k hk
      split
      · rw [row_addRowFrom', if_neg (fun hh => hk hh.1)]
      · rfl
    have h2 : (if M.get a j then M.addRowFrom a s j else M).row a = M.row a ∨
        (if M.get a j then M.addRowFrom a s j else M).row a = M.row a ^^^ ((M.row s >>> j) <<< j) := by
      split
      · rw [row_addRowFrom']
        split
        · exact Or.inr rfl
        · exact Or.inl rfl
      · exact Or.inl rfl
    obtain ⟨i1, i2⟩ := ih (a + 1) (if M.get a j then M.addRowFrom a s j else M) (by omega)
    generalize (if M.get a j then M.addRowFrom a s j else M) = M' at h1 h2 i1 i2 ⊢
    refine ⟨fun k hk => ?_, fun k => ?_⟩
    · rw [i1 k (by omega), h1 k (by omega)]
    · by_cases hka : k = a
      · subst hka
        rw [i1 k (by omega)]; exact h2
      · have := i2 k
        rwa [h1 k hka, h1 s (by omega)] at this

/-- **`_mzd_gauss_submatrix_top`** turns the unit upper triangular block into the identity block; only the
    block rows change, and they stay in the span of the old block rows -/
theorem gaussSubmatrixTop_spec {M0 M1 : BMat} {r c kb : Nat} (h : Tri M0 M1 r c kb) :
    Blk M0 (gaussSubmatrixTop M1 r c kb).1 r c kb ∧
    (∀ k, (k < r ∨ r + kb ≤ k) → (gaussSubmatrixTop M1 r c kb).1.row k = M1.row k) ∧
    (∀ L : List Nat, (∀ l, l < kb → InSpan L (M1.row (r + l))) →
      ∀ l, l < kb → InSpan L ((gaussSubmatrixTop M1 r c kb).1.row (r + l))) := by
  unfold gaussSubmatrixTop
  dsimp only
  suffices H : ∀ t, t ≤ kb →
      Blk M0 ((List.range t).foldl (fun M t => clearAbove M r (r + t) (c + t)) M1) r c t ∧
      (∀ k, (k < r ∨ r + t ≤ k) →
        ((List.range t).foldl (fun M t => clearAbove M r (r + t) (c + t)) M1).row k = M1.row k) ∧
      (∀ L : List Nat, (∀ l, l < kb → InSpan L (M1.row (r + l))) → ∀ l, l < kb →
        InSpan L (((List.range t).foldl (fun M t => clearAbove M r (r + t) (c + t)) M1).row (r + l))) by
    obtain ⟨a1, a2, a3⟩ := H kb (Nat.le_refl _)
    exact ⟨a1, a2, a3⟩
  intro t
  induction t with
  | zero =>
    intro _
    simp only [List.range_zero, List.foldl_nil]
    exact ⟨⟨h.wf, h.nr, h.nc, h.span, h.top, h.low, by have := h.le; omega,
      fun l u hl => absurd hl (Nat.not_lt_zero _)⟩, fun _ _ => trivial, fun L hL => hL⟩
  | succ t ih =>
    intro ht
    obtain ⟨b1, b2, b3⟩ := ih (by omega)
    rw [foldl_range_succ]
    generalize (List.range t).foldl (fun M t => clearAbove M r (r + t) (c + t)) M1 = N at b1 b2 b3 ⊢
    have hrow : N.row (r + t) = M1.row (r + t) := b2 (r + t) (Or.inr (Nat.le_refl _))
    have hnn : N.nrows = M1.nrows := by rw [b1.nr, h.nr]
    have hle := h.le
    have hB := clearAbove_spec b1 (by omega)
      (fun u hu => by unfold get; rw [hrow]; exact h.ltri t u (by omega) hu)
      (by unfold get; rw [hrow]; exact h.diag t (by omega))
    have hR := foldAdd_rows (r + t) (c + t) t r N (Or.inr (Nat.le_refl _))
    have hsb : (N.row (r + t) >>> (c + t)) <<< (c + t) = N.row (r + t) := by
      apply shift_back
      intro j hj
      rw [hrow]; exact h.pivLow (show t < kb by omega) j hj
    rw [hsb] at hR
    have hcl : clearAbove N r (r + t) (c + t) =
        (List.range' r t).foldl (fun M l => if M.get l (c + t) then M.addRowFrom l (r + t) (c + t) else M) N := by
      unfold clearAbove; rw [Nat.add_sub_cancel_left]
    rw [← hcl] at hR
    obtain ⟨r1, r2⟩ := hR
    refine ⟨hB, fun k hk => ?_, fun L hL l hl => ?_⟩
    · rw [r1 k (by omega), b2 k (by omega)]
    · rcases r2 (r + l) with e | e
      · rw [e]; exact b3 L hL l hl
      · rw [e]; exact (b3 L hL l hl).xor (b3 L hL t (by omega))

theorem getD_saveRows (M : BMat) (r kb i : Nat) (hi : i < kb) : (saveRows M r kb).getD i 0 = M.row (r + i) := by
  unfold saveRows
  simp [Array.getD, hi]

theorem copyBackRows_row (M : BMat) (U : Array Nat) (r c : Nat) : ∀ n, r + n ≤ M.rows.size →
    (copyBackRows M U r c n).rows.size = M.rows.size ∧ (copyBackRows M U r c n).nrows = M.nrows ∧
    (copyBackRows M U r c n).ncols = M.ncols ∧
    ∀ j, (copyBackRows M U r c n).row j =
      if r ≤ j ∧ j < r + n then
        (M.row j % 2 ^ (64 * (c / 64))) ||| ((U.getD (j - r) 0 >>> (64 * (c / 64))) <<< (64 * (c / 64)))
      else M.row j := by
  unfold copyBackRows
  dsimp only
  intro n
  induction n with
  | zero =>
    intro _
    simp only [List.range_zero, List.foldl_nil]
    exact ⟨trivial, trivial, trivial, fun j => by rw [if_neg (by omega)]⟩
  | succ n ih =>
    intro hn
    obtain ⟨i1, i2, i3, i4⟩ := ih (by omega)
    rw [foldl_range_succ]
    generalize (List.range n).foldl (fun M i => M.setRow (r + i)
      (M.row (r + i) % 2 ^ (64 * (c / 64)) ||| (U.getD i 0 >>> (64 * (c / 64))) <<< (64 * (c / 64)))) M
      = N at i1 i2 i3 i4 ⊢
    refine ⟨by rw [size_setRow, i1], i2, i3, fun j => ?_⟩
    rw [row_setRow, i1]
    by_cases e : j = r + n
    · subst e
      rw [if_pos ⟨rfl, by omega⟩, if_pos (by omega), i4, if_neg (by omega), Nat.add_sub_cancel_left]
    · rw [if_neg (fun hh => e hh.1), i4]
      by_cases h1 : r ≤ j ∧ j < r + n
      · rw [if_pos h1, if_pos (by omega)]
      · rw [if_neg h1, if_neg (by omega)]

/-- restoring a row that differs from the saved one only from column `c` on, both vanishing left of `c` -/
theorem copyBack_value {v w c : Nat} (hv : ∀ p, p < c → v.testBit p = false)
    (hw : ∀ p, p < c → w.testBit p = false) :
    (v % 2 ^ (64 * (c / 64))) ||| ((w >>> (64 * (c / 64))) <<< (64 * (c / 64))) = w := by
  have hlo : 64 * (c / 64) ≤ c := by omega
  apply Nat.eq_of_testBit_eq
  intro p
  rw [Nat.testBit_or, Nat.testBit_mod_two_pow, testBit_shift_back]
  by_cases hp : p < 64 * (c / 64)
  · have h1 : ¬ 64 * (c / 64) ≤ p := by omega
    simp [hp, h1, hv p (by omega), hw p (by omega)]
  · have h1 : 64 * (c / 64) ≤ p := by omega
    simp [hp, h1]

theorem coreEch_spec {A M : BMat} {r c kk : Nat} (k : Nat) (junk : Nat → Nat) (h : OInv false A M r c)
    (hkk : c + kk ≤ M.ncols) :
    (coreEch k junk M r c kk).2 ≤ kk ∧
    OInv false A (coreEch k junk M r c kk).1 (r + (coreEch k junk M r c kk).2)
      (c + (coreEch k junk M r c kk).2) ∧
    ((coreEch k junk M r c kk).2 < kk → ∀ i, r + (coreEch k junk M r c kk).2 ≤ i →
      (coreEch k junk M r c kk).1.get i (c + (coreEch k junk M r c kk).2) = false) := by
  obtain ⟨G1, T, Z⟩ := gaussSubmatrix_spec h.wf h.rle (Nat.le_refl _) h.low (k := kk)
  unfold coreEch
  dsimp only
  generalize gaussSubmatrix M r c M.nrows kk = Mk at G1 T Z ⊢
  obtain ⟨M1, kb⟩ := Mk
  dsimp only at G1 T Z ⊢
  obtain ⟨B, t2, t3⟩ := gaussSubmatrixTop_spec T
  generalize (gaussSubmatrixTop M1 r c kb).1 = M2 at B t2 t3 ⊢
  have hnr1 : M1.nrows = M.nrows := T.nr
  have hnc1 : M1.ncols = M.ncols := T.nc
  have hnr2 : M2.nrows = M.nrows := B.nr
  have hnc2 : M2.ncols = M.ncols := B.nc
  have hle := T.le
  have hck : c + kb ≤ M2.ncols := by omega
  have Z' : kb < kk → ∀ i, r + kb ≤ i → ∀ u, u ≤ kb → M1.get i (c + u) = false := by
    intro hlt i hi u hu
    by_cases hin : i < M.nrows
    · exact Z hlt i hi hin u hu
    · exact get_of_ge_nrows T.wf i _ (by omega)
  -- the rows below
  have F3 : ∃ M3, M3 = (if kb > 0 ∧ kb = kk then processRows M2 (r + kb) M2.nrows c kb
        (makeTables M2 r c junk (chunks k kb) 0) else M2) ∧
      M3.WF ∧ M3.nrows = M2.nrows ∧ M3.ncols = M2.ncols ∧
      ∀ i, M3.row i = if (kb > 0 ∧ kb = kk) ∧ r + kb ≤ i ∧ i < M2.nrows then redRow M2 r c kb (M2.row i)
        else M2.row i := by
    refine ⟨_, rfl, ?_⟩
    by_cases hkk' : kb > 0 ∧ kb = kk
    · rw [if_pos hkk']
      obtain ⟨q1, q2, q3, _, q5⟩ := processRows_spec junk (chunks k kb) (chunks_sum k kb) B
        (M := M2) B.wf rfl rfl (fun _ _ => rfl) (r + kb) M2.nrows (Nat.le_refl _)
        (Or.inr (Nat.le_refl _))
      refine ⟨q1, q2, q3, fun i => ?_⟩
      rw [q5]
      by_cases hc : r + kb ≤ i ∧ i < M2.nrows
      · rw [if_pos hc, if_pos ⟨hkk', hc⟩]
      · rw [if_neg hc, if_neg (fun hh => hc hh.2)]
    · rw [if_neg hkk']
      exact ⟨B.wf, rfl, rfl, fun i => by rw [if_neg (fun hh => hkk' hh.1)]⟩
  obtain ⟨M3, hM3, w3, n3, c3, r3⟩ := F3
  rw [← hM3]
  obtain ⟨z1, z2, z3, z4⟩ := copyBackRows_row M3 (saveRows M1 r kb) r c kb (by rw [w3.1]; omega)
  generalize copyBackRows M3 (saveRows M1 r kb) r c kb = M5 at z1 z2 z3 z4 ⊢
  -- the rows of the result
  have hblk : ∀ l, l < kb → M5.row (r + l) = M1.row (r + l) := by
    intro l hl
    rw [z4, if_pos (by omega), Nat.add_sub_cancel_left, getD_saveRows _ _ _ _ hl, r3, if_neg (by omega)]
    exact copyBack_value (fun p hp => B.low (r + l) (by omega) p hp)
      (fun p hp => T.low (r + l) (by omega) p hp)
  have hout : ∀ i, (i < r ∨ r + kb ≤ i) → M5.row i =
      if (kb > 0 ∧ kb = kk) ∧ r + kb ≤ i ∧ i < M2.nrows then redRow M2 r c kb (M1.row i) else M1.row i := by
    intro i hi
    rw [z4, if_neg (by omega), r3, t2 i hi]
  have hlowrow : ∀ i p, p < c → M5.get i p = M1.get i p := by
    intro i p hp
    unfold get
    by_cases hi : i < r ∨ r + kb ≤ i
    · rw [hout i hi]
      split
      · exact redRow_low _ _ _ _ _ _ hp
      · rfl
    · obtain ⟨l, rfl⟩ : ∃ l, i = r + l := ⟨i - r, by omega⟩
      rw [hblk l (by omega)]
  have hM5wf : M5.WF := by
    refine ⟨by rw [z1, w3.1, z2], fun i => ?_⟩
    rw [z3, c3]
    by_cases hi : i < r ∨ r + kb ≤ i
    · rw [hout i hi]
      split
      · exact redRow_lt M2 r c kb (by rw [hnc2, ← hnc1]; exact T.wf.2 i)
      · rw [hnc2, ← hnc1]; exact T.wf.2 i
    · obtain ⟨l, rfl⟩ : ∃ l, i = r + l := ⟨i - r, by omega⟩
      rw [hblk l (by omega), hnc2, ← hnc1]; exact T.wf.2 _
  have hspan : SameSpan M1 M5 := by
    apply sameSpan_of_rows
    · intro i hi
      by_cases hr : (kb > 0 ∧ kb = kk) ∧ r + kb ≤ i ∧ i < M2.nrows
      · have hc : InSpan M5.rowList (combRows M2.rows r (colMask c M2.ncols) kb (bitsAt (M1.row i) c kb)) :=
          comb_span B (t3 M5.rowList (fun l hl => by
            rw [← hblk l hl]; exact row_inSpan M5 (r + l) (by omega))) _ _ (Nat.le_refl _)
        have hN := (row_inSpan M5 i (by omega)).xor hc
        rw [hout i (Or.inr hr.2.1), if_pos hr] at hN
        unfold redRow at hN
        rwa [Nat.xor_assoc, Nat.xor_self, Nat.xor_zero] at hN
      · by_cases hi' : i < r ∨ r + kb ≤ i
        · have hN := row_inSpan M5 i (by omega)
          rwa [hout i hi', if_neg hr] at hN
        · obtain ⟨l, rfl⟩ : ∃ l, i = r + l := ⟨i - r, by omega⟩
          have hN := row_inSpan M5 (r + l) (by omega)
          rwa [hblk l (by omega)] at hN
    · intro i hi
      by_cases hi' : i < r ∨ r + kb ≤ i
      · rw [hout i hi']
        split
        · unfold redRow
          apply (row_inSpan M1 i (by omega)).xor
          exact comb_span B (t3 M1.rowList (fun l hl => row_inSpan M1 (r + l) (by omega))) _ _
            (Nat.le_refl _)
        · exact row_inSpan M1 i (by omega)
      · obtain ⟨l, rfl⟩ : ∃ l, i = r + l := ⟨i - r, by omega⟩
        rw [hblk l (by omega)]
        exact row_inSpan M1 (r + l) (by omega)
  have hbelow : ∀ i, r + kb ≤ i → ∀ u, u < kb → M5.get i (c + u) = false := by
    intro i hi u hu
    unfold get
    rw [hout i (Or.inr hi)]
    split
    · exact redRow_blk B hck _ u hu
    · rename_i hn
      by_cases hin : i < M2.nrows
      · have : kb < kk := by
          rcases Nat.lt_or_ge kb kk with h1 | h1
          · exact h1
          · exact absurd ⟨⟨by omega, Nat.le_antisymm G1 h1⟩, hi, hin⟩ hn
        exact Z' this i hi u (by omega)
      · exact get_of_ge_nrows T.wf i _ (by omega)
  refine ⟨G1, ?_, ?_⟩
  · apply h.advance hM5wf (by omega) (by omega) (T.span.trans hspan) (by omega) (by omega)
    · intro i hi p hp
      rw [hlowrow i p hp]; unfold get; rw [T.top i hi]
    · intro i hi p hp
      rw [hlowrow i p hp]; exact T.low i hi p hp
    · intro l hl
      unfold get; rw [hblk l hl]; exact T.diag l hl
    · intro l u hl hu
      unfold get; rw [hblk l hl]; exact T.ltri l u hl hu
    · exact hbelow
    · intro hf; exact Bool.noConfusion hf
    · intro hf; exact Bool.noConfusion hf
  · intro hlt i hi
    unfold get
    rw [hout i (Or.inr hi), if_neg (by omega)]
    exact Z' hlt i hi kb (Nat.le_refl _)

theorem coreSpec_false (k : Nat) (junk : Nat → Nat) : CoreSpec false k junk := by
  intro A M r c kk h hkk
  rw [coreRaw_false]
  exact coreEch_spec k junk h hkk

/-! ## §11 **C02 for `_mzd_echelonize_m4ri(A, 0, k, 0, _)`** (any `k ≥ 1`, in particular `6k ≤ 64`) -/

section FullFalse
variable {A : BMat} (hA : A.WF) {k : Nat} (hk : 1 ≤ k) (junk : Nat → Nat)
include hA hk

theorem echelonizeM4ri_ech_WF : (echelonizeM4ri A false k junk).1.WF :=
  (echelonizeM4ri_done (coreSpec_false k junk) hA hk).wf
theorem echelonizeM4ri_ech_nrows : (echelonizeM4ri A false k junk).1.nrows = A.nrows :=
  (echelonizeM4ri_done (coreSpec_false k junk) hA hk).nr
theorem echelonizeM4ri_ech_ncols : (echelonizeM4ri A false k junk).1.ncols = A.ncols :=
  (echelonizeM4ri_done (coreSpec_false k junk) hA hk).nc
/-- the row space is preserved -/
theorem echelonizeM4ri_ech_sameSpan : SameSpan A (echelonizeM4ri A false k junk).1 :=
  (echelonizeM4ri_done (coreSpec_false k junk) hA hk).span
/-- the result is in row echelon form -/
theorem echelonizeM4ri_ech_isRowEchelon : (echelonizeM4ri A false k junk).1.isRowEchelon = true :=
  (echelonizeM4ri_done (coreSpec_false k junk) hA hk).isRowEchelon
/-- the returned value is the rank -/
theorem echelonizeM4ri_ech_rank : (echelonizeM4ri A false k junk).2 = A.rank :=
  (echelonizeM4ri_done (coreSpec_false k junk) hA hk).rank_eq hA
/-- the rows from the rank on are zero -/
theorem echelonizeM4ri_ech_row_eq_zero (i : Nat) (hi : (echelonizeM4ri A false k junk).2 ≤ i) :
    (echelonizeM4ri A false k junk).1.row i = 0 :=
  (echelonizeM4ri_done (coreSpec_false k junk) hA hk).zero i hi
/-- the first `rank` rows are non-zero -/
theorem echelonizeM4ri_ech_row_ne_zero (i : Nat) (hi : i < (echelonizeM4ri A false k junk).2) :
    (echelonizeM4ri A false k junk).1.row i ≠ 0 := by
  obtain ⟨p, hp⟩ := (echelonizeM4ri_done (coreSpec_false k junk) hA hk).nz i hi
  exact hp.ne_zero
/-- in terms of the checker used by the differential tests -/
theorem echelonizeM4ri_ech_check :
    checkEchelon A (echelonizeM4ri A false k junk).1 (echelonizeM4ri A false k junk).2 false = true := by
  have D := echelonizeM4ri_done (coreSpec_false k junk) hA hk
  unfold checkEchelon
  simp only [Bool.and_eq_true, decide_eq_true_iff, beq_iff_eq, List.all_eq_true, Bool.false_eq_true,
    if_false]
  refine ⟨⟨⟨⟨D.nr, D.nc⟩, D.rank_eq hA⟩, D.isRowEchelon,
    (sameRowSpace_iff hA D.wf D.nc.symm).mpr D.span⟩, ?_⟩
  intro i hi
  rw [D.zero i (List.mem_range'_1.mp hi).1]
  exact Nat.zero_mod _

end FullFalse

/-- both modes at once: the statement of property C02 for the M4RI routine -/
theorem echelonizeM4ri_correct {A : BMat} (hA : A.WF) (full : Bool) {k : Nat} (hk : 1 ≤ k)
    (junk : Nat → Nat) :
    (echelonizeM4ri A full k junk).1.WF ∧
    (echelonizeM4ri A full k junk).1.nrows = A.nrows ∧ (echelonizeM4ri A full k junk).1.ncols = A.ncols ∧
    SameSpan A (echelonizeM4ri A full k junk).1 ∧
    (echelonizeM4ri A full k junk).1.isRowEchelon = true ∧
    (echelonizeM4ri A full k junk).2 = A.rank ∧
    (∀ i, (echelonizeM4ri A full k junk).2 ≤ i → (echelonizeM4ri A full k junk).1.row i = 0) ∧
    (full = true → (echelonizeM4ri A full k junk).1 = A.rref) ∧
    checkEchelon A (echelonizeM4ri A full k junk).1 (echelonizeM4ri A full k junk).2 full = true := by
  cases full with
  | true =>
    exact ⟨echelonizeM4ri_full_WF hA hk junk, echelonizeM4ri_full_nrows hA hk junk,
      echelonizeM4ri_full_ncols hA hk junk, echelonizeM4ri_full_sameSpan hA hk junk,
      echelonizeM4ri_full_isRowEchelon hA hk junk, echelonizeM4ri_full_rank hA hk junk,
      echelonizeM4ri_full_row_eq_zero hA hk junk, fun _ => echelonizeM4ri_full_eq_rref hA hk junk,
      echelonizeM4ri_full_check hA hk junk⟩
  | false =>
    exact ⟨echelonizeM4ri_ech_WF hA hk junk, echelonizeM4ri_ech_nrows hA hk junk,
      echelonizeM4ri_ech_ncols hA hk junk, echelonizeM4ri_ech_sameSpan hA hk junk,
      echelonizeM4ri_ech_isRowEchelon hA hk junk, echelonizeM4ri_ech_rank hA hk junk,
      echelonizeM4ri_ech_row_eq_zero hA hk junk, fun h => Bool.noConfusion h,
      echelonizeM4ri_ech_check hA hk junk⟩

/-- non-vacuity (`k = 2`, `6k = 12 ≤ 64`); the `full = 0` result is an echelon form that is not reduced -/
example : (echelonizeM4ri ⟨3, 4, #[6, 3, 5]⟩ false 2).1.isRowEchelon = true :=
  echelonizeM4ri_ech_isRowEchelon wf_example (by decide) _
example : (echelonizeM4ri ⟨3, 4, #[6, 3, 5]⟩ false 2).1.rows = #[3, 6, 0] ∧
    (echelonizeM4ri ⟨3, 4, #[6, 3, 5]⟩ false 2).2 = 2 := by decide +kernel
example : (echelonizeM4ri ⟨3, 4, #[6, 3, 5]⟩ true 2).1.rows = #[5, 6, 0] ∧
    (echelonizeM4ri ⟨3, 4, #[6, 3, 5]⟩ true 2).2 = 2 := by decide +kernel

/-! ## §12 `_mzd_top_echelonize_m4ri` on a matrix whose rows `≥ r` are in row echelon form -/

/-- the rows `≥ s` are in row echelon form -/
def TE (M : BMat) (s : Nat) : Prop := ∀ i j, s ≤ i → i < j → EchRel (M.row i) (M.row j)

theorem te_skip {M : BMat} {s j : Nat} (h : TE M s) (hl : ∀ p, p < j → M.get s p = false)
    (h0 : M.get s j = false) : ∀ i, s ≤ i → M.get i j = false := by
  intro i hi
  by_cases e : i = s
  · rw [e]; exact h0
  · have hE := h s i (Nat.le_refl _) (by omega)
    by_cases hz : M.row s = 0
    · unfold get; rw [hE.1 hz]; exact Nat.zero_testBit _
    · obtain ⟨p, hp⟩ := exists_isLead' hz
      have hpj : j ≤ p := by
        rcases Nat.lt_or_ge p j with h1 | h1
        · have := hl p h1
          unfold get at this
          rw [hp.1] at this; exact Bool.noConfusion this
        · exact h1
      exact hE.2 p hp j hpj

theorem te_lead {M : BMat} {s j : Nat} (h : TE M s) (hl : ∀ p, p < j → M.get s p = false)
    (h1 : M.get s j = true) : ∀ i, s < i → ∀ q, q ≤ j → M.get i q = false :=
  fun i hi q hq => (h s i (Nat.le_refl _) hi).2 j ⟨h1, hl⟩ q hq

theorem clearByTmp_noop (M : BMat) (i r c tmp : Nat) : ∀ n, (∀ l, l < n → tmp.testBit l = false) →
    clearByTmp M i r c n tmp = M := by
  unfold clearByTmp
  intro n
  induction n with
  | zero => intro _; rfl
  | succ n ih =>
    intro h
    rw [foldl_range_succ, ih (fun l hl => h l (by omega)), h n (by omega)]
    simp

theorem fullRows_skip (r c j sr : Nat) : ∀ (l : List Nat) (M : BMat),
    (∀ i, i ∈ l → bitsAt (M.row i) c (j - c + 1) = 0) → fullRows r c j sr l M = (M, false) := by
  intro l
  induction l with
  | nil => intro M _; rfl
  | cons i rest ih =>
    intro M h
    rw [fullRows]
    simp only [h i List.mem_cons_self, ne_eq, not_true_eq_false, if_false]
    exact ih M (fun i' hi' => h i' (List.mem_cons_of_mem _ hi'))

theorem clearAbove_eq (M : BMat) (r t j : Nat) :
    clearAbove M r (r + t) j =
      (List.range' r t).foldl (fun M l => if M.get l j then M.addRowFrom l (r + t) j else M) M := by
  unfold clearAbove; rw [Nat.add_sub_cancel_left]

/-- the row loop of `_mzd_gauss_submatrix_full` when the rows `≥ r + t` are in echelon form and vanish left
    of column `c + t`: the pivot, if any, is row `r + t` itself, and no other row is touched -/
theorem fullRows_te {M : BMat} {r c t : Nat} (hlow : ∀ i, r + t ≤ i → ∀ p, p < c + t → M.get i p = false)
    (hT : TE M (r + t)) (n : Nat) :
    (M.get (r + t) (c + t) = true → 1 ≤ n →
      fullRows r c (c + t) (r + t) (List.range' (r + t) n) M = (clearAbove M r (r + t) (c + t), true)) ∧
    (M.get (r + t) (c + t) = false →
      fullRows r c (c + t) (r + t) (List.range' (r + t) n) M = (M, false)) := by
  have hbits : ∀ i, r + t ≤ i → ∀ l, l < t → (bitsAt (M.row i) c (t + 1)).testBit l = false := by
    intro i hi l hl
    rw [testBit_bitsAt]
    have : (M.row i).testBit (c + l) = false := hlow i hi (c + l) (by omega)
    simp [this]
  refine ⟨fun h1 hn => ?_, fun h0 => ?_⟩
  · obtain ⟨n', rfl⟩ : ∃ n', n = n' + 1 := ⟨n - 1, by omega⟩
    rw [List.range'_succ, fullRows]
    simp only [Nat.add_sub_cancel_left]
    have htt : (bitsAt (M.row (r + t)) c (t + 1)).testBit t = true := by
      rw [testBit_bitsAt]
      have : (M.row (r + t)).testBit (c + t) = true := h1
      simp [this]
    have hne : bitsAt (M.row (r + t)) c (t + 1) ≠ 0 := by
      intro e; rw [e, Nat.zero_testBit] at htt; exact Bool.noConfusion htt
    rw [if_pos hne, clearByTmp_noop _ _ _ _ _ _ (hbits (r + t) (Nat.le_refl _)), if_pos h1]
    simp [swapRows]
  · apply fullRows_skip
    intro i hi
    rw [List.mem_range'_1] at hi
    rw [Nat.add_sub_cancel_left]
    apply Nat.eq_of_testBit_eq
    intro l
    rw [Nat.zero_testBit]
    by_cases hl : l < t
    · exact hbits i hi.1 l hl
    · rw [testBit_bitsAt]
      by_cases hlt : l = t
      · subst hlt
        have : (M.row i).testBit (c + l) = false := te_skip hT (hlow (r + l) (Nat.le_refl _)) h0 i hi.1
        simp [this]
      · have : ¬ l < t + 1 := by omega
        simp [this]

/-- the column loop of `_mzd_gauss_submatrix_full` on an echelon tail (window `r .. r+kk-1`) -/
theorem fullCols_te {M0 : BMat} {r c kk : Nat} : ∀ (n t : Nat) (M : BMat), t + n = kk → Blk M0 M r c t →
    (∀ i, r + t ≤ i → ∀ p, p < c + t → M.get i p = false) → TE M (r + t) →
    t ≤ (fullCols r c (min M0.nrows (r + kk)) n (c + t) (r + t) M).2 ∧
    (fullCols r c (min M0.nrows (r + kk)) n (c + t) (r + t) M).2 ≤ t + n ∧
    Blk M0 (fullCols r c (min M0.nrows (r + kk)) n (c + t) (r + t) M).1 r c
      (fullCols r c (min M0.nrows (r + kk)) n (c + t) (r + t) M).2 ∧
    (∀ i, r + (fullCols r c (min M0.nrows (r + kk)) n (c + t) (r + t) M).2 ≤ i →
      (fullCols r c (min M0.nrows (r + kk)) n (c + t) (r + t) M).1.row i = M.row i) ∧
    (∀ i, r + (fullCols r c (min M0.nrows (r + kk)) n (c + t) (r + t) M).2 ≤ i →
      ∀ p, p < c + (fullCols r c (min M0.nrows (r + kk)) n (c + t) (r + t) M).2 → M.get i p = false) ∧
    ((fullCols r c (min M0.nrows (r + kk)) n (c + t) (r + t) M).2 < t + n →
      ∀ i, r + (fullCols r c (min M0.nrows (r + kk)) n (c + t) (r + t) M).2 ≤ i →
        M.get i (c + (fullCols r c (min M0.nrows (r + kk)) n (c + t) (r + t) M).2) = false) := by
  intro n
  induction n with
  | zero =>
    intro t M _ h hlow _
    simp only [fullCols, Nat.add_sub_cancel_left]
    exact ⟨Nat.le_refl _, Nat.le_refl _, h, fun _ _ => trivial, hlow, fun hlt => absurd hlt (by omega)⟩
  | succ n ih =>
    intro t M htn h hlow hT
    rw [fullCols]
    obtain ⟨f1, f2⟩ := fullRows_te hlow hT (min M0.nrows (r + kk) - (r + t))
    by_cases hb : M.get (r + t) (c + t) = true
    · have hlt : r + t < M.nrows := by
        rcases Nat.lt_or_ge (r + t) M.nrows with h1 | h1
        · exact h1
        · rw [get_of_ge_nrows h.wf _ _ h1] at hb; exact Bool.noConfusion hb
      have hnr := h.nr
      rw [f1 hb (by omega)]
      simp only [if_true]
      have hB := clearAbove_spec h hlt (fun u hu => hlow (r + t) (Nat.le_refl _) (c + u) (by omega)) hb
      have hR := (foldAdd_rows (r + t) (c + t) t r M (Or.inr (Nat.le_refl _))).1
      rw [← clearAbove_eq] at hR
      have hget : ∀ i, r + t ≤ i → ∀ p, (clearAbove M r (r + t) (c + t)).get i p = M.get i p := by
        intro i hi p; unfold get; rw [hR i (Or.inr hi)]
      obtain ⟨i1, i2, i3, i4, i5, i6⟩ := ih (t + 1) (clearAbove M r (r + t) (c + t)) (by omega) hB
        (fun i hi p hp => by
          rw [hget i (by omega)]
          exact te_lead hT (hlow (r + t) (Nat.le_refl _)) hb i (by omega) p (by omega))
        (fun i j hi hij => by
          rw [hR i (Or.inr (by omega)), hR j (Or.inr (by omega))]
          exact hT i j (by omega) hij)
      simp only [← Nat.add_assoc] at i1 i2 i3 i4 i5 i6
      refine ⟨by omega, by omega, i3, fun i hi => ?_, fun i hi p hp => ?_, fun hlt' i hi => ?_⟩
      · rw [i4 i hi, hR i (Or.inr (by omega))]
      · rw [← hget i (by omega)]; exact i5 i hi p hp
      · rw [← hget i (by omega)]; exact i6 (by omega) i hi
    · have hb' : M.get (r + t) (c + t) = false := by simpa using hb
      rw [f2 hb']
      simp only [Bool.false_eq_true, if_false, Nat.add_sub_cancel_left]
      exact ⟨Nat.le_refl _, by omega, h, fun _ _ => trivial, hlow,
        fun _ i hi => te_skip hT (hlow (r + t) (Nat.le_refl _)) hb' i hi⟩

theorem OInv.widen {full : Bool} {A M : BMat} {r c c2 : Nat} (h : OInv full A M r c) (hc : c ≤ c2)
    (hc2 : c2 ≤ M.ncols) (hz : ∀ i, r ≤ i → ∀ p, p < c2 → M.get i p = false) : OInv full A M r c2 :=
  ⟨h.wf, h.nr, h.nc, h.span, h.rle, hc2, hz, h.nz,
    fun i hi p hp => ⟨Nat.lt_of_lt_of_le (h.ech i hi p hp).1 hc, (h.ech i hi p hp).2⟩, h.red⟩

/-- invariant of the loop of `_mzd_top_echelonize_m4ri`: the `full` invariant of the main loop, and the rows
    `≥ r` are still those of the initial matrix `Mi`, whose rows `≥ r0` are in row echelon form -/
structure TInv (A Mi M : BMat) (r0 r c : Nat) : Prop where
  o : OInv true A M r c
  tail : ∀ i, r ≤ i → M.row i = Mi.row i
  te : TE Mi r0
  r0le : r0 ≤ r

theorem TInv.teM {A Mi M : BMat} {r0 r c : Nat} (h : TInv A Mi M r0 r c) : TE M r := by
  intro i j hi hij
  rw [h.tail i hi, h.tail j (by omega)]
  exact h.te i j (by have := h.r0le; omega) hij

theorem topStep_spec {A Mi : BMat} {r0 : Nat} (k maxR : Nat) (junk : Nat → Nat) (s : St)
    (h : TInv A Mi s.M r0 s.r s.c) (hmax : s.M.nrows ≤ maxR) (hc : s.c < s.M.ncols) (hkk : 1 ≤ s.kk) :
    TInv A Mi (topStep k maxR junk s).M r0 (topStep k maxR junk s).r (topStep k maxR junk s).c ∧
    s.c < (topStep k maxR junk s).c ∧ 1 ≤ (topStep k maxR junk s).kk ∧
    (topStep k maxR junk s).M.nrows = s.M.nrows ∧ (topStep k maxR junk s).M.ncols = s.M.ncols := by
  obtain ⟨M, r, c, kk0⟩ := s
  dsimp only at h hmax hc hkk
  unfold topStep
  dsimp only
  generalize hkk' : (if c + kk0 > M.ncols then M.ncols - c else kk0) = kk
  have hclip1 : 1 ≤ kk := by rw [← hkk']; split <;> omega
  have hclip2 : c + kk ≤ M.ncols := by rw [← hkk']; split <;> omega
  have h0 : Blk M M r c 0 := ⟨h.o.wf, rfl, rfl, SameSpan.refl M, fun _ _ => rfl, h.o.low, h.o.rle,
    fun l u hl => absurd hl (Nat.not_lt_zero _)⟩
  obtain ⟨_, G1, B, g4, g5, g6⟩ := fullCols_te (M0 := M) (r := r) (c := c) (kk := kk) kk 0 M
    (by omega) h0 (by simpa using h.o.low) (by simpa using h.teM)
  unfold gaussSubmatrixFull
  simp only [Nat.add_zero, Nat.zero_add] at G1 B g4 g5 g6
  generalize fullCols r c (min M.nrows (r + kk)) kk c r M = Mk at G1 B g4 g5 g6 ⊢
  obtain ⟨M1, kb⟩ := Mk
  dsimp only at G1 B g4 g5 g6 ⊢
  have hnr1 : M1.nrows = M.nrows := B.nr
  have hnc1 : M1.ncols = M.ncols := B.nc
  have hle := B.le
  have hrle := h.o.rle
  have hmin : min r maxR = r := Nat.min_eq_left (by omega)
  rw [hmin]
  -- the rows above
  have F2 : ∃ M2, M2 = (if kb > 0 then processRows M1 0 r c kb (makeTables M1 r c junk (chunks k kb) 0)
        else M1) ∧
      M2.WF ∧ M2.nrows = M1.nrows ∧ M2.ncols = M1.ncols ∧ SameSpan M1 M2 ∧
      (∀ i, r ≤ i → M2.row i = M1.row i) ∧
      (∀ i p, p < c → M2.get i p = M1.get i p) ∧
      (∀ i, i < r → ∀ u, u < kb → M2.get i (c + u) = false) := by
    refine ⟨_, rfl, ?_⟩
    by_cases hk0 : kb > 0
    · rw [if_pos hk0]
      obtain ⟨q1, q2, q3, q4, q5⟩ := processRows_spec junk (chunks k kb) (chunks_sum k kb) B
        (M := M1) B.wf rfl rfl (fun _ _ => rfl) 0 r (by omega) (Or.inl (Nat.le_refl _))
      refine ⟨q1, q2, q3, q4, fun i hi => by rw [q5, if_neg (by omega)], fun i p hp => ?_,
        fun i hi u hu => ?_⟩
      · unfold get
        rw [q5]
        split
        · exact redRow_low _ _ _ _ _ _ hp
        · rfl
      · unfold get
        rw [q5, if_pos ⟨Nat.zero_le _, hi⟩]
        exact redRow_blk B (by omega) _ u hu
    · rw [if_neg hk0]
      exact ⟨B.wf, rfl, rfl, SameSpan.refl _, fun _ _ => rfl, fun _ _ _ => rfl,
        fun i _ u hu => absurd hu (by omega)⟩
  obtain ⟨M2, hM2, w2, n2, c2, s2, r2, l2, a2⟩ := F2
  rw [← hM2]
  have hadv : OInv true A M2 (r + kb) (c + kb) := by
    apply h.o.advance w2 (by omega) (by omega) (B.span.trans s2) (by omega) (by omega)
    · intro i hi p hp
      rw [l2 i p hp]; unfold get; rw [B.top i hi]
    · intro i hi p hp
      rw [l2 i p hp]; exact B.low i hi p hp
    · intro l hl
      unfold get; rw [r2 (r + l) (by omega)]
      have := B.idn l l hl hl
      unfold get at this
      rw [this]; simp
    · intro l u hl hu
      unfold get; rw [r2 (r + l) (by omega)]
      have := B.idn l u hl (by omega)
      unfold get at this
      rw [this]; simp; omega
    · intro i hi u hu
      unfold get
      rw [r2 i (by omega), g4 i hi]
      exact g5 i hi (c + u) (by omega)
    · intro _; exact a2
    · intro _ l u hlu hu
      unfold get; rw [r2 (r + l) (by omega)]
      have := B.idn l u (by omega) hu
      unfold get at this
      rw [this]; simp; omega
  have htail : ∀ i, r + kb ≤ i → M2.row i = Mi.row i := by
    intro i hi
    rw [r2 i (by omega), g4 i hi, h.tail i (by omega)]
  refine ⟨⟨?_, htail, h.te, by have := h.r0le; omega⟩, ?_, hclip1, by omega, by omega⟩
  · by_cases hne : kk ≠ kb
    · rw [if_pos hne]
      apply hadv.widen (by omega) (by omega)
      intro i hi p hp
      unfold get
      rw [r2 i (by omega), g4 i hi]
      by_cases hpc : p < c + kb
      · exact g5 i hi p hpc
      · have : p = c + kb := by omega
        rw [this]; exact g6 (by omega) i hi
    · rw [if_neg hne]; exact hadv
  · split <;> omega

theorem topLoop_spec {A Mi : BMat} {r0 : Nat} (k maxR : Nat) (junk : Nat → Nat) :
    ∀ (fuel : Nat) (s : St), TInv A Mi s.M r0 s.r s.c → s.M.nrows ≤ maxR → 1 ≤ s.kk →
      s.M.ncols - s.c < fuel →
      Done true A (topLoop k maxR junk fuel s).M (topLoop k maxR junk fuel s).r := by
  intro fuel
  induction fuel with
  | zero => intro s _ _ _ hf; exact absurd hf (Nat.not_lt_zero _)
  | succ fuel ih =>
    intro s h hmax hkk hf
    rw [topLoop]
    by_cases hc : s.c < s.M.ncols
    · rw [if_pos hc]
      obtain ⟨t1, t2, t3, t4, t5⟩ := topStep_spec k maxR junk s h hmax hc hkk
      exact ih _ t1 (by omega) t3 (by omega)
    · rw [if_neg hc]
      apply Done.of_OInv h.o
      intro i hi p
      by_cases hp : p < s.c
      · exact h.o.low i hi p hp
      · exact get_of_ge_ncols h.o.wf i p (by have := h.o.cle; omega)

/-- **`_mzd_top_echelonize_m4ri(A, k, r, c, max_r)`** (`k ≥ 1`, `max_r ≥ nrows`) started in a state of the
    `full` main loop (`OInv true A M r c`: the first `r` rows are reduced with pivots left of `c`, the rows
    `≥ r` vanish left of `c`) whose rows `≥ r` are in row echelon form: it ends with the reduced row echelon
    form of the row space, and returns the rank. -/
theorem topEchelonizeM4ri_done {A M : BMat} {r c k maxR : Nat} (junk : Nat → Nat) (hk : 1 ≤ k)
    (h : OInv true A M r c) (hT : TE M r) (hmax : M.nrows ≤ maxR) :
    Done true A (topEchelonizeM4ri M k r c maxR junk).1 (topEchelonizeM4ri M k r c maxR junk).2 := by
  unfold topEchelonizeM4ri
  exact topLoop_spec k maxR junk (M.ncols + 1) ⟨M, r, c, 6 * k⟩ ⟨h, fun _ _ => rfl, hT, Nat.le_refl _⟩
    hmax (by show 1 ≤ 6 * k; omega) (by show M.ncols - c < M.ncols + 1; omega)

/-- **`mzd_top_echelonize_m4ri(A, k)`** on a matrix in row echelon form computes its reduced row echelon
    form and returns its rank -/
theorem topEchelonizeM4ri_of_isRowEchelon {A : BMat} (hA : A.WF) (hE : A.isRowEchelon = true) {k : Nat}
    (hk : 1 ≤ k) (junk : Nat → Nat) :
    (topEchelonizeM4ri A k 0 0 A.nrows junk).1 = A.rref ∧
    (topEchelonizeM4ri A k 0 0 A.nrows junk).2 = A.rank := by
  have hT : TE A 0 := by
    intro i j _ hij
    by_cases hj : j < A.nrows
    · exact (isRowEchelon_iff_rows hA).mp hE i j hij hj
    · rw [row_of_ge A j (by rw [hA.1]; omega)]
      exact ⟨fun _ => rfl, fun _ _ q _ => Nat.zero_testBit q⟩
  have D := topEchelonizeM4ri_done junk hk (OInv.init hA true) hT (Nat.le_refl _)
  exact ⟨D.eq_rref hA, D.rank_eq hA⟩

/-- non-vacuity: the echelon form `[3, 6, 0]` (3×4) of the running example -/
example : (topEchelonizeM4ri ⟨3, 4, #[3, 6, 0]⟩ 1 0 0 3).1 = (⟨3, 4, #[3, 6, 0]⟩ : BMat).rref :=
  (topEchelonizeM4ri_of_isRowEchelon (A := ⟨3, 4, #[3, 6, 0]⟩)
    ⟨rfl, fun i => by
      by_cases h : i < 3
      · have : i = 0 ∨ i = 1 ∨ i = 2 := by omega
        rcases this with rfl | rfl | rfl <;> decide
      · have : (⟨3, 4, #[3, 6, 0]⟩ : BMat).row i = 0 := by
          simp [row, Array.getD]; omega
        rw [this]; decide⟩
    (by decide) (Nat.le_refl 1) _).1

/-- the echelon-form hypothesis cannot be dropped: on this 7×7 matrix (rank 6; rows 0 and 6 are equal, the
    pivot row 6 enters the window only in the second pass and is added to row 0 from column 6 on only)
    `mzd_top_echelonize_m4ri(A, 1)` returns 7 and leaves a matrix of rank 7 -/
example : (⟨7, 7, #[65, 2, 4, 8, 16, 32, 65]⟩ : BMat).rank = 6 ∧
    (topEchelonizeM4ri ⟨7, 7, #[65, 2, 4, 8, 16, 32, 65]⟩ 1 0 0 7).2 = 7 ∧
    (topEchelonizeM4ri ⟨7, 7, #[65, 2, 4, 8, 16, 32, 65]⟩ 1 0 0 7).1.rows = #[1, 2, 4, 8, 16, 32, 65] := by
  decide +kernel

/-- `full = 0` followed by `mzd_top_echelonize_m4ri` is `full = 1`: the reduced row echelon form of `A` -/
theorem topEchelonizeM4ri_echelonizeM4ri {A : BMat} (hA : A.WF) {k k' : Nat} (hk : 1 ≤ k) (hk' : 1 ≤ k')
    (junk junk' : Nat → Nat) :
    (topEchelonizeM4ri (echelonizeM4ri A false k junk).1 k' 0 0 A.nrows junk').1 = A.rref ∧
    (topEchelonizeM4ri (echelonizeM4ri A false k junk).1 k' 0 0 A.nrows junk').2 = A.rank := by
  have D := echelonizeM4ri_done (coreSpec_false k junk) hA hk
  have hE := D.isRowEchelon
  generalize (echelonizeM4ri A false k junk).1 = E at D hE ⊢
  obtain ⟨t1, t2⟩ := topEchelonizeM4ri_of_isRowEchelon D.wf hE hk' junk'
  rw [D.nr] at t1 t2
  rw [t1, t2]
  refine ⟨?_, (rank_congr hA D.wf D.span).symm⟩
  exact (eq_rref_of_isRREF hA (rref_WF D.wf) ((rref_nrows D.wf).trans D.nr)
    ((rref_ncols D.wf).trans D.nc) (rref_isRREF D.wf) (D.span.trans (rref_sameSpan D.wf)))

end M4RI
end BMat
end M4ri
