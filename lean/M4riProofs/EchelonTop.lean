/-
  PB29: the universal elimination theorems instantiated at the EXECUTABLE top-level mirrors of M4ri/EchelonTop.lean
  (`ET.echelonizeM4riTop` = `_mzd_echelonize_m4ri(A, full, k, heuristic, threshold)`, `ET.echelonize` = `mzd_echelonize`,
  `ET.echelonizeM4ri` = `mzd_echelonize_m4ri`, `ET.invM4riTop` = `mzd_inv_m4ri`), for EVERY cache triple `L1 L2 L3`,
  every well-formed `A`, every `k` — `0` INCLUDED —, every `threshold : Float`, both values of `heuristic`, whatever the
  index arrays contain on entry (`junk`, `junkTop`).

  NOTHING is assumed about `Float`: the theorems about the hybrid elimination (`G2.echelonizeHybrid_correct`) hold for
  every switch function, so the floating-point density computation only selects the path (`echelonizeWith_correct`
  states this explicitly for an arbitrary switch function; `#print axioms` shows only the three standard axioms).

  The only arithmetic fact needed is that the automatic table parameter is at least one: `one_le_autoK` (this is what
  the repaired C code guarantees with `if (k > 1 && …) k -= 1;`; before the repair `k` could reach `0` for tiny caches —
  `autoK_unrepaired_zero` records the concrete instance).

    §1  `one_le_optK`, `optK_le`, `one_le_autoK`, `autoK_le_seven`, `one_le_autoKTop`
    §2  `goodPluqEch`, `echelonizeWith_correct` (every switch function), `echelonizeM4riTop_correct`,
        `echelonizeM4riTop_full_eq`, `echelonizeM4riTop_switch_irrelevant`
    §3  `echelonize_correct`, `echelonize_full_eq`, `echelonizeM4ri_correct`, `echelonizeM4ri_full_eq`, `all_entry_points_agree`
    §4  `invM4riTop_spec`, `invM4riTop_mathlib`, `invM4riTop_any`
    §5  `densityParts` sanity: `countBits_le`, `densityParts_le` (count ≤ divisor in both branches)
    §6  non-vacuity
-/
import M4riProofs.Top
import M4ri.EchelonTop
namespace M4ri.BMat.ET
open PN

/-! ## §1 the automatic table parameter -/

theorem one_le_optK (a b : Nat) : 1 ≤ optK a b := by
  unfold optK
  omega

theorem optK_le (a b : Nat) : optK a b ≤ 16 := by
  unfold optK
  omega

/-- **the automatic `k` is never `0`** (for every `L3`, also `L3 = 0`): `m4ri_opt_k ≥ 1`, the cap at 7 keeps it `≥ 1`, and
    it is lowered only when `k > 1` -/
theorem one_le_autoK (nrows ncols L3 : Nat) : 1 ≤ autoK nrows ncols L3 := by
  have h := one_le_optK nrows ncols
  unfold autoK
  simp only []
  split <;> split <;> omega

theorem autoK_le_seven (nrows ncols L3 : Nat) : autoK nrows ncols L3 ≤ 7 := by
  unfold autoK
  simp only []
  split <;> split <;> omega

theorem one_le_autoKTop (maxR ncols L3 : Nat) : 1 ≤ autoKTop maxR ncols L3 := one_le_autoK maxR ncols L3

/-- the C code BEFORE the repair (`if (0.75 * … ) k -= 1;` without `k > 1`) reaches `k = 0` — a table of `2^0` rows and
    `kk = 0`, the loop makes no progress — e.g. for a `1 × 100` matrix and an L3 size of 100 bytes -/
theorem autoK_unrepaired_zero :
    (let k := min 7 (optK 1 100); if 3 * 2 ^ k * 100 > 2 * 100 then k - 1 else k) = 0 ∧ autoK 1 100 100 = 1 := by
  decide

/-! ## §2 `_mzd_echelonize_m4ri(A, full, k, heuristic, threshold)` -/

/-- `mzd_echelonize_pluq` over the real `mzd_pluq` / `mzd_ple` meets C02 on every well-formed input -/
theorem goodPluqEch (L1 L2 L3 : Nat) : G2.GoodPluqEch (pluqEch L1 L2 L3) := Top.goodPluqEch_top L1 L2 L3

/-- `pluqEch` is the routine of `Top.lean` -/
theorem pluqEch_eq (L1 L2 L3 : Nat) : pluqEch L1 L2 L3 = Top.pluqEchTop L1 L2 L3 := rfl

/-- the entry point with the density test replaced by an ARBITRARY decision function (and arbitrary choices `kauto ≥ 1`,
    `ktop ≥ 1` of the table parameters) -/
def echelonizeWith (switch : Nat → Nat → BMat → Bool) (L1 L2 L3 : Nat) (A : BMat) (full : Bool) (k : Nat)
    (heuristic : Bool) (junk junkTop : Nat → Nat) : BMat × Nat :=
  let k := if k = 0 then autoK A.nrows A.ncols L3 else k
  if heuristic then
    G2.echelonizeHybrid switch (pluqEch L1 L2 L3) A full k (fun r => autoKTop r A.ncols L3) junk junkTop
  else M4RI.echelonizeM4ri A full k junk

/-- the executable mirror is `echelonizeWith` at the floating-point density test -/
theorem echelonizeM4riTop_eq (L1 L2 L3 : Nat) (A : BMat) (full : Bool) (k : Nat) (heuristic : Bool) (threshold : Float)
    (junk junkTop : Nat → Nat) :
    echelonizeM4riTop L1 L2 L3 A full k heuristic threshold junk junkTop =
      echelonizeWith (switchFn threshold) L1 L2 L3 A full k heuristic junk junkTop := rfl

theorem keff_pos (A : BMat) (k L3 : Nat) : 1 ≤ (if k = 0 then autoK A.nrows A.ncols L3 else k) := by
  split
  · exact one_le_autoK _ _ _
  · omega

section s2
variable (switch : Nat → Nat → BMat → Bool) (L1 L2 L3 : Nat) {A : BMat} (hA : A.WF) (full : Bool) (k : Nat)
  (heuristic : Bool) (junk junkTop : Nat → Nat)
include hA

/-- **C02 for the whole entry point, for EVERY decision function** (so in particular whatever the floating-point
    arithmetic does): the shape of `A`, the row space of `A`, a row echelon form whose non-zero rows come first, the
    returned value is the rank, with `full` the matrix is THE reduced row echelon form, and the certificate checker
    accepts -/
theorem echelonizeWith_correct :
    let o := echelonizeWith switch L1 L2 L3 A full k heuristic junk junkTop
    o.1.WF ∧ o.1.nrows = A.nrows ∧ o.1.ncols = A.ncols ∧ SameSpan A o.1 ∧ o.1.isRowEchelon = true ∧ o.2 = A.rank ∧
      (∀ i, o.2 ≤ i → o.1.row i = 0) ∧ (full = true → o.1 = A.rref) ∧ checkEchelon A o.1 o.2 full = true := by
  intro o
  have hk := keff_pos A k L3
  cases heuristic with
  | true =>
    exact G2.echelonizeHybrid_correct switch (goodPluqEch L1 L2 L3) hA full hk _
      (fun r => one_le_autoKTop r A.ncols L3) junk junkTop
  | false => exact M4RI.echelonizeM4ri_correct hA full hk junk

/-- **C02, `_mzd_echelonize_m4ri(A, full, k, heuristic, threshold)` end to end**: every configuration, every `k ≥ 0`,
    every threshold, both values of `heuristic`, any prior contents of the index arrays -/
theorem echelonizeM4riTop_correct (threshold : Float) :
    let o := echelonizeM4riTop L1 L2 L3 A full k heuristic threshold junk junkTop
    o.1.WF ∧ o.1.nrows = A.nrows ∧ o.1.ncols = A.ncols ∧ SameSpan A o.1 ∧ o.1.isRowEchelon = true ∧ o.2 = A.rank ∧
      (∀ i, o.2 ≤ i → o.1.row i = 0) ∧ (full = true → o.1 = A.rref) ∧ checkEchelon A o.1 o.2 full = true :=
  echelonizeWith_correct (switchFn threshold) L1 L2 L3 hA full k heuristic junk junkTop

/-- … with `full`: the pair `(A.rref, A.rank)`, independent of `k`, the configuration, the threshold and `heuristic` -/
theorem echelonizeM4riTop_full_eq (threshold : Float) :
    echelonizeM4riTop L1 L2 L3 A true k heuristic threshold junk junkTop = (A.rref, A.rank) := by
  obtain ⟨_, _, _, _, _, e1, _, e2, _⟩ :=
    echelonizeM4riTop_correct L1 L2 L3 hA true k heuristic junk junkTop threshold
  exact Prod.ext (e2 rfl) e1

/-- the rank returned (both modes) and, with `full`, the whole result do not depend on the decision function at all -/
theorem echelonizeM4riTop_switch_irrelevant (threshold : Float) :
    (echelonizeM4riTop L1 L2 L3 A full k heuristic threshold junk junkTop).2 =
      (echelonizeWith switch L1 L2 L3 A full k heuristic junk junkTop).2 ∧
    (full = true → echelonizeM4riTop L1 L2 L3 A full k heuristic threshold junk junkTop =
      echelonizeWith switch L1 L2 L3 A full k heuristic junk junkTop) := by
  obtain ⟨_, _, _, _, _, a1, _, a2, _⟩ :=
    echelonizeM4riTop_correct L1 L2 L3 hA full k heuristic junk junkTop threshold
  obtain ⟨_, _, _, _, _, b1, _, b2, _⟩ := echelonizeWith_correct switch L1 L2 L3 hA full k heuristic junk junkTop
  exact ⟨a1.trans b1.symm, fun h => Prod.ext ((a2 h).trans (b2 h).symm) (a1.trans b1.symm)⟩

end s2

/-! ## §3 `mzd_echelonize`, `mzd_echelonize_m4ri` -/

section s3
variable (L1 L2 L3 : Nat) {A : BMat} (hA : A.WF) (full : Bool)
include hA

/-- **C02, `mzd_echelonize(A, full)`** -/
theorem echelonize_correct :
    let o := echelonize L1 L2 L3 A full
    o.1.WF ∧ o.1.nrows = A.nrows ∧ o.1.ncols = A.ncols ∧ SameSpan A o.1 ∧ o.1.isRowEchelon = true ∧ o.2 = A.rank ∧
      (∀ i, o.2 ≤ i → o.1.row i = 0) ∧ (full = true → o.1 = A.rref) ∧ checkEchelon A o.1 o.2 full = true :=
  echelonizeM4riTop_correct L1 L2 L3 hA full 0 true _ _ crossoverDensity

theorem echelonize_full_eq : echelonize L1 L2 L3 A true = (A.rref, A.rank) :=
  echelonizeM4riTop_full_eq L1 L2 L3 hA 0 true _ _ crossoverDensity

omit L1 L2 in
/-- **C02, `mzd_echelonize_m4ri(A, full, k)`, every `k`, `k = 0` included** -/
theorem echelonizeM4ri_correct (k : Nat) (junk : Nat → Nat) :
    let o := echelonizeM4ri L3 A full k junk
    o.1.WF ∧ o.1.nrows = A.nrows ∧ o.1.ncols = A.ncols ∧ SameSpan A o.1 ∧ o.1.isRowEchelon = true ∧ o.2 = A.rank ∧
      (∀ i, o.2 ≤ i → o.1.row i = 0) ∧ (full = true → o.1 = A.rref) ∧ checkEchelon A o.1 o.2 full = true :=
  M4RI.echelonizeM4ri_correct hA full (keff_pos A k L3) junk

omit L1 L2 in
theorem echelonizeM4ri_full_eq (k : Nat) (junk : Nat → Nat) :
    echelonizeM4ri L3 A true k junk = (A.rref, A.rank) := by
  obtain ⟨_, _, _, _, _, e1, _, e2, _⟩ := echelonizeM4ri_correct L3 hA true k junk
  exact Prod.ext (e2 rfl) e1

omit L1 L2 hA in
/-- `mzd_echelonize_m4ri` is `_mzd_echelonize_m4ri` without the heuristic (the threshold passed is irrelevant) -/
theorem echelonizeM4ri_eq_top (L1 L2 : Nat) (k : Nat) (threshold : Float) (junk junkTop : Nat → Nat) :
    echelonizeM4ri L3 A full k junk = echelonizeM4riTop L1 L2 L3 A full k false threshold junk junkTop := rfl

/-- **all entry points agree** when `full`: `mzd_echelonize_naive`, `mzd_echelonize_m4ri` (every `k`),
    `mzd_echelonize_pluq`, `_mzd_echelonize_m4ri` with the heuristic (every `k'`, every threshold) and `mzd_echelonize`
    all return `(A.rref, A.rank)` -/
theorem all_entry_points_agree (k k' : Nat) (threshold : Float) :
    gaussDelayed A 0 true = (A.rref, A.rank) ∧
    echelonizeM4ri L3 A true k = (A.rref, A.rank) ∧
    pluqEch L1 L2 L3 A true = (A.rref, A.rank) ∧
    echelonizeM4riTop L1 L2 L3 A true k' true threshold = (A.rref, A.rank) ∧
    echelonize L1 L2 L3 A true = (A.rref, A.rank) :=
  ⟨rfl, echelonizeM4ri_full_eq L3 hA k _, Top.echelonizePluq_pluqTop L1 L2 L3 hA,
    echelonizeM4riTop_full_eq L1 L2 L3 hA k' true _ _ threshold, echelonize_full_eq L1 L2 L3 hA⟩

end s3

/-! ## §4 `mzd_inv_m4ri` -/

/-- **C05, `mzd_inv_m4ri`** for every L3 size: if the well-formed `n × n` matrix `A` has a right inverse `Binv`, the
    routine returns it — it is `inverseSpec A` and a two-sided inverse -/
theorem invM4riTop_spec (L3 : Nat) {A : BMat} (hsq : A.ncols = A.nrows) (junk : Nat → Nat) (hA : A.WF)
    {Binv : BMat} (hB : Binv.WF) (hBr : Binv.nrows = A.nrows) (hBc : Binv.ncols = A.nrows)
    (hAB : A.mul Binv = identity A.nrows) :
    invM4riTop L3 A junk = Binv ∧ invM4riTop L3 A junk = inverseSpec A ∧
      A.mul (invM4riTop L3 A junk) = identity A.nrows ∧ (invM4riTop L3 A junk).mul A = identity A.nrows :=
  G2.invM4ri_spec hsq (one_le_autoK _ _ _) junk hA hB hBr hBc hAB

/-- … in Mathlib: `(mat A)⁻¹` whenever the determinant is a unit -/
theorem invM4riTop_mathlib (L3 : Nat) {n : Nat} {A : BMat} (hA : Shaped A n n) (hdet : IsUnit (ML.mat n n A).det)
    (junk : Nat → Nat) : ML.mat n n (invM4riTop L3 A junk) = (ML.mat n n A)⁻¹ :=
  Top.inv_m4ri_mathlib hA hdet (one_le_autoK _ _ _) junk

/-- … and on ANY square matrix the result `T` is invertible with `T·A = rref A` -/
theorem invM4riTop_any (L3 : Nat) {A : BMat} (hA : A.WF) (hsq : A.ncols = A.nrows) (junk : Nat → Nat) :
    (invM4riTop L3 A junk).mul A = A.rref ∧
    ∃ T' : BMat, T'.WF ∧ T'.nrows = A.nrows ∧ T'.ncols = A.nrows ∧
      (invM4riTop L3 A junk).mul T' = identity A.nrows ∧ T'.mul (invM4riTop L3 A junk) = identity A.nrows :=
  G2.invM4ri_mul_eq_rref hA hsq (one_le_autoK _ _ _) junk

/-! ## §5 the density count -/

theorem countBits_le (v lo hi : Nat) : countBits v lo hi ≤ hi - lo := by
  unfold countBits
  suffices h : ∀ (L : List Nat) (a : Nat),
      L.foldl (fun a t => if v.testBit (lo + t) then a + 1 else a) a ≤ a + L.length by
    simpa using h (List.range (hi - lo)) 0
  intro L
  induction L with
  | nil => intro a; simp
  | cons x xs ih =>
    intro a
    simp only [List.foldl_cons, List.length_cons]
    split
    · exact Nat.le_trans (ih (a + 1)) (by omega)
    · exact Nat.le_trans (ih a) (by omega)

theorem foldl_words_le (v : Nat) (ws : List Nat) (a : Nat) :
    ws.foldl (fun a j => a + countBits v (64 * j) (64 * j + 64)) a ≤ a + 64 * ws.length := by
  induction ws generalizing a with
  | nil => simp
  | cons j js ih =>
    simp only [List.foldl_cons, List.length_cons]
    have := countBits_le v (64 * j) (64 * j + 64)
    exact Nat.le_trans (ih _) (by omega)

theorem foldl_pair_le {α : Type} (step : Nat × Nat → α → Nat × Nat)
    (h : ∀ p t, p.1 ≤ p.2 → (step p t).1 ≤ (step p t).2) :
    ∀ (L : List α) (p : Nat × Nat), p.1 ≤ p.2 → (L.foldl step p).1 ≤ (L.foldl step p).2 := by
  intro L
  induction L with
  | nil => intro p hp; exact hp
  | cons x xs ih => intro p hp; exact ih _ (h p x hp)

theorem foldl_sum_le (f : Nat → Nat) (b : Nat) (h : ∀ t, f t ≤ b) :
    ∀ (L : List Nat) (a : Nat), L.foldl (fun cnt t => cnt + f t) a ≤ a + L.length * b := by
  intro L
  induction L with
  | nil => intro a; simp
  | cons x xs ih =>
    intro a
    simp only [List.foldl_cons, List.length_cons]
    have := h x
    exact Nat.le_trans (ih _) (by rw [Nat.add_mul]; omega)

/-- the count of `_mzd_density` never exceeds its divisor, in both branches (the density lies in `[0, 1]` as a rational
    number; for the `width == 1` branch the divisor `ncols · nrows` is in general LARGER than the number of entries
    looked at, `(nrows - r) · (ncols - c)`: the density of a trailing submatrix of a one-word matrix is underestimated) -/
theorem densityParts_le (A : BMat) (res r c : Nat) : (densityParts A res r c).1 ≤ (densityParts A res r c).2 := by
  unfold densityParts
  simp only []
  split
  · show _ ≤ A.ncols * A.nrows
    have h := foldl_sum_le (fun t => countBits (A.row (r + t)) c A.ncols) A.ncols
      (fun t => Nat.le_trans (countBits_le _ _ _) (Nat.sub_le _ _)) (List.range (A.nrows - r)) 0
    simp only [List.length_range, Nat.zero_add] at h
    refine Nat.le_trans h ?_
    rw [Nat.mul_comm]
    exact Nat.mul_le_mul_left _ (Nat.sub_le _ _)
  · apply foldl_pair_le
    · intro p t hp
      simp only []
      have h1 := countBits_le (A.row (r + t)) c 64
      have h2 := countBits_le (A.row (r + t)) (64 * (A.ncols / 64)) (64 * (A.ncols / 64) + A.ncols % 64)
      have h3 := foldl_words_le (A.row (r + t))
        (sampledWords ((A.ncols + 63) / 64)
          (if (if res = 0 then (A.ncols + 63) / 64 / 100 else res) < 1 then 1
            else if res = 0 then (A.ncols + 63) / 64 / 100 else res) c)
        (p.1 + countBits (A.row (r + t)) c 64)
      omega
    · exact Nat.le_refl _

/-! ## §6 non-vacuity: the `3 × 4` running example (rank 2), every configuration, every threshold -/

example (L1 L2 L3 : Nat) (k : Nat) (heuristic : Bool) (threshold : Float) :
    echelonizeM4riTop L1 L2 L3 Top.ex34 true k heuristic threshold = (Top.ex34.rref, Top.ex34.rank) :=
  echelonizeM4riTop_full_eq L1 L2 L3 Top.ex34_WF k heuristic _ _ threshold

example (L1 L2 L3 : Nat) (full : Bool) : (echelonize L1 L2 L3 Top.ex34 full).2 = Top.ex34.rank :=
  (echelonize_correct L1 L2 L3 Top.ex34_WF full).2.2.2.2.2.1

/-- the hypotheses of `invM4riTop_spec` are satisfiable: the `2 × 2` matrix `[[1,1],[0,1]]` is its own inverse -/
example (L3 : Nat) : invM4riTop L3 ⟨2, 2, #[3, 2]⟩ = ⟨2, 2, #[3, 2]⟩ :=
  (invM4riTop_spec L3 rfl _ Top.ex22_WF Top.ex22_WF rfl rfl (by decide +kernel)).1

/-- closed runs of the automatic parameter: the repository configuration never lowers `k` for the sizes of the suite,
    the small configuration (L3 = 65536) does -/
example : autoK 700 700 56623104 = 7 ∧ autoK 700 700 65536 = 6 ∧ autoK 300 700 65536 = 5 ∧ autoK 3 4 0 = 1 := by decide

end M4ri.BMat.ET
