/-
  Tie between the mechanically generated `mzd_apply_p_left`, `mzd_apply_p_left_trans` (mzp.c),
  `mzd_row_swap` (mzd.c) and `mzd_make_table` (brilliantrussian.c) of `M4ri/Gen/CFuns.lean` and the
  hand-written word-level model (`M4ri/Mzd.lean`, `M4ri/MulW.lean`).

  Main theorems (generated function on `memOf` images = image of the model function):
    `mzdRowSwap0_eq`, `mzdApplyPLeft_eq`, `mzdApplyPLeftTrans_eq`          (WF, swap targets in range)
    `mzdMakeTable_eq'` (pair equality, weakest hypotheses), `mzdMakeTable_T`, `mzdMakeTable_L`,
    `mzdMakeTable_L_neg`, `mzdMakeTable_eq` (C-contract form)
  Technique for the big function: the top-level `let`s are extracted and replaced by their model values, the
  loop bodies are normalised with `dsimp (config := { etaStruct := .none })` (a plain `dsimp only` turns the
  `match` on the inner loop's result into projections and copies the inner loop exponentially), the row write is
  tracked by `rowMemZ` (words `hb .. z-1` of row `i` written), the fall-through tail position-wise (`tail_mid`).
-/
import M4ri.Gen.CFuns
import M4ri.Mzd
import M4ri.MulW
import M4riProofs.Basic
import M4riProofs.GenTie
import M4riProofs.GenTieMem
import M4riProofs.W.Perm
import M4riProofs.MulRGray
namespace M4ri.GenTieTab
open M4ri M4ri.Gen M4ri.GenTieMem

/-! ### 1. `mzd_row_swap`, `mzd_apply_p_left`, `mzd_apply_p_left_trans` -/

/-- `mzd_row_swap` -/
theorem mzdRowSwap0_eq (M : Mzd) (a b : Nat) (hwf : M.WF) (ha : a < M.nrows) (hb : b < M.nrows) :
    Gen.C.mzdRowSwap0 a b (memOf M) M.width M.hb = memOf (M.rowSwap a b) := by
  unfold Gen.C.mzdRowSwap0 Mzd.rowSwap
  exact mzdRowSwap_eq M a b 0 hwf ha hb

/-- the matrix after the swaps `f 0, f 1, …, f (k-1)` (each `j ↦ (f j, P[f j])`) -/
def swapsBy (A : Mzd) (P : Array Nat) (f : Nat → Nat) (k : Nat) : Mzd :=
  (List.range k).foldl (fun M j => M.rowSwap (f j) (P.getD (f j) 0)) A

theorem swapsBy_succ (A : Mzd) (P : Array Nat) (f : Nat → Nat) (k : Nat) :
    swapsBy A P f (k + 1) = (swapsBy A P f k).rowSwap (f k) (P.getD (f k) 0) := by
  simp [swapsBy, List.range_succ]

theorem rowSwap_nrows (M : Mzd) (a b : Nat) : (M.rowSwap a b).nrows = M.nrows :=
  Mzd.rowSwapFrom_nrows M a b 0
theorem rowSwap_ncols (M : Mzd) (a b : Nat) : (M.rowSwap a b).ncols = M.ncols :=
  Mzd.rowSwapFrom_ncols M a b 0

theorem swapsBy_shape (A : Mzd) (P : Array Nat) (f : Nat → Nat) (n : Nat) (hwf : A.WF)
    (hf : ∀ j, j < n → f j < A.nrows ∧ P.getD (f j) 0 < A.nrows) :
    ∀ k, k ≤ n → (swapsBy A P f k).WF ∧ (swapsBy A P f k).nrows = A.nrows ∧
      (swapsBy A P f k).ncols = A.ncols := by
  intro k
  induction k with
  | zero => intro _; exact ⟨hwf, rfl, rfl⟩
  | succ k ih =>
    intro hk
    obtain ⟨h1, h2, h3⟩ := ih (by omega)
    rw [swapsBy_succ]
    have := hf k (by omega)
    refine ⟨Mzd.rowSwap_WF _ _ _ h1 (by rw [h2]; exact this.1) (by rw [h2]; exact this.2), ?_, ?_⟩
    · rw [rowSwap_nrows, h2]
    · rw [rowSwap_ncols, h3]

theorem width_of_ncols {A B : Mzd} (h : A.ncols = B.ncols) : A.width = B.width := by
  unfold Mzd.width; rw [h]
theorem hb_of_ncols {A B : Mzd} (h : A.ncols = B.ncols) : A.hb = B.hb := by
  unfold Mzd.hb; rw [h]

/-- `mzd_apply_p_left` -/
theorem mzdApplyPLeft_eq (A : Mzd) (P : Array Nat) (hwf : A.WF)
    (hP : ∀ i, i < min P.size A.nrows → P.getD i 0 < A.nrows) :
    Gen.C.mzdApplyPLeft (memOf A) A.ncols P.size A.nrows (fun i => ((P.getD i.toNat 0 : Nat) : Int))
      A.width A.hb = memOf (A.applyPLeft P) := by
  unfold Gen.C.mzdApplyPLeft Mzd.applyPLeft
  by_cases h0 : A.ncols = 0
  · rw [if_pos h0, if_pos (by simp [h0])]
  rw [if_neg h0, if_neg (by simp; omega)]
  have hlen : (if decide ((P.size : Int) < (A.nrows : Int)) = true then (P.size : Int) else (A.nrows : Int))
      = ((min P.size A.nrows : Nat) : Int) := by
    split <;> rename_i h <;> rw [decide_eq_true_eq] at h <;> omega
  dsimp only
  rw [hlen]
  generalize hn : min P.size A.nrows = n at hP
  generalize hres : CLoop.loop _ _ _ _ = res
  have hsh := swapsBy_shape A P id n hwf (fun j hj => ⟨by simp only [id]; omega, hP j hj⟩)
  have key := for_loop_eq hres n
    (fun k st => st.2 = (k : Int) ∧ st.1 = memOf (swapsBy A P id k)) (by simp; omega) ⟨rfl, rfl⟩ ?_ ?_
  · rw [key.2]; rfl
  · intro k st hk hP'
    obtain ⟨m, i⟩ := st
    obtain ⟨k1, k2⟩ := hP'
    dsimp only at k1 k2 ⊢
    subst k1
    simp
  · intro k st hk hP'
    obtain ⟨m, i⟩ := st
    obtain ⟨k1, k2⟩ := hP'
    dsimp only at k1 k2 ⊢
    subst k1 k2
    refine ⟨by omega, ?_⟩
    obtain ⟨h1, h2, h3⟩ := hsh k (by omega)
    rw [swapsBy_succ, Int.toNat_natCast, ← width_of_ncols h3, ← hb_of_ncols h3]
    exact mzdRowSwap0_eq _ _ _ h1 (by rw [h2]; show k < A.nrows; omega) (by rw [h2]; exact hP k hk)

/-- `mzd_apply_p_left_trans` -/
theorem mzdApplyPLeftTrans_eq (A : Mzd) (P : Array Nat) (hwf : A.WF)
    (hP : ∀ i, i < min P.size A.nrows → P.getD i 0 < A.nrows) :
    Gen.C.mzdApplyPLeftTrans (memOf A) A.ncols P.size A.nrows (fun i => ((P.getD i.toNat 0 : Nat) : Int))
      A.width A.hb = memOf (A.applyPLeftTrans P) := by
  unfold Gen.C.mzdApplyPLeftTrans Mzd.applyPLeftTrans
  by_cases h0 : A.ncols = 0
  · rw [if_pos h0, if_pos (by simp [h0])]
  rw [if_neg h0, if_neg (by simp; omega)]
  have hlen : (if decide ((P.size : Int) < (A.nrows : Int)) = true then (P.size : Int) else (A.nrows : Int))
      = ((min P.size A.nrows : Nat) : Int) := by
    split <;> rename_i h <;> rw [decide_eq_true_eq] at h <;> omega
  dsimp only
  rw [hlen]
  generalize hn : min P.size A.nrows = n at hP
  generalize hres : CLoop.loop _ _ _ _ = res
  have hsh := swapsBy_shape A P (fun j => n - 1 - j) n hwf
    (fun j hj => ⟨by omega, hP _ (by omega)⟩)
  have key := for_loop_eq hres n
    (fun k st => st.2 = (n : Int) - 1 - (k : Int) ∧ st.1 = memOf (swapsBy A P (fun j => n - 1 - j) k))
    (by simp; omega) ⟨by show (n : Int) - 1 = _; omega, rfl⟩ ?_ ?_
  · rw [key.2, reverse_range, List.foldl_map]; rfl
  · intro k st hk hP'
    obtain ⟨m, i⟩ := st
    obtain ⟨k1, k2⟩ := hP'
    dsimp only at k1 k2 ⊢
    subst k1
    simp
    omega
  · intro k st hk hP'
    obtain ⟨m, i⟩ := st
    obtain ⟨k1, k2⟩ := hP'
    dsimp only at k1 k2 ⊢
    subst k1 k2
    refine ⟨by omega, ?_⟩
    obtain ⟨h1, h2, h3⟩ := hsh k (by omega)
    have e : (n : Int) - 1 - (k : Int) = ((n - 1 - k : Nat) : Int) := by omega
    rw [swapsBy_succ, e, Int.toNat_natCast, ← width_of_ncols h3, ← hb_of_ncols h3]
    exact mzdRowSwap0_eq _ _ _ h1 (by rw [h2]; omega) (by rw [h2]; exact hP _ (by omega))


/-! ### 2. `mzd_make_table` -/

/-! #### one table row: the word-by-word write `*ti++ = (*m++ ^ *ti1++) [& mask]` -/

section Row
variable (mT mM : Int → Int → BitVec 64) (i i1 rn hb wend : Int) (mb me : BitVec 64)

/-- the word written at position `z` of row `i` of the table -/
def wval (z : Int) : BitVec 64 :=
  if z = hb then (mM rn z ^^^ mT i1 z) &&& mb
  else if z + 1 = wend then (mM rn z ^^^ mT i1 z) &&& me else mM rn z ^^^ mT i1 z

/-- table memory with the words `hb .. zc-1` of row `i` written -/
def rowMemZ (zc : Int) : Int → Int → BitVec 64 :=
  fun r z => if r = i ∧ hb ≤ z ∧ z < zc then wval mT mM i1 rn hb wend mb me z else mT r z

theorem step_first (_hne : i1 ≠ i) :
    CLoop.upd2 mT i hb ((mM rn hb ^^^ mT i1 hb) &&& mb) = rowMemZ mT mM i i1 rn hb wend mb me (hb + 1) := by
  funext r z
  simp only [upd2_apply, rowMemZ, wval]
  by_cases hz : z = hb
  · subst hz
    repeat' split
    all_goals first | rfl | (exfalso; omega)
  · repeat' split
    all_goals first | rfl | (exfalso; omega)

theorem step_mid (_hne : i1 ≠ i) (z : Int) (h : hb < z ∧ z + 1 < wend) :
    CLoop.upd2 (rowMemZ mT mM i i1 rn hb wend mb me z) i z
        (mM rn z ^^^ rowMemZ mT mM i i1 rn hb wend mb me z i1 z)
      = rowMemZ mT mM i i1 rn hb wend mb me (z + 1) := by
  funext r z'
  simp only [upd2_apply, rowMemZ, wval]
  by_cases hz : z' = z
  · subst hz
    repeat' split
    all_goals first | rfl | (exfalso; omega)
  · repeat' split
    all_goals first | rfl | (exfalso; omega)

theorem step_last (_hne : i1 ≠ i) (z : Int) (h : hb < z ∧ z + 1 = wend) :
    CLoop.upd2 (rowMemZ mT mM i i1 rn hb wend mb me z) i z
        ((mM rn z ^^^ rowMemZ mT mM i i1 rn hb wend mb me z i1 z) &&& me)
      = rowMemZ mT mM i i1 rn hb wend mb me (z + 1) := by
  funext r z'
  simp only [upd2_apply, rowMemZ, wval]
  by_cases hz : z' = z
  · subst hz
    repeat' split
    all_goals first | rfl | (exfalso; omega)
  · repeat' split
    all_goals first | rfl | (exfalso; omega)

/-- a position of the fall-through tail that writes a whole word: it runs iff `sp ≤ p` -/
theorem tail_mid (hne : i1 ≠ i) (z sp p : Int) (h : sp ≤ p → hb < z ∧ z + 1 < wend) :
    (if decide (sp ≤ p) = true then
        (CLoop.upd2 (rowMemZ mT mM i i1 rn hb wend mb me z) i z
          (mM rn z ^^^ rowMemZ mT mM i i1 rn hb wend mb me z i1 z), z + 1, z + 1, z + 1)
      else (rowMemZ mT mM i i1 rn hb wend mb me z, z, z, z))
    = (rowMemZ mT mM i i1 rn hb wend mb me (z + if sp ≤ p then 1 else 0),
        z + (if sp ≤ p then 1 else 0), z + (if sp ≤ p then 1 else 0), z + (if sp ≤ p then 1 else 0)) := by
  by_cases hp : sp ≤ p
  · rw [if_pos (decide_eq_true hp), if_pos hp, step_mid mT mM i i1 rn hb wend mb me hne z (h hp)]
  · rw [if_neg (by rw [decide_eq_true_eq]; exact hp), if_neg hp, Int.add_zero]

/-- the last position of the tail: the word under `mask_end` -/
theorem tail_last (hne : i1 ≠ i) (z sp p : Int) (h : sp ≤ p → hb < z ∧ z + 1 = wend) :
    (if decide (sp ≤ p) = true then
        (CLoop.upd2 (rowMemZ mT mM i i1 rn hb wend mb me z) i z
          ((mM rn z ^^^ rowMemZ mT mM i i1 rn hb wend mb me z i1 z) &&& me), z + 1, z + 1, z + 1)
      else (rowMemZ mT mM i i1 rn hb wend mb me z, z, z, z))
    = (rowMemZ mT mM i i1 rn hb wend mb me (z + if sp ≤ p then 1 else 0),
        z + (if sp ≤ p then 1 else 0), z + (if sp ≤ p then 1 else 0), z + (if sp ≤ p then 1 else 0)) := by
  by_cases hp : sp ≤ p
  · rw [if_pos (decide_eq_true hp), if_pos hp, step_last mT mM i i1 rn hb wend mb me hne z (h hp)]
  · rw [if_neg (by rw [decide_eq_true_eq]; exact hp), if_neg hp, Int.add_zero]

end Row

/-- the completely written row is the model's `makeTableRowW` -/
theorem rowMemZ_final (S M : Mzd) (x x1 rn hb : Nat) (mb me : BitVec 64) (hwf : S.WF) (hx : x < S.nrows)
    (_hne : x1 ≠ x) (hw : M.width ≤ S.width) :
    rowMemZ (memOf S) (memOf M) x x1 rn hb M.width mb me M.width =
      memOf (S.setRow x (Mzd.W.makeTableRowW (S.row x) (S.row x1) (M.row rn) hb M.width mb me)) := by
  have hsz : (S.row x).size = S.width := hwf.2 x hx
  apply eq_memOf_setRow _ _ _ (by rw [hwf.1]; exact hx)
  · intro k
    simp only [rowMemZ, wval, Mzd.W.makeTableRowW, Row.w_mapIdx', hsz, memOf_nat, true_and]
    by_cases hk : k < S.width
    · rw [if_pos hk]
      by_cases h1 : k < hb ∨ k ≥ M.width
      · rw [if_pos h1, if_neg (by omega)]
      · rw [if_neg h1, if_pos (by omega)]
        by_cases h2 : k = hb
        · rw [if_pos (by omega), if_pos h2]
        · rw [if_neg (by omega), if_neg h2]
          by_cases h3 : k + 1 = M.width
          · rw [if_pos (by omega), if_pos h3]
          · rw [if_neg (by omega), if_neg h3]
    · rw [if_neg hk, if_neg (by omega), Row.w_of_ge _ _ (by omega)]
  · intro z hz
    simp only [rowMemZ]
    rw [if_neg (by omega), memOf_neg _ _ _ hz]
  · intro r' i' hr
    simp only [rowMemZ]
    rw [if_neg (by omega)]


/-! #### the index array `L` -/

/-- memory image of an index array (`rci_t *L`), as the generated functions receive it -/
def arrOf (L : Array Nat) : Int → Int := fun i => ((L.getD i.toNat 0 : Nat) : Int)

/-- the image of `L` at the non-negative indices, the image of `L0` at the negative ones
    (the generated function never writes there) -/
def arrMem (L0 L : Array Nat) : Int → Int :=
  fun i => if i < 0 then ((L0.getD 0 0 : Nat) : Int) else ((L.getD i.toNat 0 : Nat) : Int)

theorem arrOf_eq_arrMem (L : Array Nat) : arrOf L = arrMem L L := by
  funext i
  unfold arrOf arrMem
  by_cases h : i < 0
  · rw [if_pos h]
    have : i.toNat = 0 := by omega
    rw [this]
  · rw [if_neg h]

theorem upd1_arrMem (L0 L : Array Nat) (x v : Nat) (hx : x < L.size) :
    CLoop.upd1 (arrMem L0 L) (x : Int) (v : Int) = arrMem L0 (L.setIfInBounds x v) := by
  funext i
  unfold CLoop.upd1 arrMem
  by_cases h : i < 0
  · rw [if_neg (by omega), if_pos h, if_pos h]
  · rw [if_neg h, if_neg h]
    by_cases h2 : i = (x : Int)
    · subst h2
      rw [if_pos rfl, Int.toNat_natCast]
      simp [Array.getD, hx]
    · rw [if_neg h2]
      have : x ≠ i.toNat := by omega
      simp only [Array.getD_eq_getD_getElem?, Array.getElem?_setIfInBounds_ne this]

/-! #### the outer loop -/

/-- the state after `n` iterations of the loop of `mzd_make_table` -/
def mtIter (M : Mzd) (r c k : Nat) (T : Mzd) (L : Array Nat) (n : Nat) : Mzd × Array Nat :=
  (List.range n).foldl (Mzd.W.makeTableStepW M r c k) (T, L.setIfInBounds 0 0)

theorem makeTableW_eq (M : Mzd) (r c k : Nat) (T : Mzd) (L : Array Nat) :
    Mzd.W.makeTableW M r c k T L = mtIter M r c k T L (2 ^ k - 1) := rfl

theorem mtIter_succ (M : Mzd) (r c k : Nat) (T : Mzd) (L : Array Nat) (n : Nat) :
    mtIter M r c k T L (n + 1) = Mzd.W.makeTableStepW M r c k (mtIter M r c k T L n) n := by
  simp [mtIter, List.range_succ]

theorem step_snd (M : Mzd) (r c k : Nat) (TL : Mzd × Array Nat) (i0 : Nat) :
    (Mzd.W.makeTableStepW M r c k TL i0).2 = TL.2.setIfInBounds ((buildOrd k).getD (i0 + 1) 0) (i0 + 1) := by
  unfold Mzd.W.makeTableStepW; simp only []; split <;> rfl

theorem step_fst_skip (M : Mzd) (r c k : Nat) (TL : Mzd × Array Nat) (i0 : Nat)
    (h : M.nrows ≤ r + (buildInc k).getD i0 0) : (Mzd.W.makeTableStepW M r c k TL i0).1 = TL.1 := by
  unfold Mzd.W.makeTableStepW; simp only [Nat.add_sub_cancel]; rw [if_pos h]

theorem step_fst_write (M : Mzd) (r c k : Nat) (TL : Mzd × Array Nat) (i0 : Nat)
    (h : r + (buildInc k).getD i0 0 < M.nrows) :
    (Mzd.W.makeTableStepW M r c k TL i0).1 =
      TL.1.setRow (i0 + 1) (Mzd.W.makeTableRowW (TL.1.row (i0 + 1)) (TL.1.row i0)
        (M.row (r + (buildInc k).getD i0 0)) (c / 64) M.width (Mzd.W.tableMaskBegin M c)
        (leftMask (M.ncols % 64))) := by
  unfold Mzd.W.makeTableStepW; simp only [Nat.add_sub_cancel]; rw [if_neg (by omega)]

theorem makeTableRowW_size (ti ti1 m : Row) (hb w : Nat) (mb me : Word) :
    (Mzd.W.makeTableRowW ti ti1 m hb w mb me).size = ti.size := by
  simp [Mzd.W.makeTableRowW]

/-- shape of the intermediate states -/
theorem mtIter_shape (M : Mzd) (r c k : Nat) (T : Mzd) (L : Array Nat) (hT : T.WF) (n : Nat) :
    (mtIter M r c k T L n).1.WF ∧ (mtIter M r c k T L n).1.nrows = T.nrows ∧
      (mtIter M r c k T L n).1.ncols = T.ncols ∧ (mtIter M r c k T L n).2.size = L.size := by
  induction n with
  | zero => exact ⟨hT, rfl, rfl, by simp [mtIter]⟩
  | succ n ih =>
    rw [mtIter_succ]
    generalize mtIter M r c k T L n = TL at ih ⊢
    obtain ⟨h1, h2, h3, h4⟩ := ih
    refine ⟨?_, ?_, ?_, ?_⟩
    · by_cases hs : M.nrows ≤ r + (buildInc k).getD n 0
      · rw [step_fst_skip M r c k TL n hs]; exact h1
      · rw [step_fst_write M r c k TL n (by omega)]
        by_cases hin : n + 1 < TL.1.nrows
        · exact h1.setRow _ _ (by rw [makeTableRowW_size]; exact h1.2 _ hin)
        · rw [Mzd.setRow_of_ge _ _ _ (by rw [h1.1]; exact hin)]; exact h1
    · by_cases hs : M.nrows ≤ r + (buildInc k).getD n 0
      · rw [step_fst_skip M r c k TL n hs]; exact h2
      · rw [step_fst_write M r c k TL n (by omega)]; exact h2
    · by_cases hs : M.nrows ≤ r + (buildInc k).getD n 0
      · rw [step_fst_skip M r c k TL n hs]; exact h3
      · rw [step_fst_write M r c k TL n (by omega)]; exact h3
    · rw [step_snd, Array.size_setIfInBounds]; exact h4

theorem buildOrd_lt (k i : Nat) : (buildOrd k).getD i 0 < 2 ^ k := by
  by_cases hi : i < 2 ^ k
  · have e : (buildOrd k).getD i 0 = grayCode i k := by simp [buildOrd, Array.getD, hi]
    rw [e]; exact MulR.grayCode_lt i k
  · have : (buildOrd k).size = 2 ^ k := by simp [buildOrd]
    simp [Array.getD, this, hi]
    exact Nat.two_pow_pos k

theorem twokay_eq (k : Nat) (hk : k < 31) :
    BitVec.toInt (BitVec.setWidth 32 ((1#64) <<< ((k : Int)).toNat)) = ((2 ^ k : Nat) : Int) := by
  have := GenTie.twopow_eq k hk
  unfold Gen.C.twopow at this
  rw [this]
  norm_cast

theorem tableMaskBegin_gen (M : Mzd) (c : Nat) (hc : c / 64 < M.width) :
    (if decide ((M.width : Int) - ((c / 64 : Nat) : Int) ≠ 1) = true then rightMask (64 - c % 64)
      else rightMask (64 - c % 64) &&& leftMask (M.ncols % 64)) = Mzd.W.tableMaskBegin M c := by
  unfold Mzd.W.tableMaskBegin
  dsimp only
  by_cases h : M.width - c / 64 ≠ 1
  · rw [if_pos h, if_pos (by rw [decide_eq_true_eq]; omega)]
  · rw [if_neg h, if_neg (by rw [decide_eq_true_eq]; omega)]

theorem rightmask_gen (c : Nat) :
    BitVec.allOnes 64 <<< ((64 : Int) - (64 - ((c % 64 : Nat) : Int))).toNat = rightMask (64 - c % 64) := by
  unfold rightMask ffff
  congr 1
  omega

/-- `dsimp only` that keeps a `match` on a non-constructor as it is (no projections) -/
macro "dsimp_m" : tactic => `(tactic| dsimp (config := { etaStruct := .none }) only)
macro "dsimp_m" " at " h:ident : tactic => `(tactic| dsimp (config := { etaStruct := .none }) only at $h:ident)

/-- counting-loop rule, the new state named by an equation -/
theorem for_loop_eq' {σ : Type} {cond : σ → Bool} {body : σ → σ} {fuel : Nat} {s res : σ}
    (hres : CLoop.loop fuel cond body s = res)
    (n : Nat) (P : Nat → σ → Prop) (hf : n ≤ fuel) (h0 : P 0 s)
    (hcond : ∀ k s, k ≤ n → P k s → cond s = decide (k < n))
    (hbody : ∀ k s s', k < n → P k s → s' = body s → P (k + 1) s') :
    P n res :=
  for_loop_eq hres n P hf h0 hcond (fun k s hk hP => hbody k s _ hk hP rfl)

/-- `mzd_make_table`: the generated function on the images of `L`, `T`, `M` and of the code book returns the
    images of the model's `makeTableW`.  Index array: `arrMem L L'` is the image of the new array at the indices
    `≥ 0` and the image of the OLD array at the negative ones, i.e. nothing is written outside `[0, 2^k)`.
    No `M.WF`, no `1 ≤ k`; `M.width ≤ T.width` and `c / 64 < M.width` instead of `T.width = M.width`, `c < M.ncols`. -/
theorem mzdMakeTable_eq' (M T : Mzd) (L : Array Nat) (r c k : Nat) (hT : T.WF) (hw : M.width ≤ T.width)
    (hrows : 2 ^ k ≤ T.nrows) (hL : 2 ^ k ≤ L.size) (hc : c / 64 < M.width) (hk : k < 31) :
    Gen.C.mzdMakeTable r c k (arrOf L) (memOf T) M.ncols M.width
        (fun kk i => (((buildInc kk.toNat).getD i.toNat 0 : Nat) : Int))
        (fun kk i => (((buildOrd kk.toNat).getD i.toNat 0 : Nat) : Int)) M.nrows (memOf M)
      = (arrMem L (Mzd.W.makeTableW M r c k T L).2, memOf (Mzd.W.makeTableW M r c k T L).1) := by
  unfold Gen.C.mzdMakeTable
  extract_lets -underBinder -merge v_L v_homeblock v_mask_end v_pmb v_mask_begin v_wide v_twokay v_L1 v_i
  have e1 : v_homeblock = ((c / 64 : Nat) : Int) := GenTieMem.tdiv_nat c
  have e2 : v_mask_end = leftMask (M.ncols % 64) := leftmask_gen M.ncols
  have e3 : v_pmb = rightMask (64 - c % 64) := by
    show BitVec.allOnes 64 <<< ((64 : Int) - (64 - Int.tmod (c : Int) 64)).toNat = _
    rw [GenTieMem.tmod_nat, rightmask_gen]
  have e4 : v_mask_begin = Mzd.W.tableMaskBegin M c := by
    show (if decide ((M.width : Int) - v_homeblock ≠ 1) = true then v_pmb else v_pmb &&& v_mask_end) = _
    rw [e1, e2, e3, tableMaskBegin_gen M c hc]
  have e5 : v_wide = (M.width : Int) - ((c / 64 : Nat) : Int) := by
    show (M.width : Int) - v_homeblock = _
    rw [e1]
  have e6 : v_twokay = ((2 ^ k : Nat) : Int) := twokay_eq k hk
  have e7 : v_L1 = arrMem L (L.setIfInBounds 0 0) := by
    show CLoop.upd1 (arrOf L) ((0 : Int) + 0) 0 = _
    rw [arrOf_eq_arrMem]
    exact upd1_arrMem L L 0 0 (by have := Nat.two_pow_pos k; omega)
  clear_value v_L1 v_twokay v_wide v_mask_begin v_pmb v_mask_end v_homeblock
  subst e1 e2 e3 e4 e5 e6 e7
  have eL : v_L = 0 := rfl
  have ei : v_i = 1 := rfl
  clear_value v_L v_i
  subst eL ei
  generalize hres : CLoop.loop _ _ _ _ = res
  have h2k := Nat.two_pow_pos k
  have key := for_loop_eq' hres (2 ^ k - 1)
    (fun q st => st.2.2 = ((q + 1 : Nat) : Int) ∧ st.2.1 = memOf (mtIter M r c k T L q).1 ∧
      st.1 = arrMem L (mtIter M r c k T L q).2)
    (by rw [Int.toNat_natCast]; omega) ⟨rfl, rfl, rfl⟩ ?_ ?_
  · obtain ⟨Lf, Tf, iv⟩ := res
    obtain ⟨k1, k2, k3⟩ := key
    dsimp only at k1 k2 k3 ⊢
    rw [k2, k3, makeTableW_eq]
  · intro q st hq hP
    obtain ⟨Lf, Tf, iv⟩ := st
    obtain ⟨k1, k2, k3⟩ := hP
    dsimp only at k1 k2 k3 ⊢
    subst k1
    rw [decide_eq_decide]
    omega
  · intro q st st' hq hP hst'
    obtain ⟨Lf, Tf, iv⟩ := st
    obtain ⟨k1, k2, k3⟩ := hP
    dsimp only at k1 k2 k3
    subst k1 k2 k3
    obtain ⟨s1, s2, s3, s4⟩ := mtIter_shape M r c k T L hT q
    rw [mtIter_succ]
    generalize mtIter M r c k T L q = TL at s1 s2 s3 s4 hst' ⊢
    obtain ⟨S, Lq⟩ := TL
    clear hres
    dsimp only at s1 s2 s3 s4
    dsimp_m at hst'
    have e1 : ((q + 1 : Nat) : Int) - 1 = (q : Int) := by omega
    have e2 : (r : Int) + (((buildInc k).getD q 0 : Nat) : Int) = ((r + (buildInc k).getD q 0 : Nat) : Int) := by
      omega
    simp (config := { etaStruct := .none }) only [Int.toNat_natCast, e1, e2, Int.zero_add] at hst'
    generalize hrn : r + (buildInc k).getD q 0 = rn at hst' ⊢
    have hord : (buildOrd k).getD (q + 1) 0 < Lq.size := by
      have := buildOrd_lt k (q + 1); omega
    rw [upd1_arrMem L Lq _ _ hord] at hst'
    have hi1 : ((q + 1 : Nat) : Int) + 1 = ((q + 1 + 1 : Nat) : Int) := by omega
    rw [hi1] at hst'
    by_cases hs : M.nrows ≤ rn
    · rw [if_pos (by rw [decide_eq_true_eq]; omega)] at hst'
      subst hst'
      refine ⟨rfl, ?_, ?_⟩
      · show memOf S = _
        rw [step_fst_skip M r c k (S, Lq) q (by omega)]
      · show arrMem L _ = _
        rw [step_snd]
    · rw [if_neg (by rw [decide_eq_true_eq]; omega)] at hst'
      have hne : (q : Int) ≠ ((q + 1 : Nat) : Int) := by omega
      generalize hres2 : CLoop.loop _ _ _ _ = res2 at hst'
      rw [step_first (memOf S) (memOf M) ((q + 1 : Nat) : Int) (q : Int) (rn : Int) ((c / 64 : Nat) : Int)
        (M.width : Int) (Mzd.W.tableMaskBegin M c) (leftMask (M.ncols % 64)) hne] at hres2
      have key2 := for_loop_eq hres2 ((M.width - c / 64 - 2) / 8)
        (fun j st => st.2.1 = ((c / 64 : Nat) : Int) + 1 + 8 * (j : Int) ∧ st.2.2.1 = st.2.1 ∧ st.2.2.2.1 = st.2.1 ∧
          st.2.2.2.2 = 1 + 8 * (j : Int) ∧
          st.1 = rowMemZ (memOf S) (memOf M) ((q + 1 : Nat) : Int) (q : Int) (rn : Int) ((c / 64 : Nat) : Int)
            (M.width : Int) (Mzd.W.tableMaskBegin M c) (leftMask (M.ncols % 64)) st.2.1)
        (by omega) ⟨by simp, rfl, rfl, by simp, rfl⟩ ?_ ?_
      · obtain ⟨T2, ti, m, ti1, jj⟩ := res2
        obtain ⟨k1, k2, k3, k4, k5⟩ := key2
        dsimp only at k1 k2 k3 k4 k5
        subst k2 k3 k5
        clear hres2
        dsimp_m at hst'
        generalize hsp : (if (_ : Int) = 8 then (0 : Int) else _) = sp at hst'
        have hsp' : ((M.width : Int) - ((c / 64 : Nat) : Int) - jj = 0 ∧ sp = 8) ∨
            (1 ≤ (M.width : Int) - ((c / 64 : Nat) : Int) - jj ∧ (M.width : Int) - ((c / 64 : Nat) : Int) - jj ≤ 8 ∧
              sp = 8 - ((M.width : Int) - ((c / 64 : Nat) : Int) - jj)) := by omega
        clear hsp
        rw [tail_mid _ _ _ _ _ _ _ _ _ hne _ sp 0 (by intro hp; omega)] at hst'
        dsimp_m at hst'
        rw [tail_mid _ _ _ _ _ _ _ _ _ hne _ sp 1 (by intro hp; omega)] at hst'
        dsimp_m at hst'
        rw [tail_mid _ _ _ _ _ _ _ _ _ hne _ sp 2 (by intro hp; omega)] at hst'
        dsimp_m at hst'
        rw [tail_mid _ _ _ _ _ _ _ _ _ hne _ sp 3 (by intro hp; omega)] at hst'
        dsimp_m at hst'
        rw [tail_mid _ _ _ _ _ _ _ _ _ hne _ sp 4 (by intro hp; omega)] at hst'
        dsimp_m at hst'
        rw [tail_mid _ _ _ _ _ _ _ _ _ hne _ sp 5 (by intro hp; omega)] at hst'
        dsimp_m at hst'
        rw [tail_mid _ _ _ _ _ _ _ _ _ hne _ sp 6 (by intro hp; omega)] at hst'
        dsimp_m at hst'
        rw [tail_last _ _ _ _ _ _ _ _ _ hne _ sp 7 (by intro hp; omega)] at hst'
        dsimp_m at hst'
        generalize hzf : ti1 + _ + _ + _ + _ + _ + _ + _ + _ = zf at hst'
        have hz : zf = (M.width : Int) := by omega
        subst hrn
        rw [hz, rowMemZ_final S M (q + 1) q _ (c / 64) _ _ s1 (by omega) (by omega) (by rw [width_of_ncols s3]; exact hw)] at hst'
        subst hst'
        refine ⟨rfl, ?_, ?_⟩
        · show memOf _ = _
          rw [step_fst_write M r c k (S, Lq) q (by omega)]
        · show arrMem L _ = _
          rw [step_snd]
      · intro j st hj hP
        obtain ⟨T2, ti, m, ti1, jj⟩ := st
        obtain ⟨k1, k2, k3, k4, k5⟩ := hP
        dsimp only at k1 k2 k3 k4 k5 ⊢
        subst k4
        rw [decide_eq_decide]
        omega
      · intro j st hj hP
        obtain ⟨T2, ti, m, ti1, jj⟩ := st
        obtain ⟨k1, k2, k3, k4, k5⟩ := hP
        dsimp only at k1 k2 k3 k4 k5 ⊢
        subst k2 k3 k5
        refine ⟨by omega, rfl, rfl, by omega, ?_⟩
        rw [step_mid _ _ _ _ _ _ _ _ _ hne _ (by omega), step_mid _ _ _ _ _ _ _ _ _ hne _ (by omega),
          step_mid _ _ _ _ _ _ _ _ _ hne _ (by omega), step_mid _ _ _ _ _ _ _ _ _ hne _ (by omega),
          step_mid _ _ _ _ _ _ _ _ _ hne _ (by omega), step_mid _ _ _ _ _ _ _ _ _ hne _ (by omega),
          step_mid _ _ _ _ _ _ _ _ _ hne _ (by omega), step_mid _ _ _ _ _ _ _ _ _ hne _ (by omega)]


/-- `mzd_make_table`, the table -/
theorem mzdMakeTable_T (M T : Mzd) (L : Array Nat) (r c k : Nat) (hT : T.WF) (hw : M.width ≤ T.width)
    (hrows : 2 ^ k ≤ T.nrows) (hL : 2 ^ k ≤ L.size) (hc : c / 64 < M.width) (hk : k < 31) :
    (Gen.C.mzdMakeTable r c k (fun i => ((L.getD i.toNat 0 : Nat) : Int)) (memOf T) M.ncols M.width
        (fun kk i => (((buildInc kk.toNat).getD i.toNat 0 : Nat) : Int))
        (fun kk i => (((buildOrd kk.toNat).getD i.toNat 0 : Nat) : Int)) M.nrows (memOf M)).2
      = memOf (Mzd.W.makeTableW M r c k T L).1 := by
  have h := mzdMakeTable_eq' M T L r c k hT hw hrows hL hc hk
  unfold arrOf at h
  rw [h]

/-- `mzd_make_table`, the index array at every index `≥ 0` (beyond `L.size` both sides are 0) -/
theorem mzdMakeTable_L (M T : Mzd) (L : Array Nat) (r c k : Nat) (hT : T.WF) (hw : M.width ≤ T.width)
    (hrows : 2 ^ k ≤ T.nrows) (hL : 2 ^ k ≤ L.size) (hc : c / 64 < M.width) (hk : k < 31)
    (i : Int) (hi : 0 ≤ i) :
    (Gen.C.mzdMakeTable r c k (fun i => ((L.getD i.toNat 0 : Nat) : Int)) (memOf T) M.ncols M.width
        (fun kk i => (((buildInc kk.toNat).getD i.toNat 0 : Nat) : Int))
        (fun kk i => (((buildOrd kk.toNat).getD i.toNat 0 : Nat) : Int)) M.nrows (memOf M)).1 i
      = (((Mzd.W.makeTableW M r c k T L).2.getD i.toNat 0 : Nat) : Int) := by
  have h := mzdMakeTable_eq' M T L r c k hT hw hrows hL hc hk
  unfold arrOf at h
  rw [h]
  show arrMem _ _ i = _
  unfold arrMem
  rw [if_neg (by omega)]

/-- `mzd_make_table` writes nothing at negative indices of `L` -/
theorem mzdMakeTable_L_neg (M T : Mzd) (L : Array Nat) (r c k : Nat) (hT : T.WF) (hw : M.width ≤ T.width)
    (hrows : 2 ^ k ≤ T.nrows) (hL : 2 ^ k ≤ L.size) (hc : c / 64 < M.width) (hk : k < 31)
    (i : Int) (hi : i < 0) :
    (Gen.C.mzdMakeTable r c k (fun i => ((L.getD i.toNat 0 : Nat) : Int)) (memOf T) M.ncols M.width
        (fun kk i => (((buildInc kk.toNat).getD i.toNat 0 : Nat) : Int))
        (fun kk i => (((buildOrd kk.toNat).getD i.toNat 0 : Nat) : Int)) M.nrows (memOf M)).1 i
      = ((L.getD i.toNat 0 : Nat) : Int) := by
  have h := mzdMakeTable_eq' M T L r c k hT hw hrows hL hc hk
  unfold arrOf at h
  rw [h]
  show arrMem _ _ i = _
  unfold arrMem
  rw [if_pos hi]
  have : i.toNat = 0 := by omega
  rw [this]

/-- `mzd_make_table` under the hypotheses of the C contract (`T` as wide as `M`, `c` a column of `M`,
    `k ≤ 16 = __M4RI_MAXKAY`): the table, and the index array on `[0, L.size)` -/
theorem mzdMakeTable_eq (M T : Mzd) (L : Array Nat) (r c k : Nat) (hT : T.WF) (hw : T.width = M.width)
    (hrows : 2 ^ k ≤ T.nrows) (hL : 2 ^ k ≤ L.size) (hc : c < M.ncols) (hk : k ≤ 16) :
    let res := Gen.C.mzdMakeTable r c k (fun i => ((L.getD i.toNat 0 : Nat) : Int)) (memOf T) M.ncols M.width
        (fun kk i => (((buildInc kk.toNat).getD i.toNat 0 : Nat) : Int))
        (fun kk i => (((buildOrd kk.toNat).getD i.toNat 0 : Nat) : Int)) M.nrows (memOf M)
    res.2 = memOf (Mzd.W.makeTableW M r c k T L).1 ∧
      ∀ i : Nat, i < L.size → res.1 (i : Int) = (((Mzd.W.makeTableW M r c k T L).2.getD i 0 : Nat) : Int) := by
  have hc' : c / 64 < M.width := Mzd.word_lt_width M c hc
  intro res
  refine ⟨mzdMakeTable_T M T L r c k hT (by omega) hrows hL hc' (by omega), ?_⟩
  intro i _
  have := mzdMakeTable_L M T L r c k hT (by omega) hrows hL hc' (by omega) (i : Int) (by omega)
  rw [Int.toNat_natCast] at this
  exact this

end M4ri.GenTieTab

section Axioms
open M4ri.GenTieTab
#print axioms mzdRowSwap0_eq
#print axioms mzdApplyPLeft_eq
#print axioms mzdApplyPLeftTrans_eq
#print axioms mzdMakeTable_eq'
#print axioms mzdMakeTable_T
#print axioms mzdMakeTable_L
#print axioms mzdMakeTable_L_neg
#print axioms mzdMakeTable_eq
end Axioms
