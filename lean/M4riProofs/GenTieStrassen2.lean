/-
  GenTieStrassen2: ONE-STEP ties for the generated `Gen.C.strassenAddmulEven`, `Gen.C.strassenSqrEven`,
  `Gen.C.strassenAddsqrEven` (= the whole C functions `_mzd_addmul_even(C, A, B, cutoff)`, `_mzd_sqr_even(C, A, cutoff)`,
  `_mzd_addsqr_even(C, A, cutoff)` of strassen.c) against the model recursions `BMat.addmulEven`, `BMat.sqrEven`,
  `BMat.addsqrEven` of `M4ri/Mul.lean`.

  Main theorems (well-formed `Mzd`s, ANY `flags` — windowed or not —, any `cutoff`, any row strides; the function
  parameters instantiated by the model's operations: `cAdd`, `cMulEven fuel`, `cMulNew fuel`, `cM4rm`, `cAddmulM4rm`,
  `cCopyNew`, `cCopy` of `GenTieStrassen` and `cAddmulEven fuel`, `cSqrEven fuel`, `cAddsqrEven fuel` below):
    * `strassenAddmulEven_step` (`A.ncols = B.nrows`, `C.nrows = A.nrows`, `C.ncols = B.ncols`):
        strassenAddmulEven … = memOf (C.putB (addmulEven (fuel + 1) C.toB A.toB B.toB cutoff))
    * `strassenSqrEven_step` (`A.ncols = A.nrows`, `C.nrows = A.nrows`, `C.ncols = A.nrows`):
        strassenSqrEven … = memOf (C.putB (sqrEven (fuel + 1) C.toB A.toB cutoff))
    * `strassenAddsqrEven_step` (same shapes):
        strassenAddsqrEven … = memOf (C.putB (addsqrEven (fuel + 1) C.toB A.toB cutoff))
  each assembled from `_empty` (early return; none in `_mzd_sqr_even`), `_base` (both the windowed variant — copies
  `Abar`/`Bbar`/`Cbar`, resp. a fresh `Cbar = mzd_init(m, m)` in `_mzd_sqr_even` — and the direct one) and `_split`
  (the windows, the local matrices, the 21 / 18 / 17 steps of the schedule, the three remainder strips).
  `…_step_add` / `…_step_mul`: the value is `C + A·B`, `A·A`, `C + A·A`.
  No difference between C and the model was found on this domain (see the report for the remarks on the domain).

  Method: that of `GenTieStrassen` (memory `let`s never zeta-reduced; `mstep`). Two additions:
  * `step_win_acc` / `accStrip`: the accumulating strip `mzd_addmul_m4rm(window of C, …)` with its early return;
  * in the one-operand routines the split `mmm` is a `let` whose VALUE contains the `mult`/`width` loop
    (`let v_mmm := (let v_mult := 64; …; match CLoop.loop 64 … with …)`), used ≈ 40 times below. Any definitional
    change of that value (`zeta`, even of `v_mult`/`v_width` only) makes the kernel compare two different
    `match CLoop.loop 64 …` terms (matchers have `abbrev` hints: no argument-wise comparison, both are unfolded and
    the loop is evaluated symbolically: deterministic timeout). `gen_let v_mmm as x h` replaces the value by a
    variable through the proof term `newGoal V rfl` (the kernel only instantiates), `h : V = x` is then closed in
    isolation by `GenTie.sqrEvenSplit_eq` / `addsqrEvenSplit_eq`.
  Core Lean tactics only.
-/
import M4riProofs.GenTieStrassen
set_option linter.unusedVariables false
namespace M4ri.GenTieStrassen2
open M4ri M4ri.Gen M4ri.GenTieMem M4ri.GenTieView M4ri.BMat M4ri.GenTieAlg M4ri.GenTieStrassen

open Lean Meta Elab Tactic in
/-- `gen_let n as x h`: the value `V` of the first `let n := V; …` of the goal (a closed term) is replaced by a new
    variable `x` with `h : V = x` (the `let` itself stays). The proof term is `newGoal V rfl`: the kernel only
    instantiates, it never compares two different `CLoop.loop 64 …` terms. -/
elab "gen_let " n:ident " as " x:ident h:ident : tactic => do
  let g ← getMainGoal
  g.withContext do
    let t ← instantiateMVars (← g.getType)
    let some e := t.find? (fun e => match e with
        | .letE m _ v _ _ => m == n.getId && !v.hasLooseBVars
        | _ => false) | throwError "gen_let: no such let"
    let .letE nm ty v b nd := e | throwError "gen_let: unreachable"
    let newT ← withLocalDeclD x.getId ty fun vm => do
      withLocalDeclD h.getId (← mkEq v vm) fun hh => do
        let t' := t.replace (fun e' => if e' == e then some (.letE nm ty vm b nd) else none)
        mkForallFVars #[vm, hh] t'
    let newG ← mkFreshExprSyntheticOpaqueMVar newT
    g.assign (mkApp2 newG v (← mkEqRefl v))
    let (_, g') ← newG.mvarId!.introN 2 [x.getId, h.getId]
    replaceMainGoal [g']

/-! ### 1. the further callees -/

/-- `_mzd_addmul_even(C, A, B, cutoff)`: the model's recursive call at `fuel` -/
def cAddmulEven (fuel : Nat) (C A B : CLoop.MView) (cutoff : Int) : Int → Int → BitVec 64 :=
  liftM3 (fun C A B => addmulEven fuel C A B cutoff.toNat) C A B

/-- `_mzd_sqr_even(C, A, cutoff)`: the model's recursive call at `fuel` (one operand) -/
def cSqrEven (fuel : Nat) (C A : CLoop.MView) (cutoff : Int) : Int → Int → BitVec 64 :=
  liftM3 (fun C A _ => sqrEven fuel C A cutoff.toNat) C A A

/-- `_mzd_addsqr_even(C, A, cutoff)`: the model's recursive call at `fuel` (one operand) -/
def cAddsqrEven (fuel : Nat) (C A : CLoop.MView) (cutoff : Int) : Int → Int → BitVec 64 :=
  liftM3 (fun C A _ => addsqrEven fuel C A cutoff.toNat) C A A

theorem cAddmulEven_nat (fuel cutoff : Nat) (C A B : CLoop.MView) :
    cAddmulEven fuel C A B (cutoff : Int) = liftM3 (fun C A B => addmulEven fuel C A B cutoff) C A B := by
  unfold cAddmulEven; rw [Int.toNat_natCast]

theorem cSqrEven_nat (fuel cutoff : Nat) (C A : CLoop.MView) :
    cSqrEven fuel C A (cutoff : Int) = liftM3 (fun C A _ => sqrEven fuel C A cutoff) C A A := by
  unfold cSqrEven; rw [Int.toNat_natCast]

theorem cAddsqrEven_nat (fuel cutoff : Nat) (C A : CLoop.MView) :
    cAddsqrEven fuel C A (cutoff : Int) = liftM3 (fun C A _ => addsqrEven fuel C A cutoff) C A A := by
  unfold cAddsqrEven; rw [Int.toNat_natCast]

/-! ### 2. shapes of the model's values -/

theorem addAllP (fuel : Nat) : AddAll fuel :=
  addAll (fun C A B _ hB hC hk hr hc => m4rm_clear C A B 0 4 (fun _ => 0) 8 54 hB hC.1 hr hc hk)
    (fun C A B _ hB hC hk hr hc => m4rm_noclear C A B 0 4 (fun _ => 0) 8 54 hB hC.1 hr hc hk) fuel

theorem shaped_addmulEven (fuel cutoff : Nat) {X Y Z : BMat} {r k c : Nat} (hX : Shaped X r c) (hY : Shaped Y r k)
    (hZ : Shaped Z k c) : Shaped (addmulEven fuel X Y Z cutoff) r c := by
  have e : addmulEven fuel X Y Z cutoff = X.add (Y.mul Z) := (addAllP fuel).1 cutoff hX hY hZ
  rw [e]; exact hX.add (hY.mul hZ)

theorem shaped_sqrEven (fuel cutoff : Nat) {X Y : BMat} {r : Nat} (hX : Shaped X r r) (hY : Shaped Y r r) :
    Shaped (sqrEven fuel X Y cutoff) r r := by
  have e : sqrEven fuel X Y cutoff = Y.mul Y := (mulAllP fuel).2.1 cutoff hX hY
  rw [e]; exact hY.mul hY

theorem shaped_addsqrEven (fuel cutoff : Nat) {X Y : BMat} {r : Nat} (hX : Shaped X r r) (hY : Shaped Y r r) :
    Shaped (addsqrEven fuel X Y cutoff) r r := by
  have e : addsqrEven fuel X Y cutoff = X.add (Y.mul Y) := (addAllP fuel).2 cutoff hX hY
  rw [e]; exact hX.add (hY.mul hY)

/-- the shape of `mzd_addmul_m4rm`'s value -/
theorem shaped_addmulM4rm {X Y Z : BMat} {r k c : Nat} (hX : Shaped X r c) (hY : Shaped Y r k) (hZ : Shaped Z k c) :
    Shaped ((fun C A B : BMat => if C.ncols = 0 ∨ C.nrows = 0 then C else m4rm C A B 0 false) X Y Z) r c := by
  dsimp only
  split
  · exact hX
  · exact shaped_m4rm_addmul hX hY hZ

/-! ### 2b. the accumulating strip `mzd_addmul_m4rm(window of C, …)` -/

/-- `mzd_addmul_m4rm` on values: nothing on an empty destination -/
@[reducible] def opAcc : BMat → BMat → BMat → BMat :=
  fun C A B => if C.ncols = 0 ∨ C.nrows = 0 then C else m4rm C A B 0 false

theorem cAddmulM4rm_acc (C A B : CLoop.MView) : cAddmulM4rm C A B 0 = liftM3 opAcc C A B := rfl

/-- the model's accumulating strip -/
@[reducible] def accStrip (E : BMat) (lr lc hr' hc' : Nat) (EA EB : BMat) : BMat :=
  if (E.sub lr lc hr' hc').ncols = 0 ∨ (E.sub lr lc hr' hc').nrows = 0 then E
  else E.paste lr lc (m4rm (E.sub lr lc hr' hc') EA EB 0 false)

theorem shaped_accStrip {E : BMat} {m n : Nat} (hE : Shaped E m n) (lr lc hr' hc' : Nat) (hr2 : hr' ≤ m)
    (hc2 : hc' ≤ n) (hlc2 : lc ≤ hc') {EA EB : BMat} {k : Nat} (hEA : Shaped EA (hr' - lr) k)
    (hEB : Shaped EB k (hc' - lc)) : Shaped (accStrip E lr lc hr' hc' EA EB) m n := by
  unfold accStrip
  split
  · exact hE
  · have hX := shaped_m4rm_addmul (hE.sub lr lc hr' hc' hr2) hEA hEB
    exact hE.paste _ lr lc (by rw [hX.nc]; omega)

/-- `mzd_addmul_m4rm` writing a window of the state `M0.putB E` -/
theorem step_win_acc {M0 : Mzd} (hM0 : M0.WF) {E : BMat} {m n : Nat} (hE : Shaped E m n) (hr : M0.nrows = m)
    (hc : M0.ncols = n) (lr lc hr' hc' : Nat) (hlc : lc % 64 = 0) (hr2 : hr' ≤ m) (hc2 : hc' ≤ n) (hlc2 : lc ≤ hc')
    {VA VB : CLoop.MView} {EA EB : BMat} {k : Nat} (hA : Reads VA EA) (hB : Reads VB EB)
    (hEA : Shaped EA (hr' - lr) k) (hEB : Shaped EB k (hc' - lc)) :
    CLoop.unview (memOf (M0.putB E)) ((0 : Int) + (lr : Int)) ((0 : Int) + ((lc / 64 : Nat) : Int))
        ((hr' - lr : Nat) : Int) (((hc' - lc + 63) / 64 : Nat) : Int)
        (liftM3 opAcc (winRec (memOf (M0.putB E)) lr lc hr' hc') VA VB)
      = memOf (M0.putB (accStrip E lr lc hr' hc' EA EB)) := by
  have hCb := hE.sub lr lc hr' hc' hr2
  have key := step_win opAcc hM0 hE hr hc lr lc hr' hc' hlc hr2 hc2 hA hB (shaped_addmulM4rm hCb hEA hEB)
  refine key.trans ?_
  congr 2
  unfold accStrip opAcc
  by_cases hemp : (E.sub lr lc hr' hc').ncols = 0 ∨ (E.sub lr lc hr' hc').nrows = 0
  · rw [if_pos hemp, if_pos hemp]
    exact hE.paste_sub_self lr lc hr' hc' hr2 hlc2 hc2
  · rw [if_neg hemp, if_neg hemp]

/-! ### 3. `_mzd_addmul_even` -/

/-- **base case** (`closer(m) || closer(k) || closer(n)`), windowed operands or not -/
theorem strassenAddmulEven_base (fuel cutoff : Nat) (rsA rsB rsC : Int) (fA fB fC : BitVec 8) (C A B : Mzd)
    (hC : C.WF) (hA : A.WF) (hB : B.WF) (hk : A.ncols = B.nrows) (hr : C.nrows = A.nrows) (hc : C.ncols = B.ncols)
    (h0 : ¬ (C.nrows = 0 ∨ C.ncols = 0))
    (hcl : BMat.closer A.nrows cutoff = true ∨ BMat.closer A.ncols cutoff = true ∨ BMat.closer B.ncols cutoff = true) :
    Gen.C.strassenAddmulEven cutoff (memOf C) C.nrows C.ncols A.nrows A.ncols B.ncols fA fB fC (memOf A) A.width A.hb
      cCopyNew (memOf B) B.nrows B.width B.hb C.width C.hb cAddmulM4rm cCopy rsA rsB rsC cAdd (cMulEven fuel)
      (cAddmulEven fuel)
    = memOf (C.putB (addmulEven (fuel + 1) C.toB A.toB B.toB cutoff)) := by
  have eR : addmulEven (fuel + 1) C.toB A.toB B.toB cutoff
      = (fun C A B : BMat => if C.ncols = 0 ∨ C.nrows = 0 then C else m4rm C A B 0 false) C.toB A.toB B.toB := by
    rw [addmulEven.eq_1, if_neg (by simpa using h0)]
    dsimp -zeta only
    extract_lets +onlyGivenNames m k n
    rw [if_pos (show BMat.closer m cutoff = true ∨ BMat.closer k cutoff = true ∨ BMat.closer n cutoff = true
      from hcl), if_neg (by simp only [Mzd.nrows_toB, Mzd.ncols_toB]; omega)]
  rw [eR]
  unfold Gen.C.strassenAddmulEven
  zeta_n 6
  rw [if_neg (by simpa using h0)]
  simp_z [GenTie.closer_eq]
  rw [if_pos (by rcases hcl with h | h | h <;> simp [BMat.closer] at h <;> simp [h])]
  show (let v := if anyWindowed fA fB fC = true then _ else _; v) = _
  by_cases hw : anyWindowed fA fB fC = true
  · rw [if_pos hw]
    have hAs : Shaped A.toB A.nrows A.ncols := ⟨Mzd.WF_toB hA, rfl, rfl⟩
    have hBs : Shaped B.toB B.nrows B.ncols := ⟨Mzd.WF_toB hB, rfl, rfl⟩
    have hBs' : Shaped B.toB A.ncols B.ncols := ⟨Mzd.WF_toB hB, hk.symm, rfl⟩
    have hCs : Shaped C.toB C.nrows C.ncols := ⟨Mzd.WF_toB hC, rfl, rfl⟩
    have hX := shaped_addmulM4rm hCs (hAs.cast hr.symm rfl) (hBs'.cast rfl hc.symm)
    have rA := reads_whole A hA
    have rB := reads_whole B hB
    have eC := ofView_of C hC
    unfold CLoop.MView.of at eC
    simp (config := {etaStruct := .none}) only [cCopyNew, nrows_ofView, ncols_ofView, Int.toNat_natCast, tdiv63,
      hbmask, cAddmulM4rm_zero, cCopy, rA, rB, eC]
    rw [step_tmp (r := C.nrows) (c := C.ncols)
        (fun C A B => if C.ncols = 0 ∨ C.nrows = 0 then C else m4rm C A B 0 false) (zero_WF C.nrows C.ncols)
        hCs rfl rfl
        (reads_tmp (r := A.nrows) (c := A.ncols) (zero_WF A.nrows A.ncols) hAs rfl rfl)
        (reads_tmp (r := B.nrows) (c := B.ncols) (zero_WF B.nrows B.ncols) hBs rfl rfl) hX,
      (reads_tmp (r := C.nrows) (c := C.ncols) (zero_WF C.nrows C.ncols) hX rfl rfl : (Mzd.ofView _).toB = _)]
  · rw [if_neg hw]
    dsimp only
    rw [cAddmulM4rm_zero]
    exact liftM3_of _ C A B hC hA hB


/-- **the split branch**: 12 windows, three local matrices, the 21 steps of the schedule, the three strips -/
theorem strassenAddmulEven_split (fuel cutoff : Nat) (rsA rsB rsC : Int) (fA fB fC : BitVec 8) (C A B : Mzd)
    (hC : C.WF) (hA : A.WF) (hB : B.WF) (hk : A.ncols = B.nrows) (hr : C.nrows = A.nrows) (hc : C.ncols = B.ncols)
    (h0 : ¬ (C.nrows = 0 ∨ C.ncols = 0))
    (hcl : ¬ (BMat.closer A.nrows cutoff = true ∨ BMat.closer A.ncols cutoff = true ∨ BMat.closer B.ncols cutoff = true)) :
    Gen.C.strassenAddmulEven cutoff (memOf C) C.nrows C.ncols A.nrows A.ncols B.ncols fA fB fC (memOf A) A.width A.hb
      cCopyNew (memOf B) B.nrows B.width B.hb C.width C.hb cAddmulM4rm cCopy rsA rsB rsC cAdd (cMulEven fuel)
      (cAddmulEven fuel)
    = memOf (C.putB (addmulEven (fuel + 1) C.toB A.toB B.toB cutoff)) := by
  generalize hR : addmulEven (fuel + 1) C.toB A.toB B.toB cutoff = R
  -- the model side
  rw [addmulEven.eq_1] at hR
  rw [if_neg (by simpa using h0)] at hR
  dsimp -zeta only at hR
  extract_lets +onlyGivenNames m k n at hR
  rw [if_neg (show ¬ (BMat.closer m cutoff = true ∨ BMat.closer k cutoff = true ∨ BMat.closer n cutoff = true)
    from hcl)] at hR
  extract_lets mult mmm kkk nnn A11 A12 A21 A22 B11 B12 B21 B22 C11 C12 C21 C22 S1 T1 U1 D22a D12a U2 D11a
    D11b S2 T2 U3 D12b S3 D12c T3 D21a S4 T4 U4 D21b D22b C0 nnn2 Cl1 C1 mmm2 Cl2 C2 kkk2 at hR
  -- the generated side: the split
  unfold Gen.C.strassenAddmulEven
  zeta_n 6
  rw [if_neg (by simpa using h0)]
  simp_z [GenTie.closer_eq]
  rw [if_neg (by simp [BMat.closer] at hcl; simp [hcl])]
  zeta_n 2
  rw [GenTie.min3_int]
  generalize hL : (CLoop.loop 64 _ _ _ : Int × Int) = L
  have h2 : L.2 = ((strassenMult.go cutoff 64 (min (min A.nrows B.ncols) A.ncols / 2) 64 : Nat) : Int) := by
    rw [← hL]
    exact GenTie.loop_strassen cutoff _ _ (fun w m => by simp) (fun w m => by simp) 64 _ 64
  obtain ⟨w', m'⟩ := L
  simp only at h2
  subst h2
  clear hL
  dsimp_z
  zeta_small
  simp_z [GenTie.halfSplit_int]
  have hmult : strassenMult.go cutoff 64 (min (min A.nrows B.ncols) A.ncols / 2) 64 = mult := rfl
  rw [hmult]
  have hmmm : halfSplit A.nrows mult = mmm := rfl
  have hkkk : halfSplit A.ncols mult = kkk := rfl
  have hnnn : halfSplit B.ncols mult = nnn := rfl
  rw [hmmm, hkkk, hnnn]
  have hm2 : 2 * mmm ≤ A.nrows := two_halfSplit_le A.nrows mult
  have hk2 : 2 * kkk ≤ A.ncols := two_halfSplit_le A.ncols mult
  have hn2 : 2 * nnn ≤ B.ncols := two_halfSplit_le B.ncols mult
  have hm64 : mmm % 64 = 0 := halfSplit_mod A.nrows mult
  have hk64 : kkk % 64 = 0 := halfSplit_mod A.ncols mult
  have hn64 : nnn % 64 = 0 := halfSplit_mod B.ncols mult
  clear_value mult mmm kkk nnn
  have eA11 := mzdInitWindow_in 0 0 (mmm : Int) (kkk : Int) (A.nrows : Int) rsA 0 (0) (mmm) (kkk) A.nrows
    (by omega) (by omega) (by omega) (by omega) rfl (by omega) (by omega) (by omega) (by omega)
  have eA12 := mzdInitWindow_in 0 (kkk : Int) (mmm : Int) (2 * (kkk : Int)) (A.nrows : Int) rsA 0 (kkk) (mmm) (2 * kkk) A.nrows
    (by omega) (by omega) (by omega) (by omega) rfl (by omega) (by omega) (by omega) (by omega)
  have eA21 := mzdInitWindow_in (mmm : Int) 0 (2 * (mmm : Int)) (kkk : Int) (A.nrows : Int) rsA mmm (0) (2 * mmm) (kkk) A.nrows
    (by omega) (by omega) (by omega) (by omega) rfl (by omega) (by omega) (by omega) (by omega)
  have eA22 := mzdInitWindow_in (mmm : Int) (kkk : Int) (2 * (mmm : Int)) (2 * (kkk : Int)) (A.nrows : Int) rsA mmm (kkk) (2 * mmm) (2 * kkk) A.nrows
    (by omega) (by omega) (by omega) (by omega) rfl (by omega) (by omega) (by omega) (by omega)
  have eB11 := mzdInitWindow_in 0 0 (kkk : Int) (nnn : Int) (B.nrows : Int) rsB 0 (0) (kkk) (nnn) B.nrows
    (by omega) (by omega) (by omega) (by omega) rfl (by omega) (by omega) (by omega) (by omega)
  have eB12 := mzdInitWindow_in 0 (nnn : Int) (kkk : Int) (2 * (nnn : Int)) (B.nrows : Int) rsB 0 (nnn) (kkk) (2 * nnn) B.nrows
    (by omega) (by omega) (by omega) (by omega) rfl (by omega) (by omega) (by omega) (by omega)
  have eB21 := mzdInitWindow_in (kkk : Int) 0 (2 * (kkk : Int)) (nnn : Int) (B.nrows : Int) rsB kkk (0) (2 * kkk) (nnn) B.nrows
    (by omega) (by omega) (by omega) (by omega) rfl (by omega) (by omega) (by omega) (by omega)
  have eB22 := mzdInitWindow_in (kkk : Int) (nnn : Int) (2 * (kkk : Int)) (2 * (nnn : Int)) (B.nrows : Int) rsB kkk (nnn) (2 * kkk) (2 * nnn) B.nrows
    (by omega) (by omega) (by omega) (by omega) rfl (by omega) (by omega) (by omega) (by omega)
  have eC11 := mzdInitWindow_in 0 0 (mmm : Int) (nnn : Int) (C.nrows : Int) rsC 0 (0) (mmm) (nnn) C.nrows
    (by omega) (by omega) (by omega) (by omega) rfl (by omega) (by omega) (by omega) (by omega)
  have eC12 := mzdInitWindow_in 0 (nnn : Int) (mmm : Int) (2 * (nnn : Int)) (C.nrows : Int) rsC 0 (nnn) (mmm) (2 * nnn) C.nrows
    (by omega) (by omega) (by omega) (by omega) rfl (by omega) (by omega) (by omega) (by omega)
  have eC21 := mzdInitWindow_in (mmm : Int) 0 (2 * (mmm : Int)) (nnn : Int) (C.nrows : Int) rsC mmm (0) (2 * mmm) (nnn) C.nrows
    (by omega) (by omega) (by omega) (by omega) rfl (by omega) (by omega) (by omega) (by omega)
  have eC22 := mzdInitWindow_in (mmm : Int) (nnn : Int) (2 * (mmm : Int)) (2 * (nnn : Int)) (C.nrows : Int) rsC mmm (nnn) (2 * mmm) (2 * nnn) C.nrows
    (by omega) (by omega) (by omega) (by omega) rfl (by omega) (by omega) (by omega) (by omega)
  simp_z [eA11, eA12, eA21, eA22, eB11, eB12, eB21, eB22, eC11, eC12, eC21, eC22]
  clear eA11 eA12 eA21 eA22 eB11 eB12 eB21 eB22 eC11 eC12 eC21 eC22
  simp_z [tdiv63, hbmask, cMulEven_nat, cAddmulEven_nat, cAdd]
  -- atoms
  have hAs : Shaped A.toB A.nrows A.ncols := ⟨Mzd.WF_toB hA, rfl, rfl⟩
  have hBs : Shaped B.toB A.ncols B.ncols := ⟨Mzd.WF_toB hB, hk.symm, rfl⟩
  have hCs : Shaped C.toB C.nrows C.ncols := ⟨Mzd.WF_toB hC, rfl, rfl⟩
  have hA11 : Shaped A11 mmm kkk := (hAs.sub 0 0 mmm kkk (by omega)).cast (by omega) (by omega)
  have hA12 : Shaped A12 mmm kkk := (hAs.sub 0 kkk mmm (2 * kkk) (by omega)).cast (by omega) (by omega)
  have hA21 : Shaped A21 mmm kkk := (hAs.sub mmm 0 (2 * mmm) kkk (by omega)).cast (by omega) (by omega)
  have hA22 : Shaped A22 mmm kkk := (hAs.sub mmm kkk (2 * mmm) (2 * kkk) (by omega)).cast (by omega) (by omega)
  have hB11 : Shaped B11 kkk nnn := (hBs.sub 0 0 kkk nnn (by omega)).cast (by omega) (by omega)
  have hB12 : Shaped B12 kkk nnn := (hBs.sub 0 nnn kkk (2 * nnn) (by omega)).cast (by omega) (by omega)
  have hB21 : Shaped B21 kkk nnn := (hBs.sub kkk 0 (2 * kkk) nnn (by omega)).cast (by omega) (by omega)
  have hB22 : Shaped B22 kkk nnn := (hBs.sub kkk nnn (2 * kkk) (2 * nnn) (by omega)).cast (by omega) (by omega)
  have rA11 : Reads (winRec (memOf A) 0 0 mmm kkk) A11 := reads_win0 A 0 0 mmm kkk rfl (by omega) (by omega)
  have rA12 : Reads (winRec (memOf A) 0 kkk mmm (2 * kkk)) A12 :=
    reads_win0 A 0 kkk mmm (2 * kkk) hk64 (by omega) (by omega)
  have rA21 : Reads (winRec (memOf A) mmm 0 (2 * mmm) kkk) A21 :=
    reads_win0 A mmm 0 (2 * mmm) kkk rfl (by omega) (by omega)
  have rA22 : Reads (winRec (memOf A) mmm kkk (2 * mmm) (2 * kkk)) A22 :=
    reads_win0 A mmm kkk (2 * mmm) (2 * kkk) hk64 (by omega) (by omega)
  have rB11 : Reads (winRec (memOf B) 0 0 kkk nnn) B11 := reads_win0 B 0 0 kkk nnn rfl (by omega) (by omega)
  have rB12 : Reads (winRec (memOf B) 0 nnn kkk (2 * nnn)) B12 :=
    reads_win0 B 0 nnn kkk (2 * nnn) hn64 (by omega) (by omega)
  have rB21 : Reads (winRec (memOf B) kkk 0 (2 * kkk) nnn) B21 :=
    reads_win0 B kkk 0 (2 * kkk) nnn rfl (by omega) (by omega)
  have rB22 : Reads (winRec (memOf B) kkk nnn (2 * kkk) (2 * nnn)) B22 :=
    reads_win0 B kkk nnn (2 * kkk) (2 * nnn) hn64 (by omega) (by omega)
  -- states
  have hS : CSt C C.toB C.nrows C.ncols mmm nnn C11 C12 C21 C22 :=
    ⟨hC, rfl, rfl, hn64, QSt.init hCs (by omega) (by omega)⟩
  have eC0 : memOf C = memOf (C.putB (paste4 C.toB C11 C12 C21 C22 mmm nnn)) := by
    rw [show paste4 C.toB C11 C12 C21 C22 mmm nnn = C.toB from QSt.init_eq hCs (by omega) (by omega),
      Mzd.putB_toB hC]
  rw [eC0]
  clear eC0
  have wS := zero_WF mmm kkk
  have wT := zero_WF kkk nnn
  have wU := zero_WF mmm nnn
  mstep1 (zero_state mmm kkk)
  mstep1 (zero_state kkk nnn)
  mstep1 (zero_state mmm nnn)
  -- 1. S = A22 + A21
  have s1 : Shaped S1 mmm kkk := hA22.addM hA21
  mstep (step_tmp (fun _ A B => addM A B) wS (Shaped.zero mmm kkk) rfl rfl rA22 rA21 s1)
  -- 2. T = B22 + B21
  have s2 : Shaped T1 kkk nnn := hB22.addM hB21
  mstep (step_tmp (fun _ A B => addM A B) wT (Shaped.zero kkk nnn) rfl rfl rB22 rB21 s2)
  -- 3. U = S * T
  have s3 : Shaped U1 mmm nnn := shaped_mulEven fuel cutoff (Shaped.zero mmm nnn) s1 s2
  mstep (step_tmp (fun C A B => mulEven fuel C A B cutoff) wU (Shaped.zero mmm nnn) rfl rfl
    (reads_tmp wS s1 rfl rfl) (reads_tmp wT s2 rfl rfl) s3)
  -- 4. C22 = U + C22
  have s4 : Shaped D22a mmm nnn := s3.addM hS.q.h22
  mstep (hS.step22 (fun _ A B => addM A B) (reads_tmp wU s3 rfl rfl) hS.reads22 s4)
  replace hS := hS.set22 s4
  -- 5. C12 = U + C12
  have s5 : Shaped D12a mmm nnn := s3.addM hS.q.h12
  mstep (hS.step12 (fun _ A B => addM A B) (reads_tmp wU s3 rfl rfl) hS.reads12 s5)
  replace hS := hS.set12 s5
  -- 6. U = A12 * B21
  have s6 : Shaped U2 mmm nnn := shaped_mulEven fuel cutoff s3 hA12 hB21
  mstep (step_tmp (fun C A B => mulEven fuel C A B cutoff) wU s3 rfl rfl rA12 rB21 s6)
  -- 7. C11 = U + C11
  have s7 : Shaped D11a mmm nnn := s6.addM hS.q.h11
  mstep (hS.step11 (fun _ A B => addM A B) (reads_tmp wU s6 rfl rfl) hS.reads11 s7)
  replace hS := hS.set11 s7
  -- 8. C11 += A11 * B11
  have s8 : Shaped D11b mmm nnn := shaped_addmulEven fuel cutoff hS.q.h11 hA11 hB11
  mstep (hS.step11 (fun C A B => addmulEven fuel C A B cutoff) rA11 rB11 s8)
  replace hS := hS.set11 s8
  -- 9. S = S + A12
  have s9 : Shaped S2 mmm kkk := s1.addM hA12
  mstep (step_tmp (fun _ A B => addM A B) wS s1 rfl rfl (reads_tmp wS s1 rfl rfl) rA12 s9)
  -- 10. T = T + B12
  have s10 : Shaped T2 kkk nnn := s2.addM hB12
  mstep (step_tmp (fun _ A B => addM A B) wT s2 rfl rfl (reads_tmp wT s2 rfl rfl) rB12 s10)
  -- 11. U += S * T
  have s11 : Shaped U3 mmm nnn := shaped_addmulEven fuel cutoff s6 s9 s10
  mstep (step_tmp (fun C A B => addmulEven fuel C A B cutoff) wU s6 rfl rfl
    (reads_tmp wS s9 rfl rfl) (reads_tmp wT s10 rfl rfl) s11)
  -- 12. C12 = C12 + U
  have s12 : Shaped D12b mmm nnn := hS.q.h12.addM s11
  mstep (hS.step12 (fun _ A B => addM A B) hS.reads12 (reads_tmp wU s11 rfl rfl) s12)
  replace hS := hS.set12 s12
  -- 13. S = A11 + S
  have s13 : Shaped S3 mmm kkk := hA11.addM s9
  mstep (step_tmp (fun _ A B => addM A B) wS s9 rfl rfl rA11 (reads_tmp wS s9 rfl rfl) s13)
  -- 14. C12 += S * B12
  have s14 : Shaped D12c mmm nnn := shaped_addmulEven fuel cutoff hS.q.h12 s13 hB12
  mstep (hS.step12 (fun C A B => addmulEven fuel C A B cutoff) (reads_tmp wS s13 rfl rfl) rB12 s14)
  replace hS := hS.set12 s14
  -- 15. T = B11 + T
  have s15 : Shaped T3 kkk nnn := hB11.addM s10
  mstep (step_tmp (fun _ A B => addM A B) wT s10 rfl rfl rB11 (reads_tmp wT s10 rfl rfl) s15)
  -- 16. C21 += A21 * T
  have s16 : Shaped D21a mmm nnn := shaped_addmulEven fuel cutoff hS.q.h21 hA21 s15
  mstep (hS.step21 (fun C A B => addmulEven fuel C A B cutoff) rA21 (reads_tmp wT s15 rfl rfl) s16)
  replace hS := hS.set21 s16
  -- 17. S = A22 + A12
  have s17 : Shaped S4 mmm kkk := hA22.addM hA12
  mstep (step_tmp (fun _ A B => addM A B) wS s13 rfl rfl rA22 rA12 s17)
  -- 18. T = B22 + B12
  have s18 : Shaped T4 kkk nnn := hB22.addM hB12
  mstep (step_tmp (fun _ A B => addM A B) wT s15 rfl rfl rB22 rB12 s18)
  -- 19. U += S * T
  have s19 : Shaped U4 mmm nnn := shaped_addmulEven fuel cutoff s11 s17 s18
  mstep (step_tmp (fun C A B => addmulEven fuel C A B cutoff) wU s11 rfl rfl
    (reads_tmp wS s17 rfl rfl) (reads_tmp wT s18 rfl rfl) s19)
  -- 20. C21 = C21 + U
  have s20 : Shaped D21b mmm nnn := hS.q.h21.addM s19
  mstep (hS.step21 (fun _ A B => addM A B) hS.reads21 (reads_tmp wU s19 rfl rfl) s20)
  replace hS := hS.set21 s20
  -- 21. C22 = C22 + U
  have s21 : Shaped D22b mmm nnn := hS.q.h22.addM s19
  mstep (hS.step22 (fun _ A B => addM A B) hS.reads22 (reads_tmp wU s19 rfl rfl) s21)
  replace hS := hS.set22 s21
  -- the state after the schedule
  have eC0 : paste4 C.toB D11b D12c D21b D22b mmm nnn = C0 := rfl
  have hE0 : Shaped C0 C.nrows C.ncols := hS.q.shaped
  rw [eC0]
  clear hS eC0
  mstep1 (rfl : memOf (C.putB C0) = memOf (C.putB C0))
  have hmn : A.nrows ≤ C.nrows := by omega
  -- strip 1: the last columns
  have hA1 : Shaped A.toB (A.nrows - 0) A.ncols := hAs.cast (by omega) rfl
  have hB1 : Shaped (B.toB.sub 0 (2 * nnn) A.ncols B.ncols) A.ncols (B.ncols - 2 * nnn) :=
    (hBs.sub 0 (2 * nnn) A.ncols B.ncols (Nat.le_refl _)).cast (by omega) rfl
  have hE1 : Shaped C1 C.nrows C.ncols := by
    by_cases hgt : n > nnn2
    · rw [show C1 = accStrip C0 0 (2 * nnn) A.nrows B.ncols A.toB (B.toB.sub 0 (2 * nnn) A.ncols B.ncols)
        from if_pos hgt]
      exact shaped_accStrip hE0 0 (2 * nnn) A.nrows B.ncols hmn (by omega) (by omega) hA1 hB1
    · rw [show C1 = C0 from if_neg hgt]; exact hE0
  extract_lets +onlyGivenNames x1
  have hx1 : x1 = memOf (C.putB C1) := by
    by_cases hgt : n > nnn2
    · have hgt' : B.ncols > 2 * nnn := hgt
      have e1 : decide ((B.ncols : Int) > (nnn : Int) * 2) = true := by simp; omega
      change ite _ _ _ = _
      rw [if_pos e1]
      have eBl := mzdInitWindow_in 0 ((nnn : Int) * 2) (A.ncols : Int) (B.ncols : Int) (B.nrows : Int) rsB
        0 (2 * nnn) A.ncols B.ncols B.nrows (by omega) (by omega) (by omega) (by omega) rfl (by omega) (by omega)
        (by omega) (by omega)
      have eCl := mzdInitWindow_in 0 ((nnn : Int) * 2) (A.nrows : Int) (B.ncols : Int) (C.nrows : Int) rsC
        0 (2 * nnn) A.nrows B.ncols C.nrows (by omega) (by omega) (by omega) (by omega) rfl (by omega) (by omega)
        (by omega) (by omega)
      simp_z [eBl, eCl, cAddmulM4rm_acc]
      rw [show C1 = accStrip C0 0 (2 * nnn) A.nrows B.ncols A.toB (B.toB.sub 0 (2 * nnn) A.ncols B.ncols)
        from if_pos hgt]
      exact step_win_acc hC hE0 rfl rfl 0 (2 * nnn) A.nrows B.ncols (by omega) hmn (by omega) (by omega)
        (reads_whole A hA) (reads_win0 B 0 (2 * nnn) A.ncols B.ncols (by omega) (by omega) (Nat.le_refl _))
        hA1 hB1
    · have hgt' : ¬ B.ncols > 2 * nnn := hgt
      have e1 : ¬ decide ((B.ncols : Int) > (nnn : Int) * 2) = true := by simp; omega
      change ite _ _ _ = _
      rw [if_neg e1, show C1 = C0 from if_neg hgt]
  clear_value x1
  subst hx1
  -- strip 2: the last rows
  have hA2 : Shaped (A.toB.sub (2 * mmm) 0 A.nrows A.ncols) (A.nrows - 2 * mmm) A.ncols :=
    (hAs.sub (2 * mmm) 0 A.nrows A.ncols (Nat.le_refl _)).cast rfl (by omega)
  have hB2 : Shaped (B.toB.sub 0 0 A.ncols (2 * nnn)) A.ncols (2 * nnn - 0) :=
    (hBs.sub 0 0 A.ncols (2 * nnn) (Nat.le_refl _)).cast (by omega) rfl
  have hE2 : Shaped C2 C.nrows C.ncols := by
    by_cases hgt : m > mmm2
    · rw [show C2 = accStrip C1 (2 * mmm) 0 A.nrows (2 * nnn) (A.toB.sub (2 * mmm) 0 A.nrows A.ncols)
        (B.toB.sub 0 0 A.ncols (2 * nnn)) from if_pos hgt]
      exact shaped_accStrip hE1 (2 * mmm) 0 A.nrows (2 * nnn) hmn (by omega) (by omega) hA2 hB2
    · rw [show C2 = C1 from if_neg hgt]; exact hE1
  extract_lets +onlyGivenNames x2
  have hx2 : x2 = memOf (C.putB C2) := by
    by_cases hgt : m > mmm2
    · have hgt' : A.nrows > 2 * mmm := hgt
      have e1 : decide ((A.nrows : Int) > (mmm : Int) * 2) = true := by simp; omega
      change ite _ _ _ = _
      rw [if_pos e1]
      have eAl := mzdInitWindow_in ((mmm : Int) * 2) 0 (A.nrows : Int) (A.ncols : Int) (A.nrows : Int) rsA
        (2 * mmm) 0 A.nrows A.ncols A.nrows (by omega) (by omega) (by omega) (by omega) rfl (by omega) (by omega)
        (by omega) (by omega)
      have eBl := mzdInitWindow_in 0 0 (A.ncols : Int) ((nnn : Int) * 2) (B.nrows : Int) rsB
        0 0 A.ncols (2 * nnn) B.nrows (by omega) (by omega) (by omega) (by omega) rfl (by omega) (by omega)
        (by omega) (by omega)
      have eCl := mzdInitWindow_in ((mmm : Int) * 2) 0 (A.nrows : Int) ((nnn : Int) * 2) (C.nrows : Int) rsC
        (2 * mmm) 0 A.nrows (2 * nnn) C.nrows (by omega) (by omega) (by omega) (by omega) rfl (by omega) (by omega)
        (by omega) (by omega)
      simp_z [eAl, eBl, eCl, cAddmulM4rm_acc]
      rw [show C2 = accStrip C1 (2 * mmm) 0 A.nrows (2 * nnn) (A.toB.sub (2 * mmm) 0 A.nrows A.ncols)
        (B.toB.sub 0 0 A.ncols (2 * nnn)) from if_pos hgt]
      exact step_win_acc hC hE1 rfl rfl (2 * mmm) 0 A.nrows (2 * nnn) rfl hmn (by omega) (by omega)
        (reads_win0 A (2 * mmm) 0 A.nrows A.ncols rfl (Nat.le_refl _) (Nat.le_refl _))
        (reads_win0 B 0 0 A.ncols (2 * nnn) rfl (by omega) (by omega)) hA2 hB2
    · have hgt' : ¬ A.nrows > 2 * mmm := hgt
      have e1 : ¬ decide ((A.nrows : Int) > (mmm : Int) * 2) = true := by simp; omega
      change ite _ _ _ = _
      rw [if_neg e1, show C2 = C1 from if_neg hgt]
  clear_value x2
  subst hx2
  -- strip 3: the last inner indices
  extract_lets +onlyGivenNames x3
  have hx3 : x3 = memOf (C.putB R) := by
    rw [← hR]
    by_cases hgt : k > kkk2
    · have hgt' : A.ncols > 2 * kkk := hgt
      have e1 : decide ((A.ncols : Int) > (kkk : Int) * 2) = true := by simp; omega
      change ite _ _ _ = _
      rw [if_pos e1, if_pos hgt]
      have eAl := mzdInitWindow_in 0 ((kkk : Int) * 2) ((mmm : Int) * 2) (A.ncols : Int) (A.nrows : Int) rsA
        0 (2 * kkk) (2 * mmm) A.ncols A.nrows (by omega) (by omega) (by omega) (by omega) rfl (by omega) (by omega)
        (by omega) (by omega)
      have eBl := mzdInitWindow_in ((kkk : Int) * 2) 0 (A.ncols : Int) ((nnn : Int) * 2) (B.nrows : Int) rsB
        (2 * kkk) 0 A.ncols (2 * nnn) B.nrows (by omega) (by omega) (by omega) (by omega) rfl (by omega) (by omega)
        (by omega) (by omega)
      have eCl := mzdInitWindow_in 0 0 ((mmm : Int) * 2) ((nnn : Int) * 2) (C.nrows : Int) rsC
        0 0 (2 * mmm) (2 * nnn) C.nrows (by omega) (by omega) (by omega) (by omega) rfl (by omega) (by omega)
        (by omega) (by omega)
      simp_z [eAl, eBl, eCl, cAddmulM4rm_acc]
      have hAl : Shaped (A.toB.sub 0 (2 * kkk) (2 * mmm) A.ncols) (2 * mmm - 0) (A.ncols - 2 * kkk) :=
        hAs.sub 0 (2 * kkk) (2 * mmm) A.ncols (by omega)
      have hBl : Shaped (B.toB.sub (2 * kkk) 0 A.ncols (2 * nnn)) (A.ncols - 2 * kkk) (2 * nnn - 0) :=
        hBs.sub (2 * kkk) 0 A.ncols (2 * nnn) (Nat.le_refl _)
      exact step_win_acc hC hE2 rfl rfl 0 0 (2 * mmm) (2 * nnn) rfl (by omega) (by omega) (by omega)
        (reads_win0 A 0 (2 * kkk) (2 * mmm) A.ncols (by omega) (by omega) (Nat.le_refl _))
        (reads_win0 B (2 * kkk) 0 A.ncols (2 * nnn) rfl (by omega) (by omega)) hAl hBl
    · have hgt' : ¬ A.ncols > 2 * kkk := hgt
      have e1 : ¬ decide ((A.ncols : Int) > (kkk : Int) * 2) = true := by simp; omega
      change ite _ _ _ = _
      rw [if_neg e1, if_neg hgt]
  exact hx3

/-- **early return**: an empty destination -/
theorem strassenAddmulEven_empty (fuel cutoff : Nat) (rsA rsB rsC : Int) (fA fB fC : BitVec 8) (C A B : Mzd)
    (hC : C.WF) (h0 : C.nrows = 0 ∨ C.ncols = 0)
    (f1 : CLoop.MView → (Int → Int → BitVec 64) × Int × Int)
    (f2 : CLoop.MView → CLoop.MView → CLoop.MView → Int → (Int → Int → BitVec 64))
    (f3 : CLoop.MView → CLoop.MView → (Int → Int → BitVec 64))
    (f4 : CLoop.MView → CLoop.MView → CLoop.MView → (Int → Int → BitVec 64))
    (f5 : CLoop.MView → CLoop.MView → CLoop.MView → Int → (Int → Int → BitVec 64))
    (f6 : CLoop.MView → CLoop.MView → CLoop.MView → Int → (Int → Int → BitVec 64)) :
    Gen.C.strassenAddmulEven cutoff (memOf C) C.nrows C.ncols A.nrows A.ncols B.ncols fA fB fC (memOf A) A.width A.hb
      f1 (memOf B) B.nrows B.width B.hb C.width C.hb f2 f3 rsA rsB rsC f4 f5 f6
    = memOf (C.putB (addmulEven (fuel + 1) C.toB A.toB B.toB cutoff)) := by
  unfold Gen.C.strassenAddmulEven
  rw [addmulEven.eq_1, if_pos (by simpa using h0)]
  zeta_n 3
  rw [if_pos (by simpa using h0), Mzd.putB_toB hC]

/-- **ONE STEP of `_mzd_addmul_even`**: with the callees instantiated by the model's operations (the recursive
    calls by the model at `fuel`), the generated function computes the model's step at `fuel + 1` through the
    lens — for all flags (windowed operands or not), all cutoffs, all conforming shapes -/
theorem strassenAddmulEven_step (fuel cutoff : Nat) (rsA rsB rsC : Int) (fA fB fC : BitVec 8) (C A B : Mzd)
    (hC : C.WF) (hA : A.WF) (hB : B.WF) (hk : A.ncols = B.nrows) (hr : C.nrows = A.nrows) (hc : C.ncols = B.ncols) :
    Gen.C.strassenAddmulEven cutoff (memOf C) C.nrows C.ncols A.nrows A.ncols B.ncols fA fB fC (memOf A) A.width A.hb
      cCopyNew (memOf B) B.nrows B.width B.hb C.width C.hb cAddmulM4rm cCopy rsA rsB rsC cAdd (cMulEven fuel)
      (cAddmulEven fuel)
    = memOf (C.putB (addmulEven (fuel + 1) C.toB A.toB B.toB cutoff)) := by
  by_cases h0 : C.nrows = 0 ∨ C.ncols = 0
  · exact strassenAddmulEven_empty fuel cutoff rsA rsB rsC fA fB fC C A B hC h0 _ _ _ _ _ _
  by_cases hcl : BMat.closer A.nrows cutoff = true ∨ BMat.closer A.ncols cutoff = true ∨
      BMat.closer B.ncols cutoff = true
  · exact strassenAddmulEven_base fuel cutoff rsA rsB rsC fA fB fC C A B hC hA hB hk hr hc h0 hcl
  · exact strassenAddmulEven_split fuel cutoff rsA rsB rsC fA fB fC C A B hC hA hB hk hr hc h0 hcl


/-! ### 4. `_mzd_sqr_even` -/

/-- some operand is a window (`mzd_is_windowed(A) | mzd_is_windowed(C)`) -/
def anyWindowed2 (fA fC : BitVec 8) : Bool :=
  decide (CLoop.ior (Gen.C.mzdIsWindowed fA) (Gen.C.mzdIsWindowed fC) ≠ 0)

/-- **base case** (`closer(m)`), windowed operands or not -/
theorem strassenSqrEven_base (fuel cutoff : Nat) (rsA rsC : Int) (fA fC : BitVec 8) (C A : Mzd)
    (hC : C.WF) (hA : A.WF) (hsq : A.ncols = A.nrows) (hr : C.nrows = A.nrows) (hc : C.ncols = A.nrows)
    (hcl : BMat.closer A.nrows cutoff = true) :
    Gen.C.strassenSqrEven cutoff (memOf C) A.nrows fA fC (memOf A) A.ncols A.width A.hb cCopyNew cM4rm
      C.nrows C.ncols C.width C.hb cCopy rsA rsC cAdd (cSqrEven fuel) (cMulEven fuel) (cMulNew fuel) cAddmulM4rm
    = memOf (C.putB (sqrEven (fuel + 1) C.toB A.toB cutoff)) := by
  have eR : sqrEven (fuel + 1) C.toB A.toB cutoff = m4rm C.toB A.toB A.toB 0 true := by
    rw [sqrEven.eq_2, if_pos (show BMat.closer A.toB.nrows cutoff = true from hcl)]
  rw [eR]
  unfold Gen.C.strassenSqrEven
  zeta_n 2
  simp_z [GenTie.closer_eq]
  rw [if_pos (by simp [BMat.closer] at hcl; simp [hcl])]
  show (let v := if anyWindowed2 fA fC = true then _ else _; v) = _
  by_cases hw : anyWindowed2 fA fC = true
  · rw [if_pos hw]
    have hAs : Shaped A.toB A.nrows A.ncols := ⟨Mzd.WF_toB hA, rfl, rfl⟩
    have hAs' : Shaped A.toB A.ncols A.nrows := ⟨Mzd.WF_toB hA, hsq.symm, hsq⟩
    have hX : Shaped (m4rm (zero A.nrows A.nrows) A.toB A.toB 0 false) A.nrows A.nrows :=
      shaped_m4rm_addmul (Shaped.zero _ _) hAs hAs'
    have rA := reads_whole A hA
    have eC := ofView_of C hC
    unfold CLoop.MView.of at eC
    simp (config := {etaStruct := .none}) only [cCopyNew, nrows_ofView, ncols_ofView, Int.toNat_natCast, tdiv63,
      hbmask, cM4rm_acc, cCopy, rA, eC]
    rw [zero_state A.nrows A.nrows,
      step_tmp (r := A.nrows) (c := A.nrows) (fun C A B => m4rm C A B 0 false) (zero_WF A.nrows A.nrows)
        (Shaped.zero _ _) rfl rfl
        (reads_tmp (r := A.nrows) (c := A.ncols) (zero_WF A.nrows A.ncols) hAs rfl rfl)
        (reads_tmp (r := A.nrows) (c := A.ncols) (zero_WF A.nrows A.ncols) hAs rfl rfl) hX,
      (reads_tmp (r := A.nrows) (c := A.nrows) (zero_WF A.nrows A.nrows) hX rfl rfl : (Mzd.ofView _).toB = _),
      m4rm_clear_eq_zero,
      Mzd.nrows_toB, Mzd.ncols_toB, hr, hc]
  · rw [if_neg hw]
    dsimp only
    rw [cM4rm_mul]
    exact liftM3_of _ C A A hC hA hA


theorem strassenSqrEven_split (fuel cutoff : Nat) (rsA rsC : Int) (fA fC : BitVec 8) (C A : Mzd)
    (hC : C.WF) (hA : A.WF) (hsq : A.ncols = A.nrows) (hr : C.nrows = A.nrows) (hc : C.ncols = A.nrows)
    (hcl : ¬ BMat.closer A.nrows cutoff = true) :
    Gen.C.strassenSqrEven cutoff (memOf C) A.nrows fA fC (memOf A) A.ncols A.width A.hb cCopyNew cM4rm
      C.nrows C.ncols C.width C.hb cCopy rsA rsC cAdd (cSqrEven fuel) (cMulEven fuel) (cMulNew fuel) cAddmulM4rm
    = memOf (C.putB (sqrEven (fuel + 1) C.toB A.toB cutoff)) := by
  generalize hR : sqrEven (fuel + 1) C.toB A.toB cutoff = R
  -- the model side
  rw [sqrEven.eq_2] at hR
  rw [if_neg (show ¬ BMat.closer A.toB.nrows cutoff = true from hcl)] at hR
  extract_lets mult mmm A11 A12 A21 A22 C11 C12 C21 C22 Wkn1 C21a Wkn2 C22a Wkn3 C11a Wkn4 C12a C12b W
    C11b C12c C11c C21b C21c C22b C11d C11e C0 mmm2 C1 C2 Cb at hR
  -- the generated side: the split
  unfold Gen.C.strassenSqrEven
  zeta_n 2
  simp_z [GenTie.closer_eq]
  rw [if_neg (by simp [BMat.closer] at hcl; simp [hcl])]
  gen_let v_mmm as vm hvm
  have hvm' : vm = ((halfSplit A.nrows (strassenMult (A.nrows / 2) cutoff) : Nat) : Int) := by
    rw [← hvm]
    exact GenTie.sqrEvenSplit_eq A.nrows cutoff
  clear hvm
  subst hvm'
  zeta_small
  have hmmm : halfSplit A.nrows (strassenMult (A.nrows / 2) cutoff) = mmm := rfl
  rw [hmmm]
  have hm2 : 2 * mmm ≤ A.nrows := two_halfSplit_le A.nrows mult
  have hm64 : mmm % 64 = 0 := halfSplit_mod A.nrows mult
  clear_value mult mmm
  have eA11 := mzdInitWindow_in 0 0 (mmm : Int) (mmm : Int) (A.nrows : Int) rsA 0 0 mmm mmm A.nrows
    (by omega) (by omega) (by omega) (by omega) rfl (by omega) (by omega) (by omega) (by omega)
  have eA12 := mzdInitWindow_in 0 (mmm : Int) (mmm : Int) (2 * (mmm : Int)) (A.nrows : Int) rsA 0 mmm mmm (2 * mmm) A.nrows
    (by omega) (by omega) (by omega) (by omega) rfl (by omega) (by omega) (by omega) (by omega)
  have eA21 := mzdInitWindow_in (mmm : Int) 0 (2 * (mmm : Int)) (mmm : Int) (A.nrows : Int) rsA mmm 0 (2 * mmm) mmm A.nrows
    (by omega) (by omega) (by omega) (by omega) rfl (by omega) (by omega) (by omega) (by omega)
  have eA22 := mzdInitWindow_in (mmm : Int) (mmm : Int) (2 * (mmm : Int)) (2 * (mmm : Int)) (A.nrows : Int) rsA mmm mmm (2 * mmm) (2 * mmm) A.nrows
    (by omega) (by omega) (by omega) (by omega) rfl (by omega) (by omega) (by omega) (by omega)
  have eC11 := mzdInitWindow_in 0 0 (mmm : Int) (mmm : Int) (C.nrows : Int) rsC 0 0 mmm mmm C.nrows
    (by omega) (by omega) (by omega) (by omega) rfl (by omega) (by omega) (by omega) (by omega)
  have eC12 := mzdInitWindow_in 0 (mmm : Int) (mmm : Int) (2 * (mmm : Int)) (C.nrows : Int) rsC 0 mmm mmm (2 * mmm) C.nrows
    (by omega) (by omega) (by omega) (by omega) rfl (by omega) (by omega) (by omega) (by omega)
  have eC21 := mzdInitWindow_in (mmm : Int) 0 (2 * (mmm : Int)) (mmm : Int) (C.nrows : Int) rsC mmm 0 (2 * mmm) mmm C.nrows
    (by omega) (by omega) (by omega) (by omega) rfl (by omega) (by omega) (by omega) (by omega)
  have eC22 := mzdInitWindow_in (mmm : Int) (mmm : Int) (2 * (mmm : Int)) (2 * (mmm : Int)) (C.nrows : Int) rsC mmm mmm (2 * mmm) (2 * mmm) C.nrows
    (by omega) (by omega) (by omega) (by omega) rfl (by omega) (by omega) (by omega) (by omega)
  simp_z [eA11, eA12, eA21, eA22, eC11, eC12, eC21, eC22]
  clear eA11 eA12 eA21 eA22 eC11 eC12 eC21 eC22
  simp_z [tdiv63, hbmask, cMulEven_nat, cSqrEven_nat, cAdd]
  -- atoms
  have hAs : Shaped A.toB A.nrows A.nrows := ⟨Mzd.WF_toB hA, rfl, hsq⟩
  have hCs : Shaped C.toB C.nrows C.ncols := ⟨Mzd.WF_toB hC, rfl, rfl⟩
  have hA11 : Shaped A11 mmm mmm := (hAs.sub 0 0 mmm mmm (by omega)).cast (by omega) (by omega)
  have hA12 : Shaped A12 mmm mmm := (hAs.sub 0 mmm mmm (2 * mmm) (by omega)).cast (by omega) (by omega)
  have hA21 : Shaped A21 mmm mmm := (hAs.sub mmm 0 (2 * mmm) mmm (by omega)).cast (by omega) (by omega)
  have hA22 : Shaped A22 mmm mmm := (hAs.sub mmm mmm (2 * mmm) (2 * mmm) (by omega)).cast (by omega) (by omega)
  have rA11 : Reads (winRec (memOf A) 0 0 mmm mmm) A11 := reads_win0 A 0 0 mmm mmm rfl (by omega) (by omega)
  have rA12 : Reads (winRec (memOf A) 0 mmm mmm (2 * mmm)) A12 :=
    reads_win0 A 0 mmm mmm (2 * mmm) hm64 (by omega) (by omega)
  have rA21 : Reads (winRec (memOf A) mmm 0 (2 * mmm) mmm) A21 :=
    reads_win0 A mmm 0 (2 * mmm) mmm rfl (by omega) (by omega)
  have rA22 : Reads (winRec (memOf A) mmm mmm (2 * mmm) (2 * mmm)) A22 :=
    reads_win0 A mmm mmm (2 * mmm) (2 * mmm) hm64 (by omega) (by omega)
  -- states
  have hS : CSt C C.toB C.nrows C.ncols mmm mmm C11 C12 C21 C22 :=
    ⟨hC, rfl, rfl, hm64, QSt.init hCs (by omega) (by omega)⟩
  have eC0 : memOf C = memOf (C.putB (paste4 C.toB C11 C12 C21 C22 mmm mmm)) := by
    rw [show paste4 C.toB C11 C12 C21 C22 mmm mmm = C.toB from QSt.init_eq hCs (by omega) (by omega),
      Mzd.putB_toB hC]
  rw [eC0]
  clear eC0
  have wK := zero_WF mmm mmm
  mstep1 (zero_state mmm mmm)
  -- 1. Wkn = A22 + A12
  have s1 : Shaped Wkn1 mmm mmm := hA22.addM hA12
  mstep (step_tmp (fun _ A B => addM A B) wK (Shaped.zero mmm mmm) rfl rfl rA22 rA12 s1)
  -- 2. C21 = Wkn^2
  have s2 : Shaped C21a mmm mmm := shaped_sqrEven fuel cutoff hS.q.h21 s1
  mstep (hS.step21 (fun C A _ => sqrEven fuel C A cutoff) (reads_tmp wK s1 rfl rfl) (reads_tmp wK s1 rfl rfl) s2)
  replace hS := hS.set21 s2
  -- 3. Wkn = A22 + A21
  have s3 : Shaped Wkn2 mmm mmm := hA22.addM hA21
  mstep (step_tmp (fun _ A B => addM A B) wK s1 rfl rfl rA22 rA21 s3)
  -- 4. C22 = Wkn^2
  have s4 : Shaped C22a mmm mmm := shaped_sqrEven fuel cutoff hS.q.h22 s3
  mstep (hS.step22 (fun C A _ => sqrEven fuel C A cutoff) (reads_tmp wK s3 rfl rfl) (reads_tmp wK s3 rfl rfl) s4)
  replace hS := hS.set22 s4
  -- 5. Wkn = Wkn + A12
  have s5 : Shaped Wkn3 mmm mmm := s3.addM hA12
  mstep (step_tmp (fun _ A B => addM A B) wK s3 rfl rfl (reads_tmp wK s3 rfl rfl) rA12 s5)
  -- 6. C11 = Wkn^2
  have s6 : Shaped C11a mmm mmm := shaped_sqrEven fuel cutoff hS.q.h11 s5
  mstep (hS.step11 (fun C A _ => sqrEven fuel C A cutoff) (reads_tmp wK s5 rfl rfl) (reads_tmp wK s5 rfl rfl) s6)
  replace hS := hS.set11 s6
  -- 7. Wkn = Wkn + A11
  have s7 : Shaped Wkn4 mmm mmm := s5.addM hA11
  mstep (step_tmp (fun _ A B => addM A B) wK s5 rfl rfl (reads_tmp wK s5 rfl rfl) rA11 s7)
  -- 8. C12 = Wkn * A12
  have s8 : Shaped C12a mmm mmm := shaped_mulEven fuel cutoff hS.q.h12 s7 hA12
  mstep (hS.step12 (fun C A B => mulEven fuel C A B cutoff) (reads_tmp wK s7 rfl rfl) rA12 s8)
  replace hS := hS.set12 s8
  -- 9. C12 = C12 + C22
  have s9 : Shaped C12b mmm mmm := hS.q.h12.addM hS.q.h22
  mstep (hS.step12 (fun _ A B => addM A B) hS.reads12 hS.reads22 s9)
  replace hS := hS.set12 s9
  -- 10. Wmk = A12 * A21 (a fresh matrix)
  simp_z [cMulNew, nrows_ofView, ncols_ofView, Int.toNat_natCast, tdiv63, hbmask, rA12, rA21]
  have sN : Shaped W mmm mmm :=
    shaped_mulTop fuel cutoff ((Shaped.zero _ _).cast hA12.nr hA21.nc) hA12 hA21
  have sN' : Shaped W (mmm - 0) (mmm - 0) := sN.cast (by omega) (by omega)
  have wN := zero_WF (mmm - 0) (mmm - 0)
  -- 11. C11 = C11 + Wmk
  have s11 : Shaped C11b mmm mmm := hS.q.h11.addM sN
  mstep (hS.step11 (fun _ A B => addM A B) hS.reads11 (reads_tmp wN sN' rfl rfl) s11)
  replace hS := hS.set11 s11
  -- 12. C12 = C11 + C12
  have s12 : Shaped C12c mmm mmm := hS.q.h11.addM hS.q.h12
  mstep (hS.step12 (fun _ A B => addM A B) hS.reads11 hS.reads12 s12)
  replace hS := hS.set12 s12
  -- 13. C11 = C21 + C11
  have s13 : Shaped C11c mmm mmm := hS.q.h21.addM hS.q.h11
  mstep (hS.step11 (fun _ A B => addM A B) hS.reads21 hS.reads11 s13)
  replace hS := hS.set11 s13
  -- 14. C21 = A21 * Wkn
  have s14 : Shaped C21b mmm mmm := shaped_mulEven fuel cutoff hS.q.h21 hA21 s7
  mstep (hS.step21 (fun C A B => mulEven fuel C A B cutoff) rA21 (reads_tmp wK s7 rfl rfl) s14)
  replace hS := hS.set21 s14
  -- 15. C21 = C11 + C21
  have s15 : Shaped C21c mmm mmm := hS.q.h11.addM hS.q.h21
  mstep (hS.step21 (fun _ A B => addM A B) hS.reads11 hS.reads21 s15)
  replace hS := hS.set21 s15
  -- 16. C22 = C22 + C11
  have s16 : Shaped C22b mmm mmm := hS.q.h22.addM hS.q.h11
  mstep (hS.step22 (fun _ A B => addM A B) hS.reads22 hS.reads11 s16)
  replace hS := hS.set22 s16
  -- 17. C11 = A11^2
  have s17 : Shaped C11d mmm mmm := shaped_sqrEven fuel cutoff hS.q.h11 hA11
  mstep (hS.step11 (fun C A _ => sqrEven fuel C A cutoff) rA11 rA11 s17)
  replace hS := hS.set11 s17
  -- 18. C11 = C11 + Wmk
  have s18 : Shaped C11e mmm mmm := hS.q.h11.addM sN
  mstep (hS.step11 (fun _ A B => addM A B) hS.reads11 (reads_tmp wN sN' rfl rfl) s18)
  replace hS := hS.set11 s18
  -- the state after the Bodrato sequence
  have eC0 : paste4 C.toB C11e C12c C21c C22b mmm mmm = C0 := rfl
  have hE0 : Shaped C0 C.nrows C.ncols := hS.q.shaped
  rw [eC0]
  clear hS eC0
  mstep1 (rfl : memOf (C.putB C0) = memOf (C.putB C0))
  have hmn : A.nrows ≤ C.nrows := by omega
  have hmc : A.nrows ≤ C.ncols := by omega
  rw [← hR]
  by_cases hgt : A.toB.nrows > mmm2
  · have hgt' : A.nrows > 2 * mmm := hgt
    have e1 : decide ((A.nrows : Int) > (mmm : Int) * 2) = true := by simp; omega
    rw [if_pos e1, if_pos hgt]
    have eAlc := mzdInitWindow_in 0 ((mmm : Int) * 2) (A.nrows : Int) (A.nrows : Int) (A.nrows : Int) rsA 0 (2 * mmm) A.nrows A.nrows A.nrows
      (by omega) (by omega) (by omega) (by omega) rfl (by omega) (by omega) (by omega) (by omega)
    have eClc := mzdInitWindow_in 0 ((mmm : Int) * 2) (A.nrows : Int) (A.nrows : Int) (C.nrows : Int) rsC 0 (2 * mmm) A.nrows A.nrows C.nrows
      (by omega) (by omega) (by omega) (by omega) rfl (by omega) (by omega) (by omega) (by omega)
    have eAlr := mzdInitWindow_in ((mmm : Int) * 2) 0 (A.nrows : Int) (A.nrows : Int) (A.nrows : Int) rsA (2 * mmm) 0 A.nrows A.nrows A.nrows
      (by omega) (by omega) (by omega) (by omega) rfl (by omega) (by omega) (by omega) (by omega)
    have eAfc := mzdInitWindow_in 0 0 (A.nrows : Int) ((mmm : Int) * 2) (A.nrows : Int) rsA 0 0 A.nrows (2 * mmm) A.nrows
      (by omega) (by omega) (by omega) (by omega) rfl (by omega) (by omega) (by omega) (by omega)
    have eClr := mzdInitWindow_in ((mmm : Int) * 2) 0 (A.nrows : Int) ((mmm : Int) * 2) (C.nrows : Int) rsC (2 * mmm) 0 A.nrows (2 * mmm) C.nrows
      (by omega) (by omega) (by omega) (by omega) rfl (by omega) (by omega) (by omega) (by omega)
    have eAlc3 := mzdInitWindow_in 0 ((mmm : Int) * 2) ((mmm : Int) * 2) (A.nrows : Int) (A.nrows : Int) rsA 0 (2 * mmm) (2 * mmm) A.nrows A.nrows
      (by omega) (by omega) (by omega) (by omega) rfl (by omega) (by omega) (by omega) (by omega)
    have eAlr3 := mzdInitWindow_in ((mmm : Int) * 2) 0 (A.nrows : Int) ((mmm : Int) * 2) (A.nrows : Int) rsA (2 * mmm) 0 A.nrows (2 * mmm) A.nrows
      (by omega) (by omega) (by omega) (by omega) rfl (by omega) (by omega) (by omega) (by omega)
    have eCb := mzdInitWindow_in 0 0 ((mmm : Int) * 2) ((mmm : Int) * 2) (C.nrows : Int) rsC 0 0 (2 * mmm) (2 * mmm) C.nrows
      (by omega) (by omega) (by omega) (by omega) rfl (by omega) (by omega) (by omega) (by omega)
    simp_z [eAlc, eClc, eAlr, eAfc, eClr, eAlc3, eAlr3, eCb, cM4rm_mul, cAddmulM4rm_acc]
    clear eAlc eClc eAlr eAfc eClr eAlc3 eAlr3 eCb
    -- strip 1: the last columns
    have hA1 : Shaped (A.toB.sub 0 (2 * mmm) A.nrows A.nrows) A.nrows (A.nrows - 2 * mmm) :=
      (hAs.sub 0 (2 * mmm) A.nrows A.nrows (Nat.le_refl _)).cast (by omega) rfl
    have hX1 : Shaped (m4rm (C0.sub 0 (2 * mmm) A.nrows A.nrows) A.toB (A.toB.sub 0 (2 * mmm) A.nrows A.nrows) 0 true)
        (A.nrows - 0) (A.nrows - 2 * mmm) :=
      shaped_m4rm_mul (hE0.sub 0 (2 * mmm) A.nrows A.nrows hmn) (hAs.cast (by omega) rfl) hA1
    have hE1 : Shaped C1 C.nrows C.ncols :=
      hE0.paste (m4rm (C0.sub 0 (2 * mmm) A.nrows A.nrows) A.toB (A.toB.sub 0 (2 * mmm) A.nrows A.nrows) 0 true)
        0 (2 * mmm) (by rw [hX1.nc]; omega)
    extract_lets +onlyGivenNames cr1 x1
    have hx1 : x1 = memOf (C.putB C1) :=
      step_win (fun C A B => m4rm C A B 0 true) hC hE0 rfl rfl 0 (2 * mmm) A.nrows A.nrows (by omega) hmn hmc
        (reads_whole A hA) (reads_win0 A 0 (2 * mmm) A.nrows A.nrows (by omega) (Nat.le_refl _) (by omega)) hX1
    clear_value x1; subst hx1; clear cr1
    mstep1 (rfl : memOf (C.putB C1) = memOf (C.putB C1))
    -- strip 2: the last rows
    have hA2 : Shaped (A.toB.sub (2 * mmm) 0 A.nrows A.nrows) (A.nrows - 2 * mmm) A.nrows :=
      (hAs.sub (2 * mmm) 0 A.nrows A.nrows (Nat.le_refl _)).cast rfl (by omega)
    have hB2 : Shaped (A.toB.sub 0 0 A.nrows (2 * mmm)) A.nrows (2 * mmm - 0) :=
      (hAs.sub 0 0 A.nrows (2 * mmm) (Nat.le_refl _)).cast (by omega) rfl
    have hX2 : Shaped (m4rm (C1.sub (2 * mmm) 0 A.nrows (2 * mmm)) (A.toB.sub (2 * mmm) 0 A.nrows A.nrows)
        (A.toB.sub 0 0 A.nrows (2 * mmm)) 0 true) (A.nrows - 2 * mmm) (2 * mmm - 0) :=
      shaped_m4rm_mul (hE1.sub (2 * mmm) 0 A.nrows (2 * mmm) hmn) hA2 hB2
    have hE2 : Shaped C2 C.nrows C.ncols :=
      hE1.paste (m4rm (C1.sub (2 * mmm) 0 A.nrows (2 * mmm)) (A.toB.sub (2 * mmm) 0 A.nrows A.nrows)
        (A.toB.sub 0 0 A.nrows (2 * mmm)) 0 true) (2 * mmm) 0 (by rw [hX2.nc]; omega)
    extract_lets +onlyGivenNames cr2 x2
    have hx2 : x2 = memOf (C.putB C2) :=
      step_win (fun C A B => m4rm C A B 0 true) hC hE1 rfl rfl (2 * mmm) 0 A.nrows (2 * mmm) rfl hmn (by omega)
        (reads_win0 A (2 * mmm) 0 A.nrows A.nrows rfl (Nat.le_refl _) (by omega))
        (reads_win0 A 0 0 A.nrows (2 * mmm) rfl (Nat.le_refl _) (by omega)) hX2
    clear_value x2; subst hx2; clear cr2
    mstep1 (rfl : memOf (C.putB C2) = memOf (C.putB C2))
    -- strip 3: the last inner indices
    have hAl : Shaped (A.toB.sub 0 (2 * mmm) (2 * mmm) A.nrows) (2 * mmm - 0) (A.nrows - 2 * mmm) :=
      hAs.sub 0 (2 * mmm) (2 * mmm) A.nrows (by omega)
    have hBl : Shaped (A.toB.sub (2 * mmm) 0 A.nrows (2 * mmm)) (A.nrows - 2 * mmm) (2 * mmm - 0) :=
      hAs.sub (2 * mmm) 0 A.nrows (2 * mmm) (Nat.le_refl _)
    exact step_win_acc hC hE2 rfl rfl 0 0 (2 * mmm) (2 * mmm) rfl (by omega) (by omega) (by omega)
      (reads_win0 A 0 (2 * mmm) (2 * mmm) A.nrows (by omega) (by omega) (by omega))
      (reads_win0 A (2 * mmm) 0 A.nrows (2 * mmm) rfl (Nat.le_refl _) (by omega)) hAl hBl
  · have hgt' : ¬ A.nrows > 2 * mmm := hgt
    have e1 : ¬ decide ((A.nrows : Int) > (mmm : Int) * 2) = true := by simp; omega
    rw [if_neg e1, if_neg hgt]


/-- **ONE STEP of `_mzd_sqr_even`** (one operand: the generated function has ONE memory for `A`): with the callees
    instantiated by the model's operations (the recursive calls by the model at `fuel`), the generated function
    computes the model's step at `fuel + 1` through the lens — for all flags (windowed operands or not), all
    cutoffs, every square `A` and `C` of the same shape -/
theorem strassenSqrEven_step (fuel cutoff : Nat) (rsA rsC : Int) (fA fC : BitVec 8) (C A : Mzd)
    (hC : C.WF) (hA : A.WF) (hsq : A.ncols = A.nrows) (hr : C.nrows = A.nrows) (hc : C.ncols = A.nrows) :
    Gen.C.strassenSqrEven cutoff (memOf C) A.nrows fA fC (memOf A) A.ncols A.width A.hb cCopyNew cM4rm
      C.nrows C.ncols C.width C.hb cCopy rsA rsC cAdd (cSqrEven fuel) (cMulEven fuel) (cMulNew fuel) cAddmulM4rm
    = memOf (C.putB (sqrEven (fuel + 1) C.toB A.toB cutoff)) := by
  by_cases hcl : BMat.closer A.nrows cutoff = true
  · exact strassenSqrEven_base fuel cutoff rsA rsC fA fC C A hC hA hsq hr hc hcl
  · exact strassenSqrEven_split fuel cutoff rsA rsC fA fC C A hC hA hsq hr hc hcl

/-! ### 5. `_mzd_addsqr_even` -/

/-- **base case** (`closer(m)`), windowed operands or not -/
theorem strassenAddsqrEven_base (fuel cutoff : Nat) (rsA rsC : Int) (fA fC : BitVec 8) (C A : Mzd)
    (hC : C.WF) (hA : A.WF) (hsq : A.ncols = A.nrows) (hr : C.nrows = A.nrows) (hc : C.ncols = A.nrows)
    (h0 : ¬ C.nrows = 0) (hcl : BMat.closer A.nrows cutoff = true) :
    Gen.C.strassenAddsqrEven cutoff (memOf C) C.nrows A.nrows fA fC C.ncols C.width C.hb cCopyNew (memOf A) A.ncols
      A.width A.hb cAddmulM4rm cCopy rsA rsC cAdd (cSqrEven fuel) (cMulEven fuel) (cAddsqrEven fuel)
      (cAddmulEven fuel)
    = memOf (C.putB (addsqrEven (fuel + 1) C.toB A.toB cutoff)) := by
  have eR : addsqrEven (fuel + 1) C.toB A.toB cutoff = opAcc C.toB A.toB A.toB := by
    rw [addsqrEven.eq_1, if_neg (by simpa using h0)]
    dsimp -zeta only
    extract_lets +onlyGivenNames m
    rw [if_pos (show BMat.closer m cutoff = true from hcl), if_neg (by simp only [Mzd.ncols_toB]; omega)]
    exact (if_neg (by simp only [Mzd.nrows_toB, Mzd.ncols_toB]; omega)).symm
  rw [eR]
  unfold Gen.C.strassenAddsqrEven
  zeta_n 1
  rw [if_neg (by simpa using h0)]
  simp_z [GenTie.closer_eq]
  rw [if_pos (by simp [BMat.closer] at hcl; simp [hcl])]
  show (let v := if anyWindowed2 fA fC = true then _ else _; v) = _
  by_cases hw : anyWindowed2 fA fC = true
  · rw [if_pos hw]
    have hAs : Shaped A.toB A.nrows A.ncols := ⟨Mzd.WF_toB hA, rfl, rfl⟩
    have hCs : Shaped C.toB C.nrows C.ncols := ⟨Mzd.WF_toB hC, rfl, rfl⟩
    have hX := shaped_addmulM4rm hCs (hAs.cast hr.symm rfl) (hAs.cast hsq.symm (hsq.trans hc.symm))
    have rA := reads_whole A hA
    have eC := ofView_of C hC
    unfold CLoop.MView.of at eC
    simp (config := {etaStruct := .none}) only [cCopyNew, nrows_ofView, ncols_ofView, Int.toNat_natCast, tdiv63,
      hbmask, cAddmulM4rm_zero, cCopy, rA, eC]
    rw [step_tmp (r := C.nrows) (c := C.ncols)
        (fun C A B => if C.ncols = 0 ∨ C.nrows = 0 then C else m4rm C A B 0 false) (zero_WF C.nrows C.ncols)
        hCs rfl rfl
        (reads_tmp (r := A.nrows) (c := A.ncols) (zero_WF A.nrows A.ncols) hAs rfl rfl)
        (reads_tmp (r := A.nrows) (c := A.ncols) (zero_WF A.nrows A.ncols) hAs rfl rfl) hX,
      (reads_tmp (r := C.nrows) (c := C.ncols) (zero_WF C.nrows C.ncols) hX rfl rfl : (Mzd.ofView _).toB = _)]
  · rw [if_neg hw]
    dsimp only
    rw [cAddmulM4rm_zero]
    exact liftM3_of _ C A A hC hA hA

/-- **the split branch**: 8 windows, two local matrices, the 17 steps of the schedule, the three strips -/
theorem strassenAddsqrEven_split (fuel cutoff : Nat) (rsA rsC : Int) (fA fC : BitVec 8) (C A : Mzd)
    (hC : C.WF) (hA : A.WF) (hsq : A.ncols = A.nrows) (hr : C.nrows = A.nrows) (hc : C.ncols = A.nrows)
    (h0 : ¬ C.nrows = 0) (hcl : ¬ BMat.closer A.nrows cutoff = true) :
    Gen.C.strassenAddsqrEven cutoff (memOf C) C.nrows A.nrows fA fC C.ncols C.width C.hb cCopyNew (memOf A) A.ncols
      A.width A.hb cAddmulM4rm cCopy rsA rsC cAdd (cSqrEven fuel) (cMulEven fuel) (cAddsqrEven fuel)
      (cAddmulEven fuel)
    = memOf (C.putB (addsqrEven (fuel + 1) C.toB A.toB cutoff)) := by
  generalize hR : addsqrEven (fuel + 1) C.toB A.toB cutoff = R
  -- the model side
  rw [addsqrEven.eq_1] at hR
  rw [if_neg (by simpa using h0)] at hR
  dsimp -zeta only at hR
  extract_lets +onlyGivenNames m at hR
  rw [if_neg (show ¬ BMat.closer m cutoff = true from hcl)] at hR
  extract_lets mult mmm A11 A12 A21 A22 C11 C12 C21 C22 S1 U1 D22a D12a U2 D11a D11b S2 U3 D12b S3 D12c
    D21a S4 U4 D21b D22b C0 mmm2 Cl1 C1 Cl2 C2 Cb at hR
  -- the generated side: the split
  unfold Gen.C.strassenAddsqrEven
  zeta_n 1
  rw [if_neg (by simpa using h0)]
  simp_z [GenTie.closer_eq]
  rw [if_neg (by simp [BMat.closer] at hcl; simp [hcl])]
  gen_let v_mmm as vm hvm
  have hvm' : vm = ((halfSplit A.nrows (strassenMult (A.nrows / 2) cutoff) : Nat) : Int) := by
    rw [← hvm]
    exact GenTie.addsqrEvenSplit_eq A.nrows cutoff
  clear hvm
  subst hvm'
  zeta_small
  have hmmm : halfSplit A.nrows (strassenMult (A.nrows / 2) cutoff) = mmm := rfl
  rw [hmmm]
  have hm2 : 2 * mmm ≤ A.nrows := two_halfSplit_le A.nrows mult
  have hm64 : mmm % 64 = 0 := halfSplit_mod A.nrows mult
  clear_value mult mmm
  have eA11 := mzdInitWindow_in 0 0 (mmm : Int) (mmm : Int) (A.nrows : Int) rsA 0 0 mmm mmm A.nrows
    (by omega) (by omega) (by omega) (by omega) rfl (by omega) (by omega) (by omega) (by omega)
  have eA12 := mzdInitWindow_in 0 (mmm : Int) (mmm : Int) (2 * (mmm : Int)) (A.nrows : Int) rsA 0 mmm mmm (2 * mmm) A.nrows
    (by omega) (by omega) (by omega) (by omega) rfl (by omega) (by omega) (by omega) (by omega)
  have eA21 := mzdInitWindow_in (mmm : Int) 0 (2 * (mmm : Int)) (mmm : Int) (A.nrows : Int) rsA mmm 0 (2 * mmm) mmm A.nrows
    (by omega) (by omega) (by omega) (by omega) rfl (by omega) (by omega) (by omega) (by omega)
  have eA22 := mzdInitWindow_in (mmm : Int) (mmm : Int) (2 * (mmm : Int)) (2 * (mmm : Int)) (A.nrows : Int) rsA mmm mmm (2 * mmm) (2 * mmm) A.nrows
    (by omega) (by omega) (by omega) (by omega) rfl (by omega) (by omega) (by omega) (by omega)
  have eC11 := mzdInitWindow_in 0 0 (mmm : Int) (mmm : Int) (C.nrows : Int) rsC 0 0 mmm mmm C.nrows
    (by omega) (by omega) (by omega) (by omega) rfl (by omega) (by omega) (by omega) (by omega)
  have eC12 := mzdInitWindow_in 0 (mmm : Int) (mmm : Int) (2 * (mmm : Int)) (C.nrows : Int) rsC 0 mmm mmm (2 * mmm) C.nrows
    (by omega) (by omega) (by omega) (by omega) rfl (by omega) (by omega) (by omega) (by omega)
  have eC21 := mzdInitWindow_in (mmm : Int) 0 (2 * (mmm : Int)) (mmm : Int) (C.nrows : Int) rsC mmm 0 (2 * mmm) mmm C.nrows
    (by omega) (by omega) (by omega) (by omega) rfl (by omega) (by omega) (by omega) (by omega)
  have eC22 := mzdInitWindow_in (mmm : Int) (mmm : Int) (2 * (mmm : Int)) (2 * (mmm : Int)) (C.nrows : Int) rsC mmm mmm (2 * mmm) (2 * mmm) C.nrows
    (by omega) (by omega) (by omega) (by omega) rfl (by omega) (by omega) (by omega) (by omega)
  simp_z [eA11, eA12, eA21, eA22, eC11, eC12, eC21, eC22]
  clear eA11 eA12 eA21 eA22 eC11 eC12 eC21 eC22
  simp_z [tdiv63, hbmask, cMulEven_nat, cSqrEven_nat, cAddsqrEven_nat, cAddmulEven_nat, cAdd]
  -- atoms
  have hAs : Shaped A.toB A.nrows A.nrows := ⟨Mzd.WF_toB hA, rfl, hsq⟩
  have hCs : Shaped C.toB C.nrows C.ncols := ⟨Mzd.WF_toB hC, rfl, rfl⟩
  have hA11 : Shaped A11 mmm mmm := (hAs.sub 0 0 mmm mmm (by omega)).cast (by omega) (by omega)
  have hA12 : Shaped A12 mmm mmm := (hAs.sub 0 mmm mmm (2 * mmm) (by omega)).cast (by omega) (by omega)
  have hA21 : Shaped A21 mmm mmm := (hAs.sub mmm 0 (2 * mmm) mmm (by omega)).cast (by omega) (by omega)
  have hA22 : Shaped A22 mmm mmm := (hAs.sub mmm mmm (2 * mmm) (2 * mmm) (by omega)).cast (by omega) (by omega)
  have rA11 : Reads (winRec (memOf A) 0 0 mmm mmm) A11 := reads_win0 A 0 0 mmm mmm rfl (by omega) (by omega)
  have rA12 : Reads (winRec (memOf A) 0 mmm mmm (2 * mmm)) A12 :=
    reads_win0 A 0 mmm mmm (2 * mmm) hm64 (by omega) (by omega)
  have rA21 : Reads (winRec (memOf A) mmm 0 (2 * mmm) mmm) A21 :=
    reads_win0 A mmm 0 (2 * mmm) mmm rfl (by omega) (by omega)
  have rA22 : Reads (winRec (memOf A) mmm mmm (2 * mmm) (2 * mmm)) A22 :=
    reads_win0 A mmm mmm (2 * mmm) (2 * mmm) hm64 (by omega) (by omega)
  -- states
  have hS : CSt C C.toB C.nrows C.ncols mmm mmm C11 C12 C21 C22 :=
    ⟨hC, rfl, rfl, hm64, QSt.init hCs (by omega) (by omega)⟩
  have eC0 : memOf C = memOf (C.putB (paste4 C.toB C11 C12 C21 C22 mmm mmm)) := by
    rw [show paste4 C.toB C11 C12 C21 C22 mmm mmm = C.toB from QSt.init_eq hCs (by omega) (by omega),
      Mzd.putB_toB hC]
  rw [eC0]
  clear eC0
  have wK := zero_WF mmm mmm
  mstep1 (zero_state mmm mmm)
  mstep1 (zero_state mmm mmm)
  -- 1. S = A22 + A21
  have s1 : Shaped S1 mmm mmm := hA22.addM hA21
  mstep (step_tmp (fun _ A B => addM A B) wK (Shaped.zero mmm mmm) rfl rfl rA22 rA21 s1)
  -- 2. U = S^2
  have s2 : Shaped U1 mmm mmm := shaped_sqrEven fuel cutoff (Shaped.zero mmm mmm) s1
  mstep (step_tmp (fun C A _ => sqrEven fuel C A cutoff) wK (Shaped.zero mmm mmm) rfl rfl
    (reads_tmp wK s1 rfl rfl) (reads_tmp wK s1 rfl rfl) s2)
  -- 3. C22 = U + C22
  have s3 : Shaped D22a mmm mmm := s2.addM hS.q.h22
  mstep (hS.step22 (fun _ A B => addM A B) (reads_tmp wK s2 rfl rfl) hS.reads22 s3)
  replace hS := hS.set22 s3
  -- 4. C12 = U + C12
  have s4 : Shaped D12a mmm mmm := s2.addM hS.q.h12
  mstep (hS.step12 (fun _ A B => addM A B) (reads_tmp wK s2 rfl rfl) hS.reads12 s4)
  replace hS := hS.set12 s4
  -- 5. U = A12 * A21
  have s5 : Shaped U2 mmm mmm := shaped_mulEven fuel cutoff s2 hA12 hA21
  mstep (step_tmp (fun C A B => mulEven fuel C A B cutoff) wK s2 rfl rfl rA12 rA21 s5)
  -- 6. C11 = U + C11
  have s6 : Shaped D11a mmm mmm := s5.addM hS.q.h11
  mstep (hS.step11 (fun _ A B => addM A B) (reads_tmp wK s5 rfl rfl) hS.reads11 s6)
  replace hS := hS.set11 s6
  -- 7. C11 += A11^2
  have s7 : Shaped D11b mmm mmm := shaped_addsqrEven fuel cutoff hS.q.h11 hA11
  mstep (hS.step11 (fun C A _ => addsqrEven fuel C A cutoff) rA11 rA11 s7)
  replace hS := hS.set11 s7
  -- 8. S = S + A12
  have s8 : Shaped S2 mmm mmm := s1.addM hA12
  mstep (step_tmp (fun _ A B => addM A B) wK s1 rfl rfl (reads_tmp wK s1 rfl rfl) rA12 s8)
  -- 9. U += S^2
  have s9 : Shaped U3 mmm mmm := shaped_addsqrEven fuel cutoff s5 s8
  mstep (step_tmp (fun C A _ => addsqrEven fuel C A cutoff) wK s5 rfl rfl
    (reads_tmp wK s8 rfl rfl) (reads_tmp wK s8 rfl rfl) s9)
  -- 10. C12 = C12 + U
  have s10 : Shaped D12b mmm mmm := hS.q.h12.addM s9
  mstep (hS.step12 (fun _ A B => addM A B) hS.reads12 (reads_tmp wK s9 rfl rfl) s10)
  replace hS := hS.set12 s10
  -- 11. S = A11 + S
  have s11 : Shaped S3 mmm mmm := hA11.addM s8
  mstep (step_tmp (fun _ A B => addM A B) wK s8 rfl rfl rA11 (reads_tmp wK s8 rfl rfl) s11)
  -- 12. C12 += S * A12
  have s12 : Shaped D12c mmm mmm := shaped_addmulEven fuel cutoff hS.q.h12 s11 hA12
  mstep (hS.step12 (fun C A B => addmulEven fuel C A B cutoff) (reads_tmp wK s11 rfl rfl) rA12 s12)
  replace hS := hS.set12 s12
  -- 13. C21 += A21 * S
  have s13 : Shaped D21a mmm mmm := shaped_addmulEven fuel cutoff hS.q.h21 hA21 s11
  mstep (hS.step21 (fun C A B => addmulEven fuel C A B cutoff) rA21 (reads_tmp wK s11 rfl rfl) s13)
  replace hS := hS.set21 s13
  -- 14. S = A22 + A12
  have s14 : Shaped S4 mmm mmm := hA22.addM hA12
  mstep (step_tmp (fun _ A B => addM A B) wK s11 rfl rfl rA22 rA12 s14)
  -- 15. U += S^2
  have s15 : Shaped U4 mmm mmm := shaped_addsqrEven fuel cutoff s9 s14
  mstep (step_tmp (fun C A _ => addsqrEven fuel C A cutoff) wK s9 rfl rfl
    (reads_tmp wK s14 rfl rfl) (reads_tmp wK s14 rfl rfl) s15)
  -- 16. C21 = C21 + U
  have s16 : Shaped D21b mmm mmm := hS.q.h21.addM s15
  mstep (hS.step21 (fun _ A B => addM A B) hS.reads21 (reads_tmp wK s15 rfl rfl) s16)
  replace hS := hS.set21 s16
  -- 17. C22 = C22 + U
  have s17 : Shaped D22b mmm mmm := hS.q.h22.addM s15
  mstep (hS.step22 (fun _ A B => addM A B) hS.reads22 (reads_tmp wK s15 rfl rfl) s17)
  replace hS := hS.set22 s17
  -- the state after the schedule
  have eC0 : paste4 C.toB D11b D12c D21b D22b mmm mmm = C0 := rfl
  have hE0 : Shaped C0 C.nrows C.ncols := hS.q.shaped
  rw [eC0]
  clear hS eC0
  mstep1 (rfl : memOf (C.putB C0) = memOf (C.putB C0))
  have hmn : A.nrows ≤ C.nrows := by omega
  have hmc : A.nrows ≤ C.ncols := by omega
  rw [← hR]
  by_cases hgt : m > mmm2
  · have hgt' : A.nrows > 2 * mmm := hgt
    have e1 : decide ((A.nrows : Int) > (mmm : Int) * 2) = true := by simp; omega
    rw [if_pos e1, if_pos hgt]
    have eAlc := mzdInitWindow_in 0 ((mmm : Int) * 2) (A.nrows : Int) (A.nrows : Int) (A.nrows : Int) rsA 0 (2 * mmm) A.nrows A.nrows A.nrows
      (by omega) (by omega) (by omega) (by omega) rfl (by omega) (by omega) (by omega) (by omega)
    have eClc := mzdInitWindow_in 0 ((mmm : Int) * 2) (A.nrows : Int) (A.nrows : Int) (C.nrows : Int) rsC 0 (2 * mmm) A.nrows A.nrows C.nrows
      (by omega) (by omega) (by omega) (by omega) rfl (by omega) (by omega) (by omega) (by omega)
    have eAlr := mzdInitWindow_in ((mmm : Int) * 2) 0 (A.nrows : Int) (A.nrows : Int) (A.nrows : Int) rsA (2 * mmm) 0 A.nrows A.nrows A.nrows
      (by omega) (by omega) (by omega) (by omega) rfl (by omega) (by omega) (by omega) (by omega)
    have eAfc := mzdInitWindow_in 0 0 (A.nrows : Int) ((mmm : Int) * 2) (A.nrows : Int) rsA 0 0 A.nrows (2 * mmm) A.nrows
      (by omega) (by omega) (by omega) (by omega) rfl (by omega) (by omega) (by omega) (by omega)
    have eClr := mzdInitWindow_in ((mmm : Int) * 2) 0 (A.nrows : Int) ((mmm : Int) * 2) (C.nrows : Int) rsC (2 * mmm) 0 A.nrows (2 * mmm) C.nrows
      (by omega) (by omega) (by omega) (by omega) rfl (by omega) (by omega) (by omega) (by omega)
    have eAlc3 := mzdInitWindow_in 0 ((mmm : Int) * 2) ((mmm : Int) * 2) (A.nrows : Int) (A.nrows : Int) rsA 0 (2 * mmm) (2 * mmm) A.nrows A.nrows
      (by omega) (by omega) (by omega) (by omega) rfl (by omega) (by omega) (by omega) (by omega)
    have eAlr3 := mzdInitWindow_in ((mmm : Int) * 2) 0 (A.nrows : Int) ((mmm : Int) * 2) (A.nrows : Int) rsA (2 * mmm) 0 A.nrows (2 * mmm) A.nrows
      (by omega) (by omega) (by omega) (by omega) rfl (by omega) (by omega) (by omega) (by omega)
    have eCb := mzdInitWindow_in 0 0 ((mmm : Int) * 2) ((mmm : Int) * 2) (C.nrows : Int) rsC 0 0 (2 * mmm) (2 * mmm) C.nrows
      (by omega) (by omega) (by omega) (by omega) rfl (by omega) (by omega) (by omega) (by omega)
    simp_z [eAlc, eClc, eAlr, eAfc, eClr, eAlc3, eAlr3, eCb, cAddmulM4rm_acc]
    clear eAlc eClc eAlr eAfc eClr eAlc3 eAlr3 eCb
    -- strip 1: the last columns
    have hA0 : Shaped A.toB (A.nrows - 0) A.nrows := hAs.cast (by omega) rfl
    have hA1 : Shaped (A.toB.sub 0 (2 * mmm) A.nrows A.nrows) A.nrows (A.nrows - 2 * mmm) :=
      (hAs.sub 0 (2 * mmm) A.nrows A.nrows (Nat.le_refl _)).cast (by omega) rfl
    have hE1 : Shaped C1 C.nrows C.ncols :=
      shaped_accStrip hE0 0 (2 * mmm) A.nrows A.nrows hmn hmc (by omega) hA0 hA1
    extract_lets +onlyGivenNames cr1 x1
    have hx1 : x1 = memOf (C.putB C1) :=
      step_win_acc hC hE0 rfl rfl 0 (2 * mmm) A.nrows A.nrows (by omega) hmn hmc (by omega)
        (reads_whole A hA) (reads_win0 A 0 (2 * mmm) A.nrows A.nrows (by omega) (Nat.le_refl _) (by omega)) hA0 hA1
    clear_value x1; subst hx1; clear cr1
    mstep1 (rfl : memOf (C.putB C1) = memOf (C.putB C1))
    -- strip 2: the last rows
    have hA2 : Shaped (A.toB.sub (2 * mmm) 0 A.nrows A.nrows) (A.nrows - 2 * mmm) A.nrows :=
      (hAs.sub (2 * mmm) 0 A.nrows A.nrows (Nat.le_refl _)).cast rfl (by omega)
    have hB2 : Shaped (A.toB.sub 0 0 A.nrows (2 * mmm)) A.nrows (2 * mmm - 0) :=
      (hAs.sub 0 0 A.nrows (2 * mmm) (Nat.le_refl _)).cast (by omega) rfl
    have hE2 : Shaped C2 C.nrows C.ncols :=
      shaped_accStrip hE1 (2 * mmm) 0 A.nrows (2 * mmm) hmn (by omega) (by omega) hA2 hB2
    extract_lets +onlyGivenNames cr2 x2
    have hx2 : x2 = memOf (C.putB C2) :=
      step_win_acc hC hE1 rfl rfl (2 * mmm) 0 A.nrows (2 * mmm) rfl hmn (by omega) (by omega)
        (reads_win0 A (2 * mmm) 0 A.nrows A.nrows rfl (Nat.le_refl _) (by omega))
        (reads_win0 A 0 0 A.nrows (2 * mmm) rfl (Nat.le_refl _) (by omega)) hA2 hB2
    clear_value x2; subst hx2; clear cr2
    mstep1 (rfl : memOf (C.putB C2) = memOf (C.putB C2))
    -- strip 3: the last inner indices
    have hAl : Shaped (A.toB.sub 0 (2 * mmm) (2 * mmm) A.nrows) (2 * mmm - 0) (A.nrows - 2 * mmm) :=
      hAs.sub 0 (2 * mmm) (2 * mmm) A.nrows (by omega)
    have hBl : Shaped (A.toB.sub (2 * mmm) 0 A.nrows (2 * mmm)) (A.nrows - 2 * mmm) (2 * mmm - 0) :=
      hAs.sub (2 * mmm) 0 A.nrows (2 * mmm) (Nat.le_refl _)
    exact step_win_acc hC hE2 rfl rfl 0 0 (2 * mmm) (2 * mmm) rfl (by omega) (by omega) (by omega)
      (reads_win0 A 0 (2 * mmm) (2 * mmm) A.nrows (by omega) (by omega) (by omega))
      (reads_win0 A (2 * mmm) 0 A.nrows (2 * mmm) rfl (Nat.le_refl _) (by omega)) hAl hBl
  · have hgt' : ¬ A.nrows > 2 * mmm := hgt
    have e1 : ¬ decide ((A.nrows : Int) > (mmm : Int) * 2) = true := by simp; omega
    rw [if_neg e1, if_neg hgt]

/-- **early return**: no rows -/
theorem strassenAddsqrEven_empty (fuel cutoff : Nat) (rsA rsC : Int) (fA fC : BitVec 8) (C A : Mzd)
    (hC : C.WF) (h0 : C.nrows = 0)
    (f1 : CLoop.MView → (Int → Int → BitVec 64) × Int × Int)
    (f2 : CLoop.MView → CLoop.MView → CLoop.MView → Int → (Int → Int → BitVec 64))
    (f3 : CLoop.MView → CLoop.MView → (Int → Int → BitVec 64))
    (f4 : CLoop.MView → CLoop.MView → CLoop.MView → (Int → Int → BitVec 64))
    (f5 : CLoop.MView → CLoop.MView → Int → (Int → Int → BitVec 64))
    (f6 : CLoop.MView → CLoop.MView → CLoop.MView → Int → (Int → Int → BitVec 64))
    (f7 : CLoop.MView → CLoop.MView → Int → (Int → Int → BitVec 64))
    (f8 : CLoop.MView → CLoop.MView → CLoop.MView → Int → (Int → Int → BitVec 64)) :
    Gen.C.strassenAddsqrEven cutoff (memOf C) C.nrows A.nrows fA fC C.ncols C.width C.hb f1 (memOf A) A.ncols
      A.width A.hb f2 f3 rsA rsC f4 f5 f6 f7 f8
    = memOf (C.putB (addsqrEven (fuel + 1) C.toB A.toB cutoff)) := by
  unfold Gen.C.strassenAddsqrEven
  rw [addsqrEven.eq_1, if_pos (by simpa using h0)]
  rw [if_pos (by simpa using h0), Mzd.putB_toB hC]

/-- **ONE STEP of `_mzd_addsqr_even`** (one operand): with the callees instantiated by the model's operations (the
    recursive calls by the model at `fuel`), the generated function computes the model's step at `fuel + 1`
    through the lens — for all flags, all cutoffs, every square `A` and `C` of the same shape -/
theorem strassenAddsqrEven_step (fuel cutoff : Nat) (rsA rsC : Int) (fA fC : BitVec 8) (C A : Mzd)
    (hC : C.WF) (hA : A.WF) (hsq : A.ncols = A.nrows) (hr : C.nrows = A.nrows) (hc : C.ncols = A.nrows) :
    Gen.C.strassenAddsqrEven cutoff (memOf C) C.nrows A.nrows fA fC C.ncols C.width C.hb cCopyNew (memOf A) A.ncols
      A.width A.hb cAddmulM4rm cCopy rsA rsC cAdd (cSqrEven fuel) (cMulEven fuel) (cAddsqrEven fuel)
      (cAddmulEven fuel)
    = memOf (C.putB (addsqrEven (fuel + 1) C.toB A.toB cutoff)) := by
  by_cases h0 : C.nrows = 0
  · exact strassenAddsqrEven_empty fuel cutoff rsA rsC fA fC C A hC h0 _ _ _ _ _ _ _ _
  by_cases hcl : BMat.closer A.nrows cutoff = true
  · exact strassenAddsqrEven_base fuel cutoff rsA rsC fA fC C A hC hA hsq hr hc h0 hcl
  · exact strassenAddsqrEven_split fuel cutoff rsA rsC fA fC C A hC hA hsq hr hc h0 hcl

/-! ### 6. what the steps compute; non-vacuity -/

/-- … and what the step of `_mzd_addmul_even` computes: `C + A·B`, through the lens -/
theorem strassenAddmulEven_step_add (fuel cutoff : Nat) (rsA rsB rsC : Int) (fA fB fC : BitVec 8) (C A B : Mzd)
    (hC : C.WF) (hA : A.WF) (hB : B.WF) (hk : A.ncols = B.nrows) (hr : C.nrows = A.nrows) (hc : C.ncols = B.ncols) :
    Gen.C.strassenAddmulEven cutoff (memOf C) C.nrows C.ncols A.nrows A.ncols B.ncols fA fB fC (memOf A) A.width A.hb
      cCopyNew (memOf B) B.nrows B.width B.hb C.width C.hb cAddmulM4rm cCopy rsA rsB rsC cAdd (cMulEven fuel)
      (cAddmulEven fuel)
    = memOf (C.putB (C.toB.add (A.toB.mul B.toB))) := by
  rw [strassenAddmulEven_step fuel cutoff rsA rsB rsC fA fB fC C A B hC hA hB hk hr hc]
  have e : addmulEven (fuel + 1) C.toB A.toB B.toB cutoff = C.toB.add (A.toB.mul B.toB) :=
    (addAllP (fuel + 1)).1 cutoff (r := A.nrows) (k := A.ncols) (c := B.ncols) ⟨Mzd.WF_toB hC, hr, hc⟩
      ⟨Mzd.WF_toB hA, rfl, rfl⟩ ⟨Mzd.WF_toB hB, hk.symm, rfl⟩
  rw [e]

/-- … and what the step of `_mzd_sqr_even` computes: `A·A`, through the lens -/
theorem strassenSqrEven_step_mul (fuel cutoff : Nat) (rsA rsC : Int) (fA fC : BitVec 8) (C A : Mzd)
    (hC : C.WF) (hA : A.WF) (hsq : A.ncols = A.nrows) (hr : C.nrows = A.nrows) (hc : C.ncols = A.nrows) :
    Gen.C.strassenSqrEven cutoff (memOf C) A.nrows fA fC (memOf A) A.ncols A.width A.hb cCopyNew cM4rm
      C.nrows C.ncols C.width C.hb cCopy rsA rsC cAdd (cSqrEven fuel) (cMulEven fuel) (cMulNew fuel) cAddmulM4rm
    = memOf (C.putB (A.toB.mul A.toB)) := by
  rw [strassenSqrEven_step fuel cutoff rsA rsC fA fC C A hC hA hsq hr hc]
  have e : sqrEven (fuel + 1) C.toB A.toB cutoff = A.toB.mul A.toB :=
    (mulAllP (fuel + 1)).2.1 cutoff (r := A.nrows) ⟨Mzd.WF_toB hC, hr, hc⟩ ⟨Mzd.WF_toB hA, rfl, hsq⟩
  rw [e]

/-- … and what the step of `_mzd_addsqr_even` computes: `C + A·A`, through the lens -/
theorem strassenAddsqrEven_step_add (fuel cutoff : Nat) (rsA rsC : Int) (fA fC : BitVec 8) (C A : Mzd)
    (hC : C.WF) (hA : A.WF) (hsq : A.ncols = A.nrows) (hr : C.nrows = A.nrows) (hc : C.ncols = A.nrows) :
    Gen.C.strassenAddsqrEven cutoff (memOf C) C.nrows A.nrows fA fC C.ncols C.width C.hb cCopyNew (memOf A) A.ncols
      A.width A.hb cAddmulM4rm cCopy rsA rsC cAdd (cSqrEven fuel) (cMulEven fuel) (cAddsqrEven fuel)
      (cAddmulEven fuel)
    = memOf (C.putB (C.toB.add (A.toB.mul A.toB))) := by
  rw [strassenAddsqrEven_step fuel cutoff rsA rsC fA fC C A hC hA hsq hr hc]
  have e : addsqrEven (fuel + 1) C.toB A.toB cutoff = C.toB.add (A.toB.mul A.toB) :=
    (addAllP (fuel + 1)).2 cutoff (r := A.nrows) ⟨Mzd.WF_toB hC, hr, hc⟩ ⟨Mzd.WF_toB hA, rfl, hsq⟩
  rw [e]

/-- non-vacuity of the hypotheses of `strassenAddmulEven_split` (one level at cutoff 64, all three strips) -/
example : ∃ C A B : Mzd, C.WF ∧ A.WF ∧ B.WF ∧ A.ncols = B.nrows ∧ C.nrows = A.nrows ∧ C.ncols = B.ncols ∧
    ¬ (C.nrows = 0 ∨ C.ncols = 0) ∧
    ¬ (BMat.closer A.nrows 64 = true ∨ BMat.closer A.ncols 64 = true ∨ BMat.closer B.ncols 64 = true) :=
  ⟨Mzd.zero 130 200, Mzd.zero 130 150, Mzd.zero 150 200, zero_WF _ _, zero_WF _ _, zero_WF _ _, rfl, rfl, rfl,
    by decide, by decide⟩

/-- non-vacuity of the hypotheses of `strassenSqrEven_split` / `strassenAddsqrEven_split` (one level at cutoff 64
    with the remainder strips) -/
example : ∃ C A : Mzd, C.WF ∧ A.WF ∧ A.ncols = A.nrows ∧ C.nrows = A.nrows ∧ C.ncols = A.nrows ∧ ¬ C.nrows = 0 ∧
    ¬ BMat.closer A.nrows 64 = true ∧ A.nrows > 2 * halfSplit A.nrows (strassenMult (A.nrows / 2) 64) :=
  ⟨Mzd.zero 130 130, Mzd.zero 130 130, zero_WF _ _, zero_WF _ _, rfl, rfl, rfl, by decide, by decide, by decide⟩

end M4ri.GenTieStrassen2

#print axioms M4ri.GenTieStrassen2.strassenAddmulEven_step
#print axioms M4ri.GenTieStrassen2.strassenSqrEven_step
#print axioms M4ri.GenTieStrassen2.strassenAddsqrEven_step
#print axioms M4ri.GenTieStrassen2.strassenAddmulEven_step_add
#print axioms M4ri.GenTieStrassen2.strassenSqrEven_step_mul
#print axioms M4ri.GenTieStrassen2.strassenAddsqrEven_step_add
