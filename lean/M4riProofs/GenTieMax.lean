/-
  GenTieMax: END-TO-END THEOREMS WITH AS MANY CALLEES AS POSSIBLE BOUND TO GENERATED CODE AT THE SAME TIME.

  §1  `genAddmulG hd k …` := the generated public `mzd_addmul` (`Gen.C.mzdAddmul`) with its `_mzd_add` parameter := the
      GENERATED `_mzd_add` (`genAdd`) and its four Strassen parameters := `cStrassenG hd k` (the closed Strassen
      recursion over the generated `_mzd_add`, GenTieClose5); `genAddmulG_sim : Sim3 cutoff (genAddmulG …) addmulM`
  §2  `cPleMax` := the whole generated `_mzd_ple` closed over `genAddmulG` (products and the closed generated
      `_mzd_trsm_lower_left`); `cPleMax_spec`, `cPleMax_correct`, `cPleMax_agree`
  §3  `cPluqMax` := the generated `_mzd_pluq` over `cPleMax` and the GENERATED `mzd_apply_p_right_trans_tri`
      (`genTri`, over the generated `mzd_col_swap_in_rows`); `cPluqMax_agree`, `c_pluq_max`
  §4  `cSolveMax` (generated `_mzd_pluq_solve_left` over the closed generated `_mzd_trsm_lower_left` /
      `_mzd_trsm_upper_left` over `genAddmulG` and with `mzd_addmul := genAddmulG`), `c_solve_left_max`,
      `c_kernel_max`, `c_echelonize_pluq_max`
  Core Lean tactics only.
-/
import M4riProofs.GenTieClose5
import M4riProofs.GenTieClose6
import M4riProofs.GenTieTop2Final
set_option linter.unusedVariables false
namespace M4ri.GenTieMax
open M4ri M4ri.Gen M4ri.GenTieMem M4ri.GenTieView M4ri.BMat M4ri.GenTieAlg M4ri.GenTieRec M4ri.GenTieClose
  M4ri.GenTieClose2 M4ri.GenTieClose3 M4ri.GenTieClose4 M4ri.GenTieClose5 M4ri.GenTieClose6 M4ri.GenTieMul
  M4ri.GenTieStrassen M4ri.GenTieStrassen2 M4ri.GenTieGlue M4ri.GenTiePle M4ri.GenTieTab M4ri.GenTieTri
  M4ri.GenTieTop M4ri.GenTieTop2 M4ri.BMat.PN

/-! ### 1. the generated product over the Strassen recursion over the generated `_mzd_add` -/

/-- **`mzd_addmul(C, A, B, cutoff)` as a callee: THE GENERATED `Gen.C.mzdAddmul`**, its `_mzd_add` parameter THE
    GENERATED `_mzd_add` (`genAdd`), its four Strassen parameters the closed recursion `cStrassenG hd k` over the
    generated `_mzd_add` (depth `k`); arbitrary flags and row strides; the `A == B` flag is `false` -/
def genAddmulG (hd : Hdr) (k : Nat) (rsA rsB rsC : Int) (fA fB fC : BitVec 8) : Fn3 :=
  fun C A B cutoff =>
    Gen.C.mzdAddmul cutoff C.mem A.ncols B.nrows A.nrows B.ncols false C.nrows fA fC C.ncols C.width C.hb cCopyNew
      A.mem A.width A.hb cAddmulM4rm cCopy rsA rsC genAdd (cStrassenG hd k).sqr (cStrassenG hd k).mul
      (cStrassenG hd k).addsqr (cStrassenG hd k).addmul fB B.mem B.width B.hb rsB

/-- **the generated product over the generated `_mzd_add` on canonical records of conforming shapes over ARBITRARY
    memories**: it agrees with the lifted `C + A·B` on the rows and words of `C` — every `int` cut-off, every depth,
    flags, strides; the early return included -/
theorem genAddmulG_sim (hd : Hdr) (d : Nat) (rsA rsB rsC : Int) (fA fB fC : BitVec 8) (cutoff : Int) :
    Sim3 cutoff (genAddmulG hd d rsA rsB rsC fA fB fC) addmulM := by
  intro m k n c a b
  have hE : addmulM (canon c m n) (canon a m k) (canon b k n) cutoff
      = memOf ((rawM c m n).putB ((rawM c m n).toB.add ((rawM a m k).toB.mul (rawM b k n).toB))) := rfl
  rw [hE]
  show AgreeOn m ((n + 63) / 64)
    (Gen.C.mzdAddmul cutoff c (k : Int) (k : Int) (m : Int) (n : Int) false (m : Int) fA fC (n : Int)
      (((n + 63) / 64 : Nat) : Int) (leftMask (n % 64)) cCopyNew a (((k + 63) / 64 : Nat) : Int) (leftMask (k % 64))
      cAddmulM4rm cCopy rsA rsC genAdd (cStrassenG hd d).sqr (cStrassenG hd d).mul (cStrassenG hd d).addsqr
      (cStrassenG hd d).addmul fB b (((n + 63) / 64 : Nat) : Int) (leftMask (n % 64)) rsB) _
  rw [mzdAddmul_unfold]
  by_cases h0 : m = 0 ∨ k = 0 ∨ n = 0
  · rw [if_pos (by omega), putB_add_mul_degenerate (rawM c m n) (rawM a m k) (rawM b k n) (rawM_WF _ _ _)
      (rawM_WF _ _ _) (rawM_WF _ _ _) (by simp) (by simp) (by simp) (by simpa using h0)]
    exact agree_rawM c m n
  · rw [if_neg (by omega)]
    obtain ⟨cn, hcn⟩ := cutoffNormI_isNat cutoff
    rw [hcn]
    unfold Gen.C.mzdAddmulDispatch
    simp only [Bool.false_eq_true, if_false]
    refine (strassenAddmulEven_step_viewA d cn rsA rsB rsC fA fB fC genAdd RelA.gen _ _
      (cStrassenA_raw genAdd RelA.gen hd cn d).1 (cStrassenA_raw genAdd RelA.gen hd cn d).2.1 m k n c a b).trans ?_
    rw [cAddmulEven_nat]
    have e : addmulEven (d + 1) (rawM c m n).toB (rawM a m k).toB (rawM b k n).toB cn
        = (rawM c m n).toB.add ((rawM a m k).toB.mul (rawM b k n).toB) :=
      (addAllP (d + 1)).1 cn (r := m) (k := k) (c := n) ⟨Mzd.WF_toB (rawM_WF _ _ _), by simp, by simp⟩
        ⟨Mzd.WF_toB (rawM_WF _ _ _), by simp, by simp⟩ ⟨Mzd.WF_toB (rawM_WF _ _ _), by simp, by simp⟩
    show AgreeOn m ((n + 63) / 64)
      (memOf ((rawM c m n).putB (addmulEven (d + 1) (rawM c m n).toB (rawM a m k).toB (rawM b k n).toB cn))) _
    rw [e]
    exact AgreeOn.refl _ _ _

/-- … hence related to it: over memories that agree on the regions of the records -/
theorem genAddmulG_rel (hd : Hdr) (d : Nat) (rsA rsB rsC : Int) (fA fB fC : BitVec 8) (cutoff : Int) :
    Rel3 cutoff (genAddmulG hd d rsA rsB rsC fA fB fC) addmulM :=
  sim3_toRel (genAddmulG_sim hd d rsA rsB rsC fA fB fC cutoff)

/-! ### 2. the whole generated `_mzd_ple` over it -/

section Ple

/-- **`_mzd_ple` — THE WHOLE GENERATED FUNCTION bound to itself `n` levels deep; `mzd_addmul` := the generated
    `mzd_addmul` over the Strassen recursion over the generated `_mzd_add` (`genAddmulG`), in `_mzd_ple` itself and in
    the closed generated `_mzd_trsm_lower_left` (depth `mt`) -/
abbrev cPleMax (hd : Hdr) (d : Nat) (rsA rsB rsC : Int) (fA fB fC : BitVec 8) (base : BMat → Rec.Out)
    (baseRows : Nat) (rs : Int) (mt : Nat) : Nat → PleFn :=
  cPleFullWith (genAddmulG hd d rsA rsB rsC fA fB fC) base baseRows rs mt

theorem cPleMax_succ (hd : Hdr) (d : Nat) (rsA rsB rsC : Int) (fA fB fC : BitVec 8) (base : BMat → Rec.Out)
    (baseRows : Nat) (rs : Int) (mt n : Nat) (V : CLoop.MView) (P Q : Int → Int) (c : Int) :
    cPleMax hd d rsA rsB rsC fA fB fC base baseRows rs mt (n + 1) V P Q c
      = unord (Gen.C.pleFull c P Q V.mem V.ncols V.width V.nrows V.hb liftCopyNew (liftPle base) GenTieEch.liftCopy rs
          (cPleMax hd d rsA rsB rsC fA fB fC base baseRows rs mt n) llRuss
          (cTrsmLL llRuss (genAddmulG hd d rsA rsB rsC fA fB fC) rs rs mt) (genAddmulG hd d rsA rsB rsC fA fB fC)
          liftCompress) := rfl

/-- on canonical records of arbitrary memories it cannot be told apart from `cPleFull` -/
theorem cPleMax_agree (hd : Hdr) (d : Nat) (rsA rsB rsC : Int) (fA fB fC : BitVec 8) (base : BMat → Rec.Out)
    (hbase : Rec.GoodBase base) (baseRows : Nat) (rs : Int) (mt n : Nat) (cutoff : Int) (r c : Nat) (mem : Mem)
    (P Q : Int → Int) (hc : 1 ≤ c) :
    PleAgree r c
      (cPleMax hd d rsA rsB rsC fA fB fC base baseRows rs mt n
        ⟨mem, (r : Int), (c : Int), (((c + 63) / 64 : Nat) : Int), leftMask (c % 64)⟩ P Q cutoff)
      (cPleFull base baseRows rs mt n
        ⟨mem, (r : Int), (c : Int), (((c + 63) / 64 : Nat) : Int), leftMask (c % 64)⟩ P Q cutoff) :=
  cPleFullWith_agree _ (genAddmulG_sim hd d rsA rsB rsC fA fB fC) base hbase baseRows rs mt n cutoff r c mem P Q hc

/-- on a whole matrix: the model recursion -/
theorem cPleMax_correct (hd : Hdr) (d : Nat) (rsA rsB rsC : Int) (fA fB fC : BitVec 8) (base : BMat → Rec.Out)
    (hbase : Rec.GoodBase base) (baseRows : Nat) (rs : Int)
    (mt n : Nat) (cutoff : Int) (A : Mzd) (hA : A.WF) (hc : 1 ≤ A.ncols) (P Q : Int → Int) :
    (cPleMax hd d rsA rsB rsC fA fB fC base baseRows rs mt n (CLoop.MView.of A) P Q cutoff).1
        = (((Rec.pleRec base 64 524288 baseRows n A.toB).2.2.2 : Nat) : Int) ∧
    (cPleMax hd d rsA rsB rsC fA fB fC base baseRows rs mt n (CLoop.MView.of A) P Q cutoff).2.1
        = memOf (A.putB (Rec.pleRec base 64 524288 baseRows n A.toB).1) ∧
    (∀ i : Int, 0 ≤ i → i < A.nrows →
      (cPleMax hd d rsA rsB rsC fA fB fC base baseRows rs mt n (CLoop.MView.of A) P Q cutoff).2.2.1 i
        = arrOf (Rec.pleRec base 64 524288 baseRows n A.toB).2.1 i) ∧
    (∀ i : Int, 0 ≤ i → i < A.ncols →
      (cPleMax hd d rsA rsB rsC fA fB fC base baseRows rs mt n (CLoop.MView.of A) P Q cutoff).2.2.2 i
        = arrOf (Rec.pleRec base 64 524288 baseRows n A.toB).2.2.1 i) :=
  cPleFullWith_correct _ (genAddmulG_sim hd d rsA rsB rsC fA fB fC) base hbase baseRows rs mt n cutoff A hA hc P Q

/-- **`_mzd_ple` over the generated product over the generated `_mzd_add` leaves a good PLE certificate of `A`**, for
    every depth of the closed recursions (`n`: `_mzd_ple`, `mt`: `_mzd_trsm_lower_left`, `d`: Strassen), every cut-off,
    flags, strides -/
theorem cPleMax_spec (hd : Hdr) (d : Nat) (rsA rsB rsC : Int) (fA fB fC : BitVec 8) (base : BMat → Rec.Out)
    (hbase : Rec.GoodBase base) (baseRows : Nat) (rs : Int)
    (mt n : Nat) (cutoff : Int) (A : Mzd) (hA : A.WF) (hc : 1 ≤ A.ncols) (P Q : Int → Int) :
    ∃ o : Rec.Out, Rec.GoodOut A.toB o ∧
      (cPleMax hd d rsA rsB rsC fA fB fC base baseRows rs mt n (CLoop.MView.of A) P Q cutoff).1
        = ((o.2.2.2 : Nat) : Int) ∧
      (cPleMax hd d rsA rsB rsC fA fB fC base baseRows rs mt n (CLoop.MView.of A) P Q cutoff).2.1
        = memOf (A.putB o.1) ∧
      (∀ i : Int, 0 ≤ i → i < A.nrows →
        (cPleMax hd d rsA rsB rsC fA fB fC base baseRows rs mt n (CLoop.MView.of A) P Q cutoff).2.2.1 i
          = arrOf o.2.1 i) ∧
      (∀ i : Int, 0 ≤ i → i < A.ncols →
        (cPleMax hd d rsA rsB rsC fA fB fC base baseRows rs mt n (CLoop.MView.of A) P Q cutoff).2.2.2 i
          = arrOf o.2.2.1 i) :=
  cPleFullWith_spec _ (genAddmulG_sim hd d rsA rsB rsC fA fB fC) base hbase baseRows rs mt n cutoff A hA hc P Q

end Ple

/-! ### 3. `_mzd_pluq` over `cPleMax` and the generated `mzd_apply_p_right_trans_tri` -/

/-- **the generated `_mzd_pluq` in its callee `mzd_apply_p_right_trans_tri`**: for ANY `_mzd_ple` callee `f` that
    returns, on the whole matrix `A`, the rank and the storage of the model recursion and its permutations on their
    ranges, the generated `mzd_apply_p_right_trans_tri` (`genTri rs`) and the lifted one (`liftTri`) give the same
    result (both branches of `_mzd_pluq`: whole matrix / window of the first `r` rows) -/
theorem pluqFromPle_genTri (h : ColSwapTie) (f : PleFn) (base : BMat → Rec.Out) (hbase : Rec.GoodBase base)
    (hbx : ∀ A : BMat, A.WF → G2.Extra A (base A)) (baseRows : Nat) (rs : Int) (n : Nat) (cutoff : Int)
    (A : Mzd) (hA : A.WF) (hc : 1 ≤ A.ncols) (p q : Int → Int)
    (c1 : (f ⟨memOf A, (A.nrows : Int), (A.ncols : Int), (A.width : Int), A.hb⟩ p q cutoff).1
        = (((Rec.pleRec base 64 524288 baseRows n A.toB).2.2.2 : Nat) : Int))
    (c2 : (f ⟨memOf A, (A.nrows : Int), (A.ncols : Int), (A.width : Int), A.hb⟩ p q cutoff).2.1
        = memOf (A.putB (Rec.pleRec base 64 524288 baseRows n A.toB).1))
    (c3 : ∀ i : Int, 0 ≤ i → i < A.nrows →
      (f ⟨memOf A, (A.nrows : Int), (A.ncols : Int), (A.width : Int), A.hb⟩ p q cutoff).2.2.1 i
        = arrOf (Rec.pleRec base 64 524288 baseRows n A.toB).2.1 i)
    (c4 : ∀ i : Int, 0 ≤ i → i < A.ncols →
      (f ⟨memOf A, (A.nrows : Int), (A.ncols : Int), (A.width : Int), A.hb⟩ p q cutoff).2.2.2 i
        = arrOf (Rec.pleRec base 64 524288 baseRows n A.toB).2.2.1 i) :
    Gen.C.pluqFromPle cutoff (memOf A) p q A.nrows A.ncols A.width A.hb f rs (genTri rs)
      = Gen.C.pluqFromPle cutoff (memOf A) p q A.nrows A.ncols A.width A.hb f rs liftTri := by
  have hple : G2.GoodPle (Rec.pleRec base 64 524288 baseRows n) := G2.goodPle_pleRec hbase hbx 64 524288 baseRows n
  obtain ⟨hS, hP, hQs, hQ, hr1, hr2⟩ := goodPle_facts hple (Mzd.WF_toB hA)
  rw [Mzd.nrows_toB] at hS hP hr1
  rw [Mzd.ncols_toB] at hS hQs hQ hr2
  unfold Gen.C.pluqFromPle
  dsimp_m
  generalize f ⟨memOf A, (A.nrows : Int), (A.ncols : Int), (A.width : Int), A.hb⟩ p q cutoff = o at c1 c2 c3 c4 ⊢
  obtain ⟨r, m1, P1, Q1⟩ := o
  dsimp only at c1 c2 c3 c4
  subst c1 c2
  generalize Rec.pleRec base 64 524288 baseRows n A.toB = o at hS hP hQs hQ hr1 hr2 c3 c4
  obtain ⟨S, P, Q, r⟩ := o
  dsimp_m at hS hP hQs hQ hr1 hr2 c3 c4 ⊢
  obtain ⟨M1W, M1B, M1r, M1c⟩ := putB_state hA hS.wf hS.nr hS.nc
  have hq1 : ∀ i : Nat, i < (A.putB S).ncols → 0 ≤ Q1 (i : Int) ∧ Q1 (i : Int) < ((A.putB S).ncols : Int) := by
    intro i hi
    rw [M1c] at hi ⊢
    rw [c4 i (by omega) (by omega)]
    unfold arrOf
    rw [Int.toNat_natCast]
    have := hQ i hi
    omega
  congr 2
  by_cases c : 0 < r ∧ r < A.nrows
  · have hcond : (decide ((r : Int) ≠ 0) && decide ((r : Int) < (A.nrows : Int))) = true := by simp; omega
    rw [if_pos hcond, if_pos hcond]
    rw [mzdInitWindow_in 0 0 r A.ncols A.nrows rs 0 0 r A.ncols A.nrows rfl rfl rfl rfl rfl rfl (by omega) (by omega)
      (by omega)]
    dsimp_m
    have hw := genTri_window h (A.putB S) M1W Q1 rs r (by rw [M1r]; omega) hq1
    rw [M1c] at hw
    exact unview_congr _ _ _ _ _ hw
  · have hcond : ¬ (decide ((r : Int) ≠ 0) && decide ((r : Int) < (A.nrows : Int))) = true := by simp; omega
    rw [if_neg hcond, if_neg hcond]
    unfold genTri
    dsimp_m
    have h1 := mzdApplyPRightTransTri_liftTri h (A.putB S) Q1 rs M1W hq1
    simp only [Mzd.nrows_putB, Mzd.ncols_putB, Mzd.width_putB, Mzd.hb_putB] at h1
    exact h1

/-- **the C function `_mzd_pluq` as generated text, EVERY TRANSLATED CALLEE GENERATED**: `_mzd_ple := cPleMax` (the
    whole generated `_mzd_ple` at depth `n`; its products the generated `mzd_addmul` over the Strassen recursion (depth
    `d`) over the generated `_mzd_add`; its TRSM the closed generated `_mzd_trsm_lower_left` (depth `mt`) over the same
    product), `mzd_apply_p_right_trans_tri := genTri rs` (generated, over the generated `mzd_col_swap_in_rows`) -/
def cPluqMax (hd : Hdr) (d : Nat) (rsA rsB rsC : Int) (fA fB fC : BitVec 8) (base : BMat → Rec.Out)
    (baseRows : Nat) (rs : Int) (mt n : Nat) : PleFn := fun V p q c =>
  Gen.C.pluqFromPle c V.mem p q V.nrows V.ncols V.width V.hb
    (cPleMax hd d rsA rsB rsC fA fB fC base baseRows rs mt n) rs (genTri rs)

/-- **`cPluqMax` cannot be told apart by a caller from the lifted model** `G2.pluqOfPle (pleRec base 64 524288
    baseRows n)`, on every whole matrix with at least one column, whatever the permutation memories contain on entry -/
theorem cPluqMax_agree (hd : Hdr) (d : Nat) (rsA rsB rsC : Int) (fA fB fC : BitVec 8) (base : BMat → Rec.Out)
    (hbase : Rec.GoodBase base) (hbx : ∀ A : BMat, A.WF → G2.Extra A (base A)) (baseRows : Nat) (rs : Int)
    (mt n : Nat) (cutoff : Int) (A : Mzd) (hA : A.WF) (hc : 1 ≤ A.ncols) (p q : Int → Int) :
    CallAgree (A.nrows : Int) (A.ncols : Int)
      (cPluqMax hd d rsA rsB rsC fA fB fC base baseRows rs mt n
        ⟨memOf A, (A.nrows : Int), (A.ncols : Int), (A.width : Int), A.hb⟩ p q cutoff)
      (liftPle (pluqM base baseRows n) ⟨memOf A, (A.nrows : Int), (A.ncols : Int), (A.width : Int), A.hb⟩ p q
        cutoff) := by
  have hple : G2.GoodPle (pleM base baseRows n) := G2.goodPle_pleRec hbase hbx 64 524288 baseRows n
  obtain ⟨hS, hP, hQs, hQ, hr1, hr2⟩ := goodPle_facts hple (Mzd.WF_toB hA)
  obtain ⟨c1, c2, c3, c4⟩ := cPleMax_correct hd d rsA rsB rsC fA fB fC base hbase baseRows rs mt n cutoff A hA hc p q
  unfold CLoop.MView.of at c1 c2 c3 c4
  have e1 : liftPle (pluqM base baseRows n) ⟨memOf A, (A.nrows : Int), (A.ncols : Int), (A.width : Int), A.hb⟩ p q
        cutoff
      = Gen.C.pluqFromPle cutoff (memOf A) p q A.nrows A.ncols A.width A.hb (liftPle (pleM base baseRows n)) rs
          liftTri := by
    rw [pluqFromPle_eq _ cutoff rs A hA p q hS hQ, liftPle_whole _ A hA]
  rw [e1]
  unfold cPluqMax
  dsimp only
  rw [pluqFromPle_genTri GenTieTriFinal.colSwapTie _ base hbase hbx baseRows rs n cutoff A hA hc p q c1 c2 c3 c4]
  apply pluqFromPle_congr
  rw [liftPle_whole _ A hA]
  exact ⟨c1, c2, c3, c4⟩

/-- **C03 ON THE GENERATED TEXT, ALL TRANSLATED CALLEES GENERATED** — `cPluqMax` returns the rank and leaves in `A` the
    storage, in `P[0, nrows)`, `Q[0, ncols)` the permutations of the model factorisation
    `G2.pluqOfPle (pleRec base 64 524288 baseRows n) A`, which is a valid (rank-profile revealing) PLUQ factorisation
    of `A` in well-formed storage, accepted by `checkPLUQ`, with `r = rank A` -/
theorem c_pluq_max (hd : Hdr) (d : Nat) (rsA rsB rsC : Int) (fA fB fC : BitVec 8) (base : BMat → Rec.Out)
    (hbase : Rec.GoodBase base) (hbx : ∀ A : BMat, A.WF → G2.Extra A (base A)) (baseRows : Nat) (rs : Int)
    (mt n : Nat) (cutoff : Int) (A : Mzd) (hA : A.WF) (hc : 1 ≤ A.ncols) (p q : Int → Int) :
    (cPluqMax hd d rsA rsB rsC fA fB fC base baseRows rs mt n (CLoop.MView.of A) p q cutoff).1
        = (((G2.pluqOfPle (Rec.pleRec base 64 524288 baseRows n) A.toB).2.2.2 : Nat) : Int) ∧
    (cPluqMax hd d rsA rsB rsC fA fB fC base baseRows rs mt n (CLoop.MView.of A) p q cutoff).2.1
        = memOf (A.putB (G2.pluqOfPle (Rec.pleRec base 64 524288 baseRows n) A.toB).1) ∧
    (∀ i : Int, 0 ≤ i → i < A.nrows →
      (cPluqMax hd d rsA rsB rsC fA fB fC base baseRows rs mt n (CLoop.MView.of A) p q cutoff).2.2.1 i
        = arrOf (G2.pluqOfPle (Rec.pleRec base 64 524288 baseRows n) A.toB).2.1 i) ∧
    (∀ i : Int, 0 ≤ i → i < A.ncols →
      (cPluqMax hd d rsA rsB rsC fA fB fC base baseRows rs mt n (CLoop.MView.of A) p q cutoff).2.2.2 i
        = arrOf (G2.pluqOfPle (Rec.pleRec base 64 524288 baseRows n) A.toB).2.2.1 i) ∧
    (G2.pluqOfPle (Rec.pleRec base 64 524288 baseRows n) A.toB).1.WF ∧
    IsProfilePLUQ A.toB (G2.pluqOfPle (Rec.pleRec base 64 524288 baseRows n) A.toB).1
      (G2.pluqOfPle (Rec.pleRec base 64 524288 baseRows n) A.toB).2.1
      (G2.pluqOfPle (Rec.pleRec base 64 524288 baseRows n) A.toB).2.2.1
      (G2.pluqOfPle (Rec.pleRec base 64 524288 baseRows n) A.toB).2.2.2 ∧
    IsPLUQ A.toB (G2.pluqOfPle (Rec.pleRec base 64 524288 baseRows n) A.toB).1
      (G2.pluqOfPle (Rec.pleRec base 64 524288 baseRows n) A.toB).2.1
      (G2.pluqOfPle (Rec.pleRec base 64 524288 baseRows n) A.toB).2.2.1
      (G2.pluqOfPle (Rec.pleRec base 64 524288 baseRows n) A.toB).2.2.2 ∧
    checkPLUQ A.toB (G2.pluqOfPle (Rec.pleRec base 64 524288 baseRows n) A.toB).1
      (G2.pluqOfPle (Rec.pleRec base 64 524288 baseRows n) A.toB).2.1
      (G2.pluqOfPle (Rec.pleRec base 64 524288 baseRows n) A.toB).2.2.1
      (G2.pluqOfPle (Rec.pleRec base 64 524288 baseRows n) A.toB).2.2.2 = true ∧
    (G2.pluqOfPle (Rec.pleRec base 64 524288 baseRows n) A.toB).2.2.2 = A.toB.rank := by
  have hple : G2.GoodPle (pleM base baseRows n) := G2.goodPle_pleRec hbase hbx 64 524288 baseRows n
  obtain ⟨hS, h, hQt⟩ := hple A.toB (Mzd.WF_toB hA)
  obtain ⟨hp, hw⟩ := G2.pluqOfPle_profile hS h hQt
  obtain ⟨c1, c2, c3, c4⟩ := cPluqMax_agree hd d rsA rsB rsC fA fB fC base hbase hbx baseRows rs mt n cutoff A hA hc
    p q
  rw [liftPle_whole _ A hA] at c1 c2 c3 c4
  have hck := checkPLUQ_complete hp.pluq
  exact ⟨c1, c2, c3, c4, hw, hp, hp.pluq, hck, GOK.pluq_rank (Mzd.WF_toB hA) hck⟩

/-! ### 4. the routines above `_mzd_pluq` -/

/-- the closed generated `_mzd_trsm_lower_left` over ANY product callee `G` that cannot be told apart from `addmulM`
    (any depth) on canonical records of ARBITRARY memories, written back through `unview` = the lifted substitution
    form -/
theorem unview_cTrsmLL_gen (G : Fn3) (HG : ∀ c, Sim3 c G addmulM) (rsB rsL : Int) (n mb nb : Nat) (hc : 1 ≤ nb)
    (m mL mB : Mem) (r0 w0 cutoff : Int) :
    CLoop.unview m r0 w0 (mb : Int) (((nb + 63) / 64 : Nat) : Int)
        (cTrsmLL llRuss G rsB rsL n
          ⟨mL, (mb : Int), (mb : Int), (((mb + 63) / 64 : Nat) : Int), leftMask (mb % 64)⟩
          ⟨mB, (mb : Int), (nb : Int), (((nb + 63) / 64 : Nat) : Int), leftMask (nb % 64)⟩ cutoff)
      = CLoop.unview m r0 w0 (mb : Int) (((nb + 63) / 64 : Nat) : Int)
        (liftM2 trsmLowerLeft
          ⟨mL, (mb : Int), (mb : Int), (((mb + 63) / 64 : Nat) : Int), leftMask (mb % 64)⟩
          ⟨mB, (mb : Int), (nb : Int), (((nb + 63) / 64 : Nat) : Int), leftMask (nb % 64)⟩) :=
  (unview_congr _ _ _ _ _ (cTrsmLL_gen_raw G HG rsB rsL n cutoff mb nb mL mB)).trans
    (unview_cTrsmLL rsB rsL n mb nb hc m mL mB r0 w0 cutoff)

/-- … and the same for the closed generated `_mzd_trsm_upper_left` over `G` -/
theorem unview_cTrsmUL_gen (G : Fn3) (HG : ∀ c, Sim3 c G addmulM) (rsB rsU : Int) (n mb nb : Nat) (hc : 1 ≤ nb)
    (m mU mB : Mem) (r0 w0 cutoff : Int) :
    CLoop.unview m r0 w0 (mb : Int) (((nb + 63) / 64 : Nat) : Int)
        (cTrsmUL ulRuss G rsB rsU n
          ⟨mU, (mb : Int), (mb : Int), (((mb + 63) / 64 : Nat) : Int), leftMask (mb % 64)⟩
          ⟨mB, (mb : Int), (nb : Int), (((nb + 63) / 64 : Nat) : Int), leftMask (nb % 64)⟩ cutoff)
      = CLoop.unview m r0 w0 (mb : Int) (((nb + 63) / 64 : Nat) : Int)
        (liftM2 trsmUpperLeft
          ⟨mU, (mb : Int), (mb : Int), (((mb + 63) / 64 : Nat) : Int), leftMask (mb % 64)⟩
          ⟨mB, (mb : Int), (nb : Int), (((nb + 63) / 64 : Nat) : Int), leftMask (nb % 64)⟩) :=
  (unview_congr _ _ _ _ _ (cTrsmUL_gen_raw G HG rsB rsU n cutoff mb nb mU mB)).trans
    (unview_cTrsmUL rsB rsU n mb nb hc m mU mB r0 w0 cutoff)

/-- a product callee that cannot be told apart from `addmulM`, on canonical records of conforming shapes over ARBITRARY
    memories, written back through `unview` = the lifted `C + A·B` -/
theorem unview_sim3 {cutoff : Int} {G : Fn3} (H : Sim3 cutoff G addmulM) (mm k nn : Nat) (m c a b : Mem)
    (r0 w0 : Int) :
    CLoop.unview m r0 w0 (mm : Int) (((nn + 63) / 64 : Nat) : Int)
        (G ⟨c, (mm : Int), (nn : Int), (((nn + 63) / 64 : Nat) : Int), leftMask (nn % 64)⟩
          ⟨a, (mm : Int), (k : Int), (((k + 63) / 64 : Nat) : Int), leftMask (k % 64)⟩
          ⟨b, (k : Int), (nn : Int), (((nn + 63) / 64 : Nat) : Int), leftMask (nn % 64)⟩ cutoff)
      = CLoop.unview m r0 w0 (mm : Int) (((nn + 63) / 64 : Nat) : Int)
        (liftM3 (fun C A B => C.add (A.mul B))
          ⟨c, (mm : Int), (nn : Int), (((nn + 63) / 64 : Nat) : Int), leftMask (nn % 64)⟩
          ⟨a, (mm : Int), (k : Int), (((k + 63) / 64 : Nat) : Int), leftMask (k % 64)⟩
          ⟨b, (k : Int), (nn : Int), (((nn + 63) / 64 : Nat) : Int), leftMask (nn % 64)⟩) :=
  unview_congr _ _ _ _ _ (H mm k nn c a b)

/-- **the generated `_mzd_pluq_solve_left` with its two triangular solves bound to the CLOSED generated recursions over
    a product callee `G`, and its own callee `mzd_addmul` bound to a product callee `G2`** (neither can be told apart
    from `addmulM`) returns what it returns with the lifted substitution forms and the lifted `C + A·B`.  Arbitrary
    memories and permutations; `rank ≤ A.nrows ≤ B.nrows`, `1 ≤ B.ncols`. -/
theorem pluqSolveLeft_closedG (G G2 : Fn3) (HG : ∀ c, Sim3 c G addmulM) (rank Anr Bnr Bnc : Nat) (cutoff check : Int)
    (HG2 : Sim3 cutoff G2 addmulM)
    (mA mB : Mem) (Plen Qlen : Int) (p q : Int → Int) (Bw : Int) (Bhb : BitVec 64) (rsA rsB : Int) (mtL mtU : Nat)
    (hr1 : rank ≤ Anr) (hAB : Anr ≤ Bnr) (hBc : 1 ≤ Bnc) :
    Gen.C.pluqSolveLeft rank cutoff check mB Bnc Plen Bnr p Bw Bhb Anr rsA rsB mA
        (cTrsmLL llRuss G rsB rsA mtL) G2 (cTrsmUL ulRuss G rsB rsA mtU) Qlen q
      = Gen.C.pluqSolveLeft rank cutoff check mB Bnc Plen Bnr p Bw Bhb Anr rsA rsB mA
        (fun L Y _ => liftM2 trsmLowerLeft L Y) (fun C H Y _ => liftM3 (fun C A B => C.add (A.mul B)) C H Y)
        (fun U Y _ => liftM2 trsmUpperLeft U Y) Qlen q := by
  unfold Gen.C.pluqSolveLeft
  rw [mzdInitWindow_in 0 0 rank rank Anr rsA 0 0 rank rank Anr rfl rfl rfl rfl rfl (by omega) (by omega)
      (by omega) hr1,
    mzdInitWindow_in 0 0 rank Bnc Bnr rsB 0 0 rank Bnc Bnr rfl rfl rfl rfl rfl (by omega) (by omega)
      (by omega) (by omega),
    mzdInitWindow_in rank 0 Anr rank Anr rsA rank 0 Anr rank Anr rfl rfl rfl rfl rfl (by omega) hr1
      (by omega) (by omega),
    mzdInitWindow_in rank 0 Anr Bnc Bnr rsB rank 0 Anr Bnc Bnr rfl rfl rfl rfl rfl (by omega) hr1
      (by omega) hAB]
  dsimp_m
  simp only [unview_cTrsmLL_gen G HG rsB rsA mtL (rank - 0) (Bnc - 0) (by omega),
    unview_cTrsmUL_gen G HG rsB rsA mtU (rank - 0) (Bnc - 0) (by omega),
    unview_sim3 HG2 (Anr - rank) (rank - 0) (Bnc - 0)]

/-- **`_mzd_pluq_solve_left` as generated text, EVERY TRANSLATED CALLEE GENERATED**: `mzd_trsm_lower_left` /
    `mzd_trsm_upper_left` := the CLOSED generated `_mzd_trsm_lower_left` / `_mzd_trsm_upper_left` (depths `mtL`, `mtU`)
    over the generated `mzd_addmul` (`genAddmulG`: over the Strassen recursion over the generated `_mzd_add`), and
    `mzd_addmul := genAddmulG` too; as a callee of `_mzd_solve_left` -/
def cSolveMax (hd : Hdr) (d : Nat) (sA sB sC : Int) (fA fB fC : BitVec 8) (rsA rsB : Int) (mtL mtU : Nat) : SolveFn :=
  fun VA rank p q VB cutoff check =>
    Gen.C.pluqSolveLeft rank cutoff check VB.mem VB.ncols VA.nrows VB.nrows p VB.width VB.hb VA.nrows rsA rsB VA.mem
      (cTrsmLL llRuss (genAddmulG hd d sA sB sC fA fB fC) rsB rsA mtL) (genAddmulG hd d sA sB sC fA fB fC)
      (cTrsmUL ulRuss (genAddmulG hd d sA sB sC fA fB fC) rsB rsA mtU) VA.ncols q

theorem cSolveMax_eq_cSolve (hd : Hdr) (d : Nat) (sA sB sC : Int) (fA fB fC : BitVec 8) (rsA rsB : Int)
    (mtL mtU rank Anr Bnr Bnc : Nat) (mA mB : Mem) (Anc Aw Bw : Int)
    (Ahb Bhb : BitVec 64) (p q : Int → Int) (cutoff check : Int) (hr1 : rank ≤ Anr) (hAB : Anr ≤ Bnr)
    (hBc : 1 ≤ Bnc) :
    cSolveMax hd d sA sB sC fA fB fC rsA rsB mtL mtU ⟨mA, (Anr : Int), Anc, Aw, Ahb⟩ (rank : Int) p q
        ⟨mB, (Bnr : Int), (Bnc : Int), Bw, Bhb⟩ cutoff check
      = cSolve rsA rsB ⟨mA, (Anr : Int), Anc, Aw, Ahb⟩ (rank : Int) p q ⟨mB, (Bnr : Int), (Bnc : Int), Bw, Bhb⟩
        cutoff check :=
  pluqSolveLeft_closedG _ _ (genAddmulG_sim hd d sA sB sC fA fB fC) rank Anr Bnr Bnc cutoff check
    (genAddmulG_sim hd d sA sB sC fA fB fC cutoff) mA mB _ _ p q Bw Bhb rsA rsB mtL mtU hr1 hAB hBc

/-- `_mzd_solve_left` over `cPluqMax` and `cSolveMax` = `_mzd_solve_left` over `cPluq` and `cSolve` -/
theorem c_solve_left_max_eq (hd : Hdr) (d : Nat) (sA sB sC : Int) (fA fB fC : BitVec 8) (base : BMat → Rec.Out)
    (hbase : Rec.GoodBase base) (hbx : ∀ A : BMat, A.WF → G2.Extra A (base A)) (baseRows : Nat) (rs : Int)
    (mt n mtL mtU : Nat) (cutoff check rsB : Int) (A B : Mzd) (hA : A.WF) (hcA : 1 ≤ A.ncols) (hcB : 1 ≤ B.ncols)
    (hAB : A.nrows ≤ B.nrows) :
    Gen.C.solveLeftTop cutoff check (memOf A) (memOf B) B.nrows A.nrows B.ncols rsB A.ncols A.width
        A.hb (cPluqMax hd d sA sB sC fA fB fC base baseRows rs mt n) B.width B.hb
        (cSolveMax hd d sA sB sC fA fB fC rs rsB mtL mtU)
      = Gen.C.solveLeftTop cutoff check (memOf A) (memOf B) B.nrows A.nrows B.ncols rsB A.ncols A.width
        A.hb (cPluq base baseRows rs mt n) B.width B.hb (cSolve rs rsB) := by
  have hple : G2.GoodPle (pleM base baseRows n) := G2.goodPle_pleRec hbase hbx 64 524288 baseRows n
  obtain ⟨hS, hP, hQs, hQ, hr1, hr2⟩ := pluqOfPle_facts hple (Mzd.WF_toB hA)
  rw [Mzd.nrows_toB] at hr1
  have hf := cPluq_agree base hbase hbx baseRows rs mt n cutoff A hA hcA (fun i : Int => 0 + i) (fun i : Int => 0 + i)
  have hfM := cPluqMax_agree hd d sA sB sC fA fB fC base hbase hbx baseRows rs mt n cutoff A hA hcA
    (fun i : Int => 0 + i) (fun i : Int => 0 + i)
  rw [solveLeftTop_congr (cPluqMax hd d sA sB sC fA fB fC base baseRows rs mt n) (liftPle (pluqM base baseRows n))
      (cSolveMax hd d sA sB sC fA fB fC rs rsB mtL mtU)
      (cSolve rs rsB) cutoff check (memOf A) (memOf B) B.nrows A.nrows B.ncols rsB A.ncols A.width A.hb B.width B.hb
      hfM ?_,
    solveLeftTop_congr (cPluq base baseRows rs mt n) (liftPle (pluqM base baseRows n)) (cSolve rs rsB)
      (cSolve rs rsB) cutoff check (memOf A) (memOf B) B.nrows A.nrows B.ncols rsB A.ncols A.width A.hb B.width B.hb
      hf (fun _ _ => rfl)]
  intro o ho
  rw [liftPle_whole _ A hA] at ho
  subst ho
  exact cSolveMax_eq_cSolve hd d sA sB sC fA fB fC rs rsB mtL mtU _ A.nrows B.nrows B.ncols _ _ _ _ _ _ _ _ _ cutoff
    check hr1 hAB hcB

/-- **C06 ON THE GENERATED TEXT, ALL TRANSLATED CALLEES GENERATED** — `_mzd_solve_left(A, B, cutoff, 1)` over
    `cPluqMax` (generated `_mzd_pluq` over the whole generated `_mzd_ple`, the generated `mzd_addmul` over the Strassen
    recursion over the generated `_mzd_add`, the generated `mzd_apply_p_right_trans_tri`) and `cSolveMax` (generated
    `_mzd_pluq_solve_left` over the closed generated `_mzd_trsm_lower_left` / `_mzd_trsm_upper_left` and the generated
    `mzd_addmul`): the conclusions of `GenTieTop.c_solve_left_closed` -/
theorem c_solve_left_max (hd : Hdr) (d : Nat) (sA sB sC : Int) (fA fB fC : BitVec 8) (base : BMat → Rec.Out)
    (hbase : Rec.GoodBase base) (hbx : ∀ A : BMat, A.WF → G2.Extra A (base A)) (baseRows : Nat) (rs : Int)
    (mt n mtL mtU : Nat) (cutoff rsB : Int)
    (A B : Mzd) (hA : A.WF) (hB : B.WF) (hcA : 1 ≤ A.ncols) (hcB : 1 ≤ B.ncols)
    (hBr : B.nrows = max A.nrows A.ncols) :
    ((Gen.C.solveLeftTop cutoff 1 (memOf A) (memOf B) B.nrows A.nrows B.ncols rsB A.ncols A.width A.hb
        (cPluqMax hd d sA sB sC fA fB fC base baseRows rs mt n) B.width B.hb
        (cSolveMax hd d sA sB sC fA fB fC rs rsB mtL mtU)).1
      = (if solvable A.toB B.toB then 0 else -1)) ∧
    ((Gen.C.solveLeftTop cutoff 1 (memOf A) (memOf B) B.nrows A.nrows B.ncols rsB A.ncols A.width A.hb
        (cPluqMax hd d sA sB sC fA fB fC base baseRows rs mt n) B.width B.hb
        (cSolveMax hd d sA sB sC fA fB fC rs rsB mtL mtU)).1 = 0 ↔
      ∃ X : BMat, X.WF ∧ X.nrows = A.ncols ∧ X.ncols = B.ncols ∧ (padRows A.toB).mul X = B.toB) ∧
    ((Gen.C.solveLeftTop cutoff 1 (memOf A) (memOf B) B.nrows A.nrows B.ncols rsB A.ncols A.width A.hb
        (cPluqMax hd d sA sB sC fA fB fC base baseRows rs mt n) B.width B.hb
        (cSolveMax hd d sA sB sC fA fB fC rs rsB mtL mtU)).1 = 0 →
      ∃ B' : Mzd, B'.WF ∧ B'.nrows = B.nrows ∧ B'.ncols = B.ncols ∧
        (Gen.C.solveLeftTop cutoff 1 (memOf A) (memOf B) B.nrows A.nrows B.ncols rsB A.ncols A.width A.hb
          (cPluqMax hd d sA sB sC fA fB fC base baseRows rs mt n) B.width B.hb
          (cSolveMax hd d sA sB sC fA fB fC rs rsB mtL mtU)).2.2 = memOf B' ∧
        (padRows A.toB).mul (B'.toB.sub 0 0 A.ncols B.ncols) = B.toB) := by
  rw [c_solve_left_max_eq hd d sA sB sC fA fB fC base hbase hbx baseRows rs mt n mtL mtU cutoff 1 rsB A B hA hcA hcB
    (by omega)]
  exact c_solve_left base hbase hbx baseRows rs mt n cutoff rsB A B hA hB hcA hcB hBr

/-- **the generated `mzd_kernel_left_pluq` with `mzd_trsm_upper_left` bound to the CLOSED generated recursion over a
    product callee `G`** returns what it returns with the lifted substitution form -/
theorem kernelLeftPluq_closedG (G : Fn3) (HG : ∀ c, Sim3 c G addmulM) (fact : BMat → Rec.Out) (A : Mzd)
    (cutoff rs rsR : Int) (mtU : Nat) (hA : A.WF)
    (hr1 : (fact A.toB).2.2.2 ≤ A.nrows) (hr2 : (fact A.toB).2.2.2 ≤ A.ncols) :
    Gen.C.kernelLeftPluq cutoff (memOf A) A.nrows A.ncols A.width A.hb (liftPle fact) rs
        (cTrsmUL ulRuss G rsR rs mtU)
      = Gen.C.kernelLeftPluq cutoff (memOf A) A.nrows A.ncols A.width A.hb (liftPle fact) rs
        (fun U B _ => liftM2 trsmUpperLeft U B) := by
  unfold Gen.C.kernelLeftPluq GenTiePle.liftPle
  rw [GenTieEch.ofView_whole A hA]
  generalize fact A.toB = o at hr1 hr2 ⊢
  obtain ⟨S, P, Q, r⟩ := o
  dsimp only at hr1 hr2
  simp_m [Mzd.ncols_toB]
  by_cases h0 : r = A.ncols
  · have hd : decide ((r : Int) = (A.ncols : Int)) = true := by simp only [decide_eq_true_eq]; omega
    rw [if_pos hd, if_pos hd]
  · have hd : ¬ decide ((r : Int) = (A.ncols : Int)) = true := by simp only [decide_eq_true_eq]; omega
    rw [if_neg hd, if_neg hd]
    have eRc : (A.ncols : Int) - (r : Int) = ((A.ncols - r : Nat) : Int) := by omega
    rw [eRc,
      mzdInitWindow_in 0 0 r r A.nrows rs 0 0 r r A.nrows rfl rfl rfl rfl rfl rfl (by omega) (by omega) hr1,
      mzdInitWindow_in 0 0 r (A.ncols - r : Nat) A.ncols _ 0 0 r (A.ncols - r) A.ncols rfl rfl rfl rfl rfl rfl
        (by omega) (by omega) hr2]
    simp_m [Int.toNat_natCast]
    simp only [unview_cTrsmUL_gen G HG rsR rs mtU (r - 0) (A.ncols - r - 0) (by omega)]

/-- `mzd_kernel_left_pluq` over `cPluqMax` and the closed generated `_mzd_trsm_upper_left` over `genAddmulG` =
    `mzd_kernel_left_pluq` over `cPluq` and the lifted substitution form -/
theorem c_kernel_max_eq (hd : Hdr) (d : Nat) (sA sB sC : Int) (fA fB fC : BitVec 8) (base : BMat → Rec.Out)
    (hbase : Rec.GoodBase base) (hbx : ∀ A : BMat, A.WF → G2.Extra A (base A)) (baseRows : Nat) (rs rsR : Int)
    (mt n mtU : Nat) (cutoff : Int) (A : Mzd) (hA : A.WF) (hc : 1 ≤ A.ncols) :
    Gen.C.kernelLeftPluq cutoff (memOf A) A.nrows A.ncols A.width A.hb
        (cPluqMax hd d sA sB sC fA fB fC base baseRows rs mt n) rs
        (cTrsmUL ulRuss (genAddmulG hd d sA sB sC fA fB fC) rsR rs mtU)
      = Gen.C.kernelLeftPluq cutoff (memOf A) A.nrows A.ncols A.width A.hb (cPluq base baseRows rs mt n) rs
        (fun U B _ => liftM2 trsmUpperLeft U B) := by
  have hple : G2.GoodPle (pleM base baseRows n) := G2.goodPle_pleRec hbase hbx 64 524288 baseRows n
  obtain ⟨hS, hP, hQs, hQ, hr1, hr2⟩ := pluqOfPle_facts hple (Mzd.WF_toB hA)
  have hf := cPluq_agree base hbase hbx baseRows rs mt n cutoff A hA hc (fun i : Int => 0 + i) (fun i : Int => 0 + i)
  have hfM := cPluqMax_agree hd d sA sB sC fA fB fC base hbase hbx baseRows rs mt n cutoff A hA hc
    (fun i : Int => 0 + i) (fun i : Int => 0 + i)
  rw [kernelLeftPluq_congr (cPluqMax hd d sA sB sC fA fB fC base baseRows rs mt n) (liftPle (pluqM base baseRows n))
      cutoff (memOf A) A.nrows A.ncols A.width A.hb rs _ hfM,
    kernelLeftPluq_congr (cPluq base baseRows rs mt n) (liftPle (pluqM base baseRows n)) cutoff (memOf A) A.nrows
      A.ncols A.width A.hb rs _ hf]
  exact kernelLeftPluq_closedG _ (genAddmulG_sim hd d sA sB sC fA fB fC) (pluqM base baseRows n) A cutoff rs rsR mtU hA
    hr1 hr2

/-- **C07 ON THE GENERATED TEXT, ALL TRANSLATED CALLEES GENERATED** — `mzd_kernel_left_pluq(A, cutoff)` over `cPluqMax`
    and the closed generated `_mzd_trsm_upper_left` (depth `mtU`) over the generated `mzd_addmul` (`genAddmulG`): the
    conclusions of `GenTieTop.c_kernel_closed` -/
theorem c_kernel_max (hd : Hdr) (d : Nat) (sA sB sC : Int) (fA fB fC : BitVec 8) (base : BMat → Rec.Out)
    (hbase : Rec.GoodBase base) (hbx : ∀ A : BMat, A.WF → G2.Extra A (base A)) (baseRows : Nat) (rs rsR : Int)
    (mt n mtU : Nat) (cutoff : Int) (A : Mzd) (hA : A.WF) (hc : 1 ≤ A.ncols) :
    ((Gen.C.kernelLeftPluq cutoff (memOf A) A.nrows A.ncols A.width A.hb
        (cPluqMax hd d sA sB sC fA fB fC base baseRows rs mt n) rs
        (cTrsmUL ulRuss (genAddmulG hd d sA sB sC fA fB fC) rsR rs mtU)).1 = 1 ↔ A.toB.rank = A.ncols) ∧
    ((Gen.C.kernelLeftPluq cutoff (memOf A) A.nrows A.ncols A.width A.hb
        (cPluqMax hd d sA sB sC fA fB fC base baseRows rs mt n) rs
        (cTrsmUL ulRuss (genAddmulG hd d sA sB sC fA fB fC) rsR rs mtU)).1 ≠ 1 →
      ∃ K : BMat,
        Gen.C.kernelLeftPluq cutoff (memOf A) A.nrows A.ncols A.width A.hb
            (cPluqMax hd d sA sB sC fA fB fC base baseRows rs mt n) rs
            (cTrsmUL ulRuss (genAddmulG hd d sA sB sC fA fB fC) rsR rs mtU)
          = ((0 : Int), memOf (A.putB (G2.pluqOfPle (Rec.pleRec base 64 524288 baseRows n) A.toB).1),
              memOf (Mzd.ofB K), (K.nrows : Int), (K.ncols : Int)) ∧
        K.WF ∧ K.nrows = A.ncols ∧ K.ncols = A.ncols - A.toB.rank ∧ 0 < K.ncols ∧
        A.toB.mul K = zero A.nrows K.ncols ∧ K.rank = K.ncols ∧
        (∀ V : BMat, V.WF → V.nrows = A.ncols → A.toB.mul V = zero A.nrows V.ncols →
          ∃ W : BMat, W.WF ∧ W.nrows = K.ncols ∧ W.ncols = V.ncols ∧ K.mul W = V) ∧
        (∀ W W' : BMat, W.WF → W'.WF → W.nrows = K.ncols → W'.nrows = K.ncols → W'.ncols = W.ncols →
          K.mul W = K.mul W' → W = W')) := by
  rw [c_kernel_max_eq hd d sA sB sC fA fB fC base hbase hbx baseRows rs rsR mt n mtU cutoff A hA hc]
  exact c_kernel base hbase hbx baseRows rs mt n cutoff A hA hc

/-- **C02 ON THE GENERATED TEXT — `mzd_echelonize_pluq(A, 1)` over `cPluqMax`** (`mzd_trsm_upper_left`,
    `mzd_submatrix`, `mzd_copy`, `mzd_apply_p_right` := the lifted model operations as in `GenTieTop.c_echelonize_pluq`;
    the callee `mzd_ple` is not used when `full`, it is arbitrary): returns `rank A` and leaves in `A` THE reduced row
    echelon form of `A` -/
theorem c_echelonize_pluq_max (hd : Hdr) (d : Nat) (sA sB sC : Int) (fA fB fC : BitVec 8) (base : BMat → Rec.Out)
    (hbase : Rec.GoodBase base) (hbx : ∀ A : BMat, A.WF → G2.Extra A (base A)) (baseRows : Nat) (rs : Int)
    (mt n : Nat) (A : Mzd) (hA : A.WF) (hc : 1 ≤ A.ncols) (fple : PleFn) :
    Gen.C.echelonizePluq 1 (memOf A) A.nrows A.ncols A.width A.hb
        (cPluqMax hd d sA sB sC fA fB fC base baseRows rs mt n) rs
        (fun U B _ => liftM2 trsmUpperLeft U B) GenTieEch.liftSubNew GenTieEch.liftCopy GenTieEch.liftApplyPRight fple
      = ((A.toB.rank : Int), memOf (A.putB A.toB.rref)) := by
  rw [← c_echelonize_pluq base hbase hbx baseRows rs mt n A hA hc fple,
    echelonizePluq_congr (cPluqMax hd d sA sB sC fA fB fC base baseRows rs mt n) (liftPle (pluqM base baseRows n))
      fple fple 1 (memOf A) A.nrows A.ncols A.width A.hb rs _ _ _ _
      (cPluqMax_agree hd d sA sB sC fA fB fC base hbase hbx baseRows rs mt n 0 A hA hc _ _) (CallAgree.refl _ _ _),
    echelonizePluq_congr (cPluq base baseRows rs mt n) (liftPle (pluqM base baseRows n))
      fple fple 1 (memOf A) A.nrows A.ncols A.width A.hb rs _ _ _ _
      (cPluq_agree base hbase hbx baseRows rs mt n 0 A hA hc _ _) (CallAgree.refl _ _ _)]

/-- the same when `mzd_ple` (unused in the `full` branch) is the generated `cPleMax` as well -/
theorem c_echelonize_pluq_max' (hd : Hdr) (d : Nat) (sA sB sC : Int) (fA fB fC : BitVec 8) (base : BMat → Rec.Out)
    (hbase : Rec.GoodBase base) (hbx : ∀ A : BMat, A.WF → G2.Extra A (base A)) (baseRows : Nat) (rs : Int)
    (mt n : Nat) (A : Mzd) (hA : A.WF) (hc : 1 ≤ A.ncols) :
    Gen.C.echelonizePluq 1 (memOf A) A.nrows A.ncols A.width A.hb
        (cPluqMax hd d sA sB sC fA fB fC base baseRows rs mt n) rs
        (fun U B _ => liftM2 trsmUpperLeft U B) GenTieEch.liftSubNew GenTieEch.liftCopy GenTieEch.liftApplyPRight
        (cPleMax hd d sA sB sC fA fB fC base baseRows rs mt n)
      = ((A.toB.rank : Int), memOf (A.putB A.toB.rref)) :=
  c_echelonize_pluq_max hd d sA sB sC fA fB fC base hbase hbx baseRows rs mt n A hA hc _

/-! #### instances over the base case of the library (`russianBase l2`: both hypotheses on `base` hold) -/

/-- **C02, all translated callees generated, over the base case of the library** -/
theorem c_echelonize_pluq_max_russian (hd : Hdr) (d : Nat) (sA sB sC : Int) (fA fB fC : BitVec 8) (l2 baseRows : Nat)
    (rs : Int) (mt n : Nat) (A : Mzd) (hA : A.WF) (hc : 1 ≤ A.ncols) (fple : PleFn) :
    Gen.C.echelonizePluq 1 (memOf A) A.nrows A.ncols A.width A.hb
        (cPluqMax hd d sA sB sC fA fB fC (russianBase l2) baseRows rs mt n) rs
        (fun U B _ => liftM2 trsmUpperLeft U B) GenTieEch.liftSubNew GenTieEch.liftCopy GenTieEch.liftApplyPRight fple
      = ((A.toB.rank : Int), memOf (A.putB A.toB.rref)) :=
  c_echelonize_pluq_max hd d sA sB sC fA fB fC (russianBase l2) (russianBase_good l2) (russianBase_extra l2) baseRows rs
    mt n A hA hc fple

/-- **C03, all translated callees generated, over the base case of the library**: the value returned is `rank A` -/
theorem c_pluq_max_russian_rank (hd : Hdr) (d : Nat) (sA sB sC : Int) (fA fB fC : BitVec 8) (l2 baseRows : Nat)
    (rs : Int) (mt n : Nat) (cutoff : Int) (A : Mzd) (hA : A.WF) (hc : 1 ≤ A.ncols) (p q : Int → Int) :
    (cPluqMax hd d sA sB sC fA fB fC (russianBase l2) baseRows rs mt n (CLoop.MView.of A) p q cutoff).1
      = ((A.toB.rank : Nat) : Int) := by
  have h := c_pluq_max hd d sA sB sC fA fB fC (russianBase l2) (russianBase_good l2) (russianBase_extra l2) baseRows rs
    mt n cutoff A hA hc p q
  rw [h.1, h.2.2.2.2.2.2.2.2]

end M4ri.GenTieMax

#print axioms M4ri.GenTieMax.genAddmulG_sim
#print axioms M4ri.GenTieMax.cPleMax_spec
#print axioms M4ri.GenTieMax.cPleMax_correct
#print axioms M4ri.GenTieMax.cPluqMax_agree
#print axioms M4ri.GenTieMax.c_pluq_max
#print axioms M4ri.GenTieMax.pluqSolveLeft_closedG
#print axioms M4ri.GenTieMax.c_solve_left_max
#print axioms M4ri.GenTieMax.c_kernel_max
#print axioms M4ri.GenTieMax.c_echelonize_pluq_max
#print axioms M4ri.GenTieMax.c_echelonize_pluq_max_russian
#print axioms M4ri.GenTieMax.c_pluq_max_russian_rank
