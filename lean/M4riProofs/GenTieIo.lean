/-
  Ties of two more translated functions of `M4ri/Gen/CFuns.lean`:

    `mzdFromStr_eq`   io.c `mzd_from_str(m, n, str)`: the generated function returns `(0, memory, m, n)` where the
                      memory is the image of the model matrix `fromStr` (`M4ri/Io.lean`, `fromStrRows`).
                      General form `mzdFromStr_eq_of`: for ANY character-code function `str` that agrees with the
                      byte array on "is the character `'1'`" at the `m·n` positions read (covers signed and unsigned
                      `char`).  No hypothesis on `m`, `n` (`n = 0`: no store happens) nor on the length of the string
                      (both sides read 0 past the end; the C precondition `m·n ≤ length` is not needed for the equality).
    `mzdSetUi_eq`     mzd.c `mzd_set_ui(A, value)` for EVERY `value` (the generated parameter is a `BitVec 32`):
                      the generated function = the model's `Mzd.setUi A value`   (`A.WF`, `1 ≤ A.ncols`).
-/
import M4riProofs.GenTieKer
import M4riProofs.Io

namespace M4ri.GenTieIo
open M4ri M4ri.Gen M4ri.GenTieMem M4ri.GenTieView M4ri.BMat M4ri.GenTieAlg M4ri.GenTieSolve M4ri.GenTieTab
open M4ri.GenTieEch M4ri.GenTieKer

/-! ### 1. `mzd_set_ui(A, value)`, every value -/

/-- the generated `mzd_set_ui` depends on `value` only through the test `value % 2 == 0` -/
theorem mzdSetUi_parity (v v' : BitVec 32) (h : decide (v % (2#32) = (0#32)) = decide (v' % (2#32) = (0#32)))
    (m : Int → Int → BitVec 64) (hb : BitVec 64) (nr nw nc : Int) :
    Gen.C.mzdSetUi v m hb nr nw nc = Gen.C.mzdSetUi v' m hb nr nw nc := by
  unfold Gen.C.mzdSetUi
  rw [h]

theorem umod_two_eq_zero (v : BitVec 32) : v % (2#32) = (0#32) ↔ v.toNat % 2 = 0 := by
  rw [← BitVec.toNat_inj, BitVec.toNat_umod]
  rfl

/-- **`mzd_set_ui(A, value)`**, the value given as the machine word -/
theorem mzdSetUi_eq_bv (A : Mzd) (v : BitVec 32) (hwf : A.WF) (hc : 1 ≤ A.ncols) :
    Gen.C.mzdSetUi v (memOf A) A.hb A.nrows A.width A.ncols = memOf (A.setUi v.toNat) := by
  by_cases hv : v.toNat % 2 = 0
  · rw [mzdSetUi_parity v (0#32) (by rw [decide_eq_true ((umod_two_eq_zero v).2 hv)]; rfl),
      mzdSetUi_zero_eq A hwf hc, Mzd.setUi_eq, Mzd.setUi_eq, if_pos hv, if_pos rfl]
  · rw [mzdSetUi_parity v (1#32) (by rw [decide_eq_false (fun e => hv ((umod_two_eq_zero v).1 e))]; rfl),
      mzdSetUi_one_eq A hwf hc, Mzd.setUi_eq, Mzd.setUi_eq, if_neg hv, if_neg (by decide)]

/-- **`mzd_set_ui(A, value)`**: the generated function is the model's `setUi`, for every value -/
theorem mzdSetUi_eq (A : Mzd) (value : Nat) (hwf : A.WF) (hc : 1 ≤ A.ncols) :
    Gen.C.mzdSetUi (BitVec.ofNat 32 value) (memOf A) A.hb A.nrows A.width A.ncols = memOf (A.setUi value) := by
  rw [mzdSetUi_eq_bv A _ hwf hc, Mzd.setUi_eq, Mzd.setUi_eq, BitVec.toNat_ofNat]
  have e : value % 2 ^ 32 % 2 = value % 2 := by omega
  rw [e]

/-! ### 2. `mzd_from_str` -/

/-- the entries written so far: rows `< i` complete, row `i` up to column `c` -/
def strB (bs : Array UInt8) (m n i c : Nat) : BMat :=
  ofFn m n fun a b => if a < i ∨ (a = i ∧ b < c) then bs.getD (a * n + b) 0 == 49 else false

theorem strB_shaped (bs : Array UInt8) (m n i c : Nat) : Shaped (strB bs m n i c) m n := ⟨WF_ofFn _ _ _, rfl, rfl⟩

/-- one `mzd_write_bit(A, i, c, str[idx] == '1')` -/
theorem writeBit_strB (Z : Mzd) (hZ : Z.WF) (bs : Array UInt8) (m n i c : Nat) (hZr : Z.nrows = m)
    (hZc : Z.ncols = n) (hi : i < m) (hc : c < n) :
    (Z.putB (strB bs m n i c)).writeBit i c (bs.getD (i * n + c) 0 == 49) = Z.putB (strB bs m n i (c + 1)) := by
  have hN := Mzd.WF_putB hZ (strB bs m n i c)
  have hx : i < (Z.putB (strB bs m n i c)).nrows := by rw [Mzd.nrows_putB]; omega
  apply Mzd.eq_putB_of_bit (Mzd.writeBit_WF_D _ _ _ _ hN hx) hZ rfl rfl
  intro a b ha hb
  rw [Mzd.writeBit_bit_D _ _ _ _ hN hx a b ha hb, Mzd.bit_putB Z _ hZ a b ha hb]
  by_cases hbn : b < Z.ncols
  · rw [if_pos hbn, if_pos hbn]
    unfold strB
    rw [get_ofFn _ _ _ _ _ (by omega) (by omega), get_ofFn _ _ _ _ _ (by omega) (by omega)]
    by_cases h1 : a = i ∧ b = c
    · obtain ⟨rfl, rfl⟩ := h1
      rw [if_pos ⟨rfl, rfl⟩, if_pos (by omega)]
    · rw [if_neg h1]
      exact if_congr (by omega) rfl rfl
  · rw [if_neg hbn, if_neg hbn, if_neg (by omega)]

/-- the matrix of the model, entry by entry (as `Io.fromStr_spec`, for a byte array) -/
theorem fromStrB_get (bs : Array UInt8) (m n i j : Nat) :
    (⟨m, n, Io.fromStrRows bs n m 0 #[]⟩ : BMat).get i j
      = (decide (i < m ∧ j < n) && (bs.getD (i * n + j) 0 == 49)) := by
  unfold BMat.get BMat.row
  simp only []
  rw [Io.fromStrRows_spec]
  simp only [Array.empty_append, Array.getD_eq_getD_getElem?, Array.getElem?_map, Array.getElem?_range]
  by_cases hi : i < m
  · simp only [hi, if_true, Option.map_some, Option.getD_some]
    rw [(Io.fromStrCols_spec _ n n _ 0 (Nat.le_refl _)).2]
    by_cases hj : j < n
    · simp [hj, Array.getD_eq_getD_getElem?]
    · simp [hj]
  · simp [hi]

theorem fromStrB_shaped (bs : Array UInt8) (m n : Nat) :
    Shaped (⟨m, n, Io.fromStrRows bs n m 0 #[]⟩ : BMat) m n := by
  refine ⟨?_, rfl, rfl⟩
  apply BMat.WF_of_get
  · show (Io.fromStrRows _ n m 0 #[]).size = m
    rw [Io.fromStrRows_spec]; simp
  · intro i j hj
    have : ¬ j < n := Nat.not_lt.mpr hj
    rw [fromStrB_get]; simp [this]

theorem strB_final (bs : Array UInt8) (m n : Nat) :
    strB bs m n m 0 = (⟨m, n, Io.fromStrRows bs n m 0 #[]⟩ : BMat) := by
  apply (strB_shaped bs m n m 0).ext (fromStrB_shaped bs m n)
  intro i j hi hj
  unfold strB
  rw [get_ofFn _ _ _ _ _ hi hj, fromStrB_get, if_pos (by omega), decide_eq_true ⟨hi, hj⟩, Bool.true_and]

theorem zero_putB_strB (bs : Array UInt8) (m n : Nat) :
    memOf ((Mzd.zero m n).putB (strB bs m n 0 0)) = fun _ _ => (0#64) := by
  have hZ := GenTieStrassen.zero_WF m n
  have e : Mzd.zero m n = (Mzd.zero m n).putB (strB bs m n 0 0) := by
    apply Mzd.eq_putB_of_bit hZ hZ rfl rfl
    intro i j hi hj
    have hi' : i < m := hi
    rw [Mzd.zero_bit]
    by_cases hjn : j < (Mzd.zero m n).ncols
    · have hjn' : j < n := hjn
      rw [if_pos hjn]
      unfold strB
      rw [get_ofFn _ _ _ _ _ hi' hjn', if_neg (by omega)]
    · rw [if_neg hjn]
  rw [← e, GenTieStrassen.memOf_zero]

/-- the inner loop of `mzd_from_str`: row `i` -/
theorem strInner_spec (Z : Mzd) (hZ : Z.WF) (bs : Array UInt8) (m n i : Nat) (hZr : Z.nrows = m) (hZc : Z.ncols = n)
    (hi : i < m) (str : Int → Int)
    (hstr : ∀ k : Nat, k < m * n → (str (k : Int) = 49 ↔ bs.getD k 0 = 49))
    {cond : (Int → Int → BitVec 64) × Int × Int → Bool}
    {body : (Int → Int → BitVec 64) × Int × Int → (Int → Int → BitVec 64) × Int × Int} {fuel : Nat}
    {res : (Int → Int → BitVec 64) × Int × Int}
    (hres : CLoop.loop fuel cond body (memOf (Z.putB (strB bs m n i 0)), ((i * n : Nat) : Int), (0 : Int)) = res)
    (hf : n ≤ fuel)
    (hcond : ∀ st, cond st = decide (st.2.2 < (n : Int)))
    (hbody : ∀ st, body st = (CLoop.unview st.1 0 0 (m : Int) (Int.tdiv ((n : Int) + 63) 64)
        (Gen.C.mzdWriteBit (i : Int) st.2.2 (if decide (str st.2.1 = 49) = true then (1 : Int) else 0)
          (CLoop.view st.1 0 0)), st.2.1 + 1, st.2.2 + 1)) :
    res = (memOf (Z.putB (strB bs m n (i + 1) 0)), (((i + 1) * n : Nat) : Int), (n : Int)) := by
  have hw : Z.width = (n + 63) / 64 := by unfold Mzd.width widthOf; rw [hZc]
  have key := for_loop_eq hres n
    (fun t st => st.2.2 = (t : Int) ∧ st.2.1 = ((i * n + t : Nat) : Int) ∧
      st.1 = memOf (Z.putB (strB bs m n i t))) hf ⟨rfl, rfl, rfl⟩ ?_ ?_
  · obtain ⟨mm, idx, j⟩ := res
    obtain ⟨k1, k2, k3⟩ := key
    dsimp only at k1 k2 k3
    subst k1 k2 k3
    have e1 : ((i * n + n : Nat) : Int) = (((i + 1) * n : Nat) : Int) := by rw [Nat.succ_mul]
    rw [e1]
    congr 2
    apply Mzd.putB_congr hZ
    intro a b ha hb
    unfold strB
    rw [get_ofFn _ _ _ _ _ (by omega) (by omega), get_ofFn _ _ _ _ _ (by omega) (by omega)]
    exact if_congr (by omega) rfl rfl
  · intro t st ht hP
    rw [hcond, hP.1]
    congr 1
    apply propext
    omega
  · intro t st ht hP
    obtain ⟨mm, idx, j⟩ := st
    obtain ⟨t1, t2, t3⟩ := hP
    dsimp only at t1 t2 t3
    subst t1 t2 t3
    rw [hbody]
    dsimp only
    refine ⟨by omega, by omega, ?_⟩
    have hlt : i * n + t < m * n := by
      have : (i + 1) * n ≤ m * n := Nat.mul_le_mul_right n hi
      rw [Nat.succ_mul] at this
      omega
    have eb : decide (str ((i * n + t : Nat) : Int) = 49) = (bs.getD (i * n + t) 0 == 49) := by
      rw [Bool.eq_iff_iff, decide_eq_true_eq, beq_iff_eq]
      exact hstr _ hlt
    have hwb := mzdWriteBit_eq (Z.putB (strB bs m n i t)) i t (bs.getD (i * n + t) 0 == 49) (Mzd.WF_putB hZ _)
      (by rw [Mzd.nrows_putB]; omega) (by rw [Mzd.width_putB, hw]; omega)
    rw [eb, view_zero, hwb, writeBit_strB Z hZ bs m n i t hZr hZc hi ht, hdr_w]
    apply unview_top Z hZ _ _ m _ (by rw [hw])
    intro a b h1 h2 h3
    omega

/-- **`mzd_from_str(m, n, str)`**, general form: `str` is any character-code function that agrees with the byte
    array `bs` on the test `== '1'` at the `m·n` positions the function reads -/
theorem mzdFromStr_eq_of (m n : Nat) (bs : Array UInt8) (str : Int → Int)
    (hstr : ∀ k : Nat, k < m * n → (str (k : Int) = 49 ↔ bs.getD k 0 = 49)) :
    Gen.C.mzdFromStr (m : Int) (n : Int) str
      = ((0 : Int), memOf (Mzd.ofB ⟨m, n, Io.fromStrRows bs n m 0 #[]⟩), (m : Int), (n : Int)) := by
  have hZ := GenTieStrassen.zero_WF m n
  unfold Gen.C.mzdFromStr
  dsimp only
  rw [← zero_putB_strB bs m n]
  generalize hres : CLoop.loop _ _ _ _ = res
  have key := for_loop_eq hres m
    (fun k st => st.2.2 = (k : Int) ∧ st.2.1 = ((k * n : Nat) : Int) ∧
      st.1 = memOf ((Mzd.zero m n).putB (strB bs m n k 0))) (by simp) ⟨rfl, by simp, rfl⟩ ?_ ?_
  · obtain ⟨mm, idx, i⟩ := res
    obtain ⟨k1, k2, k3⟩ := key
    dsimp only at k1 k2 k3 ⊢
    subst k1 k2 k3
    rw [zero_putB_eq_ofB m n _ (strB_shaped bs m n m 0), strB_final]
  · intro k st hk hP
    obtain ⟨mm, idx, i⟩ := st
    obtain ⟨k1, k2, k3⟩ := hP
    dsimp only at k1 k2 k3 ⊢
    subst k1
    congr 1
    apply propext
    omega
  · intro k st hk hP
    obtain ⟨mm, idx, i⟩ := st
    obtain ⟨k1, k2, k3⟩ := hP
    dsimp only at k1 k2 k3 ⊢
    subst k1 k2 k3
    clear hres
    generalize hres2 : CLoop.loop _ _ _ _ = res2
    have h2 := strInner_spec (Mzd.zero m n) hZ bs m n k rfl rfl hk str hstr hres2 (by simp)
      (fun st => by obtain ⟨a, b, c⟩ := st; rfl) (fun st => by obtain ⟨a, b, c⟩ := st; rfl)
    subst h2
    dsimp only
    exact ⟨by omega, rfl, rfl⟩

/-- **`mzd_from_str(m, n, str)`** for the bytes of the C string read as `unsigned char` codes: the generated function
    returns the `NULL` flag 0, the memory image of the model's matrix, and its shape -/
theorem mzdFromStr_eq (m n : Nat) (bs : Array UInt8) :
    Gen.C.mzdFromStr (m : Int) (n : Int) (fun i => ((bs.getD i.toNat 0).toNat : Int))
      = ((0 : Int), memOf (Mzd.ofB ⟨m, n, Io.fromStrRows bs n m 0 #[]⟩), (m : Int), (n : Int)) := by
  apply mzdFromStr_eq_of
  intro k _
  rw [← UInt8.toNat_inj]
  show ((bs.getD (k : Int).toNat 0).toNat : Int) = 49 ↔ (bs.getD k 0).toNat = 49
  rw [Int.toNat_natCast]
  show ((bs.getD k 0).toNat : Int) = 49 ↔ (bs.getD k 0).toNat = 49
  omega

/-- the same for a `String` (its UTF-8 bytes): the model function `Io.fromStr` -/
theorem mzdFromStr_eq_string (m n : Nat) (s : String) :
    Gen.C.mzdFromStr (m : Int) (n : Int) (fun i => ((s.toUTF8.data.getD i.toNat 0).toNat : Int))
      = ((0 : Int), memOf (Mzd.ofB (Io.fromStr m n s)), (m : Int), (n : Int)) :=
  mzdFromStr_eq m n s.toUTF8.data

/-- the same with `char` SIGNED (bytes ≥ 128 are negative codes) -/
theorem mzdFromStr_eq_signed (m n : Nat) (bs : Array UInt8) :
    Gen.C.mzdFromStr (m : Int) (n : Int)
        (fun i => if (bs.getD i.toNat 0).toNat < 128 then ((bs.getD i.toNat 0).toNat : Int)
          else ((bs.getD i.toNat 0).toNat : Int) - 256)
      = ((0 : Int), memOf (Mzd.ofB ⟨m, n, Io.fromStrRows bs n m 0 #[]⟩), (m : Int), (n : Int)) := by
  apply mzdFromStr_eq_of
  intro k _
  rw [← UInt8.toNat_inj]
  show (if (bs.getD (k : Int).toNat 0).toNat < 128 then ((bs.getD (k : Int).toNat 0).toNat : Int)
    else ((bs.getD (k : Int).toNat 0).toNat : Int) - 256) = 49 ↔ (bs.getD k 0).toNat = 49
  rw [Int.toNat_natCast]
  have hlt : (bs.getD k 0).toNat < 256 := (bs.getD k 0).toNat_lt
  show (if (bs.getD k 0).toNat < 128 then ((bs.getD k 0).toNat : Int) else ((bs.getD k 0).toNat : Int) - 256) = 49 ↔
    (bs.getD k 0).toNat = 49
  split <;> omega

#print axioms mzdSetUi_eq
#print axioms mzdSetUi_eq_bv
#print axioms mzdFromStr_eq_of
#print axioms mzdFromStr_eq
#print axioms mzdFromStr_eq_string
#print axioms mzdFromStr_eq_signed

end M4ri.GenTieIo
