/-
  C16 / C15, protocol part (see `M4ri/Sched.lean` for the model).
  * `threads_independent`      — for EVERY interleaving of the threads' step lists, every thread ends in the
                                 state of its own sequential run (steps act on private state, shared state is read-only).
  * `threads_independent_sched`— the same for a scheduler trace (list of thread ids), and `exec_spec` for every
                                 PREFIX of a schedule (so also for incomplete / unfair schedules).
  * `parfor_perm_invariant`    — a loop whose iteration `r` touches only component `r` gives the same result in
                                 every order of its iterations; `parfor_closed_form` gives the result explicitly.
  * `rowLoop_perm_invariant`, `rowLoop_spec` — the same for the row loop on an array.
-/
import M4ri.Sched
namespace M4ri.Sched

theorem upd_same {ι : Type} [DecidableEq ι] {α : Type} (f : ι → α) (i : ι) (a : α) : upd f i a i = a := by
  simp [upd]

theorem upd_other {ι : Type} [DecidableEq ι] {α : Type} (f : ι → α) (i j : ι) (a : α) (h : j ≠ i) :
    upd f i a j = f j := by
  simp [upd, h]

theorem seqRun_cons {Priv Shared : Type} (sh : Shared) (s : Step Priv Shared) (ss : List (Step Priv Shared))
    (p : Priv) : seqRun sh (s :: ss) p = seqRun sh ss (s p sh) := rfl

theorem seqRun_nil {Priv Shared : Type} (sh : Shared) (p : Priv) :
    seqRun sh ([] : List (Step Priv Shared)) p = p := rfl

section Threads
variable {T : Type} [DecidableEq T] {Priv Shared : Type}

theorem runTrace_cons (sh : Shared) (t : T) (s : Step Priv Shared) (l : List (T × Step Priv Shared))
    (init : T → Priv) : runTrace sh ((t, s) :: l) init = runTrace sh l (upd init t (s (init t) sh)) := rfl

/-- C16/C15: `n` threads (`T = Fin n`, or any index type), thread `t` running `steps t` on its private state
    and reading a shared state that no step writes.  For EVERY interleaving `l` of the step lists the final
    private state of every thread is that of its sequential run. -/
theorem threads_independent (sh : Shared) {steps : T → List (Step Priv Shared)}
    {l : List (T × Step Priv Shared)} (h : Interleaving steps l) (init : T → Priv) (t : T) :
    runTrace sh l init t = seqRun sh (steps t) (init t) := by
  induction h generalizing init with
  | done h => rw [h t]; rfl
  | @next steps u s ss l hs _ ih =>
    rw [runTrace_cons, ih]
    by_cases e : t = u
    · subst e; rw [upd_same, upd_same, hs, seqRun_cons]
    · rw [upd_other _ _ _ _ e, upd_other _ _ _ _ e]

/-- hence any two interleavings end in the same state (schedule independence) -/
theorem interleavings_agree (sh : Shared) {steps : T → List (Step Priv Shared)}
    {l l' : List (T × Step Priv Shared)} (h : Interleaving steps l) (h' : Interleaving steps l')
    (init : T → Priv) : runTrace sh l init = runTrace sh l' init := by
  funext t; rw [threads_independent sh h, threads_independent sh h']

/-- `Interleaving` really is "a merge": the events of thread `t`, in order, are exactly `steps t` -/
theorem Interleaving.proj {steps : T → List (Step Priv Shared)} {l : List (T × Step Priv Shared)}
    (h : Interleaving steps l) (t : T) : (l.filter fun e => e.1 = t).map Prod.snd = steps t := by
  induction h with
  | done h => rw [h t]; rfl
  | @next steps u s ss l hs _ ih =>
    by_cases e : u = t
    · subst e; simp [ih, upd_same, hs]
    · have e' : t ≠ u := fun h => e h.symm
      simp [e, ih, upd_other _ _ _ _ e']

/-- the sequential execution "thread after thread" is one of the interleavings (non-vacuity), here for
    two threads; `decide`-free, for arbitrary step lists -/
theorem interleaving_seq_two (a b : List (Step Priv Shared)) :
    Interleaving (T := Bool) (fun t => if t then b else a)
      (a.map (fun s => (false, s)) ++ b.map (fun s => (true, s))) := by
  induction a with
  | nil =>
    induction b with
    | nil => exact .done (by intro t; cases t <;> rfl)
    | cons s ss ih =>
      refine .next (t := true) (s := s) (ss := ss) rfl ?_
      have : upd (fun t : Bool => if t then s :: ss else ([] : List (Step Priv Shared))) true ss =
          fun t => if t then ss else [] := by
        funext t; cases t <;> simp [upd]
      rw [this]; exact ih
  | cons s ss ih =>
    refine .next (t := false) (s := s) (ss := ss) rfl ?_
    have : upd (fun t : Bool => if t then b else s :: ss) false ss = fun t => if t then b else ss := by
      funext t; cases t <;> simp [upd]
    rw [this]; exact ih

/-! ### scheduler traces -/

theorem exec_cons (sh : Shared) (c : Config T Priv Shared) (u : T) (tr : List T) :
    exec sh c (u :: tr) = exec sh (tick sh c u) tr := rfl

/-- after ANY schedule prefix `tr`, thread `t` has performed exactly its first `min (count t tr) (length)`
    steps, with the effect of running them sequentially, and the rest is still to do -/
theorem exec_spec (sh : Shared) (tr : List T) (c : Config T Priv Shared) (t : T) :
    (exec sh c tr).priv t = seqRun sh ((c.todo t).take (tr.count t)) (c.priv t) ∧
    (exec sh c tr).todo t = (c.todo t).drop (tr.count t) := by
  induction tr generalizing c with
  | nil => simp [exec, seqRun]
  | cons u tr ih =>
    rw [exec_cons]
    obtain ⟨ih1, ih2⟩ := ih (tick sh c u)
    rw [ih1, ih2]
    unfold tick
    rw [List.count_cons]
    cases hu : c.todo u with
    | nil =>
      by_cases e : u = t
      · subst e; simp [hu]
      · simp [e]
    | cons s ss =>
      by_cases e : u = t
      · subst e
        simp [upd_same, hu, seqRun_cons]
      · have e' : t ≠ u := fun h => e h.symm
        simp [e, upd_other _ _ _ _ e']

/-- C16/C15, scheduler form: for every complete schedule, every thread ends in the state of its
    sequential run and has nothing left to do -/
theorem threads_independent_sched (sh : Shared) (steps : T → List (Step Priv Shared)) (init : T → Priv)
    (tr : List T) (h : Complete steps tr) (t : T) :
    (exec sh ⟨init, steps⟩ tr).priv t = seqRun sh (steps t) (init t) ∧
    (exec sh ⟨init, steps⟩ tr).todo t = [] := by
  obtain ⟨h1, h2⟩ := exec_spec sh tr ⟨init, steps⟩ t
  rw [h1, h2, h t]
  simp

/-- over-scheduling is harmless too: it suffices that every thread is scheduled at least as often as it has steps -/
theorem threads_independent_sched_ge (sh : Shared) (steps : T → List (Step Priv Shared)) (init : T → Priv)
    (tr : List T) (h : ∀ t, (steps t).length ≤ tr.count t) (t : T) :
    (exec sh ⟨init, steps⟩ tr).priv t = seqRun sh (steps t) (init t) := by
  rw [(exec_spec sh tr ⟨init, steps⟩ t).1]
  simp [List.take_of_length_le (h t)]

/-- the sequential schedule over a duplicate-free enumeration of the threads is complete (non-vacuity) -/
theorem complete_seqSchedule (steps : T → List (Step Priv Shared)) (ts : List T) (hnd : ts.Nodup)
    (hall : ∀ t, t ∈ ts) : Complete steps (seqSchedule steps ts) := by
  intro t
  unfold seqSchedule
  have key : ∀ (ts : List T), ts.Nodup →
      (ts.flatMap fun t => List.replicate (steps t).length t).count t =
        if t ∈ ts then (steps t).length else 0 := by
    intro ts
    induction ts with
    | nil => simp
    | cons u ts ih =>
      intro hnd
      rw [List.nodup_cons] at hnd
      rw [List.flatMap_cons, List.count_append, ih hnd.2, List.count_replicate]
      by_cases e : u = t
      · subst e; simp [hnd.1]
      · have e' : ¬ t = u := fun h => e h.symm
        simp [e, e']
  rw [key ts hnd, if_pos (hall t)]

end Threads

/-! ### `#pragma omp parallel for` -/

section ParFor
variable {ι : Type} {α : Type}

/-- two iterations of a row-local loop commute -/
theorem RowLocal.comm {body : ι → (ι → α) → (ι → α)} (h : RowLocal body) (r s : ι) (σ : ι → α) :
    body s (body r σ) = body r (body s σ) := by
  classical
  by_cases e : r = s
  · subst e; rfl
  · funext i
    by_cases hi : i = r
    · subst hi
      rw [h.1 s _ i e, h.2 i (body s σ) σ (h.1 s σ i e)]
    · by_cases hj : i = s
      · subst hj
        rw [h.1 r _ i hi, h.2 i (body r σ) σ (h.1 r σ i hi)]
      · rw [h.1 s _ i hj, h.1 r _ i hi, h.1 r _ i hi, h.1 s _ i hj]

/-- C16: a loop whose iteration `r` reads and writes only component `r` (plus read-only shared data) gives
    the same final state for every order of the iterations — `order'` e.g. the ascending order of the
    sequential loop -/
theorem parfor_perm_invariant {body : ι → (ι → α) → (ι → α)} (h : RowLocal body) {order order' : List ι}
    (p : order.Perm order') (σ : ι → α) : parfor body order σ = parfor body order' σ := by
  unfold parfor
  exact p.foldl_eq' (fun x _ y _ z => h.comm x y z) σ

/-- … in the form "any permutation of `startrow ≤ r < stoprow` equals the ascending loop" -/
theorem parfor_range_invariant {body : Nat → (Nat → α) → (Nat → α)} (h : RowLocal body) (startrow stoprow : Nat)
    {order : List Nat} (p : order.Perm (List.range' startrow (stoprow - startrow))) (σ : Nat → α) :
    parfor body order σ = parfor body (List.range' startrow (stoprow - startrow)) σ :=
  parfor_perm_invariant h p σ

/-- the result, explicitly: component `i` is `body i` applied to the INITIAL state if `i` is one of the
    iterations, and untouched otherwise (no iteration sees the effect of another one) -/
theorem parfor_closed_form [DecidableEq ι] {body : ι → (ι → α) → (ι → α)} (h : RowLocal body)
    (order : List ι) (hnd : order.Nodup) (σ : ι → α) (i : ι) :
    parfor body order σ i = if i ∈ order then body i σ i else σ i := by
  unfold parfor
  induction order generalizing σ with
  | nil => simp
  | cons r rest ih =>
    rw [List.nodup_cons] at hnd
    rw [List.foldl_cons, ih hnd.2]
    by_cases e : i = r
    · subst e
      simp [hnd.1]
    · by_cases hm : i ∈ rest
      · rw [if_pos hm, if_pos (List.mem_cons_of_mem _ hm)]
        exact h.2 i _ _ (h.1 r σ i e)
      · rw [if_neg hm, if_neg (by simp [e, hm])]
        exact h.1 r σ i e

/-! ### the same on arrays -/

theorem modify_comm (a : Array α) (r s : Nat) (f g : α → α) (hrs : r ≠ s) :
    (a.modify r f).modify s g = (a.modify s g).modify r f := by
  apply Array.ext
  · simp
  · intro i h1 h2
    simp only [Array.getElem_modify]
    by_cases h : s = i
    · have : ¬ r = i := fun e => hrs (e.trans h.symm)
      simp [h, this]
    · simp [h]

/-- C16, array form: the row loop gives the same array for every order of the iterations -/
theorem rowLoop_perm_invariant {Shared : Type} (f : Nat → Shared → α → α) (sh : Shared) {order order' : List Nat}
    (p : order.Perm order') (a : Array α) : rowLoop f sh order a = rowLoop f sh order' a := by
  unfold rowLoop
  apply p.foldl_eq'
  intro x _ y _ z
  by_cases e : x = y
  · subst e; rfl
  · exact modify_comm z x y _ _ e

theorem rowLoop_size {Shared : Type} (f : Nat → Shared → α → α) (sh : Shared) (order : List Nat) (a : Array α) :
    (rowLoop f sh order a).size = a.size := by
  unfold rowLoop
  induction order generalizing a with
  | nil => rfl
  | cons r rest ih => rw [List.foldl_cons, ih, Array.size_modify]

/-- the result of the row loop, explicitly, for any duplicate-free order (in particular any permutation of
    `startrow ≤ r < stoprow`): row `i` is `f i sh` of the ORIGINAL row `i` if `i` is iterated, else unchanged -/
theorem rowLoop_spec {Shared : Type} (f : Nat → Shared → α → α) (sh : Shared) (order : List Nat)
    (hnd : order.Nodup) (a : Array α) (i : Nat) :
    (rowLoop f sh order a)[i]? = if i ∈ order then (a[i]?).map (f i sh) else a[i]? := by
  induction order generalizing a with
  | nil => simp [rowLoop]
  | cons r rest ih =>
    rw [List.nodup_cons] at hnd
    have := ih hnd.2 (a.modify r (f r sh))
    show (rowLoop f sh rest (a.modify r (f r sh)))[i]? = _
    rw [this, Array.getElem?_modify]
    by_cases e : r = i
    · subst e; simp [hnd.1]
    · have e' : ¬ i = r := fun h => e h.symm
      simp [e, e']

/-- the permutations of `startrow ≤ r < stoprow` are duplicate-free orders -/
theorem nodup_of_perm_range {order : List Nat} {lo n : Nat} (p : order.Perm (List.range' lo n)) : order.Nodup :=
  p.nodup_iff.2 (List.nodup_range')

end ParFor

/-! ### non-vacuity -/

/-- two threads with different programs, an interleaving that alternates between them -/
example : ∃ (steps : Bool → List (Step Nat Nat)) (l : List (Bool × Step Nat Nat)),
    Interleaving steps l ∧ l.length = 3 :=
  ⟨fun t => if t then [fun p s => p * s] else [fun p s => p + s, fun p s => p + 2 * s],
   _, interleaving_seq_two _ _, rfl⟩

/-- a row-local body exists that really depends on the shared data and on the old row content -/
example : RowLocal (fun (r : Nat) (σ : Nat → Nat) => upd σ r (σ r + 7 * r)) :=
  ⟨fun r σ i h => upd_other _ _ _ _ h, fun r σ σ' h => by show upd σ r _ r = upd σ' r _ r; rw [upd_same, upd_same, h]⟩

/-- a non-trivial permutation of the iteration space `2 ≤ r < 6` -/
example : [5, 3, 2, 4].Perm (List.range' 2 (6 - 2)) := by decide

end M4ri.Sched
