/-
  Bridge between the three storeys of the model:
    * W storey  `Mzd`  (rows of 64-bit words, `M4ri/Mzd.lean`),
    * R storey  `BMat` (one `Nat` per row, `M4ri/BMat.lean`),
    * the executable entry-wise specification functions `s…` of `M4ri/Spec.lean`.
  Contents: `packWords`/`unpackWords` bit lemmas, the lens `toB`/`putB`/`ofB` (get-put, put-get, WF),
  `BMat.ofFn` and one `get` lemma per specification function, extensionality for both storeys and the
  packaging lemma `Mzd.eq_putB_of_bit` used to state the property theorems.
-/
import M4riProofs.Basic
import M4riProofs.RowSwap
import M4ri.Spec
namespace M4ri

/-! ### 1. `packWords` -/

theorem packList_testBit (l : List Word) (p : Nat) :
    (l.foldr (fun w acc => acc <<< 64 ||| w.toNat) 0).testBit p
      = (l.getD (p / 64) 0).getLsbD (p % 64) := by
  induction l generalizing p with
  | nil => simp
  | cons w t ih =>
    simp only [List.foldr_cons, Nat.testBit_or, Nat.testBit_shiftLeft, ih]
    by_cases hp : p < 64
    · have h0 : p / 64 = 0 := by omega
      have h1 : p % 64 = p := by omega
      have : ¬ p ≥ 64 := by omega
      simp [h0, h1, this, BitVec.getLsbD]
    · have h0 : p / 64 = (p - 64) / 64 + 1 := by omega
      have h1 : (p - 64) % 64 = p % 64 := by omega
      have h2 : w.toNat.testBit p = false := by
        apply Nat.testBit_lt_two_pow
        have := w.isLt
        have : 2 ^ 64 ≤ 2 ^ p := Nat.pow_le_pow_right (by omega) (by omega)
        omega
      have : p ≥ 64 := by omega
      simp [h0, h1, h2, this]

/-- bit `p` of the packed row is bit `p % 64` of word `p / 64` (for EVERY `p`: `Row.w` reads 0 out of range) -/
theorem packWords_testBit (r : Row) (p : Nat) :
    (packWords r).testBit p = (Row.w r (p / 64)).getLsbD (p % 64) := by
  unfold packWords Row.w
  rw [← Array.foldr_toList, packList_testBit]
  simp [Array.getD_eq_getD_getElem?, List.getD_eq_getElem?_getD]

theorem packWords_testBit_of_ge (r : Row) (p : Nat) (hp : 64 * r.size ≤ p) :
    (packWords r).testBit p = false := by
  rw [packWords_testBit, Row.w_of_ge _ _ (by omega)]; simp

theorem packWords_lt (r : Row) : packWords r < 2 ^ (64 * r.size) :=
  Nat.lt_pow_two_of_testBit _ fun i hi => packWords_testBit_of_ge r i hi

/-! ### 2. `unpackWords` -/

@[simp] theorem size_unpackWords (n width : Nat) : (unpackWords n width).size = width := by
  simp [unpackWords]

theorem unpackWords_w (n width k : Nat) (hk : k < width) :
    Row.w (unpackWords n width) k = BitVec.ofNat 64 (n >>> (64 * k)) := by
  simp [Row.w, unpackWords, Array.getD, hk]

theorem unpackWords_getD (n width k : Nat) (hk : k < width) :
    (unpackWords n width).getD k 0 = BitVec.ofNat 64 (n >>> (64 * k)) := unpackWords_w n width k hk

theorem unpackWords_getLsbD (n width k q : Nat) (hk : k < width) (hq : q < 64) :
    (Row.w (unpackWords n width) k).getLsbD q = n.testBit (64 * k + q) := by
  rw [unpackWords_w _ _ _ hk, BitVec.getLsbD_ofNat, Nat.testBit_shiftRight]
  simp [hq]

/-- unconditional form -/
theorem unpackWords_getLsbD' (n width k q : Nat) :
    (Row.w (unpackWords n width) k).getLsbD q = (decide (k < width ∧ q < 64) && n.testBit (64 * k + q)) := by
  by_cases hk : k < width
  · by_cases hq : q < 64
    · rw [unpackWords_getLsbD _ _ _ _ hk hq]; simp [hk, hq]
    · simp [hq, BitVec.getLsbD_of_ge _ _ (Nat.le_of_not_lt hq)]
  · rw [Row.w_of_ge _ _ (by simp; omega)]; simp [hk]

theorem packWords_unpackWords (n width : Nat) : packWords (unpackWords n width) = n % 2 ^ (64 * width) := by
  apply Nat.eq_of_testBit_eq
  intro p
  rw [packWords_testBit, unpackWords_getLsbD', Nat.testBit_mod_two_pow]
  have e : 64 * (p / 64) + p % 64 = p := by omega
  rw [e]
  congr 2
  apply propext
  constructor <;> intro h <;> omega

theorem unpackWords_packWords (r : Row) : unpackWords (packWords r) r.size = r := by
  apply Array.ext
  · simp
  · intro k h1 h2
    apply BitVec.eq_of_getLsbD_eq
    intro q hq
    have := unpackWords_getLsbD (packWords r) r.size k q h2 hq
    rw [Row.w_eq_getElem _ _ h1] at this
    rw [this, packWords_testBit]
    have e1 : (64 * k + q) / 64 = k := by omega
    have e2 : (64 * k + q) % 64 = q := by omega
    rw [e1, e2, Row.w_eq_getElem _ _ h2]

/-! ### extensionality -/

namespace BMat

theorem row_eq_getElem (B : BMat) (i : Nat) (h : i < B.rows.size) : B.row i = B.rows[i] := by
  simp [row, Array.getD, h]

theorem row_of_ge (B : BMat) (i : Nat) (h : B.rows.size ≤ i) : B.row i = 0 := by
  simp [row, Array.getD, Nat.not_lt.mpr h]

theorem get_of_ge_nrows {B : BMat} (h : B.WF) (i j : Nat) (hi : B.nrows ≤ i) : B.get i j = false := by
  unfold get; rw [row_of_ge _ _ (by rw [h.1]; exact hi)]; simp

theorem get_of_ge_ncols {B : BMat} (h : B.WF) (i j : Nat) (hj : B.ncols ≤ j) : B.get i j = false := by
  unfold get
  apply Nat.testBit_lt_two_pow
  exact Nat.lt_of_lt_of_le (h.2 i) (Nat.pow_le_pow_right (by omega) hj)

/-- a `BMat` whose rows have no bit at positions `≥ ncols` is well-formed -/
theorem WF_of_get {B : BMat} (h1 : B.rows.size = B.nrows) (h2 : ∀ i j, B.ncols ≤ j → B.get i j = false) :
    B.WF := ⟨h1, fun i => Nat.lt_pow_two_of_testBit _ fun j hj => h2 i j hj⟩

/-- two well-formed matrices of the same shape with the same entries are equal -/
theorem ext_get {A B : BMat} (hA : A.WF) (hB : B.WF) (hr : A.nrows = B.nrows) (hc : A.ncols = B.ncols)
    (h : ∀ i j, i < A.nrows → j < A.ncols → A.get i j = B.get i j) : A = B := by
  obtain ⟨ar, ac, arows⟩ := A
  obtain ⟨br, bc, brows⟩ := B
  simp only at hr hc
  subst hr hc
  congr 1
  apply Array.ext
  · rw [hA.1, hB.1]
  · intro i h1 h2
    have hi : i < ar := by have := hA.1; simp only at this; omega
    apply Nat.eq_of_testBit_eq
    intro j
    have e : ∀ j, BMat.get ⟨ar, ac, arows⟩ i j = BMat.get ⟨ar, ac, brows⟩ i j := by
      intro j
      by_cases hj : j < ac
      · exact h i j hi hj
      · rw [get_of_ge_ncols hA i j (Nat.le_of_not_lt hj), get_of_ge_ncols hB i j (Nat.le_of_not_lt hj)]
    have := e j
    unfold get at this
    rw [row_eq_getElem _ _ h1, row_eq_getElem _ _ h2] at this
    exact this

end BMat

namespace Mzd

theorem bit_of_ge_rows_B (M : Mzd) (i j : Nat) (h : M.rows.size ≤ i) : M.bit i j = false := by
  rw [bit_def, row_of_ge _ _ h]; simp [Row.w]

theorem bit_of_word_ge (M : Mzd) (i j : Nat) (h : (M.row i).size ≤ j / 64) : M.bit i j = false := by
  rw [bit_def, Row.w_of_ge _ _ h]; simp

/-- bit `q` of word `k` of row `i` is `bit i (64k+q)` -/
theorem getLsbD_w_row (M : Mzd) (i k q : Nat) (hq : q < 64) :
    (Row.w (M.row i) k).getLsbD q = M.bit i (64 * k + q) := by
  have e1 : (64 * k + q) / 64 = k := by omega
  have e2 : (64 * k + q) % 64 = q := by omega
  rw [bit_def, e1, e2]

/-- `Mzd.ext_bit`: two well-formed views of the same shape that agree on every stored bit
    (entries AND excess bits) are equal. -/
theorem ext_bit {M N : Mzd} (hM : M.WF) (hN : N.WF) (hr : M.nrows = N.nrows) (hc : M.ncols = N.ncols)
    (h : ∀ i j, i < M.nrows → j < 64 * M.width → M.bit i j = N.bit i j) : M = N := by
  have hw : M.width = N.width := by unfold width; rw [hc]
  obtain ⟨mr, mc, mrows⟩ := M
  obtain ⟨nr, nc, nrows⟩ := N
  simp only at hr hc
  subst hr hc
  congr 1
  have s1 : mrows.size = mr := hM.1
  have s2 : nrows.size = mr := hN.1
  apply Array.ext
  · rw [s1, s2]
  · intro i h1 h2
    have hi : i < mr := by omega
    have r1 := hM.2 i hi
    have r2 := hN.2 i hi
    have b := h i
    simp only [bit_def] at b
    rw [row_eq_getElem _ _ h1] at r1 b
    rw [row_eq_getElem _ _ h2] at r2 b
    simp only at r1 r2 b
    apply Array.ext
    · rw [r1, r2, hw]
    · intro k k1 k2
      apply BitVec.eq_of_getLsbD_eq
      intro q hq
      have := b (64 * k + q) hi (by rw [← r1]; omega)
      have e1 : (64 * k + q) / 64 = k := by omega
      have e2 : (64 * k + q) % 64 = q := by omega
      rw [e1, e2, Row.w_eq_getElem _ _ k1, Row.w_eq_getElem _ _ k2] at this
      exact this

/-! ### 3. `toB` (lens get) -/

@[simp] theorem nrows_toB (M : Mzd) : M.toB.nrows = M.nrows := id rfl
@[simp] theorem ncols_toB (M : Mzd) : M.toB.ncols = M.ncols := id rfl

theorem row_toB (M : Mzd) (i : Nat) : M.toB.row i = packWords (M.row i) % 2 ^ M.ncols := by
  unfold toB BMat.row row
  by_cases h : i < M.rows.size
  · simp [Array.getD, h]
  · simp [Array.getD, h, packWords]

/-- the abstract value of a view consists of exactly the entries `j < ncols` (no WF needed: rows that
    are not there read as zero on both sides) -/
theorem get_toB' (M : Mzd) (i j : Nat) : M.toB.get i j = (decide (j < M.ncols) && M.bit i j) := by
  unfold BMat.get
  rw [row_toB, Nat.testBit_mod_two_pow, packWords_testBit, bit_def]

theorem get_toB (M : Mzd) (i j : Nat) (_hM : M.WF) (_hi : i < M.nrows) :
    M.toB.get i j = (decide (j < M.ncols) && M.bit i j) := get_toB' M i j

@[simp] theorem get_toB_of_lt (M : Mzd) (i j : Nat) (hj : j < M.ncols) : M.toB.get i j = M.bit i j := by
  rw [get_toB']; simp [hj]

theorem WF_toB {M : Mzd} (hM : M.WF) : M.toB.WF := by
  refine ⟨?_, fun i => ?_⟩
  · show (M.rows.map _).size = M.nrows
    rw [Array.size_map]; exact hM.1
  · rw [row_toB]; exact Nat.mod_lt _ (Nat.two_pow_pos _)

/-! ### 4. `ofB` (fresh owned matrix) -/

@[simp] theorem nrows_ofB (B : BMat) : (ofB B).nrows = B.nrows := id rfl
@[simp] theorem ncols_ofB (B : BMat) : (ofB B).ncols = B.ncols := id rfl
@[simp] theorem width_ofB (B : BMat) : (ofB B).width = widthOf B.ncols := id rfl

theorem row_ofB (B : BMat) (i : Nat) (hi : i < B.nrows) :
    (ofB B).row i = unpackWords (B.row i % 2 ^ B.ncols) (widthOf B.ncols) := by
  simp [ofB, row, Array.getD, hi]

theorem WF_ofB (B : BMat) : (ofB B).WF := by
  refine ⟨by simp [ofB], fun i hi => ?_⟩
  rw [row_ofB _ _ hi]; simp

/-- every stored bit of `ofB B`: the entry inside, zero in the padding -/
theorem bit_ofB' (B : BMat) (i j : Nat) (hi : i < B.nrows) (hj : j < 64 * widthOf B.ncols) :
    (ofB B).bit i j = (decide (j < B.ncols) && B.get i j) := by
  rw [bit_def, row_ofB _ _ hi, unpackWords_getLsbD _ _ _ _ (by omega) (Nat.mod_lt _ (by omega)),
    Nat.testBit_mod_two_pow]
  have e : 64 * (j / 64) + j % 64 = j := by omega
  rw [e]; rfl

theorem bit_ofB (B : BMat) (i j : Nat) (hi : i < B.nrows) (hj : j < B.ncols) :
    (ofB B).bit i j = B.get i j := by
  rw [bit_ofB' B i j hi (by unfold widthOf; omega)]; simp [hj]

theorem padZero_ofB (B : BMat) : (ofB B).padZero := by
  intro i j hi hc hj
  rw [bit_ofB' B i j hi hj]
  have : ¬ j < B.ncols := by simp only [ncols_ofB] at hc; omega
  simp [this]

theorem toB_ofB {B : BMat} (hB : B.WF) : (ofB B).toB = B := by
  apply BMat.ext_get (WF_toB (WF_ofB B)) hB rfl rfl
  intro i j hi hj
  rw [get_toB_of_lt _ _ _ hj, bit_ofB B i j hi hj]

theorem ofB_toB {M : Mzd} (hM : M.WF) (hp : M.padZero) : ofB M.toB = M := by
  apply ext_bit (WF_ofB _) hM rfl rfl
  intro i j hi hj
  rw [bit_ofB' _ i j hi hj, get_toB']
  by_cases hc : j < M.ncols
  · simp [hc]
  · have := hp i j hi (by omega) hj
    rw [this]; simp

end Mzd

/-! ### 6. `BMat.ofFn` -/

/-- the bit-collecting fold used by `ofFn`, `BMat.transpose`, `sReadBits`, `sColSwaps` -/
theorem testBit_foldl_setBits (f : Nat → Bool) (c j : Nat) :
    ((List.range c).foldl (fun acc k => if f k then acc ||| (1 <<< k) else acc) 0).testBit j
      = (decide (j < c) && f j) := by
  induction c with
  | zero => simp
  | succ c ih =>
    rw [List.range_succ, List.foldl_append]
    simp only [List.foldl_cons, List.foldl_nil]
    by_cases hf : f c
    · rw [if_pos hf, Nat.testBit_or, ih, Nat.one_shiftLeft, Nat.testBit_two_pow]
      by_cases hjc : c = j
      · subst hjc; simp [hf]
      · have : (j < c + 1) = (j < c) := by apply propext; omega
        simp [hjc, this]
    · rw [if_neg hf, ih]
      by_cases hjc : c = j
      · subst hjc; simp [hf]
      · have : (j < c + 1) = (j < c) := by apply propext; omega
        simp [this]

namespace BMat

@[simp] theorem nrows_ofFn (r c : Nat) (f : Nat → Nat → Bool) : (ofFn r c f).nrows = r := id rfl
@[simp] theorem ncols_ofFn (r c : Nat) (f : Nat → Nat → Bool) : (ofFn r c f).ncols = c := id rfl

theorem row_ofFn (r c : Nat) (f : Nat → Nat → Bool) (i : Nat) (hi : i < r) :
    (ofFn r c f).row i = (List.range c).foldl (fun acc j => if f i j then acc ||| (1 <<< j) else acc) 0 := by
  simp [ofFn, row, Array.getD, hi]

/-- unconditional entry lemma for `ofFn` -/
theorem get_ofFn' (r c : Nat) (f : Nat → Nat → Bool) (i j : Nat) :
    (ofFn r c f).get i j = (decide (i < r ∧ j < c) && f i j) := by
  unfold get
  by_cases hi : i < r
  · rw [row_ofFn _ _ _ _ hi, testBit_foldl_setBits]; simp [hi]
  · rw [row_of_ge _ _ (by simp [ofFn]; omega)]; simp [hi]

@[simp] theorem get_ofFn (r c : Nat) (f : Nat → Nat → Bool) (i j : Nat) (hi : i < r) (hj : j < c) :
    (ofFn r c f).get i j = f i j := by
  rw [get_ofFn']; simp [hi, hj]

theorem WF_ofFn (r c : Nat) (f : Nat → Nat → Bool) : (ofFn r c f).WF := by
  apply WF_of_get
  · simp [ofFn]
  · intro i j hj
    rw [get_ofFn']
    have : ¬ j < c := by simp only [ncols_ofFn] at hj; omega
    simp [this]

/-- a well-formed matrix is `ofFn` of its own entries -/
theorem ofFn_get {B : BMat} (hB : B.WF) : ofFn B.nrows B.ncols B.get = B := by
  apply ext_get (WF_ofFn _ _ _) hB rfl rfl
  intro i j hi hj
  exact get_ofFn _ _ _ _ _ hi hj

/-- `ofFn` only looks at the entry function inside the range -/
theorem ofFn_congr (r c : Nat) (f g : Nat → Nat → Bool) (h : ∀ i j, i < r → j < c → f i j = g i j) :
    ofFn r c f = ofFn r c g := by
  apply ext_get (WF_ofFn r c f) (WF_ofFn r c g) rfl rfl
  intro i j hi hj
  simp only [nrows_ofFn, ncols_ofFn] at hi hj
  rw [get_ofFn _ _ _ _ _ hi hj, get_ofFn _ _ _ _ _ hi hj, h i j hi hj]

end BMat

/-! ### 5. `putB` (lens put) -/

namespace Mzd

@[simp] theorem nrows_putB (M : Mzd) (B : BMat) : (M.putB B).nrows = M.nrows := id rfl
@[simp] theorem ncols_putB (M : Mzd) (B : BMat) : (M.putB B).ncols = M.ncols := id rfl
@[simp] theorem width_putB (M : Mzd) (B : BMat) : (M.putB B).width = M.width := id rfl
@[simp] theorem hb_putB (M : Mzd) (B : BMat) : (M.putB B).hb = M.hb := id rfl
@[simp] theorem size_rows_putB (M : Mzd) (B : BMat) : (M.putB B).rows.size = M.rows.size := by
  simp [putB]

theorem row_putB (M : Mzd) (B : BMat) (i : Nat) (hi : i < M.rows.size) :
    (M.putB B).row i = (M.row i).mapIdx fun j w =>
      if j + 1 < M.width then (unpackWords (B.row i % 2 ^ M.ncols) M.width).getD j 0
      else if j + 1 = M.width then merge w ((unpackWords (B.row i % 2 ^ M.ncols) M.width).getD j 0) M.hb
      else w := by
  simp [putB, row, Array.getD, hi]

/-- shape preservation; no hypothesis on `B` at all -/
theorem WF_putB {M : Mzd} (hM : M.WF) (B : BMat) : (M.putB B).WF := by
  refine ⟨by rw [size_rows_putB]; exact hM.1, fun i hi => ?_⟩
  rw [row_putB _ _ _ (by rw [hM.1]; exact hi)]
  simp only [Array.size_mapIdx, width_putB]
  exact hM.2 i hi

/-- `putB` in the standard shape: entries from `B`, excess bits of `M` kept -/
theorem bit_putB (M : Mzd) (B : BMat) (hM : M.WF) (i j : Nat) (hi : i < M.nrows) (hj : j < 64 * M.width) :
    (M.putB B).bit i j = if j < M.ncols then B.get i j else M.bit i j := by
  have hjw : j / 64 < M.width := by omega
  have hq : j % 64 < 64 := Nat.mod_lt _ (by omega)
  have hc : 0 < M.ncols := by unfold width widthOf at hjw; omega
  have e : 64 * (j / 64) + j % 64 = j := by omega
  rw [bit_def, row_putB _ _ _ (by rw [hM.1]; exact hi),
    Row.w_mapIdx _ _ _ (by rw [hM.2 i hi]; exact hjw)]
  have key : ((unpackWords (B.row i % 2 ^ M.ncols) M.width).getD (j / 64) 0).getLsbD (j % 64)
      = (decide (j < M.ncols) && B.get i j) := by
    have := unpackWords_getLsbD (B.row i % 2 ^ M.ncols) M.width (j / 64) (j % 64) hjw hq
    rw [e, Nat.testBit_mod_two_pow] at this
    exact this
  by_cases h2 : j / 64 + 1 < M.width
  · have hjn : j < M.ncols := by unfold width widthOf at h2; omega
    rw [if_pos h2, key]; simp [hjn]
  · have h3 : j / 64 + 1 = M.width := by omega
    rw [if_neg h2, if_pos h3, merge_getLsbD, key, hb_getLsbD M _ hq hc]
    have : 64 * (M.width - 1) + j % 64 = j := by omega
    rw [this]
    by_cases hjn : j < M.ncols
    · simp [hjn]
    · simp [hjn, bit_def]

theorem bit_putB_of_lt (M : Mzd) (B : BMat) (hM : M.WF) (i j : Nat) (hi : i < M.nrows) (hj : j < M.ncols) :
    (M.putB B).bit i j = B.get i j := by
  rw [bit_putB M B hM i j hi (by unfold width widthOf; omega)]; simp [hj]

theorem bit_putB_of_ge (M : Mzd) (B : BMat) (hM : M.WF) (i j : Nat) (hi : i < M.nrows)
    (hj : M.ncols ≤ j) (hj' : j < 64 * M.width) : (M.putB B).bit i j = M.bit i j := by
  rw [bit_putB M B hM i j hi hj']; simp [Nat.not_lt.mpr hj]

/-- put-get in general: what comes back is `B` restricted to the shape of `M` -/
theorem toB_putB' {M : Mzd} (hM : M.WF) (B : BMat) :
    (M.putB B).toB = BMat.ofFn M.nrows M.ncols B.get := by
  apply BMat.ext_get (WF_toB (WF_putB hM B)) (BMat.WF_ofFn _ _ _) rfl rfl
  intro i j hi hj
  simp only [nrows_toB, ncols_toB, nrows_putB, ncols_putB] at hi hj
  rw [get_toB_of_lt (M.putB B) i j hj, bit_putB_of_lt M B hM i j hi hj]
  exact (BMat.get_ofFn _ _ _ _ _ hi hj).symm

/-- put-get lens law -/
theorem toB_putB {M : Mzd} (hM : M.WF) {B : BMat} (hB : B.WF)
    (hr : B.nrows = M.nrows) (hc : B.ncols = M.ncols) : (M.putB B).toB = B := by
  rw [toB_putB' hM, ← hr, ← hc, BMat.ofFn_get hB]

/-- `Mzd.eq_putB_of_bit`, the packaging lemma: a W-level result in the standard shape
    (entries given by `S`, excess bits of `D` kept, same shape) IS `D.putB S`. -/
theorem eq_putB_of_bit {M' D : Mzd} {S : BMat} (hM' : M'.WF) (hD : D.WF)
    (hr : M'.nrows = D.nrows) (hc : M'.ncols = D.ncols)
    (h : ∀ i j, i < D.nrows → j < 64 * D.width →
      M'.bit i j = if j < D.ncols then S.get i j else D.bit i j) : M' = D.putB S := by
  have hw : M'.width = D.width := by unfold width; rw [hc]
  apply ext_bit hM' (WF_putB hD S) hr hc
  intro i j hi hj
  rw [hr] at hi
  rw [hw] at hj
  rw [h i j hi hj, bit_putB D S hD i j hi hj]

/-- converse of the packaging lemma -/
theorem bit_of_eq_putB {M' D : Mzd} {S : BMat} (hD : D.WF) (h : M' = D.putB S) :
    M'.WF ∧ M'.nrows = D.nrows ∧ M'.ncols = D.ncols ∧
    ∀ i j, i < D.nrows → j < 64 * D.width →
      M'.bit i j = if j < D.ncols then S.get i j else D.bit i j := by
  subst h
  exact ⟨WF_putB hD S, rfl, rfl, fun i j hi hj => bit_putB D S hD i j hi hj⟩

/-- get-put lens law -/
theorem putB_toB {M : Mzd} (hM : M.WF) : M.putB M.toB = M := by
  symm
  apply eq_putB_of_bit hM hM rfl rfl
  intro i j hi hj
  by_cases hjn : j < M.ncols
  · simp [hjn]
  · simp [hjn]

/-- put-put lens law -/
theorem putB_putB {M : Mzd} (hM : M.WF) (B B' : BMat) : (M.putB B).putB B' = M.putB B' := by
  apply eq_putB_of_bit (WF_putB (WF_putB hM B) B') hM rfl rfl
  intro i j hi hj
  rw [bit_putB _ B' (WF_putB hM B) i j hi hj]
  simp only [ncols_putB]
  by_cases hjn : j < M.ncols
  · simp [hjn]
  · simp only [hjn, if_false]
    exact bit_putB_of_ge M B hM i j hi (Nat.le_of_not_lt hjn) hj

/-- `putB` only looks at the entries of `B` inside the shape of `M` -/
theorem putB_congr {M : Mzd} (hM : M.WF) (B B' : BMat)
    (h : ∀ i j, i < M.nrows → j < M.ncols → B.get i j = B'.get i j) : M.putB B = M.putB B' := by
  apply eq_putB_of_bit (WF_putB hM B) hM rfl rfl
  intro i j hi hj
  rw [bit_putB M B hM i j hi hj]
  by_cases hjn : j < M.ncols
  · simp [hjn, h i j hi hjn]
  · simp [hjn]

/-- on an owned (zero-padded) matrix, `putB` is `ofB` -/
theorem putB_eq_ofB {M : Mzd} (hM : M.WF) (hp : M.padZero) (B : BMat)
    (hr : B.nrows = M.nrows) (hc : B.ncols = M.ncols) : M.putB B = ofB B := by
  symm
  apply eq_putB_of_bit (WF_ofB B) hM hr hc
  intro i j hi hj
  have hw : M.width = widthOf B.ncols := by unfold width; rw [hc]
  rw [bit_ofB' B i j (by omega) (by rw [← hw]; exact hj), hc]
  by_cases hjn : j < M.ncols
  · simp [hjn]
  · simp [hjn, hp i j hi (Nat.le_of_not_lt hjn) hj]

/-- `putB` preserves the padding invariant -/
theorem padZero_putB {M : Mzd} (hM : M.WF) (hp : M.padZero) (B : BMat) : (M.putB B).padZero := by
  intro i j hi hc hj
  simp only [nrows_putB, ncols_putB, width_putB] at hi hc hj
  rw [bit_putB_of_ge M B hM i j hi hc hj]
  exact hp i j hi hc hj

/-- two views with the same shape, the same abstract value and the same excess bits are equal -/
theorem eq_of_toB_eq {M N : Mzd} (hM : M.WF) (hN : N.WF) (hr : M.nrows = N.nrows) (hc : M.ncols = N.ncols)
    (h : M.toB = N.toB)
    (hx : ∀ i j, i < M.nrows → M.ncols ≤ j → j < 64 * M.width → M.bit i j = N.bit i j) : M = N := by
  apply ext_bit hM hN hr hc
  intro i j hi hj
  by_cases hjn : j < M.ncols
  · rw [← get_toB_of_lt M i j hjn, h, get_toB_of_lt N i j (by omega)]
  · exact hx i j hi (Nat.le_of_not_lt hjn) hj

end Mzd

/-! ### 7. entry-wise meaning of the specification functions of `M4ri/Spec.lean`

  For every `s…` function: `nrows_…`, `ncols_…` (`rfl`, simp), `WF_…`, the unconditional entry lemma
  `get_…'` (with the range guard as a `decide`) and the in-range `@[simp]` lemma `get_…`. -/

namespace BMat

@[simp] theorem nrows_sRowSwapFrom (B : BMat) (a b sb : Nat) : (sRowSwapFrom B a b sb).nrows = B.nrows := id rfl
@[simp] theorem ncols_sRowSwapFrom (B : BMat) (a b sb : Nat) : (sRowSwapFrom B a b sb).ncols = B.ncols := id rfl
theorem WF_sRowSwapFrom (B : BMat) (a b sb : Nat) : (sRowSwapFrom B a b sb).WF := WF_ofFn _ _ _
theorem get_sRowSwapFrom' (B : BMat) (a b sb : Nat) (i j : Nat) :
    (sRowSwapFrom B a b sb).get i j = (decide (i < B.nrows ∧ j < B.ncols) &&
      (if j / 64 < sb then B.get i j else B.get (if i = a then b else if i = b then a else i) j)) := get_ofFn' _ _ _ i j
@[simp] theorem get_sRowSwapFrom (B : BMat) (a b sb : Nat) (i j : Nat) (hi : i < B.nrows) (hj : j < B.ncols) :
    (sRowSwapFrom B a b sb).get i j =
      (if j / 64 < sb then B.get i j else B.get (if i = a then b else if i = b then a else i) j) := get_ofFn _ _ _ i j hi hj

@[simp] theorem nrows_sColSwapInRows (B : BMat) (a b s e : Nat) : (sColSwapInRows B a b s e).nrows = B.nrows := id rfl
@[simp] theorem ncols_sColSwapInRows (B : BMat) (a b s e : Nat) : (sColSwapInRows B a b s e).ncols = B.ncols := id rfl
theorem WF_sColSwapInRows (B : BMat) (a b s e : Nat) : (sColSwapInRows B a b s e).WF := WF_ofFn _ _ _
theorem get_sColSwapInRows' (B : BMat) (a b s e : Nat) (i j : Nat) :
    (sColSwapInRows B a b s e).get i j = (decide (i < B.nrows ∧ j < B.ncols) &&
      (if s ≤ i ∧ i < e then B.get i (if j = a then b else if j = b then a else j) else B.get i j)) := get_ofFn' _ _ _ i j
@[simp] theorem get_sColSwapInRows (B : BMat) (a b s e : Nat) (i j : Nat) (hi : i < B.nrows) (hj : j < B.ncols) :
    (sColSwapInRows B a b s e).get i j =
      (if s ≤ i ∧ i < e then B.get i (if j = a then b else if j = b then a else j) else B.get i j) := get_ofFn _ _ _ i j hi hj

@[simp] theorem nrows_sRowAddOffset (B : BMat) (dst src off : Nat) : (sRowAddOffset B dst src off).nrows = B.nrows := id rfl
@[simp] theorem ncols_sRowAddOffset (B : BMat) (dst src off : Nat) : (sRowAddOffset B dst src off).ncols = B.ncols := id rfl
theorem WF_sRowAddOffset (B : BMat) (dst src off : Nat) : (sRowAddOffset B dst src off).WF := WF_ofFn _ _ _
theorem get_sRowAddOffset' (B : BMat) (dst src off : Nat) (i j : Nat) :
    (sRowAddOffset B dst src off).get i j = (decide (i < B.nrows ∧ j < B.ncols) &&
      (if i = dst ∧ off ≤ j then (B.get dst j != B.get src j) else B.get i j)) := get_ofFn' _ _ _ i j
@[simp] theorem get_sRowAddOffset (B : BMat) (dst src off : Nat) (i j : Nat) (hi : i < B.nrows) (hj : j < B.ncols) :
    (sRowAddOffset B dst src off).get i j =
      (if i = dst ∧ off ≤ j then (B.get dst j != B.get src j) else B.get i j) := get_ofFn _ _ _ i j hi hj

@[simp] theorem nrows_sRowClearOffset (B : BMat) (row off : Nat) : (sRowClearOffset B row off).nrows = B.nrows := id rfl
@[simp] theorem ncols_sRowClearOffset (B : BMat) (row off : Nat) : (sRowClearOffset B row off).ncols = B.ncols := id rfl
theorem WF_sRowClearOffset (B : BMat) (row off : Nat) : (sRowClearOffset B row off).WF := WF_ofFn _ _ _
theorem get_sRowClearOffset' (B : BMat) (row off : Nat) (i j : Nat) :
    (sRowClearOffset B row off).get i j = (decide (i < B.nrows ∧ j < B.ncols) &&
      (if i = row ∧ off ≤ j then false else B.get i j)) := get_ofFn' _ _ _ i j
@[simp] theorem get_sRowClearOffset (B : BMat) (row off : Nat) (i j : Nat) (hi : i < B.nrows) (hj : j < B.ncols) :
    (sRowClearOffset B row off).get i j =
      (if i = row ∧ off ≤ j then false else B.get i j) := get_ofFn _ _ _ i j hi hj

@[simp] theorem nrows_sWriteBit (B : BMat) (r c : Nat) (v : Bool) : (sWriteBit B r c v).nrows = B.nrows := id rfl
@[simp] theorem ncols_sWriteBit (B : BMat) (r c : Nat) (v : Bool) : (sWriteBit B r c v).ncols = B.ncols := id rfl
theorem WF_sWriteBit (B : BMat) (r c : Nat) (v : Bool) : (sWriteBit B r c v).WF := WF_ofFn _ _ _
theorem get_sWriteBit' (B : BMat) (r c : Nat) (v : Bool) (i j : Nat) :
    (sWriteBit B r c v).get i j = (decide (i < B.nrows ∧ j < B.ncols) &&
      (if i = r ∧ j = c then v else B.get i j)) := get_ofFn' _ _ _ i j
@[simp] theorem get_sWriteBit (B : BMat) (r c : Nat) (v : Bool) (i j : Nat) (hi : i < B.nrows) (hj : j < B.ncols) :
    (sWriteBit B r c v).get i j =
      (if i = r ∧ j = c then v else B.get i j) := get_ofFn _ _ _ i j hi hj

@[simp] theorem nrows_sXorBits (B : BMat) (x y n v : Nat) : (sXorBits B x y n v).nrows = B.nrows := id rfl
@[simp] theorem ncols_sXorBits (B : BMat) (x y n v : Nat) : (sXorBits B x y n v).ncols = B.ncols := id rfl
theorem WF_sXorBits (B : BMat) (x y n v : Nat) : (sXorBits B x y n v).WF := WF_ofFn _ _ _
theorem get_sXorBits' (B : BMat) (x y n v : Nat) (i j : Nat) :
    (sXorBits B x y n v).get i j = (decide (i < B.nrows ∧ j < B.ncols) &&
      (if i = x ∧ y ≤ j ∧ j < y + n then (B.get i j != v.testBit (j - y)) else B.get i j)) := get_ofFn' _ _ _ i j
@[simp] theorem get_sXorBits (B : BMat) (x y n v : Nat) (i j : Nat) (hi : i < B.nrows) (hj : j < B.ncols) :
    (sXorBits B x y n v).get i j =
      (if i = x ∧ y ≤ j ∧ j < y + n then (B.get i j != v.testBit (j - y)) else B.get i j) := get_ofFn _ _ _ i j hi hj

@[simp] theorem nrows_sAndBits (B : BMat) (x y n v : Nat) : (sAndBits B x y n v).nrows = B.nrows := id rfl
@[simp] theorem ncols_sAndBits (B : BMat) (x y n v : Nat) : (sAndBits B x y n v).ncols = B.ncols := id rfl
theorem WF_sAndBits (B : BMat) (x y n v : Nat) : (sAndBits B x y n v).WF := WF_ofFn _ _ _
theorem get_sAndBits' (B : BMat) (x y n v : Nat) (i j : Nat) :
    (sAndBits B x y n v).get i j = (decide (i < B.nrows ∧ j < B.ncols) &&
      (if i = x ∧ y ≤ j ∧ j < y + n then (B.get i j && (v >>> (64 - n)).testBit (j - y)) else B.get i j)) := get_ofFn' _ _ _ i j
@[simp] theorem get_sAndBits (B : BMat) (x y n v : Nat) (i j : Nat) (hi : i < B.nrows) (hj : j < B.ncols) :
    (sAndBits B x y n v).get i j =
      (if i = x ∧ y ≤ j ∧ j < y + n then (B.get i j && (v >>> (64 - n)).testBit (j - y)) else B.get i j) := get_ofFn _ _ _ i j hi hj

@[simp] theorem nrows_sClearBits (B : BMat) (x y n : Nat) : (sClearBits B x y n).nrows = B.nrows := id rfl
@[simp] theorem ncols_sClearBits (B : BMat) (x y n : Nat) : (sClearBits B x y n).ncols = B.ncols := id rfl
theorem WF_sClearBits (B : BMat) (x y n : Nat) : (sClearBits B x y n).WF := WF_ofFn _ _ _
theorem get_sClearBits' (B : BMat) (x y n : Nat) (i j : Nat) :
    (sClearBits B x y n).get i j = (decide (i < B.nrows ∧ j < B.ncols) &&
      (if i = x ∧ y ≤ j ∧ j < y + n then false else B.get i j)) := get_ofFn' _ _ _ i j
@[simp] theorem get_sClearBits (B : BMat) (x y n : Nat) (i j : Nat) (hi : i < B.nrows) (hj : j < B.ncols) :
    (sClearBits B x y n).get i j =
      (if i = x ∧ y ≤ j ∧ j < y + n then false else B.get i j) := get_ofFn _ _ _ i j hi hj

@[simp] theorem nrows_sCombineInPlace (A : BMat) (ar as : Nat) (B : BMat) (br bs : Nat) : (sCombineInPlace A ar as B br bs).nrows = A.nrows := id rfl
@[simp] theorem ncols_sCombineInPlace (A : BMat) (ar as : Nat) (B : BMat) (br bs : Nat) : (sCombineInPlace A ar as B br bs).ncols = A.ncols := id rfl
theorem WF_sCombineInPlace (A : BMat) (ar as : Nat) (B : BMat) (br bs : Nat) : (sCombineInPlace A ar as B br bs).WF := WF_ofFn _ _ _
theorem get_sCombineInPlace' (A : BMat) (ar as : Nat) (B : BMat) (br bs : Nat) (i j : Nat) :
    (sCombineInPlace A ar as B br bs).get i j = (decide (i < A.nrows ∧ j < A.ncols) &&
      (if i = ar ∧ 64 * as ≤ j then (A.get i j != B.get br (j - 64 * as + 64 * bs)) else A.get i j)) := get_ofFn' _ _ _ i j
@[simp] theorem get_sCombineInPlace (A : BMat) (ar as : Nat) (B : BMat) (br bs : Nat) (i j : Nat) (hi : i < A.nrows) (hj : j < A.ncols) :
    (sCombineInPlace A ar as B br bs).get i j =
      (if i = ar ∧ 64 * as ≤ j then (A.get i j != B.get br (j - 64 * as + 64 * bs)) else A.get i j) := get_ofFn _ _ _ i j hi hj

@[simp] theorem nrows_sCombineEven (C : BMat) (cr cs : Nat) (A : BMat) (ar as : Nat) (B : BMat) (br bs : Nat) : (sCombineEven C cr cs A ar as B br bs).nrows = C.nrows := id rfl
@[simp] theorem ncols_sCombineEven (C : BMat) (cr cs : Nat) (A : BMat) (ar as : Nat) (B : BMat) (br bs : Nat) : (sCombineEven C cr cs A ar as B br bs).ncols = C.ncols := id rfl
theorem WF_sCombineEven (C : BMat) (cr cs : Nat) (A : BMat) (ar as : Nat) (B : BMat) (br bs : Nat) : (sCombineEven C cr cs A ar as B br bs).WF := WF_ofFn _ _ _
theorem get_sCombineEven' (C : BMat) (cr cs : Nat) (A : BMat) (ar as : Nat) (B : BMat) (br bs : Nat) (i j : Nat) :
    (sCombineEven C cr cs A ar as B br bs).get i j = (decide (i < C.nrows ∧ j < C.ncols) &&
      (if i = cr ∧ 64 * cs ≤ j ∧ (j - 64 * cs + 64 * as) < A.ncols then
        (A.get ar (j - 64 * cs + 64 * as) != B.get br (j - 64 * cs + 64 * bs))
      else C.get i j)) := get_ofFn' _ _ _ i j
@[simp] theorem get_sCombineEven (C : BMat) (cr cs : Nat) (A : BMat) (ar as : Nat) (B : BMat) (br bs : Nat) (i j : Nat) (hi : i < C.nrows) (hj : j < C.ncols) :
    (sCombineEven C cr cs A ar as B br bs).get i j =
      (if i = cr ∧ 64 * cs ≤ j ∧ (j - 64 * cs + 64 * as) < A.ncols then
        (A.get ar (j - 64 * cs + 64 * as) != B.get br (j - 64 * cs + 64 * bs))
      else C.get i j) := get_ofFn _ _ _ i j hi hj

@[simp] theorem nrows_sSetUi (B : BMat) (v : Nat) : (sSetUi B v).nrows = B.nrows := id rfl
@[simp] theorem ncols_sSetUi (B : BMat) (v : Nat) : (sSetUi B v).ncols = B.ncols := id rfl
theorem WF_sSetUi (B : BMat) (v : Nat) : (sSetUi B v).WF := WF_ofFn _ _ _
theorem get_sSetUi' (B : BMat) (v : Nat) (i j : Nat) :
    (sSetUi B v).get i j = (decide (i < B.nrows ∧ j < B.ncols) &&
      (decide (v % 2 = 1 ∧ i = j))) := get_ofFn' _ _ _ i j
@[simp] theorem get_sSetUi (B : BMat) (v : Nat) (i j : Nat) (hi : i < B.nrows) (hj : j < B.ncols) :
    (sSetUi B v).get i j =
      (decide (v % 2 = 1 ∧ i = j)) := get_ofFn _ _ _ i j hi hj

@[simp] theorem nrows_sCopyInto (N P : BMat) : (sCopyInto N P).nrows = N.nrows := id rfl
@[simp] theorem ncols_sCopyInto (N P : BMat) : (sCopyInto N P).ncols = N.ncols := id rfl
theorem WF_sCopyInto (N P : BMat) : (sCopyInto N P).WF := WF_ofFn _ _ _
theorem get_sCopyInto' (N P : BMat) (i j : Nat) :
    (sCopyInto N P).get i j = (decide (i < N.nrows ∧ j < N.ncols) &&
      (if i < P.nrows ∧ j < P.ncols then P.get i j else N.get i j)) := get_ofFn' _ _ _ i j
@[simp] theorem get_sCopyInto (N P : BMat) (i j : Nat) (hi : i < N.nrows) (hj : j < N.ncols) :
    (sCopyInto N P).get i j =
      (if i < P.nrows ∧ j < P.ncols then P.get i j else N.get i j) := get_ofFn _ _ _ i j hi hj

@[simp] theorem nrows_sCopyRow (B : BMat) (r : Nat) (A : BMat) (k : Nat) : (sCopyRow B r A k).nrows = B.nrows := id rfl
@[simp] theorem ncols_sCopyRow (B : BMat) (r : Nat) (A : BMat) (k : Nat) : (sCopyRow B r A k).ncols = B.ncols := id rfl
theorem WF_sCopyRow (B : BMat) (r : Nat) (A : BMat) (k : Nat) : (sCopyRow B r A k).WF := WF_ofFn _ _ _
theorem get_sCopyRow' (B : BMat) (r : Nat) (A : BMat) (k : Nat) (i j : Nat) :
    (sCopyRow B r A k).get i j = (decide (i < B.nrows ∧ j < B.ncols) &&
      (if i = r ∧ j < A.ncols then A.get k j else B.get i j)) := get_ofFn' _ _ _ i j
@[simp] theorem get_sCopyRow (B : BMat) (r : Nat) (A : BMat) (k : Nat) (i j : Nat) (hi : i < B.nrows) (hj : j < B.ncols) :
    (sCopyRow B r A k).get i j =
      (if i = r ∧ j < A.ncols then A.get k j else B.get i j) := get_ofFn _ _ _ i j hi hj

@[simp] theorem nrows_sAdd (A B : BMat) : (sAdd A B).nrows = A.nrows := id rfl
@[simp] theorem ncols_sAdd (A B : BMat) : (sAdd A B).ncols = A.ncols := id rfl
theorem WF_sAdd (A B : BMat) : (sAdd A B).WF := WF_ofFn _ _ _
theorem get_sAdd' (A B : BMat) (i j : Nat) :
    (sAdd A B).get i j = (decide (i < A.nrows ∧ j < A.ncols) &&
      ((A.get i j != B.get i j))) := get_ofFn' _ _ _ i j
@[simp] theorem get_sAdd (A B : BMat) (i j : Nat) (hi : i < A.nrows) (hj : j < A.ncols) :
    (sAdd A B).get i j =
      ((A.get i j != B.get i j)) := get_ofFn _ _ _ i j hi hj

@[simp] theorem nrows_sSubmatrix (M : BMat) (lr lc hr hc : Nat) : (sSubmatrix M lr lc hr hc).nrows = (hr - lr) := id rfl
@[simp] theorem ncols_sSubmatrix (M : BMat) (lr lc hr hc : Nat) : (sSubmatrix M lr lc hr hc).ncols = (hc - lc) := id rfl
theorem WF_sSubmatrix (M : BMat) (lr lc hr hc : Nat) : (sSubmatrix M lr lc hr hc).WF := WF_ofFn _ _ _
theorem get_sSubmatrix' (M : BMat) (lr lc hr hc : Nat) (i j : Nat) :
    (sSubmatrix M lr lc hr hc).get i j = (decide (i < (hr - lr) ∧ j < (hc - lc)) &&
      (M.get (lr + i) (lc + j))) := get_ofFn' _ _ _ i j
@[simp] theorem get_sSubmatrix (M : BMat) (lr lc hr hc : Nat) (i j : Nat) (hi : i < (hr - lr)) (hj : j < (hc - lc)) :
    (sSubmatrix M lr lc hr hc).get i j =
      (M.get (lr + i) (lc + j)) := get_ofFn _ _ _ i j hi hj

@[simp] theorem nrows_sConcat (A B : BMat) : (sConcat A B).nrows = A.nrows := id rfl
@[simp] theorem ncols_sConcat (A B : BMat) : (sConcat A B).ncols = (A.ncols + B.ncols) := id rfl
theorem WF_sConcat (A B : BMat) : (sConcat A B).WF := WF_ofFn _ _ _
theorem get_sConcat' (A B : BMat) (i j : Nat) :
    (sConcat A B).get i j = (decide (i < A.nrows ∧ j < (A.ncols + B.ncols)) &&
      (if j < A.ncols then A.get i j else B.get i (j - A.ncols))) := get_ofFn' _ _ _ i j
@[simp] theorem get_sConcat (A B : BMat) (i j : Nat) (hi : i < A.nrows) (hj : j < (A.ncols + B.ncols)) :
    (sConcat A B).get i j =
      (if j < A.ncols then A.get i j else B.get i (j - A.ncols)) := get_ofFn _ _ _ i j hi hj

@[simp] theorem nrows_sStack (A B : BMat) : (sStack A B).nrows = (A.nrows + B.nrows) := id rfl
@[simp] theorem ncols_sStack (A B : BMat) : (sStack A B).ncols = A.ncols := id rfl
theorem WF_sStack (A B : BMat) : (sStack A B).WF := WF_ofFn _ _ _
theorem get_sStack' (A B : BMat) (i j : Nat) :
    (sStack A B).get i j = (decide (i < (A.nrows + B.nrows) ∧ j < A.ncols) &&
      (if i < A.nrows then A.get i j else B.get (i - A.nrows) j)) := get_ofFn' _ _ _ i j
@[simp] theorem get_sStack (A B : BMat) (i j : Nat) (hi : i < (A.nrows + B.nrows)) (hj : j < A.ncols) :
    (sStack A B).get i j =
      (if i < A.nrows then A.get i j else B.get (i - A.nrows) j) := get_ofFn _ _ _ i j hi hj

@[simp] theorem nrows_sExtractU (A : BMat) : (sExtractU A).nrows = (min A.nrows A.ncols) := id rfl
@[simp] theorem ncols_sExtractU (A : BMat) : (sExtractU A).ncols = (min A.nrows A.ncols) := id rfl
theorem WF_sExtractU (A : BMat) : (sExtractU A).WF := WF_ofFn _ _ _
theorem get_sExtractU' (A : BMat) (i j : Nat) :
    (sExtractU A).get i j = (decide (i < (min A.nrows A.ncols) ∧ j < (min A.nrows A.ncols)) &&
      ((decide (i ≤ j) && A.get i j))) := by
  have := get_ofFn' (min A.nrows A.ncols) (min A.nrows A.ncols) (fun i j => decide (i ≤ j ∧ A.get i j = true)) i j
  have e : decide (i ≤ j ∧ A.get i j = true) = (decide (i ≤ j) && A.get i j) := by simp
  rw [← e]; exact this
@[simp] theorem get_sExtractU (A : BMat) (i j : Nat) (hi : i < (min A.nrows A.ncols)) (hj : j < (min A.nrows A.ncols)) :
    (sExtractU A).get i j =
      ((decide (i ≤ j) && A.get i j)) := by
  rw [get_sExtractU']; simp [hi, hj]

@[simp] theorem nrows_sExtractL (A : BMat) : (sExtractL A).nrows = (min A.nrows A.ncols) := id rfl
@[simp] theorem ncols_sExtractL (A : BMat) : (sExtractL A).ncols = (min A.nrows A.ncols) := id rfl
theorem WF_sExtractL (A : BMat) : (sExtractL A).WF := WF_ofFn _ _ _
theorem get_sExtractL' (A : BMat) (i j : Nat) :
    (sExtractL A).get i j = (decide (i < (min A.nrows A.ncols) ∧ j < (min A.nrows A.ncols)) &&
      ((decide (j ≤ i) && A.get i j))) := by
  have := get_ofFn' (min A.nrows A.ncols) (min A.nrows A.ncols) (fun i j => decide (j ≤ i ∧ A.get i j = true)) i j
  have e : decide (j ≤ i ∧ A.get i j = true) = (decide (j ≤ i) && A.get i j) := by simp
  rw [← e]; exact this
@[simp] theorem get_sExtractL (A : BMat) (i j : Nat) (hi : i < (min A.nrows A.ncols)) (hj : j < (min A.nrows A.ncols)) :
    (sExtractL A).get i j =
      ((decide (j ≤ i) && A.get i j)) := by
  rw [get_sExtractL']; simp [hi, hj]

@[simp] theorem nrows_sTranspose (A : BMat) : (sTranspose A).nrows = A.ncols := id rfl
@[simp] theorem ncols_sTranspose (A : BMat) : (sTranspose A).ncols = A.nrows := id rfl
theorem WF_sTranspose (A : BMat) : (sTranspose A).WF := WF_ofFn _ _ _
theorem get_sTranspose' (A : BMat) (i j : Nat) :
    (sTranspose A).get i j = (decide (i < A.ncols ∧ j < A.nrows) &&
      (A.get j i)) := get_ofFn' _ _ _ i j
@[simp] theorem get_sTranspose (A : BMat) (i j : Nat) (hi : i < A.ncols) (hj : j < A.nrows) :
    (sTranspose A).get i j =
      (A.get j i) := get_ofFn _ _ _ i j hi hj

end BMat

/-! #### specification functions that are not written with `ofFn` -/

namespace BMat

@[simp] theorem nrows_sRowSwap (B : BMat) (a b : Nat) : (sRowSwap B a b).nrows = B.nrows := id rfl
@[simp] theorem ncols_sRowSwap (B : BMat) (a b : Nat) : (sRowSwap B a b).ncols = B.ncols := id rfl

theorem row_sRowSwap (B : BMat) (a b i : Nat) (hi : i < B.nrows) :
    (sRowSwap B a b).row i = B.row (if i = a then b else if i = b then a else i) := by
  simp [sRowSwap, row, Array.getD, hi]

theorem get_sRowSwap' (B : BMat) (a b i j : Nat) :
    (sRowSwap B a b).get i j =
      (decide (i < B.nrows) && B.get (if i = a then b else if i = b then a else i) j) := by
  unfold get
  by_cases hi : i < B.nrows
  · rw [row_sRowSwap _ _ _ _ hi]; simp [hi]
  · rw [row_of_ge _ _ (by simp [sRowSwap]; omega)]; simp [hi]

/-- `j` is unrestricted: the rows are exchanged as they are -/
@[simp] theorem get_sRowSwap (B : BMat) (a b i j : Nat) (hi : i < B.nrows) :
    (sRowSwap B a b).get i j = B.get (if i = a then b else if i = b then a else i) j := by
  rw [get_sRowSwap']; simp [hi]

theorem WF_sRowSwap {B : BMat} (hB : B.WF) (a b : Nat) : (sRowSwap B a b).WF := by
  apply WF_of_get
  · simp [sRowSwap]
  · intro i j hj
    rw [get_sRowSwap', get_of_ge_ncols hB _ _ hj]; simp

/-- `sRowSwap` is `sRowSwapFrom … 0` -/
theorem sRowSwapFrom_zero {B : BMat} (hB : B.WF) (a b : Nat) : sRowSwapFrom B a b 0 = sRowSwap B a b := by
  apply ext_get (WF_sRowSwapFrom _ _ _ _) (WF_sRowSwap hB a b) rfl rfl
  intro i j hi hj
  simp only [nrows_sRowSwapFrom, ncols_sRowSwapFrom] at hi hj
  rw [get_sRowSwapFrom _ _ _ _ _ _ hi hj, get_sRowSwap _ _ _ _ _ hi]
  simp

/-- the fold-based `BMat.transpose` IS the specification `sTranspose` -/
theorem transpose_eq_sTranspose (B : BMat) : B.transpose = sTranspose B := rfl

@[simp] theorem nrows_transpose (B : BMat) : B.transpose.nrows = B.ncols := id rfl
@[simp] theorem ncols_transpose (B : BMat) : B.transpose.ncols = B.nrows := id rfl
theorem WF_transpose (B : BMat) : B.transpose.WF := WF_sTranspose B

theorem get_transpose' (B : BMat) (i j : Nat) :
    B.transpose.get i j = (decide (i < B.ncols ∧ j < B.nrows) && B.get j i) := get_sTranspose' B i j

@[simp] theorem get_transpose (B : BMat) (i j : Nat) (hi : i < B.ncols) (hj : j < B.nrows) :
    B.transpose.get i j = B.get j i := get_sTranspose B i j hi hj

/-- entries of the double transpose -/
theorem get_transpose_transpose (B : BMat) (i j : Nat) (hi : i < B.nrows) (hj : j < B.ncols) :
    B.transpose.transpose.get i j = B.get i j := by
  rw [get_transpose _ _ _ (by exact hi) (by exact hj), get_transpose _ _ _ hj hi]

/-- transposition is an involution on well-formed matrices -/
theorem transpose_transpose {B : BMat} (hB : B.WF) : B.transpose.transpose = B :=
  ext_get (WF_transpose _) hB rfl rfl fun i j hi hj => get_transpose_transpose B i j hi hj

theorem sTranspose_sTranspose {B : BMat} (hB : B.WF) : sTranspose (sTranspose B) = B :=
  transpose_transpose hB

/-! #### the remaining `BMat` constructors -/

@[simp] theorem get_zero (r c i j : Nat) : (zero r c).get i j = false := by
  unfold get zero row
  by_cases hi : i < r <;> simp [Array.getD, hi]

theorem WF_zero (r c : Nat) : (zero r c).WF :=
  WF_of_get (by simp [zero]) fun i j _ => get_zero r c i j

theorem get_identity (n i j : Nat) : (identity n).get i j = decide (i < n ∧ i = j) := by
  unfold get identity row
  by_cases hi : i < n
  · simp [Array.getD, hi, Nat.testBit_two_pow]
  · simp [Array.getD, hi]

theorem WF_identity (n : Nat) : (identity n).WF := by
  apply WF_of_get (by simp [identity])
  intro i j hj
  rw [get_identity]
  simp only [identity] at hj
  simp only [decide_eq_false_iff_not]
  omega

@[simp] theorem nrows_add (A B : BMat) : (A.add B).nrows = A.nrows := id rfl
@[simp] theorem ncols_add (A B : BMat) : (A.add B).ncols = A.ncols := id rfl

theorem get_add' (A B : BMat) (i j : Nat) :
    (A.add B).get i j = (decide (i < A.nrows) && (A.get i j != B.get i j)) := by
  unfold get add
  by_cases hi : i < A.nrows
  · simp [row, Array.getD, hi, Nat.testBit_xor]
  · simp [row, Array.getD, hi]

@[simp] theorem get_add (A B : BMat) (i j : Nat) (hi : i < A.nrows) :
    (A.add B).get i j = (A.get i j != B.get i j) := by
  rw [get_add']; simp [hi]

theorem WF_add {A B : BMat} (hA : A.WF) (hB : B.WF) (hc : B.ncols = A.ncols) : (A.add B).WF := by
  apply WF_of_get (by simp [add])
  intro i j hj
  rw [get_add', get_of_ge_ncols hA _ _ hj, get_of_ge_ncols hB _ _ (by rw [hc]; exact hj)]; simp

/-- word-parallel `add` agrees with the entry-wise `sAdd` -/
theorem add_eq_sAdd {A B : BMat} (hA : A.WF) (hB : B.WF) (hc : B.ncols = A.ncols) : A.add B = sAdd A B := by
  apply ext_get (WF_add hA hB hc) (WF_sAdd A B) rfl rfl
  intro i j hi hj
  simp only [nrows_add, ncols_add] at hi hj
  rw [get_add _ _ _ _ hi, get_sAdd _ _ _ _ hi hj]

/-- `sReadBits` collects the `n` entries `(x, y) … (x, y+n-1)`, least significant first -/
theorem testBit_sReadBits (B : BMat) (x y n k : Nat) :
    (sReadBits B x y n).testBit k = (decide (k < n) && B.get x (y + k)) :=
  testBit_foldl_setBits (fun k => B.get x (y + k)) n k

theorem sReadBits_lt (B : BMat) (x y n : Nat) : sReadBits B x y n < 2 ^ n := by
  apply Nat.lt_pow_two_of_testBit
  intro k hk
  rw [testBit_sReadBits]
  have : ¬ k < n := by omega
  simp [this]

theorem sEqual_iff (A B : BMat) :
    sEqual A B = true ↔ A.nrows = B.nrows ∧ A.ncols = B.ncols ∧
      ∀ i j, i < A.nrows → j < A.ncols → A.get i j = B.get i j := by
  simp only [sEqual, List.all_eq_true, Bool.decide_and, Bool.and_eq_true, decide_eq_true_eq,
    List.mem_range, beq_iff_eq]
  constructor
  · rintro ⟨h1, h2, h3⟩; exact ⟨h1, h2, fun i j hi hj => h3 i hi j hj⟩
  · rintro ⟨h1, h2, h3⟩; exact ⟨h1, h2, fun i hi j hj => h3 i j hi hj⟩

/-- on well-formed matrices `sEqual` decides equality -/
theorem sEqual_iff_eq {A B : BMat} (hA : A.WF) (hB : B.WF) : sEqual A B = true ↔ A = B := by
  rw [sEqual_iff]
  constructor
  · rintro ⟨h1, h2, h3⟩; exact ext_get hA hB h1 h2 h3
  · rintro rfl; exact ⟨rfl, rfl, fun _ _ _ _ => rfl⟩

theorem sIsZero_iff (A : BMat) :
    sIsZero A = true ↔ ∀ i j, i < A.nrows → j < A.ncols → A.get i j = false := by
  simp only [sIsZero, List.all_eq_true, List.mem_range, Bool.not_eq_true']
  constructor
  · intro h i j hi hj; exact h i hi j hj
  · intro h i hi j hj; exact h i j hi hj

end BMat

/-! ### 8. using the packaging lemma -/

namespace Mzd

/-- consequence of the standard shape for the abstract value: if `M'` has the entries of a well-formed
    `S` (whatever its excess bits are), then `M'.toB = S` -/
theorem toB_eq_of_bit {M' : Mzd} {S : BMat} (hM' : M'.WF) (hS : S.WF)
    (hr : S.nrows = M'.nrows) (hc : S.ncols = M'.ncols)
    (h : ∀ i j, i < M'.nrows → j < M'.ncols → M'.bit i j = S.get i j) : M'.toB = S := by
  apply BMat.ext_get (WF_toB hM') hS hr.symm hc.symm
  intro i j hi hj
  rw [get_toB_of_lt _ _ _ hj]
  exact h i j hi hj

/-- the abstract value of a result in the standard shape is the specification value -/
theorem toB_eq_of_std {M' D : Mzd} {S : BMat} (hM' : M'.WF) (hD : D.WF) (hS : S.WF)
    (hr : M'.nrows = D.nrows) (hc : M'.ncols = D.ncols) (hSr : S.nrows = D.nrows) (hSc : S.ncols = D.ncols)
    (h : ∀ i j, i < D.nrows → j < 64 * D.width →
      M'.bit i j = if j < D.ncols then S.get i j else D.bit i j) : M'.toB = S := by
  rw [eq_putB_of_bit hM' hD hr hc h]
  exact toB_putB hD hS hSr hSc

theorem nrows_rowSwapFrom (M : Mzd) (a b sb : Nat) : (M.rowSwapFrom a b sb).nrows = M.nrows := by
  unfold rowSwapFrom; split <;> rfl
theorem ncols_rowSwapFrom (M : Mzd) (a b sb : Nat) : (M.rowSwapFrom a b sb).ncols = M.ncols := by
  unfold rowSwapFrom; split <;> rfl

/-- Worked example of the packaging: `_mzd_row_swap` on a view is the lens-lift of the entry-wise
    specification `sRowSwapFrom` (entries swapped as specified, excess bits of the view untouched). -/
theorem rowSwapFrom_eq_putB (M : Mzd) (a b sb : Nat) (h : M.WF) (ha : a < M.nrows) (hb : b < M.nrows) :
    M.rowSwapFrom a b sb = M.putB (BMat.sRowSwapFrom M.toB a b sb) := by
  apply eq_putB_of_bit (rowSwapFrom_WF M a b sb h ha hb) h
    (nrows_rowSwapFrom M a b sb) (ncols_rowSwapFrom M a b sb)
  intro i j hi hj
  rw [rowSwapFrom_bit M a b sb h ha hb i j hi hj]
  by_cases hjn : j < M.ncols
  · have hp : (if i = a then b else if i = b then a else i) < M.nrows := by
      split
      · exact hb
      · split
        · exact ha
        · exact hi
    rw [if_pos hjn, BMat.get_sRowSwapFrom _ _ _ _ _ _ (by exact hi) (by exact hjn),
      get_toB_of_lt _ _ _ hjn, get_toB_of_lt _ _ _ hjn]
    by_cases hs : j / 64 < sb
    · have : ¬ sb ≤ j / 64 := by omega
      simp [hs, this]
    · have : sb ≤ j / 64 := by omega
      simp [hs, this, hjn]
  · simp [hjn]

/-- … hence on abstract values the model computes exactly the specification -/
theorem toB_rowSwapFrom (M : Mzd) (a b sb : Nat) (h : M.WF) (ha : a < M.nrows) (hb : b < M.nrows) :
    (M.rowSwapFrom a b sb).toB = BMat.sRowSwapFrom M.toB a b sb := by
  rw [rowSwapFrom_eq_putB M a b sb h ha hb]
  exact toB_putB h (BMat.WF_sRowSwapFrom _ _ _ _) rfl rfl

end Mzd

/-! ### non-vacuity -/

/-- a closed well-formed 2×70 view whose excess bits are all ones (window into a parent) -/
def exView : Mzd := ⟨2, 70, #[#[0x1#64, 0xFFFFFFFFFFFFFFC1#64], #[0x2#64, 0xFFFFFFFFFFFFFFC2#64]]⟩

theorem exView_WF : exView.WF := by
  refine ⟨rfl, ?_⟩
  intro i hi
  have : i = 0 ∨ i = 1 := by simp [exView] at hi; omega
  rcases this with rfl | rfl <;> rfl

/-- the hypotheses of `packWords_testBit_of_ge`, `unpackWords_getLsbD` are satisfiable -/
example : 64 * (#[1#64, 2#64] : Row).size ≤ 128 := by decide
example : (1 : Nat) < 2 ∧ (5 : Nat) < 64 := by decide

/-- `toB`, `putB`: a well-formed view and a well-formed `BMat` of the same shape exist -/
example : exView.WF ∧ (exView.toB).WF ∧ exView.toB.nrows = exView.nrows ∧ exView.toB.ncols = exView.ncols :=
  ⟨exView_WF, Mzd.WF_toB exView_WF, rfl, rfl⟩
example : (BMat.ofFn 2 70 fun i j => i == j).WF := BMat.WF_ofFn _ _ _

/-- the excess bits of the example view are really non-zero and survive `putB` -/
example : exView.bit 0 70 = true ∧ (exView.putB (BMat.zero 2 70)).bit 0 70 = true
    ∧ (exView.putB (BMat.zero 2 70)).bit 0 0 = false := by decide +kernel

/-- `eq_putB_of_bit`: for ANY well-formed `D` and ANY `S` the hypotheses are satisfied by `M' := D.putB S`
    (this is `bit_of_eq_putB`), in particular by the closed instance below. -/
example : ∃ M' : Mzd, M'.WF ∧ M'.nrows = exView.nrows ∧ M'.ncols = exView.ncols ∧
    ∀ i j, i < exView.nrows → j < 64 * exView.width →
      M'.bit i j = if j < exView.ncols then (BMat.identity 2).get i j else exView.bit i j :=
  ⟨_, Mzd.bit_of_eq_putB exView_WF rfl⟩

/-- `ext_bit`: two distinct-looking well-formed views with the hypotheses satisfied -/
example : exView.WF ∧ (exView.putB exView.toB).WF ∧ (exView.putB exView.toB).nrows = exView.nrows :=
  ⟨exView_WF, Mzd.WF_putB exView_WF _, rfl⟩

/-- `ofB_toB`: an owned matrix (WF and zero padding) exists: `ofB` of anything -/
example : (Mzd.ofB (BMat.identity 3)).WF ∧ (Mzd.ofB (BMat.identity 3)).padZero :=
  ⟨Mzd.WF_ofB _, Mzd.padZero_ofB _⟩

/-- the in-range hypotheses of the `get_s…` lemmas -/
example : (0 : Nat) < (BMat.identity 3).nrows ∧ (2 : Nat) < (BMat.identity 3).ncols := by decide

/-- the `@[simp]` lemmas fire with the range hypotheses in context -/
example (A B : BMat) (i j : Nat) (hi : i < A.nrows) (hj : j < A.ncols) :
    (BMat.sAdd (BMat.sTranspose (BMat.sTranspose A)) B).get i j = (A.get i j != B.get i j) := by
  simp [hi, hj]

/-- side conditions that need arithmetic are passed explicitly -/
example (A : BMat) (i j : Nat) (hi : i < A.nrows) (hj : j < A.ncols) :
    (BMat.sStack (BMat.sConcat A A) (BMat.sCopyInto (BMat.sConcat A A) A)).get i (A.ncols + j) = A.get i j := by
  have h1 : i < A.nrows + A.nrows := by omega
  have h2 : A.ncols + j < A.ncols + A.ncols := by omega
  simp [hi, h1, h2]
  intro h; omega

end M4ri
