/-
  C14 — Allocation history: fresh matrices are zero, disjoint and safely recyclable.
  Proofs about the executable allocation model `M4ri/Alloc.lean` (mmc.c block cache, mzd.c header cache,
  mzd_init / mzd_init_window / mzd_free, m4ri_mmc_cleanup), for ALL capacities with `0 < nblocks`.
-/
import M4ri.Alloc
import Mathlib.Tactic.ClearExcept
namespace M4ri.Alloc

/-! ## `log2_floor` returns the index of a set bit -/

/-- loop invariant of `log2_floor` -/
def L2P (v n : Nat) (p : Nat × Nat) : Prop :=
  p.1 ≠ 0 ∧ p.1 < 2 ^ n ∧ n ∣ p.2 ∧ p.2 + n ≤ 64 ∧ ∀ k, p.1.testBit k = true → v.testBit (p.2 + k) = true

theorem l2step_inv (v S mask : Nat) (p : Nat × Nat)
    (hmask : ∀ k, mask.testBit k = (decide (S ≤ k) && decide (k < 2 * S)))
    (hor : ∀ r, r ≤ 64 → 2 * S ∣ r → r ||| S = r + S)
    (hp : L2P v (2 * S) p) : L2P v S (l2step S mask p) := by
  obtain ⟨h0, hlt, hdvd, hle, hbits⟩ := hp
  have hS : S ∣ p.2 := Nat.dvd_trans ⟨2, by omega⟩ hdvd
  unfold l2step
  split
  · rename_i hne
    obtain ⟨k, hk⟩ := Nat.exists_testBit_of_ne_zero hne
    rw [Nat.testBit_and, hmask] at hk
    simp only [Bool.and_eq_true, decide_eq_true_eq] at hk
    refine ⟨?_, ?_, ?_, ?_, ?_⟩
    · intro hz
      have hz : p.1 >>> S = 0 := hz
      have : (p.1 >>> S).testBit (k - S) = true := by
        rw [Nat.testBit_shiftRight]; rw [show S + (k - S) = k by omega]; exact hk.1
      simp only [hz, Nat.zero_testBit] at this
      exact absurd this (by decide)
    · show p.1 >>> S < 2 ^ S
      rw [Nat.shiftRight_eq_div_pow, Nat.div_lt_iff_lt_mul (Nat.two_pow_pos S), ← Nat.pow_add]
      rwa [show S + S = 2 * S by omega]
    · show S ∣ p.2 ||| S
      rw [hor p.2 (by omega) hdvd]; exact Nat.dvd_add hS (Nat.dvd_refl S)
    · show (p.2 ||| S) + S ≤ 64
      rw [hor p.2 (by omega) hdvd]; omega
    · intro i hi
      show v.testBit ((p.2 ||| S) + i) = true
      rw [hor p.2 (by omega) hdvd]
      have := hbits (S + i) (by rw [← Nat.testBit_shiftRight]; exact hi)
      rwa [show p.2 + S + i = p.2 + (S + i) by omega]
  · rename_i he
    have he : p.1 &&& mask = 0 := by simpa using he
    refine ⟨h0, ?_, hS, by omega, hbits⟩
    apply Nat.lt_pow_two_of_testBit
    intro i hi
    by_cases h2 : i < 2 * S
    · have := congrArg (fun x => x.testBit i) he
      simp only [Nat.testBit_and, hmask, Nat.zero_testBit] at this
      simpa [hi, h2] using this
    · exact Nat.testBit_lt_two_pow (Nat.lt_of_lt_of_le hlt (Nat.pow_le_pow_right (by omega) (by omega)))

theorem maskBits (S : Nat) (k : Nat) :
    (((2 ^ S - 1) <<< S) : Nat).testBit k = (decide (S ≤ k) && decide (k < 2 * S)) := by
  rw [Nat.testBit_shiftLeft, Nat.testBit_two_pow_sub_one]
  by_cases h : S ≤ k <;> simp [h] <;> omega

/-- The C binary search `log2_floor` returns (for a non-zero 64-bit word) the index of a set bit. -/
theorem log2Floor_spec (v : Nat) (h0 : v ≠ 0) (hv : v < 2 ^ 64) :
    log2Floor v < 64 ∧ v.testBit (log2Floor v) = true := by
  have P0 : L2P v (2 * 32) (v, 0) := ⟨h0, hv, ⟨0, rfl⟩, by omega, fun k hk => by simpa using hk⟩
  have P1 := l2step_inv v 32 0xFFFFFFFF00000000 _ (maskBits 32) (by decide) P0
  have P2 := l2step_inv v 16 0xFFFF0000 _ (maskBits 16) (by decide) P1
  have P3 := l2step_inv v 8 0xFF00 _ (maskBits 8) (by decide) P2
  have P4 := l2step_inv v 4 0xF0 _ (maskBits 4) (by decide) P3
  have P5 := l2step_inv v 2 0xC _ (maskBits 2) (by decide) P4
  have P6 := l2step_inv v 1 0x2 _ (maskBits 1) (by decide) P5
  obtain ⟨a, b, c, d, e⟩ := P6
  have h1 : (l2step 1 0x2 <| l2step 2 0xC <| l2step 4 0xF0 <| l2step 8 0xFF00 <|
   l2step 16 0xFFFF0000 <| l2step 32 0xFFFFFFFF00000000 (v, 0)).1 = 1 := by omega
  refine ⟨by unfold log2Floor; omega, ?_⟩
  have := e 0 (by rw [h1]; decide)
  simpa [log2Floor] using this

/-- the slot chosen by `mzd_t_malloc` in a non-full block is a free slot `< 64` -/
theorem freeEntry_spec (u : BitVec 64) (hu : u ≠ BitVec.allOnes 64) :
    log2Floor (~~~u).toNat < 64 ∧ u.getLsbD (log2Floor (~~~u).toNat) = false := by
  have hne : (~~~u).toNat ≠ 0 := by
    intro h
    apply hu
    have : ~~~u = 0#64 := BitVec.eq_of_toNat_eq (by simpa using h)
    have h2 : ~~~(~~~u) = ~~~(0#64) := by rw [this]
    simpa using h2
  obtain ⟨h1, h2⟩ := log2Floor_spec _ hne (~~~u).isLt
  refine ⟨h1, ?_⟩
  rw [BitVec.testBit_toNat, BitVec.getLsbD_not] at h2
  simp only [h1, decide_true, Bool.true_and, Bool.not_eq_true'] at h2
  exact h2

theorem getLsbD_setBit (u : BitVec 64) (e k : Nat) (he : e < 64) :
    (u ||| (1#64 <<< e)).getLsbD k = (u.getLsbD k || decide (k = e)) := by
  rw [BitVec.getLsbD_or, BitVec.getLsbD_shiftLeft, BitVec.getLsbD_one]
  by_cases h : k = e
  · subst h; simp [he]
  · by_cases h2 : k < e <;> simp [h, h2] <;> omega

theorem getLsbD_clearBit (u : BitVec 64) (e k : Nat) :
    (u &&& ~~~(1#64 <<< e)).getLsbD k = (u.getLsbD k && !decide (k = e)) := by
  rw [BitVec.getLsbD_and, BitVec.getLsbD_not, BitVec.getLsbD_shiftLeft, BitVec.getLsbD_one]
  by_cases hk : k < 64
  · by_cases h : k = e
    · subst h; simp [hk]
    · by_cases h2 : k < e <;> simp [h, h2, hk] <;> omega
  · have : u.getLsbD k = false := BitVec.getLsbD_of_ge _ _ (by omega)
    simp [this]

/-! ## The state seen as a handful of relations -/

/-- handle `h` denotes the live matrix `m` -/
def LiveMat (s : State) (h : Nat) (m : Mat) : Prop := s.mats[h]? = some (some m)
/-- system block `a` of `sz` bytes and kind `k` is live -/
def RLive (s : State) (a sz : Nat) (k : Kind) : Prop := (⟨a, sz, k⟩ : Blk) ∈ s.live
/-- slot `i` of the mmc cache holds `(sz, d)` -/
def RCache (s : State) (i sz d : Nat) : Prop := s.cache[i]? = some ⟨sz, d⟩
/-- header block `id` is in the list, with `used` mask `u` -/
def RBlk (s : State) (id : Nat) (u : BitVec 64) : Prop := (⟨id, u⟩ : HBlock) ∈ s.blocks
/-- live matrix `h` has its header at `(hb, slot, plain)` -/
def RHdr (s : State) (h hb slot : Nat) (plain : Bool) : Prop :=
  ∃ m, LiveMat s h m ∧ m.hb = hb ∧ m.slot = slot ∧ m.plain = plain
/-- live NON-window matrix `h` has data pointer `d` (0 = NULL) and would free it with `sz` bytes -/
def ROwn (s : State) (h d sz : Nat) : Prop :=
  ∃ m, LiveMat s h m ∧ m.windowed = false ∧ m.data = d ∧ 8 * (m.nrows * m.rowstride) = sz

theorem LiveMat_lt {s : State} {h : Nat} {m : Mat} (hm : LiveMat s h m) : h < s.mats.length := by
  unfold LiveMat at hm; grind

theorem LiveMat_fun {s : State} {h : Nat} {m m' : Mat} (hm : LiveMat s h m) (hm' : LiveMat s h m') : m = m' := by
  unfold LiveMat at *; grind

theorem RHdr_fun {s : State} {h a b a' b' : Nat} {c c' : Bool} (h1 : RHdr s h a b c) (h2 : RHdr s h a' b' c') :
    a = a' ∧ b = b' ∧ c = c' := by
  obtain ⟨m, hm, rfl, rfl, rfl⟩ := h1
  obtain ⟨m', hm', rfl, rfl, rfl⟩ := h2
  cases LiveMat_fun hm hm'; exact ⟨rfl, rfl, rfl⟩

theorem ROwn_fun {s : State} {h d sz d' sz' : Nat} (h1 : ROwn s h d sz) (h2 : ROwn s h d' sz') :
    d = d' ∧ sz = sz' := by
  obtain ⟨m, hm, _, rfl, rfl⟩ := h1
  obtain ⟨m', hm', _, rfl, rfl⟩ := h2
  cases LiveMat_fun hm hm'; exact ⟨rfl, rfl⟩

theorem RHdr_lt {s : State} {h a b : Nat} {c : Bool} (h1 : RHdr s h a b c) : h < s.mats.length := by
  obtain ⟨m, hm, _⟩ := h1; exact LiveMat_lt hm
theorem ROwn_lt {s : State} {h a b : Nat} (h1 : ROwn s h a b) : h < s.mats.length := by
  obtain ⟨m, hm, _⟩ := h1; exact LiveMat_lt hm

/-! ### how the matrix relations change -/

theorem LiveMat_push {s s' : State} {x : Mat} (hm : s'.mats = s.mats ++ [some x]) (h' : Nat) (m' : Mat) :
    LiveMat s' h' m' ↔ LiveMat s h' m' ∨ (h' = s.mats.length ∧ x = m') := by
  unfold LiveMat; rw [hm]; grind

theorem LiveMat_set {s s' : State} {h : Nat} {x : Option Mat} (hm : s'.mats = s.mats.set h x)
    (hl : h < s.mats.length) (h' : Nat) (m' : Mat) :
    LiveMat s' h' m' ↔ (h' = h ∧ x = some m') ∨ (h' ≠ h ∧ LiveMat s h' m') := by
  unfold LiveMat; rw [hm]; grind

theorem LiveMat_same {s s' : State} (hm : s'.mats = s.mats) (h' : Nat) (m' : Mat) :
    LiveMat s' h' m' ↔ LiveMat s h' m' := by
  unfold LiveMat; rw [hm]

theorem RHdr_push {s s' : State} {x : Mat} (hm : s'.mats = s.mats ++ [some x]) (h a b : Nat) (c : Bool) :
    RHdr s' h a b c ↔ RHdr s h a b c ∨ (h = s.mats.length ∧ a = x.hb ∧ b = x.slot ∧ c = x.plain) := by
  unfold RHdr; simp only [LiveMat_push hm]
  constructor
  · rintro ⟨m, (hm | ⟨rfl, rfl⟩), rfl, rfl, rfl⟩
    · exact Or.inl ⟨m, hm, rfl, rfl, rfl⟩
    · exact Or.inr ⟨rfl, rfl, rfl, rfl⟩
  · rintro (⟨m, hm, rfl, rfl, rfl⟩ | ⟨rfl, rfl, rfl, rfl⟩)
    · exact ⟨m, Or.inl hm, rfl, rfl, rfl⟩
    · exact ⟨x, Or.inr ⟨rfl, rfl⟩, rfl, rfl, rfl⟩

theorem ROwn_push {s s' : State} {x : Mat} (hm : s'.mats = s.mats ++ [some x]) (h d sz : Nat) :
    ROwn s' h d sz ↔ ROwn s h d sz ∨
      (h = s.mats.length ∧ x.windowed = false ∧ d = x.data ∧ sz = 8 * (x.nrows * x.rowstride)) := by
  unfold ROwn; simp only [LiveMat_push hm]
  constructor
  · rintro ⟨m, (hm | ⟨rfl, rfl⟩), hw, rfl, rfl⟩
    · exact Or.inl ⟨m, hm, hw, rfl, rfl⟩
    · exact Or.inr ⟨rfl, hw, rfl, rfl⟩
  · rintro (⟨m, hm, hw, rfl, rfl⟩ | ⟨rfl, hw, rfl, rfl⟩)
    · exact ⟨m, Or.inl hm, hw, rfl, rfl⟩
    · exact ⟨x, Or.inr ⟨rfl, rfl⟩, hw, rfl, rfl⟩

theorem RHdr_set {s s' : State} {h0 : Nat} {x : Mat} (hm : s'.mats = s.mats.set h0 (some x))
    (hl : h0 < s.mats.length) (h a b : Nat) (c : Bool) :
    RHdr s' h a b c ↔ (h ≠ h0 ∧ RHdr s h a b c) ∨ (h = h0 ∧ a = x.hb ∧ b = x.slot ∧ c = x.plain) := by
  unfold RHdr; simp only [LiveMat_set hm hl]
  constructor
  · rintro ⟨m, (⟨rfl, hx⟩ | ⟨hne, hm⟩), rfl, rfl, rfl⟩
    · cases hx; exact Or.inr ⟨rfl, rfl, rfl, rfl⟩
    · exact Or.inl ⟨hne, m, hm, rfl, rfl, rfl⟩
  · rintro (⟨hne, m, hm, rfl, rfl, rfl⟩ | ⟨rfl, rfl, rfl, rfl⟩)
    · exact ⟨m, Or.inr ⟨hne, hm⟩, rfl, rfl, rfl⟩
    · exact ⟨x, Or.inl ⟨rfl, rfl⟩, rfl, rfl, rfl⟩

theorem ROwn_set {s s' : State} {h0 : Nat} {x : Mat} (hm : s'.mats = s.mats.set h0 (some x))
    (hl : h0 < s.mats.length) (h d sz : Nat) :
    ROwn s' h d sz ↔ (h ≠ h0 ∧ ROwn s h d sz) ∨
      (h = h0 ∧ x.windowed = false ∧ d = x.data ∧ sz = 8 * (x.nrows * x.rowstride)) := by
  unfold ROwn; simp only [LiveMat_set hm hl]
  constructor
  · rintro ⟨m, (⟨rfl, hx⟩ | ⟨hne, hm⟩), hw, rfl, rfl⟩
    · cases hx; exact Or.inr ⟨rfl, hw, rfl, rfl⟩
    · exact Or.inl ⟨hne, m, hm, hw, rfl, rfl⟩
  · rintro (⟨hne, m, hm, hw, rfl, rfl⟩ | ⟨rfl, hw, rfl, rfl⟩)
    · exact ⟨m, Or.inr ⟨hne, hm⟩, hw, rfl, rfl⟩
    · exact ⟨x, Or.inl ⟨rfl, rfl⟩, hw, rfl, rfl⟩

theorem RHdr_unset {s s' : State} {h0 : Nat} (hm : s'.mats = s.mats.set h0 none)
    (hl : h0 < s.mats.length) (h a b : Nat) (c : Bool) :
    RHdr s' h a b c ↔ (h ≠ h0 ∧ RHdr s h a b c) := by
  unfold RHdr; simp only [LiveMat_set hm hl]
  constructor
  · rintro ⟨m, (⟨rfl, hx⟩ | ⟨hne, hm⟩), rfl, rfl, rfl⟩
    · cases hx
    · exact ⟨hne, m, hm, rfl, rfl, rfl⟩
  · rintro ⟨hne, m, hm, rfl, rfl, rfl⟩
    exact ⟨m, Or.inr ⟨hne, hm⟩, rfl, rfl, rfl⟩

theorem ROwn_unset {s s' : State} {h0 : Nat} (hm : s'.mats = s.mats.set h0 none)
    (hl : h0 < s.mats.length) (h d sz : Nat) :
    ROwn s' h d sz ↔ (h ≠ h0 ∧ ROwn s h d sz) := by
  unfold ROwn; simp only [LiveMat_set hm hl]
  constructor
  · rintro ⟨m, (⟨rfl, hx⟩ | ⟨hne, hm⟩), hw, rfl, rfl⟩
    · cases hx
    · exact ⟨hne, m, hm, hw, rfl, rfl⟩
  · rintro ⟨hne, m, hm, hw, rfl, rfl⟩
    exact ⟨m, Or.inr ⟨hne, hm⟩, hw, rfl, rfl⟩

theorem RHdr_same {s s' : State} (hm : s'.mats = s.mats) (h a b : Nat) (c : Bool) :
    RHdr s' h a b c ↔ RHdr s h a b c := by
  unfold RHdr; simp only [LiveMat_same hm]
theorem ROwn_same {s s' : State} (hm : s'.mats = s.mats) (h a b : Nat) :
    ROwn s' h a b ↔ ROwn s h a b := by
  unfold ROwn; simp only [LiveMat_same hm]

/-! ### cache / blocks / live -/

theorem RCache_set {s s' : State} {i0 sz0 d0 : Nat} (hc : s'.cache = s.cache.set i0 ⟨sz0, d0⟩)
    (hl : i0 < s.cache.length) (i sz d : Nat) :
    RCache s' i sz d ↔ (i ≠ i0 ∧ RCache s i sz d) ∨ (i = i0 ∧ sz = sz0 ∧ d = d0) := by
  unfold RCache; rw [hc]; grind

theorem RCache_lt {s : State} {i sz d : Nat} (h : RCache s i sz d) : i < s.cache.length := by
  unfold RCache at h; grind

theorem RCache_fun {s : State} {i sz d sz' d' : Nat} (h : RCache s i sz d) (h' : RCache s i sz' d') :
    sz = sz' ∧ d = d' := by
  unfold RCache at *; grind

theorem RLive_append {s s' : State} {a0 sz0 : Nat} {k0 : Kind} (hl : s'.live = s.live ++ [⟨a0, sz0, k0⟩])
    (a sz : Nat) (k : Kind) :
    RLive s' a sz k ↔ RLive s a sz k ∨ (a = a0 ∧ sz = sz0 ∧ k = k0) := by
  unfold RLive; rw [hl]; simp

theorem RLive_filter {s s' : State} {a0 : Nat} (hl : s'.live = s.live.filter (fun b => b.id != a0))
    (a sz : Nat) (k : Kind) :
    RLive s' a sz k ↔ (a ≠ a0 ∧ RLive s a sz k) := by
  unfold RLive; rw [hl]; simp [and_comm]

theorem RBlk_setUsed {s s' : State} {id0 : Nat} {u0 : BitVec 64} (hb : s'.blocks = setUsed s.blocks id0 u0)
    (id : Nat) (u : BitVec 64) :
    RBlk s' id u ↔ (id ≠ id0 ∧ RBlk s id u) ∨ (id = id0 ∧ u = u0 ∧ ∃ v, RBlk s id0 v) := by
  unfold RBlk; rw [hb]; unfold setUsed
  simp only [List.mem_map]
  constructor
  · rintro ⟨B, hB, he⟩
    split at he
    · rename_i hid
      cases he
      exact Or.inr ⟨hid, rfl, B.used, by subst hid; exact hB⟩
    · rename_i hid
      subst he
      exact Or.inl ⟨hid, hB⟩
  · rintro (⟨hne, hB⟩ | ⟨rfl, rfl, v, hv⟩)
    · exact ⟨_, hB, by simp [hne]⟩
    · exact ⟨_, hv, by simp⟩

theorem RBlk_append {s s' : State} {id0 : Nat} {u0 : BitVec 64} (hb : s'.blocks = s.blocks ++ [⟨id0, u0⟩])
    (id : Nat) (u : BitVec 64) :
    RBlk s' id u ↔ RBlk s id u ∨ (id = id0 ∧ u = u0) := by
  unfold RBlk; rw [hb]; simp

theorem RBlk_filter {s s' : State} {id0 : Nat} (hb : s'.blocks = s.blocks.filter (fun C => C.id != id0))
    (id : Nat) (u : BitVec 64) :
    RBlk s' id u ↔ (id ≠ id0 ∧ RBlk s id u) := by
  unfold RBlk; rw [hb]; simp [and_comm]

/-! ## The invariant -/

/-- Well-formedness of the allocator state (`n` = `nblocks`), except for "malloc'ed header blocks are
    non-empty" (which is briefly false inside `mzd_t_malloc`). -/
structure InvCore (n : Nat) (s : State) : Prop where
  live_pos : ∀ (a sz : Nat) (k : Kind), RLive s a sz k → 0 < a ∧ a ≤ s.next
  live_inj : ∀ (a sz sz' : Nat) (k k' : Kind), RLive s a sz k → RLive s a sz' k' → sz = sz' ∧ k = k'
  cache_len : s.cache.length = n
  j_lt : s.j < n
  cache_live : ∀ (i sz d : Nat), RCache s i sz d → sz ≠ 0 → RLive s d sz .data
  cache_inj : ∀ (i i' sz sz' d : Nat), RCache s i sz d → RCache s i' sz' d → sz ≠ 0 → sz' ≠ 0 → i = i'
  data_live : ∀ (h d sz : Nat), ROwn s h d sz → (d = 0 ∧ sz = 0) ∨ (sz ≠ 0 ∧ RLive s d sz .data)
  data_inj : ∀ (h h' d sz sz' : Nat), ROwn s h d sz → ROwn s h' d sz' → d ≠ 0 → h = h'
  cache_data : ∀ (i sz d h sz' : Nat), RCache s i sz d → sz ≠ 0 → ¬ ROwn s h d sz'
  static_mem : ∃ u, RBlk s 0 u
  blocks_inj : ∀ (id : Nat) (u u' : BitVec 64), RBlk s id u → RBlk s id u' → u = u'
  blocks_live : ∀ (id : Nat) (u : BitVec 64), RBlk s id u → id ≠ 0 → RLive s id 4160 .hblock
  cur_mem : ∃ u, RBlk s s.cur u
  hdr_used : ∀ (h hb slot : Nat), RHdr s h hb slot false →
      slot < 64 ∧ ∃ u, RBlk s hb u ∧ u.getLsbD slot = true
  used_hdr : ∀ (id : Nat) (u : BitVec 64) (k : Nat), RBlk s id u → u.getLsbD k = true →
      ∃ h, RHdr s h id k false
  hdr_inj : ∀ (h h' hb slot : Nat), RHdr s h hb slot false → RHdr s h' hb slot false → h = h'
  plain_live : ∀ (h a slot : Nat), RHdr s h a slot true → RLive s a 64 .hplain
  plain_inj : ∀ (h h' a slot slot' : Nat), RHdr s h a slot true → RHdr s h' a slot' true → h = h'
  account : ∀ (a sz : Nat) (k : Kind), RLive s a sz k →
      (∃ i sz', RCache s i sz' a ∧ sz' ≠ 0) ∨ (∃ h sz', ROwn s h a sz') ∨ (∃ u, RBlk s a u) ∨
      (∃ h slot, RHdr s h a slot true)

/-- Full well-formedness: additionally every malloc'ed header block in the list is non-empty. -/
structure Inv (n : Nat) (s : State) : Prop extends InvCore n s where
  dyn_nonempty : ∀ (id : Nat) (u : BitVec 64), RBlk s id u → id ≠ 0 → u ≠ 0

theorem Inv_initial (n : Nat) (hn : 0 < n) : Inv n (State.initial n) := by
  have hl : ∀ a sz k, ¬ RLive (State.initial n) a sz k := by intro a sz k h; simp [RLive, State.initial] at h
  have hh : ∀ h a b c, ¬ RHdr (State.initial n) h a b c := by
    rintro h a b c ⟨m, hm, _⟩; simp [LiveMat, State.initial] at hm
  have ho : ∀ h a b, ¬ ROwn (State.initial n) h a b := by
    rintro h a b ⟨m, hm, _⟩; simp [LiveMat, State.initial] at hm
  have hc : ∀ i sz d, RCache (State.initial n) i sz d → sz = 0 := by
    intro i sz d h; simp [RCache, State.initial, List.getElem?_replicate] at h; grind
  have hb : ∀ id u, RBlk (State.initial n) id u ↔ id = 0 ∧ u = 0 := by
    intro id u; simp [RBlk, State.initial]
  refine ⟨⟨?_, ?_, ?_, ?_, ?_, ?_, ?_, ?_, ?_, ?_, ?_, ?_, ?_, ?_, ?_, ?_, ?_, ?_, ?_⟩, ?_⟩
  · intro a sz k h; exact absurd h (hl _ _ _)
  · intro a sz sz' k k' h; exact absurd h (hl _ _ _)
  · simp [State.initial]
  · exact hn
  · intro i sz d h hz; exact absurd (hc _ _ _ h) hz
  · intro i i' sz sz' d h _ hz; exact absurd (hc _ _ _ h) hz
  · intro h d sz ho'; exact absurd ho' (ho _ _ _)
  · intro h h' d sz sz' ho'; exact absurd ho' (ho _ _ _)
  · intro i sz d h sz' _ _ ho'; exact absurd ho' (ho _ _ _)
  · exact ⟨0, (hb _ _).2 ⟨rfl, rfl⟩⟩
  · intro id u u' h h'; rw [hb] at h h'; rw [h.2, h'.2]
  · intro id u h hne; rw [hb] at h; exact absurd h.1 hne
  · exact ⟨0, (hb _ _).2 ⟨rfl, rfl⟩⟩
  · intro h a b hh'; exact absurd hh' (hh _ _ _ _)
  · intro id u k h hk; rw [hb] at h; rw [h.2] at hk; simp at hk
  · intro h h' a b hh'; exact absurd hh' (hh _ _ _ _)
  · intro h a b hh'; exact absurd hh' (hh _ _ _ _)
  · intro h h' a b b' hh'; exact absurd hh' (hh _ _ _ _)
  · intro a sz k h; exact absurd h (hl _ _ _)
  · intro id u h hne; rw [hb] at h; exact absurd h.1 hne

/-! ## `mzd_t_malloc` -/

theorem RLive_same {s s' : State} (hm : s'.live = s.live) (a b : Nat) (k : Kind) :
    RLive s' a b k ↔ RLive s a b k := by unfold RLive; rw [hm]
theorem RCache_same {s s' : State} (hm : s'.cache = s.cache) (a b c : Nat) :
    RCache s' a b c ↔ RCache s a b c := by unfold RCache; rw [hm]
theorem RBlk_same {s s' : State} (hm : s'.blocks = s.blocks) (a : Nat) (u : BitVec 64) :
    RBlk s' a u ↔ RBlk s a u := by unfold RBlk; rw [hm]

theorem usedOf_eq {s : State} {id : Nat} {u : BitVec 64} (h : RBlk s id u)
    (hu : ∀ u', RBlk s id u' → u' = u) : usedOf s id = u := by
  unfold usedOf
  cases hf : s.blocks.find? (fun B => B.id == id) with
  | none =>
    have := List.find?_eq_none.1 hf _ h
    simp at this
  | some B =>
    have h1 := List.mem_of_find?_eq_some hf
    have h2 := List.find?_some hf
    simp at h2
    have : B = ⟨id, B.used⟩ := by cases B; simp_all
    rw [this] at h1
    exact hu _ h1

/-- push the bookkeeping record of a matrix whose header sits at `hd` and that owns no data yet -/
def pushRec (s : State) (hd : Hdr) : State :=
  { s with mats := s.mats ++ [some ⟨hd.hb, hd.slot, hd.plain, 0, 0, 0, false, true⟩] }

theorem pushHdr_eq (cm : Nat) (s : State) : pushHdr cm s = pushRec (hdrMalloc cm s).1 (hdrMalloc cm s).2 := rfl

theorem markSlot_push (n : Nat) (s : State) (hc : InvCore n s)
    (hd : ∀ id u, RBlk s id u → id ≠ 0 → u ≠ 0 ∨ id = s.cur)
    (hf : usedOf s s.cur ≠ BitVec.allOnes 64) :
    Inv n (pushRec (markSlot s).1 (markSlot s).2) := by
  obtain ⟨u, hu⟩ := hc.cur_mem
  have huo : usedOf s s.cur = u := usedOf_eq hu (fun u' h' => hc.blocks_inj _ _ _ h' hu)
  rw [huo] at hf
  obtain ⟨he, hfree⟩ := freeEntry_spec u hf
  have hms : markSlot s = ({ s with blocks := setUsed s.blocks s.cur (u ||| (1#64 <<< log2Floor (~~~u).toNat)) },
      ⟨s.cur, log2Floor (~~~u).toNat, false⟩) := by unfold markSlot; rw [huo]
  rw [hms]
  generalize log2Floor (~~~u).toNat = e at *
  have hbit := fun k => getLsbD_setBit u e k he
  generalize hs' : pushRec _ _ = s'
  have eL : ∀ a b k, RLive s' a b k ↔ RLive s a b k := by subst hs'; exact RLive_same rfl
  have eC : ∀ a b k, RCache s' a b k ↔ RCache s a b k := by subst hs'; exact RCache_same rfl
  have eB := RBlk_setUsed (s := s) (s' := s') (id0 := s.cur) (u0 := u ||| (1#64 <<< e))
    (by subst hs'; rfl)
  have eH := RHdr_push (s := s) (s' := s') (x := ⟨s.cur, e, false, 0, 0, 0, false, true⟩)
    (by subst hs'; rfl)
  have eO := ROwn_push (s := s) (s' := s') (x := ⟨s.cur, e, false, 0, 0, 0, false, true⟩)
    (by subst hs'; rfl)
  have eN : s'.next = s.next := by subst hs'; rfl
  have eCl : s'.cache = s.cache := by subst hs'; rfl
  have eJ : s'.j = s.j := by subst hs'; rfl
  have eCur : s'.cur = s.cur := by subst hs'; rfl
  simp only [Nat.mul_zero] at eH eO
  obtain ⟨a1,a2,a3,a4,a5,a6,a7,a8,a9,a10,a11,a12,a13,a14,a15,a16,a17,a18,a19⟩ := hc
  refine ⟨⟨?_, ?_, ?_, ?_, ?_, ?_, ?_, ?_, ?_, ?_, ?_, ?_, ?_, ?_, ?_, ?_, ?_, ?_, ?_⟩, ?_⟩
  · simp only [eL, eN]; exact a1
  · simp only [eL]; exact a2
  · rw [eCl]; exact a3
  · rw [eJ]; exact a4
  · simp only [eL, eC]; exact a5
  · simp only [eC]; exact a6
  · simp only [eL, eO]; clear * - a7; grind
  · simp only [eO]; clear * - a8; grind
  · simp only [eC, eO]; clear * - a9 a5 a1; grind
  · simp only [eB]; clear * - a10 hu; grind
  · simp only [eB]; clear * - a11; grind
  · simp only [eB, eL]; clear * - a12; grind
  · simp only [eB, eCur]; clear * - hu; grind
  · simp only [eB, eH]; clear * - a14 hbit a11 hu he; grind
  · simp only [eB, eH]; clear * - a15 hbit a11 hu; grind
  · simp only [eH]; clear * - a16 a14 hfree hu a11; grind
  · simp only [eH, eL]; clear * - a17; grind
  · simp only [eH]; clear * - a18; grind
  · simp only [eH, eL, eB, eC, eO]; clear * - a19 hu; grind
  · have hne : u ||| 1#64 <<< e ≠ 0 := by
      intro h0
      have := hbit e
      rw [h0] at this; simp at this
    simp only [eB]; clear * - hd hne; grind

theorem InvCore_setCur (n : Nat) (s : State) (c : Nat) (u : BitVec 64) (hc : InvCore n s) (hu : RBlk s c u) :
    InvCore n { s with cur := c } := by
  obtain ⟨a1,a2,a3,a4,a5,a6,a7,a8,a9,a10,a11,a12,a13,a14,a15,a16,a17,a18,a19⟩ := hc
  exact ⟨a1,a2,a3,a4,a5,a6,a7,a8,a9,a10,a11,a12,⟨u, hu⟩,a14,a15,a16,a17,a18,a19⟩

/-- after the `while` loop of `mzd_t_malloc` found no block with a free slot, `current_cache` is the last block -/
theorem lastBlock_mem (s : State) (hne : ∃ u, RBlk s 0 u) :
    ∃ u, RBlk s ((s.blocks.getLast?.map (·.id)).getD s.cur) u := by
  obtain ⟨u, hu⟩ := hne
  unfold RBlk at *
  cases hl : s.blocks.getLast? with
  | none => rw [List.getLast?_eq_none_iff] at hl; rw [hl] at hu; cases hu
  | some B =>
    have := List.mem_of_getLast? hl
    exact ⟨B.used, this⟩

theorem allFull_of_findIdx (s : State) (h : s.blocks[s.blocks.findIdx (fun B => !isFull B)]? = none) :
    ∀ id u, RBlk s id u → u = BitVec.allOnes 64 := by
  intro id u hu
  have hge : s.blocks.length ≤ s.blocks.findIdx (fun B => !isFull B) := by
    rw [List.getElem?_eq_none_iff] at h; exact h
  have heq : s.blocks.findIdx (fun B => !isFull B) = s.blocks.length :=
    Nat.le_antisymm List.findIdx_le_length hge
  rw [List.findIdx_eq_length] at heq
  have := heq _ hu
  simpa [isFull] using this

theorem notFull_of_findIdx (s : State) (B : HBlock)
    (h : s.blocks[s.blocks.findIdx (fun B => !isFull B)]? = some B) :
    RBlk s B.id B.used ∧ B.used ≠ BitVec.allOnes 64 := by
  have hlt : s.blocks.findIdx (fun B => !isFull B) < s.blocks.length := by
    apply Classical.byContradiction; intro hc
    rw [List.getElem?_eq_none (by omega)] at h; cases h
  have h1 := List.findIdx_getElem (w := hlt)
  rw [List.getElem?_eq_getElem hlt] at h
  cases h
  refine ⟨List.getElem_mem hlt, ?_⟩
  simpa [isFull] using h1


/-- the state in `mzd_t_malloc` right after a new header block has been linked in -/
theorem newBlock_core (n : Nat) (s : State) (c : Nat) (hi : Inv n s) :
    let s2 : State := { (sysMalloc { s with cur := c } 4160 .hblock).1 with
        blocks := (sysMalloc { s with cur := c } 4160 .hblock).1.blocks ++ [⟨(sysMalloc { s with cur := c } 4160 .hblock).2, 0⟩],
        cur := (sysMalloc { s with cur := c } 4160 .hblock).2 }
    InvCore n s2 ∧ (∀ id u, RBlk s2 id u → id ≠ 0 → u ≠ 0 ∨ id = s2.cur) ∧ usedOf s2 s2.cur = 0 := by
  intro s2
  have eL := RLive_append (s := s) (s' := s2) (a0 := s.next + 1) (sz0 := 4160) (k0 := .hblock) rfl
  have eB := RBlk_append (s := s) (s' := s2) (id0 := s.next + 1) (u0 := 0) rfl
  have eC : ∀ a b k, RCache s2 a b k ↔ RCache s a b k := RCache_same rfl
  have eH : ∀ a b c d, RHdr s2 a b c d ↔ RHdr s a b c d := RHdr_same rfl
  have eO : ∀ a b c, ROwn s2 a b c ↔ ROwn s a b c := ROwn_same rfl
  have eN : s2.next = s.next + 1 := rfl
  have eCur : s2.cur = s.next + 1 := rfl
  have eCl : s2.cache = s.cache := rfl
  have eJ : s2.j = s.j := rfl
  obtain ⟨⟨a1,a2,a3,a4,a5,a6,a7,a8,a9,a10,a11,a12,a13,a14,a15,a16,a17,a18,a19⟩, a20⟩ := hi
  have hcore : InvCore n s2 := by
    refine ⟨?_, ?_, ?_, ?_, ?_, ?_, ?_, ?_, ?_, ?_, ?_, ?_, ?_, ?_, ?_, ?_, ?_, ?_, ?_⟩
    · simp only [eL, eN]; clear * - a1; grind
    · simp only [eL]; clear * - a1 a2; grind
    · rw [eCl]; exact a3
    · rw [eJ]; exact a4
    · simp only [eL, eC]; clear * - a5; grind
    · simp only [eC]; exact a6
    · simp only [eL, eO]; clear * - a7; grind
    · simp only [eO]; exact a8
    · simp only [eC, eO]; exact a9
    · simp only [eB]; clear * - a10; grind
    · simp only [eB]; clear * - a11 a12 a1; grind
    · simp only [eB, eL]; clear * - a12; grind
    · exact ⟨0, (eB _ _).2 (Or.inr ⟨rfl, rfl⟩)⟩
    · simp only [eB, eH]; clear * - a14; grind
    · simp only [eB, eH]; clear * - a15; grind
    · simp only [eH]; exact a16
    · simp only [eH, eL]; clear * - a17; grind
    · simp only [eH]; exact a18
    · simp only [eH, eL, eB, eC, eO]; clear * - a19; grind
  refine ⟨hcore, ?_, ?_⟩
  · simp only [eB, eCur]; clear * - a20; grind
  · exact usedOf_eq ((eB _ _).2 (Or.inr ⟨rfl, rfl⟩)) (fun u' h' => hcore.blocks_inj _ _ _ h' ((eB _ _).2 (Or.inr ⟨rfl, rfl⟩)))

/-- beyond the block limit: a plain-malloc'ed header -/
theorem plainHdr_Inv (n : Nat) (s : State) (c : Nat) (u : BitVec 64) (hi : Inv n s) (hcu : RBlk s c u) :
    Inv n (pushRec (sysMalloc { s with cur := c } 64 .hplain).1 ⟨(sysMalloc { s with cur := c } 64 .hplain).2, 0, true⟩) := by
  generalize hs' : pushRec _ _ = s2
  have eL := RLive_append (s := s) (s' := s2) (a0 := s.next + 1) (sz0 := 64) (k0 := .hplain) (by subst hs'; rfl)
  have eB : ∀ a b, RBlk s2 a b ↔ RBlk s a b := by subst hs'; exact RBlk_same rfl
  have eC : ∀ a b k, RCache s2 a b k ↔ RCache s a b k := by subst hs'; exact RCache_same rfl
  have eH := RHdr_push (s := s) (s' := s2) (x := ⟨s.next + 1, 0, true, 0, 0, 0, false, true⟩) (by subst hs'; rfl)
  have eO := ROwn_push (s := s) (s' := s2) (x := ⟨s.next + 1, 0, true, 0, 0, 0, false, true⟩) (by subst hs'; rfl)
  have eN : s2.next = s.next + 1 := by subst hs'; rfl
  have eCur : s2.cur = c := by subst hs'; rfl
  have eCl : s2.cache = s.cache := by subst hs'; rfl
  have eJ : s2.j = s.j := by subst hs'; rfl
  simp only [Nat.mul_zero] at eH eO
  obtain ⟨⟨a1,a2,a3,a4,a5,a6,a7,a8,a9,a10,a11,a12,a13,a14,a15,a16,a17,a18,a19⟩, a20⟩ := hi
  refine ⟨⟨?_, ?_, ?_, ?_, ?_, ?_, ?_, ?_, ?_, ?_, ?_, ?_, ?_, ?_, ?_, ?_, ?_, ?_, ?_⟩, ?_⟩
  · simp only [eL, eN]; clear * - a1; grind
  · simp only [eL]; clear * - a1 a2; grind
  · rw [eCl]; exact a3
  · rw [eJ]; exact a4
  · simp only [eL, eC]; clear * - a5; grind
  · simp only [eC]; exact a6
  · simp only [eL, eO]; clear * - a7; grind
  · simp only [eO]; clear * - a8; grind
  · simp only [eC, eO]; clear * - a9 a5 a1; grind
  · simp only [eB]; exact a10
  · simp only [eB]; exact a11
  · simp only [eB, eL]; clear * - a12; grind
  · simp only [eB, eCur]; exact ⟨u, hcu⟩
  · simp only [eB, eH]; clear * - a14; grind
  · simp only [eB, eH]; clear * - a15; grind
  · simp only [eH]; clear * - a16; grind
  · simp only [eH, eL]; clear * - a17; grind
  · simp only [eH]; clear * - a18 a17 a1; grind
  · simp only [eH, eL, eB, eC, eO]; clear * - a19; grind
  · simp only [eB]; exact a20

theorem pushHdr_Inv (n cm : Nat) (s : State) (hi : Inv n s) : Inv n (pushHdr cm s) := by
  rw [pushHdr_eq]
  generalize hr : hdrMalloc cm s = r
  unfold hdrMalloc at hr
  split at hr
  · rename_i hfull
    dsimp only at hr
    split at hr
    · rename_i B hB
      obtain ⟨hB1, hB2⟩ := notFull_of_findIdx s B hB
      have hc := InvCore_setCur n s B.id B.used hi.toInvCore hB1
      subst hr
      apply markSlot_push n _ hc
      · intro id u hu hne; exact Or.inl (hi.dyn_nonempty id u hu hne)
      · rw [usedOf_eq (s := { s with cur := B.id }) hB1 (fun u' h' => hi.blocks_inj _ _ _ h' hB1)]
        exact hB2
    · rename_i hnone
      obtain ⟨u, hu⟩ := lastBlock_mem s hi.static_mem
      split at hr
      · obtain ⟨h1, h2, h3⟩ := newBlock_core n s ((s.blocks.getLast?.map (·.id)).getD s.cur) hi
        subst hr
        apply markSlot_push n _ h1 h2
        rw [h3]; decide
      · subst hr
        exact plainHdr_Inv n s _ u hi hu
  · rename_i hnf
    subst hr
    apply markSlot_push n s hi.toInvCore
    · intro id u hu hne; exact Or.inl (hi.dyn_nonempty id u hu hne)
    · simpa using hnf
/-! ## `m4ri_mmc_calloc` inside `mzd_init` -/

theorem RCache_of_findIdx? {s : State} {p : Entry → Bool} {i : Nat} (h : s.cache.findIdx? p = some i) :
    ∃ e, p e = true ∧ RCache s i e.size e.data ∧ s.cache.getD i ⟨0, 0⟩ = e := by
  rw [List.findIdx?_eq_some_iff_getElem] at h
  obtain ⟨hl, hp, _⟩ := h
  refine ⟨s.cache[i], hp, ?_, ?_⟩
  · unfold RCache; rw [List.getElem?_eq_getElem hl]
  · simp [List.getD, List.getElem?_eq_getElem hl]

theorem mmcMalloc_cases (n thr : Nat) (s : State) (size : Nat) (hi : Inv n s) (hsz : size ≠ 0) :
    (∃ i d, RCache s i size d ∧ d ≠ 0 ∧ mmcMalloc thr s size = ({ s with cache := s.cache.set i ⟨0, 0⟩ }, d)) ∨
    mmcMalloc thr s size = sysMalloc s size .data := by
  unfold mmcMalloc
  split
  · rename_i i hf
    split at hf
    · obtain ⟨e, hp, hc, hg⟩ := RCache_of_findIdx? hf
      have hes : e.size = size := by simpa using hp
      rw [hes] at hc
      have hl := hi.cache_live _ _ _ hc hsz
      have hd : e.data ≠ 0 := by have := (hi.live_pos _ _ _ hl).1; omega
      left
      refine ⟨i, e.data, hc, hd, ?_⟩
      simp only [hg]
      rw [if_pos hd]
    · cases hf
  · right; rfl


theorem attachData_Inv (n thr : Nat) (s : State) (h r rs : Nat) (hi : Inv n s) (ho : ROwn s h 0 0)
    (hsz : 8 * (r * rs) ≠ 0) : Inv n (attachData thr s h r rs) := by
  obtain ⟨m, hm, hw, hd0, hsz0⟩ := ho
  have hlt := LiveMat_lt hm
  have ho : ROwn s h 0 0 := ⟨m, hm, hw, hd0, hsz0⟩
  unfold attachData
  rw [show s.mats[h]? = some (some m) from hm]
  dsimp only
  unfold mmcCalloc
  obtain ⟨⟨a1,a2,a3,a4,a5,a6,a7,a8,a9,a10,a11,a12,a13,a14,a15,a16,a17,a18,a19⟩, a20⟩ := id hi
  rcases mmcMalloc_cases n thr s _ hi hsz with ⟨i, d, hc, hd, heq⟩ | heq
  · rw [heq]; dsimp only [memsetZero]
    generalize hs' : State.mk _ _ _ _ _ _ _ _ _ _ = s'
    have eL : ∀ a b k, RLive s' a b k ↔ RLive s a b k := by subst hs'; exact RLive_same rfl
    have eC := RCache_set (s := s) (s' := s') (i0 := i) (sz0 := 0) (d0 := 0) (by subst hs'; rfl) (RCache_lt hc)
    have eB : ∀ a b, RBlk s' a b ↔ RBlk s a b := by subst hs'; exact RBlk_same rfl
    have eH := RHdr_set (s := s) (s' := s') (h0 := h) (by subst hs'; rfl) hlt
    have eO := ROwn_set (s := s) (s' := s') (h0 := h) (by subst hs'; rfl) hlt
    have eN : s'.next = s.next := by subst hs'; rfl
    have eCur : s'.cur = s.cur := by subst hs'; rfl
    have eCl : s'.cache.length = s.cache.length := by subst hs'; simp
    have eJ : s'.j = s.j := by subst hs'; rfl
    have hH : RHdr s h m.hb m.slot m.plain := ⟨m, hm, rfl, rfl, rfl⟩
    have hHf : ∀ a b c, RHdr s h a b c → a = m.hb ∧ b = m.slot ∧ c = m.plain := fun a b c h' => RHdr_fun h' hH
    have hOf : ∀ d sz, ROwn s h d sz → d = 0 ∧ sz = 0 := fun d sz h' => ROwn_fun h' ho
    have hCf : ∀ sz' d', RCache s i sz' d' → sz' = 8 * (r * rs) ∧ d' = d := fun _ _ h' => RCache_fun h' hc
    simp only [hw] at eH eO
    clear hs' heq
    refine ⟨⟨?_, ?_, ?_, ?_, ?_, ?_, ?_, ?_, ?_, ?_, ?_, ?_, ?_, ?_, ?_, ?_, ?_, ?_, ?_⟩, ?_⟩
    · simp only [eL, eN]; exact a1
    · simp only [eL]; exact a2
    · rw [eCl]; exact a3
    · rw [eJ]; exact a4
    · simp only [eL, eC]; clear * - a5; grind
    · simp only [eC]; clear * - a6; grind
    · simp only [eL, eO]; clear * - a7 a5 hc hsz; grind
    · simp only [eO]; clear * - a8 a9 hc hsz; grind
    · simp only [eC, eO]; clear * - a9 a6 hc hsz; grind
    · simp only [eB]; exact a10
    · simp only [eB]; exact a11
    · simp only [eB, eL]; exact a12
    · simp only [eB, eCur]; exact a13
    · simp only [eB, eH]; clear * - a14 hH; grind
    · simp only [eB, eH]; clear * - a15 hH hHf; grind
    · simp only [eH]; clear * - a16 hH; grind
    · simp only [eH, eL]; clear * - a17 hH; grind
    · simp only [eH]; clear * - a18 hH; grind
    · simp only [eH, eL, eB, eC, eO]; clear * - a19 hH hHf ho hOf hc hCf hsz a1; grind
    · simp only [eB]; exact a20
  · rw [heq]; dsimp only [memsetZero, sysMalloc]
    generalize hs' : State.mk _ _ _ _ _ _ _ _ _ _ = s'
    have eL := RLive_append (s := s) (s' := s') (a0 := s.next + 1) (sz0 := 8 * (r * rs)) (k0 := .data) (by subst hs'; rfl)
    have eC : ∀ a b k, RCache s' a b k ↔ RCache s a b k := by subst hs'; exact RCache_same rfl
    have eB : ∀ a b, RBlk s' a b ↔ RBlk s a b := by subst hs'; exact RBlk_same rfl
    have eH := RHdr_set (s := s) (s' := s') (h0 := h) (by subst hs'; rfl) hlt
    have eO := ROwn_set (s := s) (s' := s') (h0 := h) (by subst hs'; rfl) hlt
    have eN : s'.next = s.next + 1 := by subst hs'; rfl
    have eCur : s'.cur = s.cur := by subst hs'; rfl
    have eCl : s'.cache = s.cache := by subst hs'; rfl
    have eJ : s'.j = s.j := by subst hs'; rfl
    have hH : RHdr s h m.hb m.slot m.plain := ⟨m, hm, rfl, rfl, rfl⟩
    have hHf : ∀ a b c, RHdr s h a b c → a = m.hb ∧ b = m.slot ∧ c = m.plain := fun a b c h' => RHdr_fun h' hH
    have hOf : ∀ d sz, ROwn s h d sz → d = 0 ∧ sz = 0 := fun d sz h' => ROwn_fun h' ho
    simp only [hw] at eH eO
    clear hs' heq
    refine ⟨⟨?_, ?_, ?_, ?_, ?_, ?_, ?_, ?_, ?_, ?_, ?_, ?_, ?_, ?_, ?_, ?_, ?_, ?_, ?_⟩, ?_⟩
    · simp only [eL, eN]; clear * - a1; grind
    · simp only [eL]; clear * - a1 a2; grind
    · rw [eCl]; exact a3
    · rw [eJ]; exact a4
    · simp only [eL, eC]; clear * - a5; grind
    · simp only [eC]; exact a6
    · simp only [eL, eO]; clear * - a7 hsz; grind
    · simp only [eO]; clear * - a8 a7 a1; grind
    · simp only [eC, eO]; clear * - a9 a5 a1; grind
    · simp only [eB]; exact a10
    · simp only [eB]; exact a11
    · simp only [eB, eL]; clear * - a12; grind
    · simp only [eB, eCur]; exact a13
    · simp only [eB, eH]; clear * - a14 hH; grind
    · simp only [eB, eH]; clear * - a15 hH hHf; grind
    · simp only [eH]; clear * - a16 hH; grind
    · simp only [eH, eL]; clear * - a17 hH; grind
    · simp only [eH]; clear * - a18 hH; grind
    · simp only [eH, eL, eB, eC, eO]; clear * - a19 hH hHf ho hOf a1; grind
    · simp only [eB]; exact a20
/-! ## `mzd_init_window` fields, `m4ri_mmc_free` inside `mzd_free` -/

theorem setWindow_Inv (n : Nat) (s : State) (h : Nat) (P : Mat) (lowr highr : Nat) (hi : Inv n s)
    (ho : ROwn s h 0 0) : Inv n (setWindow s h P lowr highr) := by
  obtain ⟨m, hm, hw, hd0, hsz0⟩ := ho
  have hlt := LiveMat_lt hm
  have ho : ROwn s h 0 0 := ⟨m, hm, hw, hd0, hsz0⟩
  unfold setWindow
  rw [show s.mats[h]? = some (some m) from hm]
  dsimp only
  obtain ⟨⟨a1,a2,a3,a4,a5,a6,a7,a8,a9,a10,a11,a12,a13,a14,a15,a16,a17,a18,a19⟩, a20⟩ := id hi
  generalize hs' : State.mk _ _ _ _ _ _ _ _ _ _ = s'
  have eL : ∀ a b k, RLive s' a b k ↔ RLive s a b k := by subst hs'; exact RLive_same rfl
  have eC : ∀ a b k, RCache s' a b k ↔ RCache s a b k := by subst hs'; exact RCache_same rfl
  have eB : ∀ a b, RBlk s' a b ↔ RBlk s a b := by subst hs'; exact RBlk_same rfl
  have eH := RHdr_set (s := s) (s' := s') (h0 := h) (by subst hs'; rfl) hlt
  have eO := ROwn_set (s := s) (s' := s') (h0 := h) (by subst hs'; rfl) hlt
  have eN : s'.next = s.next := by subst hs'; rfl
  have eCur : s'.cur = s.cur := by subst hs'; rfl
  have eCl : s'.cache = s.cache := by subst hs'; rfl
  have eJ : s'.j = s.j := by subst hs'; rfl
  have hH : RHdr s h m.hb m.slot m.plain := ⟨m, hm, rfl, rfl, rfl⟩
  have hHf : ∀ a b c, RHdr s h a b c → a = m.hb ∧ b = m.slot ∧ c = m.plain := fun a b c h' => RHdr_fun h' hH
  have hOf : ∀ d sz, ROwn s h d sz → d = 0 ∧ sz = 0 := fun d sz h' => ROwn_fun h' ho
  simp only [Bool.true_eq_false, false_and, and_false, or_false] at eH eO
  clear hs'
  refine ⟨⟨?_, ?_, ?_, ?_, ?_, ?_, ?_, ?_, ?_, ?_, ?_, ?_, ?_, ?_, ?_, ?_, ?_, ?_, ?_⟩, ?_⟩
  · simp only [eL, eN]; exact a1
  · simp only [eL]; exact a2
  · rw [eCl]; exact a3
  · rw [eJ]; exact a4
  · simp only [eL, eC]; exact a5
  · simp only [eC]; exact a6
  · simp only [eL, eO]; clear * - a7; grind
  · simp only [eO]; clear * - a8; grind
  · simp only [eC, eO]; clear * - a9; grind
  · simp only [eB]; exact a10
  · simp only [eB]; exact a11
  · simp only [eB, eL]; exact a12
  · simp only [eB, eCur]; exact a13
  · simp only [eB, eH]; clear * - a14 hH; grind
  · simp only [eB, eH]; clear * - a15 hH hHf; grind
  · simp only [eH]; clear * - a16 hH; grind
  · simp only [eH, eL]; clear * - a17 hH; grind
  · simp only [eH]; clear * - a18 hH; grind
  · simp only [eH, eL, eB, eC, eO]; clear * - a19 hH hHf ho hOf a1; grind
  · simp only [eB]; exact a20


theorem sysFree_ne (s : State) (a : Nat) (ha : a ≠ 0) :
    sysFree s a = { s with live := s.live.filter (fun b => b.id != a),
                           zeroIds := s.zeroIds.filter (fun x => x != a),
                           freedLog := s.freedLog ++ [a] } := by
  unfold sysFree; rw [if_neg ha]

theorem detachData_Inv (n thr : Nat) (s : State) (h : Nat) (hi : Inv n s) :
    Inv n (detachData n thr s h) := by
  unfold detachData
  split
  · rename_i m hm
    have hm : LiveMat s h m := hm
    have hlt := LiveMat_lt hm
    dsimp only
    split
    · exact hi
    · rename_i hw
      have hw : m.windowed = false := by simpa using hw
      have ho : ROwn s h m.data (8 * (m.nrows * m.rowstride)) := ⟨m, hm, hw, rfl, rfl⟩
      have hH : RHdr s h m.hb m.slot m.plain := ⟨m, hm, rfl, rfl, rfl⟩
      have hHf : ∀ a b c, RHdr s h a b c → a = m.hb ∧ b = m.slot ∧ c = m.plain := fun a b c h' => RHdr_fun h' hH
      have hOf : ∀ d sz, ROwn s h d sz → d = m.data ∧ sz = 8 * (m.nrows * m.rowstride) := fun d sz h' => ROwn_fun h' ho
      generalize m.data = d at *
      generalize 8 * (m.nrows * m.rowstride) = size at *
      obtain ⟨⟨a1,a2,a3,a4,a5,a6,a7,a8,a9,a10,a11,a12,a13,a14,a15,a16,a17,a18,a19⟩, a20⟩ := id hi
      unfold mmcFree
      dsimp only
      split
      · rename_i hthr
        split
        · rename_i i hf
          obtain ⟨e, hp, hc, -⟩ := RCache_of_findIdx? (s := { s with zeroIds := s.zeroIds.filter (fun x => x != d) }) hf
          have hes : e.size = 0 := by simpa using hp
          rw [hes] at hc
          have hc : RCache s i 0 e.data := hc
          generalize e.data = ed at *
          have hCf : ∀ sz' d', RCache s i sz' d' → sz' = 0 ∧ d' = ed := fun _ _ h' => RCache_fun h' hc
          generalize hs' : State.mk _ _ _ _ _ _ _ _ _ _ = s'
          have eL : ∀ a b k, RLive s' a b k ↔ RLive s a b k := by subst hs'; exact RLive_same rfl
          have eC := RCache_set (s := s) (s' := s') (i0 := i) (sz0 := size) (d0 := d) (by subst hs'; rfl) (RCache_lt hc)
          have eB : ∀ a b, RBlk s' a b ↔ RBlk s a b := by subst hs'; exact RBlk_same rfl
          have eH := RHdr_set (s := s) (s' := s') (h0 := h) (by subst hs'; rfl) hlt
          have eO := ROwn_set (s := s) (s' := s') (h0 := h) (by subst hs'; rfl) hlt
          have eN : s'.next = s.next := by subst hs'; rfl
          have eCur : s'.cur = s.cur := by subst hs'; rfl
          have eCl : s'.cache.length = s.cache.length := by subst hs'; simp
          have eJ : s'.j = s.j := by subst hs'; rfl
          simp only [hw, Nat.zero_mul, Nat.mul_zero] at eH eO
          clear hs' hf
          refine ⟨⟨?_, ?_, ?_, ?_, ?_, ?_, ?_, ?_, ?_, ?_, ?_, ?_, ?_, ?_, ?_, ?_, ?_, ?_, ?_⟩, ?_⟩
          · simp only [eL, eN]; exact a1
          · simp only [eL]; exact a2
          · rw [eCl]; exact a3
          · rw [eJ]; exact a4
          · simp only [eL, eC]; clear * - a5 a7 ho; grind
          · simp only [eC]; clear * - a6 a9 ho; grind
          · simp only [eL, eO]; clear * - a7; grind
          · simp only [eO]; clear * - a8; grind
          · simp only [eC, eO]; clear * - a9 a8 ho a7 a1 a5; grind
          · simp only [eB]; exact a10
          · simp only [eB]; exact a11
          · simp only [eB, eL]; exact a12
          · simp only [eB, eCur]; exact a13
          · simp only [eB, eH]; clear * - a14 hH; grind
          · simp only [eB, eH]; clear * - a15 hH hHf; grind
          · simp only [eH]; clear * - a16 hH; grind
          · simp only [eH, eL]; clear * - a17 hH; grind
          · simp only [eH]; clear * - a18 hH; grind
          · simp only [eH, eL, eB, eC, eO]
            intro a sz k hl
            rcases a19 a sz k hl with ⟨i', sz', hc', hne⟩ | ⟨h', sz', ho'⟩ | hb | ⟨h', sl, hp⟩
            · clear * - hc' hne hCf; grind
            · by_cases hh : h' = h
              · subst hh
                obtain ⟨rfl, rfl⟩ := hOf _ _ ho'
                have : sz' ≠ 0 := by clear * - a1 a7 hl ho; grind
                exact Or.inl ⟨i, sz', Or.inr ⟨rfl, rfl, rfl⟩, this⟩
              · exact Or.inr (Or.inl ⟨h', sz', Or.inl ⟨hh, ho'⟩⟩)
            · exact Or.inr (Or.inr (Or.inl hb))
            · clear * - hp hHf; grind
          · simp only [eB]; exact a20
        · rename_i hf
          have hall : ∀ i sz d', RCache s i sz d' → sz ≠ 0 := by
            intro i sz d' hc'
            rw [List.findIdx?_eq_none_iff] at hf
            have := hf ⟨sz, d'⟩ (List.mem_of_getElem? hc')
            simpa using this
          have hjl : s.j < s.cache.length := by omega
          have hg : (s.cache.getD s.j ⟨0, 0⟩) = s.cache[s.j] := by simp [List.getD, List.getElem?_eq_getElem hjl]
          have hcj : RCache s s.j (s.cache[s.j]).size (s.cache[s.j]).data := by
            unfold RCache; rw [List.getElem?_eq_getElem hjl]
          dsimp only
          rw [hg]
          generalize (s.cache[s.j]).size = es at *
          generalize (s.cache[s.j]).data = ed at *
          have hes : es ≠ 0 := hall _ _ _ hcj
          have hel : RLive s ed es .data := a5 _ _ _ hcj hes
          have hed : ed ≠ 0 := by have := (a1 _ _ _ hel).1; omega
          rw [sysFree_ne _ _ hed]
          dsimp only
          have hCf : ∀ sz' d', RCache s s.j sz' d' → sz' = es ∧ d' = ed := fun _ _ h' => RCache_fun h' hcj
          generalize hs' : State.mk _ _ _ _ _ _ _ _ _ _ = s'
          have eL := RLive_filter (s := s) (s' := s') (a0 := ed) (by subst hs'; rfl)
          have eC := RCache_set (s := s) (s' := s') (i0 := s.j) (sz0 := size) (d0 := d) (by subst hs'; rfl) hjl
          have eB : ∀ a b, RBlk s' a b ↔ RBlk s a b := by subst hs'; exact RBlk_same rfl
          have eH := RHdr_set (s := s) (s' := s') (h0 := h) (by subst hs'; rfl) hlt
          have eO := ROwn_set (s := s) (s' := s') (h0 := h) (by subst hs'; rfl) hlt
          have eN : s'.next = s.next := by subst hs'; rfl
          have eCur : s'.cur = s.cur := by subst hs'; rfl
          have eCl : s'.cache.length = s.cache.length := by subst hs'; simp
          have eJ : s'.j = (s.j + 1) % n := by subst hs'; rfl
          simp only [hw, Nat.zero_mul, Nat.mul_zero] at eH eO
          clear hs' hf hg
          refine ⟨⟨?_, ?_, ?_, ?_, ?_, ?_, ?_, ?_, ?_, ?_, ?_, ?_, ?_, ?_, ?_, ?_, ?_, ?_, ?_⟩, ?_⟩
          · simp only [eL, eN]; clear * - a1; grind
          · simp only [eL]; clear * - a2; grind
          · rw [eCl]; exact a3
          · rw [eJ]; exact Nat.mod_lt _ (by omega)
          · simp only [eL, eC]; clear * - a5 a7 ho a9 a6 hcj hes; grind
          · simp only [eC]; clear * - a6 a9 ho; grind
          · simp only [eL, eO]; clear * - a7 a9 hcj hes; grind
          · simp only [eO]; clear * - a8; grind
          · simp only [eC, eO]; clear * - a9 a8 ho a7 a1 a5; grind
          · simp only [eB]; exact a10
          · simp only [eB]; exact a11
          · simp only [eB, eL]; clear * - a12 a2 hel; grind
          · simp only [eB, eCur]; exact a13
          · simp only [eB, eH]; clear * - a14 hH; grind
          · simp only [eB, eH]; clear * - a15 hH hHf; grind
          · simp only [eH]; clear * - a16 hH; grind
          · simp only [eH, eL]; clear * - a17 hH a2 hel; grind
          · simp only [eH]; clear * - a18 hH; grind
          · simp only [eH, eL, eB, eC, eO]
            rintro a sz k ⟨hne', hl⟩
            rcases a19 a sz k hl with ⟨i', sz', hc', hne⟩ | ⟨h', sz', ho'⟩ | hb | ⟨h', sl, hp⟩
            · clear * - hc' hne hCf hne'; grind
            · by_cases hh : h' = h
              · subst hh
                obtain ⟨rfl, rfl⟩ := hOf _ _ ho'
                have : sz' ≠ 0 := by clear * - a1 a7 hl ho; grind
                exact Or.inl ⟨s.j, sz', Or.inr ⟨rfl, rfl, rfl⟩, this⟩
              · exact Or.inr (Or.inl ⟨h', sz', Or.inl ⟨hh, ho'⟩⟩)
            · exact Or.inr (Or.inr (Or.inl hb))
            · clear * - hp hHf; grind
          · simp only [eB]; exact a20
      · by_cases hd0 : d = 0
        · have : ∀ s0 : State, sysFree s0 d = s0 := by intro s0; unfold sysFree; rw [if_pos hd0]
          rw [this]
          generalize hs' : State.mk _ _ _ _ _ _ _ _ _ _ = s'
          have eL : ∀ a b k, RLive s' a b k ↔ RLive s a b k := by subst hs'; exact RLive_same rfl
          have eC : ∀ a b k, RCache s' a b k ↔ RCache s a b k := by subst hs'; exact RCache_same rfl
          have eB : ∀ a b, RBlk s' a b ↔ RBlk s a b := by subst hs'; exact RBlk_same rfl
          have eH := RHdr_set (s := s) (s' := s') (h0 := h) (by subst hs'; rfl) hlt
          have eO := ROwn_set (s := s) (s' := s') (h0 := h) (by subst hs'; rfl) hlt
          have eN : s'.next = s.next := by subst hs'; rfl
          have eCur : s'.cur = s.cur := by subst hs'; rfl
          have eCl : s'.cache = s.cache := by subst hs'; rfl
          have eJ : s'.j = s.j := by subst hs'; rfl
          simp only [hw, Nat.zero_mul, Nat.mul_zero] at eH eO
          clear hs'
          refine ⟨⟨?_, ?_, ?_, ?_, ?_, ?_, ?_, ?_, ?_, ?_, ?_, ?_, ?_, ?_, ?_, ?_, ?_, ?_, ?_⟩, ?_⟩
          · simp only [eL, eN]; exact a1
          · simp only [eL]; exact a2
          · rw [eCl]; exact a3
          · rw [eJ]; exact a4
          · simp only [eL, eC]; exact a5
          · simp only [eC]; exact a6
          · simp only [eL, eO]; clear * - a7; grind
          · simp only [eO]; clear * - a8; grind
          · simp only [eC, eO]; clear * - a9 a5 a1; grind
          · simp only [eB]; exact a10
          · simp only [eB]; exact a11
          · simp only [eB, eL]; exact a12
          · simp only [eB, eCur]; exact a13
          · simp only [eB, eH]; clear * - a14 hH; grind
          · simp only [eB, eH]; clear * - a15 hH hHf; grind
          · simp only [eH]; clear * - a16 hH; grind
          · simp only [eH, eL]; clear * - a17 hH; grind
          · simp only [eH]; clear * - a18 hH; grind
          · simp only [eH, eL, eB, eC, eO]; clear * - a19 hH hHf ho hOf a1 hd0; grind
          · simp only [eB]; exact a20
        · rw [sysFree_ne _ _ hd0]
          dsimp only
          generalize hs' : State.mk _ _ _ _ _ _ _ _ _ _ = s'
          have eL := RLive_filter (s := s) (s' := s') (a0 := d) (by subst hs'; rfl)
          have eC : ∀ a b k, RCache s' a b k ↔ RCache s a b k := by subst hs'; exact RCache_same rfl
          have eB : ∀ a b, RBlk s' a b ↔ RBlk s a b := by subst hs'; exact RBlk_same rfl
          have eH := RHdr_set (s := s) (s' := s') (h0 := h) (by subst hs'; rfl) hlt
          have eO := ROwn_set (s := s) (s' := s') (h0 := h) (by subst hs'; rfl) hlt
          have eN : s'.next = s.next := by subst hs'; rfl
          have eCur : s'.cur = s.cur := by subst hs'; rfl
          have eCl : s'.cache = s.cache := by subst hs'; rfl
          have eJ : s'.j = s.j := by subst hs'; rfl
          have hel : RLive s d size .data := by clear * - a7 ho hd0; grind
          simp only [hw, Nat.zero_mul, Nat.mul_zero] at eH eO
          clear hs'
          refine ⟨⟨?_, ?_, ?_, ?_, ?_, ?_, ?_, ?_, ?_, ?_, ?_, ?_, ?_, ?_, ?_, ?_, ?_, ?_, ?_⟩, ?_⟩
          · simp only [eL, eN]; clear * - a1; grind
          · simp only [eL]; clear * - a2; grind
          · rw [eCl]; exact a3
          · rw [eJ]; exact a4
          · simp only [eL, eC]; clear * - a5 a9 ho; grind
          · simp only [eC]; exact a6
          · simp only [eL, eO]; clear * - a7 a8 ho hd0; grind
          · simp only [eO]; clear * - a8; grind
          · simp only [eC, eO]; clear * - a9 a5 a1; grind
          · simp only [eB]; exact a10
          · simp only [eB]; exact a11
          · simp only [eB, eL]; clear * - a12 a2 hel; grind
          · simp only [eB, eCur]; exact a13
          · simp only [eB, eH]; clear * - a14 hH; grind
          · simp only [eB, eH]; clear * - a15 hH hHf; grind
          · simp only [eH]; clear * - a16 hH; grind
          · simp only [eH, eL]; clear * - a17 hH a2 hel; grind
          · simp only [eH]; clear * - a18 hH; grind
          · simp only [eH, eL, eB, eC, eO]; clear * - a19 hH hHf ho hOf a1; grind
          · simp only [eB]; exact a20
  · exact hi
/-! ## `mzd_t_free` -/

theorem prevId_spec (l : List HBlock) (x p : Nat) :
    prevId l x p = p ∨ ∃ B ∈ l, B.id = prevId l x p ∧ B.id ≠ x := by
  induction l generalizing p with
  | nil => left; rfl
  | cons C t ih =>
    unfold prevId
    split
    · left; rfl
    · rename_i hne
      rcases ih C.id with h | ⟨B, hB, h1, h2⟩
      · right; exact ⟨C, List.mem_cons_self, h.symm, hne⟩
      · right; exact ⟨B, List.mem_cons_of_mem _ hB, h1, h2⟩

theorem dropHdr_Inv (n : Nat) (s : State) (h : Nat) (hi : Inv n s)
    (hno : ∀ d sz, ROwn s h d sz → d = 0) : Inv n (dropHdr s h) := by
  unfold dropHdr
  split
  · rename_i m hm
    have hm : LiveMat s h m := hm
    have hlt := LiveMat_lt hm
    dsimp only
    have hH : RHdr s h m.hb m.slot m.plain := ⟨m, hm, rfl, rfl, rfl⟩
    have hHf : ∀ a b c, RHdr s h a b c → a = m.hb ∧ b = m.slot ∧ c = m.plain := fun a b c h' => RHdr_fun h' hH
    obtain ⟨⟨a1,a2,a3,a4,a5,a6,a7,a8,a9,a10,a11,a12,a13,a14,a15,a16,a17,a18,a19⟩, a20⟩ := id hi
    unfold hdrFree
    split
    · rename_i hnone
      split at hnone
      · rename_i hp
        have hel : RLive s m.hb 64 .hplain := a17 _ _ _ (hp ▸ hH)
        have hne : m.hb ≠ 0 := by have := (a1 _ _ _ hel).1; omega
        rw [sysFree_ne _ _ hne]
        dsimp only
        generalize hs' : State.mk _ _ _ _ _ _ _ _ _ _ = s'
        have eL := RLive_filter (s := s) (s' := s') (a0 := m.hb) (by subst hs'; rfl)
        have eC : ∀ a b k, RCache s' a b k ↔ RCache s a b k := by subst hs'; exact RCache_same rfl
        have eB : ∀ a b, RBlk s' a b ↔ RBlk s a b := by subst hs'; exact RBlk_same rfl
        have eH := RHdr_unset (s := s) (s' := s') (h0 := h) (by subst hs'; rfl) hlt
        have eO := ROwn_unset (s := s) (s' := s') (h0 := h) (by subst hs'; rfl) hlt
        have eN : s'.next = s.next := by subst hs'; rfl
        have eCur : s'.cur = s.cur := by subst hs'; rfl
        have eCl : s'.cache = s.cache := by subst hs'; rfl
        have eJ : s'.j = s.j := by subst hs'; rfl
        clear hs'
        refine ⟨⟨?_, ?_, ?_, ?_, ?_, ?_, ?_, ?_, ?_, ?_, ?_, ?_, ?_, ?_, ?_, ?_, ?_, ?_, ?_⟩, ?_⟩
        · simp only [eL, eN]; clear * - a1; grind
        · simp only [eL]; clear * - a2; grind
        · rw [eCl]; exact a3
        · rw [eJ]; exact a4
        · simp only [eL, eC]; clear * - a5 a2 hel; grind
        · simp only [eC]; exact a6
        · simp only [eL, eO]; clear * - a7 a2 hel; grind
        · simp only [eO]; clear * - a8; grind
        · simp only [eC, eO]; clear * - a9; grind
        · simp only [eB]; exact a10
        · simp only [eB]; exact a11
        · simp only [eB, eL]; clear * - a12 a2 hel; grind
        · simp only [eB, eCur]; exact a13
        · simp only [eB, eH]; clear * - a14; grind
        · simp only [eB, eH]; clear * - a15 hH hHf hp; grind
        · simp only [eH]; clear * - a16; grind
        · simp only [eH, eL]; clear * - a17 a18 hH hp; grind
        · simp only [eH]; clear * - a18; grind
        · simp only [eH, eL, eB, eC, eO]; clear * - a19 hH hHf hno a1 hp; grind
        · simp only [eB]; exact a20
      · rename_i hp
        have hp : m.plain = false := by simpa using hp
        obtain ⟨_, u, hu, _⟩ := a14 _ _ _ (hp ▸ hH)
        have := List.find?_eq_none.1 hnone _ hu
        simp at this
    · rename_i B hsome
      split at hsome
      · cases hsome
      · rename_i hp
        have hp : m.plain = false := by simpa using hp
        have hBm := List.mem_of_find?_eq_some hsome
        have hBid : B.id = m.hb := by have := List.find?_some hsome; simpa using this
        have hB : RBlk s m.hb B.used := by unfold RBlk; rw [← hBid]; exact hBm
        rw [hBid]
        have hclr := getLsbD_clearBit B.used m.slot
        have hHp : RHdr s h m.hb m.slot false := hp ▸ hH
        clear hsome hBm
        generalize B.used = bu at *
        generalize hu' : bu &&& ~~~(1#64 <<< m.slot) = u' at *
        have hBf : ∀ v, RBlk s m.hb v → v = bu := fun v hv => a11 _ _ _ hv hB
        by_cases hzb : (u' == 0) = true
        · rw [if_pos hzb]
          have hz : u' = 0 := by simpa using hzb
          have hz' : ∀ k, u'.getLsbD k = false := by intro k; rw [hz]; simp
          by_cases hid0 : m.hb = 0
          · rw [if_pos hid0]
            generalize hs' : State.mk _ _ _ _ _ _ _ _ _ _ = s'
            have eL : ∀ a b k, RLive s' a b k ↔ RLive s a b k := by subst hs'; exact RLive_same rfl
            have eC : ∀ a b k, RCache s' a b k ↔ RCache s a b k := by subst hs'; exact RCache_same rfl
            have eB := RBlk_setUsed (s := s) (s' := s') (id0 := m.hb) (u0 := u') (by subst hs'; rfl)
            have eH := RHdr_unset (s := s) (s' := s') (h0 := h) (by subst hs'; rfl) hlt
            have eO := ROwn_unset (s := s) (s' := s') (h0 := h) (by subst hs'; rfl) hlt
            have eN : s'.next = s.next := by subst hs'; rfl
            have eCur : s'.cur = 0 := by subst hs'; rfl
            have eCl : s'.cache = s.cache := by subst hs'; rfl
            have eJ : s'.j = s.j := by subst hs'; rfl
            clear hs'
            refine ⟨⟨?_, ?_, ?_, ?_, ?_, ?_, ?_, ?_, ?_, ?_, ?_, ?_, ?_, ?_, ?_, ?_, ?_, ?_, ?_⟩, ?_⟩
            · simp only [eL, eN]; exact a1
            · simp only [eL]; exact a2
            · rw [eCl]; exact a3
            · rw [eJ]; exact a4
            · simp only [eL, eC]; exact a5
            · simp only [eC]; exact a6
            · simp only [eL, eO]; clear * - a7; grind
            · simp only [eO]; clear * - a8; grind
            · simp only [eC, eO]; clear * - a9; grind
            · simp only [eB]; clear * - a10 hB hid0; grind
            · simp only [eB]; clear * - a11; grind
            · simp only [eB, eL]; clear * - a12; grind
            · simp only [eB, eCur]; clear * - a10 hB hid0; grind
            · simp only [eB, eH]; clear * - a14 a16 hHp hclr hBf hB; grind
            · simp only [eB, eH]; clear * - a15 hHp hHf hclr hBf hB; grind
            · simp only [eH]; clear * - a16; grind
            · simp only [eH, eL]; clear * - a17; grind
            · simp only [eH]; clear * - a18; grind
            · simp only [eH, eL, eB, eC, eO]; clear * - a19 hH hHf hno a1 hp hB; grind
            · simp only [eB]; clear * - a20 hid0; grind
          · rw [if_neg hid0]
            rw [sysFree_ne _ _ hid0]
            dsimp only
            have hcur : ∃ u, RBlk s (if s.cur = m.hb then prevId s.blocks m.hb 0 else s.cur) u ∧
                (if s.cur = m.hb then prevId s.blocks m.hb 0 else s.cur) ≠ m.hb := by
              split
              · rcases prevId_spec s.blocks m.hb 0 with h0 | ⟨C, hC, h1, h2⟩
                · rw [h0]; obtain ⟨u0, hu0⟩ := a10; exact ⟨u0, hu0, fun e => hid0 e.symm⟩
                · rw [← h1]; exact ⟨C.used, hC, h2⟩
              · rename_i hne; obtain ⟨uc, huc⟩ := a13; exact ⟨uc, huc, hne⟩
            generalize (if s.cur = m.hb then prevId s.blocks m.hb 0 else s.cur) = cur' at *
            have hel : RLive s m.hb 4160 .hblock := a12 _ _ hB hid0
            generalize hs' : State.mk _ _ _ _ _ _ _ _ _ _ = s'
            have eL := RLive_filter (s := s) (s' := s') (a0 := m.hb) (by subst hs'; rfl)
            have eC : ∀ a b k, RCache s' a b k ↔ RCache s a b k := by subst hs'; exact RCache_same rfl
            have eB := RBlk_filter (s := s) (s' := s') (id0 := m.hb) (by subst hs'; rfl)
            have eH := RHdr_unset (s := s) (s' := s') (h0 := h) (by subst hs'; rfl) hlt
            have eO := ROwn_unset (s := s) (s' := s') (h0 := h) (by subst hs'; rfl) hlt
            have eN : s'.next = s.next := by subst hs'; rfl
            have eCur : s'.cur = cur' := by subst hs'; rfl
            have eCl : s'.cache = s.cache := by subst hs'; rfl
            have eJ : s'.j = s.j := by subst hs'; rfl
            have hclr' : ∀ k, bu.getLsbD k = true → k = m.slot := by
              intro k hk; have := hclr k; rw [hz' k, hk] at this; simpa using this
            clear hs'
            refine ⟨⟨?_, ?_, ?_, ?_, ?_, ?_, ?_, ?_, ?_, ?_, ?_, ?_, ?_, ?_, ?_, ?_, ?_, ?_, ?_⟩, ?_⟩
            · simp only [eL, eN]; clear * - a1; grind
            · simp only [eL]; clear * - a2; grind
            · rw [eCl]; exact a3
            · rw [eJ]; exact a4
            · simp only [eL, eC]; clear * - a5 a2 hel; grind
            · simp only [eC]; exact a6
            · simp only [eL, eO]; clear * - a7 a2 hel; grind
            · simp only [eO]; clear * - a8; grind
            · simp only [eC, eO]; clear * - a9; grind
            · simp only [eB]; clear * - a10 hid0; grind
            · simp only [eB]; clear * - a11; grind
            · simp only [eB, eL]; clear * - a12; grind
            · simp only [eB, eCur]; clear * - hcur; grind
            · simp only [eB, eH]; clear * - a14 a16 hHp hclr' hBf; grind
            · simp only [eB, eH]; clear * - a15 hHp hHf; grind
            · simp only [eH]; clear * - a16; grind
            · simp only [eH, eL]; clear * - a17 a2 hel; grind
            · simp only [eH]; clear * - a18; grind
            · simp only [eH, eL, eB, eC, eO]; clear * - a19 hH hHf hno a1 hp; grind
            · simp only [eB]; clear * - a20; grind
        · rw [if_neg hzb]
          have hnz : u' ≠ 0 := by simpa using hzb
          generalize hs' : State.mk _ _ _ _ _ _ _ _ _ _ = s'
          have eL : ∀ a b k, RLive s' a b k ↔ RLive s a b k := by subst hs'; exact RLive_same rfl
          have eC : ∀ a b k, RCache s' a b k ↔ RCache s a b k := by subst hs'; exact RCache_same rfl
          have eB := RBlk_setUsed (s := s) (s' := s') (id0 := m.hb) (u0 := u') (by subst hs'; rfl)
          have eH := RHdr_unset (s := s) (s' := s') (h0 := h) (by subst hs'; rfl) hlt
          have eO := ROwn_unset (s := s) (s' := s') (h0 := h) (by subst hs'; rfl) hlt
          have eN : s'.next = s.next := by subst hs'; rfl
          have eCur : s'.cur = s.cur := by subst hs'; rfl
          have eCl : s'.cache = s.cache := by subst hs'; rfl
          have eJ : s'.j = s.j := by subst hs'; rfl
          clear hs'
          refine ⟨⟨?_, ?_, ?_, ?_, ?_, ?_, ?_, ?_, ?_, ?_, ?_, ?_, ?_, ?_, ?_, ?_, ?_, ?_, ?_⟩, ?_⟩
          · simp only [eL, eN]; exact a1
          · simp only [eL]; exact a2
          · rw [eCl]; exact a3
          · rw [eJ]; exact a4
          · simp only [eL, eC]; exact a5
          · simp only [eC]; exact a6
          · simp only [eL, eO]; clear * - a7; grind
          · simp only [eO]; clear * - a8; grind
          · simp only [eC, eO]; clear * - a9; grind
          · simp only [eB]; clear * - a10 hB; grind
          · simp only [eB]; clear * - a11; grind
          · simp only [eB, eL]; clear * - a12; grind
          · simp only [eB, eCur]; clear * - a13 hB; grind
          · simp only [eB, eH]; clear * - a14 a16 hHp hclr hBf hB; grind
          · simp only [eB, eH]; clear * - a15 hHp hHf hclr hBf hB; grind
          · simp only [eH]; clear * - a16; grind
          · simp only [eH, eL]; clear * - a17; grind
          · simp only [eH]; clear * - a18; grind
          · simp only [eH, eL, eB, eC, eO]; clear * - a19 hH hHf hno a1 hp hB; grind
          · simp only [eB]; clear * - a20 hnz; grind
  · exact hi
/-! ## `m4ri_mmc_cleanup` -/

/-- the loop of `m4ri_mmc_cleanup` -/
def cleanFold (l : List Entry) (st : State) : State :=
  l.foldl (fun st e => if e.size ≠ 0 then sysFree st e.data else st) st

theorem sysFree_frame (s : State) (a : Nat) :
    (sysFree s a).cache = s.cache ∧ (sysFree s a).j = s.j ∧ (sysFree s a).blocks = s.blocks ∧
    (sysFree s a).cur = s.cur ∧ (sysFree s a).mats = s.mats ∧ (sysFree s a).next = s.next ∧
    (sysFree s a).newLog = s.newLog := by
  unfold sysFree; split <;> simp

theorem sysFree_RLive (s : State) (a x sz : Nat) (k : Kind) :
    RLive (sysFree s a) x sz k ↔ (RLive s x sz k ∧ (x ≠ a ∨ a = 0)) := by
  unfold sysFree
  split
  · rename_i h0; subst h0; simp
  · rename_i h0; unfold RLive; simp [h0]

theorem cleanFold_frame (l : List Entry) (st : State) :
    (cleanFold l st).cache = st.cache ∧ (cleanFold l st).j = st.j ∧ (cleanFold l st).blocks = st.blocks ∧
    (cleanFold l st).cur = st.cur ∧ (cleanFold l st).mats = st.mats ∧ (cleanFold l st).next = st.next ∧
    (cleanFold l st).newLog = st.newLog := by
  induction l generalizing st with
  | nil => simp [cleanFold]
  | cons e t ih =>
    unfold cleanFold; rw [List.foldl_cons]
    have := ih (if e.size ≠ 0 then sysFree st e.data else st)
    unfold cleanFold at this
    rw [this.1, this.2.1, this.2.2.1, this.2.2.2.1, this.2.2.2.2.1, this.2.2.2.2.2.1, this.2.2.2.2.2.2]
    split
    · exact sysFree_frame _ _
    · simp

theorem cleanFold_RLive (l : List Entry) (st : State) (x sz : Nat) (k : Kind) :
    RLive (cleanFold l st) x sz k ↔ (RLive st x sz k ∧ ∀ e ∈ l, e.size ≠ 0 → (x ≠ e.data ∨ e.data = 0)) := by
  induction l generalizing st with
  | nil => simp [cleanFold]
  | cons e t ih =>
    unfold cleanFold; rw [List.foldl_cons]
    have := ih (if e.size ≠ 0 then sysFree st e.data else st)
    unfold cleanFold at this
    rw [this]
    split
    · rename_i hne
      rw [sysFree_RLive]
      simp only [List.mem_cons, forall_eq_or_imp]
      constructor
      · rintro ⟨⟨h1, h2⟩, h3⟩; exact ⟨h1, fun _ => h2, h3⟩
      · rintro ⟨h1, h2, h3⟩; exact ⟨⟨h1, h2 hne⟩, h3⟩
    · rename_i hne
      simp only [List.mem_cons, forall_eq_or_imp]
      constructor
      · rintro ⟨h1, h3⟩; exact ⟨h1, fun h => absurd h hne, h3⟩
      · rintro ⟨h1, _, h3⟩; exact ⟨h1, h3⟩

theorem mmcCleanup_eq (s : State) : mmcCleanup s =
    { cleanFold s.cache s with cache := (cleanFold s.cache s).cache.map (fun e => ⟨0, e.data⟩) } := rfl

theorem mmcCleanup_Inv (n : Nat) (s : State) (hi : Inv n s) : Inv n (mmcCleanup s) := by
  rw [mmcCleanup_eq]
  obtain ⟨f1, f2, f3, f4, f5, f6, f7⟩ := cleanFold_frame s.cache s
  have fL := cleanFold_RLive s.cache s
  generalize cleanFold s.cache s = s1 at *
  generalize hs' : State.mk _ _ _ _ _ _ _ _ _ _ = s'
  obtain ⟨⟨a1,a2,a3,a4,a5,a6,a7,a8,a9,a10,a11,a12,a13,a14,a15,a16,a17,a18,a19⟩, a20⟩ := id hi
  have eL : ∀ a sz k, RLive s' a sz k ↔ (RLive s a sz k ∧ ∀ i sz', RCache s i sz' a → sz' = 0) := by
    intro a sz k
    have e1 : RLive s' a sz k ↔ RLive s1 a sz k := by subst hs'; exact RLive_same rfl _ _ _
    rw [e1, fL]
    constructor
    · rintro ⟨h1, h2⟩
      refine ⟨h1, ?_⟩
      intro i sz' hc
      apply Classical.byContradiction; intro hne
      have := h2 _ (List.mem_of_getElem? hc) hne
      have hp := (a1 _ _ _ h1).1
      simp at this; omega
    · rintro ⟨h1, h2⟩
      refine ⟨h1, ?_⟩
      intro e he hne
      obtain ⟨i, hi'⟩ := List.mem_iff_getElem?.1 he
      left; intro hx
      have := h2 i e.size (by unfold RCache; rw [hi', hx])
      exact hne this
  have eC : ∀ i sz d, RCache s' i sz d ↔ (sz = 0 ∧ ∃ sz0, RCache s i sz0 d) := by
    intro i sz d
    subst hs'
    unfold RCache
    simp only [f1, List.getElem?_map, Option.map_eq_some_iff]
    constructor
    · rintro ⟨e, he, hx⟩
      cases hx
      exact ⟨rfl, e.size, he⟩
    · rintro ⟨rfl, sz0, he⟩
      exact ⟨_, he, rfl⟩
  have eB : ∀ a b, RBlk s' a b ↔ RBlk s a b := by subst hs'; exact RBlk_same f3
  have eH : ∀ a b c d, RHdr s' a b c d ↔ RHdr s a b c d := by subst hs'; exact RHdr_same f5
  have eO : ∀ a b c, ROwn s' a b c ↔ ROwn s a b c := by subst hs'; exact ROwn_same f5
  have eN : s'.next = s.next := by subst hs'; exact f6
  have eCur : s'.cur = s.cur := by subst hs'; exact f4
  have eCl : s'.cache.length = s.cache.length := by subst hs'; simp [f1]
  have eJ : s'.j = s.j := by subst hs'; exact f2
  clear hs' fL f1 f2 f3 f4 f5 f6 f7
  refine ⟨⟨?_, ?_, ?_, ?_, ?_, ?_, ?_, ?_, ?_, ?_, ?_, ?_, ?_, ?_, ?_, ?_, ?_, ?_, ?_⟩, ?_⟩
  · simp only [eL, eN]; clear * - a1; grind
  · simp only [eL]; clear * - a2; grind
  · rw [eCl]; exact a3
  · rw [eJ]; exact a4
  · simp only [eL, eC]; clear * - a5; grind
  · simp only [eC]; clear * - a6; grind
  · simp only [eL, eO]; clear * - a7 a9; grind
  · simp only [eO]; clear * - a8; grind
  · simp only [eC, eO]; clear * - a9; grind
  · simp only [eB]; exact a10
  · simp only [eB]; exact a11
  · simp only [eB, eL]; clear * - a12 a2 a5; grind
  · simp only [eB, eCur]; exact a13
  · simp only [eB, eH]; exact a14
  · simp only [eB, eH]; exact a15
  · simp only [eH]; exact a16
  · simp only [eH, eL]; clear * - a17 a2 a5; grind
  · simp only [eH]; exact a18
  · simp only [eH, eL, eB, eC, eO]; clear * - a19; grind
  · simp only [eB]; exact a20

/-! ## Every operation preserves the invariant -/

theorem Inv_congr (n : Nat) (s s' : State) (h1 : s'.next = s.next) (h2 : s'.live = s.live)
    (h3 : s'.cache = s.cache) (h4 : s'.j = s.j) (h5 : s'.blocks = s.blocks) (h6 : s'.cur = s.cur)
    (h7 : s'.mats = s.mats) (hi : Inv n s) : Inv n s' := by
  have eL := RLive_same h2
  have eC := RCache_same h3
  have eB := RBlk_same h5
  have eH := RHdr_same h7
  have eO := ROwn_same h7
  obtain ⟨⟨a1,a2,a3,a4,a5,a6,a7,a8,a9,a10,a11,a12,a13,a14,a15,a16,a17,a18,a19⟩, a20⟩ := hi
  refine ⟨⟨?_, ?_, ?_, ?_, ?_, ?_, ?_, ?_, ?_, ?_, ?_, ?_, ?_, ?_, ?_, ?_, ?_, ?_, ?_⟩, ?_⟩
  · simp only [eL, h1]; exact a1
  · simp only [eL]; exact a2
  · rw [h3]; exact a3
  · rw [h4]; exact a4
  · simp only [eL, eC]; exact a5
  · simp only [eC]; exact a6
  · simp only [eL, eO]; exact a7
  · simp only [eO]; exact a8
  · simp only [eC, eO]; exact a9
  · simp only [eB]; exact a10
  · simp only [eB]; exact a11
  · simp only [eB, eL]; exact a12
  · simp only [eB, h6]; exact a13
  · simp only [eB, eH]; exact a14
  · simp only [eB, eH]; exact a15
  · simp only [eH]; exact a16
  · simp only [eH, eL]; exact a17
  · simp only [eH]; exact a18
  · simp only [eH, eL, eB, eC, eO]; exact a19
  · simp only [eB]; exact a20

theorem clearLogs_Inv (n : Nat) (s : State) (hi : Inv n s) : Inv n (clearLogs s) :=
  Inv_congr n s _ rfl rfl rfl rfl rfl rfl rfl hi

theorem sysMalloc_mats (s : State) (sz : Nat) (k : Kind) : (sysMalloc s sz k).1.mats = s.mats := rfl
theorem sysFree_mats (s : State) (a : Nat) : (sysFree s a).mats = s.mats := (sysFree_frame s a).2.2.2.2.1
theorem markSlot_mats (s : State) : (markSlot s).1.mats = s.mats := rfl

theorem hdrMalloc_mats (cm : Nat) (s : State) : (hdrMalloc cm s).1.mats = s.mats := by
  unfold hdrMalloc
  split
  · dsimp only
    split
    · rfl
    · split <;> rfl
  · rfl

theorem mmcFree_mats (nb thr : Nat) (s : State) (d sz : Nat) : (mmcFree nb thr s d sz).mats = s.mats := by
  unfold mmcFree
  dsimp only
  split
  · split
    · rfl
    · simp [sysFree_mats]
  · simp [sysFree_mats]

theorem pushHdr_mats (cm : Nat) (s : State) :
    ∃ hb slot plain, (pushHdr cm s).mats = s.mats ++ [some ⟨hb, slot, plain, 0, 0, 0, false, true⟩] := by
  refine ⟨(hdrMalloc cm s).2.hb, (hdrMalloc cm s).2.slot, (hdrMalloc cm s).2.plain, ?_⟩
  rw [pushHdr_eq]; unfold pushRec; dsimp only; rw [hdrMalloc_mats]

theorem pushHdr_ROwn (cm : Nat) (s : State) : ROwn (pushHdr cm s) s.mats.length 0 0 := by
  obtain ⟨hb, slot, plain, hm⟩ := pushHdr_mats cm s
  refine ⟨⟨hb, slot, plain, 0, 0, 0, false, true⟩, ?_, rfl, rfl, rfl⟩
  unfold LiveMat; rw [hm]; simp

theorem rowstrideOf_ne (c : Nat) (hc : c ≠ 0) : rowstrideOf c ≠ 0 := by
  unfold rowstrideOf widthOf; split <;> omega

theorem detachData_noOwn (nb thr : Nat) (s : State) (h : Nat) :
    ∀ d sz, ROwn (detachData nb thr s h) h d sz → d = 0 := by
  intro d sz ho
  unfold detachData at ho
  split at ho
  · rename_i m hm
    have hm : LiveMat s h m := hm
    split at ho
    · rename_i hw
      obtain ⟨m', hm', hw', _⟩ := ho
      cases LiveMat_fun hm hm'
      rw [hw] at hw'; cases hw'
    · obtain ⟨m', hm', hw', rfl, _⟩ := ho
      unfold LiveMat at hm'
      dsimp only at hm'
      rw [mmcFree_mats] at hm'
      rw [List.getElem?_set_self (LiveMat_lt hm)] at hm'
      cases hm'; rfl
  · rename_i hnm
    obtain ⟨m', hm', _⟩ := ho
    exact absurd hm' (hnm m')

theorem step_Inv (n cm thr : Nat) (s : State) (op : AOp) (hi : Inv n s) :
    Inv n (step n cm thr s op).1 := by
  have hc := clearLogs_Inv n s hi
  cases op with
  | init r c =>
    unfold step; dsimp only
    have h1 := pushHdr_Inv n cm _ hc
    split
    · rename_i hrc
      apply attachData_Inv n thr _ _ _ _ h1 (pushHdr_ROwn cm _)
      have := rowstrideOf_ne c hrc.2
      have h2 : r * rowstrideOf c ≠ 0 := Nat.mul_ne_zero hrc.1 this
      omega
    · exact h1
  | window p lowr lowc highr highc =>
    unfold step; dsimp only
    split
    · exact setWindow_Inv n _ _ _ _ _ (pushHdr_Inv n cm _ hc) (pushHdr_ROwn cm _)
    · exact hc
  | free h =>
    unfold step; dsimp only
    split
    · exact dropHdr_Inv n _ h (detachData_Inv n thr _ h hc) (detachData_noOwn n thr _ h)
    · exact hc
  | cleanup => exact mmcCleanup_Inv n _ hc

theorem run_Inv (n cm thr : Nat) (s : State) (ops : List AOp) (hi : Inv n s) :
    Inv n (run n cm thr s ops) := by
  induction ops generalizing s with
  | nil => exact hi
  | cons op ops ih => exact ih _ (step_Inv n cm thr s op hi)

/-- Every state reachable from library load satisfies the invariant (for all capacities, `0 < nblocks`). -/
theorem reachable_Inv (n cm thr : Nat) (hn : 0 < n) (ops : List AOp) :
    Inv n (run n cm thr (State.initial n) ops) :=
  run_Inv n cm thr _ ops (Inv_initial n hn)

/-! ## What each operation does to the table of matrices -/

theorem mmcMalloc_mats (thr : Nat) (s : State) (sz : Nat) : (mmcMalloc thr s sz).1.mats = s.mats := by
  unfold mmcMalloc
  split
  · dsimp only; split <;> rfl
  · rfl

theorem attachData_mats (thr : Nat) (s : State) (h r rs : Nat) (m : Mat) (hm : LiveMat s h m) :
    (attachData thr s h r rs).mats = s.mats.set h (some { m with
      data := Prod.snd (mmcMalloc thr s (8 * (r * rs))), nrows := r, rowstride := rs, zeroed := true }) := by
  unfold attachData
  rw [show s.mats[h]? = some (some m) from hm]
  simp [mmcCalloc, memsetZero, mmcMalloc_mats]

theorem hdrFree_mats (s : State) (m : Mat) : (hdrFree s m).mats = s.mats := by
  unfold hdrFree
  split
  · exact sysFree_mats _ _
  · dsimp only
    split
    · split
      · rfl
      · exact sysFree_mats _ _
    · rfl

theorem set_push_last {α} (l : List α) (x y : α) : (l ++ [x]).set l.length y = l ++ [y] := by
  simp

theorem step_init_spec (n cm thr : Nat) (s : State) (r c : Nat) :
    ∃ m, (step n cm thr s (.init r c)).2 = .init m ∧
      (step n cm thr s (.init r c)).1.mats = s.mats ++ [some m] ∧
      m.windowed = false ∧ m.zeroed = true ∧
      ((r = 0 ∨ c = 0) → m.data = 0 ∧ m.nrows * m.rowstride = 0) ∧
      ((r ≠ 0 ∧ c ≠ 0) → m.nrows = r ∧ m.rowstride = rowstrideOf c) := by
  obtain ⟨hb, slot, plain, hp⟩ := pushHdr_mats cm (clearLogs s)
  have hlen : (clearLogs s).mats = s.mats := rfl
  rw [hlen] at hp
  unfold step; dsimp only
  rw [hlen]
  by_cases hrc : r ≠ 0 ∧ c ≠ 0
  · rw [if_pos hrc]
    have hl : LiveMat (pushHdr cm (clearLogs s)) s.mats.length ⟨hb, slot, plain, 0, 0, 0, false, true⟩ := by
      unfold LiveMat; rw [hp]; simp
    have hm := attachData_mats thr _ s.mats.length r (rowstrideOf c) _ hl
    rw [hp, set_push_last] at hm
    refine ⟨_, ?_, hm, rfl, rfl, ?_, ?_⟩
    · rw [hm]; simp
    · intro h; omega
    · intro _; exact ⟨rfl, rfl⟩
  · rw [if_neg hrc]
    refine ⟨_, ?_, hp, rfl, rfl, ?_, ?_⟩
    · rw [hp]; simp
    · intro _; exact ⟨rfl, rfl⟩
    · intro h; exact absurd h hrc

theorem step_window_spec (n cm thr : Nat) (s : State) (p lowr lowc highr highc : Nat) (P : Mat)
    (hP : LiveMat s p P) :
    ∃ w, (step n cm thr s (.window p lowr lowc highr highc)).2 = .window w ∧
      (step n cm thr s (.window p lowr lowc highr highc)).1.mats = s.mats ++ [some w] ∧
      w.windowed = true ∧ w.data = P.data ∧ w.rowstride = P.rowstride := by
  obtain ⟨hb, slot, plain, hp⟩ := pushHdr_mats cm (clearLogs s)
  have hlen : (clearLogs s).mats = s.mats := rfl
  rw [hlen] at hp
  unfold step; dsimp only
  rw [hlen, show s.mats[p]? = some (some P) from hP]
  dsimp only
  have hl : (pushHdr cm (clearLogs s)).mats[s.mats.length]? = some (some ⟨hb, slot, plain, 0, 0, 0, false, true⟩) := by
    rw [hp]; simp
  unfold setWindow
  rw [hl]; dsimp only
  rw [hp, set_push_last]
  refine ⟨_, ?_, rfl, rfl, rfl, rfl⟩
  simp

theorem step_window_bad (n cm thr : Nat) (s : State) (p lowr lowc highr highc : Nat)
    (hP : ∀ P, ¬ LiveMat s p P) :
    (step n cm thr s (.window p lowr lowc highr highc)) = (clearLogs s, .bad "W") := by
  unfold step; dsimp only
  split
  · rename_i P h; exact absurd h (hP P)
  · rfl

theorem detachData_mats (nb thr : Nat) (s : State) (h : Nat) :
    ((detachData nb thr s h).mats.set h none) = s.mats.set h none := by
  unfold detachData
  split
  · split
    · rfl
    · dsimp only; rw [mmcFree_mats]; simp
  · rfl

theorem detachData_live (nb thr : Nat) (s : State) (h : Nat) (m : Mat) (hm : LiveMat s h m) :
    ∃ m', LiveMat (detachData nb thr s h) h m' ∧ m'.hb = m.hb ∧ m'.slot = m.slot ∧ m'.plain = m.plain ∧
      m'.windowed = m.windowed := by
  unfold detachData
  rw [show s.mats[h]? = some (some m) from hm]
  dsimp only
  split
  · exact ⟨m, hm, rfl, rfl, rfl, rfl⟩
  · refine ⟨{ m with data := 0, nrows := 0 }, ?_, rfl, rfl, rfl, rfl⟩
    unfold LiveMat; dsimp only
    rw [mmcFree_mats, List.getElem?_set_self (LiveMat_lt hm)]

theorem set_none_of_not_live (l : List (Option Mat)) (h : Nat) (hno : ∀ m, l[h]? ≠ some (some m)) :
    l = l.set h none := by
  apply List.ext_getElem?
  intro i
  rw [List.getElem?_set]
  split
  · rename_i hi; subst hi
    split
    · rename_i hl
      cases hx : l[h]? with
      | none => rw [List.getElem?_eq_none_iff] at hx; omega
      | some x =>
        cases x with
        | none => rfl
        | some m => exact absurd hx (hno m)
    · rename_i hl; exact List.getElem?_eq_none (by omega)
  · rfl

theorem step_free_mats (n cm thr : Nat) (s : State) (h : Nat) :
    (step n cm thr s (.free h)).1.mats = s.mats.set h none := by
  unfold step; dsimp only
  split
  · rename_i m hm
    unfold dropHdr
    split
    · dsimp only; rw [hdrFree_mats, detachData_mats]; rfl
    · rename_i hno
      obtain ⟨m', hm', _⟩ := detachData_live n thr (clearLogs s) h m hm
      exact absurd hm' (hno m')
  · rename_i hno
    exact set_none_of_not_live s.mats h (fun m hm => hno m hm)

theorem step_cleanup_mats (n cm thr : Nat) (s : State) :
    (step n cm thr s .cleanup).1.mats = s.mats := by
  show (mmcCleanup (clearLogs s)).mats = s.mats
  rw [mmcCleanup_eq]
  exact (cleanFold_frame _ _).2.2.2.2.1

/-! ## What `mzd_free` releases -/

/-- `s1` is `s` after at most one `m4ri_mm_free`, of a block that was live with kind `k` -/
def FreedAtMost (s s1 : State) (P : Kind → Prop) : Prop :=
  s1.next = s.next ∧ s1.newLog = s.newLog ∧
  ((s1.live = s.live ∧ s1.freedLog = s.freedLog) ∨
   ∃ x sz k, P k ∧ RLive s x sz k ∧ s1.live = s.live.filter (fun b => b.id != x) ∧
     s1.freedLog = s.freedLog ++ [x])

theorem detachData_freed (n thr : Nat) (s : State) (h : Nat) (hi : Inv n s) :
    FreedAtMost s (detachData n thr s h) (· = .data) ∧
    (detachData n thr s h).blocks = s.blocks ∧ (detachData n thr s h).cur = s.cur := by
  unfold detachData
  split
  · rename_i m hm
    have hm : LiveMat s h m := hm
    dsimp only
    split
    · exact ⟨⟨rfl, rfl, Or.inl ⟨rfl, rfl⟩⟩, rfl, rfl⟩
    · rename_i hw
      have hw : m.windowed = false := by simpa using hw
      have ho : ROwn s h m.data (8 * (m.nrows * m.rowstride)) := ⟨m, hm, hw, rfl, rfl⟩
      generalize m.data = d at *
      generalize 8 * (m.nrows * m.rowstride) = size at *
      unfold mmcFree
      dsimp only
      split
      · split
        · exact ⟨⟨rfl, rfl, Or.inl ⟨rfl, rfl⟩⟩, rfl, rfl⟩
        · rename_i hf
          have hall : ∀ i sz d', RCache s i sz d' → sz ≠ 0 := by
            intro i sz d' hc'
            rw [List.findIdx?_eq_none_iff] at hf
            have := hf ⟨sz, d'⟩ (List.mem_of_getElem? hc')
            simpa using this
          have hjl : s.j < s.cache.length := by have := hi.cache_len; have := hi.j_lt; omega
          have hg : (s.cache.getD s.j ⟨0, 0⟩) = s.cache[s.j] := by simp [List.getD, List.getElem?_eq_getElem hjl]
          have hcj : RCache s s.j (s.cache[s.j]).size (s.cache[s.j]).data := by
            unfold RCache; rw [List.getElem?_eq_getElem hjl]
          dsimp only
          rw [hg]
          generalize (s.cache[s.j]).size = es at *
          generalize (s.cache[s.j]).data = ed at *
          have hes : es ≠ 0 := hall _ _ _ hcj
          have hel : RLive s ed es .data := hi.cache_live _ _ _ hcj hes
          have hed : ed ≠ 0 := by have := (hi.live_pos _ _ _ hel).1; omega
          rw [sysFree_ne _ _ hed]
          exact ⟨⟨rfl, rfl, Or.inr ⟨ed, es, .data, rfl, hel, rfl, rfl⟩⟩, rfl, rfl⟩
      · by_cases hd0 : d = 0
        · have : ∀ s0 : State, sysFree s0 d = s0 := by intro s0; unfold sysFree; rw [if_pos hd0]
          rw [this]
          exact ⟨⟨rfl, rfl, Or.inl ⟨rfl, rfl⟩⟩, rfl, rfl⟩
        · rw [sysFree_ne _ _ hd0]
          have hel : RLive s d size .data := by
            rcases hi.data_live _ _ _ ho with ⟨h0, _⟩ | ⟨_, hl⟩
            · exact absurd h0 hd0
            · exact hl
          exact ⟨⟨rfl, rfl, Or.inr ⟨d, size, .data, rfl, hel, rfl, rfl⟩⟩, rfl, rfl⟩
  · exact ⟨⟨rfl, rfl, Or.inl ⟨rfl, rfl⟩⟩, rfl, rfl⟩

theorem detachData_windowed (n thr : Nat) (s : State) (h : Nat) (m : Mat) (hm : LiveMat s h m)
    (hw : m.windowed = true) : detachData n thr s h = s := by
  unfold detachData
  rw [show s.mats[h]? = some (some m) from hm]
  simp [hw]

theorem dropHdr_freed (n : Nat) (s : State) (h : Nat) (hi : Inv n s) :
    FreedAtMost s (dropHdr s h) (· ≠ .data) ∧
    (dropHdr s h).cache = s.cache ∧ (dropHdr s h).j = s.j := by
  unfold dropHdr
  split
  · rename_i m hm
    have hm : LiveMat s h m := hm
    have hH : RHdr s h m.hb m.slot m.plain := ⟨m, hm, rfl, rfl, rfl⟩
    dsimp only
    unfold hdrFree
    split
    · rename_i hnone
      split at hnone
      · rename_i hp
        have hel : RLive s m.hb 64 .hplain := hi.plain_live _ _ _ (hp ▸ hH)
        have hne : m.hb ≠ 0 := by have := (hi.live_pos _ _ _ hel).1; omega
        rw [sysFree_ne _ _ hne]
        exact ⟨⟨rfl, rfl, Or.inr ⟨m.hb, 64, .hplain, by simp, hel, rfl, rfl⟩⟩, rfl, rfl⟩
      · rename_i hp
        have hp : m.plain = false := by simpa using hp
        obtain ⟨_, u, hu, _⟩ := hi.hdr_used _ _ _ (hp ▸ hH)
        have := List.find?_eq_none.1 hnone _ hu
        simp at this
    · rename_i B hsome
      split at hsome
      · cases hsome
      · have hBm := List.mem_of_find?_eq_some hsome
        have hBid : B.id = m.hb := by have := List.find?_some hsome; simpa using this
        have hB : RBlk s m.hb B.used := by unfold RBlk; rw [← hBid]; exact hBm
        rw [hBid]
        dsimp only
        split
        · split
          · exact ⟨⟨rfl, rfl, Or.inl ⟨rfl, rfl⟩⟩, rfl, rfl⟩
          · rename_i hid0
            rw [sysFree_ne _ _ hid0]
            have hel : RLive s m.hb 4160 .hblock := hi.blocks_live _ _ hB hid0
            exact ⟨⟨rfl, rfl, Or.inr ⟨m.hb, 4160, .hblock, by simp, hel, rfl, rfl⟩⟩, rfl, rfl⟩
        · exact ⟨⟨rfl, rfl, Or.inl ⟨rfl, rfl⟩⟩, rfl, rfl⟩
  · exact ⟨⟨rfl, rfl, Or.inl ⟨rfl, rfl⟩⟩, rfl, rfl⟩

/-! ## Allocation side: at most fresh ids appear, nothing is released -/

/-- `s1` is `s` after some `m4ri_mm_malloc`s and no `m4ri_mm_free` -/
def OnlyAlloc (s s1 : State) : Prop :=
  s1.freedLog = s.freedLog ∧ s.next ≤ s1.next ∧
  (∀ a sz k, RLive s a sz k → RLive s1 a sz k) ∧
  (∀ a sz k, RLive s1 a sz k → RLive s a sz k ∨ s.next < a)

theorem OnlyAlloc.refl (s : State) : OnlyAlloc s s := ⟨rfl, Nat.le_refl _, fun _ _ _ h => h, fun _ _ _ h => Or.inl h⟩

theorem OnlyAlloc.trans {s s1 s2 : State} (h1 : OnlyAlloc s s1) (h2 : OnlyAlloc s1 s2) : OnlyAlloc s s2 := by
  obtain ⟨a1, a2, a3, a4⟩ := h1
  obtain ⟨b1, b2, b3, b4⟩ := h2
  refine ⟨by rw [b1, a1], by omega, fun a sz k h => b3 _ _ _ (a3 _ _ _ h), ?_⟩
  intro a sz k h
  rcases b4 a sz k h with h | h
  · exact a4 a sz k h
  · right; omega

theorem OnlyAlloc.of_eq {s s1 : State} (h1 : s1.freedLog = s.freedLog) (h2 : s1.next = s.next)
    (h3 : s1.live = s.live) : OnlyAlloc s s1 :=
  ⟨h1, by omega, fun a sz k h => (RLive_same h3 a sz k).2 h, fun a sz k h => Or.inl ((RLive_same h3 a sz k).1 h)⟩

theorem sysMalloc_OnlyAlloc (s : State) (sz : Nat) (k : Kind) : OnlyAlloc s (sysMalloc s sz k).1 := by
  refine ⟨rfl, by show s.next ≤ s.next + 1; omega, ?_, ?_⟩
  · intro a sz' k' h; exact (RLive_append (s := s) (s' := (sysMalloc s sz k).1) rfl a sz' k').2 (Or.inl h)
  · intro a sz' k' h
    rcases (RLive_append (s := s) (s' := (sysMalloc s sz k).1) rfl a sz' k').1 h with h | ⟨rfl, _⟩
    · exact Or.inl h
    · right; omega

theorem markSlot_OnlyAlloc (s : State) : OnlyAlloc s (markSlot s).1 := OnlyAlloc.of_eq rfl rfl rfl

theorem hdrMalloc_OnlyAlloc (cm : Nat) (s : State) : OnlyAlloc s (hdrMalloc cm s).1 := by
  unfold hdrMalloc
  split
  · dsimp only
    split
    · exact OnlyAlloc.of_eq rfl rfl rfl
    · split
      · refine OnlyAlloc.trans (OnlyAlloc.of_eq (s1 := { s with cur := _ }) rfl rfl rfl) ?_
        refine OnlyAlloc.trans (sysMalloc_OnlyAlloc _ 4160 .hblock) ?_
        exact OnlyAlloc.of_eq rfl rfl rfl
      · refine OnlyAlloc.trans (OnlyAlloc.of_eq (s1 := { s with cur := _ }) rfl rfl rfl) ?_
        exact sysMalloc_OnlyAlloc _ 64 .hplain
  · exact OnlyAlloc.of_eq rfl rfl rfl

theorem pushHdr_OnlyAlloc (cm : Nat) (s : State) : OnlyAlloc s (pushHdr cm s) := by
  rw [pushHdr_eq]
  exact OnlyAlloc.trans (hdrMalloc_OnlyAlloc cm s) (OnlyAlloc.of_eq rfl rfl rfl)

theorem mmcMalloc_OnlyAlloc (thr : Nat) (s : State) (sz : Nat) : OnlyAlloc s (mmcMalloc thr s sz).1 := by
  unfold mmcMalloc
  split
  · dsimp only
    split
    · exact OnlyAlloc.of_eq rfl rfl rfl
    · exact OnlyAlloc.trans (OnlyAlloc.of_eq (s1 := { s with cache := _ }) rfl rfl rfl) (sysMalloc_OnlyAlloc _ _ _)
  · exact sysMalloc_OnlyAlloc _ _ _

theorem attachData_OnlyAlloc (thr : Nat) (s : State) (h r rs : Nat) : OnlyAlloc s (attachData thr s h r rs) := by
  unfold attachData
  split
  · exact OnlyAlloc.trans (mmcMalloc_OnlyAlloc thr s _) (OnlyAlloc.of_eq rfl rfl rfl)
  · exact OnlyAlloc.refl s

theorem setWindow_OnlyAlloc (s : State) (h : Nat) (P : Mat) (a b : Nat) : OnlyAlloc s (setWindow s h P a b) := by
  unfold setWindow
  split
  · exact OnlyAlloc.of_eq rfl rfl rfl
  · exact OnlyAlloc.refl s

theorem step_init_OnlyAlloc (n cm thr : Nat) (s : State) (r c : Nat) :
    OnlyAlloc (clearLogs s) (step n cm thr s (.init r c)).1 := by
  unfold step; dsimp only
  split
  · exact OnlyAlloc.trans (pushHdr_OnlyAlloc cm _) (attachData_OnlyAlloc thr _ _ _ _)
  · exact pushHdr_OnlyAlloc cm _

theorem step_window_OnlyAlloc (n cm thr : Nat) (s : State) (p a b c d : Nat) :
    OnlyAlloc (clearLogs s) (step n cm thr s (.window p a b c d)).1 := by
  unfold step; dsimp only
  split
  · exact OnlyAlloc.trans (pushHdr_OnlyAlloc cm _) (setWindow_OnlyAlloc _ _ _ _ _)
  · exact OnlyAlloc.refl _


/-! ## `no_double_free`, one operation -/

theorem sysFree_freedLog (s : State) (a : Nat) (ha : a ≠ 0) : (sysFree s a).freedLog = s.freedLog ++ [a] := by
  rw [sysFree_ne _ _ ha]

theorem cleanFold_freed (l : List Entry) (st : State)
    (hpw : l.Pairwise (fun e e' => e.size ≠ 0 → e'.size ≠ 0 → e.data ≠ e'.data))
    (hlive : ∀ e ∈ l, e.size ≠ 0 → e.data ≠ 0 ∧ ∃ sz k, RLive st e.data sz k)
    (hnd : st.freedLog.Nodup) (hdead : ∀ a ∈ st.freedLog, ∀ sz k, ¬ RLive st a sz k) :
    (cleanFold l st).freedLog.Nodup ∧
    ∀ a ∈ (cleanFold l st).freedLog,
      (a ∈ st.freedLog ∨ ∃ e ∈ l, e.size ≠ 0 ∧ e.data = a) ∧ ∀ sz k, ¬ RLive (cleanFold l st) a sz k := by
  induction l generalizing st with
  | nil =>
    refine ⟨hnd, fun a ha => ⟨Or.inl ha, hdead a ha⟩⟩
  | cons e t ih =>
    rw [List.pairwise_cons] at hpw
    obtain ⟨hpe, hpt⟩ := hpw
    have hunf : cleanFold (e :: t) st = cleanFold t (if e.size ≠ 0 then sysFree st e.data else st) := by
      unfold cleanFold; rw [List.foldl_cons]
    rw [hunf]
    by_cases hsz : e.size ≠ 0
    · rw [if_pos hsz]
      obtain ⟨hd0, szl, kl, hl⟩ := hlive e List.mem_cons_self hsz
      have hfl := sysFree_freedLog st e.data hd0
      have hnotin : e.data ∉ st.freedLog := fun hin => hdead _ hin _ _ hl
      obtain ⟨r1, r2⟩ := ih (sysFree st e.data) hpt
        (by
          intro e' he' hsz'
          obtain ⟨h1, sz', k', hl'⟩ := hlive e' (List.mem_cons_of_mem _ he') hsz'
          refine ⟨h1, sz', k', ?_⟩
          rw [sysFree_RLive]
          exact ⟨hl', Or.inl (fun hx => hpe e' he' hsz hsz' hx.symm)⟩)
        (by rw [hfl]; exact List.nodup_append.2 ⟨hnd, by simp, fun a ha b hb => by simp at hb; subst hb; exact fun e => hnotin (e ▸ ha)⟩)
        (by
          intro a ha sz k
          rw [hfl, List.mem_append] at ha
          rw [sysFree_RLive]
          rintro ⟨hl', hor⟩
          rcases ha with ha | ha
          · exact hdead a ha _ _ hl'
          · simp at ha; subst ha
            rcases hor with h | h
            · exact h rfl
            · exact hd0 h)
      refine ⟨r1, fun a ha => ?_⟩
      obtain ⟨h1, h2⟩ := r2 a ha
      refine ⟨?_, h2⟩
      rcases h1 with h1 | ⟨e', he', h3, h4⟩
      · rw [hfl, List.mem_append] at h1
        rcases h1 with h1 | h1
        · exact Or.inl h1
        · simp at h1; exact Or.inr ⟨e, List.mem_cons_self, hsz, h1.symm⟩
      · exact Or.inr ⟨e', List.mem_cons_of_mem _ he', h3, h4⟩
    · rw [if_neg hsz]
      obtain ⟨r1, r2⟩ := ih st hpt (fun e' he' => hlive e' (List.mem_cons_of_mem _ he')) hnd hdead
      refine ⟨r1, fun a ha => ?_⟩
      obtain ⟨h1, h2⟩ := r2 a ha
      refine ⟨?_, h2⟩
      rcases h1 with h1 | ⟨e', he', h3, h4⟩
      · exact Or.inl h1
      · exact Or.inr ⟨e', List.mem_cons_of_mem _ he', h3, h4⟩

/-- What one operation released, and which ids can be live afterwards. -/
def FreedOK (s s' : State) : Prop :=
  s'.freedLog.Nodup ∧
  (∀ a ∈ s'.freedLog, (∃ sz k, RLive s a sz k) ∧ ∀ sz k, ¬ RLive s' a sz k) ∧
  s.next ≤ s'.next ∧ (∀ a sz k, RLive s' a sz k → RLive s a sz k ∨ s.next < a)

theorem FreedOK_of_OnlyAlloc {s s' : State} (h : OnlyAlloc (clearLogs s) s') : FreedOK s s' := by
  obtain ⟨h1, h2, _, h4⟩ := h
  have : s'.freedLog = [] := h1
  refine ⟨by rw [this]; exact List.nodup_nil, by rw [this]; simp, h2, h4⟩

theorem step_FreedOK (n cm thr : Nat) (s : State) (op : AOp) (hi : Inv n s) :
    FreedOK s (step n cm thr s op).1 := by
  have hc := clearLogs_Inv n s hi
  cases op with
  | init r c => exact FreedOK_of_OnlyAlloc (step_init_OnlyAlloc n cm thr s r c)
  | window p a b c d => exact FreedOK_of_OnlyAlloc (step_window_OnlyAlloc n cm thr s p a b c d)
  | free h =>
    unfold step; dsimp only
    split
    · show FreedOK s (dropHdr (detachData n thr (clearLogs s) h) h)
      obtain ⟨⟨d1, d2, d3⟩, -, -⟩ := detachData_freed n thr (clearLogs s) h hc
      have hi1 := detachData_Inv n thr _ h hc
      obtain ⟨⟨e1, e2, e3⟩, -, -⟩ := dropHdr_freed n (detachData n thr (clearLogs s) h) h hi1
      generalize detachData n thr (clearLogs s) h = s1 at *
      generalize dropHdr s1 h = s2 at *
      have hcl : (clearLogs s).freedLog = [] := rfl
      have hcn : (clearLogs s).next = s.next := rfl
      have hL0 : ∀ a sz k, RLive (clearLogs s) a sz k ↔ RLive s a sz k := RLive_same rfl
      rw [hcl] at d3
      rw [hcn] at d1
      simp only [hL0] at d3
      rcases d3 with ⟨dl, df⟩ | ⟨x, xsz, xk, -, hx, dl, df⟩
      · have hL1 : ∀ a sz k, RLive s1 a sz k ↔ RLive s a sz k := RLive_same dl
        rcases e3 with ⟨el, ef⟩ | ⟨y, ysz, yk, -, hy, el, ef⟩
        · have hL2 : ∀ a sz k, RLive s2 a sz k ↔ RLive s a sz k := fun a sz k => (RLive_same el a sz k).trans (hL1 a sz k)
          refine ⟨by rw [ef, df]; exact List.nodup_nil, by rw [ef, df]; simp, by omega, fun a sz k h => Or.inl ((hL2 _ _ _).1 h)⟩
        · have hL2 := RLive_filter (s := s1) (s' := s2) (a0 := y) el
          refine ⟨by rw [ef, df]; simp, ?_, by omega, ?_⟩
          · rw [ef, df]; intro a ha; simp at ha; subst ha
            exact ⟨⟨ysz, yk, (hL1 _ _ _).1 hy⟩, fun sz k h => ((hL2 _ _ _).1 h).1 rfl⟩
          · intro a sz k h; exact Or.inl ((hL1 _ _ _).1 ((hL2 _ _ _).1 h).2)
      · have hL1 := RLive_filter (s := clearLogs s) (s' := s1) (a0 := x) dl
        simp only [hL0] at hL1
        rcases e3 with ⟨el, ef⟩ | ⟨y, ysz, yk, -, hy, el, ef⟩
        · have hL2 : ∀ a sz k, RLive s2 a sz k ↔ RLive s1 a sz k := RLive_same el
          refine ⟨by rw [ef, df]; simp, ?_, by omega, ?_⟩
          · rw [ef, df]; intro a ha; simp at ha; subst ha
            exact ⟨⟨xsz, xk, hx⟩, fun sz k h => ((hL1 _ _ _).1 ((hL2 _ _ _).1 h)).1 rfl⟩
          · intro a sz k h; exact Or.inl ((hL1 _ _ _).1 ((hL2 _ _ _).1 h)).2
        · have hL2 := RLive_filter (s := s1) (s' := s2) (a0 := y) el
          have hxy : y ≠ x := ((hL1 _ _ _).1 hy).1
          refine ⟨by rw [ef, df]; simp; exact fun e => hxy e.symm, ?_, by omega, ?_⟩
          · rw [ef, df]; intro a ha; simp at ha
            rcases ha with rfl | rfl
            · exact ⟨⟨xsz, xk, hx⟩, fun sz k h => ((hL1 _ _ _).1 ((hL2 _ _ _).1 h).2).1 rfl⟩
            · exact ⟨⟨ysz, yk, ((hL1 _ _ _).1 hy).2⟩, fun sz k h => ((hL2 _ _ _).1 h).1 rfl⟩
          · intro a sz k h; exact Or.inl ((hL1 _ _ _).1 ((hL2 _ _ _).1 h).2).2
    · exact FreedOK_of_OnlyAlloc (OnlyAlloc.refl _)
  | cleanup =>
    show FreedOK s (mmcCleanup (clearLogs s))
    rw [mmcCleanup_eq]
    have hfr := cleanFold_frame (clearLogs s).cache (clearLogs s)
    have hpw : (clearLogs s).cache.Pairwise (fun e e' => e.size ≠ 0 → e'.size ≠ 0 → e.data ≠ e'.data) := by
      rw [List.pairwise_iff_getElem]
      intro i j hi' hj hij h1 h2 heq
      have hcj : RCache (clearLogs s) j ((clearLogs s).cache[j]).size ((clearLogs s).cache[j]).data := by
        unfold RCache; rw [List.getElem?_eq_getElem hj]
      rw [← heq] at hcj
      have := hc.cache_inj i j _ _ _ (by unfold RCache; rw [List.getElem?_eq_getElem hi']) hcj h1 h2
      omega
    have hlive : ∀ e ∈ (clearLogs s).cache, e.size ≠ 0 → e.data ≠ 0 ∧ ∃ sz k, RLive (clearLogs s) e.data sz k := by
      intro e he hsz
      obtain ⟨i, hi'⟩ := List.mem_iff_getElem?.1 he
      have hl := hc.cache_live i e.size e.data hi' hsz
      have := (hc.live_pos _ _ _ hl).1
      exact ⟨by omega, _, _, hl⟩
    obtain ⟨r1, r2⟩ := cleanFold_freed _ (clearLogs s) hpw hlive List.nodup_nil (by intro a ha; cases ha)
    have hRL := cleanFold_RLive (clearLogs s).cache (clearLogs s)
    generalize cleanFold (clearLogs s).cache (clearLogs s) = s1 at *
    have hL : ∀ a sz k, RLive { s1 with cache := s1.cache.map (fun e => ⟨0, e.data⟩) } a sz k ↔ RLive s1 a sz k := RLive_same rfl
    refine ⟨r1, ?_, ?_, ?_⟩
    · intro a ha
      obtain ⟨h1, h2⟩ := r2 a ha
      refine ⟨?_, fun sz k h => h2 sz k ((hL _ _ _).1 h)⟩
      rcases h1 with h1 | ⟨e, he, hsz, rfl⟩
      · cases h1
      · obtain ⟨_, sz, k, hl⟩ := hlive e he hsz
        exact ⟨sz, k, hl⟩
    · show s.next ≤ s1.next
      rw [hfr.2.2.2.2.2.1]; exact Nat.le_refl _
    · intro a sz k h
      exact Or.inl ((hRL _ _ _).1 ((hL _ _ _).1 h)).1

/-! ## Property C14: the clauses, for every operation sequence and all capacities with `0 < nblocks` -/

/-- the state reached from library load by the operation sequence `ops` -/
def reach (n cm thr : Nat) (ops : List AOp) : State := run n cm thr (State.initial n) ops

theorem reach_Inv (n cm thr : Nat) (hn : 0 < n) (ops : List AOp) : Inv n (reach n cm thr ops) :=
  reachable_Inv n cm thr hn ops

/-- **fresh_zero** — `mzd_init` always returns a matrix whose contents were zeroed at creation, whatever
    block it received (fresh from the system or recycled from the cache): `m4ri_mmc_calloc` memsets
    regardless of provenance. Holds in every state. -/
theorem fresh_zero (n cm thr : Nat) (s : State) (r c : Nat) :
    ∃ m, (step n cm thr s (.init r c)).2 = .init m ∧
      LiveMat (step n cm thr s (.init r c)).1 s.mats.length m ∧
      m.windowed = false ∧ m.zeroed = true := by
  obtain ⟨m, h1, h2, h3, h4, -, -⟩ := step_init_spec n cm thr s r c
  refine ⟨m, h1, ?_, h3, h4⟩
  unfold LiveMat; rw [h2]; simp

/-- **fresh_disjoint** — the matrix created by `mzd_init` after any history is a new handle, every
    previously live matrix is untouched, and the new header location differs from that of every live
    matrix and its data block (if any) differs from the data block of every live non-window matrix. -/
theorem fresh_disjoint (n cm thr : Nat) (hn : 0 < n) (ops : List AOp) (r c : Nat) :
    ∃ m, LiveMat (step n cm thr (reach n cm thr ops) (.init r c)).1 (reach n cm thr ops).mats.length m ∧
      ∀ h' m', LiveMat (reach n cm thr ops) h' m' →
        LiveMat (step n cm thr (reach n cm thr ops) (.init r c)).1 h' m' ∧
        h' ≠ (reach n cm thr ops).mats.length ∧
        ¬ (m.hb = m'.hb ∧ m.slot = m'.slot ∧ m.plain = m'.plain) ∧
        (m.data ≠ 0 → m'.windowed = false → m.data ≠ m'.data) := by
  have hi := reach_Inv n cm thr hn ops
  have hi' := step_Inv n cm thr _ (.init r c) hi
  obtain ⟨m, h1, h2, h3, h4, -, -⟩ := step_init_spec n cm thr (reach n cm thr ops) r c
  generalize reach n cm thr ops = s at *
  generalize (step n cm thr s (.init r c)).1 = s' at *
  have hm : LiveMat s' s.mats.length m := by unfold LiveMat; rw [h2]; simp
  refine ⟨m, hm, ?_⟩
  intro h' m' hm'
  have hlt := LiveMat_lt hm'
  have hm'' : LiveMat s' h' m' := (LiveMat_push h2 h' m').2 (Or.inl hm')
  refine ⟨hm'', by omega, ?_, ?_⟩
  · rintro ⟨e1, e2, e3⟩
    cases hp : m.plain with
    | false =>
      have := hi'.hdr_inj s.mats.length h' m.hb m.slot ⟨m, hm, rfl, rfl, hp⟩ ⟨m', hm'', e1.symm, e2.symm, by rw [← e3, hp]⟩
      omega
    | true =>
      have := hi'.plain_inj s.mats.length h' m.hb m.slot m'.slot ⟨m, hm, rfl, rfl, hp⟩ ⟨m', hm'', e1.symm, rfl, by rw [← e3, hp]⟩
      omega
  · intro hd hw' heq
    have := hi'.data_inj s.mats.length h' m.data _ _ ⟨m, hm, h3, rfl, rfl⟩ ⟨m', hm'', hw', heq.symm, rfl⟩ hd
    omega

/-- the freshly created matrix owns a live block of the right size which is not in the cache -/
theorem fresh_block (n cm thr : Nat) (hn : 0 < n) (ops : List AOp) (r c : Nat) :
    ∃ m, LiveMat (step n cm thr (reach n cm thr ops) (.init r c)).1 (reach n cm thr ops).mats.length m ∧
      (m.data ≠ 0 ↔ (r ≠ 0 ∧ c ≠ 0)) ∧
      (m.data ≠ 0 →
        RLive (step n cm thr (reach n cm thr ops) (.init r c)).1 m.data (8 * (r * rowstrideOf c)) .data ∧
        ∀ i sz, RCache (step n cm thr (reach n cm thr ops) (.init r c)).1 i sz m.data → sz = 0) := by
  have hi := reach_Inv n cm thr hn ops
  have hi' := step_Inv n cm thr _ (.init r c) hi
  obtain ⟨m, h1, h2, h3, h4, h5, h6⟩ := step_init_spec n cm thr (reach n cm thr ops) r c
  generalize reach n cm thr ops = s at *
  generalize (step n cm thr s (.init r c)).1 = s' at *
  have hm : LiveMat s' s.mats.length m := by unfold LiveMat; rw [h2]; simp
  have ho : ROwn s' s.mats.length m.data (8 * (m.nrows * m.rowstride)) := ⟨m, hm, h3, rfl, rfl⟩
  have hiff : m.data ≠ 0 ↔ (r ≠ 0 ∧ c ≠ 0) := by
    constructor
    · intro hd
      apply Classical.byContradiction; intro hn'
      exact hd (h5 (by omega)).1
    · intro hrc hd
      obtain ⟨e1, e2⟩ := h6 hrc
      rcases hi'.data_live _ _ _ ho with ⟨_, hz⟩ | ⟨_, hl⟩
      · rw [e1, e2] at hz
        have := rowstrideOf_ne c hrc.2
        have : r * rowstrideOf c ≠ 0 := Nat.mul_ne_zero hrc.1 this
        omega
      · have := (hi'.live_pos _ _ _ hl).1; omega
  refine ⟨m, hm, hiff, ?_⟩
  intro hd
  obtain ⟨e1, e2⟩ := h6 (hiff.1 hd)
  rw [e1, e2] at ho
  refine ⟨?_, ?_⟩
  · rcases hi'.data_live _ _ _ ho with ⟨h0, _⟩ | ⟨_, hl⟩
    · exact absurd h0 hd
    · exact hl
  · intro i sz hc
    apply Classical.byContradiction; intro hsz
    exact hi'.cache_data i sz m.data _ _ hc hsz ho

/-- **free_safe** — freeing any live matrix (in any order, after any history) keeps the allocator
    well-formed and leaves every other live matrix exactly as it was: same record, header slot still
    reserved, data block still live with the right size and not handed to the cache. -/
theorem free_safe (n cm thr : Nat) (hn : 0 < n) (ops : List AOp) (h : Nat) :
    Inv n (step n cm thr (reach n cm thr ops) (.free h)).1 ∧
    (∀ m, ¬ LiveMat (step n cm thr (reach n cm thr ops) (.free h)).1 h m) ∧
    ∀ h' m', h' ≠ h → LiveMat (reach n cm thr ops) h' m' →
      LiveMat (step n cm thr (reach n cm thr ops) (.free h)).1 h' m' ∧
      (m'.plain = false → m'.slot < 64 ∧ ∃ u, RBlk (step n cm thr (reach n cm thr ops) (.free h)).1 m'.hb u ∧
          u.getLsbD m'.slot = true) ∧
      (m'.plain = true → RLive (step n cm thr (reach n cm thr ops) (.free h)).1 m'.hb 64 .hplain) ∧
      (m'.windowed = false → m'.data ≠ 0 →
        RLive (step n cm thr (reach n cm thr ops) (.free h)).1 m'.data (8 * (m'.nrows * m'.rowstride)) .data ∧
        ∀ i sz, RCache (step n cm thr (reach n cm thr ops) (.free h)).1 i sz m'.data → sz = 0) := by
  have hi := reach_Inv n cm thr hn ops
  have hi' := step_Inv n cm thr _ (.free h) hi
  have hmats := step_free_mats n cm thr (reach n cm thr ops) h
  generalize reach n cm thr ops = s at *
  generalize (step n cm thr s (.free h)).1 = s' at *
  refine ⟨hi', ?_, ?_⟩
  · intro m hm
    unfold LiveMat at hm; rw [hmats] at hm
    rw [List.getElem?_set] at hm
    simp at hm
  · intro h' m' hne hm'
    have hm'' : LiveMat s' h' m' := by
      unfold LiveMat; rw [hmats, List.getElem?_set_ne (fun e => hne e.symm)]; exact hm'
    refine ⟨hm'', ?_, ?_, ?_⟩
    · intro hp; exact hi'.hdr_used h' m'.hb m'.slot ⟨m', hm'', rfl, rfl, hp⟩
    · intro hp; exact hi'.plain_live h' m'.hb m'.slot ⟨m', hm'', rfl, rfl, hp⟩
    · intro hw hd
      have ho : ROwn s' h' m'.data (8 * (m'.nrows * m'.rowstride)) := ⟨m', hm'', hw, rfl, rfl⟩
      refine ⟨?_, ?_⟩
      · rcases hi'.data_live _ _ _ ho with ⟨h0, _⟩ | ⟨_, hl⟩
        · exact absurd h0 hd
        · exact hl
      · intro i sz hc
        apply Classical.byContradiction; intro hsz
        exact hi'.cache_data i sz m'.data _ _ hc hsz ho

/-- **window_no_free** — freeing a view (`mzd_init_window` result) never touches the block cache and
    never releases a data block: every data block that was live stays live. -/
theorem window_no_free (n cm thr : Nat) (hn : 0 < n) (ops : List AOp) (h : Nat) (m : Mat)
    (hm : LiveMat (reach n cm thr ops) h m) (hw : m.windowed = true) :
    (step n cm thr (reach n cm thr ops) (.free h)).1.cache = (reach n cm thr ops).cache ∧
    (step n cm thr (reach n cm thr ops) (.free h)).1.j = (reach n cm thr ops).j ∧
    (∀ a sz, RLive (reach n cm thr ops) a sz .data →
        RLive (step n cm thr (reach n cm thr ops) (.free h)).1 a sz .data) ∧
    (∀ a ∈ (step n cm thr (reach n cm thr ops) (.free h)).1.freedLog, ∀ sz,
        ¬ RLive (reach n cm thr ops) a sz .data) := by
  have hi := reach_Inv n cm thr hn ops
  generalize reach n cm thr ops = s at *
  have hc := clearLogs_Inv n s hi
  have hm0 : LiveMat (clearLogs s) h m := hm
  have hstep : (step n cm thr s (.free h)).1 = dropHdr (clearLogs s) h := by
    unfold step; dsimp only
    rw [show (clearLogs s).mats[h]? = some (some m) from hm0]
    dsimp only
    rw [detachData_windowed n thr _ h m hm0 hw]
  rw [hstep]
  obtain ⟨⟨e1, e2, e3⟩, e4, e5⟩ := dropHdr_freed n (clearLogs s) h hc
  have hL0 : ∀ a sz k, RLive (clearLogs s) a sz k ↔ RLive s a sz k := RLive_same rfl
  refine ⟨e4, e5, ?_, ?_⟩
  · intro a sz hl
    rcases e3 with ⟨el, _⟩ | ⟨x, xsz, xk, hk, hx, el, _⟩
    · exact (RLive_same el _ _ _).2 hl
    · rw [RLive_filter el]
      refine ⟨?_, hl⟩
      rintro rfl
      exact hk (hi.live_inj _ _ _ _ _ hx hl).2
  · intro a ha sz hl
    rcases e3 with ⟨_, ef⟩ | ⟨x, xsz, xk, hk, hx, _, ef⟩
    · rw [ef] at ha; cases ha
    · rw [ef] at ha
      have : a = x := by simpa [clearLogs] using ha
      subst this
      exact hk (hi.live_inj _ _ _ _ _ hx hl).2


/-- **no_double_free**, one operation — after any history, the ids an operation hands back to the system
    are pairwise distinct, each of them was a live system block before the operation and none of them is
    live afterwards; blocks that are live afterwards were live before or are brand-new allocation events. -/
theorem no_double_free_step (n cm thr : Nat) (hn : 0 < n) (ops : List AOp) (op : AOp) :
    (step n cm thr (reach n cm thr ops) op).1.freedLog.Nodup ∧
    (∀ a ∈ (step n cm thr (reach n cm thr ops) op).1.freedLog,
      (∃ sz k, RLive (reach n cm thr ops) a sz k) ∧
      ∀ sz k, ¬ RLive (step n cm thr (reach n cm thr ops) op).1 a sz k) ∧
    (∀ a sz k, RLive (step n cm thr (reach n cm thr ops) op).1 a sz k →
      RLive (reach n cm thr ops) a sz k ∨ (reach n cm thr ops).next < a) := by
  obtain ⟨h1, h2, _, h4⟩ := step_FreedOK n cm thr _ op (reach_Inv n cm thr hn ops)
  exact ⟨h1, h2, h4⟩

/-- all ids released to the system while running `ops` from state `s`, in order -/
def freedTrace (n cm thr : Nat) (s : State) : List AOp → List Nat
  | [] => []
  | op :: ops => (step n cm thr s op).1.freedLog ++ freedTrace n cm thr (step n cm thr s op).1 ops

theorem freedTrace_mem (n cm thr : Nat) (s : State) (ops : List AOp) (hi : Inv n s) :
    ∀ a ∈ freedTrace n cm thr s ops, (∃ sz k, RLive s a sz k) ∨ s.next < a := by
  induction ops generalizing s with
  | nil => intro a ha; cases ha
  | cons op ops ih =>
    intro a ha
    obtain ⟨_, h2, h3, h4⟩ := step_FreedOK n cm thr s op hi
    unfold freedTrace at ha
    rw [List.mem_append] at ha
    rcases ha with ha | ha
    · exact Or.inl (h2 a ha).1
    · rcases ih _ (step_Inv n cm thr s op hi) a ha with ⟨sz, k, hl⟩ | hlt
      · rcases h4 a sz k hl with h | h
        · exact Or.inl ⟨sz, k, h⟩
        · exact Or.inr h
      · right; omega

theorem freedTrace_nodup (n cm thr : Nat) (s : State) (ops : List AOp) (hi : Inv n s) :
    (freedTrace n cm thr s ops).Nodup := by
  induction ops generalizing s with
  | nil => exact List.nodup_nil
  | cons op ops ih =>
    obtain ⟨h1, h2, h3, h4⟩ := step_FreedOK n cm thr s op hi
    have hi' := step_Inv n cm thr s op hi
    unfold freedTrace
    rw [List.nodup_append]
    refine ⟨h1, ih _ hi', ?_⟩
    intro a ha b hb hab
    subst hab
    obtain ⟨⟨sz, k, hl⟩, hdead⟩ := h2 a ha
    have hle := (hi.live_pos _ _ _ hl).2
    rcases freedTrace_mem n cm thr _ ops hi' a hb with ⟨sz', k', hl'⟩ | hlt
    · exact hdead _ _ hl'
    · omega

/-- **no_double_free** — over a whole run from library load, no system block is released twice. -/
theorem no_double_free (n cm thr : Nat) (hn : 0 < n) (ops : List AOp) :
    (freedTrace n cm thr (State.initial n) ops).Nodup :=
  freedTrace_nodup n cm thr _ ops (Inv_initial n hn)

/-- **balanced** — in a reachable state without live matrices, `m4ri_mmc_cleanup` leaves NO live system
    block: every data block and every malloc'ed header block / plain header has been returned. -/
theorem balanced (n cm thr : Nat) (hn : 0 < n) (ops : List AOp)
    (hall : ∀ h m, ¬ LiveMat (reach n cm thr ops) h m) :
    (step n cm thr (reach n cm thr ops) .cleanup).1.live = [] := by
  have hi := reach_Inv n cm thr hn ops
  have hi' := step_Inv n cm thr _ .cleanup hi
  have hmats := step_cleanup_mats n cm thr (reach n cm thr ops)
  have hcache : ∀ i sz d, RCache (step n cm thr (reach n cm thr ops) .cleanup).1 i sz d → sz = 0 := by
    intro i sz d hc
    have hc : RCache (mmcCleanup (clearLogs (reach n cm thr ops))) i sz d := hc
    rw [mmcCleanup_eq] at hc
    unfold RCache at hc
    simp only [List.getElem?_map, Option.map_eq_some_iff] at hc
    obtain ⟨e, _, he⟩ := hc
    cases he; rfl
  generalize reach n cm thr ops = s at *
  generalize (step n cm thr s .cleanup).1 = s' at *
  have hall' : ∀ h m, ¬ LiveMat s' h m := fun h m hm => hall h m ((LiveMat_same hmats h m).1 hm)
  rw [List.eq_nil_iff_forall_not_mem]
  intro b hb
  have hl : RLive s' b.id b.size b.kind := hb
  have hpos := (hi'.live_pos _ _ _ hl).1
  rcases hi'.account _ _ _ hl with ⟨i, sz', hc, hne⟩ | ⟨h, sz', m, hm, _⟩ | ⟨u, hu⟩ | ⟨h, sl, m, hm, _⟩
  · exact hne (hcache _ _ _ hc)
  · exact hall' _ _ hm
  · have hnz := hi'.dyn_nonempty _ _ hu (by omega)
    have : ∃ k, u.getLsbD k = true := by
      apply Classical.byContradiction; intro hno
      apply hnz
      apply BitVec.eq_of_getLsbD_eq
      intro k hk
      have : u.getLsbD k = false := by
        cases hx : u.getLsbD k with
        | false => rfl
        | true => exact absurd ⟨k, hx⟩ hno
      simp [this]
    obtain ⟨k, hk⟩ := this
    obtain ⟨h, m, hm, _⟩ := hi'.used_hdr _ _ _ hu hk
    exact hall' _ _ hm
  · exact hall' _ _ hm

theorem run_append (n cm thr : Nat) (s : State) (a b : List AOp) :
    run n cm thr s (a ++ b) = run n cm thr (run n cm thr s a) b := by
  induction a generalizing s with
  | nil => rfl
  | cons op a ih => exact ih _

theorem run_frees_live (n cm thr : Nat) (s : State) (fs : List Nat) (h : Nat) (m : Mat)
    (hm : LiveMat (run n cm thr s (fs.map .free)) h m) : LiveMat s h m ∧ h ∉ fs := by
  induction fs generalizing s with
  | nil => exact ⟨hm, by simp⟩
  | cons f t ih =>
    have := ih (step n cm thr s (.free f)).1 hm
    obtain ⟨h1, h2⟩ := this
    unfold LiveMat at h1
    rw [step_free_mats, List.getElem?_set] at h1
    split at h1
    · split at h1 <;> cases h1
    · rename_i hne
      exact ⟨h1, by simp [h2]; exact fun e => hne e.symm⟩

/-- **balanced**, operational form — after ANY history, freeing every handle (in any order, repetitions
    and dead handles allowed) and calling `m4ri_mmc_cleanup` leaves no live system block. -/
theorem balanced_run (n cm thr : Nat) (hn : 0 < n) (ops : List AOp) (fs : List Nat)
    (hfs : ∀ h, h < (reach n cm thr ops).mats.length → h ∈ fs) :
    (reach n cm thr (ops ++ fs.map .free ++ [.cleanup])).live = [] := by
  have e1 : reach n cm thr (ops ++ fs.map .free ++ [.cleanup]) =
      (step n cm thr (reach n cm thr (ops ++ fs.map .free)) .cleanup).1 := by
    unfold reach; rw [run_append]; rfl
  rw [e1]
  apply balanced n cm thr hn
  intro h m hm
  unfold reach at hm
  rw [run_append] at hm
  obtain ⟨h1, h2⟩ := run_frees_live n cm thr _ fs h m hm
  exact h2 (hfs h (LiveMat_lt h1))

/-! ## Closed examples (non-vacuity, and the model on concrete sequences) -/

/-- a non-trivial history with `nblocks = 2`, `cacheMax = 1`: two equal-size matrices and a smaller one are
    freed (the third free evicts block 1 from the 2-slot cache), the 48-byte request recycles block 2
    (not block 1), freeing an empty matrix is harmless, cleanup releases block 3. -/
def exOps : List AOp :=
  [.init 3 70, .init 3 70, .init 2 10, .free 0, .free 1, .free 2, .init 3 100, .init 0 5, .free 4, .free 7,
   .cleanup, .init 3 70]

example : runAllocSeq 2 1 4194304 exOps =
    ["I h=0:63 d=1 new=1 freed=-", "I h=0:62 d=2 new=2 freed=-", "I h=0:61 d=3 new=3 freed=-",
     "F new=- freed=-", "F new=- freed=-", "F new=- freed=1", "I h=0:63 d=2 new=- freed=-",
     "I h=0:62 d=- new=- freed=-", "F new=- freed=-", "F bad", "C new=- freed=3",
     "I h=0:62 d=4 new=4 freed=-"] := by decide

/-- the recycled block was dirty in the cache, and is zero again when handed out -/
example : (reach 2 1 4194304 (exOps.take 6)).zeroIds = [] ∧
    (reach 2 1 4194304 (exOps.take 6)).cache = [⟨32, 3⟩, ⟨48, 2⟩] ∧
    ∃ m, LiveMat (reach 2 1 4194304 (exOps.take 7)) 3 m ∧ m.data = 2 ∧ m.zeroed = true := by
  refine ⟨by decide, by decide, _, rfl, by decide, by decide⟩

/-- hypotheses of `window_no_free` are satisfiable: a live window -/
example : ∃ m, LiveMat (reach 2 2 4096 [.init 3 70, .window 0 0 0 2 64]) 1 m ∧ m.windowed = true :=
  ⟨_, rfl, by decide⟩

/-- hypothesis of `balanced` is satisfiable with a non-trivial history, and the conclusion on it -/
example : (∀ h m, ¬ LiveMat (reach 2 2 4096 [.init 3 70, .window 0 0 0 2 64, .free 0, .free 1]) h m) ∧
    (reach 2 2 4096 [.init 3 70, .window 0 0 0 2 64, .free 0, .free 1]).live = [⟨1, 48, .data⟩] ∧
    (reach 2 2 4096 [.init 3 70, .window 0 0 0 2 64, .free 0, .free 1, .cleanup]).live = [] := by
  refine ⟨?_, by decide, by decide⟩
  intro h m hm
  have hl := LiveMat_lt hm
  have : (reach 2 2 4096 [.init 3 70, .window 0 0 0 2 64, .free 0, .free 1]).mats = [none, none] := by decide
  unfold LiveMat at hm
  rw [this] at hm hl
  match h, hl with
  | 0, _ => simp at hm
  | 1, _ => simp at hm

/-- a model behaviour worth knowing: `mzd_free` of an EMPTY matrix calls `m4ri_mmc_free(NULL, 0)`, which — when
    every cache slot is occupied — evicts (releases) the block in slot `j` and stores `(0, NULL)` there. -/
example : runAllocSeq 2 1 4194304 [.init 1 1, .init 1 1, .free 0, .free 1, .init 0 0, .free 2, .init 1 1, .init 1 1] =
    ["I h=0:63 d=1 new=1 freed=-", "I h=0:62 d=2 new=2 freed=-", "F new=- freed=-", "F new=- freed=-",
     "I h=0:63 d=- new=- freed=-", "F new=- freed=1", "I h=0:63 d=2 new=- freed=-",
     "I h=0:62 d=3 new=3 freed=-"] := by decide

end M4ri.Alloc
