/-
  GenTiePleFinal: the one-step tie of `Gen.C.pleRecStep` (GenTiePle.lean) with the contract `TrsmOK` of the
  translated `_mzd_trsm_lower_left` discharged by `GenTieRec.trsmLowerLeftRec_step_view` (GenTieRec.lean).
  Needs GenTieRec.lean and the extended GenTieView.lean it builds on.
-/
import M4riProofs.GenTiePle
import M4riProofs.GenTieRec
set_option linter.unusedVariables false
namespace M4ri.GenTiePle
open M4ri M4ri.Gen M4ri.GenTieMem M4ri.GenTieView M4ri.BMat M4ri.GenTieTab

/-- the contract of the translated `_mzd_trsm_lower_left` holds with the Four-Russians callee instantiated by the
    substitution form, the recursive callee by the model's recursion (any fuel `f`), `mzd_addmul` by `C + A·B` -/
theorem trsmOK_model (cutoff rs : Int) (f baseRows fuel : Nat) :
    TrsmOK cutoff rs (fun L B _ => liftM2 trsmLowerLeft L B) (fun L B _ => liftM2 (Rec.trsmLowerLeftRec 2048 f) L B)
      (fun C A B _ => liftM3 (fun C A B => C.add (A.mul B)) C A B) (Rec.trsmLowerLeftRec baseRows fuel) := by
  refine TrsmOK.fuel (br := 2048) (f := f + 1) ?_ baseRows fuel
  intro L B mL mB hL hB hLr hLc h1 h2 agL agB
  exact GenTieRec.trsmLowerLeftRec_step_view f cutoff rs rs L B hL hB hLr hLc h2 mB mL agB agL

/-- **one step of `_mzd_ple` against the model, no contract left open but `GoodBase base`** -/
theorem pleRecStep_pleRec_full (base : BMat → Rec.Out) (hbase : Rec.GoodBase base)
    (baseCols cutoffN baseRows fuel f : Nat) (cutoff rs : Int) (A : Mzd) (hA : A.WF)
    (hnz : Rec.firstZeroRow A.toB ≠ 0)
    (hbig : ¬ (A.ncols ≤ baseCols ∨ ((A.ncols + 63) / 64) * A.nrows ≤ cutoffN)) :
    Gen.C.pleRecStep (memOf A) (arrOf (Array.range A.nrows)) (arrOf (Array.range A.ncols)) A.ncols
      (Rec.firstZeroRow A.toB) A.nrows rs cutoff (liftPle (Rec.pleRec base baseCols cutoffN baseRows fuel))
      (fun L B _ => liftM2 trsmLowerLeft L B) (fun L B _ => liftM2 (Rec.trsmLowerLeftRec 2048 f) L B)
      (fun C A B _ => liftM3 (fun C A B => C.add (A.mul B)) C A B) A.ncols A.width A.hb liftCompress
    = ((((Rec.pleRec base baseCols cutoffN baseRows (fuel + 1) A.toB).2.2.2 : Nat) : Int),
       memOf (A.putB (Rec.pleRec base baseCols cutoffN baseRows (fuel + 1) A.toB).1),
       arrMem (Array.range A.nrows) (Rec.pleRec base baseCols cutoffN baseRows (fuel + 1) A.toB).2.1,
       arrMem (Array.range A.ncols) (Rec.pleRec base baseCols cutoffN baseRows (fuel + 1) A.toB).2.2.1) :=
  pleRecStep_pleRec base hbase baseCols cutoffN baseRows fuel (trsmOK_model cutoff rs f baseRows fuel) A hA hnz hbig

#print axioms pleRecStep_pleRec_full

end M4ri.GenTiePle
