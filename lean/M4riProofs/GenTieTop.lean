/-
  GenTieTop: END-TO-END THEOREMS ABOUT THE GENERATED C TEXT (`M4ri/Gen/CFuns.lean`), obtained by COMPOSING the tie
  theorems of GenTieClose4 / GenTieGlue / GenTieSolve / GenTieKer / GenTieEch (generated function = model, untranslated
  callees as parameters, recursions closed by induction) with the model-level correctness theorems of Glue2 / Solve /
  Top (C02, C03, C06, C07).  No new model code; the only new loop proof is the congruence `mzdApplyPLeft_congr`; everything else is a congruence of
  a generated text in a callee or a composition.

  The gap the compositions have to bridge: the closed generated `_mzd_ple` (`cPleFull … n`) is known to return the
  model's `P`, `Q` only POINTWISE on `[0, nrows)`, `[0, ncols)` (the C function leaves whatever was there elsewhere),
  whereas the ties of the routines above it are stated for `liftPle fact` (equal functions).  §0–§4 prove that every
  generated consumer only reads `P`, `Q` on those ranges:
    `CallAgree`                 same rank, same memory, `P`, `Q` equal on `[0, nr)`, `[0, nc)`
    `pluqFromPle_congr`         `_mzd_pluq` in its callee `_mzd_ple`            (through `liftTri_congr`)
    `solveLeftTop_congr`        `_mzd_solve_left` in `_mzd_pluq` AND in `mzd_pluq_solve_left`
    `kernelLeftPluq_congr`      `mzd_kernel_left_pluq` in `mzd_pluq`
    `echelonizePluq_congr`      `mzd_echelonize_pluq` in `mzd_pluq` and `mzd_ple`
    `mzdApplyPLeft_congr`, `pluqSolveLeft_congr`   `_mzd_pluq_solve_left` in `P`, `Q`
  Hypotheses on the base case of `_mzd_ple`: `Rec.GoodBase base` AND `∀ A, A.WF → G2.Extra A (base A)` (well-formed
  storage, LAPACK tail of `Q`).  The second one is NECESSARY for everything above `_mzd_pluq` (`extra_needed` =
  `G2.pluqOfPle_needs_qtail`); both hold for the base case of the library (`russianBase_good`, `russianBase_extra`).
  Throughout: `A.WF`, `1 ≤ A.ncols` (`mzd_first_zero_row` reads `row[width - 1]`), every depth `n` of `_mzd_ple`, every
  depth `mt` of the closed `_mzd_trsm_lower_left` inside it, arbitrary `rowstride`s and `cutoff`s.

  §1  `cPluq`             := `Gen.C.pluqFromPle` with `_mzd_ple := cPleFull … n`, `mzd_apply_p_right_trans_tri := liftTri`
      `cPluq_agree`       cannot be told apart from `liftPle (G2.pluqOfPle (pleRec base 64 524288 baseRows n))`
      `c_pluq`            C03: rank, storage (memory EQUAL), `P`, `Q` on their ranges; `IsProfilePLUQ`, `IsPLUQ`, `checkPLUQ`,
                          `r = rank A`
  §2  `cSolve`            := `Gen.C.pluqSolveLeft` (P/Q lengths `A->nrows`, `A->ncols`), TRSMs and `mzd_addmul` lifted
      `cSolve_eq_liftSolve`  = `liftSolve` on well-formed records for any `P`, `Q` with in-range entries on their ranges
      `c_solve_left_eq`   `Gen.C.solveLeftTop … (cPluq …) … (cSolve …)` = `SV.solveLeft (G2.pluqOfPle …)` (both `check`s)
      `c_solve_left`      C06: verdict `= if solvable then 0 else -1`; `= 0 ↔` the padded system is solvable; then the
                          first `A.ncols` rows left in `B` solve it
  §3  `c_kernel_eq`, `c_kernel`    C07: `NULL` iff `rank A = ncols A`; else `K` is `ncols × (ncols − rank)`, `A·K = 0`,
                          full column rank, basis of the right null space
  §4  `c_echelonize_pluq` C02, `full = 1`: returns `rank A`, leaves `memOf (A.putB (rref A))`
      `c_echelonize_ple`  `full = 0` (over `cPleFull` directly): returns `rank A`, leaves a row echelon form with the
                          row space of `A`, `rank A` non-zero rows first
  §5  `pluqSolveLeft_closed`, `cSolveC`, `c_solve_left_closed`; `kernelLeftPluq_closed`, `c_kernel_closed`: the same
      with `mzd_trsm_lower_left` / `mzd_trsm_upper_left` := the CLOSED generated recursions `cTrsmLL` / `cTrsmUL`
      (GenTieClose) at any depths (`unview_cTrsmLL`, `unview_cTrsmUL`: written back through a window they cannot be
      told apart from the lifted substitution forms, on ARBITRARY memories)
  §6  `russianBase`, `pleTop_eq_pleM`, `pluqTop_eq_pluqM` (the model is `PR.pleTop` / `PR.pluqTop` at `n = ncols`,
      `baseRows = 64`, `L3 ≥ 4 MiB`), instances
  NOT done: `mzd_echelonize_pluq` over the closed `cTrsmUL` (its three `r mod 64` cases call the solver on fresh
  copies); `mzd_addmul`, `mzd_apply_p_right_trans_tri`, `_mzd_compress_l`, `mzd_copy`, `mzd_submatrix`,
  `mzd_apply_p_right`, the Four-Russians TRSM kernels and `_mzd_ple_russian` stay lifted model operations.
-/
import M4riProofs.GenTieClose4
import M4riProofs.GenTieKer
import M4riProofs.GenTieGlue
import M4riProofs.GenTieSolve
import M4riProofs.Top
set_option linter.unusedVariables false
namespace M4ri.GenTieTop
open M4ri M4ri.Gen M4ri.GenTieMem M4ri.GenTieView M4ri.BMat M4ri.GenTieAlg M4ri.GenTieRec M4ri.GenTieClose
  M4ri.GenTieGlue M4ri.GenTieClose2 M4ri.GenTieClose4 M4ri.GenTiePle M4ri.GenTieTab M4ri.BMat.PN

/-! ### 0. what a caller of `_mzd_ple` / `_mzd_pluq` can see -/

/-- two results of a factorisation callee on an `nr × nc` record that NO generated caller can tell apart: the same
    rank, the same memory, the permutations equal on `[0, nr)`, `[0, nc)` -/
def CallAgree (nr nc : Int) (o o' : Int × Mem × (Int → Int) × (Int → Int)) : Prop :=
  o.1 = o'.1 ∧ o.2.1 = o'.2.1 ∧ (∀ i : Int, 0 ≤ i → i < nr → o.2.2.1 i = o'.2.2.1 i) ∧
    (∀ i : Int, 0 ≤ i → i < nc → o.2.2.2 i = o'.2.2.2 i)

theorem CallAgree.refl (nr nc : Int) (o : Int × Mem × (Int → Int) × (Int → Int)) : CallAgree nr nc o o :=
  ⟨rfl, rfl, fun _ _ _ => rfl, fun _ _ _ => rfl⟩

theorem CallAgree.trans {nr nc : Int} {o o' o'' : Int × Mem × (Int → Int) × (Int → Int)}
    (h : CallAgree nr nc o o') (h' : CallAgree nr nc o' o'') : CallAgree nr nc o o'' :=
  ⟨h.1.trans h'.1, h.2.1.trans h'.2.1, fun i a b => (h.2.2.1 i a b).trans (h'.2.2.1 i a b),
    fun i a b => (h.2.2.2 i a b).trans (h'.2.2.2 i a b)⟩

/-- `permOfMem q n` only reads `q` on `[0, n)` -/
theorem permOfMem_congr (q q' : Int → Int) (n : Nat) (h : ∀ i : Int, 0 ≤ i → i < n → q i = q' i) :
    permOfMem q n = permOfMem q' n := by
  unfold permOfMem
  apply Array.ext
  · simp
  · intro i h1 h2
    have hi : i < n := by simpa using h1
    simp only [Array.getElem_map, Array.getElem_range]
    rw [h i (by omega) (by omega)]

/-- `mzd_apply_p_right_trans_tri(A, Q)` only reads `Q[i]`, `i < A->ncols` -/
theorem liftTri_congr (V : CLoop.MView) (q q' : Int → Int) (h : ∀ i : Int, 0 ≤ i → i < V.ncols → q i = q' i) :
    liftTri V q = liftTri V q' := by
  unfold liftTri
  rw [permOfMem_congr q q' _ (fun i h0 h1 => h i h0 (by omega))]

/-- **`_mzd_pluq` (generated text) in its callee `_mzd_ple`**: two callees that cannot be told apart at the call site
    give results that cannot be told apart -/
theorem pluqFromPle_congr (f f' : PleFn) (cutoff : Int) (m : Mem) (p q : Int → Int) (nr nc w : Int) (hb : BitVec 64)
    (rs : Int)
    (h : CallAgree nr nc (f ⟨m, nr, nc, w, hb⟩ p q cutoff) (f' ⟨m, nr, nc, w, hb⟩ p q cutoff)) :
    CallAgree nr nc (Gen.C.pluqFromPle cutoff m p q nr nc w hb f rs liftTri)
      (Gen.C.pluqFromPle cutoff m p q nr nc w hb f' rs liftTri) := by
  unfold Gen.C.pluqFromPle Gen.C.mzdInitWindow
  generalize f ⟨m, nr, nc, w, hb⟩ p q cutoff = o at h ⊢
  generalize f' ⟨m, nr, nc, w, hb⟩ p q cutoff = o' at h ⊢
  obtain ⟨r, m1, P1, Q1⟩ := o
  obtain ⟨r', m1', P1', Q1'⟩ := o'
  obtain ⟨h1, h2, h3, h4⟩ := h
  dsimp only at h1 h2 h3 h4
  subst h1 h2
  dsimp_m
  refine ⟨rfl, ?_, h3, h4⟩
  dsimp_m
  rw [liftTri_congr _ Q1 Q1' (fun i h0 h1 => h4 i h0 (by dsimp only at h1; omega)),
    liftTri_congr _ Q1 Q1' (fun i h0 h1 => h4 i h0 h1)]


/-! ### 1. `_mzd_pluq`: the generated text over the CLOSED generated `_mzd_ple` -/

/-- what every routine above `_mzd_ple` needs of a good PLE routine, in the form the tie theorems ask for -/
theorem goodPle_facts {ple : BMat → Rec.Out} (hple : G2.GoodPle ple) {A : BMat} (hA : A.WF) :
    Shaped (ple A).1 A.nrows A.ncols ∧ (ple A).2.1.size = A.nrows ∧ (ple A).2.2.1.size = A.ncols ∧
      (∀ i, i < A.ncols → (ple A).2.2.1.getD i 0 < A.ncols) ∧ (ple A).2.2.2 ≤ A.nrows ∧ (ple A).2.2.2 ≤ A.ncols := by
  obtain ⟨hS, h, hQt⟩ := hple A hA
  refine ⟨⟨hS, h.nrows_eq, h.ncols_eq⟩, h.P_size, h.Q_size, fun i hi => ?_, h.r_le_nrows, h.r_le_ncols⟩
  by_cases c : i < (ple A).2.2.2
  · exact (h.pivot_range i c).2
  · exact (hQt i (by omega) hi).2

/-- … and the same of `_mzd_pluq` over it -/
theorem pluqOfPle_facts {ple : BMat → Rec.Out} (hple : G2.GoodPle ple) {A : BMat} (hA : A.WF) :
    Shaped (G2.pluqOfPle ple A).1 A.nrows A.ncols ∧ (G2.pluqOfPle ple A).2.1.size = A.nrows ∧
      (G2.pluqOfPle ple A).2.2.1.size = A.ncols ∧
      (∀ i, i < A.ncols → (G2.pluqOfPle ple A).2.2.1.getD i 0 < A.ncols) ∧ (G2.pluqOfPle ple A).2.2.2 ≤ A.nrows ∧
      (G2.pluqOfPle ple A).2.2.2 ≤ A.ncols := by
  obtain ⟨hS, h, hQt⟩ := hple A hA
  obtain ⟨hp, hw⟩ := G2.pluqOfPle_profile hS h hQt
  have hq := hp.pluq
  exact ⟨⟨hw, hq.nrows_eq, hq.ncols_eq⟩, hq.P_size, hq.Q_size, fun i hi => (hq.Q_lapack i hi).2, hq.r_le_nrows,
    hq.r_le_ncols⟩

/-- the model of `_mzd_pluq` over the model recursion of `_mzd_ple` with the constants of the C build -/
abbrev pluqM (base : BMat → Rec.Out) (baseRows n : Nat) : BMat → Rec.Out := G2.pluqOfPle (pleM base baseRows n)

/-- **the C function `_mzd_pluq` as generated text, over the generated text of the WHOLE `_mzd_ple` bound to itself
    `n` levels deep** (`cPleFull`, GenTieClose4); `mzd_apply_p_right_trans_tri := liftTri` -/
def cPluq (base : BMat → Rec.Out) (baseRows : Nat) (rs : Int) (mt n : Nat) : PleFn := fun V p q c =>
  Gen.C.pluqFromPle c V.mem p q V.nrows V.ncols V.width V.hb (cPleFull base baseRows rs mt n) rs liftTri

/-- the lifted model on the record of a whole matrix -/
theorem liftPle_whole (ple : BMat → Rec.Out) (A : Mzd) (hA : A.WF) (p q : Int → Int) (c : Int) :
    liftPle ple ⟨memOf A, (A.nrows : Int), (A.ncols : Int), (A.width : Int), A.hb⟩ p q c
      = ((((ple A.toB).2.2.2 : Nat) : Int), memOf (A.putB (ple A.toB).1), arrOf (ple A.toB).2.1,
          arrOf (ple A.toB).2.2.1) := by
  unfold liftPle
  rw [GenTieEch.ofView_whole A hA]

/-- the generated `_mzd_pluq` over the closed generated `_mzd_ple` cannot be told apart from the lifted model
    `G2.pluqOfPle (pleRec base 64 524288 baseRows n)`, on every whole matrix with at least one column, whatever the
    permutation memories contain on entry -/
theorem cPluq_agree (base : BMat → Rec.Out) (hbase : Rec.GoodBase base)
    (hbx : ∀ A : BMat, A.WF → G2.Extra A (base A)) (baseRows : Nat) (rs : Int) (mt n : Nat) (cutoff : Int)
    (A : Mzd) (hA : A.WF) (hc : 1 ≤ A.ncols) (p q : Int → Int) :
    CallAgree (A.nrows : Int) (A.ncols : Int)
      (cPluq base baseRows rs mt n ⟨memOf A, (A.nrows : Int), (A.ncols : Int), (A.width : Int), A.hb⟩ p q cutoff)
      (liftPle (pluqM base baseRows n) ⟨memOf A, (A.nrows : Int), (A.ncols : Int), (A.width : Int), A.hb⟩ p q
        cutoff) := by
  have hple : G2.GoodPle (pleM base baseRows n) := G2.goodPle_pleRec hbase hbx 64 524288 baseRows n
  obtain ⟨hS, hP, hQs, hQ, hr1, hr2⟩ := goodPle_facts hple (Mzd.WF_toB hA)
  have e1 : liftPle (pluqM base baseRows n) ⟨memOf A, (A.nrows : Int), (A.ncols : Int), (A.width : Int), A.hb⟩ p q
        cutoff
      = Gen.C.pluqFromPle cutoff (memOf A) p q A.nrows A.ncols A.width A.hb (liftPle (pleM base baseRows n)) rs
          liftTri := by
    rw [pluqFromPle_eq _ cutoff rs A hA p q hS hQ, liftPle_whole _ A hA]
  rw [e1]
  unfold cPluq
  apply pluqFromPle_congr
  obtain ⟨c1, c2, c3, c4⟩ := cPleFull_correct base hbase baseRows rs mt n cutoff A hA hc p q
  unfold CLoop.MView.of at c1 c2 c3 c4
  rw [liftPle_whole _ A hA]
  exact ⟨c1, c2, c3, c4⟩

/-- **C03 ON THE GENERATED TEXT — `_mzd_pluq` over the whole closed `_mzd_ple`, every depth `n`, every depth `mt` of
    the closed `_mzd_trsm_lower_left`**: for a base case that returns good PLE certificates in well-formed storage
    with a LAPACK tail of `Q` (`GoodBase`, `Extra`: `russian_base` below is the one of the library), on every
    well-formed `A` with at least one column, whatever `P`, `Q` contain on entry, the generated function returns the
    rank and leaves in `A` the storage, in `P[0, nrows)`, `Q[0, ncols)` the permutations of the model
    `F = G2.pluqOfPle (pleRec base 64 524288 baseRows n) A`; this is a valid rank-profile revealing PLUQ
    factorisation of `A` in well-formed storage, accepted by `checkPLUQ`, and the value returned is `rank A`. -/
theorem c_pluq (base : BMat → Rec.Out) (hbase : Rec.GoodBase base)
    (hbx : ∀ A : BMat, A.WF → G2.Extra A (base A)) (baseRows : Nat) (rs : Int) (mt n : Nat) (cutoff : Int)
    (A : Mzd) (hA : A.WF) (hc : 1 ≤ A.ncols) (p q : Int → Int) :
    (cPluq base baseRows rs mt n (CLoop.MView.of A) p q cutoff).1
        = (((G2.pluqOfPle (Rec.pleRec base 64 524288 baseRows n) A.toB).2.2.2 : Nat) : Int) ∧
    (cPluq base baseRows rs mt n (CLoop.MView.of A) p q cutoff).2.1
        = memOf (A.putB (G2.pluqOfPle (Rec.pleRec base 64 524288 baseRows n) A.toB).1) ∧
    (∀ i : Int, 0 ≤ i → i < A.nrows → (cPluq base baseRows rs mt n (CLoop.MView.of A) p q cutoff).2.2.1 i
        = arrOf (G2.pluqOfPle (Rec.pleRec base 64 524288 baseRows n) A.toB).2.1 i) ∧
    (∀ i : Int, 0 ≤ i → i < A.ncols → (cPluq base baseRows rs mt n (CLoop.MView.of A) p q cutoff).2.2.2 i
        = arrOf (G2.pluqOfPle (Rec.pleRec base 64 524288 baseRows n) A.toB).2.2.1 i) ∧
    (G2.pluqOfPle (Rec.pleRec base 64 524288 baseRows n) A.toB).1.WF ∧
    IsProfilePLUQ A.toB (G2.pluqOfPle (Rec.pleRec base 64 524288 baseRows n) A.toB).1
      (G2.pluqOfPle (Rec.pleRec base 64 524288 baseRows n) A.toB).2.1
      (G2.pluqOfPle (Rec.pleRec base 64 524288 baseRows n) A.toB).2.2.1
      (G2.pluqOfPle (Rec.pleRec base 64 524288 baseRows n) A.toB).2.2.2 ∧
    IsPLUQ A.toB (G2.pluqOfPle (Rec.pleRec base 64 524288 baseRows n) A.toB).1
      (G2.pluqOfPle (Rec.pleRec base 64 524288 baseRows n) A.toB).2.1
      (G2.pluqOfPle (Rec.pleRec base 64 524288 baseRows n) A.toB).2.2.1
      (G2.pluqOfPle (Rec.pleRec base 64 524288 baseRows n) A.toB).2.2.2 ∧
    checkPLUQ A.toB (G2.pluqOfPle (Rec.pleRec base 64 524288 baseRows n) A.toB).1
      (G2.pluqOfPle (Rec.pleRec base 64 524288 baseRows n) A.toB).2.1
      (G2.pluqOfPle (Rec.pleRec base 64 524288 baseRows n) A.toB).2.2.1
      (G2.pluqOfPle (Rec.pleRec base 64 524288 baseRows n) A.toB).2.2.2 = true ∧
    (G2.pluqOfPle (Rec.pleRec base 64 524288 baseRows n) A.toB).2.2.2 = A.toB.rank := by
  have hple : G2.GoodPle (pleM base baseRows n) := G2.goodPle_pleRec hbase hbx 64 524288 baseRows n
  obtain ⟨hS, h, hQt⟩ := hple A.toB (Mzd.WF_toB hA)
  obtain ⟨hp, hw⟩ := G2.pluqOfPle_profile hS h hQt
  obtain ⟨c1, c2, c3, c4⟩ := cPluq_agree base hbase hbx baseRows rs mt n cutoff A hA hc p q
  rw [liftPle_whole _ A hA] at c1 c2 c3 c4
  have hck := checkPLUQ_complete hp.pluq
  exact ⟨c1, c2, c3, c4, hw, hp, hp.pluq, hck, GOK.pluq_rank (Mzd.WF_toB hA) hck⟩


/-! ### 2. `_mzd_solve_left` over the generated `_mzd_pluq` and the generated `_mzd_pluq_solve_left` -/

/-- `mzd_apply_p_left` only reads the entries `0 ≤ i < min(length, nrows)` of the permutation -/
theorem mzdApplyPLeft_congr (m : Mem) (nc len nr : Int) (p p' : Int → Int) (w : Int) (hb : BitVec 64)
    (h : ∀ i, 0 ≤ i → i < len → i < nr → p i = p' i) :
    Gen.C.mzdApplyPLeft m nc len nr p w hb = Gen.C.mzdApplyPLeft m nc len nr p' w hb := by
  unfold Gen.C.mzdApplyPLeft
  split
  · rfl
  · dsimp_m
    rw [GenTieSolve.loop_congr (fun st : Mem × Int => 0 ≤ st.2) _ _
      (fun st : Mem × Int => match st with
        | (a, i) => (Gen.C.mzdRowSwap0 i (p' i) a w hb, i + 1)) ?_ _ _ ?_]
    · intro st hI hc
      obtain ⟨a, i⟩ := st
      simp only [decide_eq_true_eq] at hc
      dsimp only at hI hc ⊢
      have hlt : i < len ∧ i < nr := by
        split at hc <;> rename_i hd <;> omega
      rw [h i hI hlt.1 hlt.2]
      exact ⟨rfl, by omega⟩
    · exact Int.le_refl 0

/-- the generated `_mzd_pluq_solve_left` only reads `P[i]`, `Q[i]` for `0 ≤ i < min(length, B->nrows)` -/
theorem pluqSolveLeft_congr (rank cutoff check : Int) (mB : Mem) (Bnc Plen Bnr : Int) (p p' : Int → Int) (Bw : Int)
    (Bhb : BitVec 64) (Anr rsA rsB : Int) (mA : Mem) (f1 : CLoop.MView → CLoop.MView → Int → Mem)
    (f2 : CLoop.MView → CLoop.MView → CLoop.MView → Int → Mem) (f3 : CLoop.MView → CLoop.MView → Int → Mem)
    (Qlen : Int) (q q' : Int → Int)
    (hp : ∀ i, 0 ≤ i → i < Plen → i < Bnr → p i = p' i) (hq : ∀ i, 0 ≤ i → i < Qlen → i < Bnr → q i = q' i) :
    Gen.C.pluqSolveLeft rank cutoff check mB Bnc Plen Bnr p Bw Bhb Anr rsA rsB mA f1 f2 f3 Qlen q
      = Gen.C.pluqSolveLeft rank cutoff check mB Bnc Plen Bnr p' Bw Bhb Anr rsA rsB mA f1 f2 f3 Qlen q' := by
  unfold Gen.C.pluqSolveLeft
  simp (config := { zeta := false }) only [mzdApplyPLeft_congr _ _ _ _ p p' _ _ hp,
    GenTieKer.mzdApplyPLeftTrans_congr _ _ _ _ q q' _ _ hq]


/-- the type of `mzd_pluq_solve_left` as a callee: `A`, rank, `P`, `Q`, `B`, cutoff, check ↦ verdict, memory of `B` -/
abbrev SolveFn := CLoop.MView → Int → (Int → Int) → (Int → Int) → CLoop.MView → Int → Int → Int × Mem

/-- **the C function `_mzd_pluq_solve_left` as generated text** as a callee of `_mzd_solve_left`: `P->length`,
    `Q->length` are `A->nrows`, `A->ncols` (`mzp_init(A->nrows)`, `mzp_init(A->ncols)` in `_mzd_solve_left`); its
    untranslated callees `mzd_trsm_lower_left`, `mzd_trsm_upper_left`, `mzd_addmul` are the lifted model operations -/
def cSolve (rsA rsB : Int) : SolveFn := fun VA rank p q VB cutoff check =>
  Gen.C.pluqSolveLeft rank cutoff check VB.mem VB.ncols VA.nrows VB.nrows p VB.width VB.hb VA.nrows rsA rsB VA.mem
    (fun L Y _ => liftM2 trsmLowerLeft L Y) (fun C H Y _ => liftM3 (fun C A B => C.add (A.mul B)) C H Y)
    (fun U Y _ => liftM2 trsmUpperLeft U Y) VA.ncols q

theorem permOfMem_size (q : Int → Int) (n : Nat) : (permOfMem q n).size = n := by
  unfold permOfMem
  simp

theorem permOfMem_getD (q : Int → Int) (n i : Nat) (hi : i < n) : (permOfMem q n).getD i 0 = (q (i : Int)).toNat := by
  unfold permOfMem
  simp [Array.getD, hi]

/-- **the generated `_mzd_pluq_solve_left` = `liftSolve`** on the records of well-formed `A`, `B`, for permutation
    memories with `0 ≤ P[i] < B.nrows` (`i < A.nrows`), `0 ≤ Q[i] < B.nrows` (`i < A.ncols`) and ARBITRARY contents
    elsewhere -/
theorem cSolve_eq_liftSolve (A B : Mzd) (hA : A.WF) (hB : B.WF) (rank : Nat) (p q : Int → Int)
    (cutoff rsA rsB : Int) (check : Bool)
    (hp : ∀ i : Int, 0 ≤ i → i < A.nrows → 0 ≤ p i ∧ p i < B.nrows)
    (hq : ∀ i : Int, 0 ≤ i → i < A.ncols → 0 ≤ q i ∧ q i < B.nrows)
    (hr1 : rank ≤ A.nrows) (hr2 : rank ≤ A.ncols) (hAB : A.nrows ≤ B.nrows) (hBc : 1 ≤ B.ncols) :
    cSolve rsA rsB ⟨memOf A, (A.nrows : Int), (A.ncols : Int), (A.width : Int), A.hb⟩ (rank : Int) p q
        ⟨memOf B, (B.nrows : Int), (B.ncols : Int), (B.width : Int), B.hb⟩ cutoff (if check then 1 else 0)
      = liftSolve ⟨memOf A, (A.nrows : Int), (A.ncols : Int), (A.width : Int), A.hb⟩ (rank : Int) p q
        ⟨memOf B, (B.nrows : Int), (B.ncols : Int), (B.width : Int), B.hb⟩ cutoff (if check then 1 else 0) := by
  unfold cSolve liftSolve
  dsimp only
  rw [GenTieEch.ofView_whole A hA, GenTieEch.ofView_whole B hB]
  simp only [Int.toNat_natCast]
  have ep : ∀ (f : Int → Int) (n : Nat), (∀ i : Int, 0 ≤ i → i < n → 0 ≤ f i) →
      ∀ i : Int, 0 ≤ i → i < n → f i = arrOf (permOfMem f n) i := by
    intro f n hf i h0 h1
    obtain ⟨j, rfl⟩ : ∃ j : Nat, i = (j : Int) := ⟨i.toNat, by omega⟩
    unfold arrOf
    rw [Int.toNat_natCast, permOfMem_getD f n j (by omega)]
    have := hf _ h0 h1
    omega
  rw [pluqSolveLeft_congr _ _ _ _ _ _ _ p (arrOf (permOfMem p A.nrows)) _ _ _ _ _ _ _ _ _ _ q
    (arrOf (permOfMem q A.ncols))
    (fun i h0 h1 _ => ep p A.nrows (fun i a b => (hp i a b).1) i h0 h1)
    (fun i h0 h1 _ => ep q A.ncols (fun i a b => (hq i a b).1) i h0 h1)]
  have h := GenTieSolve.pluqSolveLeft_eq A B (permOfMem p A.nrows) (permOfMem q A.ncols) rank cutoff rsA rsB check hA hB
    (fun i hi => by
      rw [permOfMem_size] at hi
      rw [permOfMem_getD p _ i (by omega)]
      have := hp i (by omega) (by omega)
      omega)
    (fun i hi => by
      rw [permOfMem_size] at hi
      rw [permOfMem_getD q _ i (by omega)]
      have := hq i (by omega) (by omega)
      omega) hr1 hr2 hAB hBc
  rw [permOfMem_size, permOfMem_size] at h
  have ec : decide ((if check = true then (1 : Int) else 0) ≠ 0) = check := by cases check <;> rfl
  rw [ec]
  exact h


/-- the permutation memory a generated caller hands on after `mzp_init(N)` + the call of the factorisation:
    the returned window on `[0, N)`, the identity elsewhere -/
def wrap (N : Int) (p : Int → Int) : Int → Int :=
  fun i : Int => if (0 : Int) ≤ 0 + i ∧ 0 + i < (0 : Int) + (N - (0 : Int)) then p (0 + i - (0 : Int)) else 0 + i

theorem wrap_congr (N : Int) (p p' : Int → Int) (h : ∀ i : Int, 0 ≤ i → i < N → p i = p' i) : wrap N p = wrap N p' := by
  funext i
  unfold wrap
  by_cases c : (0 : Int) ≤ 0 + i ∧ 0 + i < (0 : Int) + (N - (0 : Int))
  · rw [if_pos c, if_pos c, h _ (by omega) (by omega)]
  · rw [if_neg c, if_neg c]

/-- **`_mzd_solve_left` (generated text) in its two callees**: `_mzd_pluq` may be replaced by any callee that cannot
    be told apart at the call site, `mzd_pluq_solve_left` by any callee that returns the same on what `_mzd_pluq`
    left -/
theorem solveLeftTop_congr (f f' : PleFn) (fs fs' : SolveFn) (cutoff check : Int) (mA mB : Mem)
    (Bnr Anr Bnc rsB Anc Aw : Int) (Ahb : BitVec 64) (Bw : Int) (Bhb : BitVec 64)
    (hf : CallAgree Anr Anc (f ⟨mA, Anr, Anc, Aw, Ahb⟩ (fun i : Int => 0 + i) (fun i : Int => 0 + i) cutoff)
      (f' ⟨mA, Anr, Anc, Aw, Ahb⟩ (fun i : Int => 0 + i) (fun i : Int => 0 + i) cutoff))
    (hs : ∀ o, o = f' ⟨mA, Anr, Anc, Aw, Ahb⟩ (fun i : Int => 0 + i) (fun i : Int => 0 + i) cutoff →
      fs ⟨o.2.1, Anr, Anc, Aw, Ahb⟩ o.1 (wrap Anr o.2.2.1) (wrap Anc o.2.2.2) ⟨mB, Bnr, Bnc, Bw, Bhb⟩ cutoff check
        = fs' ⟨o.2.1, Anr, Anc, Aw, Ahb⟩ o.1 (wrap Anr o.2.2.1) (wrap Anc o.2.2.2) ⟨mB, Bnr, Bnc, Bw, Bhb⟩ cutoff
            check) :
    Gen.C.solveLeftTop cutoff check mA mB Bnr Anr Bnc rsB Anc Aw Ahb f Bw Bhb fs
      = Gen.C.solveLeftTop cutoff check mA mB Bnr Anr Bnc rsB Anc Aw Ahb f' Bw Bhb fs' := by
  unfold Gen.C.solveLeftTop
  dsimp_m
  have hs' := hs _ rfl
  generalize f ⟨mA, Anr, Anc, Aw, Ahb⟩ (fun i : Int => 0 + i) (fun i : Int => 0 + i) cutoff = o at hf ⊢
  generalize f' ⟨mA, Anr, Anc, Aw, Ahb⟩ (fun i : Int => 0 + i) (fun i : Int => 0 + i) cutoff = o' at hf hs' ⊢
  obtain ⟨r, m1, P1, Q1⟩ := o
  obtain ⟨r', m1', P1', Q1'⟩ := o'
  obtain ⟨h1, h2, h3, h4⟩ := hf
  dsimp only at h1 h2 h3 h4 hs'
  subst h1 h2
  have eP := wrap_congr Anr P1 P1' h3
  have eQ := wrap_congr Anc Q1 Q1' h4
  unfold wrap at eP eQ hs'
  dsimp_m
  rw [eP, eQ, hs']


/-- **`_mzd_solve_left` — GENERATED TEXT ALL THE WAY DOWN** (`Gen.C.solveLeftTop` over the generated `_mzd_pluq` over
    the closed generated `_mzd_ple`, and over the generated `_mzd_pluq_solve_left`) **= the model**
    `SV.solveLeft (G2.pluqOfPle (pleRec base 64 524288 baseRows n))`: return value, memory of `A`, memory of `B` -/
theorem c_solve_left_eq (base : BMat → Rec.Out) (hbase : Rec.GoodBase base)
    (hbx : ∀ A : BMat, A.WF → G2.Extra A (base A)) (baseRows : Nat) (rs : Int) (mt n : Nat) (cutoff rsB : Int)
    (check : Bool) (A B : Mzd) (hA : A.WF) (hB : B.WF) (hcA : 1 ≤ A.ncols) (hcB : 1 ≤ B.ncols)
    (hBr : B.nrows = max A.nrows A.ncols) :
    Gen.C.solveLeftTop cutoff (if check then 1 else 0) (memOf A) (memOf B) B.nrows A.nrows B.ncols rsB A.ncols A.width
        A.hb (cPluq base baseRows rs mt n) B.width B.hb (cSolve rs rsB)
      = ((SV.solveLeft (G2.pluqOfPle (Rec.pleRec base 64 524288 baseRows n)) A.toB B.toB check).1,
          memOf (A.putB (SV.solveLeft (G2.pluqOfPle (Rec.pleRec base 64 524288 baseRows n)) A.toB B.toB check).2.1),
          memOf (B.putB (SV.solveLeft (G2.pluqOfPle (Rec.pleRec base 64 524288 baseRows n)) A.toB B.toB check).2.2)) := by
  have hple : G2.GoodPle (pleM base baseRows n) := G2.goodPle_pleRec hbase hbx 64 524288 baseRows n
  obtain ⟨hS, hP, hQs, hQ, hr1, hr2⟩ := pluqOfPle_facts hple (Mzd.WF_toB hA)
  have hq := G2.pluqOfPle_good hple (Mzd.WF_toB hA)
  rw [Mzd.nrows_toB] at hS hP hr1
  rw [Mzd.ncols_toB] at hS hQs hQ hr2
  have ec : decide ((if check = true then (1 : Int) else 0) ≠ 0) = check := by cases check <;> rfl
  rw [solveLeftTop_congr (cPluq base baseRows rs mt n) (liftPle (G2.pluqOfPle (pleM base baseRows n))) (cSolve rs rsB) liftSolve
    cutoff _ (memOf A) (memOf B) B.nrows A.nrows B.ncols rsB A.ncols A.width A.hb B.width B.hb
    (cPluq_agree base hbase hbx baseRows rs mt n cutoff A hA hcA _ _) ?_,
    solveLeftTop_eq (G2.pluqOfPle (pleM base baseRows n)) cutoff _ rsB A B hA hB hcB hS hP hQs, ec]
  intro o ho
  rw [liftPle_whole _ A hA] at ho
  subst ho
  dsimp only
  obtain ⟨M1W, M1B, M1r, M1c⟩ := putB_state hA hS.wf hS.nr hS.nc
  have h := cSolve_eq_liftSolve (A.putB (G2.pluqOfPle (pleM base baseRows n) A.toB).1) B M1W hB (G2.pluqOfPle (pleM base baseRows n) A.toB).2.2.2
    (wrap A.nrows (arrOf (G2.pluqOfPle (pleM base baseRows n) A.toB).2.1)) (wrap A.ncols (arrOf (G2.pluqOfPle (pleM base baseRows n) A.toB).2.2.1))
    cutoff rs rsB check
    (fun i h0 h1 => by
      rw [M1r] at h1
      unfold wrap
      rw [if_pos (by omega)]
      unfold arrOf
      have := (hq.P_lapack (0 + i - 0).toNat (by rw [Mzd.nrows_toB]; omega)).2
      rw [Mzd.nrows_toB] at this
      omega)
    (fun i h0 h1 => by
      rw [M1c] at h1
      unfold wrap
      rw [if_pos (by omega)]
      unfold arrOf
      have := hQ (0 + i - 0).toNat (by omega)
      omega)
    (by rw [M1r]; exact hr1) (by rw [M1c]; exact hr2) (by rw [M1r]; omega) hcB
  simp only [Mzd.nrows_putB, Mzd.ncols_putB, Mzd.width_putB, Mzd.hb_putB] at h
  exact h

/-- **C06 ON THE GENERATED TEXT — `_mzd_solve_left(A, B, cutoff, 1)`, every depth `n`**: for a good base case, on
    well-formed `A`, `B` with `B.nrows = max A.nrows A.ncols`, at least one column each: the value returned is `0`
    or `-1`, it is `0` iff the zero-padded system `A·X = B` is solvable, and then the memory of `B` afterwards is
    that of a well-formed matrix `B'` of the shape of `B` whose first `A.ncols` rows solve the system (padding rows
    included) -/
theorem c_solve_left (base : BMat → Rec.Out) (hbase : Rec.GoodBase base)
    (hbx : ∀ A : BMat, A.WF → G2.Extra A (base A)) (baseRows : Nat) (rs : Int) (mt n : Nat) (cutoff rsB : Int)
    (A B : Mzd) (hA : A.WF) (hB : B.WF) (hcA : 1 ≤ A.ncols) (hcB : 1 ≤ B.ncols)
    (hBr : B.nrows = max A.nrows A.ncols) :
    ((Gen.C.solveLeftTop cutoff 1 (memOf A) (memOf B) B.nrows A.nrows B.ncols rsB A.ncols A.width A.hb
        (cPluq base baseRows rs mt n) B.width B.hb (cSolve rs rsB)).1
      = (if solvable A.toB B.toB then 0 else -1)) ∧
    ((Gen.C.solveLeftTop cutoff 1 (memOf A) (memOf B) B.nrows A.nrows B.ncols rsB A.ncols A.width A.hb
        (cPluq base baseRows rs mt n) B.width B.hb (cSolve rs rsB)).1 = 0 ↔
      ∃ X : BMat, X.WF ∧ X.nrows = A.ncols ∧ X.ncols = B.ncols ∧ (padRows A.toB).mul X = B.toB) ∧
    ((Gen.C.solveLeftTop cutoff 1 (memOf A) (memOf B) B.nrows A.nrows B.ncols rsB A.ncols A.width A.hb
        (cPluq base baseRows rs mt n) B.width B.hb (cSolve rs rsB)).1 = 0 →
      ∃ B' : Mzd, B'.WF ∧ B'.nrows = B.nrows ∧ B'.ncols = B.ncols ∧
        (Gen.C.solveLeftTop cutoff 1 (memOf A) (memOf B) B.nrows A.nrows B.ncols rsB A.ncols A.width A.hb
          (cPluq base baseRows rs mt n) B.width B.hb (cSolve rs rsB)).2.2 = memOf B' ∧
        (padRows A.toB).mul (B'.toB.sub 0 0 A.ncols B.ncols) = B.toB) := by
  have hple : G2.GoodPle (pleM base baseRows n) := G2.goodPle_pleRec hbase hbx 64 524288 baseRows n
  have hq := G2.pluqOfPle_good hple (Mzd.WF_toB hA)
  have hAw := Mzd.WF_toB hA
  have hBw := Mzd.WF_toB hB
  have hBr' : B.toB.nrows = max A.toB.nrows A.toB.ncols := hBr
  have e := c_solve_left_eq base hbase hbx baseRows rs mt n cutoff rsB true A B hA hB hcA hcB hBr
  rw [show (if true = true then (1 : Int) else 0) = 1 from rfl] at e
  rw [e]
  dsimp only
  refine ⟨SV.solveLeft_verdict hAw hBw hBr' hq, SV.solveLeft_verdict_iff hAw hBw hBr' hq, fun hret => ?_⟩
  obtain ⟨hX, -⟩ := SV.solveLeft_shaped hAw hBw hBr' hq true
  rw [Mzd.nrows_toB, Mzd.ncols_toB] at hX
  obtain ⟨W, tB, _, _⟩ := putB_state hB hX.wf hX.nr hX.nc
  refine ⟨_, W, rfl, rfl, rfl, ?_⟩
  rw [tB]
  exact SV.solveLeft_solution hAw hBw hBr' hq hret


/-! ### 3. `mzd_kernel_left_pluq` over the generated `_mzd_pluq` -/

/-- **`mzd_kernel_left_pluq` (generated text) in its callee `mzd_pluq`** -/
theorem kernelLeftPluq_congr (f f' : PleFn) (cutoff : Int) (mA : Mem) (nr nc w : Int) (hb : BitVec 64) (rs : Int)
    (ft : CLoop.MView → CLoop.MView → Int → Mem)
    (hf : CallAgree nr nc (f ⟨mA, nr, nc, w, hb⟩ (fun i : Int => 0 + i) (fun i : Int => 0 + i) cutoff)
      (f' ⟨mA, nr, nc, w, hb⟩ (fun i : Int => 0 + i) (fun i : Int => 0 + i) cutoff)) :
    Gen.C.kernelLeftPluq cutoff mA nr nc w hb f rs ft = Gen.C.kernelLeftPluq cutoff mA nr nc w hb f' rs ft := by
  unfold Gen.C.kernelLeftPluq
  dsimp_m
  generalize f ⟨mA, nr, nc, w, hb⟩ (fun i : Int => 0 + i) (fun i : Int => 0 + i) cutoff = o at hf ⊢
  generalize f' ⟨mA, nr, nc, w, hb⟩ (fun i : Int => 0 + i) (fun i : Int => 0 + i) cutoff = o' at hf ⊢
  obtain ⟨r, m1, P1, Q1⟩ := o
  obtain ⟨r', m1', P1', Q1'⟩ := o'
  obtain ⟨h1, h2, h3, h4⟩ := hf
  dsimp only at h1 h2 h3 h4
  subst h1 h2
  have eQ := wrap_congr nc Q1 Q1' h4
  unfold wrap at eQ
  dsimp_m
  rw [eQ]


/-- **`mzd_kernel_left_pluq` — generated text over the generated `_mzd_pluq` over the closed generated `_mzd_ple`
    = the model** `SV.kernelLeftPluq (G2.pluqOfPle (pleRec base 64 524288 baseRows n))`: the `NULL` flag, the memory
    of `A` (the factorisation is left there), the memory and the shape of the fresh matrix -/
theorem c_kernel_eq (base : BMat → Rec.Out) (hbase : Rec.GoodBase base)
    (hbx : ∀ A : BMat, A.WF → G2.Extra A (base A)) (baseRows : Nat) (rs : Int) (mt n : Nat) (cutoff : Int)
    (A : Mzd) (hA : A.WF) (hc : 1 ≤ A.ncols) :
    Gen.C.kernelLeftPluq cutoff (memOf A) A.nrows A.ncols A.width A.hb (cPluq base baseRows rs mt n) rs
        (fun U B _ => liftM2 trsmUpperLeft U B)
      = (match SV.kernelLeftPluq (G2.pluqOfPle (Rec.pleRec base 64 524288 baseRows n)) A.toB with
        | none => ((1 : Int), memOf (A.putB (G2.pluqOfPle (Rec.pleRec base 64 524288 baseRows n) A.toB).1),
            (fun _ _ => 0#64), (0 : Int), (0 : Int))
        | some K => ((0 : Int), memOf (A.putB (G2.pluqOfPle (Rec.pleRec base 64 524288 baseRows n) A.toB).1),
            memOf (Mzd.ofB K), (K.nrows : Int), (K.ncols : Int))) := by
  have hple : G2.GoodPle (pleM base baseRows n) := G2.goodPle_pleRec hbase hbx 64 524288 baseRows n
  obtain ⟨hS, hP, hQs, hQ, hr1, hr2⟩ := pluqOfPle_facts hple (Mzd.WF_toB hA)
  rw [Mzd.nrows_toB] at hS hP hr1
  rw [Mzd.ncols_toB] at hS hQs hQ hr2
  rw [kernelLeftPluq_congr (cPluq base baseRows rs mt n) (liftPle (pluqM base baseRows n)) cutoff (memOf A) A.nrows
    A.ncols A.width A.hb rs _ (cPluq_agree base hbase hbx baseRows rs mt n cutoff A hA hc _ _)]
  exact GenTieKer.kernelLeftPluq_eq (pluqM base baseRows n) A cutoff rs hA hS hr1 hr2 hQs hQ

/-- **C07 ON THE GENERATED TEXT — `mzd_kernel_left_pluq(A, cutoff)`, every depth `n`**: for a good base case, on a
    well-formed `A` with at least one column: the `NULL` flag (first component, `1` = `NULL`) is `0` or `1`; it is
    `1` iff `rank A = ncols A`; otherwise the fresh matrix returned (memory, `nrows`, `ncols`) is a well-formed
    `K` with `ncols A` rows and `ncols A − rank A > 0` columns, `A·K = 0`, of full column rank, whose columns are a
    basis of the right null space of `A` (every `V` with `A·V = 0` is `K·W` for a unique `W`) -/
theorem c_kernel (base : BMat → Rec.Out) (hbase : Rec.GoodBase base)
    (hbx : ∀ A : BMat, A.WF → G2.Extra A (base A)) (baseRows : Nat) (rs : Int) (mt n : Nat) (cutoff : Int)
    (A : Mzd) (hA : A.WF) (hc : 1 ≤ A.ncols) :
    ((Gen.C.kernelLeftPluq cutoff (memOf A) A.nrows A.ncols A.width A.hb (cPluq base baseRows rs mt n) rs
        (fun U B _ => liftM2 trsmUpperLeft U B)).1 = 1 ↔ A.toB.rank = A.ncols) ∧
    ((Gen.C.kernelLeftPluq cutoff (memOf A) A.nrows A.ncols A.width A.hb (cPluq base baseRows rs mt n) rs
        (fun U B _ => liftM2 trsmUpperLeft U B)).1 ≠ 1 →
      ∃ K : BMat,
        Gen.C.kernelLeftPluq cutoff (memOf A) A.nrows A.ncols A.width A.hb (cPluq base baseRows rs mt n) rs
            (fun U B _ => liftM2 trsmUpperLeft U B)
          = ((0 : Int), memOf (A.putB (G2.pluqOfPle (Rec.pleRec base 64 524288 baseRows n) A.toB).1),
              memOf (Mzd.ofB K), (K.nrows : Int), (K.ncols : Int)) ∧
        K.WF ∧ K.nrows = A.ncols ∧ K.ncols = A.ncols - A.toB.rank ∧ 0 < K.ncols ∧
        A.toB.mul K = zero A.nrows K.ncols ∧ K.rank = K.ncols ∧
        (∀ V : BMat, V.WF → V.nrows = A.ncols → A.toB.mul V = zero A.nrows V.ncols →
          ∃ W : BMat, W.WF ∧ W.nrows = K.ncols ∧ W.ncols = V.ncols ∧ K.mul W = V) ∧
        (∀ W W' : BMat, W.WF → W'.WF → W.nrows = K.ncols → W'.nrows = K.ncols → W'.ncols = W.ncols →
          K.mul W = K.mul W' → W = W')) := by
  have hple : G2.GoodPle (pleM base baseRows n) := G2.goodPle_pleRec hbase hbx 64 524288 baseRows n
  have hAw := Mzd.WF_toB hA
  rw [c_kernel_eq base hbase hbx baseRows rs mt n cutoff A hA hc]
  have hnone := G2.kernelLeftPluq_none_iff hple hAw
  rw [Mzd.ncols_toB] at hnone
  cases hk : SV.kernelLeftPluq (G2.pluqOfPle (Rec.pleRec base 64 524288 baseRows n)) A.toB with
  | none =>
    dsimp only
    exact ⟨⟨fun _ => hnone.1 hk, fun _ => rfl⟩, fun h => absurd rfl h⟩
  | some K =>
    dsimp only
    refine ⟨⟨fun h => absurd h (by decide), fun h => ?_⟩, fun _ => ?_⟩
    · rw [hnone.2 h] at hk
      exact absurd hk (by simp)
    · obtain ⟨k1, k2, k3, k4, k5, _, k7⟩ := G2.kernelLeftPluq_some hple hAw hk
      obtain ⟨_, b2, b3⟩ := G2.kernelLeftPluq_basis hple hAw hk
      exact ⟨K, rfl, k1, k2, k3, k4, k5, k7, b2, b3⟩


/-! ### 4. `mzd_echelonize_pluq` over the generated `_mzd_pluq` / `_mzd_ple` -/

/-- the permutation memory after `mzp_init(N)` + the call, unshifted form -/
def wrap0 (N : Int) (p : Int → Int) : Int → Int :=
  fun i : Int => if (0 : Int) ≤ i ∧ i < (0 : Int) + (N - (0 : Int)) then p (i - (0 : Int)) else i

theorem wrap0_congr (N : Int) (p p' : Int → Int) (h : ∀ i : Int, 0 ≤ i → i < N → p i = p' i) :
    wrap0 N p = wrap0 N p' := by
  funext i
  unfold wrap0
  by_cases c : (0 : Int) ≤ i ∧ i < (0 : Int) + (N - (0 : Int))
  · rw [if_pos c, if_pos c, h _ (by omega) (by omega)]
  · rw [if_neg c, if_neg c]

/-- **`mzd_echelonize_pluq` (generated text) in its callees `mzd_pluq` (used when `full`) and `mzd_ple` (used
    otherwise)**: both are called with cutoff `0` on the record of `A` and fresh identity permutations -/
theorem echelonizePluq_congr (f f' g g' : PleFn) (full : Int) (mA : Mem) (nr nc w : Int) (hb : BitVec 64) (rs : Int)
    (ft : CLoop.MView → CLoop.MView → Int → Mem)
    (fsub : CLoop.MView → Int → Int → Int → Int → Mem × Int × Int) (fcopy : CLoop.MView → CLoop.MView → Mem)
    (fapr : CLoop.MView → (Int → Int) → Mem)
    (hf : CallAgree nr nc (f ⟨mA, nr, nc, w, hb⟩ (fun i : Int => 0 + i) (fun i : Int => 0 + i) 0)
      (f' ⟨mA, nr, nc, w, hb⟩ (fun i : Int => 0 + i) (fun i : Int => 0 + i) 0))
    (hg : CallAgree nr nc (g ⟨mA, nr, nc, w, hb⟩ (fun i : Int => 0 + i) (fun i : Int => 0 + i) 0)
      (g' ⟨mA, nr, nc, w, hb⟩ (fun i : Int => 0 + i) (fun i : Int => 0 + i) 0)) :
    Gen.C.echelonizePluq full mA nr nc w hb f rs ft fsub fcopy fapr g
      = Gen.C.echelonizePluq full mA nr nc w hb f' rs ft fsub fcopy fapr g' := by
  rw [GenTieEch.echelonizePluq_split, GenTieEch.echelonizePluq_split]
  dsimp_m
  generalize f ⟨mA, nr, nc, w, hb⟩ (fun i : Int => 0 + i) (fun i : Int => 0 + i) 0 = o at hf ⊢
  generalize f' ⟨mA, nr, nc, w, hb⟩ (fun i : Int => 0 + i) (fun i : Int => 0 + i) 0 = o' at hf ⊢
  generalize g ⟨mA, nr, nc, w, hb⟩ (fun i : Int => 0 + i) (fun i : Int => 0 + i) 0 = u at hg ⊢
  generalize g' ⟨mA, nr, nc, w, hb⟩ (fun i : Int => 0 + i) (fun i : Int => 0 + i) 0 = u' at hg ⊢
  obtain ⟨r, m1, P1, Q1⟩ := o
  obtain ⟨r', m1', P1', Q1'⟩ := o'
  obtain ⟨s, m2, P2, Q2⟩ := u
  obtain ⟨s', m2', P2', Q2'⟩ := u'
  obtain ⟨h1, h2, h3, h4⟩ := hf
  obtain ⟨k1, k2, k3, k4⟩ := hg
  dsimp only at h1 h2 h3 h4 k1 k2 k3 k4
  subst h1 h2 k1 k2
  have eP := wrap0_congr nr P1 P1' h3
  have eQ := wrap0_congr nc Q1 Q1' h4
  have eP2 := wrap0_congr nr P2 P2' k3
  have eQ2 := wrap0_congr nc Q2 Q2' k4
  unfold wrap0 at eP eQ eP2 eQ2
  dsimp_m
  rw [eP, eQ, eP2, eQ2]


/-- **C02 ON THE GENERATED TEXT — `mzd_echelonize_pluq(A, 1)`, every depth `n`**: the generated function over the
    generated `_mzd_pluq` over the closed generated `_mzd_ple` (`mzd_trsm_upper_left`, `mzd_submatrix`, `mzd_copy`,
    `mzd_apply_p_right` := the lifted model operations; the callee `mzd_ple` is not used when `full`, it is
    arbitrary) returns `rank A` and leaves in `A` THE reduced row echelon form of `A` (entries; the excess bits of
    `A` are untouched) -/
theorem c_echelonize_pluq (base : BMat → Rec.Out) (hbase : Rec.GoodBase base)
    (hbx : ∀ A : BMat, A.WF → G2.Extra A (base A)) (baseRows : Nat) (rs : Int) (mt n : Nat)
    (A : Mzd) (hA : A.WF) (hc : 1 ≤ A.ncols) (fple : PleFn) :
    Gen.C.echelonizePluq 1 (memOf A) A.nrows A.ncols A.width A.hb (cPluq base baseRows rs mt n) rs
        (fun U B _ => liftM2 trsmUpperLeft U B) GenTieEch.liftSubNew GenTieEch.liftCopy GenTieEch.liftApplyPRight fple
      = ((A.toB.rank : Int), memOf (A.putB A.toB.rref)) := by
  have hple : G2.GoodPle (pleM base baseRows n) := G2.goodPle_pleRec hbase hbx 64 524288 baseRows n
  have hAw := Mzd.WF_toB hA
  obtain ⟨hS, hP, hQs, hQ, hr1, hr2⟩ := pluqOfPle_facts hple hAw
  rw [Mzd.nrows_toB] at hS hP hr1
  rw [Mzd.ncols_toB] at hS hQs hQ hr2
  have hm := G2.echelonizePluq_full_eq hple hAw
  rw [echelonizePluq_congr (cPluq base baseRows rs mt n) (liftPle (pluqM base baseRows n)) fple fple 1 (memOf A) A.nrows
    A.ncols A.width A.hb rs _ _ _ _ (cPluq_agree base hbase hbx baseRows rs mt n 0 A hA hc _ _) (CallAgree.refl _ _ _),
    GenTieEch.echelonizePluq_full_eq (pluqM base baseRows n) A rs hA hc _ _ _ _ rfl hS hr1 hr2 hQs fple, hm]
  have hr : (pleM base baseRows n A.toB).2.2.2 = A.toB.rank := congrArg Prod.snd hm
  rw [hr]

/-- **`mzd_echelonize_pluq(A, 0)` on the generated text, every depth `n`** (the C code calls `mzd_ple` here: the
    closed generated `_mzd_ple`; the callee `mzd_pluq` and the callees of the `full` branch are arbitrary): the value
    returned is `rank A`, and `A` is left holding a well-formed `R` of the shape of `A` with the row space of `A`, in
    row echelon form, with exactly `rank A` non-zero rows, which come first -/
theorem c_echelonize_ple (base : BMat → Rec.Out) (hbase : Rec.GoodBase base)
    (hbx : ∀ A : BMat, A.WF → G2.Extra A (base A)) (baseRows : Nat) (rs : Int) (mt n : Nat)
    (A : Mzd) (hA : A.WF) (hc : 1 ≤ A.ncols) (fpluq : PleFn) (ftrsm : CLoop.MView → CLoop.MView → Int → Mem)
    (fsub : CLoop.MView → Int → Int → Int → Int → Mem × Int × Int) (fcopy : CLoop.MView → CLoop.MView → Mem)
    (fapr : CLoop.MView → (Int → Int) → Mem) :
    ∃ R : BMat,
      Gen.C.echelonizePluq 0 (memOf A) A.nrows A.ncols A.width A.hb fpluq rs ftrsm fsub fcopy fapr
          (cPleFull base baseRows rs mt n) = ((A.toB.rank : Int), memOf (A.putB R)) ∧
      R = (PN.echelonizePluq (Rec.pleRec base 64 524288 baseRows n) A.toB false).1 ∧
      R.WF ∧ R.nrows = A.nrows ∧ R.ncols = A.ncols ∧ SameSpan A.toB R ∧ R.isRowEchelon = true ∧
      R.rowList.countP (fun v => v != 0) = A.toB.rank ∧ (∀ i, A.toB.rank ≤ i → R.row i = 0) := by
  have hple : G2.GoodPle (pleM base baseRows n) := G2.goodPle_pleRec hbase hbx 64 524288 baseRows n
  have hAw := Mzd.WF_toB hA
  obtain ⟨hS, hP, hQs, hQ, hr1, hr2⟩ := goodPle_facts hple hAw
  rw [Mzd.nrows_toB] at hS hP hr1
  rw [Mzd.ncols_toB] at hS hQs hQ hr2
  obtain ⟨w, ck⟩ := G2.echelonizePluq_ech_check hple hAw
  obtain ⟨e1, e2, e3, e4, e5, e6, e7, _⟩ := checkEchelon_sound hAw w _ false ck
  have hag : CallAgree (A.nrows : Int) (A.ncols : Int)
      (cPleFull base baseRows rs mt n ⟨memOf A, (A.nrows : Int), (A.ncols : Int), (A.width : Int), A.hb⟩
        (fun i : Int => 0 + i) (fun i : Int => 0 + i) 0)
      (liftPle (pleM base baseRows n) ⟨memOf A, (A.nrows : Int), (A.ncols : Int), (A.width : Int), A.hb⟩
        (fun i : Int => 0 + i) (fun i : Int => 0 + i) 0) := by
    obtain ⟨c1, c2, c3, c4⟩ := cPleFull_correct base hbase baseRows rs mt n 0 A hA hc (fun i : Int => 0 + i)
      (fun i : Int => 0 + i)
    unfold CLoop.MView.of at c1 c2 c3 c4
    rw [liftPle_whole _ A hA]
    exact ⟨c1, c2, c3, c4⟩
  have hr : (pleM base baseRows n A.toB).2.2.2 = A.toB.rank := e3
  refine ⟨_, ?_, rfl, w, e1, e2, e4, e5, e3 ▸ e6, e3 ▸ e7⟩
  rw [echelonizePluq_congr fpluq fpluq (cPleFull base baseRows rs mt n) (liftPle (pleM base baseRows n)) 0 (memOf A)
    A.nrows A.ncols A.width A.hb rs _ _ _ _ (CallAgree.refl _ _ _) hag,
    GenTieEch.echelonizePluq_ple_eq (pleM base baseRows n) A rs hA hc _ _ _ _ rfl hS hr1 hr2
      (fun i hi => hQ i (Nat.lt_of_lt_of_le hi hr2)) fpluq ftrsm fsub fcopy fapr, hr]


/-! ### 5. the triangular solves of `_mzd_pluq_solve_left` as CLOSED generated recursions -/

/-- the closed generated `_mzd_trsm_lower_left` (any depth) on canonical records of ARBITRARY memories, written back
    through `unview` (as every generated caller does) = the lifted substitution form -/
theorem unview_cTrsmLL (rsB rsL : Int) (n mb nb : Nat) (hc : 1 ≤ nb) (m mL mB : Mem) (r0 w0 cutoff : Int) :
    CLoop.unview m r0 w0 (mb : Int) (((nb + 63) / 64 : Nat) : Int)
        (cTrsmLL llRuss addmulM rsB rsL n
          ⟨mL, (mb : Int), (mb : Int), (((mb + 63) / 64 : Nat) : Int), leftMask (mb % 64)⟩
          ⟨mB, (mb : Int), (nb : Int), (((nb + 63) / 64 : Nat) : Int), leftMask (nb % 64)⟩ cutoff)
      = CLoop.unview m r0 w0 (mb : Int) (((nb + 63) / 64 : Nat) : Int)
        (liftM2 trsmLowerLeft
          ⟨mL, (mb : Int), (mb : Int), (((mb + 63) / 64 : Nat) : Int), leftMask (mb % 64)⟩
          ⟨mB, (mb : Int), (nb : Int), (((nb + 63) / 64 : Nat) : Int), leftMask (nb % 64)⟩) := by
  apply unview_congr
  refine (cTrsmLL_raw rsB rsL n cutoff mb nb hc mL mB).trans ?_
  rw [liftM2_raw, liftM2_raw, Rec.trsmLowerLeftRec_eq 2048 n (Mzd.WF_toB (rawM_WF mB mb nb)) (by simp)]
  exact AgreeOn.refl _ _ _

/-- … and the same for the closed generated `_mzd_trsm_upper_left` -/
theorem unview_cTrsmUL (rsB rsU : Int) (n mb nb : Nat) (hc : 1 ≤ nb) (m mU mB : Mem) (r0 w0 cutoff : Int) :
    CLoop.unview m r0 w0 (mb : Int) (((nb + 63) / 64 : Nat) : Int)
        (cTrsmUL ulRuss addmulM rsB rsU n
          ⟨mU, (mb : Int), (mb : Int), (((mb + 63) / 64 : Nat) : Int), leftMask (mb % 64)⟩
          ⟨mB, (mb : Int), (nb : Int), (((nb + 63) / 64 : Nat) : Int), leftMask (nb % 64)⟩ cutoff)
      = CLoop.unview m r0 w0 (mb : Int) (((nb + 63) / 64 : Nat) : Int)
        (liftM2 trsmUpperLeft
          ⟨mU, (mb : Int), (mb : Int), (((mb + 63) / 64 : Nat) : Int), leftMask (mb % 64)⟩
          ⟨mB, (mb : Int), (nb : Int), (((nb + 63) / 64 : Nat) : Int), leftMask (nb % 64)⟩) := by
  apply unview_congr
  refine (cTrsmUL_raw rsB rsU n cutoff mb nb hc mU mB).trans ?_
  rw [liftM2_raw, liftM2_raw, Rec.trsmUpperLeftRec_eq 2048 n (Mzd.WF_toB (rawM_WF mB mb nb)) (by simp)]
  exact AgreeOn.refl _ _ _

/-- **the generated `_mzd_pluq_solve_left` with its two triangular solves bound to the CLOSED generated recursions**
    `cTrsmLL … mtL`, `cTrsmUL … mtU` (GenTieClose: `_mzd_trsm_lower_left` / `_mzd_trsm_upper_left` bound to themselves,
    any depths) returns what it returns with the lifted substitution forms: the generated text only writes the
    results back through the window `Y1`, where the two cannot be told apart.  Arbitrary memories and permutations;
    `rank ≤ A.nrows`, `rank ≤ B.nrows`, `1 ≤ B.ncols`. -/
theorem pluqSolveLeft_closed (rank Anr Bnr Bnc : Nat) (cutoff check : Int) (mA mB : Mem) (Plen Qlen : Int)
    (p q : Int → Int) (Bw : Int) (Bhb : BitVec 64) (rsA rsB : Int) (mtL mtU : Nat)
    (f2 : CLoop.MView → CLoop.MView → CLoop.MView → Int → Mem)
    (hr1 : rank ≤ Anr) (hr2 : rank ≤ Bnr) (hBc : 1 ≤ Bnc) :
    Gen.C.pluqSolveLeft rank cutoff check mB Bnc Plen Bnr p Bw Bhb Anr rsA rsB mA
        (cTrsmLL llRuss addmulM rsB rsA mtL) f2 (cTrsmUL ulRuss addmulM rsB rsA mtU) Qlen q
      = Gen.C.pluqSolveLeft rank cutoff check mB Bnc Plen Bnr p Bw Bhb Anr rsA rsB mA
        (fun L Y _ => liftM2 trsmLowerLeft L Y) f2 (fun U Y _ => liftM2 trsmUpperLeft U Y) Qlen q := by
  unfold Gen.C.pluqSolveLeft
  rw [mzdInitWindow_in 0 0 rank rank Anr rsA 0 0 rank rank Anr rfl rfl rfl rfl rfl (by omega) (by omega)
      (by omega) hr1,
    mzdInitWindow_in 0 0 rank Bnc Bnr rsB 0 0 rank Bnc Bnr rfl rfl rfl rfl rfl (by omega) (by omega)
      (by omega) hr2]
  dsimp_m
  simp only [unview_cTrsmLL rsB rsA mtL (rank - 0) (Bnc - 0) (by omega),
    unview_cTrsmUL rsB rsA mtU (rank - 0) (Bnc - 0) (by omega)]

/-- **`_mzd_pluq_solve_left` as generated text over the CLOSED generated `_mzd_trsm_lower_left` /
    `_mzd_trsm_upper_left`** (depths `mtL`, `mtU`; `mzd_addmul := C + A·B`) as a callee of `_mzd_solve_left` -/
def cSolveC (rsA rsB : Int) (mtL mtU : Nat) : SolveFn := fun VA rank p q VB cutoff check =>
  Gen.C.pluqSolveLeft rank cutoff check VB.mem VB.ncols VA.nrows VB.nrows p VB.width VB.hb VA.nrows rsA rsB VA.mem
    (cTrsmLL llRuss addmulM rsB rsA mtL) (fun C H Y _ => liftM3 (fun C A B => C.add (A.mul B)) C H Y)
    (cTrsmUL ulRuss addmulM rsB rsA mtU) VA.ncols q

theorem cSolveC_eq_cSolve (rsA rsB : Int) (mtL mtU rank Anr Bnr Bnc : Nat) (mA mB : Mem) (Anc Aw Bw : Int)
    (Ahb Bhb : BitVec 64) (p q : Int → Int) (cutoff check : Int) (hr1 : rank ≤ Anr) (hr2 : rank ≤ Bnr)
    (hBc : 1 ≤ Bnc) :
    cSolveC rsA rsB mtL mtU ⟨mA, (Anr : Int), Anc, Aw, Ahb⟩ (rank : Int) p q ⟨mB, (Bnr : Int), (Bnc : Int), Bw, Bhb⟩
        cutoff check
      = cSolve rsA rsB ⟨mA, (Anr : Int), Anc, Aw, Ahb⟩ (rank : Int) p q ⟨mB, (Bnr : Int), (Bnc : Int), Bw, Bhb⟩
        cutoff check :=
  pluqSolveLeft_closed rank Anr Bnr Bnc cutoff check mA mB _ _ p q Bw Bhb rsA rsB mtL mtU _ hr1 hr2 hBc

/-- `_mzd_solve_left` over `cSolveC` = `_mzd_solve_left` over `cSolve` -/
theorem c_solve_left_closed_eq (base : BMat → Rec.Out) (hbase : Rec.GoodBase base)
    (hbx : ∀ A : BMat, A.WF → G2.Extra A (base A)) (baseRows : Nat) (rs : Int) (mt n mtL mtU : Nat)
    (cutoff check rsB : Int) (A B : Mzd) (hA : A.WF) (hcA : 1 ≤ A.ncols) (hcB : 1 ≤ B.ncols)
    (hAB : A.nrows ≤ B.nrows) :
    Gen.C.solveLeftTop cutoff check (memOf A) (memOf B) B.nrows A.nrows B.ncols rsB A.ncols A.width
        A.hb (cPluq base baseRows rs mt n) B.width B.hb (cSolveC rs rsB mtL mtU)
      = Gen.C.solveLeftTop cutoff check (memOf A) (memOf B) B.nrows A.nrows B.ncols rsB A.ncols A.width
        A.hb (cPluq base baseRows rs mt n) B.width B.hb (cSolve rs rsB) := by
  have hple : G2.GoodPle (pleM base baseRows n) := G2.goodPle_pleRec hbase hbx 64 524288 baseRows n
  obtain ⟨hS, hP, hQs, hQ, hr1, hr2⟩ := pluqOfPle_facts hple (Mzd.WF_toB hA)
  rw [Mzd.nrows_toB] at hr1
  have hf := cPluq_agree base hbase hbx baseRows rs mt n cutoff A hA hcA (fun i : Int => 0 + i) (fun i : Int => 0 + i)
  rw [solveLeftTop_congr (cPluq base baseRows rs mt n) (liftPle (pluqM base baseRows n)) (cSolveC rs rsB mtL mtU)
      (cSolve rs rsB) cutoff check (memOf A) (memOf B) B.nrows A.nrows B.ncols rsB A.ncols A.width A.hb B.width B.hb
      hf ?_,
    solveLeftTop_congr (cPluq base baseRows rs mt n) (liftPle (pluqM base baseRows n)) (cSolve rs rsB)
      (cSolve rs rsB) cutoff check (memOf A) (memOf B) B.nrows A.nrows B.ncols rsB A.ncols A.width A.hb B.width B.hb
      hf (fun _ _ => rfl)]
  intro o ho
  rw [liftPle_whole _ A hA] at ho
  subst ho
  exact cSolveC_eq_cSolve rs rsB mtL mtU _ A.nrows B.nrows B.ncols _ _ _ _ _ _ _ _ _ cutoff check hr1 (Nat.le_trans hr1 hAB) hcB

/-- **C06 ON THE GENERATED TEXT, triangular solves included** — `c_solve_left` with `_mzd_pluq_solve_left` over the
    closed generated `_mzd_trsm_lower_left` / `_mzd_trsm_upper_left` (any depths `mtL`, `mtU`): the remaining
    untranslated callees on the whole path `_mzd_solve_left → _mzd_pluq → _mzd_ple → …`, `_mzd_pluq_solve_left →
    _mzd_trsm_*` are `mzd_addmul` (`C + A·B`), the Four-Russians TRSM base kernels (substitution form),
    `mzd_apply_p_right_trans_tri`, `_mzd_compress_l`, `mzd_copy` and the base case `_mzd_ple_russian` -/
theorem c_solve_left_closed (base : BMat → Rec.Out) (hbase : Rec.GoodBase base)
    (hbx : ∀ A : BMat, A.WF → G2.Extra A (base A)) (baseRows : Nat) (rs : Int) (mt n mtL mtU : Nat) (cutoff rsB : Int)
    (A B : Mzd) (hA : A.WF) (hB : B.WF) (hcA : 1 ≤ A.ncols) (hcB : 1 ≤ B.ncols)
    (hBr : B.nrows = max A.nrows A.ncols) :
    ((Gen.C.solveLeftTop cutoff 1 (memOf A) (memOf B) B.nrows A.nrows B.ncols rsB A.ncols A.width A.hb
        (cPluq base baseRows rs mt n) B.width B.hb (cSolveC rs rsB mtL mtU)).1
      = (if solvable A.toB B.toB then 0 else -1)) ∧
    ((Gen.C.solveLeftTop cutoff 1 (memOf A) (memOf B) B.nrows A.nrows B.ncols rsB A.ncols A.width A.hb
        (cPluq base baseRows rs mt n) B.width B.hb (cSolveC rs rsB mtL mtU)).1 = 0 ↔
      ∃ X : BMat, X.WF ∧ X.nrows = A.ncols ∧ X.ncols = B.ncols ∧ (padRows A.toB).mul X = B.toB) ∧
    ((Gen.C.solveLeftTop cutoff 1 (memOf A) (memOf B) B.nrows A.nrows B.ncols rsB A.ncols A.width A.hb
        (cPluq base baseRows rs mt n) B.width B.hb (cSolveC rs rsB mtL mtU)).1 = 0 →
      ∃ B' : Mzd, B'.WF ∧ B'.nrows = B.nrows ∧ B'.ncols = B.ncols ∧
        (Gen.C.solveLeftTop cutoff 1 (memOf A) (memOf B) B.nrows A.nrows B.ncols rsB A.ncols A.width A.hb
          (cPluq base baseRows rs mt n) B.width B.hb (cSolveC rs rsB mtL mtU)).2.2 = memOf B' ∧
        (padRows A.toB).mul (B'.toB.sub 0 0 A.ncols B.ncols) = B.toB) := by
  rw [c_solve_left_closed_eq base hbase hbx baseRows rs mt n mtL mtU cutoff 1 rsB A B hA hcA hcB (by omega)]
  exact c_solve_left base hbase hbx baseRows rs mt n cutoff rsB A B hA hB hcA hcB hBr

/-- **the generated `mzd_kernel_left_pluq` with `mzd_trsm_upper_left` bound to the CLOSED generated recursion**
    `cTrsmUL … mtU` returns what it returns with the lifted substitution form -/
theorem kernelLeftPluq_closed (fact : BMat → Rec.Out) (A : Mzd) (cutoff rs rsR : Int) (mtU : Nat) (hA : A.WF)
    (hr1 : (fact A.toB).2.2.2 ≤ A.nrows) (hr2 : (fact A.toB).2.2.2 ≤ A.ncols) :
    Gen.C.kernelLeftPluq cutoff (memOf A) A.nrows A.ncols A.width A.hb (liftPle fact) rs
        (cTrsmUL ulRuss addmulM rsR rs mtU)
      = Gen.C.kernelLeftPluq cutoff (memOf A) A.nrows A.ncols A.width A.hb (liftPle fact) rs
        (fun U B _ => liftM2 trsmUpperLeft U B) := by
  unfold Gen.C.kernelLeftPluq GenTiePle.liftPle
  rw [GenTieEch.ofView_whole A hA]
  generalize fact A.toB = o at hr1 hr2 ⊢
  obtain ⟨S, P, Q, r⟩ := o
  dsimp only at hr1 hr2
  simp_m [Mzd.ncols_toB]
  by_cases h0 : r = A.ncols
  · have hd : decide ((r : Int) = (A.ncols : Int)) = true := by simp only [decide_eq_true_eq]; omega
    rw [if_pos hd, if_pos hd]
  · have hd : ¬ decide ((r : Int) = (A.ncols : Int)) = true := by simp only [decide_eq_true_eq]; omega
    rw [if_neg hd, if_neg hd]
    have eRc : (A.ncols : Int) - (r : Int) = ((A.ncols - r : Nat) : Int) := by omega
    rw [eRc,
      mzdInitWindow_in 0 0 r r A.nrows rs 0 0 r r A.nrows rfl rfl rfl rfl rfl rfl (by omega) (by omega) hr1,
      mzdInitWindow_in 0 0 r (A.ncols - r : Nat) A.ncols _ 0 0 r (A.ncols - r) A.ncols rfl rfl rfl rfl rfl rfl
        (by omega) (by omega) hr2]
    simp_m [Int.toNat_natCast]
    simp only [unview_cTrsmUL rsR rs mtU (r - 0) (A.ncols - r - 0) (by omega)]

/-- **C07 on the generated text, triangular solve included**: `c_kernel_eq` with `mzd_trsm_upper_left` := the closed
    generated `_mzd_trsm_upper_left` (any depth `mtU`) -/
theorem c_kernel_closed_eq (base : BMat → Rec.Out) (hbase : Rec.GoodBase base)
    (hbx : ∀ A : BMat, A.WF → G2.Extra A (base A)) (baseRows : Nat) (rs rsR : Int) (mt n mtU : Nat) (cutoff : Int)
    (A : Mzd) (hA : A.WF) (hc : 1 ≤ A.ncols) :
    Gen.C.kernelLeftPluq cutoff (memOf A) A.nrows A.ncols A.width A.hb (cPluq base baseRows rs mt n) rs
        (cTrsmUL ulRuss addmulM rsR rs mtU)
      = Gen.C.kernelLeftPluq cutoff (memOf A) A.nrows A.ncols A.width A.hb (cPluq base baseRows rs mt n) rs
        (fun U B _ => liftM2 trsmUpperLeft U B) := by
  have hple : G2.GoodPle (pleM base baseRows n) := G2.goodPle_pleRec hbase hbx 64 524288 baseRows n
  obtain ⟨hS, hP, hQs, hQ, hr1, hr2⟩ := pluqOfPle_facts hple (Mzd.WF_toB hA)
  have hf := cPluq_agree base hbase hbx baseRows rs mt n cutoff A hA hc (fun i : Int => 0 + i) (fun i : Int => 0 + i)
  rw [kernelLeftPluq_congr (cPluq base baseRows rs mt n) (liftPle (pluqM base baseRows n)) cutoff (memOf A) A.nrows
      A.ncols A.width A.hb rs _ hf,
    kernelLeftPluq_congr (cPluq base baseRows rs mt n) (liftPle (pluqM base baseRows n)) cutoff (memOf A) A.nrows
      A.ncols A.width A.hb rs _ hf]
  exact kernelLeftPluq_closed (pluqM base baseRows n) A cutoff rs rsR mtU hA hr1 hr2

/-- **C07 ON THE GENERATED TEXT, triangular solve included** — `c_kernel` with `mzd_trsm_upper_left` := the closed
    generated `_mzd_trsm_upper_left` (any depth `mtU`) -/
theorem c_kernel_closed (base : BMat → Rec.Out) (hbase : Rec.GoodBase base)
    (hbx : ∀ A : BMat, A.WF → G2.Extra A (base A)) (baseRows : Nat) (rs rsR : Int) (mt n mtU : Nat) (cutoff : Int)
    (A : Mzd) (hA : A.WF) (hc : 1 ≤ A.ncols) :
    ((Gen.C.kernelLeftPluq cutoff (memOf A) A.nrows A.ncols A.width A.hb (cPluq base baseRows rs mt n) rs
        (cTrsmUL ulRuss addmulM rsR rs mtU)).1 = 1 ↔ A.toB.rank = A.ncols) ∧
    ((Gen.C.kernelLeftPluq cutoff (memOf A) A.nrows A.ncols A.width A.hb (cPluq base baseRows rs mt n) rs
        (cTrsmUL ulRuss addmulM rsR rs mtU)).1 ≠ 1 →
      ∃ K : BMat,
        Gen.C.kernelLeftPluq cutoff (memOf A) A.nrows A.ncols A.width A.hb (cPluq base baseRows rs mt n) rs
            (cTrsmUL ulRuss addmulM rsR rs mtU)
          = ((0 : Int), memOf (A.putB (G2.pluqOfPle (Rec.pleRec base 64 524288 baseRows n) A.toB).1),
              memOf (Mzd.ofB K), (K.nrows : Int), (K.ncols : Int)) ∧
        K.WF ∧ K.nrows = A.ncols ∧ K.ncols = A.ncols - A.toB.rank ∧ 0 < K.ncols ∧
        A.toB.mul K = zero A.nrows K.ncols ∧ K.rank = K.ncols ∧
        (∀ V : BMat, V.WF → V.nrows = A.ncols → A.toB.mul V = zero A.nrows V.ncols →
          ∃ W : BMat, W.WF ∧ W.nrows = K.ncols ∧ W.ncols = V.ncols ∧ K.mul W = V) ∧
        (∀ W W' : BMat, W.WF → W'.WF → W.nrows = K.ncols → W'.nrows = K.ncols → W'.ncols = W.ncols →
          K.mul W = K.mul W' → W = W')) := by
  rw [c_kernel_closed_eq base hbase hbx baseRows rs rsR mt n mtU cutoff A hA hc]
  exact c_kernel base hbase hbx baseRows rs mt n cutoff A hA hc

/-! ### 6. the base case of the library: the hypotheses are satisfiable, and the model is `PR.pleTop` / `PR.pluqTop` -/

/-- the base case of `_mzd_ple` in the library: `_mzd_ple_russian(Abar, P, Q, 0)` on fresh identity permutations
    (`l2` = the configured L2 cache size) — the `base` of `PR.pleTop` -/
def russianBase (l2 : Nat) : BMat → Rec.Out :=
  fun A => PR.pleRussian A (Array.range A.nrows) (Array.range A.ncols) 0 l2

theorem russianBase_good (l2 : Nat) : Rec.GoodBase (russianBase l2) :=
  PR.goodBase_russian _ _ (fun _ => by simp) (fun _ => by simp) 0 l2 (by omega)

theorem russianBase_extra (l2 : Nat) : ∀ A : BMat, A.WF → G2.Extra A (russianBase l2 A) := Top.extra_russian l2

/-- the model the theorems above speak about, at fuel `A.ncols` and `baseRows = 64`, over `russianBase L2`, IS the
    end-to-end model `PR.pleTop L1 L2 L3` of `M4riProofs/Top.lean` in every configuration with
    `__M4RI_PLE_CUTOFF = 524288` (`L3 ≥ 4 MiB`; the repository configuration) -/
theorem pleTop_eq_pleM (L1 L2 L3 : Nat) (h : 524288 ≤ L3 >>> 3) (A : BMat) :
    PR.pleTop L1 L2 L3 A = pleM (russianBase L2) 64 A.ncols A := by
  unfold PR.pleTop pleM russianBase Gen.pleCutoff Gen.radix
  rw [Nat.min_eq_left h]

/-- … and the model of `_mzd_pluq` is `PR.pluqTop L1 L2 L3` (on well-formed inputs) -/
theorem pluqTop_eq_pluqM (L1 L2 L3 : Nat) (h : 524288 ≤ L3 >>> 3) {A : BMat} (hA : A.WF) :
    PR.pluqTop L1 L2 L3 A = pluqM (russianBase L2) 64 A.ncols A := by
  rw [Top.pluqTop_eq L1 L2 L3 hA]
  unfold pluqM G2.pluqOfPle
  rw [pleTop_eq_pleM L1 L2 L3 h A]

/-- **C06 on the generated text over the base case of the library** (instance of `c_solve_left`: its hypotheses on
    `base` hold for `russianBase l2`, every `l2`) -/
theorem c_solve_left_russian (l2 baseRows : Nat) (rs : Int) (mt n : Nat) (cutoff rsB : Int) (A B : Mzd) (hA : A.WF)
    (hB : B.WF) (hcA : 1 ≤ A.ncols) (hcB : 1 ≤ B.ncols) (hBr : B.nrows = max A.nrows A.ncols) :
    ((Gen.C.solveLeftTop cutoff 1 (memOf A) (memOf B) B.nrows A.nrows B.ncols rsB A.ncols A.width A.hb
        (cPluq (russianBase l2) baseRows rs mt n) B.width B.hb (cSolve rs rsB)).1 = 0 ↔
      ∃ X : BMat, X.WF ∧ X.nrows = A.ncols ∧ X.ncols = B.ncols ∧ (padRows A.toB).mul X = B.toB) ∧
    ((Gen.C.solveLeftTop cutoff 1 (memOf A) (memOf B) B.nrows A.nrows B.ncols rsB A.ncols A.width A.hb
        (cPluq (russianBase l2) baseRows rs mt n) B.width B.hb (cSolve rs rsB)).1 = 0 →
      ∃ B' : Mzd, B'.WF ∧ B'.nrows = B.nrows ∧ B'.ncols = B.ncols ∧
        (Gen.C.solveLeftTop cutoff 1 (memOf A) (memOf B) B.nrows A.nrows B.ncols rsB A.ncols A.width A.hb
          (cPluq (russianBase l2) baseRows rs mt n) B.width B.hb (cSolve rs rsB)).2.2 = memOf B' ∧
        (padRows A.toB).mul (B'.toB.sub 0 0 A.ncols B.ncols) = B.toB) :=
  (c_solve_left (russianBase l2) (russianBase_good l2) (russianBase_extra l2) baseRows rs mt n cutoff rsB A B hA hB hcA
    hcB hBr).2

/-- **C02 on the generated text over the base case of the library** (instance of `c_echelonize_pluq`) -/
theorem c_echelonize_pluq_russian (l2 baseRows : Nat) (rs : Int) (mt n : Nat) (A : Mzd) (hA : A.WF)
    (hc : 1 ≤ A.ncols) (fple : PleFn) :
    Gen.C.echelonizePluq 1 (memOf A) A.nrows A.ncols A.width A.hb (cPluq (russianBase l2) baseRows rs mt n) rs
        (fun U B _ => liftM2 trsmUpperLeft U B) GenTieEch.liftSubNew GenTieEch.liftCopy GenTieEch.liftApplyPRight fple
      = ((A.toB.rank : Int), memOf (A.putB A.toB.rref)) :=
  c_echelonize_pluq (russianBase l2) (russianBase_good l2) (russianBase_extra l2) baseRows rs mt n A hA hc fple

/-- **the `Extra` hypothesis on the base case cannot be dropped** (`G2.pluqOfPle_needs_qtail`): `GoodBase` alone
    (`PLEGood`) says nothing about `Q[i]`, `i ≥ rank`, and `_mzd_pluq` leaves `Q` as `_mzd_ple` left it -/
theorem extra_needed :
    let A : BMat := ⟨1, 2, #[1]⟩
    let ple : BMat → Rec.Out := fun _ => (⟨1, 2, #[1]⟩, #[0], #[0, 5], 1)
    A.WF ∧ (ple A).1.WF ∧ Rec.PLEGood A (ple A).1 (ple A).2.1 (ple A).2.2.1 (ple A).2.2.2 ∧
      ¬ IsPLUQ A (G2.pluqOfPle ple A).1 (G2.pluqOfPle ple A).2.1 (G2.pluqOfPle ple A).2.2.1
        (G2.pluqOfPle ple A).2.2.2 := G2.pluqOfPle_needs_qtail

end M4ri.GenTieTop

#print axioms M4ri.GenTieTop.pluqFromPle_congr
#print axioms M4ri.GenTieTop.cPluq_agree
#print axioms M4ri.GenTieTop.c_pluq
#print axioms M4ri.GenTieTop.pluqSolveLeft_congr
#print axioms M4ri.GenTieTop.cSolve_eq_liftSolve
#print axioms M4ri.GenTieTop.solveLeftTop_congr
#print axioms M4ri.GenTieTop.c_solve_left_eq
#print axioms M4ri.GenTieTop.c_solve_left
#print axioms M4ri.GenTieTop.pluqSolveLeft_closed
#print axioms M4ri.GenTieTop.c_solve_left_closed
#print axioms M4ri.GenTieTop.kernelLeftPluq_congr
#print axioms M4ri.GenTieTop.kernelLeftPluq_closed
#print axioms M4ri.GenTieTop.c_kernel_closed_eq
#print axioms M4ri.GenTieTop.c_kernel_closed
#print axioms M4ri.GenTieTop.c_kernel_eq
#print axioms M4ri.GenTieTop.c_kernel
#print axioms M4ri.GenTieTop.echelonizePluq_congr
#print axioms M4ri.GenTieTop.c_echelonize_pluq
#print axioms M4ri.GenTieTop.c_echelonize_ple
#print axioms M4ri.GenTieTop.pleTop_eq_pleM
#print axioms M4ri.GenTieTop.c_solve_left_russian
#print axioms M4ri.GenTieTop.pluqTop_eq_pluqM
#print axioms M4ri.GenTieTop.c_echelonize_pluq_russian
