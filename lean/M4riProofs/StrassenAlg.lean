/-
  The Bodrato / Strassen–Winograd operation sequences of strassen.c, one level:
  if the recursive calls return correct products then the four result quadrants are
  `A11·B11 + A12·B21`, `A11·B12 + A12·B22`, `A21·B11 + A22·B21`, `A21·B12 + A22·B22`
  (plus the prior content of `C` for the `addmul`/`addsqr` sequences).

  Method: a well-formed `BMat` of shape `r × c` is represented (`Rep`) by a Mathlib matrix over `ZMod 2`;
  `addM` and `mul` of values are `+` and `*` of matrices, so every schedule becomes an identity in
  matrix algebra of characteristic 2.
-/
import M4riProofs.StrassenValues
import Mathlib.Data.ZMod.Basic
import Mathlib.Algebra.Field.ZMod
import Mathlib.Data.Matrix.Mul
import Mathlib.Tactic.Abel
import Mathlib.Algebra.CharP.Two
namespace M4ri
namespace BMat
open Matrix

abbrev M2 (r c : Nat) := Matrix (Fin r) (Fin c) (ZMod 2)

def b2z (b : Bool) : ZMod 2 := if b then 1 else 0

theorem b2z_xor (a b : Bool) : b2z (a ^^ b) = b2z a + b2z b := by
  cases a <;> cases b <;> decide

theorem b2z_and (a b : Bool) : b2z (a && b) = b2z a * b2z b := by
  cases a <;> cases b <;> decide

theorem b2z_inj {a b : Bool} (h : b2z a = b2z b) : a = b := by
  revert h; cases a <;> cases b <;> decide

theorem b2z_xorN (f : Nat → Bool) (n : Nat) : b2z (xorN f n) = ∑ l ∈ Finset.range n, b2z (f l) := by
  induction n with
  | zero => rfl
  | succ n ih => rw [xorN_succ, b2z_xor, ih, Finset.sum_range_succ]

/-- the `r × c` corner of a value as a matrix over `ZMod 2` -/
def toMat (r c : Nat) (X : BMat) : M2 r c := Matrix.of fun i j => b2z (X.get i j)

theorem toMat_apply (r c : Nat) (X : BMat) (i : Fin r) (j : Fin c) : toMat r c X i j = b2z (X.get i j) := rfl

/-- `X` is well-formed of shape `r × c` and its entries are those of `M` -/
def Rep (X : BMat) {r c : Nat} (M : M2 r c) : Prop := Shaped X r c ∧ toMat r c X = M

theorem Shaped.rep {X : BMat} {r c : Nat} (h : Shaped X r c) : Rep X (toMat r c X) := ⟨h, rfl⟩

theorem Rep.shaped {X : BMat} {r c : Nat} {M : M2 r c} (h : Rep X M) : Shaped X r c := h.1

theorem Rep.congr {X : BMat} {r c : Nat} {M N : M2 r c} (h : Rep X M) (e : M = N) : Rep X N := e ▸ h

theorem Rep.of_eq {X Y : BMat} {r c : Nat} {M : M2 r c} (h : Rep Y M) (e : X = Y) : Rep X M := e ▸ h

/-- two values with the same representation are equal -/
theorem Rep.ext {X Y : BMat} {r c : Nat} {M N : M2 r c} (hX : Rep X M) (hY : Rep Y N) (e : M = N) :
    X = Y := by
  apply hX.1.ext hY.1
  intro i j hi hj
  have := congrFun (congrFun (hX.2.trans (e.trans hY.2.symm)) ⟨i, hi⟩) ⟨j, hj⟩
  exact b2z_inj this

theorem Rep.zero (r c : Nat) : Rep (BMat.zero r c) (0 : M2 r c) := by
  refine ⟨Shaped.zero r c, ?_⟩
  ext i j
  rw [toMat_apply, get_zero]; rfl

theorem Rep.addM {X Y : BMat} {r c : Nat} {M N : M2 r c} (hX : Rep X M) (hY : Rep Y N) :
    Rep (X.addM Y) (M + N) := by
  refine ⟨hX.1.addM hY.1, ?_⟩
  rw [← hX.2, ← hY.2]
  ext i j
  rw [Matrix.add_apply, toMat_apply, toMat_apply, toMat_apply, hX.1.get_addM hY.1, b2z_xor]

theorem Rep.mul {X Y : BMat} {r k c : Nat} {M : M2 r k} {N : M2 k c} (hX : Rep X M) (hY : Rep Y N) :
    Rep (X.mul Y) (M * N) := by
  refine ⟨hX.1.mul hY.1, ?_⟩
  rw [← hX.2, ← hY.2]
  ext i j
  rw [Matrix.mul_apply, toMat_apply, hX.1.get_mul_S, b2z_and, b2z_xorN]
  have hi : decide ((i : Nat) < r) = true := by simp
  rw [hi, ← Fin.sum_univ_eq_sum_range (fun l => b2z (X.get i l && Y.get l j)) k]
  simp only [b2z_and, toMat_apply]
  simp [b2z]

/-! ### characteristic 2 -/

theorem m2_add_self {r c : Nat} (M : M2 r c) : M + M = 0 := by
  ext i j
  rw [Matrix.add_apply]
  exact CharTwo.add_self_eq_zero _

theorem m2_add_cancel_left {r c : Nat} (M N : M2 r c) : M + (M + N) = N := by
  rw [← add_assoc, m2_add_self, zero_add]

theorem two_zsmul_m2 {r c : Nat} (M : M2 r c) : (2 : ℤ) • M = 0 := by
  rw [two_zsmul]; exact m2_add_self M

/-- an integer multiple of a matrix over `ZMod 2` only depends on the parity -/
theorem zsmul_m2 {r c : Nat} (M : M2 r c) (z : ℤ) : z • M = if z % 2 = 0 then 0 else M := by
  have h : z = 2 * (z / 2) + z % 2 := (Int.mul_ediv_add_emod z 2).symm
  rcases Int.emod_two_eq_zero_or_one z with h0 | h1
  · rw [if_pos h0]; rw [h0, add_zero] at h
    rw [h, mul_comm, mul_zsmul, two_zsmul_m2, smul_zero]
  · rw [if_neg (by omega)]; rw [h1] at h
    rw [h, add_zsmul, mul_comm, mul_zsmul, two_zsmul_m2, smul_zero, zero_add, one_zsmul]

/-- a numeral in the ring of square matrices over `ZMod 2` only depends on the parity -/
theorem ofNat_m2 {r : Nat} (n : ℕ) [n.AtLeastTwo] :
    (OfNat.ofNat n : M2 r r) = if n % 2 = 0 then 0 else 1 := by
  rw [← Nat.cast_ofNat (R := M2 r r), ← nsmul_one, ← natCast_zsmul, zsmul_m2]
  have : ((OfNat.ofNat n : ℕ) : ℤ) % 2 = 0 ↔ n % 2 = 0 := by
    show ((n : ℕ) : ℤ) % 2 = 0 ↔ n % 2 = 0
    omega
  by_cases h : n % 2 = 0
  · rw [if_pos (this.mpr h), if_pos h]
  · rw [if_neg (fun hh => h (this.mp hh)), if_neg h]

/-- decide an identity between sums of products of matrices over `ZMod 2` -/
macro "char2_matrix" : tactic =>
  `(tactic| (
      try simp only [Matrix.mul_add, Matrix.add_mul, Matrix.mul_zero, Matrix.zero_mul, add_zero, zero_add]
      try abel_nf
      try simp [zsmul_m2, ofNat_m2]))

example {m k n : Nat} (a b : M2 m k) (x y : M2 k n) :
    (a + b) * (x + y) + a * y + b * x = a * x + b * y := by
  char2_matrix

/-! ### algebra of values (on operands of matching shapes) -/

theorem Shaped.addM_comm {X Y : BMat} {r c : Nat} (hX : Shaped X r c) (hY : Shaped Y r c) :
    X.addM Y = Y.addM X :=
  (hX.rep.addM hY.rep).ext (hY.rep.addM hX.rep) (add_comm _ _)

theorem Shaped.addM_assoc {X Y Z : BMat} {r c : Nat} (hX : Shaped X r c) (hY : Shaped Y r c)
    (hZ : Shaped Z r c) : (X.addM Y).addM Z = X.addM (Y.addM Z) :=
  ((hX.rep.addM hY.rep).addM hZ.rep).ext (hX.rep.addM (hY.rep.addM hZ.rep)) (add_assoc _ _ _)

theorem Shaped.addM_self {X : BMat} {r c : Nat} (hX : Shaped X r c) : X.addM X = BMat.zero r c :=
  (hX.rep.addM hX.rep).ext (Rep.zero r c) (m2_add_self _)

theorem Shaped.addM_zero {X : BMat} {r c : Nat} (hX : Shaped X r c) : X.addM (BMat.zero r c) = X :=
  (hX.rep.addM (Rep.zero r c)).ext hX.rep (add_zero _)

theorem Shaped.mul_assoc {X Y Z : BMat} {r k l c : Nat} (hX : Shaped X r k) (hY : Shaped Y k l)
    (hZ : Shaped Z l c) : (X.mul Y).mul Z = X.mul (Y.mul Z) :=
  ((hX.rep.mul hY.rep).mul hZ.rep).ext (hX.rep.mul (hY.rep.mul hZ.rep)) (Matrix.mul_assoc _ _ _)

theorem Shaped.addM_mul {X Y Z : BMat} {r k c : Nat} (hX : Shaped X r k) (hY : Shaped Y r k)
    (hZ : Shaped Z k c) : (X.addM Y).mul Z = (X.mul Z).addM (Y.mul Z) :=
  ((hX.rep.addM hY.rep).mul hZ.rep).ext ((hX.rep.mul hZ.rep).addM (hY.rep.mul hZ.rep)) (Matrix.add_mul _ _ _)

theorem Shaped.mul_addM {X Y Z : BMat} {r k c : Nat} (hX : Shaped X r k) (hY : Shaped Y k c)
    (hZ : Shaped Z k c) : X.mul (Y.addM Z) = (X.mul Y).addM (X.mul Z) :=
  (hX.rep.mul (hY.rep.addM hZ.rep)).ext ((hX.rep.mul hY.rep).addM (hX.rep.mul hZ.rep)) (Matrix.mul_add _ _ _)

/-! ### correctness contracts of the routines called by a schedule -/

/-- `F C A B` returns the product -/
def MulOK (F : BMat → BMat → BMat → BMat) : Prop :=
  ∀ {r k c : Nat} {X Y Z : BMat}, Shaped X r c → Shaped Y r k → Shaped Z k c → F X Y Z = Y.mul Z

/-- `S C A` returns the square -/
def SqrOK (S : BMat → BMat → BMat) : Prop :=
  ∀ {r : Nat} {X Y : BMat}, Shaped X r r → Shaped Y r r → S X Y = Y.mul Y

/-- `G C A B` returns `C + A·B` -/
def AddmulOK (G : BMat → BMat → BMat → BMat) : Prop :=
  ∀ {r k c : Nat} {X Y Z : BMat}, Shaped X r c → Shaped Y r k → Shaped Z k c → G X Y Z = X.add (Y.mul Z)

/-- `H C A` returns `C + A·A` -/
def AddsqrOK (H : BMat → BMat → BMat) : Prop :=
  ∀ {r : Nat} {X Y : BMat}, Shaped X r r → Shaped Y r r → H X Y = X.add (Y.mul Y)

theorem MulOK.rep {F : BMat → BMat → BMat → BMat} (hF : MulOK F) {r k c : Nat} {X Y Z : BMat}
    {M : M2 r k} {N : M2 k c} (hX : Shaped X r c) (hY : Rep Y M) (hZ : Rep Z N) : Rep (F X Y Z) (M * N) :=
  (hY.mul hZ).of_eq (hF hX hY.1 hZ.1)

theorem SqrOK.rep {S : BMat → BMat → BMat} (hS : SqrOK S) {r : Nat} {X Y : BMat}
    {M : M2 r r} (hX : Shaped X r r) (hY : Rep Y M) : Rep (S X Y) (M * M) :=
  (hY.mul hY).of_eq (hS hX hY.1)

theorem AddmulOK.rep {G : BMat → BMat → BMat → BMat} (hG : AddmulOK G) {r k c : Nat} {X Y Z : BMat}
    {L : M2 r c} {M : M2 r k} {N : M2 k c} (hX : Rep X L) (hY : Rep Y M) (hZ : Rep Z N) :
    Rep (G X Y Z) (L + M * N) :=
  (hX.addM (hY.mul hZ)).of_eq ((hG hX.1 hY.1 hZ.1).trans (hX.1.addM_eq_add (hY.1.mul hZ.1)).symm)

theorem AddsqrOK.rep {H : BMat → BMat → BMat} (hH : AddsqrOK H) {r : Nat} {X Y : BMat}
    {L : M2 r r} {M : M2 r r} (hX : Rep X L) (hY : Rep Y M) : Rep (H X Y) (L + M * M) :=
  (hX.addM (hY.mul hY)).of_eq ((hH hX.1 hY.1).trans (hX.1.addM_eq_add (hY.1.mul hY.1)).symm)

/-! ### the four operation sequences -/

/-- `_mzd_mul_even`, one level: 7 products (`T` is the `mzd_mul` call for `A12·B21`), 15 additions -/
theorem sched_mul (F T : BMat → BMat → BMat → BMat) (hF : MulOK F) (hT : MulOK T)
    {m k n : Nat} {A11 A12 A21 A22 B11 B12 B21 B22 C11 C12 C21 C22 : BMat}
    (hA11 : Shaped A11 m k) (hA12 : Shaped A12 m k) (hA21 : Shaped A21 m k) (hA22 : Shaped A22 m k)
    (hB11 : Shaped B11 k n) (hB12 : Shaped B12 k n) (hB21 : Shaped B21 k n) (hB22 : Shaped B22 k n)
    (hC11 : Shaped C11 m n) (hC12 : Shaped C12 m n) (hC21 : Shaped C21 m n) (hC22 : Shaped C22 m n) :
    let Wkn := addM B22 B12
    let Wmk := addM A22 A12
    let C21 := F C21 Wmk Wkn
    let Wmk := addM A22 A21
    let Wkn := addM B22 B21
    let C22 := F C22 Wmk Wkn
    let Wkn := addM Wkn B12
    let Wmk := addM Wmk A12
    let C11 := F C11 Wmk Wkn
    let Wmk := addM Wmk A11
    let C12 := F C12 Wmk B12
    let C12 := addM C12 C22
    let Wmk := T (zero A12.nrows B21.ncols) A12 B21
    let C11 := addM C11 Wmk
    let C12 := addM C11 C12
    let C11 := addM C21 C11
    let Wkn := addM Wkn B11
    let C21 := F C21 A21 Wkn
    let C21 := addM C11 C21
    let C22 := addM C22 C11
    let C11 := F C11 A11 B11
    let C11 := addM C11 Wmk
    C11 = addM (A11.mul B11) (A12.mul B21) ∧ C12 = addM (A11.mul B12) (A12.mul B22) ∧
    C21 = addM (A21.mul B11) (A22.mul B21) ∧ C22 = addM (A21.mul B12) (A22.mul B22) := by
  intro Wkn1 Wmk1 C21a Wmk2 Wkn2 C22a Wkn3 Wmk3 C11a Wmk4 C12a C12b W C11b C12c C11c Wkn4 C21b C21c C22b
    C11d C11e
  have a11 := hA11.rep; have a12 := hA12.rep; have a21 := hA21.rep; have a22 := hA22.rep
  have b11 := hB11.rep; have b12 := hB12.rep; have b21 := hB21.rep; have b22 := hB22.rep
  have rWkn1 := b22.addM b12
  have rWmk1 := a22.addM a12
  have rC21a : Rep C21a _ := hF.rep hC21 rWmk1 rWkn1
  have rWmk2 := a22.addM a21
  have rWkn2 := b22.addM b21
  have rC22a : Rep C22a _ := hF.rep hC22 rWmk2 rWkn2
  have rWkn3 : Rep Wkn3 _ := rWkn2.addM b12
  have rWmk3 : Rep Wmk3 _ := rWmk2.addM a12
  have rC11a : Rep C11a _ := hF.rep hC11 rWmk3 rWkn3
  have rWmk4 : Rep Wmk4 _ := rWmk3.addM a11
  have rC12a : Rep C12a _ := hF.rep hC12 rWmk4 b12
  have rC12b : Rep C12b _ := rC12a.addM rC22a
  have rW : Rep W _ := hT.rep (by rw [hA12.nr, hB21.nc]; exact Shaped.zero m n) a12 b21
  have rC11b : Rep C11b _ := rC11a.addM rW
  have rC12c : Rep C12c _ := rC11b.addM rC12b
  have rC11c : Rep C11c _ := rC21a.addM rC11b
  have rWkn4 : Rep Wkn4 _ := rWkn3.addM b11
  have rC21b : Rep C21b _ := hF.rep rC21a.1 a21 rWkn4
  have rC21c : Rep C21c _ := rC11c.addM rC21b
  have rC22b : Rep C22b _ := rC22a.addM rC11c
  have rC11d : Rep C11d _ := hF.rep rC11c.1 a11 b11
  have rC11e : Rep C11e _ := rC11d.addM rW
  refine ⟨rC11e.ext ((a11.mul b11).addM (a12.mul b21)) ?_, rC12c.ext ((a11.mul b12).addM (a12.mul b22)) ?_,
    rC21c.ext ((a21.mul b11).addM (a22.mul b21)) ?_, rC22b.ext ((a21.mul b12).addM (a22.mul b22)) ?_⟩
  all_goals
    generalize toMat m k A11 = a11, toMat m k A12 = a12, toMat m k A21 = a21, toMat m k A22 = a22,
      toMat k n B11 = b11, toMat k n B12 = b12, toMat k n B21 = b21, toMat k n B22 = b22
    char2_matrix

/-- `_mzd_sqr_even`, one level -/
theorem sched_sqr (S : BMat → BMat → BMat) (F T : BMat → BMat → BMat → BMat)
    (hS : SqrOK S) (hF : MulOK F) (hT : MulOK T)
    {m : Nat} {A11 A12 A21 A22 C11 C12 C21 C22 : BMat}
    (hA11 : Shaped A11 m m) (hA12 : Shaped A12 m m) (hA21 : Shaped A21 m m) (hA22 : Shaped A22 m m)
    (hC11 : Shaped C11 m m) (hC12 : Shaped C12 m m) (hC21 : Shaped C21 m m) (hC22 : Shaped C22 m m) :
    let Wkn := addM A22 A12
    let C21 := S C21 Wkn
    let Wkn := addM A22 A21
    let C22 := S C22 Wkn
    let Wkn := addM Wkn A12
    let C11 := S C11 Wkn
    let Wkn := addM Wkn A11
    let C12 := F C12 Wkn A12
    let C12 := addM C12 C22
    let Wmk := T (zero A12.nrows A21.ncols) A12 A21
    let C11 := addM C11 Wmk
    let C12 := addM C11 C12
    let C11 := addM C21 C11
    let C21 := F C21 A21 Wkn
    let C21 := addM C11 C21
    let C22 := addM C22 C11
    let C11 := S C11 A11
    let C11 := addM C11 Wmk
    C11 = addM (A11.mul A11) (A12.mul A21) ∧ C12 = addM (A11.mul A12) (A12.mul A22) ∧
    C21 = addM (A21.mul A11) (A22.mul A21) ∧ C22 = addM (A21.mul A12) (A22.mul A22) := by
  intro Wkn1 C21a Wkn2 C22a Wkn3 C11a Wkn4 C12a C12b W C11b C12c C11c C21b C21c C22b C11d C11e
  have a11 := hA11.rep; have a12 := hA12.rep; have a21 := hA21.rep; have a22 := hA22.rep
  have rWkn1 := a22.addM a12
  have rC21a : Rep C21a _ := hS.rep hC21 rWkn1
  have rWkn2 := a22.addM a21
  have rC22a : Rep C22a _ := hS.rep hC22 rWkn2
  have rWkn3 : Rep Wkn3 _ := rWkn2.addM a12
  have rC11a : Rep C11a _ := hS.rep hC11 rWkn3
  have rWkn4 : Rep Wkn4 _ := rWkn3.addM a11
  have rC12a : Rep C12a _ := hF.rep hC12 rWkn4 a12
  have rC12b : Rep C12b _ := rC12a.addM rC22a
  have rW : Rep W _ := hT.rep (by rw [hA12.nr, hA21.nc]; exact Shaped.zero m m) a12 a21
  have rC11b : Rep C11b _ := rC11a.addM rW
  have rC12c : Rep C12c _ := rC11b.addM rC12b
  have rC11c : Rep C11c _ := rC21a.addM rC11b
  have rC21b : Rep C21b _ := hF.rep rC21a.1 a21 rWkn4
  have rC21c : Rep C21c _ := rC11c.addM rC21b
  have rC22b : Rep C22b _ := rC22a.addM rC11c
  have rC11d : Rep C11d _ := hS.rep rC11c.1 a11
  have rC11e : Rep C11e _ := rC11d.addM rW
  refine ⟨rC11e.ext ((a11.mul a11).addM (a12.mul a21)) ?_, rC12c.ext ((a11.mul a12).addM (a12.mul a22)) ?_,
    rC21c.ext ((a21.mul a11).addM (a22.mul a21)) ?_, rC22b.ext ((a21.mul a12).addM (a22.mul a22)) ?_⟩
  all_goals
    generalize toMat m m A11 = a11, toMat m m A12 = a12, toMat m m A21 = a21, toMat m m A22 = a22
    char2_matrix

/-- `_mzd_addmul_even`, one level (`F` multiplies, `G` multiplies and accumulates) -/
theorem sched_addmul (F G : BMat → BMat → BMat → BMat) (hF : MulOK F) (hG : AddmulOK G)
    {m k n : Nat} {A11 A12 A21 A22 B11 B12 B21 B22 C11 C12 C21 C22 : BMat}
    (hA11 : Shaped A11 m k) (hA12 : Shaped A12 m k) (hA21 : Shaped A21 m k) (hA22 : Shaped A22 m k)
    (hB11 : Shaped B11 k n) (hB12 : Shaped B12 k n) (hB21 : Shaped B21 k n) (hB22 : Shaped B22 k n)
    (hC11 : Shaped C11 m n) (hC12 : Shaped C12 m n) (hC21 : Shaped C21 m n) (hC22 : Shaped C22 m n) :
    let S := addM A22 A21
    let T := addM B22 B21
    let U := F (zero m n) S T
    let D22 := addM U C22
    let D12 := addM U C12
    let U := F U A12 B21
    let D11 := addM U C11
    let D11 := G D11 A11 B11
    let S := addM S A12
    let T := addM T B12
    let U := G U S T
    let D12 := addM D12 U
    let S := addM A11 S
    let D12 := G D12 S B12
    let T := addM B11 T
    let D21 := G C21 A21 T
    let S := addM A22 A12
    let T := addM B22 B12
    let U := G U S T
    let D21 := addM D21 U
    let D22 := addM D22 U
    D11 = addM C11 (addM (A11.mul B11) (A12.mul B21)) ∧ D12 = addM C12 (addM (A11.mul B12) (A12.mul B22)) ∧
    D21 = addM C21 (addM (A21.mul B11) (A22.mul B21)) ∧ D22 = addM C22 (addM (A21.mul B12) (A22.mul B22)) := by
  intro S1 T1 U1 D22a D12a U2 D11a D11b S2 T2 U3 D12b S3 D12c T3 D21a S4 T4 U4 D21b D22b
  have a11 := hA11.rep; have a12 := hA12.rep; have a21 := hA21.rep; have a22 := hA22.rep
  have b11 := hB11.rep; have b12 := hB12.rep; have b21 := hB21.rep; have b22 := hB22.rep
  have c11 := hC11.rep; have c12 := hC12.rep; have c21 := hC21.rep; have c22 := hC22.rep
  have rS1 := a22.addM a21
  have rT1 := b22.addM b21
  have rU1 : Rep U1 _ := hF.rep (Shaped.zero m n) rS1 rT1
  have rD22a : Rep D22a _ := rU1.addM c22
  have rD12a : Rep D12a _ := rU1.addM c12
  have rU2 : Rep U2 _ := hF.rep rU1.1 a12 b21
  have rD11a : Rep D11a _ := rU2.addM c11
  have rD11b : Rep D11b _ := hG.rep rD11a a11 b11
  have rS2 : Rep S2 _ := rS1.addM a12
  have rT2 : Rep T2 _ := rT1.addM b12
  have rU3 : Rep U3 _ := hG.rep rU2 rS2 rT2
  have rD12b : Rep D12b _ := rD12a.addM rU3
  have rS3 : Rep S3 _ := a11.addM rS2
  have rD12c : Rep D12c _ := hG.rep rD12b rS3 b12
  have rT3 : Rep T3 _ := b11.addM rT2
  have rD21a : Rep D21a _ := hG.rep c21 a21 rT3
  have rS4 : Rep S4 _ := a22.addM a12
  have rT4 : Rep T4 _ := b22.addM b12
  have rU4 : Rep U4 _ := hG.rep rU3 rS4 rT4
  have rD21b : Rep D21b _ := rD21a.addM rU4
  have rD22b : Rep D22b _ := rD22a.addM rU4
  refine ⟨rD11b.ext (c11.addM ((a11.mul b11).addM (a12.mul b21))) ?_,
    rD12c.ext (c12.addM ((a11.mul b12).addM (a12.mul b22))) ?_,
    rD21b.ext (c21.addM ((a21.mul b11).addM (a22.mul b21))) ?_,
    rD22b.ext (c22.addM ((a21.mul b12).addM (a22.mul b22))) ?_⟩
  all_goals
    generalize toMat m k A11 = a11, toMat m k A12 = a12, toMat m k A21 = a21, toMat m k A22 = a22,
      toMat k n B11 = b11, toMat k n B12 = b12, toMat k n B21 = b21, toMat k n B22 = b22,
      toMat m n C11 = c11, toMat m n C12 = c12, toMat m n C21 = c21, toMat m n C22 = c22
    char2_matrix

/-- `_mzd_addsqr_even`, one level -/
theorem sched_addsqr (S : BMat → BMat → BMat) (F : BMat → BMat → BMat → BMat) (H : BMat → BMat → BMat)
    (G : BMat → BMat → BMat → BMat) (hS : SqrOK S) (hF : MulOK F) (hH : AddsqrOK H) (hG : AddmulOK G)
    {m : Nat} {A11 A12 A21 A22 C11 C12 C21 C22 : BMat}
    (hA11 : Shaped A11 m m) (hA12 : Shaped A12 m m) (hA21 : Shaped A21 m m) (hA22 : Shaped A22 m m)
    (hC11 : Shaped C11 m m) (hC12 : Shaped C12 m m) (hC21 : Shaped C21 m m) (hC22 : Shaped C22 m m) :
    let S1 := addM A22 A21
    let U := S (zero m m) S1
    let D22 := addM U C22
    let D12 := addM U C12
    let U := F U A12 A21
    let D11 := addM U C11
    let D11 := H D11 A11
    let S1 := addM S1 A12
    let U := H U S1
    let D12 := addM D12 U
    let S1 := addM A11 S1
    let D12 := G D12 S1 A12
    let D21 := G C21 A21 S1
    let S1 := addM A22 A12
    let U := H U S1
    let D21 := addM D21 U
    let D22 := addM D22 U
    D11 = addM C11 (addM (A11.mul A11) (A12.mul A21)) ∧ D12 = addM C12 (addM (A11.mul A12) (A12.mul A22)) ∧
    D21 = addM C21 (addM (A21.mul A11) (A22.mul A21)) ∧ D22 = addM C22 (addM (A21.mul A12) (A22.mul A22)) := by
  intro S1 U1 D22a D12a U2 D11a D11b S2 U3 D12b S3 D12c D21a S4 U4 D21b D22b
  have a11 := hA11.rep; have a12 := hA12.rep; have a21 := hA21.rep; have a22 := hA22.rep
  have c11 := hC11.rep; have c12 := hC12.rep; have c21 := hC21.rep; have c22 := hC22.rep
  have rS1 := a22.addM a21
  have rU1 : Rep U1 _ := hS.rep (Shaped.zero m m) rS1
  have rD22a : Rep D22a _ := rU1.addM c22
  have rD12a : Rep D12a _ := rU1.addM c12
  have rU2 : Rep U2 _ := hF.rep rU1.1 a12 a21
  have rD11a : Rep D11a _ := rU2.addM c11
  have rD11b : Rep D11b _ := hH.rep rD11a a11
  have rS2 : Rep S2 _ := rS1.addM a12
  have rU3 : Rep U3 _ := hH.rep rU2 rS2
  have rD12b : Rep D12b _ := rD12a.addM rU3
  have rS3 : Rep S3 _ := a11.addM rS2
  have rD12c : Rep D12c _ := hG.rep rD12b rS3 a12
  have rD21a : Rep D21a _ := hG.rep c21 a21 rS3
  have rS4 : Rep S4 _ := a22.addM a12
  have rU4 : Rep U4 _ := hH.rep rU3 rS4
  have rD21b : Rep D21b _ := rD21a.addM rU4
  have rD22b : Rep D22b _ := rD22a.addM rU4
  refine ⟨rD11b.ext (c11.addM ((a11.mul a11).addM (a12.mul a21))) ?_,
    rD12c.ext (c12.addM ((a11.mul a12).addM (a12.mul a22))) ?_,
    rD21b.ext (c21.addM ((a21.mul a11).addM (a22.mul a21))) ?_,
    rD22b.ext (c22.addM ((a21.mul a12).addM (a22.mul a22))) ?_⟩
  all_goals
    generalize toMat m m A11 = a11, toMat m m A12 = a12, toMat m m A21 = a21, toMat m m A22 = a22,
      toMat m m C11 = c11, toMat m m C12 = c12, toMat m m C21 = c21, toMat m m C22 = c22
    char2_matrix

end BMat
end M4ri
