/-
  C03: the Four-Russians PLE base case `_mzd_ple_russian` (exact value-level mirror `M4ri/PleRussian.lean`, namespace
  `M4ri.BMat.PR`, validated bit for bit against ple_russian.c) is correct for every input.

  MAIN RESULT  `pleRussian_eq_pleNaive`:  for every well-formed `A`, arbitrary contents of `P` (length `nrows`) and `Q`
  (length `ncols`), every `k ≤ 9` (`k = 0`: the automatic choice; the C code asserts `7·k ≤ 64`) and every cache size `l2`,
      `pleRussian A P Q k l2 = pleNaive A P Q`
  — the Four-Russians routine leaves exactly the matrix, the permutations and the rank that `_mzd_ple_naive` leaves.
  Everything proved about the naive routine in `M4riProofs/PleNaive.lean` transfers:
      `pleRussian_good`     PLEGood (IsPLE certificate + `P` fixes the rows from the rank on) and well-formed storage
      `goodBase_russian`    `GoodBase` of `M4riProofs/TrsmRec.lean`
      `pleTop_good`, `pleTop_isPLE`, `pleTop_rank`, `pleTop_rank_profile`
                            the block-recursive `_mzd_ple` over the REAL base case (`PR.pleTop`, = `mzd_ple` of ple.c with the
                            configured cache sizes) returns a valid PLE decomposition for every input, `r = rank A`, and
                            `Q[0..r)` is the column rank profile
      `pleRussian_rank_profile`, `checkPLE_pleRussian`, `pleRussian_indep`, `pluqRussian_eq`

  Structure of the proof (files `M4riProofs/PR/*.lean`):
    Base    `part`, row-level elimination `elimRow`/`lazySeq`/`elimSeq`, the reachability relation `Reach` of the naive loop,
            the closed form `CF` of a naive run
    Naive   `Reach` preserves `PN.Inv`, is what `pleNaive.go` computes (`Reach.go`), `CF.step`, `search_eq_some`
    Loops   what each row loop of the model does to each row (`lazyElim_spec`, `finishSub_spec`, `a10_spec`, `a11_spec`,
            `processRowsPle_spec`), and `elimSeq_high`: the columns right of a window after sequential elimination
    Tables  the Gray-code tables: `lookupM_spec` (multiplication tables = XOR of the selected pivot rows),
            `lookupE_spec` (elimination tables with the `B` update = sequential elimination)
    Sub     `_mzd_ple_submatrix`: the lazily eliminated strip against the naive state (`scanRows_spec`, `subStep_spec`,
            `submatrix_spec`)
    Strip   one pass of the main loop is a naive run: `strip_matrix`, `stripOK`
    Final   main loop, the two-phase `L` compression, `pleRussian_eq_pleNaive_of`
    Pluq    (imports this file) `mzd_apply_p_right_trans_tri` turns PLE storage into PLUQ storage (`isPLUQ_of_isPLE_tri`), hence
            `_mzd_pluq_russian` returns a PLUQ certificate with `r = rank A`: `pluqRussian_isPLUQ`, `checkPLUQ_pluqRussian`,
            `pluqRussian_rank`
-/
import M4riProofs.PR.Strip
namespace M4ri
namespace BMat
namespace PR
open Rec PN

/-- **`_mzd_ple_russian` computes exactly what `_mzd_ple_naive` computes** -/
theorem pleRussian_eq_pleNaive {A : BMat} (hA : A.WF) {P Q : Array Nat} (hP : P.size = A.nrows) (hQ : Q.size = A.ncols)
    (k l2 : Nat) (hk : k ≤ 9) : pleRussian A P Q k l2 = pleNaive A P Q :=
  pleRussian_eq_pleNaive_of stripOK hA hP hQ k l2 hk

/-- **C03, `_mzd_ple_russian`**: for every well-formed `A`, whatever `P`, `Q` contain on entry, every `k ≤ 9` and every
    cache size, the routine returns a PLE certificate of `A` (what `checkPLE` tests) whose `P` fixes the rows from the rank
    on, and the storage it leaves is well formed -/
theorem pleRussian_good {A : BMat} (hA : A.WF) {P Q : Array Nat} (hP : P.size = A.nrows) (hQ : Q.size = A.ncols)
    (k l2 : Nat) (hk : k ≤ 9) :
    PLEGood A (pleRussian A P Q k l2).1 (pleRussian A P Q k l2).2.1 (pleRussian A P Q k l2).2.2.1
      (pleRussian A P Q k l2).2.2.2 ∧ (pleRussian A P Q k l2).1.WF := by
  rw [pleRussian_eq_pleNaive hA hP hQ k l2 hk]
  exact pleNaive_good hA hP hQ

theorem pleRussian_isPLE {A : BMat} (hA : A.WF) {P Q : Array Nat} (hP : P.size = A.nrows) (hQ : Q.size = A.ncols)
    (k l2 : Nat) (hk : k ≤ 9) :
    IsPLE A (pleRussian A P Q k l2).1 (pleRussian A P Q k l2).2.1 (pleRussian A P Q k l2).2.2.1
      (pleRussian A P Q k l2).2.2.2 := (pleRussian_good hA hP hQ k l2 hk).1.ple

/-- the executable checker accepts the output -/
theorem checkPLE_pleRussian {A : BMat} (hA : A.WF) {P Q : Array Nat} (hP : P.size = A.nrows) (hQ : Q.size = A.ncols)
    (k l2 : Nat) (hk : k ≤ 9) :
    checkPLE A (pleRussian A P Q k l2).1 (pleRussian A P Q k l2).2.1 (pleRussian A P Q k l2).2.2.1
      (pleRussian A P Q k l2).2.2.2 = true := checkPLE_complete (pleRussian_isPLE hA hP hQ k l2 hk)

/-- the returned `r` is the rank and `Q[0..r)` the column rank profile -/
theorem pleRussian_rank_profile {A : BMat} (hA : A.WF) {P Q : Array Nat} (hP : P.size = A.nrows)
    (hQ : Q.size = A.ncols) (k l2 : Nat) (hk : k ≤ 9) :
    (pleRussian A P Q k l2).2.2.2 = A.rank ∧
    (List.range (pleRussian A P Q k l2).2.2.2).map (fun i => (pleRussian A P Q k l2).2.2.1.getD i 0) = A.rankProfile := by
  rw [pleRussian_eq_pleNaive hA hP hQ k l2 hk]
  exact pleNaive_rank_profile hA hP hQ

/-- the result depends neither on the contents of `P`, `Q` on entry nor on `k` or the cache size -/
theorem pleRussian_indep {A : BMat} (hA : A.WF) {P1 Q1 P2 Q2 : Array Nat}
    (hP1 : P1.size = A.nrows) (hQ1 : Q1.size = A.ncols) (hP2 : P2.size = A.nrows) (hQ2 : Q2.size = A.ncols)
    (k1 k2 l2 l2' : Nat) (hk1 : k1 ≤ 9) (hk2 : k2 ≤ 9) :
    pleRussian A P1 Q1 k1 l2 = pleRussian A P2 Q2 k2 l2' := by
  rw [pleRussian_eq_pleNaive hA hP1 hQ1 k1 l2 hk1, pleRussian_eq_pleNaive hA hP2 hQ2 k2 l2' hk2]
  exact pleNaive_indep hA hP1 hQ1 hP2 hQ2

/-- `GoodBase` (the hypothesis of `pleRec_spec`) for the real base case -/
theorem goodBase_russian (p q : BMat → Array Nat) (hp : ∀ A, (p A).size = A.nrows) (hq : ∀ A, (q A).size = A.ncols)
    (k l2 : Nat) (hk : k ≤ 9) : GoodBase (fun A => pleRussian A (p A) (q A) k l2) :=
  fun A hA => (pleRussian_good hA (hp A) (hq A) k l2 hk).1

/-- **C03, `mzd_ple` over the real base case**: the block-recursive `_mzd_ple` of ple.c with `_mzd_ple_russian(Abar, P, Q, 0)`
    as its base case returns, for every well-formed input and all cache sizes, a PLE certificate whose `P` fixes the rows
    from the rank on -/
theorem pleTop_good (L1 L2 L3 : Nat) {A : BMat} (hA : A.WF) : GoodOut A (pleTop L1 L2 L3 A) :=
  pleRec_spec (goodBase_russian _ _ (fun _ => by simp) (fun _ => by simp) 0 L2 (by omega)) _ _ _ _ hA

theorem pleTop_isPLE (L1 L2 L3 : Nat) {A : BMat} (hA : A.WF) :
    IsPLE A (pleTop L1 L2 L3 A).1 (pleTop L1 L2 L3 A).2.1 (pleTop L1 L2 L3 A).2.2.1 (pleTop L1 L2 L3 A).2.2.2 :=
  (pleTop_good L1 L2 L3 hA).ple

theorem pleTop_rank (L1 L2 L3 : Nat) {A : BMat} (hA : A.WF) : RankCert A (pleTop L1 L2 L3 A).2.2.2 :=
  (pleTop_isPLE L1 L2 L3 hA).rankCert hA

/-- `mzd_ple` returns the rank, and `Q[0..r)` is the column rank profile -/
theorem pleTop_rank_profile (L1 L2 L3 : Nat) {A : BMat} (hA : A.WF) :
    (pleTop L1 L2 L3 A).2.2.2 = A.rank ∧
    (List.range (pleTop L1 L2 L3 A).2.2.2).map (fun i => (pleTop L1 L2 L3 A).2.2.1.getD i 0) = A.rankProfile :=
  GOK.ple_rank_profile hA (checkPLE_complete (pleTop_isPLE L1 L2 L3 hA))

/-- `_mzd_pluq_russian` is `_mzd_ple_naive` followed by `mzd_apply_p_right_trans_tri` -/
theorem pluqRussian_eq {A : BMat} (hA : A.WF) {P Q : Array Nat} (hP : P.size = A.nrows) (hQ : Q.size = A.ncols)
    (k l2 : Nat) (hk : k ≤ 9) :
    pluqRussian A P Q k l2 = ((pleNaive A P Q).1.applyPRightTransTri (pleNaive A P Q).2.2.1, (pleNaive A P Q).2.1,
      (pleNaive A P Q).2.2.1, (pleNaive A P Q).2.2.2) := by
  unfold pluqRussian
  simp only []
  rw [pleRussian_eq_pleNaive hA hP hQ k l2 hk]

/-- non-vacuity: a 3 × 4 matrix of rank 2 with pivot columns 1, 3, junk in `P`, `Q` -/
example : (⟨3, 4, #[10, 2, 8]⟩ : BMat).WF ∧
    pleRussian ⟨3, 4, #[10, 2, 8]⟩ #[7, 7, 7] #[9, 9, 9, 9] 3 = (⟨3, 4, #[9, 3, 2]⟩, #[0, 1, 2], #[1, 3, 2, 3], 2) := by
  refine ⟨⟨rfl, fun i => ?_⟩, by decide +kernel⟩
  by_cases h : i < 3
  · have : i = 0 ∨ i = 1 ∨ i = 2 := by omega
    rcases this with rfl | rfl | rfl <;> decide
  · rw [row_of_ge _ _ (by simp; omega)]; decide

end PR
end BMat
end M4ri
