/-
  PleRussian proofs, T4: row-level specifications of the row loops of the model `M4ri/PleRussian.lean`
  (`swapRowsPart`, `a11`, `processRowsPle`, `lazyElim`, `finishSub`, `a10`) and the pure `Nat` lemmas
  `elimSeq_low`, `elimSeq_high`.  Private helpers live in `M4ri.BMat.PR.LP`.
-/
import M4riProofs.PR.Base
import M4riProofs.MulR
namespace M4ri
namespace BMat
namespace PR
open Rec PN MulR

namespace LP

/-! ### small helpers -/

theorem xor_part_lt {v e lo hi n : Nat} (hv : v < 2 ^ n) (h : hi ≤ n) : v ^^^ part e lo hi < 2 ^ n :=
  Nat.xor_lt_two_pow hv (part_lt_of_le _ _ _ _ h)

/-- a generic row loop: step `i` rewrites row `i` with `g N i`, where `g N i` only depends on row `i` and on the
    rows outside the list -/
theorem fold_rows (f : BMat → Nat → BMat) (g : BMat → Nat → Nat) (nr nc : Nat) :
    ∀ (l : List Nat),
    (∀ N i, i ∈ l → N.WF → N.nrows = nr → N.ncols = nc →
      (f N i).WF ∧ (f N i).nrows = nr ∧ (f N i).ncols = nc ∧
      ∀ x, (f N i).row x = if x = i then g N i else N.row x) →
    l.Nodup →
    ∀ (M : BMat), M.WF → M.nrows = nr → M.ncols = nc →
    (∀ N i, i ∈ l → N.WF → N.nrows = nr → N.ncols = nc → (∀ x, x ∉ l → N.row x = M.row x) →
      N.row i = M.row i → g N i = g M i) →
    (l.foldl f M).WF ∧ (l.foldl f M).nrows = nr ∧ (l.foldl f M).ncols = nc ∧
    ∀ x, (l.foldl f M).row x = if x ∈ l then g M x else M.row x := by
  intro l
  induction l with
  | nil =>
    intro _ _ M hM hnr hnc _
    exact ⟨hM, hnr, hnc, fun x => by simp⟩
  | cons a l ih =>
    intro hf hnd M hM hnr hnc hg
    rw [List.foldl_cons]
    obtain ⟨hna, hnd'⟩ := List.nodup_cons.mp hnd
    obtain ⟨w1, w2, w3, w4⟩ := hf M a (by simp) hM hnr hnc
    have hg' : ∀ N i, i ∈ l → N.WF → N.nrows = nr → N.ncols = nc → (∀ x, x ∉ l → N.row x = (f M a).row x) →
        N.row i = (f M a).row i → g N i = g (f M a) i := by
      intro N i hi hN hNr hNc hout hrow
      have hia : i ≠ a := fun e => hna (e ▸ hi)
      have e1 : g N i = g M i := by
        apply hg N i (by simp [hi]) hN hNr hNc
        · intro x hx
          have hxl : x ∉ l := fun e => hx (by simp [e])
          have hxa : x ≠ a := fun e => hx (by simp [e])
          rw [hout x hxl, w4, if_neg hxa]
        · rw [hrow, w4, if_neg hia]
      have e2 : g (f M a) i = g M i := by
        apply hg (f M a) i (by simp [hi]) w1 w2 w3
        · intro x hx
          have hxa : x ≠ a := fun e => hx (by simp [e])
          rw [w4, if_neg hxa]
        · rw [w4, if_neg hia]
      rw [e1, e2]
    obtain ⟨r1, r2, r3, r4⟩ := ih (fun N i hi => hf N i (by simp [hi])) hnd' (f M a) w1 w2 w3 hg'
    refine ⟨r1, r2, r3, fun x => ?_⟩
    rw [r4]
    by_cases hxl : x ∈ l
    · have hxa : x ≠ a := fun e => hna (e ▸ hxl)
      have e2 : g (f M a) x = g M x := by
        apply hg (f M a) x (by simp [hxl]) w1 w2 w3
        · intro y hy
          have hya : y ≠ a := fun e => hy (by simp [e])
          rw [w4, if_neg hya]
        · rw [w4, if_neg hxa]
      rw [if_pos hxl, if_pos (by simp [hxl]), e2]
    · rw [if_neg hxl, w4]
      by_cases hxa : x = a
      · rw [if_pos hxa, if_pos (by simp [hxa]), hxa]
      · rw [if_neg hxa, if_neg (by simp [hxa, hxl])]

theorem setRow_spec {M : BMat} (hM : M.WF) (i v : Nat) (hi : i < M.nrows) (hv : v < 2 ^ M.ncols) :
    (M.setRow i v).WF ∧ (M.setRow i v).nrows = M.nrows ∧ (M.setRow i v).ncols = M.ncols ∧
    ∀ x, (M.setRow i v).row x = if x = i then v else M.row x := by
  refine ⟨WF_setRow hM i v hv, rfl, rfl, fun x => ?_⟩
  rw [row_setRow, hM.1]
  by_cases h : x = i
  · simp [h, hi]
  · simp [h]

end LP

/-! ### `swapRowsPart` -/

/-- `swapRowsPart`: rows `a`, `b` exchange their columns `[lo, hi)` -/
theorem swapRowsPart_spec {M : BMat} (hM : M.WF) (a b lo hi : Nat) (ha : a < M.nrows) (hb : b < M.nrows)
    (hhi : hi ≤ M.ncols) :
    (swapRowsPart M a b lo hi).WF ∧ (swapRowsPart M a b lo hi).nrows = M.nrows ∧
    (swapRowsPart M a b lo hi).ncols = M.ncols ∧
    ∀ x, (swapRowsPart M a b lo hi).row x =
      if x = a then M.row a ^^^ part (M.row a ^^^ M.row b) lo hi
      else if x = b then M.row b ^^^ part (M.row a ^^^ M.row b) lo hi else M.row x := by
  unfold swapRowsPart
  by_cases hab : a = b
  · subst hab
    rw [if_pos rfl]
    refine ⟨hM, rfl, rfl, fun x => ?_⟩
    rw [Nat.xor_self, part_zero, Nat.xor_zero]
    split
    · subst_vars; rfl
    · rfl
  · rw [if_neg hab]
    simp only
    obtain ⟨w1, w2, w3, w4⟩ := LP.setRow_spec hM a (M.row a ^^^ part (M.row a ^^^ M.row b) lo hi) ha
      (LP.xor_part_lt (hM.2 a) hhi)
    obtain ⟨r1, r2, r3, r4⟩ := LP.setRow_spec w1 b (M.row b ^^^ part (M.row a ^^^ M.row b) lo hi)
      (by rw [w2]; exact hb) (by rw [w3]; exact LP.xor_part_lt (hM.2 b) hhi)
    refine ⟨r1, by rw [r2, w2], by rw [r3, w3], fun x => ?_⟩
    rw [r4, w4]
    by_cases hxb : x = b
    · have : ¬ x = a := fun e => hab (e.symm.trans hxb)
      rw [if_pos hxb, if_neg this, if_pos hxb]
    · rw [if_neg hxb, if_neg hxb]

/-- entry level: inside `[lo, hi)` the rows are exchanged, outside nothing moves -/
theorem swapRowsPart_get {M : BMat} (hM : M.WF) (a b lo hi : Nat) (ha : a < M.nrows) (hb : b < M.nrows)
    (hhi : hi ≤ M.ncols) (x j : Nat) :
    (swapRowsPart M a b lo hi).get x j = if lo ≤ j ∧ j < hi then M.get (swapIdx a b x) j else M.get x j := by
  unfold get
  rw [(swapRowsPart_spec hM a b lo hi ha hb hhi).2.2.2 x]
  unfold swapIdx
  by_cases hj : lo ≤ j ∧ j < hi
  · rw [if_pos hj]
    by_cases hxa : x = a
    · rw [if_pos hxa, if_pos hxa, Nat.testBit_xor, testBit_part, Nat.testBit_xor]
      simp [hj]
    · rw [if_neg hxa, if_neg hxa]
      by_cases hxb : x = b
      · rw [if_pos hxb, if_pos hxb, Nat.testBit_xor, testBit_part, Nat.testBit_xor]
        simp only [hj, and_self, decide_true, Bool.true_and]
        cases (M.row a).testBit j <;> cases (M.row b).testBit j <;> rfl
      · rw [if_neg hxb, if_neg hxb]
  · rw [if_neg hj]
    by_cases hxa : x = a
    · rw [if_pos hxa, Nat.testBit_xor, testBit_part, hxa]
      simp [hj]
    · rw [if_neg hxa]
      by_cases hxb : x = b
      · rw [if_pos hxb, Nat.testBit_xor, testBit_part, hxb]
        simp [hj]
      · rw [if_neg hxb]

/-! ### `a11`, `processRowsPle` -/

/-- `_mzd_ple_a11_N`: one XOR per row in the range -/
theorem a11_spec {M : BMat} (hM : M.WF) (startRow stopRow startCol block kk : Nat) (tabs : List Tab)
    (hstop : stopRow ≤ M.nrows) :
    (a11 M startRow stopRow startCol block kk tabs).WF ∧
    (a11 M startRow stopRow startCol block kk tabs).nrows = M.nrows ∧
    (a11 M startRow stopRow startCol block kk tabs).ncols = M.ncols ∧
    ∀ x, (a11 M startRow stopRow startCol block kk tabs).row x =
      if startRow ≤ x ∧ x < stopRow ∧ block < width M then
        M.row x ^^^ part (lookupM tabs (bitsAt (M.row x) startCol kk)) (64 * block) M.ncols
      else M.row x := by
  unfold a11
  by_cases hb : width M ≤ block
  · rw [if_pos hb]
    refine ⟨hM, rfl, rfl, fun x => ?_⟩
    rw [if_neg (by omega)]
  · rw [if_neg hb]
    have h := LP.fold_rows
      (fun N i => N.setRow i (N.row i ^^^ part (lookupM tabs (bitsAt (N.row i) startCol kk)) (64 * block) N.ncols))
      (fun N i => N.row i ^^^ part (lookupM tabs (bitsAt (N.row i) startCol kk)) (64 * block) N.ncols)
      M.nrows M.ncols (List.range' startRow (stopRow - startRow))
      (by
        intro N i hi hN hNr hNc
        have hi' := List.mem_range'_1.mp hi
        have := LP.setRow_spec hN i
          (N.row i ^^^ part (lookupM tabs (bitsAt (N.row i) startCol kk)) (64 * block) N.ncols)
          (by omega) (LP.xor_part_lt (hN.2 i) (Nat.le_refl _))
        exact ⟨this.1, this.2.1.trans hNr, this.2.2.1.trans hNc, this.2.2.2⟩)
      List.nodup_range' M hM rfl rfl
      (by
        intro N i _ _ _ hNc _ hrow
        simp only [hrow, hNc])
    obtain ⟨r1, r2, r3, r4⟩ := h
    refine ⟨r1, r2, r3, fun x => ?_⟩
    rw [r4]
    by_cases hx : startRow ≤ x ∧ x < stopRow
    · rw [if_pos (List.mem_range'_1.mpr (by omega)), if_pos (by omega)]
    · rw [if_neg (fun e => hx (by have := List.mem_range'_1.mp e; omega)), if_neg (by omega)]

/-- `_mzd_process_rows_ple_N`: one XOR per row in the range -/
theorem processRowsPle_spec {M : BMat} (hM : M.WF) (startRow stopRow startCol kk : Nat) (tabs : List Tab)
    (hstop : stopRow ≤ M.nrows) :
    (processRowsPle M startRow stopRow startCol kk tabs).WF ∧
    (processRowsPle M startRow stopRow startCol kk tabs).nrows = M.nrows ∧
    (processRowsPle M startRow stopRow startCol kk tabs).ncols = M.ncols ∧
    ∀ x, (processRowsPle M startRow stopRow startCol kk tabs).row x =
      if startRow ≤ x ∧ x < stopRow then
        M.row x ^^^ part (lookupE tabs (bitsAt (M.row x) startCol kk) 0) (64 * (startCol / 64)) M.ncols
      else M.row x := by
  unfold processRowsPle
  have h := LP.fold_rows
    (fun N i => N.setRow i
      (N.row i ^^^ part (lookupE tabs (bitsAt (N.row i) startCol kk) 0) (64 * (startCol / 64)) N.ncols))
    (fun N i => N.row i ^^^ part (lookupE tabs (bitsAt (N.row i) startCol kk) 0) (64 * (startCol / 64)) N.ncols)
    M.nrows M.ncols (List.range' startRow (stopRow - startRow))
    (by
      intro N i hi hN hNr hNc
      have hi' := List.mem_range'_1.mp hi
      have := LP.setRow_spec hN i
        (N.row i ^^^ part (lookupE tabs (bitsAt (N.row i) startCol kk) 0) (64 * (startCol / 64)) N.ncols)
        (by omega) (LP.xor_part_lt (hN.2 i) (Nat.le_refl _))
      exact ⟨this.1, this.2.1.trans hNr, this.2.2.1.trans hNc, this.2.2.2⟩)
    List.nodup_range' M hM rfl rfl
    (by
      intro N i _ _ _ hNc _ hrow
      simp only [hrow, hNc])
  obtain ⟨r1, r2, r3, r4⟩ := h
  refine ⟨r1, r2, r3, fun x => ?_⟩
  rw [r4]
  by_cases hx : startRow ≤ x ∧ x < stopRow
  · rw [if_pos (List.mem_range'_1.mpr (by omega)), if_pos hx]
  · rw [if_neg (fun e => hx (by have := List.mem_range'_1.mp e; omega)), if_neg hx]

/-! ### `lazyElim` -/

namespace LP

theorem addRowWin_spec {M : BMat} (hM : M.WF) (dst src off wc : Nat) (hwc : wc ≤ M.ncols) (hd : dst < M.nrows) :
    (addRowWin M dst src off wc).WF ∧ (addRowWin M dst src off wc).nrows = M.nrows ∧
    (addRowWin M dst src off wc).ncols = M.ncols ∧
    ∀ x, (addRowWin M dst src off wc).row x =
      if x = dst then M.row dst ^^^ part (M.row src) off wc else M.row x :=
  setRow_spec hM dst _ hd (xor_part_lt (hM.2 dst) hwc)

/-- one conditional elimination step on row `r` -/
theorem condElim_spec {M : BMat} (hM : M.WF) (p : Prop) [Decidable p] (r src col wc : Nat) (hwc : wc ≤ M.ncols)
    (hr : r < M.nrows) :
    (if p ∧ M.get r col = true then addRowWin M r src (col + 1) wc else M).WF ∧
    (if p ∧ M.get r col = true then addRowWin M r src (col + 1) wc else M).nrows = M.nrows ∧
    (if p ∧ M.get r col = true then addRowWin M r src (col + 1) wc else M).ncols = M.ncols ∧
    ∀ x, (if p ∧ M.get r col = true then addRowWin M r src (col + 1) wc else M).row x =
      if x = r then (if decide p = true then elimRow (M.row src) col wc (M.row r) else M.row r) else M.row x := by
  by_cases hc : p ∧ M.get r col = true
  · rw [if_pos hc]
    obtain ⟨w1, w2, w3, w4⟩ := addRowWin_spec hM r src (col + 1) wc hwc hr
    refine ⟨w1, w2, w3, fun x => ?_⟩
    rw [w4]
    have h2 : (M.row r).testBit col = true := hc.2
    simp only [hc.1, decide_true, if_true, elimRow, h2]
  · rw [if_neg hc]
    refine ⟨hM, rfl, rfl, fun x => ?_⟩
    by_cases hx : x = r
    · rw [if_pos hx, hx]
      by_cases hp : p
      · have h2 : (M.row r).testBit col = false := by
          have : ¬ M.get r col = true := fun e => hc ⟨hp, e⟩
          simpa [get] using this
        simp only [hp, decide_true, if_true, elimRow_of_not h2]
      · simp only [hp, decide_false, Bool.false_eq_true, if_false]
    · rw [if_neg hx]

theorem lazyElim_aux (M0 : BMat) (i startRow startCol wc : Nat) (pivots done : Array Nat)
    (hwc : wc ≤ M0.ncols) (hi : i < M0.nrows) :
    ∀ (l : List Nat), (∀ t, t ∈ l → startRow + t ≠ i) →
    ∀ (M : BMat), M.WF → M.nrows = M0.nrows → M.ncols = M0.ncols → (∀ x, x ≠ i → M.row x = M0.row x) →
    (l.foldl (fun M l =>
        if done.getD l 0 < i ∧ M.get i (startCol + pivots.getD l 0) then
          addRowWin M i (startRow + l) (startCol + pivots.getD l 0 + 1) wc
        else M) M).WF ∧
    (l.foldl (fun M l =>
        if done.getD l 0 < i ∧ M.get i (startCol + pivots.getD l 0) then
          addRowWin M i (startRow + l) (startCol + pivots.getD l 0 + 1) wc
        else M) M).nrows = M0.nrows ∧
    (l.foldl (fun M l =>
        if done.getD l 0 < i ∧ M.get i (startCol + pivots.getD l 0) then
          addRowWin M i (startRow + l) (startCol + pivots.getD l 0 + 1) wc
        else M) M).ncols = M0.ncols ∧
    ∀ x, (l.foldl (fun M l =>
        if done.getD l 0 < i ∧ M.get i (startCol + pivots.getD l 0) then
          addRowWin M i (startRow + l) (startCol + pivots.getD l 0 + 1) wc
        else M) M).row x =
      if x = i then lazySeq (fun t => M0.row (startRow + t)) (fun t => startCol + pivots.getD t 0)
        (fun t => decide (done.getD t 0 < i)) wc l (M.row i) else M0.row x := by
  intro l
  induction l with
  | nil =>
    intro _ M hM hnr hnc hrow
    refine ⟨hM, hnr, hnc, fun x => ?_⟩
    rw [List.foldl_nil, lazySeq_nil]
    by_cases hx : x = i
    · rw [if_pos hx, hx]
    · rw [if_neg hx, hrow x hx]
  | cons t l ih =>
    intro hl M hM hnr hnc hrow
    rw [List.foldl_cons, lazySeq_cons]
    obtain ⟨w1, w2, w3, w4⟩ := condElim_spec hM (done.getD t 0 < i) i (startRow + t) (startCol + pivots.getD t 0) wc
      (by omega) (by omega)
    obtain ⟨r1, r2, r3, r4⟩ := ih (fun t' ht' => hl t' (by simp [ht'])) _ w1 (w2.trans hnr) (w3.trans hnc)
      (fun x hx => by rw [w4, if_neg hx, hrow x hx])
    refine ⟨r1, r2, r3, fun x => ?_⟩
    rw [r4, w4, if_pos rfl, hrow (startRow + t) (hl t (by simp))]

end LP

/-- `lazyElim` changes only row `i` (not a pivot row), by the conditional steps -/
theorem lazyElim_spec {M : BMat} (hM : M.WF) (i startRow startCol wc : Nat) (pivots done : Array Nat)
    (hwc : wc ≤ M.ncols) (hi : i < M.nrows) (hpr : startRow + pivots.size ≤ i) :
    (lazyElim M i startRow startCol wc pivots done).WF ∧
    (lazyElim M i startRow startCol wc pivots done).nrows = M.nrows ∧
    (lazyElim M i startRow startCol wc pivots done).ncols = M.ncols ∧
    ∀ x, (lazyElim M i startRow startCol wc pivots done).row x =
      if x = i then lazySeq (fun t => M.row (startRow + t)) (fun t => startCol + pivots.getD t 0)
        (fun t => decide (done.getD t 0 < i)) wc (List.range pivots.size) (M.row i) else M.row x := by
  unfold lazyElim
  exact LP.lazyElim_aux M i startRow startCol wc pivots done hwc hi (List.range pivots.size)
    (fun t ht => by have := List.mem_range.mp ht; omega) M hM rfl rfl (fun _ _ => rfl)

/-! ### `finishSub` -/

namespace LP

/-- the row loop of "finish submatrix" for one pivot -/
theorem finishInner_spec {M : BMat} (hM : M.WF) (src col wc a n : Nat) (hwc : wc ≤ M.ncols)
    (hn : ∀ x, a ≤ x → x < a + n → x < M.nrows) (hsrc : src < a ∨ a + n ≤ src) :
    ((List.range' a n).foldl (fun M r2 =>
      if M.get r2 col then addRowWin M r2 src (col + 1) wc else M) M).WF ∧
    ((List.range' a n).foldl (fun M r2 =>
      if M.get r2 col then addRowWin M r2 src (col + 1) wc else M) M).nrows = M.nrows ∧
    ((List.range' a n).foldl (fun M r2 =>
      if M.get r2 col then addRowWin M r2 src (col + 1) wc else M) M).ncols = M.ncols ∧
    ∀ x, ((List.range' a n).foldl (fun M r2 =>
      if M.get r2 col then addRowWin M r2 src (col + 1) wc else M) M).row x =
      if a ≤ x ∧ x < a + n then elimRow (M.row src) col wc (M.row x) else M.row x := by
  have h := fold_rows
    (fun N r2 => if N.get r2 col then addRowWin N r2 src (col + 1) wc else N)
    (fun N i => elimRow (N.row src) col wc (N.row i))
    M.nrows M.ncols (List.range' a n)
    (by
      intro N i hi hN hNr hNc
      have hi' := List.mem_range'_1.mp hi
      have e : (if N.get i col = true then addRowWin N i src (col + 1) wc else N) =
          (if True ∧ N.get i col = true then addRowWin N i src (col + 1) wc else N) := by
        simp only [true_and]
      have := condElim_spec hN True i src col wc (by omega) (by have := hn i hi'.1 hi'.2; omega)
      simp only [decide_true, if_true] at this
      simp only [e]
      exact ⟨this.1, this.2.1.trans hNr, this.2.2.1.trans hNc, this.2.2.2⟩)
    List.nodup_range' M hM rfl rfl
    (by
      intro N i _ _ _ _ hout hrow
      have : src ∉ List.range' a n := fun e => by have := List.mem_range'_1.mp e; omega
      simp only [hrow, hout src this])
  obtain ⟨r1, r2, r3, r4⟩ := h
  refine ⟨r1, r2, r3, fun x => ?_⟩
  rw [r4]
  by_cases hx : a ≤ x ∧ x < a + n
  · rw [if_pos (List.mem_range'_1.mpr hx), if_pos hx]
  · rw [if_neg (fun e => hx (List.mem_range'_1.mp e)), if_neg hx]

theorem takeWhile_range' (p : Nat → Bool) : ∀ (n a : Nat), ∃ m, m ≤ n ∧
    (List.range' a n).takeWhile p = List.range' a m ∧ (m < n → p (a + m) = false) := by
  intro n
  induction n with
  | zero => intro a; exact ⟨0, Nat.le_refl _, rfl, fun h => by omega⟩
  | succ n ih =>
    intro a
    rw [List.range'_succ, List.takeWhile_cons]
    by_cases hp : p a = true
    · obtain ⟨m, h1, h2, h3⟩ := ih (a + 1)
      refine ⟨m + 1, by omega, ?_, fun h => ?_⟩
      · rw [if_pos hp, h2, List.range'_succ]
      · have := h3 (by omega)
        rw [← this]; congr 1; omega
    · refine ⟨0, by omega, ?_, fun _ => ?_⟩
      · rw [if_neg hp]; rfl
      · simpa using hp

/-- the pivot loop of "finish submatrix", run over the first `m` pivots -/
theorem finishOuter_spec {M0 : BMat} (hM0 : M0.WF) (startRow startCol wc doneRow : Nat) (pivots done : Array Nat)
    (hwc : wc ≤ M0.ncols) (hdr : doneRow < M0.nrows)
    (hdone : ∀ t, t < pivots.size → startRow + pivots.size ≤ done.getD t 0 + 1) :
    ∀ m, m ≤ pivots.size →
    ((List.range m).foldl (fun M c2 =>
      (List.range' (done.getD c2 0 + 1) (doneRow - done.getD c2 0)).foldl (fun M r2 =>
        if M.get r2 (startCol + pivots.getD c2 0) then
          addRowWin M r2 (startRow + c2) (startCol + pivots.getD c2 0 + 1) wc
        else M) M) M0).WF ∧
    ((List.range m).foldl (fun M c2 =>
      (List.range' (done.getD c2 0 + 1) (doneRow - done.getD c2 0)).foldl (fun M r2 =>
        if M.get r2 (startCol + pivots.getD c2 0) then
          addRowWin M r2 (startRow + c2) (startCol + pivots.getD c2 0 + 1) wc
        else M) M) M0).nrows = M0.nrows ∧
    ((List.range m).foldl (fun M c2 =>
      (List.range' (done.getD c2 0 + 1) (doneRow - done.getD c2 0)).foldl (fun M r2 =>
        if M.get r2 (startCol + pivots.getD c2 0) then
          addRowWin M r2 (startRow + c2) (startCol + pivots.getD c2 0 + 1) wc
        else M) M) M0).ncols = M0.ncols ∧
    ∀ x, ((List.range m).foldl (fun M c2 =>
      (List.range' (done.getD c2 0 + 1) (doneRow - done.getD c2 0)).foldl (fun M r2 =>
        if M.get r2 (startCol + pivots.getD c2 0) then
          addRowWin M r2 (startRow + c2) (startCol + pivots.getD c2 0 + 1) wc
        else M) M) M0).row x =
      if startRow + pivots.size ≤ x ∧ x ≤ doneRow then
        lazySeq (fun t => M0.row (startRow + t)) (fun t => startCol + pivots.getD t 0)
          (fun t => decide (done.getD t 0 < x)) wc (List.range m) (M0.row x)
      else M0.row x := by
  intro m
  induction m with
  | zero =>
    intro _
    refine ⟨hM0, rfl, rfl, fun x => ?_⟩
    simp [lazySeq_nil]
  | succ m ih =>
    intro hm
    obtain ⟨w1, w2, w3, w4⟩ := ih (by omega)
    rw [List.range_succ, List.foldl_append, List.foldl_cons, List.foldl_nil]
    have hd := hdone m (by omega)
    obtain ⟨r1, r2, r3, r4⟩ := finishInner_spec w1 (startRow + m) (startCol + pivots.getD m 0) wc
      (done.getD m 0 + 1) (doneRow - done.getD m 0) (by omega) (by intro x _ _; omega) (Or.inl (by omega))
    refine ⟨r1, r2.trans w2, r3.trans w3, fun x => ?_⟩
    rw [r4, lazySeq_append, lazySeq_cons, lazySeq_nil]
    have hsrc : ¬ (startRow + pivots.size ≤ startRow + m ∧ startRow + m ≤ doneRow) := by omega
    have e1 := w4 (startRow + m)
    rw [if_neg hsrc] at e1
    rw [e1, w4 x]
    by_cases hx : startRow + pivots.size ≤ x ∧ x ≤ doneRow
    · simp only [if_pos hx]
      by_cases hx2 : done.getD m 0 < x
      · rw [if_pos (by omega)]
        simp only [hx2, decide_true, if_true]
      · rw [if_neg (by omega)]
        simp only [hx2, decide_false, Bool.false_eq_true, if_false]
    · simp only [if_neg hx]
      rw [if_neg (by omega)]

end LP

/-- "finish submatrix": every row `startRow + s ≤ x ≤ doneRow` gets the steps it has not had yet -/
theorem finishSub_spec {M : BMat} (hM : M.WF) (startRow startCol wc doneRow : Nat) (pivots done : Array Nat)
    (hwc : wc ≤ M.ncols) (hdr : doneRow < M.nrows)
    (hmono : ∀ t t', t < t' → t' < pivots.size → pivots.getD t 0 < pivots.getD t' 0)
    (hlt : ∀ t, t < pivots.size → startCol + pivots.getD t 0 + 1 ≤ wc)
    (hdone : ∀ t, t < pivots.size → startRow + pivots.size ≤ done.getD t 0 + 1) :
    (finishSub M startRow startCol wc doneRow pivots done).WF ∧
    (finishSub M startRow startCol wc doneRow pivots done).nrows = M.nrows ∧
    (finishSub M startRow startCol wc doneRow pivots done).ncols = M.ncols ∧
    ∀ x, (finishSub M startRow startCol wc doneRow pivots done).row x =
      if startRow + pivots.size ≤ x ∧ x ≤ doneRow then
        lazySeq (fun t => M.row (startRow + t)) (fun t => startCol + pivots.getD t 0)
          (fun t => decide (done.getD t 0 < x)) wc (List.range pivots.size) (M.row x)
      else M.row x := by
  unfold finishSub
  obtain ⟨m, hm, htw, hfail⟩ := LP.takeWhile_range' (fun c2 => decide (startCol + pivots.getD c2 0 + 1 < wc))
    pivots.size 0
  have htw' : (List.range pivots.size).takeWhile (fun c2 => decide (startCol + pivots.getD c2 0 + 1 < wc)) =
      List.range m := by
    rw [List.range_eq_range', htw, ← List.range_eq_range']
  rw [htw']
  obtain ⟨w1, w2, w3, w4⟩ := LP.finishOuter_spec hM startRow startCol wc doneRow pivots done hwc hdr hdone m hm
  refine ⟨w1, w2, w3, fun x => ?_⟩
  rw [w4]
  by_cases hms : m = pivots.size
  · rw [hms]
  · have hf := hfail (by omega)
    simp only [Nat.zero_add, decide_eq_false_iff_not] at hf
    have h1 := hlt m (by omega)
    have hs : pivots.size = m + 1 := by
      by_cases h : m + 1 < pivots.size
      · have := hmono m (m + 1) (by omega) h
        have := hlt (m + 1) h
        omega
      · omega
    by_cases hx : startRow + pivots.size ≤ x ∧ x ≤ doneRow
    · rw [if_pos hx, if_pos hx, hs, List.range_succ, lazySeq_append, lazySeq_cons, lazySeq_nil]
      have : startCol + pivots.getD m 0 + 1 = wc := by omega
      unfold elimRow
      rw [this, part_empty _ _ _ (Nat.le_refl _), Nat.xor_zero]
      simp only [ite_self]
    · rw [if_neg hx, if_neg hx]

/-! ### `xfold`, `elimSeq_low`, `elimSeq_high` -/

namespace LP

theorem xfold_zero (f : Nat → Nat) : xfold 0 f = 0 := rfl

theorem xfold_succ (n : Nat) (f : Nat → Nat) : xfold (n + 1) f = xfold n f ^^^ f n := by
  unfold xfold
  rw [List.range_succ, List.foldl_append, List.foldl_cons, List.foldl_nil]

theorem xfold_congr (n : Nat) (f g : Nat → Nat) (h : ∀ t, t < n → f t = g t) : xfold n f = xfold n g := by
  induction n with
  | zero => rfl
  | succ n ih =>
    rw [xfold_succ, xfold_succ, ih (fun t ht => h t (by omega)), h n (by omega)]

theorem testBit_xfold_false (n : Nat) (f : Nat → Nat) (p : Nat) (h : ∀ t, t < n → (f t).testBit p = false) :
    (xfold n f).testBit p = false := by
  induction n with
  | zero => simp [xfold_zero]
  | succ n ih =>
    rw [xfold_succ, Nat.testBit_xor, ih (fun t ht => h t (by omega)), h n (by omega)]
    rfl

/-- an XOR of values that live in the columns `[lo, hi)` lives there -/
theorem part_xfold_id (n : Nat) (f : Nat → Nat) (lo hi : Nat) (h : ∀ t, t < n → part (f t) lo hi = f t) :
    part (xfold n f) lo hi = xfold n f := by
  induction n with
  | zero => rw [xfold_zero, part_zero]
  | succ n ih =>
    rw [xfold_succ, part_xor, ih (fun t ht => h t (by omega)), h n (by omega)]

theorem part_ite_id (b : Bool) (v lo hi : Nat) :
    part (if b = true then part v lo hi else 0) lo hi = (if b = true then part v lo hi else 0) := by
  cases b
  · simp [part_zero]
  · simp only [if_true, part_part, Nat.max_self, Nat.min_self]

theorem elimRow_mod (e c n wc v : Nat) (hwc : wc ≤ n) (hc : c < wc) :
    elimRow e c n v % 2 ^ wc = elimRow e c wc (v % 2 ^ wc) := by
  apply Nat.eq_of_testBit_eq
  intro j
  rw [Nat.testBit_mod_two_pow, elimRow_testBit, elimRow_testBit, Nat.testBit_mod_two_pow, Nat.testBit_mod_two_pow]
  by_cases hj : j < wc
  · have h1 : (c < j ∧ j < n) ↔ (c < j ∧ j < wc) := by omega
    simp only [hj, hc, decide_true, Bool.true_and, decide_eq_decide.mpr h1]
  · have h1 : ¬ (c < j ∧ j < wc) := by omega
    simp [hj]

/-- a step does not touch the columns up to its pivot column -/
theorem elimRow_testBit_le (e c n v j : Nat) (hj : j ≤ c) : (elimRow e c n v).testBit j = v.testBit j := by
  rw [elimRow_testBit]
  have : ¬ (c < j ∧ j < n) := by omega
  simp [this]

/-- the columns `≥ wc` after a step with pivot column `< wc` -/
theorem part_elimRow (e c n wc v : Nat) (hc : c < wc) :
    part (elimRow e c n v) wc n = part v wc n ^^^ (if v.testBit c = true then part e wc n else 0) := by
  unfold elimRow
  by_cases h : v.testBit c = true
  · rw [if_pos h, if_pos h, part_xor, part_part]
    congr 2 <;> omega
  · rw [if_neg h, if_neg h, Nat.xor_zero]

end LP

/-- also useful: the decision bits / low columns do not depend on the columns `≥ wc` -/
theorem elimSeq_low (e c : Nat → Nat) (n wc : Nat) (ts : List Nat) (v : Nat) (hwc : wc ≤ n)
    (hc : ∀ t, t ∈ ts → c t < wc) :
    (elimSeq e c n ts v) % 2 ^ wc = elimSeq e c wc ts (v % 2 ^ wc) := by
  induction ts generalizing v with
  | nil => rfl
  | cons t ts ih =>
    rw [elimSeq_cons, elimSeq_cons, ih _ (fun t' ht' => hc t' (by simp [ht'])),
      LP.elimRow_mod _ _ _ _ _ hwc (hc t (by simp))]

set_option linter.unusedVariables false in
/-- (pure Nat) the columns `≥ wc` of a sequentially eliminated row: the original columns plus the pivot rows whose
    pivot bit is set in the RESULT (a decision bit is never changed afterwards because pivot columns increase and a
    step only touches columns right of its pivot) -/
theorem elimSeq_high (e c : Nat → Nat) (n wc m : Nat) (v : Nat) (hwc : wc ≤ n)
    (hc : ∀ t, t < m → c t < wc) (hmono : ∀ t t', t < t' → t' < m → c t < c t') :
    part (elimSeq e c n (List.range m) v) wc n =
      part v wc n ^^^ xfold m (fun t => if (elimSeq e c n (List.range m) v).testBit (c t) then part (e t) wc n else 0) := by
  induction m with
  | zero => rw [LP.xfold_zero, Nat.xor_zero]; rfl
  | succ m ih =>
    have ih' := ih (fun t ht => hc t (by omega)) (fun t t' h1 h2 => hmono t t' h1 (by omega))
    rw [List.range_succ, elimSeq_append, elimSeq_cons, elimSeq_nil, LP.part_elimRow _ _ _ _ _ (hc m (by omega)),
      ih', LP.xfold_succ, Nat.xor_assoc]
    congr 2
    · apply LP.xfold_congr
      intro t ht
      rw [LP.elimRow_testBit_le _ _ _ _ _ (Nat.le_of_lt (hmono t m ht (by omega)))]
    · rw [LP.elimRow_testBit_le _ _ _ _ _ (Nat.le_refl _)]

/-! ### `a10` -/

namespace LP

theorem swapsBy_succ (P : Array Nat) (rp s : Nat) (M : BMat) :
    swapsBy P rp (s + 1) M = (swapsBy P rp s M).swapRows (rp + s) (P.getD (rp + s) 0) := by
  unfold swapsBy
  rw [List.range_succ, List.foldl_append, List.foldl_cons, List.foldl_nil]

theorem swapsBy_shape {M : BMat} (hM : M.WF) (P : Array Nat) (rp s : Nat) :
    (swapsBy P rp s M).WF ∧ (swapsBy P rp s M).nrows = M.nrows ∧ (swapsBy P rp s M).ncols = M.ncols := by
  induction s with
  | zero => exact ⟨hM, rfl, rfl⟩
  | succ s ih =>
    rw [swapsBy_succ]
    exact ⟨WF_swapRows ih.1 _ _, by rw [nrows_swapRows, ih.2.1], by rw [ncols_swapRows, ih.2.2]⟩

/-- the swap loop of `_mzd_ple_a10` -/
def swapLoop (P : Array Nat) (lo : Nat) (M : BMat) (l : List Nat) : BMat :=
  l.foldl (fun M i => swapRowsPart M i (P.getD i 0) lo M.ncols) M

theorem xor_mod_of_low (v X lo : Nat) (h : ∀ p, p < lo → X.testBit p = false) :
    (v ^^^ X) % 2 ^ lo = v % 2 ^ lo := by
  apply Nat.eq_of_testBit_eq
  intro p
  rw [Nat.testBit_mod_two_pow, Nat.testBit_mod_two_pow, Nat.testBit_xor]
  by_cases hp : p < lo
  · rw [h p hp, Bool.xor_false]
  · simp [hp]

theorem testBit_of_mod_eq {a b lo p : Nat} (h : a % 2 ^ lo = b % 2 ^ lo) (hp : p < lo) :
    a.testBit p = b.testBit p := by
  have := congrArg (fun v => v.testBit p) h
  simpa [Nat.testBit_mod_two_pow, hp] using this

theorem part_low_false (v lo hi p : Nat) (hp : p < lo) : (part v lo hi).testBit p = false := by
  rw [testBit_part]
  have : ¬ (lo ≤ p ∧ p < hi) := by omega
  simp [this]

theorem swapLoop_spec {M : BMat} (hM : M.WF) (P : Array Nat) (rp lo : Nat) :
    ∀ s, rp + s ≤ M.nrows → (∀ t, t < s → P.getD (rp + t) 0 < M.nrows) →
    (swapLoop P lo M (List.range' rp s)).WF ∧ (swapLoop P lo M (List.range' rp s)).nrows = M.nrows ∧
    (swapLoop P lo M (List.range' rp s)).ncols = M.ncols ∧
    (∀ x, (swapLoop P lo M (List.range' rp s)).row x % 2 ^ lo = M.row x % 2 ^ lo) ∧
    ∀ x, part ((swapLoop P lo M (List.range' rp s)).row x) lo M.ncols =
      part ((swapsBy P rp s M).row x) lo M.ncols := by
  intro s
  induction s with
  | zero => intro _ _; exact ⟨hM, rfl, rfl, fun _ => rfl, fun _ => rfl⟩
  | succ s ih =>
    intro hs hP
    obtain ⟨w1, w2, w3, w4, w5⟩ := ih (by omega) (fun t ht => hP t (by omega))
    obtain ⟨v1, v2, v3⟩ := swapsBy_shape hM P rp s
    have hb := hP s (by omega)
    have e : swapLoop P lo M (List.range' rp (s + 1)) =
        swapRowsPart (swapLoop P lo M (List.range' rp s)) (rp + s) (P.getD (rp + s) 0) lo
          (swapLoop P lo M (List.range' rp s)).ncols := by
      unfold swapLoop
      rw [List.range'_1_concat, List.foldl_append, List.foldl_cons, List.foldl_nil]
    obtain ⟨r1, r2, r3, r4⟩ := swapRowsPart_spec w1 (rp + s) (P.getD (rp + s) 0) lo
      (swapLoop P lo M (List.range' rp s)).ncols (by omega) (by omega) (Nat.le_refl _)
    rw [e]
    refine ⟨r1, r2.trans w2, r3.trans w3, fun x => ?_, fun x => ?_⟩
    · rw [r4, ← w4 x]
      split
      · subst_vars; exact xor_mod_of_low _ _ _ (fun p hp => part_low_false _ _ _ _ hp)
      · split
        · subst_vars; exact xor_mod_of_low _ _ _ (fun p hp => part_low_false _ _ _ _ hp)
        · rfl
    · rw [r4, swapsBy_succ, row_swapRows v1 _ _ _ (by omega) (by omega), w3]
      by_cases hxa : x = rp + s
      · rw [if_pos hxa, if_pos hxa, part_xor, part_part, Nat.max_self, Nat.min_self, part_xor, ← Nat.xor_assoc,
          Nat.xor_self, Nat.zero_xor, w5]
      · rw [if_neg hxa, if_neg hxa]
        by_cases hxb : x = P.getD (rp + s) 0
        · rw [if_pos hxb, if_pos hxb, part_xor, part_part, Nat.max_self, Nat.min_self, part_xor, Nat.xor_comm,
            Nat.xor_assoc, Nat.xor_self, Nat.xor_zero, w5]
        · rw [if_neg hxb, if_neg hxb, w5]

/-- the inner loop of the elimination part of `_mzd_ple_a10` (first `k` rounds) -/
def a10Inner (lo rp : Nat) (pivots : Array Nat) (tmp i : Nat) (N : BMat) (k : Nat) : BMat :=
  (List.range k).foldl (fun M j =>
    if tmp.testBit (pivots.getD j 0) then
      M.setRow (rp + i) (M.row (rp + i) ^^^ part (M.row (rp + j)) lo M.ncols)
    else M) N

theorem a10Inner_spec {N : BMat} (hN : N.WF) (lo rp : Nat) (pivots : Array Nat) (tmp i : Nat)
    (hi : rp + i < N.nrows) :
    ∀ k, k ≤ i →
    (a10Inner lo rp pivots tmp i N k).WF ∧ (a10Inner lo rp pivots tmp i N k).nrows = N.nrows ∧
    (a10Inner lo rp pivots tmp i N k).ncols = N.ncols ∧
    ∀ x, (a10Inner lo rp pivots tmp i N k).row x =
      if x = rp + i then N.row (rp + i) ^^^
        xfold k (fun j => if tmp.testBit (pivots.getD j 0) then part (N.row (rp + j)) lo N.ncols else 0)
      else N.row x := by
  intro k
  induction k with
  | zero =>
    intro _
    refine ⟨hN, rfl, rfl, fun x => ?_⟩
    rw [xfold_zero, Nat.xor_zero]
    split
    · subst_vars; rfl
    · rfl
  | succ k ih =>
    intro hk
    obtain ⟨w1, w2, w3, w4⟩ := ih (by omega)
    have e : a10Inner lo rp pivots tmp i N (k + 1) =
        if tmp.testBit (pivots.getD k 0) then
          (a10Inner lo rp pivots tmp i N k).setRow (rp + i) ((a10Inner lo rp pivots tmp i N k).row (rp + i) ^^^
            part ((a10Inner lo rp pivots tmp i N k).row (rp + k)) lo (a10Inner lo rp pivots tmp i N k).ncols)
        else a10Inner lo rp pivots tmp i N k := by
      unfold a10Inner
      rw [List.range_succ, List.foldl_append, List.foldl_cons, List.foldl_nil]
    rw [e, xfold_succ]
    by_cases hc : tmp.testBit (pivots.getD k 0) = true
    · rw [if_pos hc]
      obtain ⟨r1, r2, r3, r4⟩ := setRow_spec w1 (rp + i) ((a10Inner lo rp pivots tmp i N k).row (rp + i) ^^^
        part ((a10Inner lo rp pivots tmp i N k).row (rp + k)) lo (a10Inner lo rp pivots tmp i N k).ncols)
        (by omega) (xor_part_lt (w1.2 _) (Nat.le_refl _))
      refine ⟨r1, r2.trans w2, r3.trans w3, fun x => ?_⟩
      rw [r4]
      by_cases hx : x = rp + i
      · rw [if_pos hx, if_pos hx, w4, if_pos rfl, w4, if_neg (by omega), w3, if_pos hc, Nat.xor_assoc]
      · rw [if_neg hx, if_neg hx, w4, if_neg hx]
    · rw [if_neg hc]
      refine ⟨w1, w2, w3, fun x => ?_⟩
      rw [w4, if_neg hc, Nat.xor_zero]

/-- the outer loop of the elimination part of `_mzd_ple_a10` -/
def a10Outer (lo rp cp : Nat) (pivots : Array Nat) (N : BMat) (l : List Nat) : BMat :=
  l.foldl (fun M i => a10Inner lo rp pivots (bitsAt (M.row (rp + i)) cp (pivots.getD i 0)) i M i) N

theorem a10Outer_spec {N : BMat} (hN : N.WF) (lo rp cp s : Nat) (pivots : Array Nat) (hs : rp + s ≤ N.nrows) :
    ∀ k, k ≤ s - 1 →
    (a10Outer lo rp cp pivots N (List.range' 1 k)).WF ∧
    (a10Outer lo rp cp pivots N (List.range' 1 k)).nrows = N.nrows ∧
    (a10Outer lo rp cp pivots N (List.range' 1 k)).ncols = N.ncols ∧
    (∀ x, (x < rp + 1 ∨ rp + 1 + k ≤ x) → (a10Outer lo rp cp pivots N (List.range' 1 k)).row x = N.row x) ∧
    ∀ i, 1 ≤ i → i < 1 + k → (a10Outer lo rp cp pivots N (List.range' 1 k)).row (rp + i) =
      N.row (rp + i) ^^^ xfold i (fun j =>
        if (bitsAt (N.row (rp + i)) cp (pivots.getD i 0)).testBit (pivots.getD j 0) then
          part ((a10Outer lo rp cp pivots N (List.range' 1 k)).row (rp + j)) lo N.ncols else 0) := by
  intro k
  induction k with
  | zero =>
    intro _
    exact ⟨hN, rfl, rfl, fun _ _ => rfl, fun i h1 h2 => by omega⟩
  | succ k ih =>
    intro hk
    obtain ⟨w1, w2, w3, w4, w5⟩ := ih (by omega)
    have e : a10Outer lo rp cp pivots N (List.range' 1 (k + 1)) =
        a10Inner lo rp pivots
          (bitsAt ((a10Outer lo rp cp pivots N (List.range' 1 k)).row (rp + (1 + k))) cp (pivots.getD (1 + k) 0))
          (1 + k) (a10Outer lo rp cp pivots N (List.range' 1 k)) (1 + k) := by
      unfold a10Outer
      rw [List.range'_1_concat, List.foldl_append, List.foldl_cons, List.foldl_nil]
    rw [w4 (rp + (1 + k)) (by omega)] at e
    obtain ⟨r1, r2, r3, r4⟩ := a10Inner_spec w1 lo rp pivots
      (bitsAt (N.row (rp + (1 + k))) cp (pivots.getD (1 + k) 0))
      (1 + k) (by omega) (1 + k) (Nat.le_refl _)
    rw [e]
    refine ⟨r1, r2.trans w2, r3.trans w3, fun x hx => ?_, fun i hi1 hi2 => ?_⟩
    · rw [r4, if_neg (by omega), w4 x (by omega)]
    · by_cases hik : i = 1 + k
      · rw [hik, r4 (rp + (1 + k)), if_pos rfl, w4 (rp + (1 + k)) (by omega), w3]
        congr 1
        apply xfold_congr
        intro j hj
        rw [r4 (rp + j), if_neg (show ¬ rp + j = rp + (1 + k) by omega)]
      · rw [r4 (rp + i), if_neg (by omega), w5 i hi1 (by omega)]
        congr 1
        apply xfold_congr
        intro j hj
        rw [r4 (rp + j), if_neg (show ¬ rp + j = rp + (1 + k) by omega)]

theorem a10_eq (M : BMat) (P : Array Nat) (rp cp addblock s : Nat) (pivots : Array Nat) (h : addblock ≠ width M) :
    a10 M P rp cp addblock s pivots =
      a10Outer (64 * addblock) rp cp pivots (swapLoop P (64 * addblock) M (List.range' rp s))
        (List.range' 1 (s - 1)) := by
  unfold a10
  rw [if_neg h]
  rfl

end LP

theorem a10_of_eq {M : BMat} (P : Array Nat) (rp cp addblock s : Nat) (pivots : Array Nat) (h : addblock = width M) :
    a10 M P rp cp addblock s pivots = M := by
  unfold a10
  rw [if_pos h]

namespace LP

theorem ite_part_low (b : Prop) [Decidable b] (v lo hi p : Nat) (hp : p < lo) :
    (if b then part v lo hi else 0).testBit p = false := by
  split
  · exact part_low_false _ _ _ _ hp
  · exact Nat.zero_testBit p

end LP

/-- `_mzd_ple_a10`: columns below `64·addblock` are untouched; above, all rows are permuted like `swapsBy`, and pivot
    row `i` additionally receives the (final) pivot rows `j < i` whose multiplier bit is set in it -/
theorem a10_spec {M : BMat} (hM : M.WF) (P : Array Nat) (rp cp addblock s : Nat) (pivots : Array Nat)
    (hab : addblock < width M) (hs : rp + s ≤ M.nrows)
    (hP : ∀ t, t < s → rp + t ≤ P.getD (rp + t) 0 ∧ P.getD (rp + t) 0 < M.nrows)
    (hmono : ∀ t t', t < t' → t' < s → pivots.getD t 0 < pivots.getD t' 0)
    (hlow : ∀ t, t < s → cp + pivots.getD t 0 < 64 * addblock) :
    (a10 M P rp cp addblock s pivots).WF ∧ (a10 M P rp cp addblock s pivots).nrows = M.nrows ∧
    (a10 M P rp cp addblock s pivots).ncols = M.ncols ∧
    (∀ x, (a10 M P rp cp addblock s pivots).row x % 2 ^ (64 * addblock) = M.row x % 2 ^ (64 * addblock)) ∧
    (∀ x, x < M.nrows → (x < rp ∨ rp + s ≤ x) →
      part ((a10 M P rp cp addblock s pivots).row x) (64 * addblock) M.ncols =
        part ((swapsBy P rp s M).row x) (64 * addblock) M.ncols) ∧
    (∀ i, i < s → part ((a10 M P rp cp addblock s pivots).row (rp + i)) (64 * addblock) M.ncols =
        part ((swapsBy P rp s M).row (rp + i)) (64 * addblock) M.ncols ^^^
        xfold i (fun j => if (M.row (rp + i)).testBit (cp + pivots.getD j 0) then
          part ((a10 M P rp cp addblock s pivots).row (rp + j)) (64 * addblock) M.ncols else 0)) := by
  have hne : addblock ≠ width M := by omega
  rw [LP.a10_eq M P rp cp addblock s pivots hne]
  obtain ⟨w1, w2, w3, w4, w5⟩ := LP.swapLoop_spec hM P rp (64 * addblock) s hs (fun t ht => (hP t ht).2)
  obtain ⟨r1, r2, r3, r4, r5⟩ := LP.a10Outer_spec w1 (64 * addblock) rp cp s pivots (by rw [w2]; exact hs) (s - 1)
    (Nat.le_refl _)
  rw [w3] at r5
  refine ⟨r1, r2.trans w2, r3.trans w3, fun x => ?_, fun x _ hx => ?_, fun i hi => ?_⟩
  · by_cases hx : rp + 1 ≤ x ∧ x < rp + s
    · obtain ⟨i, rfl⟩ : ∃ i, x = rp + i := ⟨x - rp, by omega⟩
      rw [r5 i (by omega) (by omega), ← w4 (rp + i)]
      apply LP.xor_mod_of_low
      intro p hp
      apply LP.testBit_xfold_false
      intro j _
      exact LP.ite_part_low _ _ _ _ _ hp
    · rw [r4 x (by omega), w4 x]
  · rw [r4 x (by omega), w5 x]
  · have hcore : part ((LP.a10Outer (64 * addblock) rp cp pivots
          (LP.swapLoop P (64 * addblock) M (List.range' rp s)) (List.range' 1 (s - 1))).row (rp + i))
          (64 * addblock) M.ncols =
        part ((swapsBy P rp s M).row (rp + i)) (64 * addblock) M.ncols ^^^
        xfold i (fun j =>
          if (bitsAt ((LP.swapLoop P (64 * addblock) M (List.range' rp s)).row (rp + i)) cp
            (pivots.getD i 0)).testBit (pivots.getD j 0) then
          part ((LP.a10Outer (64 * addblock) rp cp pivots
            (LP.swapLoop P (64 * addblock) M (List.range' rp s)) (List.range' 1 (s - 1))).row (rp + j))
            (64 * addblock) M.ncols else 0) := by
      by_cases hi0 : i = 0
      · subst hi0
        rw [r4 (rp + 0) (by omega), w5 (rp + 0), LP.xfold_zero, Nat.xor_zero]
      · rw [r5 i (by omega) (by omega), part_xor, w5 (rp + i), LP.part_xfold_id]
        intro j _
        exact LP.part_ite_id _ _ _ _
    rw [hcore]
    congr 1
    apply LP.xfold_congr
    intro j hj
    have hc : (bitsAt ((LP.swapLoop P (64 * addblock) M (List.range' rp s)).row (rp + i)) cp
        (pivots.getD i 0)).testBit (pivots.getD j 0) = (M.row (rp + i)).testBit (cp + pivots.getD j 0) := by
      rw [testBit_bitsAt, decide_eq_true (hmono j i hj hi), Bool.true_and]
      exact LP.testBit_of_mod_eq (w4 (rp + i)) (hlow j (by omega))
    rw [hc]

/-! ### non-vacuity: the hypotheses of the specifications are satisfiable -/

example := swapRowsPart_spec (WF_identity 4) 1 3 1 3 (by decide) (by decide) (by decide)
example := a11_spec (WF_identity 130) 1 100 3 1 4 [] (by decide)
example := processRowsPle_spec (WF_identity 130) 1 100 3 4 [] (by decide)
example := lazyElim_spec (WF_identity 4) 3 0 0 4 #[0, 1] #[1, 2] (by decide) (by decide) (by decide)
example := finishSub_spec (WF_identity 4) 0 0 4 3 #[0, 1] #[1, 2] (by decide) (by decide)
  (by intro t t' h1 h2
      have h2' : t' < 2 := h2
      obtain ⟨rfl, rfl⟩ : t = 0 ∧ t' = 1 := by constructor <;> omega
      decide)
  (by decide) (by decide)
example := elimSeq_high (fun _ => 7) (fun t => t) 3 2 2 5 (by decide) (by decide)
  (by intro t t' h _; exact h)
example := a10_spec (WF_identity 130) #[0, 1] 0 0 1 2 #[0, 1] (by decide) (by decide) (by decide)
  (by intro t t' h1 h2
      obtain ⟨rfl, rfl⟩ : t = 0 ∧ t' = 1 := by constructor <;> omega
      decide)
  (by decide)

end PR
end BMat
end M4ri
