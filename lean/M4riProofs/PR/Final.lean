/-
  PleRussian proofs, the final assembly: from "every strip is a `Reach`" (`StripOK`) to
  `pleRussian A P Q k l2 = pleNaive A P Q`.  Everything lives in `M4ri.BMat.PR`.
-/
import M4riProofs.PR.Naive
namespace M4ri
namespace BMat
namespace PR
open Rec PN

/-- what the strip proof delivers (proved elsewhere) -/
def StripOK (k : Nat) : Prop := ∀ s : St, s.M.WF → s.P.size = s.M.nrows → s.Q.size = s.M.ncols →
  s.currRow < s.M.nrows → s.currCol < s.M.ncols → 1 ≤ s.kk → s.kk ≤ 64 →
  Reach ⟨s.M, s.P, s.Q, s.currRow, s.currCol⟩
    ⟨(strip k s).1.M, (strip k s).1.P, (strip k s).1.Q, (strip k s).1.currRow, (strip k s).1.currCol⟩ ∧
  1 ≤ (strip k s).1.kk ∧ (strip k s).1.kk ≤ 64 ∧
  ((strip k s).2 = true → s.currCol < (strip k s).1.currCol) ∧
  ((strip k s).2 = false → ∀ i j, (strip k s).1.currRow ≤ i → i < s.M.nrows → (strip k s).1.currCol ≤ j → j < s.M.ncols →
    (strip k s).1.M.get i j = false)

/-! ### the choice of `k` -/

theorem chooseK_pos (A : BMat) (k l2 : Nat) : 1 ≤ chooseK A k l2 := by
  unfold chooseK
  simp only []
  split_ifs <;> omega

theorem chooseK_le (A : BMat) (k l2 : Nat) (hk : k ≤ 9) : Gen.pleNTables * chooseK A k l2 ≤ 64 := by
  have e : Gen.pleNTables = 7 := rfl
  rw [e]
  unfold chooseK
  simp only []
  split_ifs <;> omega

/-! ### the main loop -/

theorem fn_mainLoop_succ (k fuel : Nat) (s : St) : mainLoop k (fuel + 1) s =
    if s.currCol < s.M.ncols ∧ s.currRow < s.M.nrows then
      (if (strip k s).2 = true then mainLoop k fuel (strip k s).1 else (strip k s).1) else s := rfl

theorem mainLoop_reach (hstrip : ∀ k, StripOK k) (k : Nat) : ∀ (fuel : Nat) (s : St), s.M.WF → s.P.size = s.M.nrows → s.Q.size = s.M.ncols →
    1 ≤ s.kk → s.kk ≤ 64 → s.M.ncols + 1 ≤ fuel + s.currCol →
    Reach ⟨s.M, s.P, s.Q, s.currRow, s.currCol⟩ ⟨(mainLoop k fuel s).M, (mainLoop k fuel s).P, (mainLoop k fuel s).Q,
      (mainLoop k fuel s).currRow, (mainLoop k fuel s).currCol⟩ ∧
    (∀ i j, (mainLoop k fuel s).currRow ≤ i → i < s.M.nrows → (mainLoop k fuel s).currCol ≤ j → j < s.M.ncols →
      (mainLoop k fuel s).M.get i j = false) := by
  intro fuel
  induction fuel with
  | zero =>
    intro s hM hP hQ hk1 hk2 hf
    have e : mainLoop k 0 s = s := rfl
    rw [e]
    exact ⟨Reach.refl _, fun i j _ _ h3 h4 => by omega⟩
  | succ fuel ih =>
    intro s hM hP hQ hk1 hk2 hf
    rw [fn_mainLoop_succ]
    by_cases hc : s.currCol < s.M.ncols ∧ s.currRow < s.M.nrows
    · rw [if_pos hc]
      obtain ⟨g1, g2, g3, g4, g5⟩ := hstrip k s hM hP hQ hc.2 hc.1 hk1 hk2
      obtain ⟨w1, w2, w3, w4, w5, _⟩ := g1.shape hM hP hQ
      simp only [] at w1 w2 w3 w4 w5
      by_cases hb : (strip k s).2 = true
      · rw [if_pos hb]
        have := g4 hb
        obtain ⟨r1, r2⟩ := ih (strip k s).1 w1 (by rw [w4, w2]; exact hP) (by rw [w5, w3]; exact hQ) g2 g3
          (by rw [w3]; omega)
        refine ⟨g1.trans r1, ?_⟩
        rw [w2, w3] at r2
        exact r2
      · rw [if_neg hb]
        exact ⟨g1, g5 (by simpa using hb)⟩
    · rw [if_neg hc]
      exact ⟨Reach.refl _, fun i j h1 h2 h3 h4 => by omega⟩

/-! ### the compression of `L` -/

/-- phase 1: the column swaps `(Q[j], j)`, `j < n`, in the rows `[j, r)` -/
theorem fn_phase1_get (M : BMat) (Q : Array Nat) (r : Nat) : ∀ (n : Nat), (∀ t, t < n → t ≤ Q.getD t 0) →
    SameShape M ((List.range n).foldl (fun M j => if Q.getD j 0 > j then M.swapColsInRows (Q.getD j 0) j j r else M) M) ∧
    ∀ i c, ((List.range n).foldl (fun M j => if Q.getD j 0 > j then M.swapColsInRows (Q.getD j 0) j j r else M) M).get i c =
      if i < r then M.get i (rowPerm Q (min (i + 1) n) c) else M.get i c := by
  intro n
  induction n with
  | zero => intro _; exact ⟨SameShape.refl M, fun i c => by simp [rowPerm]⟩
  | succ k ih =>
    intro hQ
    obtain ⟨sh, hg⟩ := ih (fun t ht => hQ t (by omega))
    rw [List.range_succ, List.foldl_append]
    simp only [List.foldl_cons, List.foldl_nil]
    generalize (List.range k).foldl (fun M j =>
      if Q.getD j 0 > j then M.swapColsInRows (Q.getD j 0) j j r else M) M = C at sh hg
    by_cases hq : Q.getD k 0 > k
    · rw [if_pos hq]
      refine ⟨sh.trans (swapColsInRows_shape _ _ _ _ _), fun i c => ?_⟩
      rw [swapColsInRows_get]
      by_cases hir : i < r
      · rw [if_pos hir]
        by_cases hki : k ≤ i
        · rw [if_pos ⟨hki, hir⟩, hg i _, if_pos hir, swapIdx_comm]
          have e1 : min (i + 1) (k + 1) = k + 1 := by omega
          have e2 : min (i + 1) k = k := by omega
          rw [e1, e2]; rfl
        · rw [if_neg (fun hh => hki hh.1), hg i _, if_pos hir]
          have e1 : min (i + 1) (k + 1) = min (i + 1) k := by omega
          rw [e1]
      · rw [if_neg (fun hh => hir hh.2), hg i c, if_neg hir, if_neg hir]
    · rw [if_neg hq]
      refine ⟨sh, fun i c => ?_⟩
      rw [hg i c]
      by_cases hir : i < r
      · rw [if_pos hir, if_pos hir]
        by_cases hki : k ≤ i
        · have e1 : min (i + 1) (k + 1) = k + 1 := by omega
          have e2 : min (i + 1) k = k := by omega
          have e3 : Q.getD k 0 = k := by have := hQ k (by omega); omega
          rw [e1, e2]
          show _ = M.get i (rowPerm Q k (swapIdx k (Q.getD k 0) c))
          rw [e3, swapIdx_self]
        · have e1 : min (i + 1) (k + 1) = min (i + 1) k := by omega
          rw [e1]
      · rw [if_neg hir, if_neg hir]

/-- phase 2: the column swaps `(i, Q[i])`, `i < n`, in the rows `[r, nrows)` -/
theorem fn_phase2_get (M : BMat) (Q : Array Nat) (r : Nat) : ∀ (n : Nat),
    SameShape M ((List.range n).foldl (fun M i => M.swapColsInRows i (Q.getD i 0) r M.nrows) M) ∧
    ∀ i c, ((List.range n).foldl (fun M i => M.swapColsInRows i (Q.getD i 0) r M.nrows) M).get i c =
      if r ≤ i ∧ i < M.nrows then M.get i (rowPerm Q n c) else M.get i c := by
  intro n
  induction n with
  | zero => exact ⟨SameShape.refl M, fun i c => by simp [rowPerm]⟩
  | succ k ih =>
    obtain ⟨sh, hg⟩ := ih
    rw [List.range_succ, List.foldl_append]
    simp only [List.foldl_cons, List.foldl_nil]
    generalize (List.range k).foldl (fun M i => M.swapColsInRows i (Q.getD i 0) r M.nrows) M = C at sh hg
    refine ⟨sh.trans (swapColsInRows_shape _ _ _ _ _), fun i c => ?_⟩
    rw [swapColsInRows_get, sh.1]
    by_cases hc : r ≤ i ∧ i < M.nrows
    · rw [if_pos hc, if_pos hc, hg, if_pos hc]
      rfl
    · rw [if_neg hc, if_neg hc, hg, if_neg hc]

theorem compress_two_phase (M : BMat) (Q : Array Nat) (r : Nat) (hM : M.WF) (hr : r ≤ M.nrows) (hrc : r ≤ M.ncols) (hQ : ∀ t, t < r → t ≤ Q.getD t 0 ∧ Q.getD t 0 < M.ncols) :
    (List.range (min r M.ncols)).foldl (fun M i => M.swapColsInRows i (Q.getD i 0) r M.nrows)
      ((List.range r).foldl (fun M j => if Q.getD j 0 > j then M.swapColsInRows (Q.getD j 0) j j r else M) M)
    = PN.compress M Q r := by
  have _ := hr
  obtain ⟨sh1, g1⟩ := fn_phase1_get M Q r r (fun t ht => (hQ t ht).1)
  generalize (List.range r).foldl (fun M j => if Q.getD j 0 > j then M.swapColsInRows (Q.getD j 0) j j r else M) M = M1
    at sh1 g1
  obtain ⟨sh2, g2⟩ := fn_phase2_get M1 Q r (min r M.ncols)
  generalize (List.range (min r M.ncols)).foldl (fun M i => M.swapColsInRows i (Q.getD i 0) r M.nrows) M1 = M2
    at sh2 g2
  obtain ⟨sh3, g3⟩ := compress_get M Q r (fun t ht => (hQ t ht).1)
  generalize PN.compress M Q r = M3 at sh3 g3
  apply ext_rows (by rw [sh2.1, sh1.1, sh3.1]) (by rw [sh2.2.1, sh1.2.1, sh3.2.1]) (by rw [sh2.2.2, sh1.2.2, sh3.2.2])
  intro i hi
  rw [sh2.2.2, sh1.2.2, hM.1] at hi
  apply Nat.eq_of_testBit_eq
  intro c
  show M2.get i c = M3.get i c
  rw [g2, g3 i c hi, sh1.1]
  have e : min r M.ncols = r := by omega
  by_cases hir : i < r
  · rw [if_neg (by omega), g1, if_pos hir]
  · rw [if_pos ⟨by omega, hi⟩, g1, if_neg hir, e]
    have e2 : min (i + 1) r = r := by omega
    rw [e2]

/-! ### the theorem -/

theorem fn_pleRussian_unfold (A : BMat) (P Q : Array Nat) (k l2 : Nat) :
    pleRussian A P Q k l2 =
      let s := mainLoop (chooseK A k l2) (A.ncols + 1)
        ⟨A, (List.range A.nrows).foldl (fun P i => P.setIfInBounds i i) P,
          (List.range A.ncols).foldl (fun Q i => Q.setIfInBounds i i) Q, 0, 0, Gen.pleNTables * chooseK A k l2⟩
      let M1 := (List.range s.currRow).foldl (fun M j =>
        if s.Q.getD j 0 > j then M.swapColsInRows (s.Q.getD j 0) j j s.currRow else M) s.M
      ((List.range (min s.currRow M1.ncols)).foldl (fun M i => M.swapColsInRows i (s.Q.getD i 0) s.currRow M.nrows) M1,
        s.P, s.Q, s.currRow) := rfl

/-- the identity fill of a whole array -/
theorem fn_fill_id (P : Array Nat) (n : Nat) (hP : P.size = n) :
    ((List.range n).foldl (fun P i => P.setIfInBounds i i) P).size = n ∧
    ∀ p, p < n → ((List.range n).foldl (fun P i => P.setIfInBounds i i) P).getD p 0 = p := by
  rw [List.range_eq_range']
  obtain ⟨a1, a2⟩ := fill_spec n 0 P
  refine ⟨a1.trans hP, fun p hp => ?_⟩
  rw [a2, if_pos ⟨Nat.zero_le _, by omega, by omega⟩]

/-- a fill from `r` on changes nothing in an array that is the identity there -/
theorem fn_fill_noop (P : Array Nat) (r n : Nat) (hP : P.size = n) (h : ∀ x, r ≤ x → x < n → P.getD x 0 = x) :
    (List.range' r (n - r)).foldl (fun P i => P.setIfInBounds i i) P = P := by
  obtain ⟨a1, a2⟩ := fill_spec (n - r) r P
  apply ext_getD _ _ a1
  intro p hp
  rw [a1, hP] at hp
  rw [a2]
  split
  · next hh => exact (h p hh.1 hp).symm
  · rfl

theorem pleRussian_eq_pleNaive_of (hstrip : ∀ k, StripOK k) {A : BMat} (hA : A.WF) {P Q : Array Nat}
    (hP : P.size = A.nrows) (hQ : Q.size = A.ncols) (k l2 : Nat) (hk : k ≤ 9) :
    pleRussian A P Q k l2 = pleNaive A P Q := by
  obtain ⟨ps, pg⟩ := fn_fill_id P A.nrows hP
  obtain ⟨qs, qg⟩ := fn_fill_id Q A.ncols hQ
  rw [fn_pleRussian_unfold, pleNaive_indep hA hP hQ ps qs]
  generalize (List.range A.nrows).foldl (fun P i => P.setIfInBounds i i) P = Pid at ps pg
  generalize (List.range A.ncols).foldl (fun Q i => Q.setIfInBounds i i) Q = Qid at qs qg
  obtain ⟨hR, hz⟩ := mainLoop_reach hstrip (chooseK A k l2) (A.ncols + 1)
    ⟨A, Pid, Qid, 0, 0, Gen.pleNTables * chooseK A k l2⟩ hA ps qs
    (Nat.le_trans (chooseK_pos A k l2) (Nat.le_mul_of_pos_left _ (by decide)))
    (chooseK_le A k l2 hk) (Nat.le_refl _)
  generalize mainLoop (chooseK A k l2) (A.ncols + 1) ⟨A, Pid, Qid, 0, 0, Gen.pleNTables * chooseK A k l2⟩ = s at hR hz
  simp only [] at hR hz
  have hI := hR.inv (PN.Inv.init hA ps qs)
  simp only [] at hI
  obtain ⟨_, _, _, _, _, _, _, sP, sQ, _⟩ := hR.shape hA ps qs
  simp only [] at sP sQ
  have hrn : s.currRow ≤ A.ncols := Nat.le_trans hI.rp_cp hI.cp_le
  have hgo := hR.go hA (by simp only []; rw [hI.nr, hI.nc]; exact hz) (min A.nrows A.ncols + 1)
    (by simp only []; have := hI.rp_le; omega)
  simp only [] at hgo
  rw [pleNaive_unfold A Pid Qid hgo]
  have eP : (List.range' s.currRow (s.M.nrows - s.currRow)).foldl (fun P i => P.setIfInBounds i i) s.P = s.P :=
    fn_fill_noop s.P s.currRow s.M.nrows (by rw [hI.psz, hI.nr])
      (fun x h1 h2 => by rw [sP x h1]; exact pg x (by rw [← hI.nr]; exact h2))
  have eQ : (List.range' s.currRow (s.M.ncols - s.currRow)).foldl (fun Q i => Q.setIfInBounds i i) s.Q = s.Q :=
    fn_fill_noop s.Q s.currRow s.M.ncols (by rw [hI.qsz, hI.nc])
      (fun x h1 h2 => by rw [sQ x h1]; exact qg x (by rw [← hI.nc]; exact h2))
  rw [eP, eQ]
  simp only []
  rw [(fn_phase1_get s.M s.Q s.currRow s.currRow (fun t ht => (hI.qrange t ht).1)).1.2.1,
    compress_two_phase s.M s.Q s.currRow hI.wf (by rw [hI.nr]; exact hI.rp_le) (by rw [hI.nc]; exact hrn)
      (fun t ht => ⟨(hI.qrange t ht).1, by rw [hI.nc]; have := (hI.qrange t ht).2; have := hI.cp_le; omega⟩)]


/-! ### non-vacuity -/

/-- the hypotheses of `StripOK` are satisfiable -/
example : ∃ s : St, s.M.WF ∧ s.P.size = s.M.nrows ∧ s.Q.size = s.M.ncols ∧ s.currRow < s.M.nrows ∧
    s.currCol < s.M.ncols ∧ 1 ≤ s.kk ∧ s.kk ≤ 64 := by
  refine ⟨⟨⟨1, 1, #[1]⟩, #[0], #[0], 0, 0, 14⟩, ⟨rfl, fun i => ?_⟩, rfl, rfl, by decide, by decide, by decide, by decide⟩
  by_cases h : i < 1
  · have : i = 0 := by omega
    subst this; decide
  · rw [row_of_ge _ _ (by show 1 ≤ i; omega)]; exact Nat.two_pow_pos _

/-- an instance of the conclusion (3 × 4, rank 2, junk in `P`, `Q`) -/
example : pleRussian ⟨3, 4, #[10, 2, 8]⟩ #[7, 7, 7] #[9, 9, 9, 9] 2 = pleNaive ⟨3, 4, #[10, 2, 8]⟩ #[7, 7, 7] #[9, 9, 9, 9] := by
  decide +kernel

end PR
end BMat
end M4ri
