/-
  PleRussian proofs, the naive side: the pivot search, one naive round on rows, the reachability relation
  `Reach` (closure, invariant, shape, and the link to `pleNaive.go`), the row swaps `swapsBy` and the closed
  form `CF` of a run of rounds.  Everything lives in `M4ri.BMat.PR`.
-/
import M4riProofs.PR.Base
namespace M4ri
namespace BMat
namespace PR
open Rec PN

/-! ### the pivot search -/

/-- full characterisation of a successful search (adds the "first row" part to `PN.search_some`) -/
theorem nv_search_some_full {M : BMat} {rp cp i j : Nat} (h : search M rp cp = some (i, j)) :
    rp ≤ i ∧ i < M.nrows ∧ cp ≤ j ∧ j < M.ncols ∧ M.get i j = true ∧
    (∀ i', rp ≤ i' → i' < i → M.get i' j = false) ∧
    ∀ i' j', rp ≤ i' → i' < M.nrows → cp ≤ j' → j' < j → M.get i' j' = false := by
  obtain ⟨s1, s2, s3, s4, s5, s6⟩ := search_some h
  refine ⟨s1, s2, s3, s4, s5, ?_, s6⟩
  obtain ⟨j1, a1, a2, a3, a4⟩ := (findSome_range' _ _ _).2 _ h
  rw [Option.map_eq_some_iff] at a3
  obtain ⟨i1, b1, b2⟩ := a3
  have e1 : i1 = i := congrArg Prod.fst b2
  have e2 : j1 = j := congrArg Prod.snd b2
  subst e1; subst e2
  obtain ⟨_, _, c3⟩ := List.find?_range'_eq_some.mp b1
  intro i' h1 h2
  have := c3 i' h1 h2
  simpa using this

theorem search_eq_none {M : BMat} {rp cp : Nat}
    (h : ∀ i j, rp ≤ i → i < M.nrows → cp ≤ j → j < M.ncols → M.get i j = false) : search M rp cp = none := by
  cases hs : search M rp cp with
  | none => rfl
  | some p =>
    obtain ⟨i, j⟩ := p
    obtain ⟨s1, s2, s3, s4, s5, _⟩ := search_some hs
    rw [h i j s1 s2 s3 s4] at s5
    cases s5

theorem search_eq_some {M : BMat} {rp cp i j : Nat} (h1 : rp ≤ i) (h2 : i < M.nrows) (h3 : cp ≤ j) (h4 : j < M.ncols)
    (h5 : M.get i j = true) (h6 : ∀ i', rp ≤ i' → i' < i → M.get i' j = false)
    (h7 : ∀ i' j', rp ≤ i' → i' < M.nrows → cp ≤ j' → j' < j → M.get i' j' = false) : search M rp cp = some (i, j) := by
  cases hs : search M rp cp with
  | none =>
    have := search_none hs i j h1 h2 h3 h4
    rw [this] at h5; cases h5
  | some p =>
    obtain ⟨i1, j1⟩ := p
    obtain ⟨s1, s2, s3, s4, s5, s6, s7⟩ := nv_search_some_full hs
    have ej : j1 = j := by
      by_cases c1 : j1 < j
      · have := h7 i1 j1 s1 s2 s3 c1
        rw [this] at s5; cases s5
      · by_cases c2 : j < j1
        · have := s7 i j h1 h2 h3 c2
          rw [this] at h5; cases h5
        · omega
    subst ej
    have ei : i1 = i := by
      by_cases c1 : i1 < i
      · have := h6 i1 s1 c1
        rw [this] at s5; cases s5
      · by_cases c2 : i < i1
        · have := s6 i h1 c2
          rw [this] at h5; cases h5
        · omega
    subst ei
    rfl

theorem findPivotB_eq_search (M : BMat) (rp cp : Nat) : M4RI.findPivotB M rp cp = search M rp cp := rfl

/-- moving the column cursor over columns that are zero from row `rp` on does not change the search -/
theorem nv_search_skip {M : BMat} {rp cp cp' : Nat} (h1 : cp ≤ cp')
    (hz : ∀ i j, rp ≤ i → i < M.nrows → cp ≤ j → j < cp' → M.get i j = false) :
    search M rp cp = search M rp cp' := by
  cases hs : search M rp cp' with
  | none =>
    apply search_eq_none
    intro i j a1 a2 a3 a4
    by_cases c : j < cp'
    · exact hz i j a1 a2 a3 c
    · exact search_none hs i j a1 a2 (by omega) a4
  | some p =>
    obtain ⟨i1, j1⟩ := p
    obtain ⟨s1, s2, s3, s4, s5, s6, s7⟩ := nv_search_some_full hs
    apply search_eq_some s1 s2 (by omega) s4 s5 s6
    intro i' j' a1 a2 a3 a4
    by_cases c : j' < cp'
    · exact hz i' j' a1 a2 a3 c
    · exact s7 i' j' a1 a2 (by omega) a4

/-! ### one naive round, on rows -/

theorem stepM_row {M : BMat} (hM : M.WF) {rp i j : Nat} (hrp : rp < M.nrows) (hi : i < M.nrows) (x : Nat) :
    (stepM M rp i j).row x =
      if rp < x ∧ x < M.nrows then elimRow (M.row i) j M.ncols ((M.swapRows rp i).row x) else (M.swapRows rp i).row x := by
  obtain ⟨_, _, _, w4⟩ := stepM_spec hM (rp := rp) (i := i) (j := j) hrp hi
  have hg : ∀ l k, (M.swapRows rp i).get l k = M.get (swapIdx rp i l) k :=
    fun l k => swapRows_get M rp i (by rw [hM.1]; exact hrp) (by rw [hM.1]; exact hi) l k
  apply Nat.eq_of_testBit_eq
  intro k
  have e1 : ((stepM M rp i j).row x).testBit k = (stepM M rp i j).get x k := rfl
  rw [e1, w4]
  by_cases hc : rp < x ∧ x < M.nrows
  · rw [if_pos hc, elimRow_testBit, decide_eq_true hc]
    have e2 : ∀ k, ((M.swapRows rp i).row x).testBit k = M.get (swapIdx rp i x) k := fun k => hg x k
    rw [e2, e2]
    have e3 : (M.row i).testBit k = M.get i k := rfl
    rw [e3]
    by_cases hk : k < M.ncols
    · have : decide (j < k ∧ k < M.ncols) = decide (j < k) := by apply decide_eq_decide.mpr; omega
      rw [this]
      cases decide (j < k) <;> cases M.get (swapIdx rp i x) j <;> cases M.get i k <;> rfl
    · rw [get_of_ge_ncols hM i k (by omega)]; simp
  · rw [if_neg hc, decide_eq_false hc]
    have e2 : ((M.swapRows rp i).row x).testBit k = M.get (swapIdx rp i x) k := hg x k
    rw [e2]; simp

/-! ### `Reach` -/

theorem Reach.trans {s t u : NSt} (h1 : Reach s t) (h2 : Reach t u) : Reach s u := by
  induction h1 with
  | refl s => exact h2
  | pivot i j hs _ ih => exact Reach.pivot i j hs (ih h2)
  | skip cp' a1 a2 hz _ ih => exact Reach.skip cp' a1 a2 hz (ih h2)

theorem Reach.snoc_pivot {s t : NSt} (h : Reach s t) (i j : Nat) (hs : search t.M t.rp t.cp = some (i, j)) :
    Reach s ⟨stepM t.M t.rp i j, t.P.setIfInBounds t.rp i, t.Q.setIfInBounds t.rp j, t.rp + 1, j + 1⟩ :=
  h.trans (Reach.pivot i j hs (Reach.refl _))

theorem Reach.snoc_skip {s t : NSt} (h : Reach s t) (cp' : Nat) (h1 : t.cp ≤ cp') (h2 : cp' ≤ t.M.ncols)
    (hz : ∀ i j, t.rp ≤ i → i < t.M.nrows → t.cp ≤ j → j < cp' → t.M.get i j = false) : Reach s ⟨t.M, t.P, t.Q, t.rp, cp'⟩ :=
  h.trans (Reach.skip cp' h1 h2 hz (Reach.refl _))

/-- the invariant survives a column skip -/
theorem nv_Inv_skip {A M : BMat} {P Q : Array Nat} {rp cp cp' : Nat} (h : PN.Inv A M P Q rp cp)
    (h1 : cp ≤ cp') (h2 : cp' ≤ M.ncols)
    (hz : ∀ i j, rp ≤ i → i < M.nrows → cp ≤ j → j < cp' → M.get i j = false) : PN.Inv A M P Q rp cp' := by
  rw [h.nc] at h2; rw [h.nr] at hz
  refine ⟨h.wf, h.nr, h.nc, h.psz, h.qsz, h.rp_le, Nat.le_trans h.rp_cp h1, h2, h.prange,
    fun t ht => ?_, h.qmono, h.piv, ?_, ?_⟩
  · have := h.qrange t ht; omega
  · intro i c hi hc1 hc2 hc3
    by_cases c1 : c < cp
    · exact h.zeros i c hi hc1 c1 hc3
    · by_cases c2 : i < rp
      · have := hc1 c2; have := h.qrange i c2; omega
      · exact hz i c (by omega) hi (by omega) hc2
  · intro i j hi hj
    rw [h.prod i j hi hj]
    congr 1
    by_cases c1 : rp ≤ i
    · by_cases c2 : cp' ≤ j
      · rw [decide_eq_true (by omega : cp ≤ j), decide_eq_true c2]
      · by_cases c3 : cp ≤ j
        · rw [hz i j c1 hi c3 (by omega)]; simp
        · rw [decide_eq_false c2, decide_eq_false c3]
    · rw [decide_eq_false c1]; simp

theorem Reach.inv {A : BMat} {s t : NSt} (h : Reach s t) (hI : PN.Inv A s.M s.P s.Q s.rp s.cp) : PN.Inv A t.M t.P t.Q t.rp t.cp := by
  induction h with
  | refl s => exact hI
  | pivot i j hs _ ih => exact ih (hI.step hs)
  | skip cp' a1 a2 hz _ ih => exact ih (nv_Inv_skip hI a1 a2 hz)

theorem Reach.rp_le {s t : NSt} (h : Reach s t) : s.rp ≤ t.rp := by
  induction h with
  | refl s => exact Nat.le_refl _
  | pivot i j hs _ ih => exact Nat.le_trans (Nat.le_succ _) ih
  | skip cp' a1 a2 hz _ ih => exact ih

theorem Reach.shape {s t : NSt} (h : Reach s t) (hM : s.M.WF) (hP : s.P.size = s.M.nrows) (hQ : s.Q.size = s.M.ncols) :
    t.M.WF ∧ t.M.nrows = s.M.nrows ∧ t.M.ncols = s.M.ncols ∧ t.P.size = s.P.size ∧ t.Q.size = s.Q.size ∧
    s.rp ≤ t.rp ∧ s.cp ≤ t.cp ∧
    (∀ x, t.rp ≤ x → t.P.getD x 0 = s.P.getD x 0) ∧ (∀ x, t.rp ≤ x → t.Q.getD x 0 = s.Q.getD x 0) ∧
    (∀ x, x < s.rp → t.M.row x = s.M.row x) := by
  induction h with
  | refl s =>
    exact ⟨hM, rfl, rfl, rfl, rfl, Nat.le_refl _, Nat.le_refl _, fun _ _ => rfl, fun _ _ => rfl, fun _ _ => rfl⟩
  | @pivot s t i j hs _ ih =>
    obtain ⟨s1, s2, s3, s4, _, _⟩ := search_some hs
    obtain ⟨w1, w2, w3, _⟩ := stepM_spec hM (rp := s.rp) (i := i) (j := j) (by omega) s2
    obtain ⟨i1, i2, i3, i4, i5, i6, i7, i8, i9, i10⟩ := ih w1
      (by simp only [Array.size_setIfInBounds]; rw [w2]; exact hP)
      (by simp only [Array.size_setIfInBounds]; rw [w3]; exact hQ)
    simp only [Array.size_setIfInBounds] at i4 i5
    simp only [] at i2 i3 i6 i7 i8 i9 i10
    refine ⟨i1, by rw [i2, w2], by rw [i3, w3], i4, i5, by omega, by omega, fun x hx => ?_, fun x hx => ?_,
      fun x hx => ?_⟩
    · rw [i8 x hx, getD_set, if_neg (by omega)]
    · rw [i9 x hx, getD_set, if_neg (by omega)]
    · rw [i10 x (by omega), stepM_row hM (by omega) s2, if_neg (by omega),
        row_swapRows hM _ _ _ (by omega) s2, if_neg (by omega), if_neg (by omega)]
  | @skip s t cp' a1 a2 hz _ ih =>
    obtain ⟨i1, i2, i3, i4, i5, i6, i7, i8, i9, i10⟩ := ih hM hP hQ
    exact ⟨i1, i2, i3, i4, i5, i6, Nat.le_trans a1 i7, i8, i9, i10⟩

/-- `pleNaive.go` does not see a column skip -/
theorem nv_go_skip {M : BMat} (P Q : Array Nat) {rp cp cp' : Nat} (h1 : cp ≤ cp') (h2 : cp' ≤ M.ncols)
    (hz : ∀ i j, rp ≤ i → i < M.nrows → cp ≤ j → j < cp' → M.get i j = false) (fuel : Nat) :
    pleNaive.go fuel M P Q rp cp = pleNaive.go fuel M P Q rp cp' := by
  cases fuel with
  | zero => rfl
  | succ fuel =>
    rw [go_succ, go_succ]
    by_cases hr : rp < M.nrows
    · by_cases hc' : cp' < M.ncols
      · rw [if_neg (by simp only [Decidable.not_not]; exact ⟨hr, by omega⟩),
          if_neg (by simp only [Decidable.not_not]; exact ⟨hr, hc'⟩), nv_search_skip h1 hz]
      · rw [if_pos (fun hh => hc' hh.2 : ¬ (rp < M.nrows ∧ cp' < M.ncols))]
        by_cases hc : cp < M.ncols
        · rw [if_neg (by simp only [Decidable.not_not]; exact ⟨hr, hc⟩)]
          have : search M rp cp = none :=
            search_eq_none (fun i j a1 a2 a3 a4 => hz i j a1 a2 a3 (by omega))
          rw [this]
        · rw [if_pos (fun hh => hc hh.2 : ¬ (rp < M.nrows ∧ cp < M.ncols))]
    · rw [if_pos (fun hh => hr hh.1), if_pos (fun hh => hr hh.1)]

theorem Reach.go {s t : NSt} (h : Reach s t) (hM : s.M.WF)
    (hterm : ∀ i j, t.rp ≤ i → i < t.M.nrows → t.cp ≤ j → j < t.M.ncols → t.M.get i j = false)
    (fuel : Nat) (hf : t.rp - s.rp ≤ fuel) :
    pleNaive.go fuel s.M s.P s.Q s.rp s.cp = (t.M, t.P, t.Q, t.rp) := by
  induction h generalizing fuel with
  | refl s =>
    cases fuel with
    | zero => rfl
    | succ fuel =>
      rw [go_succ]
      by_cases hc : s.rp < s.M.nrows ∧ s.cp < s.M.ncols
      · rw [if_neg (by simp only [Decidable.not_not]; exact hc), search_eq_none hterm]
      · rw [if_pos hc]
  | @pivot s t i j hs hr ih =>
    obtain ⟨s1, s2, s3, s4, _, _⟩ := search_some hs
    obtain ⟨w1, _, _, _⟩ := stepM_spec hM (rp := s.rp) (i := i) (j := j) (by omega) s2
    have := hr.rp_le
    simp only [] at this
    cases fuel with
    | zero => omega
    | succ fuel =>
      rw [go_succ, if_neg (by simp only [Decidable.not_not]; exact ⟨by omega, by omega⟩), hs]
      exact ih w1 hterm fuel (by simp only []; omega)
  | @skip s t cp' a1 a2 hz _ ih =>
    rw [nv_go_skip s.P s.Q a1 a2 hz fuel]
    exact ih hM hterm fuel hf

/-! ### `swapsBy` -/

theorem swapsBy_zero (P : Array Nat) (rp : Nat) (M : BMat) : swapsBy P rp 0 M = M := rfl

theorem swapsBy_succ (P : Array Nat) (rp s : Nat) (M : BMat) :
    swapsBy P rp (s + 1) M = (swapsBy P rp s M).swapRows (rp + s) (P.getD (rp + s) 0) := by
  unfold swapsBy
  rw [List.range_succ, List.foldl_append]
  rfl

theorem swapsBy_congr {P P' : Array Nat} (rp s : Nat) (M : BMat) (h : ∀ t, t < s → P.getD (rp + t) 0 = P'.getD (rp + t) 0) :
    swapsBy P rp s M = swapsBy P' rp s M := by
  induction s with
  | zero => rfl
  | succ s ih =>
    rw [swapsBy_succ, swapsBy_succ, ih (fun t ht => h t (by omega)), h s (by omega)]

theorem swapsBy_shape (P : Array Nat) (rp s : Nat) {M : BMat} (hM : M.WF) :
    (swapsBy P rp s M).WF ∧ (swapsBy P rp s M).nrows = M.nrows ∧ (swapsBy P rp s M).ncols = M.ncols := by
  induction s with
  | zero => exact ⟨hM, rfl, rfl⟩
  | succ s ih =>
    rw [swapsBy_succ]
    exact ⟨WF_swapRows ih.1 _ _, by rw [nrows_swapRows]; exact ih.2.1, by rw [ncols_swapRows]; exact ih.2.2⟩

theorem swapsBy_row_of_not_mem {P : Array Nat} {rp s : Nat} {M : BMat} (hM : M.WF) (x : Nat)
    (hb : ∀ t, t < s → rp + t < M.nrows ∧ P.getD (rp + t) 0 < M.nrows)
    (hx : ∀ t, t < s → x ≠ rp + t ∧ x ≠ P.getD (rp + t) 0) : (swapsBy P rp s M).row x = M.row x := by
  induction s with
  | zero => rfl
  | succ s ih =>
    obtain ⟨w1, w2, _⟩ := swapsBy_shape P rp s hM
    obtain ⟨b1, b2⟩ := hb s (by omega)
    obtain ⟨x1, x2⟩ := hx s (by omega)
    rw [swapsBy_succ, row_swapRows w1 _ _ _ (by rw [w2]; exact b1) (by rw [w2]; exact b2), if_neg x1, if_neg x2]
    exact ih (fun t ht => hb t (by omega)) (fun t ht => hx t (by omega))

/-! ### the closed form -/

theorem CF.init (M0 : BMat) (P : Array Nat) (rp : Nat) (c : Nat → Nat) : CF M0 M0 P rp c 0 := by
  intro x _
  rw [Nat.zero_min, List.range_zero, elimSeq_nil, swapsBy_zero]

theorem CF.step {M0 N : BMat} {P : Array Nat} {rp s i j : Nat} {c : Nat → Nat}
    (hM0 : M0.WF) (hN : N.WF) (hnr : N.nrows = M0.nrows) (hnc : N.ncols = M0.ncols) (hP : P.size = M0.nrows)
    (hcf : CF M0 N P rp c s) (h1 : rp + s ≤ i) (h2 : i < M0.nrows) (hc : c s = j) :
    CF M0 (stepM N (rp + s) i j) (P.setIfInBounds (rp + s) i) rp c (s + 1) := by
  obtain ⟨w1, w2, w3⟩ := swapsBy_shape P rp s hM0
  have hrs : rp + s < N.nrows := by omega
  have hiN : i < N.nrows := by omega
  -- the swapped original
  have hS : swapsBy (P.setIfInBounds (rp + s) i) rp (s + 1) M0 = (swapsBy P rp s M0).swapRows (rp + s) i := by
    rw [swapsBy_succ, getD_set, if_pos ⟨rfl, by omega⟩]
    congr 1
    apply swapsBy_congr
    intro t ht
    rw [getD_set, if_neg (by omega)]
  -- the pivot rows of the new state
  have hlow : ∀ x, x < rp + s → (stepM N (rp + s) i j).row x = N.row x := by
    intro x hx
    rw [stepM_row hN hrs hiN, if_neg (by omega), row_swapRows hN _ _ _ hrs hiN, if_neg (by omega), if_neg (by omega)]
  have hpiv : (stepM N (rp + s) i j).row (rp + s) = N.row i := by
    rw [stepM_row hN hrs hiN, if_neg (by omega), row_swapRows hN _ _ _ hrs hiN, if_pos rfl]
  have hcong : ∀ (n : Nat) (v : Nat), n ≤ s →
      elimSeq (fun t => (stepM N (rp + s) i j).row (rp + t)) c M0.ncols (List.range n) v =
      elimSeq (fun t => N.row (rp + t)) c M0.ncols (List.range n) v := by
    intro n v hn
    apply elimSeq_congr
    intro t ht
    have : t < n := List.mem_range.mp ht
    refine ⟨rfl, ?_⟩
    rw [hlow (rp + t) (by omega)]
  intro x hx
  rw [hS, row_swapRows w1 _ _ _ (by omega) (by omega)]
  by_cases c1 : x < rp + s
  · rw [hlow x c1, if_neg (by omega), if_neg (by omega)]
    have e : min (s + 1) (x - rp) = min s (x - rp) := by omega
    rw [e, hcong _ _ (Nat.min_le_left _ _)]
    exact hcf x hx
  · by_cases c2 : x = rp + s
    · subst c2
      rw [hpiv, if_pos rfl]
      have e : min (s + 1) (rp + s - rp) = s := by omega
      rw [e, hcong _ _ (Nat.le_refl _)]
      have := hcf i h2
      have e' : min s (i - rp) = s := by omega
      rw [e'] at this
      exact this
    · rw [if_neg c2]
      have e : min (s + 1) (x - rp) = s + 1 := by omega
      rw [e, List.range_succ, elimSeq_append, hcong _ _ (Nat.le_refl _), elimSeq_cons, elimSeq_nil]
      rw [hpiv, hc, stepM_row hN hrs hiN, if_pos ⟨by omega, by omega⟩, row_swapRows hN _ _ _ hrs hiN, if_neg c2, hnc]
      by_cases c3 : x = i
      · rw [if_pos c3, if_pos c3]
        have := hcf (rp + s) (by omega)
        have e' : min s (rp + s - rp) = s := by omega
        rw [e'] at this
        rw [this]
      · rw [if_neg c3, if_neg c3]
        have := hcf x hx
        have e' : min s (x - rp) = s := by omega
        rw [e'] at this
        rw [this]


/-! ### non-vacuity -/

/-- a 2 × 2 run: pivot `(1, 0)`, then pivot `(1, 1)` -/
example : Reach ⟨⟨2, 2, #[2, 3]⟩, #[0, 1], #[0, 1], 0, 0⟩ ⟨⟨2, 2, #[3, 2]⟩, #[1, 1], #[0, 1], 2, 2⟩ :=
  Reach.pivot 1 0 (by decide) (Reach.pivot 1 1 (by decide) (Reach.refl _))

/-- a skip over a zero column, then a pivot -/
example : Reach ⟨⟨2, 2, #[2, 2]⟩, #[0, 1], #[0, 1], 0, 0⟩ ⟨⟨2, 2, #[2, 2]⟩, #[0, 1], #[1, 1], 1, 2⟩ :=
  Reach.skip 1 (by decide) (by decide)
    (fun i j _ h2 _ h4 => by
      have hj : j = 0 := by omega
      have hi : i = 0 ∨ i = 1 := by simp only [] at h2; omega
      subst hj; rcases hi with rfl | rfl <;> decide)
    (Reach.pivot 0 1 (by decide) (Reach.refl _))

example : CF ⟨2, 2, #[2, 3]⟩ ⟨2, 2, #[2, 3]⟩ #[0, 1] 0 (fun _ => 0) 0 := CF.init _ _ _ _

end PR
end BMat
end M4ri
