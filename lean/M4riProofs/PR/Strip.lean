/-
  PleRussian proofs, part 3: one pass of the main loop of `_mzd_ple_russian` (`strip`) is a run of the naive algorithm.
  After `_mzd_ple_submatrix` the window columns of the rows `≤ done_row` are the naive ones (Sub.lean); the columns to the
  right are brought up by `_mzd_ple_a10` (pivot rows) and `_mzd_ple_a11` (multiplication tables); the rows below `done_row`
  are eliminated as a whole by `_mzd_process_rows_ple` (elimination tables).
-/
import M4riProofs.PR.Sub
import M4riProofs.PR.Tables
import M4riProofs.PR.Final
namespace M4ri
namespace BMat
namespace PR
open Rec PN

/-! ### small helpers -/

theorem eq_of_low_high {v w wc n : Nat} (hv : v < 2 ^ n) (hw : w < 2 ^ n) (hl : LowEq wc v w)
    (hh : part v wc n = part w wc n) : v = w := by
  apply Nat.eq_of_testBit_eq
  intro j
  by_cases h1 : j < wc
  · exact hl.bit h1
  · by_cases h2 : j < n
    · have := congrArg (fun z => Nat.testBit z j) hh
      simp only [testBit_part] at this
      simpa [show wc ≤ j ∧ j < n from ⟨by omega, h2⟩] using this
    · rw [Nat.testBit_lt_two_pow (Nat.lt_of_lt_of_le hv (Nat.pow_le_pow_right (by omega) (by omega))),
        Nat.testBit_lt_two_pow (Nat.lt_of_lt_of_le hw (Nat.pow_le_pow_right (by omega) (by omega)))]

theorem xfold_congr {n : Nat} {f g : Nat → Nat} (h : ∀ t, t < n → f t = g t) : xfold n f = xfold n g := by
  unfold xfold
  induction n with
  | zero => rfl
  | succ n ih =>
    rw [List.range_succ, List.foldl_append, List.foldl_append, ih (fun t ht => h t (by omega))]
    simp only [List.foldl_cons, List.foldl_nil]
    rw [h n (Nat.lt_succ_self _)]

theorem xfold_zero_fn (n : Nat) : xfold n (fun _ => 0) = 0 := by
  unfold xfold
  induction n with
  | zero => rfl
  | succ n ih => rw [List.range_succ, List.foldl_append, ih]; simp

/-- if two matrices agree on the columns `[lo, n)` row by row, so do their row-swapped versions -/
theorem swapsBy_part {A B : BMat} (hA : A.WF) (hB : B.WF) (hnr : A.nrows = B.nrows) (P : Array Nat) (rp lo n : Nat)
    (h : ∀ x, part (A.row x) lo n = part (B.row x) lo n) : ∀ (s : Nat),
    (∀ t, t < s → rp + t < A.nrows ∧ P.getD (rp + t) 0 < A.nrows) →
    ∀ x, part ((swapsBy P rp s A).row x) lo n = part ((swapsBy P rp s B).row x) lo n := by
  intro s
  induction s with
  | zero => intro _ x; rw [swapsBy_zero, swapsBy_zero]; exact h x
  | succ s ih =>
    intro hb x
    have ih' := ih (fun t ht => hb t (by omega))
    obtain ⟨a1, a2, _⟩ := swapsBy_shape P rp s hA
    obtain ⟨b1, b2, _⟩ := swapsBy_shape P rp s hB
    obtain ⟨c1, c2⟩ := hb s (Nat.lt_succ_self _)
    rw [swapsBy_succ, swapsBy_succ, row_swapRows a1 _ _ _ (by rw [a2]; exact c1) (by rw [a2]; exact c2),
      row_swapRows b1 _ _ _ (by rw [b2, ← hnr]; exact c1) (by rw [b2, ← hnr]; exact c2)]
    split
    · exact ih' _
    · split
      · exact ih' _
      · exact ih' _

theorem size_toE (M : BMat) (r c k : Nat) (offsets : Array Nat) : (toE M r c k offsets).size = k := by
  simp [toE]

theorem getD_toE (M : BMat) (r c k : Nat) (offsets : Array Nat) (t : Nat) (ht : t < k) :
    (toE M r c k offsets).getD t 0 =
      ((M.row (r + t)) % 2 ^ (64 * (c / 64))) |||
        (((M.row (r + t)) >>> (c + offsets.getD t 0)) <<< (c + offsets.getD t 0)) := by
  simp [toE, Array.getD, ht]

theorem testBit_toE (M : BMat) (r c k : Nat) (offsets : Array Nat) (t : Nat) (ht : t < k) (j : Nat) :
    ((toE M r c k offsets).getD t 0).testBit j =
      ((decide (j < 64 * (c / 64)) || decide (c + offsets.getD t 0 ≤ j)) && (M.row (r + t)).testBit j) := by
  rw [getD_toE _ _ _ _ _ _ ht, Nat.testBit_or, Nat.testBit_mod_two_pow, testBit_shift_back]
  cases decide (j < 64 * (c / 64)) <;> cases decide (c + offsets.getD t 0 ≤ j) <;> simp

theorem toE_lt {M : BMat} (hM : M.WF) (r c k : Nat) (offsets : Array Nat) (t : Nat) (ht : t < k) :
    (toE M r c k offsets).getD t 0 < 2 ^ M.ncols := by
  apply Nat.lt_pow_two_of_testBit
  intro j hj
  rw [testBit_toE _ _ _ _ _ _ ht]
  have : (M.row (r + t)).testBit j = false :=
    Nat.testBit_lt_two_pow (Nat.lt_of_lt_of_le (hM.2 _) (Nat.pow_le_pow_right (by omega) hj))
  simp [this]

/-- right of the pivot column the extracted row is the matrix row -/
theorem part_toE (M : BMat) (r c k : Nat) (offsets : Array Nat) (t : Nat) (ht : t < k) (lo n : Nat)
    (hlo : c + offsets.getD t 0 ≤ lo) :
    part ((toE M r c k offsets).getD t 0) lo n = part (M.row (r + t)) lo n := by
  apply Nat.eq_of_testBit_eq
  intro j
  rw [testBit_part, testBit_part, testBit_toE _ _ _ _ _ _ ht]
  by_cases h : lo ≤ j ∧ j < n
  · have : c + offsets.getD t 0 ≤ j := by omega
    rw [decide_eq_true this, decide_eq_true h]
    simp
  · rw [decide_eq_false h]
    simp

/-! ### the columns right of the window -/

section
variable {C : Ctx} (hC : C.OK)
include hC

omit hC in
theorem width_eq {A B : BMat} (h : A.ncols = B.ncols) : width A = width B := by unfold width; rw [h]

/-- the naive rows right of the window: the row-swapped original plus the pivot rows whose multiplier is set -/
theorem N_high {s : Sub} {doneRow : Nat} {N : BMat} (hO : SubOut C s doneRow N) (x : Nat) (hx : x < C.M0.nrows) :
    part (N.row x) C.wc C.M0.ncols =
      part ((swapsBy s.P C.rp s.pivots.size C.M0).row x) C.wc C.M0.ncols ^^^
      xfold (min s.pivots.size (x - C.rp)) (fun t => if (N.row x).testBit (C.cp + s.pivots.getD t 0) then
        part (N.row (C.rp + t)) C.wc C.M0.ncols else 0) := by
  have hcf := hO.sinv.cf x hx
  have hkk := hC.hkk
  have := elimSeq_high (fun t => N.row (C.rp + t)) (fun t => C.cp + s.pivots.getD t 0) C.M0.ncols C.wc
    (min s.pivots.size (x - C.rp)) ((swapsBy s.P C.rp s.pivots.size C.M0).row x) hC.hwc
    (fun t ht => by have := hO.sinv.piv_lt t (by omega); omega)
    (fun t t' h1 h2 => by have := hO.sinv.piv_mono t t' h1 (by omega); omega)
  rw [← hcf] at this
  exact this

/-- the state after `_mzd_ple_a10` -/
theorem a10_out {s : Sub} {doneRow : Nat} {N : BMat} (hO : SubOut C s doneRow N) (sb : Nat)
    (hwc : C.wc = min C.M0.ncols (64 * sb)) (hsb : sb ≤ width C.M0) :
    (a10 s.M s.P C.rp C.cp sb s.pivots.size s.pivots).WF ∧
    (a10 s.M s.P C.rp C.cp sb s.pivots.size s.pivots).nrows = C.M0.nrows ∧
    (a10 s.M s.P C.rp C.cp sb s.pivots.size s.pivots).ncols = C.M0.ncols ∧
    (∀ x, LowEq C.wc ((a10 s.M s.P C.rp C.cp sb s.pivots.size s.pivots).row x) (s.M.row x)) ∧
    (∀ x, x < C.M0.nrows → (x < C.rp ∨ C.rp + s.pivots.size ≤ x) →
      part ((a10 s.M s.P C.rp C.cp sb s.pivots.size s.pivots).row x) C.wc C.M0.ncols =
        part ((swapsBy s.P C.rp s.pivots.size C.M0).row x) C.wc C.M0.ncols) ∧
    (∀ i, i < s.pivots.size →
      part ((a10 s.M s.P C.rp C.cp sb s.pivots.size s.pivots).row (C.rp + i)) C.wc C.M0.ncols =
        part ((swapsBy s.P C.rp s.pivots.size C.M0).row (C.rp + i)) C.wc C.M0.ncols ^^^
        xfold i (fun j => if (s.M.row (C.rp + i)).testBit (C.cp + s.pivots.getD j 0) then
          part ((a10 s.M s.P C.rp C.cp sb s.pivots.size s.pivots).row (C.rp + j)) C.wc C.M0.ncols else 0)) := by
  have hw : width s.M = width C.M0 := width_eq hO.lnc
  by_cases hsbw : sb = width C.M0
  · -- no columns right of the window
    rw [a10_of_eq _ _ _ _ _ _ (hsbw.trans hw.symm)]
    have hwcn : C.wc = C.M0.ncols := by
      rw [hwc, hsbw]; unfold width; omega
    refine ⟨hO.lwf, hO.lnr, hO.lnc, fun x => LowEq.rfl', fun x _ _ => ?_, fun i _ => ?_⟩
    · rw [hwcn, part_empty _ _ _ (Nat.le_refl _), part_empty _ _ _ (Nat.le_refl _)]
    · rw [hwcn, part_empty _ _ _ (Nat.le_refl _), part_empty _ _ _ (Nat.le_refl _),
        xfold_congr (g := fun _ => 0) (fun j _ => by simp only [part_empty _ _ _ (Nat.le_refl _), ite_self]),
        xfold_zero_fn]
      rfl
  · have hlt : sb < width C.M0 := by omega
    have hwc64 : C.wc = 64 * sb := by
      rw [hwc]; unfold width at hlt; omega
    have hkk := hC.hkk
    obtain ⟨b1, b2, b3, b4, b5, b6⟩ := a10_spec hO.lwf s.P C.rp C.cp sb s.pivots.size s.pivots (by rw [hw]; exact hlt)
      (by rw [hO.lnr]; exact hO.sinv.rank_le)
      (fun t ht => by
        obtain ⟨p1, p2⟩ := hO.pP t ht
        have := hO.dr_lt
        exact ⟨p1, by rw [hO.lnr]; omega⟩)
      hO.sinv.piv_mono
      (fun t ht => by have := hO.sinv.piv_lt t ht; omega)
    rw [hO.lnc] at b5 b6
    rw [hO.lnr] at b5
    rw [← hwc64] at b4 b5 b6
    have hsw : ∀ x, part ((swapsBy s.P C.rp s.pivots.size s.M).row x) C.wc C.M0.ncols =
        part ((swapsBy s.P C.rp s.pivots.size C.M0).row x) C.wc C.M0.ncols :=
      swapsBy_part hO.lwf hC.wf hO.lnr s.P C.rp C.wc C.M0.ncols hO.high s.pivots.size
        (fun t ht => by
          obtain ⟨p1, p2⟩ := hO.pP t ht
          have := hO.dr_lt
          have := hO.sinv.rank_le
          rw [hO.lnr]; omega)
    refine ⟨b1, by rw [b2, hO.lnr], by rw [b3, hO.lnc], fun x => b4 x, fun x h1 h2 => ?_, fun i hi => ?_⟩
    · rw [b5 x h1 h2, hsw]
    · rw [b6 i hi, hsw]

/-- after `_mzd_ple_a10` the pivot rows are the naive ones -/
theorem pivot_rows {s : Sub} {doneRow : Nat} {N : BMat} (hO : SubOut C s doneRow N) (sb : Nat)
    (hwc : C.wc = min C.M0.ncols (64 * sb)) (hsb : sb ≤ width C.M0) :
    ∀ i, i < s.pivots.size → (a10 s.M s.P C.rp C.cp sb s.pivots.size s.pivots).row (C.rp + i) = N.row (C.rp + i) := by
  obtain ⟨a1, a2, a3, a4, a5, a6⟩ := a10_out hC hO sb hwc hsb
  obtain ⟨nwf, nnr, nnc, _, _⟩ := hO.sinv.nshape hC
  have hkk := hC.hkk
  intro i
  induction i using Nat.strong_induction_on with
  | _ i ih =>
    intro hi
    have hrk := hO.sinv.rank_le
    have hdr := hO.dr_ge
    have hlow : LowEq C.wc (s.M.row (C.rp + i)) (N.row (C.rp + i)) := hO.low _ (by omega)
    apply eq_of_low_high (n := C.M0.ncols) (by rw [← a3]; exact a1.2 _) (by rw [← nnc]; exact nwf.2 _)
      ((a4 _).trans hlow)
    rw [a6 i hi, N_high hC hO (C.rp + i) (by omega)]
    have hm : min s.pivots.size (C.rp + i - C.rp) = i := by omega
    rw [hm]
    congr 1
    apply xfold_congr
    intro j hj
    rw [ih j hj (by omega), hlow.bit (by have := hO.sinv.piv_lt j (by omega); omega)]

omit hC in
/-- `size` strictly increasing numbers below `size` are `0, 1, …, size-1` -/
theorem piv_id (pivots : Array Nat) (hm : ∀ t t', t < t' → t' < pivots.size → pivots.getD t 0 < pivots.getD t' 0)
    (hlt : ∀ t, t < pivots.size → pivots.getD t 0 < pivots.size) : ∀ t, t < pivots.size → pivots.getD t 0 = t := by
  have hup : ∀ d t, t + d + 1 = pivots.size → pivots.getD t 0 + d + 1 ≤ pivots.size := by
    intro d
    induction d with
    | zero => intro t ht; have := hlt t (by omega); omega
    | succ d ih =>
      intro t ht
      have h1 := ih (t + 1) (by omega)
      have h2 := hm t (t + 1) (Nat.lt_succ_self _) (by omega)
      omega
  intro t ht
  have h1 := le_of_mono pivots hm t ht
  have h2 := hup (pivots.size - 1 - t) t (by omega)
  omega

/-- **the matrix after one strip with at least one pivot is the naive one** -/
theorem strip_matrix {s : Sub} {doneRow : Nat} {N : BMat} (hO : SubOut C s doneRow N) (sb k : Nat)
    (hwc : C.wc = min C.M0.ncols (64 * sb)) (hsb : sb ≤ width C.M0) (hkk64 : C.kk ≤ 64) (hcols : C.cp + C.kk ≤ C.M0.ncols) :
    processRowsPle
      (a11 (a10 s.M s.P C.rp C.cp sb s.pivots.size s.pivots) (C.rp + s.pivots.size) (doneRow + 1) C.cp sb C.kk
        (makeTables (toE (a10 s.M s.P C.rp C.cp sb s.pivots.size s.pivots) C.rp C.cp s.pivots.size s.pivots)
          C.M0.ncols C.cp s.pivots (s.pivots.size == C.kk) (chunkSizes C.kk (nTables k C.kk))
          (chunkRanks (chunkSizes C.kk (nTables k C.kk)) s.pivots) 0 0))
      (doneRow + 1) C.M0.nrows C.cp C.kk
        (makeTables (toE (a10 s.M s.P C.rp C.cp sb s.pivots.size s.pivots) C.rp C.cp s.pivots.size s.pivots)
          C.M0.ncols C.cp s.pivots (s.pivots.size == C.kk) (chunkSizes C.kk (nTables k C.kk))
          (chunkRanks (chunkSizes C.kk (nTables k C.kk)) s.pivots) 0 0) = N := by
  obtain ⟨a1, a2, a3, a4, a5, a6⟩ := a10_out hC hO sb hwc hsb
  have hpr := pivot_rows hC hO sb hwc hsb
  obtain ⟨nwf, nnr, nnc, _, _⟩ := hO.sinv.nshape hC
  have hkk := hC.hkk
  have hwcn := hC.hwc
  have hrk := hO.sinv.rank_le
  have hdr := hO.dr_ge
  have hdrlt := hO.dr_lt
  have hnt : 1 ≤ nTables k C.kk := by
    unfold nTables; simp only []; repeat' split
    all_goals omega
  generalize hM1 : a10 s.M s.P C.rp C.cp sb s.pivots.size s.pivots = M1 at *
  generalize hU : toE M1 C.rp C.cp s.pivots.size s.pivots = U
  generalize htabs : makeTables U C.M0.ncols C.cp s.pivots (s.pivots.size == C.kk) (chunkSizes C.kk (nTables k C.kk))
          (chunkRanks (chunkSizes C.kk (nTables k C.kk)) s.pivots) 0 0 = tabs
  obtain ⟨b1, b2, b3, b4⟩ := a11_spec a1 (C.rp + s.pivots.size) (doneRow + 1) C.cp sb C.kk tabs (by rw [a2]; omega)
  generalize hM2 : a11 M1 (C.rp + s.pivots.size) (doneRow + 1) C.cp sb C.kk tabs = M2 at *
  obtain ⟨c1, c2, c3, c4⟩ := processRowsPle_spec b1 (doneRow + 1) C.M0.nrows C.cp C.kk tabs (by rw [b2, a2])
  generalize hM3 : processRowsPle M2 (doneRow + 1) C.M0.nrows C.cp C.kk tabs = M3 at *
  -- the rows of `U` right of their pivot
  have hUpart : ∀ t, t < s.pivots.size → ∀ lo, C.cp + s.pivots.getD t 0 ≤ lo →
      part (U.getD t 0) lo C.M0.ncols = part (N.row (C.rp + t)) lo C.M0.ncols := by
    intro t ht lo hlo
    rw [← hU, part_toE _ _ _ _ _ _ ht _ _ hlo, hpr t ht]
  apply ext_rows (by rw [c2, b2, a2, nnr]) (by rw [c3, b3, a3, nnc]) (by rw [c1.1, nwf.1, c2, b2, a2, nnr])
  intro x hx
  have hxn : x < C.M0.nrows := by rw [c1.1, c2, b2, a2] at hx; exact hx
  rw [c4 x, b3, a3]
  by_cases hxd : x ≤ doneRow
  · rw [if_neg (by omega), b4 x]
    have hlowx : LowEq C.wc (M1.row x) (N.row x) := (a4 x).trans (hO.low x hxd)
    by_cases hxp : C.rp + s.pivots.size ≤ x
    · -- a row between the pivot rows and `done_row`
      have hNh := N_high hC hO x hxn
      rw [show min s.pivots.size (x - C.rp) = s.pivots.size by omega] at hNh
      by_cases hsbw : sb < width M1
      · rw [if_pos ⟨hxp, by omega, hsbw⟩, a3]
        have hwc64 : C.wc = 64 * sb := by
          rw [hwc]; unfold width at hsbw; rw [a3] at hsbw; omega
        rw [← hwc64]
        apply eq_of_low_high (n := C.M0.ncols) (wc := C.wc)
          (Nat.xor_lt_two_pow (by rw [← a3]; exact a1.2 _) (part_lt _ _ _)) (by rw [← nnc]; exact nwf.2 _)
        · -- window columns
          rw [lowEq_iff]
          intro j hj
          rw [Nat.testBit_xor, testBit_part, decide_eq_false (by omega : ¬ (C.wc ≤ j ∧ j < C.M0.ncols))]
          simp only [Bool.false_and, Bool.xor_false]
          exact hlowx.bit hj
        · rw [part_xor, part_part, Nat.max_self, Nat.min_self, a5 x hxn (Or.inr hxp), hNh]
          congr 1
          rw [← htabs, lookupM_spec U C.M0.ncols C.cp C.kk (nTables k C.kk) s.pivots _ C.wc hnt
            (by rw [← hU, size_toE]) hO.sinv.piv_lt hO.sinv.piv_mono ?_ hkk]
          · apply xfold_congr
            intro t ht
            have hpl := hO.sinv.piv_lt t ht
            rw [bitsAt_testBit, decide_eq_true hpl, Bool.true_and, hlowx.bit (by omega), hUpart t ht C.wc (by omega)]
          · intro b hb
            rw [bitsAt_testBit] at hb
            have hb1 : b < C.kk := by
              by_contra h; rw [decide_eq_false h] at hb; simp at hb
            rw [decide_eq_true hb1, Bool.true_and, hlowx.bit (by omega)] at hb
            by_contra hne
            have := hO.sinv.zcols x (C.cp + b) hxp hxn (Nat.le_add_right _ _) (by omega)
              (fun t ht he => hne ⟨t, ht, by omega⟩)
            unfold get at this
            rw [this] at hb
            exact Bool.false_ne_true hb
      · rw [if_neg (fun h => hsbw h.2.2)]
        have hwcn2 : C.wc = C.M0.ncols := by
          rw [hwc]; unfold width at hsbw hsb; rw [a3] at hsbw; omega
        apply eq_of_low_high (n := C.M0.ncols) (wc := C.wc) (by rw [← a3]; exact a1.2 _) (by rw [← nnc]; exact nwf.2 _) hlowx
        rw [hwcn2, part_empty _ _ _ (Nat.le_refl _), part_empty _ _ _ (Nat.le_refl _)]
    · rw [if_neg (fun h => hxp h.1)]
      by_cases hxr : C.rp ≤ x
      · -- a pivot row
        have := hpr (x - C.rp) (by omega)
        rw [show C.rp + (x - C.rp) = x by omega] at this
        exact this
      · -- above the strip
        apply eq_of_low_high (n := C.M0.ncols) (wc := C.wc) (by rw [← a3]; exact a1.2 _) (by rw [← nnc]; exact nwf.2 _) hlowx
        have hNh := N_high hC hO x hxn
        rw [show min s.pivots.size (x - C.rp) = 0 by omega] at hNh
        rw [a5 x hxn (Or.inl (by omega)), hNh]
        unfold xfold
        simp
  · -- below `done_row`: only in a full-rank strip
    have hxd' : doneRow < x := by omega
    have hfull : s.pivots.size = C.kk := by
      by_contra hne
      have := hO.dr_def (by have := hO.rank_kk; omega)
      omega
    rw [if_pos ⟨by omega, hxn⟩, b4 x, if_neg (by omega)]
    -- the row has not been touched so far
    have hM1x : M1.row x = C.M0.row x := by
      apply eq_of_low_high (n := C.M0.ncols) (wc := C.wc) (by rw [← a3]; exact a1.2 _) (hC.wf.2 _)
      · rw [← hO.untouched x hxd' hxn]; exact a4 x
      · rw [a5 x hxn (Or.inr (by omega))]
        rw [swapsBy_row_of_not_mem hC.wf x (fun t ht => by
            obtain ⟨p1, p2⟩ := hO.pP t ht
            omega)
          (fun t ht => by
            obtain ⟨p1, p2⟩ := hO.pP t ht
            omega)]
    have hpid := piv_id s.pivots hO.sinv.piv_mono (fun t ht => by rw [hfull]; exact hO.sinv.piv_lt t ht)
    rw [hM1x, ← htabs, lookupE_spec U C.M0.ncols C.cp C.kk (nTables k C.kk) s.pivots (C.M0.row x) hnt hkk64 hcols hfull
      (fun t ht => hpid t (by omega)) (by rw [← hU, size_toE, hfull])
      (fun t ht => by rw [← hU, ← a3]; exact toE_lt a1 _ _ _ _ _ (by omega))
      (fun t ht => by
        rw [← hU, testBit_toE _ _ _ _ _ _ (by omega : t < s.pivots.size), hpid t (by omega)]
        have := hO.sinv.pivbit t (by omega)
        unfold get at this
        rw [hpid t (by omega)] at this
        rw [hpr t (by omega), this]
        simp)
      (fun t j ht h1 h2 => by
        rw [← hU, testBit_toE _ _ _ _ _ _ (by omega : t < s.pivots.size), hpid t (by omega),
          decide_eq_false (by omega : ¬ j < 64 * (C.cp / 64)), decide_eq_false (by omega : ¬ C.cp + t ≤ j)]
        rfl)
      (hC.wf.2 _)]
    -- the naive row
    have hcf := hO.sinv.cf x hxn
    rw [show min s.pivots.size (x - C.rp) = C.kk by omega,
      swapsBy_row_of_not_mem hC.wf x (fun t ht => by
            obtain ⟨p1, p2⟩ := hO.pP t ht
            omega)
          (fun t ht => by
            obtain ⟨p1, p2⟩ := hO.pP t ht
            omega)] at hcf
    rw [hcf]
    apply elimSeq_congr
    intro t ht
    have ht' : t < C.kk := by simpa using ht
    refine ⟨by rw [hpid t (by omega)], ?_⟩
    rw [hUpart t (by omega) _ (by rw [hpid t (by omega)]; omega)]

end

/-! ### one pass of the main loop -/

/-- the body of `strip` after the clipping of `kk` -/
def stripBody (k : Nat) (M : BMat) (P Q : Array Nat) (rp cp kk : Nat) : St × Bool :=
  let splitblock := min (max ((cp + kk) / 64 + 1) (cp / 64 + 8)) (width M)
  let sd := submatrix M P Q rp M.nrows cp kk splitblock
  let M1 := a10 sd.1.M sd.1.P rp cp splitblock sd.1.pivots.size sd.1.pivots
  let U := toE M1 rp cp sd.1.pivots.size sd.1.pivots
  if sd.1.pivots.size = 0 then noPivotStep M1 sd.1.P sd.1.Q rp (cp + kk) kk else
  let tabs := makeTables U M.ncols cp sd.1.pivots (sd.1.pivots.size == kk) (chunkSizes kk (nTables k kk))
    (chunkRanks (chunkSizes kk (nTables k kk)) sd.1.pivots) 0 0
  (⟨processRowsPle (a11 M1 (rp + sd.1.pivots.size) (sd.2 + 1) cp splitblock kk tabs) (sd.2 + 1) M.nrows cp kk tabs,
    sd.1.P, sd.1.Q, rp + sd.1.pivots.size, cp + kk, kk⟩, true)

theorem strip_eq (k : Nat) (s : St) :
    strip k s = stripBody k s.M s.P s.Q s.currRow s.currCol
      (if s.currCol + s.kk > s.M.ncols then s.M.ncols - s.currCol else s.kk) := rfl

theorem stripBody_spec (k : Nat) {M : BMat} (hM : M.WF) {P Q : Array Nat} (hP : P.size = M.nrows) (hQ : Q.size = M.ncols)
    {rp cp kk : Nat} (hrp : rp < M.nrows) (hkk1 : 1 ≤ kk) (hkk64 : kk ≤ 64) (hcols : cp + kk ≤ M.ncols) :
    Reach ⟨M, P, Q, rp, cp⟩ ⟨(stripBody k M P Q rp cp kk).1.M, (stripBody k M P Q rp cp kk).1.P,
      (stripBody k M P Q rp cp kk).1.Q, (stripBody k M P Q rp cp kk).1.currRow, (stripBody k M P Q rp cp kk).1.currCol⟩ ∧
    (stripBody k M P Q rp cp kk).1.kk = kk ∧
    ((stripBody k M P Q rp cp kk).2 = true → cp < (stripBody k M P Q rp cp kk).1.currCol) ∧
    ((stripBody k M P Q rp cp kk).2 = false → ∀ i j, (stripBody k M P Q rp cp kk).1.currRow ≤ i → i < M.nrows →
      (stripBody k M P Q rp cp kk).1.currCol ≤ j → j < M.ncols → (stripBody k M P Q rp cp kk).1.M.get i j = false) := by
  obtain ⟨sb, hsb⟩ : ∃ sb, sb = min (max ((cp + kk) / 64 + 1) (cp / 64 + 8)) (width M) := ⟨_, rfl⟩
  have hsbw : sb ≤ width M := by rw [hsb]; exact Nat.min_le_right _ _
  have hkkwc : cp + kk ≤ min M.ncols (64 * sb) := by
    rw [hsb]; unfold width; omega
  have hC : Ctx.OK ⟨M, P, Q, rp, cp, kk, min M.ncols (64 * sb)⟩ := ⟨hM, hP, hQ, hkkwc, Nat.min_le_left _ _⟩
  obtain ⟨N, hO0⟩ := submatrix_spec hC hrp hkk1 sb rfl
  have hO : SubOut ⟨M, P, Q, rp, cp, kk, min M.ncols (64 * sb)⟩ (submatrix M P Q rp M.nrows cp kk sb).1
      (submatrix M P Q rp M.nrows cp kk sb).2 N := hO0
  unfold stripBody
  simp only []
  rw [← hsb]
  generalize submatrix M P Q rp M.nrows cp kk sb = sd at hO
  obtain ⟨sub, doneRow⟩ := sd
  simp only [] at hO ⊢
  obtain ⟨nwf, nnr, nnc, _, _⟩ := hO.sinv.nshape hC
  have hreach := hO.sinv.reach
  simp only [] at hreach nnr nnc
  by_cases hk0 : sub.pivots.size = 0
  · rw [if_pos hk0]
    -- nothing was found: the matrix is unchanged and equal to the naive state
    obtain ⟨a1, a2, a3, a4, a5, a6⟩ := a10_out hC hO sb rfl hsbw
    simp only [] at a1 a2 a3 a4 a5
    have hM1 : a10 sub.M sub.P rp cp sb sub.pivots.size sub.pivots = N := by
      apply ext_rows (by rw [a2, nnr]) (by rw [a3, nnc]) (by rw [a1.1, nwf.1, a2, nnr])
      intro x hx
      have hxn : x < M.nrows := by rw [a1.1, a2] at hx; exact hx
      have hdr : doneRow = M.nrows - 1 := hO.dr_def (by show sub.pivots.size < kk; omega)
      apply eq_of_low_high (n := M.ncols) (wc := min M.ncols (64 * sb)) (by rw [← a3]; exact a1.2 _)
        (by rw [← nnc]; exact nwf.2 _) ((a4 x).trans (hO.low x (by omega)))
      have hNh := N_high hC hO x hxn
      simp only [] at hNh
      rw [show min sub.pivots.size (x - rp) = 0 by omega] at hNh
      rw [a5 x hxn (by omega), hNh]
      unfold xfold
      simp
    rw [hM1]
    rw [hk0] at hreach
    unfold noPivotStep
    rw [findPivotB_eq_search]
    cases hs : search N rp (cp + kk) with
    | none =>
      simp only []
      refine ⟨hreach, trivial, fun h => by simp at h, fun _ i j h1 h2 h3 h4 => ?_⟩
      exact search_none hs i j h1 (by rw [nnr]; exact h2) h3 (by rw [nnc]; exact h4)
    | some p =>
      obtain ⟨i, j⟩ := p
      simp only []
      obtain ⟨s1, s2, s3, s4, _, _⟩ := search_some hs
      refine ⟨hreach.snoc_pivot i j hs, trivial, fun _ => by omega, fun h => by simp at h⟩
  · rw [if_neg hk0]
    simp only []
    have hmat := strip_matrix hC hO sb k rfl hsbw hkk64 hcols
    simp only [] at hmat
    rw [hmat]
    exact ⟨hreach, trivial, fun _ => by omega, fun h => by simp at h⟩

/-- **every pass of the main loop of `_mzd_ple_russian` is a run of the naive algorithm** -/
theorem stripOK (k : Nat) : StripOK k := by
  intro s hM hP hQ hrow hcol hkk1 hkk64
  rw [strip_eq]
  obtain ⟨kk, hkk⟩ : ∃ kk, kk = (if s.currCol + s.kk > s.M.ncols then s.M.ncols - s.currCol else s.kk) := ⟨_, rfl⟩
  rw [← hkk]
  have h1 : 1 ≤ kk := by rw [hkk]; split <;> omega
  have h2 : kk ≤ 64 := by rw [hkk]; split <;> omega
  have h3 : s.currCol + kk ≤ s.M.ncols := by rw [hkk]; split <;> omega
  obtain ⟨r1, r2, r3, r4⟩ := stripBody_spec k hM hP hQ hrow h1 h2 h3
  exact ⟨r1, by rw [r2]; exact h1, by rw [r2]; exact h2, r3, r4⟩

/-- non-vacuity: a 3 × 4 state on which a pass finds two pivots -/
example : (strip 2 ⟨⟨3, 4, #[10, 2, 8]⟩, #[0, 1, 2], #[0, 1, 2, 3], 0, 0, 14⟩).1.currRow = 2 := by decide +kernel

end PR
end BMat
end M4ri
