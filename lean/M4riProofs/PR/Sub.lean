/-
  PleRussian proofs, part 2: `_mzd_ple_submatrix` (the lazy pivot search in a strip) against the naive run.
  The lazily eliminated working matrix `L` is related to the state `N` of the naive algorithm after the same pivots:
  pivot rows agree on the window columns, every other row becomes the naive row once the steps it has not had yet
  (`done[t] < x`) are applied.
-/
import M4riProofs.PR.Naive
import M4riProofs.PR.Loops
namespace M4ri
namespace BMat
namespace PR
open Rec PN

/-! ### agreement on the window columns -/

/-- `a` and `b` agree on the columns `[0, wc)` -/
def LowEq (wc a b : Nat) : Prop := a % 2 ^ wc = b % 2 ^ wc

theorem lowEq_iff {wc a b : Nat} : LowEq wc a b ↔ ∀ j, j < wc → a.testBit j = b.testBit j := by
  unfold LowEq
  constructor
  · intro h j hj
    have := congrArg (fun v => Nat.testBit v j) h
    simpa [Nat.testBit_mod_two_pow, hj] using this
  · intro h
    apply Nat.eq_of_testBit_eq
    intro j
    rw [Nat.testBit_mod_two_pow, Nat.testBit_mod_two_pow]
    by_cases hj : j < wc
    · simp [hj, h j hj]
    · simp [hj]

theorem LowEq.bit {wc a b : Nat} (h : LowEq wc a b) {j : Nat} (hj : j < wc) : a.testBit j = b.testBit j :=
  lowEq_iff.mp h j hj
theorem LowEq.rfl' {wc a : Nat} : LowEq wc a a := Eq.refl _
theorem LowEq.symm {wc a b : Nat} (h : LowEq wc a b) : LowEq wc b a := Eq.symm h
theorem LowEq.trans {wc a b c : Nat} (h1 : LowEq wc a b) (h2 : LowEq wc b c) : LowEq wc a c := Eq.trans h1 h2
theorem LowEq.of_eq {wc a b : Nat} (h : a = b) : LowEq wc a b := by rw [h]; exact LowEq.rfl'

theorem elimRow_lowEq {wc n e e' c v v' : Nat} (hwc : wc ≤ n) (hc : c < wc) (he : LowEq wc e e') (hv : LowEq wc v v') :
    LowEq wc (elimRow e c n v) (elimRow e' c wc v') := by
  rw [lowEq_iff]
  intro j hj
  rw [elimRow_testBit, elimRow_testBit, hv.bit hj, hv.bit hc, he.bit hj]
  have : decide (c < j ∧ j < n) = decide (c < j ∧ j < wc) := by apply decide_eq_decide.mpr; omega
  rw [this]

theorem elimRow_lowEq' {wc e e' c v v' : Nat} (hc : c < wc) (he : LowEq wc e e') (hv : LowEq wc v v') :
    LowEq wc (elimRow e c wc v) (elimRow e' c wc v') := elimRow_lowEq (Nat.le_refl _) hc he hv

/-- a window step leaves the columns `≥ wc` alone -/
theorem elimRow_testBit_ge {e c wc v j : Nat} (hj : wc ≤ j) : (elimRow e c wc v).testBit j = v.testBit j := by
  rw [elimRow_testBit]
  have : ¬ (c < j ∧ j < wc) := by omega
  simp [this]

theorem lazySeq_testBit_ge {e c : Nat → Nat} {cond : Nat → Bool} {wc : Nat} (ts : List Nat) {v j : Nat} (hj : wc ≤ j) :
    (lazySeq e c cond wc ts v).testBit j = v.testBit j := by
  induction ts generalizing v with
  | nil => rfl
  | cons t ts ih =>
    rw [lazySeq_cons, ih]
    split
    · exact elimRow_testBit_ge hj
    · rfl

theorem lazySeq_part_high {e c : Nat → Nat} {cond : Nat → Bool} {wc : Nat} (ts : List Nat) (v n : Nat) :
    part (lazySeq e c cond wc ts v) wc n = part v wc n := by
  apply Nat.eq_of_testBit_eq
  intro j
  rw [testBit_part, testBit_part]
  by_cases hj : wc ≤ j
  · rw [lazySeq_testBit_ge ts hj]
  · have : ¬ (wc ≤ j ∧ j < n) := fun h => hj h.1
    simp [this]

theorem lazySeq_lowEq {e e' c : Nat → Nat} {cond : Nat → Bool} {wc : Nat} (ts : List Nat) {v v' : Nat}
    (h : ∀ t, t ∈ ts → c t < wc ∧ LowEq wc (e t) (e' t)) (hv : LowEq wc v v') :
    LowEq wc (lazySeq e c cond wc ts v) (lazySeq e' c cond wc ts v') := by
  induction ts generalizing v v' with
  | nil => exact hv
  | cons t ts ih =>
    rw [lazySeq_cons, lazySeq_cons]
    apply ih (fun t' ht' => h t' (by simp [ht']))
    obtain ⟨h1, h2⟩ := h t (by simp)
    split
    · exact elimRow_lowEq' h1 h2 hv
    · exact hv

/-- if every condition is false nothing happens -/
theorem lazySeq_of_false {e c : Nat → Nat} {cond : Nat → Bool} {n : Nat} (ts : List Nat) (v : Nat)
    (h : ∀ t, t ∈ ts → cond t = false) : lazySeq e c cond n ts v = v := by
  induction ts with
  | nil => rfl
  | cons t ts ih =>
    rw [lazySeq_cons, h t (by simp)]
    simp only [Bool.false_eq_true, if_false]
    exact ih (fun t' ht' => h t' (by simp [ht']))

/-! ### the scratch arrays -/

theorem bitsAt_testBit (a y n l : Nat) : (bitsAt a y n).testBit l = (decide (l < n) && a.testBit (y + l)) := by
  unfold bitsAt; rw [Nat.testBit_mod_two_pow, Nat.testBit_shiftRight]

theorem getD_bumpDone (done : Array Nat) (i t : Nat) :
    (bumpDone done i).getD t 0 = if t < done.size then (if done.getD t 0 < i then i else done.getD t 0) else 0 := by
  unfold bumpDone
  by_cases ht : t < done.size
  · simp [Array.getD, ht]
  · simp [Array.getD, ht]

theorem size_bumpDone (done : Array Nat) (i : Nat) : (bumpDone done i).size = done.size := by
  simp [bumpDone]

theorem getD_push (a : Array Nat) (v t : Nat) :
    (a.push v).getD t 0 = if t < a.size then a.getD t 0 else if t = a.size then v else 0 := by
  by_cases h1 : t < a.size
  · simp [Array.getD, h1, Array.getElem_push_lt, Nat.lt_succ_of_lt h1]
  · by_cases h2 : t = a.size
    · subst h2; simp [Array.getD]
    · have : ¬ t < a.size + 1 := by omega
      simp [Array.getD, h1, h2, this]

theorem le_maxValue (done : Array Nat) (t : Nat) (ht : t < done.size) : done.getD t 0 ≤ maxValue done := by
  unfold maxValue
  rw [← Array.foldl_toList]
  have hg : done.getD t 0 = done.toList.getD t 0 := by simp [Array.getD, List.getD, ht]
  rw [hg]
  have ht' : t < done.toList.length := by simpa using ht
  generalize done.toList = l at ht'
  suffices h : ∀ (l : List Nat) (init t : Nat), t < l.length → l.getD t 0 ≤ l.foldl max init ∧ init ≤ l.foldl max init
    from (h l 0 t ht').1
  intro l
  induction l with
  | nil => intro init t ht; simp at ht
  | cons a l ih =>
    intro init t ht
    rw [List.foldl_cons]
    cases t with
    | zero =>
      have := (ih (max init a) 0)
      refine ⟨?_, ?_⟩
      · simp only [List.getD_cons_zero]
        cases l with
        | nil => simp only [List.foldl_nil]; omega
        | cons b l =>
          have h2 := (ih (max init a) 0 (by simp)).2
          omega
      · cases l with
        | nil => simp only [List.foldl_nil]; omega
        | cons b l =>
          have h2 := (ih (max init a) 0 (by simp)).2
          omega
    | succ t =>
      have h2 := ih (max init a) t (by simpa using ht)
      refine ⟨by simpa using h2.1, by omega⟩

theorem maxValue_lt (done : Array Nat) (n : Nat) (hn : 0 < n) (h : ∀ t, t < done.size → done.getD t 0 < n) :
    maxValue done < n := by
  unfold maxValue
  rw [← Array.foldl_toList]
  have h' : ∀ d, d ∈ done.toList → d < n := by
    intro d hd
    obtain ⟨t, ht, rfl⟩ := List.getElem_of_mem hd
    have ht2 : t < done.size := by simpa using ht
    have := h t ht2
    have e : done.getD t 0 = done.toList[t] := by simp [Array.getD, ht2]
    rw [e] at this; exact this
  generalize done.toList = l at h'
  suffices hh : ∀ (l : List Nat) (init : Nat), init < n → (∀ d, d ∈ l → d < n) → l.foldl max init < n from hh l 0 hn h'
  intro l
  induction l with
  | nil => intro init hi _; exact hi
  | cons a l ih =>
    intro init hi hl
    rw [List.foldl_cons]
    apply ih
    · have := hl a (by simp); omega
    · intro d hd; exact hl d (by simp [hd])

/-! ### the invariant -/

/-- the fixed data of one call of `_mzd_ple_submatrix` -/
structure Ctx where
  M0 : BMat
  P0 : Array Nat
  Q0 : Array Nat
  rp : Nat
  cp : Nat
  kk : Nat
  wc : Nat

structure Ctx.OK (C : Ctx) : Prop where
  wf : C.M0.WF
  psz : C.P0.size = C.M0.nrows
  qsz : C.Q0.size = C.M0.ncols
  hkk : C.cp + C.kk ≤ C.wc
  hwc : C.wc ≤ C.M0.ncols

/-- the part of the invariant that does not mention `L` and `done`: `N` is the naive state after the pivots found so far -/
structure SInv (C : Ctx) (P Q pivots : Array Nat) (curPos : Nat) (N : BMat) : Prop where
  rank_le : C.rp + pivots.size ≤ C.M0.nrows
  piv_lt : ∀ t, t < pivots.size → pivots.getD t 0 < curPos
  piv_mono : ∀ t t', t < t' → t' < pivots.size → pivots.getD t 0 < pivots.getD t' 0
  reach : Reach ⟨C.M0, C.P0, C.Q0, C.rp, C.cp⟩ ⟨N, P, Q, C.rp + pivots.size, C.cp + curPos⟩
  cf : CF C.M0 N P C.rp (fun t => C.cp + pivots.getD t 0) pivots.size
  zcols : ∀ x col, C.rp + pivots.size ≤ x → x < C.M0.nrows → C.cp ≤ col → col < C.cp + curPos →
    (∀ t, t < pivots.size → C.cp + pivots.getD t 0 ≠ col) → N.get x col = false
  pivbit : ∀ t, t < pivots.size → N.get (C.rp + t) (C.cp + pivots.getD t 0) = true

/-- the lazy working matrix against the naive state -/
structure DInv (C : Ctx) (L : BMat) (P pivots done : Array Nat) (N : BMat) : Prop where
  lwf : L.WF
  lnr : L.nrows = C.M0.nrows
  lnc : L.ncols = C.M0.ncols
  dsz : done.size = pivots.size
  done_lo : ∀ t, t < pivots.size → C.rp + pivots.size ≤ done.getD t 0 + 1
  done_hi : ∀ t, t < pivots.size → done.getD t 0 < C.M0.nrows
  high : ∀ x, part (L.row x) C.wc C.M0.ncols = part (C.M0.row x) C.wc C.M0.ncols
  lowPiv : ∀ x, x < C.rp + pivots.size → LowEq C.wc (L.row x) (N.row x)
  lowRest : ∀ x, C.rp + pivots.size ≤ x → x < C.M0.nrows →
    LowEq C.wc (N.row x) (lazySeq (fun t => L.row (C.rp + t)) (fun t => C.cp + pivots.getD t 0)
      (fun t => decide (done.getD t 0 < x)) C.wc (List.range pivots.size) (L.row x))
  pP : ∀ t, t < pivots.size → C.rp + t ≤ P.getD (C.rp + t) 0 ∧ P.getD (C.rp + t) 0 ≤ done.getD t 0
  untouched : ∀ x, C.rp + pivots.size ≤ x → x < C.M0.nrows → (∀ t, t < pivots.size → done.getD t 0 < x) →
    L.row x = C.M0.row x

section
variable {C : Ctx} (hC : C.OK)
include hC

theorem SInv.nshape {P Q pivots : Array Nat} {curPos : Nat} {N : BMat} (h : SInv C P Q pivots curPos N) :
    N.WF ∧ N.nrows = C.M0.nrows ∧ N.ncols = C.M0.ncols ∧ P.size = C.M0.nrows ∧ Q.size = C.M0.ncols := by
  obtain ⟨a, b, c, d, e, _⟩ := h.reach.shape hC.wf hC.psz hC.qsz
  exact ⟨a, b, c, by rw [d]; exact hC.psz, by rw [e]; exact hC.qsz⟩

/-! ### the row loop of one column -/

/-- one pass over the rows `[a, nrows)` for the column `cp + curPos`: the invariant is kept, rows that were looked at
    and not taken are (effectively) fully eliminated and have a zero in the column -/
theorem scanRows_spec {P Q pivots : Array Nat} {curPos : Nat} {N : BMat} (hS : SInv C P Q pivots curPos N)
    (hcur : curPos < C.kk) :
    ∀ (n a : Nat) (L : BMat) (done : Array Nat), a + n = C.M0.nrows → C.rp + pivots.size ≤ a →
      DInv C L P pivots done N →
      (∀ x, C.rp + pivots.size ≤ x → x < a → LowEq C.wc (L.row x) (N.row x) ∧ N.get x (C.cp + curPos) = false) →
      DInv C (scanRows C.rp C.cp C.wc curPos pivots (List.range' a n) L done).1 P pivots
        (scanRows C.rp C.cp C.wc curPos pivots (List.range' a n) L done).2.1 N ∧
      ((scanRows C.rp C.cp C.wc curPos pivots (List.range' a n) L done).2.2 = none →
        ∀ x, C.rp + pivots.size ≤ x → x < C.M0.nrows →
          LowEq C.wc ((scanRows C.rp C.cp C.wc curPos pivots (List.range' a n) L done).1.row x) (N.row x) ∧
          N.get x (C.cp + curPos) = false) ∧
      (∀ i, (scanRows C.rp C.cp C.wc curPos pivots (List.range' a n) L done).2.2 = some i →
        a ≤ i ∧ i < C.M0.nrows ∧
        (∀ x, C.rp + pivots.size ≤ x → x < i →
          LowEq C.wc ((scanRows C.rp C.cp C.wc curPos pivots (List.range' a n) L done).1.row x) (N.row x) ∧
          N.get x (C.cp + curPos) = false) ∧
        LowEq C.wc ((scanRows C.rp C.cp C.wc curPos pivots (List.range' a n) L done).1.row i) (N.row i) ∧
        N.get i (C.cp + curPos) = true ∧
        ∀ t, t < pivots.size → i ≤ (scanRows C.rp C.cp C.wc curPos pivots (List.range' a n) L done).2.1.getD t 0) := by
  intro n
  induction n with
  | zero =>
    intro a L done han _ hD hsc
    simp only [List.range'_zero, scanRows]
    exact ⟨hD, fun _ x h1 h2 => hsc x h1 (by omega), fun i hi => by cases hi⟩
  | succ n ih =>
    intro a L done han hra hD hsc
    have ha : a < C.M0.nrows := by omega
    have hcol : C.cp + curPos < C.wc := by have := hC.hkk; omega
    rw [List.range'_succ]
    simp only [scanRows]
    -- the naive row `a` in terms of `L`
    have hrest := hD.lowRest a hra ha
    by_cases htmp : bitsAt (L.row a) C.cp (curPos + 1) ≠ 0
    · rw [if_pos htmp]
      -- eliminate row `a`
      obtain ⟨e1, e2, e3, e4⟩ := lazyElim_spec hD.lwf a C.rp C.cp C.wc pivots done
        (by rw [hD.lnc]; exact hC.hwc) (by rw [hD.lnr]; exact ha) hra
      generalize hL1 : lazyElim L a C.rp C.cp C.wc pivots done = L1 at e1 e2 e3 e4
      have hrowa : LowEq C.wc (L1.row a) (N.row a) := by
        rw [e4 a, if_pos rfl]; exact hrest.symm
      have hrowx : ∀ x, x ≠ a → L1.row x = L.row x := fun x hx => by rw [e4 x, if_neg hx]
      have hD1 : DInv C L1 P pivots (bumpDone done a) N := by
        refine ⟨e1, by rw [e2, hD.lnr], by rw [e3, hD.lnc], by rw [size_bumpDone, hD.dsz], ?_, ?_, ?_, ?_, ?_, ?_, ?_⟩
        · intro t ht
          rw [getD_bumpDone, if_pos (by rw [hD.dsz]; exact ht)]
          have := hD.done_lo t ht
          split <;> omega
        · intro t ht
          rw [getD_bumpDone, if_pos (by rw [hD.dsz]; exact ht)]
          have := hD.done_hi t ht
          split <;> omega
        · intro x
          by_cases hx : x = a
          · subst hx
            rw [e4 x, if_pos rfl, lazySeq_part_high]; exact hD.high x
          · rw [hrowx x hx]; exact hD.high x
        · intro x hx
          rw [hrowx x (by omega)]; exact hD.lowPiv x hx
        · intro x hx1 hx2
          -- the pivot rows are the same in `L1` and `L`
          have hpivrows : ∀ t, t < pivots.size → L1.row (C.rp + t) = L.row (C.rp + t) :=
            fun t ht => hrowx _ (by omega)
          by_cases hxa : x ≤ a
          · -- all conditions are false now: the row must already be the naive one
            rw [lazySeq_of_false]
            · by_cases hxe : x = a
              · subst hxe; exact hrowa.symm
              · rw [hrowx x hxe]; exact (hsc x hx1 (by omega)).1.symm
            · intro t ht
              have ht' : t < pivots.size := by simpa using ht
              rw [getD_bumpDone, if_pos (by rw [hD.dsz]; exact ht')]
              apply decide_eq_false
              split <;> omega
          · have hxa' : a < x := by omega
            rw [hrowx x (by omega)]
            have := hD.lowRest x hx1 hx2
            rw [lazySeq_congr (e' := fun t => L.row (C.rp + t)) (c' := fun t => C.cp + pivots.getD t 0)
              (cond' := fun t => decide (done.getD t 0 < x))]
            · exact this
            · intro t ht
              have ht' : t < pivots.size := by simpa using ht
              refine ⟨?_, fun _ => ⟨rfl, by rw [hpivrows t ht']⟩⟩
              rw [getD_bumpDone, if_pos (by rw [hD.dsz]; exact ht')]
              apply decide_eq_decide.mpr
              split <;> omega
        · intro t ht
          obtain ⟨p1, p2⟩ := hD.pP t ht
          refine ⟨p1, ?_⟩
          rw [getD_bumpDone, if_pos (by rw [hD.dsz]; exact ht)]
          split <;> omega
        · intro x hx1 hx2 hx3
          by_cases hps : pivots.size = 0
          · -- no pivots: `lazyElim` did nothing
            have hxx : L1.row x = L.row x := by
              by_cases hx : x = a
              · subst hx; rw [e4 x, if_pos rfl, hps]; rfl
              · exact hrowx x hx
            rw [hxx]; exact hD.untouched x hx1 hx2 (fun t ht => by omega)
          · have h0 := hx3 0 (by omega)
            rw [getD_bumpDone, if_pos (by rw [hD.dsz]; omega)] at h0
            have hxa : a < x := by
              by_cases hd : done.getD 0 0 < a
              · rw [if_pos hd] at h0; exact h0
              · rw [if_neg hd] at h0; omega
            rw [hrowx x (by omega)]
            apply hD.untouched x hx1 hx2
            intro t ht
            have := hx3 t ht
            rw [getD_bumpDone, if_pos (by rw [hD.dsz]; exact ht)] at this
            by_cases hd : done.getD t 0 < a
            · omega
            · rw [if_neg hd] at this; exact this
      have hbump_ge : ∀ t, t < pivots.size → a ≤ (bumpDone done a).getD t 0 := by
        intro t ht
        rw [getD_bumpDone, if_pos (by rw [hD.dsz]; exact ht)]
        split <;> omega
      have hget : L1.get a (C.cp + curPos) = N.get a (C.cp + curPos) := hrowa.bit hcol
      by_cases hfound : L1.get a (C.cp + curPos) = true
      · rw [if_pos hfound]
        refine ⟨hD1, fun h => by simp at h, fun i hi => ?_⟩
        have hia : a = i := by simpa using hi
        subst hia
        refine ⟨Nat.le_refl _, ha, fun x h1 h2 => ?_, hrowa, by rw [← hget]; exact hfound, hbump_ge⟩
        rw [hrowx x (by omega)]; exact hsc x h1 h2
      · rw [if_neg hfound]
        have hnf : N.get a (C.cp + curPos) = false := by rw [← hget]; simpa using hfound
        obtain ⟨i1, i2, i3⟩ := ih (a + 1) L1 (bumpDone done a) (by omega) (by omega) hD1 (fun x h1 h2 => by
          by_cases hxa : x = a
          · subst hxa; exact ⟨hrowa, hnf⟩
          · rw [hrowx x hxa]; exact hsc x h1 (by omega))
        refine ⟨i1, i2, fun i hi => ?_⟩
        obtain ⟨j1, j2⟩ := i3 i hi
        exact ⟨by omega, j2⟩
    · rw [if_neg htmp]
      have htmp0 : bitsAt (L.row a) C.cp (curPos + 1) = 0 := by simpa using htmp
      have hbits : ∀ l, l ≤ curPos → (L.row a).testBit (C.cp + l) = false := by
        intro l hl
        have := congrArg (fun v => Nat.testBit v l) htmp0
        simp only [bitsAt_testBit, Nat.zero_testBit] at this
        simpa [Nat.lt_succ_of_le hl] using this
      -- the row is already the naive one
      have hrowa : LowEq C.wc (L.row a) (N.row a) := by
        rw [lazySeq_of_zero] at hrest
        · exact hrest.symm
        · intro t ht
          have ht' : t < pivots.size := by simpa using ht
          exact hbits _ (Nat.le_of_lt (hS.piv_lt t ht'))
      have hnf : N.get a (C.cp + curPos) = false := by
        have := hrowa.bit hcol
        unfold get; rw [← this]; exact hbits curPos (Nat.le_refl _)
      obtain ⟨i1, i2, i3⟩ := ih (a + 1) L done (by omega) (by omega) hD (fun x h1 h2 => by
        by_cases hxa : x = a
        · subst hxa; exact ⟨hrowa, hnf⟩
        · exact hsc x h1 (by omega))
      refine ⟨i1, i2, fun i hi => ?_⟩
      obtain ⟨j1, j2⟩ := i3 i hi
      exact ⟨by omega, j2⟩

/-! ### one column of the strip -/

omit hC in
theorem swapRowsPart_low {M : BMat} (hM : M.WF) (a b wc : Nat) (ha : a < M.nrows) (hb : b < M.nrows)
    (hwc : wc ≤ M.ncols) (x : Nat) : LowEq wc ((swapRowsPart M a b 0 wc).row x) (M.row (swapIdx a b x)) := by
  rw [lowEq_iff]
  intro j hj
  have := swapRowsPart_get hM a b 0 wc ha hb hwc x j
  rw [if_pos ⟨Nat.zero_le _, hj⟩] at this
  exact this

omit hC in
theorem swapRowsPart_high {M : BMat} (hM : M.WF) (a b wc : Nat) (ha : a < M.nrows) (hb : b < M.nrows)
    (hwc : wc ≤ M.ncols) (x n : Nat) : part ((swapRowsPart M a b 0 wc).row x) wc n = part (M.row x) wc n := by
  apply Nat.eq_of_testBit_eq
  intro j
  rw [testBit_part, testBit_part]
  by_cases hj : wc ≤ j
  · have := swapRowsPart_get hM a b 0 wc ha hb hwc x j
    rw [if_neg (by omega)] at this
    unfold get at this
    rw [this]
  · have : ¬ (wc ≤ j ∧ j < n) := fun h => hj h.1
    simp [this]

omit hC in
theorem swapRowsPart_other {M : BMat} (hM : M.WF) (a b lo hi : Nat) (ha : a < M.nrows) (hb : b < M.nrows)
    (hhi : hi ≤ M.ncols) (x : Nat) (h1 : x ≠ a) (h2 : x ≠ b) : (swapRowsPart M a b lo hi).row x = M.row x := by
  rw [(swapRowsPart_spec hM a b lo hi ha hb hhi).2.2.2 x, if_neg h1, if_neg h2]

omit hC in
theorem CF_congr {M0 N : BMat} {P : Array Nat} {rp s : Nat} {c c' : Nat → Nat} (h : ∀ t, t < s → c t = c' t)
    (hcf : CF M0 N P rp c s) : CF M0 N P rp c' s := by
  intro x hx
  rw [hcf x hx]
  apply elimSeq_congr
  intro t ht
  have ht' : t < min s (x - rp) := by simpa using ht
  exact ⟨h t (by omega), rfl⟩

theorem subStep_spec {s : Sub} {curPos : Nat} {N : BMat} (hS : SInv C s.P s.Q s.pivots curPos N)
    (hD : DInv C s.M s.P s.pivots s.done N) (hcur : curPos < C.kk) :
    ∃ N', SInv C (subStep C.rp C.M0.nrows C.cp C.wc s curPos).P (subStep C.rp C.M0.nrows C.cp C.wc s curPos).Q
        (subStep C.rp C.M0.nrows C.cp C.wc s curPos).pivots (curPos + 1) N' ∧
      DInv C (subStep C.rp C.M0.nrows C.cp C.wc s curPos).M (subStep C.rp C.M0.nrows C.cp C.wc s curPos).P
        (subStep C.rp C.M0.nrows C.cp C.wc s curPos).pivots (subStep C.rp C.M0.nrows C.cp C.wc s curPos).done N' := by
  have hscan := scanRows_spec hC hS hcur (C.M0.nrows - (C.rp + s.pivots.size)) (C.rp + s.pivots.size) s.M s.done
    (by have := hS.rank_le; omega) (Nat.le_refl _) hD (fun x h1 h2 => by omega)
  obtain ⟨nwf, nnr, nnc, psz, qsz⟩ := hS.nshape hC
  have hcol : C.cp + curPos < C.wc := by have := hC.hkk; omega
  have hwc := hC.hwc
  unfold subStep
  simp only []
  generalize scanRows C.rp C.cp C.wc curPos s.pivots
    (List.range' (C.rp + s.pivots.size) (C.M0.nrows - (C.rp + s.pivots.size))) s.M s.done = r at hscan
  obtain ⟨L', done', f⟩ := r
  simp only [] at hscan
  obtain ⟨hD', hnone, hsome⟩ := hscan
  cases f with
  | none =>
    simp only []
    have hz := hnone rfl
    refine ⟨N, ⟨hS.rank_le, fun t ht => Nat.lt_succ_of_lt (hS.piv_lt t ht), hS.piv_mono, ?_, hS.cf, ?_, hS.pivbit⟩, hD'⟩
    · exact hS.reach.snoc_skip (C.cp + curPos + 1) (Nat.le_succ _) (by simp only [nnc]; omega)
        (fun i j h1 h2 h3 h4 => by
          have : j = C.cp + curPos := by simp only [] at h3; omega
          subst this
          exact (hz i h1 (by simpa only [nnr] using h2)).2)
    · intro x col h1 h2 h3 h4 h5
      by_cases hc : col = C.cp + curPos
      · subst hc; exact (hz x h1 h2).2
      · exact hS.zcols x col h1 h2 h3 (by omega) h5
  | some i =>
    simp only []
    obtain ⟨hai, hin, hsc, hrowi, hfound, hdge⟩ := hsome i rfl
    -- abbreviations
    obtain ⟨a, ha⟩ : ∃ a, C.rp + s.pivots.size = a := ⟨_, rfl⟩
    have hrk := hS.rank_le
    rw [ha]
    have hiN : i < N.nrows := by rw [nnr]; exact hin
    have haN : a < N.nrows := by omega
    have hiL : i < L'.nrows := by rw [hD'.lnr]; exact hin
    have haL : a < L'.nrows := by rw [hD'.lnr]; omega
    have hwcL : C.wc ≤ L'.ncols := by rw [hD'.lnc]; exact hwc
    have hsz' : (s.pivots.push curPos).size = s.pivots.size + 1 := Array.size_push _
    have hdsz' : done'.size = s.pivots.size := hD'.dsz
    -- rows of the new naive state
    have hNrow : ∀ x, (stepM N a i (C.cp + curPos)).row x =
        if a < x ∧ x < N.nrows then elimRow (N.row i) (C.cp + curPos) N.ncols ((N.swapRows a i).row x)
        else (N.swapRows a i).row x := fun x => stepM_row nwf haN hiN x
    have hNsw : ∀ x, (N.swapRows a i).row x = if x = a then N.row i else if x = i then N.row a else N.row x :=
      fun x => row_swapRows nwf a i x haN hiN
    -- rows of the new working matrix
    have hLlow : ∀ x, LowEq C.wc ((swapRowsPart L' i a 0 C.wc).row x) (L'.row (swapIdx i a x)) :=
      fun x => swapRowsPart_low hD'.lwf i a C.wc hiL haL hwcL x
    have hLoth : ∀ x, x ≠ i → x ≠ a → (swapRowsPart L' i a 0 C.wc).row x = L'.row x :=
      fun x h1 h2 => swapRowsPart_other hD'.lwf i a 0 C.wc hiL haL hwcL x h1 h2
    obtain ⟨w1, w2, w3, _⟩ := swapRowsPart_spec hD'.lwf i a 0 C.wc hiL haL hwcL
    have hrowa : LowEq C.wc ((swapRowsPart L' i a 0 C.wc).row a) (N.row i) := by
      have := hLlow a
      have e : swapIdx i a a = i := by unfold swapIdx; split <;> simp_all
      rw [e] at this
      exact this.trans hrowi
    have hpivget : ∀ t, t < s.pivots.size → (s.pivots.push curPos).getD t 0 = s.pivots.getD t 0 :=
      fun t ht => by rw [getD_push, if_pos ht]
    have hpivlast : (s.pivots.push curPos).getD s.pivots.size 0 = curPos := by
      rw [getD_push, if_neg (Nat.lt_irrefl _), if_pos rfl]
    have hdget : ∀ t, t < s.pivots.size → (done'.push i).getD t 0 = done'.getD t 0 :=
      fun t ht => by rw [getD_push, if_pos (by rw [hdsz']; exact ht)]
    have hdlast : (done'.push i).getD s.pivots.size 0 = i := by
      rw [getD_push, if_neg (by rw [hdsz']; exact Nat.lt_irrefl _), if_pos hdsz'.symm]
    refine ⟨stepM N a i (C.cp + curPos), ⟨?_, ?_, ?_, ?_, ?_, ?_, ?_⟩, ⟨?_, ?_, ?_, ?_, ?_, ?_, ?_, ?_, ?_, ?_, ?_⟩⟩
    · -- rank_le
      rw [hsz']; omega
    · -- piv_lt
      intro t ht
      rw [hsz'] at ht
      by_cases h : t < s.pivots.size
      · rw [hpivget t h]; exact Nat.lt_succ_of_lt (hS.piv_lt t h)
      · have : t = s.pivots.size := by omega
        subst this; rw [hpivlast]; exact Nat.lt_succ_self _
    · -- piv_mono
      intro t t' h1 h2
      rw [hsz'] at h2
      by_cases h : t' < s.pivots.size
      · rw [hpivget t (by omega), hpivget t' h]; exact hS.piv_mono t t' h1 h
      · have : t' = s.pivots.size := by omega
        subst this
        rw [hpivget t h1, hpivlast]; exact hS.piv_lt t h1
    · -- reach
      have hsearch : search N (C.rp + s.pivots.size) (C.cp + curPos) = some (i, C.cp + curPos) :=
        search_eq_some (by omega) hiN (Nat.le_refl _) (by rw [nnc]; omega) hfound
          (fun i' h1 h2 => (hsc i' h1 h2).2) (fun i' j' _ _ h3 h4 => by omega)
      have := hS.reach.snoc_pivot i (C.cp + curPos) hsearch
      simp only [] at this
      rw [ha] at this
      rw [hsz', show C.rp + (s.pivots.size + 1) = a + 1 by omega]
      exact this
    · -- cf
      have hcf0 : CF C.M0 N s.P C.rp (fun t => C.cp + (s.pivots.push curPos).getD t 0) s.pivots.size :=
        CF_congr (fun t ht => by rw [hpivget t ht]) hS.cf
      have := CF.step hC.wf nwf nnr nnc psz hcf0 (by omega) hin (by rw [hpivlast])
      rw [hsz']
      rw [ha] at this
      exact this
    · -- zcols
      intro x col h1 h2 h3 h4 h5
      rw [hsz'] at h1 h5
      have hcne : col ≠ C.cp + curPos := by
        have := h5 s.pivots.size (Nat.lt_succ_self _)
        rw [hpivlast] at this
        exact fun e => this e.symm
      have hclt : col < C.cp + curPos := by omega
      unfold get
      rw [hNrow x, if_pos ⟨by omega, by rw [nnr]; exact h2⟩, elimRow_testBit]
      have hdec : ¬ (C.cp + curPos < col ∧ col < N.ncols) := by omega
      rw [decide_eq_false hdec]
      simp only [Bool.false_and, Bool.and_false, Bool.xor_false]
      have hz := fun y (hy1 : a ≤ y) (hy2 : y < C.M0.nrows) => hS.zcols y col (by omega) hy2 h3 hclt
        (fun t ht => by have := h5 t (by omega); rwa [hpivget t ht] at this)
      unfold get at hz
      rw [hNsw x]
      split
      · exact hz i (by omega) hin
      · split
        · exact hz a (Nat.le_refl _) (by omega)
        · exact hz x (by omega) h2
    · -- pivbit
      intro t ht
      rw [hsz'] at ht
      unfold get
      by_cases h : t < s.pivots.size
      · rw [hNrow (C.rp + t), if_neg (by omega), hNsw, if_neg (by omega), if_neg (by omega), hpivget t h]
        exact hS.pivbit t h
      · have : t = s.pivots.size := by omega
        subst this
        rw [ha, hNrow a, if_neg (by omega), hNsw, if_pos rfl, hpivlast]
        exact hfound
    · exact w1
    · rw [w2]; exact hD'.lnr
    · rw [w3]; exact hD'.lnc
    · -- dsz
      rw [Array.size_push, hsz', hdsz']
    · -- done_lo
      intro t ht
      rw [hsz'] at ht ⊢
      by_cases h : t < s.pivots.size
      · rw [hdget t h]; have := hdge t h; omega
      · have : t = s.pivots.size := by omega
        subst this; rw [hdlast]; omega
    · -- done_hi
      intro t ht
      rw [hsz'] at ht
      by_cases h : t < s.pivots.size
      · rw [hdget t h]; exact hD'.done_hi t h
      · have : t = s.pivots.size := by omega
        subst this; rw [hdlast]; exact hin
    · -- high
      intro x
      rw [swapRowsPart_high hD'.lwf i a C.wc hiL haL hwcL]; exact hD'.high x
    · -- lowPiv
      intro x hx
      rw [hsz'] at hx
      by_cases hxa : x = a
      · subst hxa
        rw [hNrow x, if_neg (by omega), hNsw x, if_pos rfl]
        exact hrowa
      · have hxlt : x < a := by omega
        rw [hLoth x (by omega) hxa, hNrow x, if_neg (by omega), hNsw x, if_neg hxa, if_neg (by omega)]
        exact hD'.lowPiv x (by omega)
    · -- lowRest
      intro x hx1 hx2
      rw [hsz'] at hx1
      have hxa : a < x := by omega
      rw [hsz', List.range_succ, lazySeq_append, lazySeq_cons, lazySeq_nil, hNrow x,
        if_pos ⟨hxa, by rw [nnr]; exact hx2⟩, hNsw x, if_neg (by omega)]
      -- the first `size` steps are the old ones
      have hinner : lazySeq (fun t => (swapRowsPart L' i a 0 C.wc).row (C.rp + t))
            (fun t => C.cp + (s.pivots.push curPos).getD t 0) (fun t => decide ((done'.push i).getD t 0 < x)) C.wc
            (List.range s.pivots.size) ((swapRowsPart L' i a 0 C.wc).row x) =
          lazySeq (fun t => L'.row (C.rp + t)) (fun t => C.cp + s.pivots.getD t 0)
            (fun t => decide (done'.getD t 0 < x)) C.wc (List.range s.pivots.size)
            ((swapRowsPart L' i a 0 C.wc).row x) := by
        apply lazySeq_congr
        intro t ht
        have ht' : t < s.pivots.size := by simpa using ht
        refine ⟨by rw [hdget t ht'], fun _ => ⟨by rw [hpivget t ht'], ?_⟩⟩
        rw [hLoth (C.rp + t) (by omega) (by omega)]
      rw [hinner, hdlast, hpivlast]
      by_cases hxi : x ≤ i
      · -- nothing to do for this row: it was looked at before the pivot row
        rw [decide_eq_false (by omega : ¬ i < x)]
        simp only [Bool.false_eq_true, if_false]
        rw [lazySeq_of_false _ _ (fun t ht => by
          have ht' : t < s.pivots.size := by simpa using ht
          have := hdge t ht'
          exact decide_eq_false (by omega))]
        have hy : ∀ y, a ≤ y → y < i → LowEq C.wc (elimRow (N.row i) (C.cp + curPos) N.ncols (N.row y)) (L'.row y) := by
          intro y h1 h2
          obtain ⟨q1, q2⟩ := hsc y (by omega) h2
          rw [elimRow_of_not (by unfold get at q2; exact q2)]
          exact q1.symm
        by_cases hxe : x = i
        · subst hxe
          rw [if_pos rfl]
          have e : swapIdx x a x = a := by unfold swapIdx; simp
          have := hLlow x
          rw [e] at this
          exact (hy a (Nat.le_refl _) hxa).trans this.symm
        · rw [if_neg hxe, hLoth x hxe (by omega)]
          exact hy x (by omega) (by omega)
      · have hix : i < x := by omega
        rw [decide_eq_true hix]
        simp only [if_true]
        rw [if_neg (by omega), hLoth x (by omega) (by omega), ha]
        exact elimRow_lowEq (by rw [nnc]; exact hwc) hcol hrowa.symm (hD'.lowRest x (by omega) hx2)
    · -- pP
      intro t ht
      rw [hsz'] at ht
      by_cases h : t < s.pivots.size
      · rw [getD_set, if_neg (by omega), hdget t h]
        exact hD'.pP t h
      · have : t = s.pivots.size := by omega
        subst this
        rw [getD_set, if_pos ⟨ha.symm, by rw [psz]; omega⟩, hdlast]
        omega
    · -- untouched
      intro x hx1 hx2 hx3
      rw [hsz'] at hx1 hx3
      have hix : i < x := by
        have := hx3 s.pivots.size (Nat.lt_succ_self _)
        rwa [hdlast] at this
      rw [hLoth x (by omega) (by omega)]
      exact hD'.untouched x (by omega) hx2 (fun t ht => by have := hx3 t (by omega); rwa [hdget t ht] at this)

/-! ### the whole of `_mzd_ple_submatrix` -/

omit hC in
/-- strictly increasing entries are at least their index -/
theorem le_of_mono (pivots : Array Nat) (hm : ∀ t t', t < t' → t' < pivots.size → pivots.getD t 0 < pivots.getD t' 0) :
    ∀ t, t < pivots.size → t ≤ pivots.getD t 0 := by
  intro t
  induction t with
  | zero => intro _; exact Nat.zero_le _
  | succ t ih =>
    intro ht
    have := ih (by omega)
    have := hm t (t + 1) (Nat.lt_succ_self _) ht
    omega

theorem subLoop_spec (hrp : C.rp ≤ C.M0.nrows) : ∀ n, n ≤ C.kk →
    ∃ N, SInv C ((List.range n).foldl (subStep C.rp C.M0.nrows C.cp C.wc) ⟨C.M0, C.P0, C.Q0, #[], #[]⟩).P
        ((List.range n).foldl (subStep C.rp C.M0.nrows C.cp C.wc) ⟨C.M0, C.P0, C.Q0, #[], #[]⟩).Q
        ((List.range n).foldl (subStep C.rp C.M0.nrows C.cp C.wc) ⟨C.M0, C.P0, C.Q0, #[], #[]⟩).pivots n N ∧
      DInv C ((List.range n).foldl (subStep C.rp C.M0.nrows C.cp C.wc) ⟨C.M0, C.P0, C.Q0, #[], #[]⟩).M
        ((List.range n).foldl (subStep C.rp C.M0.nrows C.cp C.wc) ⟨C.M0, C.P0, C.Q0, #[], #[]⟩).P
        ((List.range n).foldl (subStep C.rp C.M0.nrows C.cp C.wc) ⟨C.M0, C.P0, C.Q0, #[], #[]⟩).pivots
        ((List.range n).foldl (subStep C.rp C.M0.nrows C.cp C.wc) ⟨C.M0, C.P0, C.Q0, #[], #[]⟩).done N := by
  intro n
  induction n with
  | zero =>
    intro _
    simp only [List.range_zero, List.foldl_nil]
    refine ⟨C.M0, ⟨?_, ?_, ?_, ?_, ?_, ?_, ?_⟩, ⟨hC.wf, rfl, rfl, rfl, ?_, ?_, fun x => rfl, fun x _ => LowEq.rfl', ?_, ?_, fun x _ _ _ => rfl⟩⟩
    · exact hrp
    · intro t ht; simp at ht
    · intro t t' _ ht; simp at ht
    · exact Reach.refl _
    · exact CF.init _ _ _ _
    · intro x col _ _ h3 h4 _; omega
    · intro t ht; simp at ht
    · intro t ht; simp at ht
    · intro t ht; simp at ht
    · intro x _ _; exact LowEq.rfl'
    · intro t ht; simp at ht
  | succ n ih =>
    intro hn
    obtain ⟨N, hS, hD⟩ := ih (by omega)
    rw [List.range_succ, List.foldl_append]
    simp only [List.foldl_cons, List.foldl_nil]
    exact subStep_spec hC hS hD (by omega)

/-- what `_mzd_ple_submatrix` delivers -/
structure SubOut (C : Ctx) (s : Sub) (doneRow : Nat) (N : BMat) : Prop where
  sinv : SInv C s.P s.Q s.pivots C.kk N
  lwf : s.M.WF
  lnr : s.M.nrows = C.M0.nrows
  lnc : s.M.ncols = C.M0.ncols
  rank_kk : s.pivots.size ≤ C.kk
  dr_lt : doneRow < C.M0.nrows
  dr_ge : C.rp + s.pivots.size ≤ doneRow + 1
  dr_def : s.pivots.size < C.kk → doneRow = C.M0.nrows - 1
  high : ∀ x, part (s.M.row x) C.wc C.M0.ncols = part (C.M0.row x) C.wc C.M0.ncols
  low : ∀ x, x ≤ doneRow → LowEq C.wc (s.M.row x) (N.row x)
  untouched : ∀ x, doneRow < x → x < C.M0.nrows → s.M.row x = C.M0.row x
  pP : ∀ t, t < s.pivots.size → C.rp + t ≤ s.P.getD (C.rp + t) 0 ∧ s.P.getD (C.rp + t) 0 ≤ doneRow

theorem submatrix_spec (hrp : C.rp < C.M0.nrows) (hkk : 1 ≤ C.kk) (splitblock : Nat)
    (hwc : C.wc = min C.M0.ncols (64 * splitblock)) :
    ∃ N, SubOut C (submatrix C.M0 C.P0 C.Q0 C.rp C.M0.nrows C.cp C.kk splitblock).1
      (submatrix C.M0 C.P0 C.Q0 C.rp C.M0.nrows C.cp C.kk splitblock).2 N := by
  obtain ⟨N, hS, hD⟩ := subLoop_spec hC (Nat.le_of_lt hrp) C.kk (Nat.le_refl _)
  unfold submatrix
  simp only []
  rw [← hwc]
  generalize (List.range C.kk).foldl (subStep C.rp C.M0.nrows C.cp C.wc) ⟨C.M0, C.P0, C.Q0, #[], #[]⟩ = s at hS hD
  have hrank : s.pivots.size ≤ C.kk := by
    by_cases h0 : s.pivots.size = 0
    · omega
    · have h1 := le_of_mono s.pivots hS.piv_mono (s.pivots.size - 1) (by omega)
      have h2 := hS.piv_lt (s.pivots.size - 1) (by omega)
      omega
  have hkkwc := hC.hkk
  -- `done_row` dominates every `done[t]`
  have hdr : ∀ t, t < s.pivots.size → s.done.getD t 0 ≤ (if s.pivots.size < C.kk then C.M0.nrows - 1 else maxValue s.done) := by
    intro t ht
    split
    · have := hD.done_hi t ht; omega
    · exact le_maxValue _ _ (by rw [hD.dsz]; exact ht)
  have hdrlt : (if s.pivots.size < C.kk then C.M0.nrows - 1 else maxValue s.done) < C.M0.nrows := by
    split
    · omega
    · exact maxValue_lt _ _ (by omega) (fun t ht => hD.done_hi t (by rw [← hD.dsz]; exact ht))
  have hdrge : C.rp + s.pivots.size ≤ (if s.pivots.size < C.kk then C.M0.nrows - 1 else maxValue s.done) + 1 := by
    split
    · have := hS.rank_le; omega
    · have h0 := hD.done_lo 0 (by omega)
      have h1 := le_maxValue s.done 0 (by rw [hD.dsz]; omega)
      omega
  have hdrdef : s.pivots.size < C.kk → (if s.pivots.size < C.kk then C.M0.nrows - 1 else maxValue s.done) = C.M0.nrows - 1 :=
    fun h => if_pos h
  generalize (if s.pivots.size < C.kk then C.M0.nrows - 1 else maxValue s.done) = doneRow at hdr hdrlt hdrge hdrdef
  obtain ⟨f1, f2, f3, f4⟩ := finishSub_spec hD.lwf C.rp C.cp C.wc doneRow s.pivots s.done
    (by rw [hD.lnc]; exact hC.hwc) (by rw [hD.lnr]; exact hdrlt) hS.piv_mono
    (fun t ht => by have := hS.piv_lt t ht; omega) hD.done_lo
  refine ⟨N, ⟨hS, f1, by rw [f2, hD.lnr], by rw [f3, hD.lnc], hrank, hdrlt, hdrge, ?_, ?_, ?_, ?_, ?_⟩⟩
  · exact hdrdef
  · intro x
    show part ((finishSub s.M C.rp C.cp C.wc doneRow s.pivots s.done).row x) C.wc C.M0.ncols = _
    rw [f4 x]
    split
    · rw [lazySeq_part_high]; exact hD.high x
    · exact hD.high x
  · intro x hx
    show LowEq C.wc ((finishSub s.M C.rp C.cp C.wc doneRow s.pivots s.done).row x) (N.row x)
    rw [f4 x]
    by_cases h : C.rp + s.pivots.size ≤ x
    · rw [if_pos ⟨h, hx⟩]
      exact (hD.lowRest x h (by omega)).symm
    · rw [if_neg (fun hh => h hh.1)]
      exact hD.lowPiv x (by omega)
  · intro x hx1 hx2
    show (finishSub s.M C.rp C.cp C.wc doneRow s.pivots s.done).row x = _
    rw [f4 x, if_neg (by omega)]
    exact hD.untouched x (by omega) hx2 (fun t ht => by have := hdr t ht; omega)
  · intro t (ht : t < s.pivots.size)
    obtain ⟨p1, p2⟩ := hD.pP t ht
    refine ⟨p1, ?_⟩
    show s.P.getD (C.rp + t) 0 ≤ doneRow
    have := hdr t ht; omega

end

/-- non-vacuity: the hypotheses of `submatrix_spec` are satisfiable (a 3 × 4 matrix, strip of 4 columns, no window) -/
example : Ctx.OK ⟨⟨3, 4, #[10, 2, 8]⟩, #[0, 1, 2], #[0, 1, 2, 3], 0, 0, 4, 4⟩ ∧
    (submatrix ⟨3, 4, #[10, 2, 8]⟩ #[0, 1, 2] #[0, 1, 2, 3] 0 3 0 4 1).1.pivots = #[1, 3] := by
  refine ⟨⟨⟨rfl, fun i => ?_⟩, rfl, rfl, by decide, by decide⟩, by decide +kernel⟩
  by_cases h : i < 3
  · have : i = 0 ∨ i = 1 ∨ i = 2 := by omega
    rcases this with rfl | rfl | rfl <;> decide
  · rw [row_of_ge _ _ (by simp; omega)]; decide

end PR
end BMat
end M4ri
