/-
  PleRussian proofs, part 0: shared definitions and the small row-level (`Nat`) lemmas.
  Everything lives in `M4ri.BMat.PR`.
-/
import M4ri.PleRussian
import M4riProofs.PleNaive
namespace M4ri
namespace BMat
namespace PR
open Rec PN

/-! ### `part` -/

theorem testBit_part (v lo hi j : Nat) :
    (part v lo hi).testBit j = (decide (lo ≤ j ∧ j < hi) && v.testBit j) := by
  unfold part
  rw [testBit_shift_back, Nat.testBit_mod_two_pow]
  by_cases h1 : lo ≤ j <;> by_cases h2 : j < hi <;> simp [h1, h2]

theorem part_lt (v lo hi : Nat) : part v lo hi < 2 ^ hi := by
  apply Nat.lt_pow_two_of_testBit
  intro j hj
  rw [testBit_part]
  have : ¬ (lo ≤ j ∧ j < hi) := by omega
  simp [this]

theorem part_lt_of_le (v lo hi n : Nat) (h : hi ≤ n) : part v lo hi < 2 ^ n :=
  Nat.lt_of_lt_of_le (part_lt v lo hi) (Nat.pow_le_pow_right (by omega) h)

theorem part_xor (a b lo hi : Nat) : part (a ^^^ b) lo hi = part a lo hi ^^^ part b lo hi := by
  apply Nat.eq_of_testBit_eq
  intro j
  simp only [testBit_part, Nat.testBit_xor]
  cases decide (lo ≤ j ∧ j < hi) <;> simp

theorem part_zero (lo hi : Nat) : part 0 lo hi = 0 := by
  apply Nat.eq_of_testBit_eq; intro j; simp [testBit_part]

theorem part_empty (v lo hi : Nat) (h : hi ≤ lo) : part v lo hi = 0 := by
  apply Nat.eq_of_testBit_eq; intro j
  rw [testBit_part]
  have : ¬ (lo ≤ j ∧ j < hi) := by omega
  simp [this]

/-- a value below `2^n` is its columns `[0, n)` -/
theorem part_full {v n : Nat} (h : v < 2 ^ n) : part v 0 n = v := by
  apply Nat.eq_of_testBit_eq; intro j
  rw [testBit_part]
  by_cases hj : j < n
  · simp [hj]
  · have : v.testBit j = false :=
      Nat.testBit_lt_two_pow (Nat.lt_of_lt_of_le h (Nat.pow_le_pow_right (by omega) (by omega)))
    simp [hj, this]

theorem part_split (v lo mid hi : Nat) (h1 : lo ≤ mid) (h2 : mid ≤ hi) :
    part v lo hi = part v lo mid ^^^ part v mid hi := by
  apply Nat.eq_of_testBit_eq; intro j
  simp only [testBit_part, Nat.testBit_xor]
  have e : decide (lo ≤ j ∧ j < hi) = (decide (lo ≤ j ∧ j < mid) ^^ decide (mid ≤ j ∧ j < hi)) := by
    by_cases a : lo ≤ j ∧ j < mid
    · have b : ¬ (mid ≤ j ∧ j < hi) := by omega
      have c : lo ≤ j ∧ j < hi := by omega
      simp [a, c]
    · by_cases b : mid ≤ j ∧ j < hi
      · have c : lo ≤ j ∧ j < hi := by omega
        simp [b, c]
      · have c : ¬ (lo ≤ j ∧ j < hi) := by omega
        simp [a, b, c]
  rw [e]
  cases decide (lo ≤ j ∧ j < mid) <;> cases decide (mid ≤ j ∧ j < hi) <;> simp

theorem part_part (v lo hi lo' hi' : Nat) :
    part (part v lo hi) lo' hi' = part v (max lo lo') (min hi hi') := by
  apply Nat.eq_of_testBit_eq; intro j
  simp only [testBit_part]
  have e : (decide (lo' ≤ j ∧ j < hi') && decide (lo ≤ j ∧ j < hi)) = decide (max lo lo' ≤ j ∧ j < min hi hi') := by
    by_cases a : lo' ≤ j ∧ j < hi'
    · by_cases b : lo ≤ j ∧ j < hi
      · have c : max lo lo' ≤ j ∧ j < min hi hi' := by omega
        simp [a, b, c]
      · have c : ¬ (max lo lo' ≤ j ∧ j < min hi hi') := by omega
        simp [a, b]
    · have c : ¬ (max lo lo' ≤ j ∧ j < min hi hi') := by omega
      rw [decide_eq_false a, decide_eq_false c]; rfl
  rw [← e, Bool.and_assoc]

/-! ### row-level elimination -/

/-- `if bit(v, c) then v ^= e from column c+1 on (below column n)` -/
def elimRow (e c n v : Nat) : Nat := if v.testBit c then v ^^^ part e (c + 1) n else v

/-- the steps `t ∈ ts` for which `cond t` holds, in order, with pivot row `e t` and pivot column `c t` -/
def lazySeq (e c : Nat → Nat) (cond : Nat → Bool) (n : Nat) (ts : List Nat) (v : Nat) : Nat :=
  ts.foldl (fun v t => if cond t then elimRow (e t) (c t) n v else v) v

/-- all steps -/
def elimSeq (e c : Nat → Nat) (n : Nat) (ts : List Nat) (v : Nat) : Nat :=
  ts.foldl (fun v t => elimRow (e t) (c t) n v) v

/-- XOR of `f 0, …, f (n-1)` -/
def xfold (n : Nat) (f : Nat → Nat) : Nat := (List.range n).foldl (fun acc t => acc ^^^ f t) 0

theorem elimRow_testBit (e c n v j : Nat) :
    (elimRow e c n v).testBit j = (v.testBit j ^^ (v.testBit c && (decide (c < j ∧ j < n) && e.testBit j))) := by
  unfold elimRow
  by_cases h : v.testBit c = true
  · rw [if_pos h, Nat.testBit_xor, testBit_part, h]
    have : decide (c + 1 ≤ j ∧ j < n) = decide (c < j ∧ j < n) := by apply decide_eq_decide.mpr; omega
    rw [this]; simp
  · rw [if_neg h]
    have : v.testBit c = false := by simpa using h
    simp [this]

theorem elimRow_lt {e c n v : Nat} (hv : v < 2 ^ n) : elimRow e c n v < 2 ^ n := by
  unfold elimRow
  split
  · exact Nat.xor_lt_two_pow hv (part_lt _ _ _)
  · exact hv

theorem elimSeq_eq_lazySeq (e c : Nat → Nat) (n : Nat) (ts : List Nat) (v : Nat) :
    elimSeq e c n ts v = lazySeq e c (fun _ => true) n ts v := by
  unfold elimSeq lazySeq; simp

theorem lazySeq_nil (e c : Nat → Nat) (cond : Nat → Bool) (n v : Nat) : lazySeq e c cond n [] v = v := rfl

theorem lazySeq_cons (e c : Nat → Nat) (cond : Nat → Bool) (n t : Nat) (ts : List Nat) (v : Nat) :
    lazySeq e c cond n (t :: ts) v = lazySeq e c cond n ts (if cond t then elimRow (e t) (c t) n v else v) := rfl

theorem lazySeq_append (e c : Nat → Nat) (cond : Nat → Bool) (n : Nat) (ts us : List Nat) (v : Nat) :
    lazySeq e c cond n (ts ++ us) v = lazySeq e c cond n us (lazySeq e c cond n ts v) := by
  unfold lazySeq; rw [List.foldl_append]

theorem elimSeq_nil (e c : Nat → Nat) (n v : Nat) : elimSeq e c n [] v = v := rfl

theorem elimSeq_cons (e c : Nat → Nat) (n t : Nat) (ts : List Nat) (v : Nat) :
    elimSeq e c n (t :: ts) v = elimSeq e c n ts (elimRow (e t) (c t) n v) := rfl

theorem elimSeq_append (e c : Nat → Nat) (n : Nat) (ts us : List Nat) (v : Nat) :
    elimSeq e c n (ts ++ us) v = elimSeq e c n us (elimSeq e c n ts v) := by
  unfold elimSeq; rw [List.foldl_append]

theorem lazySeq_lt {e c : Nat → Nat} {cond : Nat → Bool} {n : Nat} (ts : List Nat) {v : Nat} (hv : v < 2 ^ n) :
    lazySeq e c cond n ts v < 2 ^ n := by
  induction ts generalizing v with
  | nil => exact hv
  | cons t ts ih =>
    rw [lazySeq_cons]
    apply ih
    split
    · exact elimRow_lt hv
    · exact hv

theorem elimSeq_lt {e c : Nat → Nat} {n : Nat} (ts : List Nat) {v : Nat} (hv : v < 2 ^ n) :
    elimSeq e c n ts v < 2 ^ n := by
  rw [elimSeq_eq_lazySeq]; exact lazySeq_lt ts hv

/-- the steps only depend on `e`, `c`, `cond` at the members of the list -/
theorem lazySeq_congr {e e' c c' : Nat → Nat} {cond cond' : Nat → Bool} (n : Nat) (ts : List Nat) (v : Nat)
    (h : ∀ t, t ∈ ts → cond t = cond' t ∧ (cond t = true → c t = c' t ∧
      part (e t) (c t + 1) n = part (e' t) (c t + 1) n)) :
    lazySeq e c cond n ts v = lazySeq e' c' cond' n ts v := by
  induction ts generalizing v with
  | nil => rfl
  | cons t ts ih =>
    rw [lazySeq_cons, lazySeq_cons]
    obtain ⟨h1, h2⟩ := h t (by simp)
    rw [← h1]
    have : (if cond t = true then elimRow (e t) (c t) n v else v) =
        (if cond t = true then elimRow (e' t) (c' t) n v else v) := by
      by_cases hc : cond t = true
      · obtain ⟨h3, h4⟩ := h2 hc
        rw [if_pos hc, if_pos hc]
        unfold elimRow
        rw [← h3, h4]
      · rw [if_neg hc, if_neg hc]
    rw [this]
    exact ih _ (fun t' ht' => h t' (by simp [ht']))

theorem elimSeq_congr {e e' c c' : Nat → Nat} (n : Nat) (ts : List Nat) (v : Nat)
    (h : ∀ t, t ∈ ts → c t = c' t ∧ part (e t) (c t + 1) n = part (e' t) (c t + 1) n) :
    elimSeq e c n ts v = elimSeq e' c' n ts v := by
  rw [elimSeq_eq_lazySeq, elimSeq_eq_lazySeq]
  exact lazySeq_congr n ts v (fun t ht => ⟨rfl, fun _ => h t ht⟩)

/-- a step whose pivot column holds a zero does nothing -/
theorem elimRow_of_not {e c n v : Nat} (h : v.testBit c = false) : elimRow e c n v = v := by
  unfold elimRow; simp [h]

/-- if no pivot column of the list holds a one, nothing happens -/
theorem lazySeq_of_zero {e c : Nat → Nat} {cond : Nat → Bool} {n : Nat} (ts : List Nat) {v : Nat}
    (h : ∀ t, t ∈ ts → v.testBit (c t) = false) : lazySeq e c cond n ts v = v := by
  induction ts with
  | nil => rfl
  | cons t ts ih =>
    rw [lazySeq_cons, elimRow_of_not (h t (by simp))]
    simp only [ite_self]
    exact ih (fun t' ht' => h t' (by simp [ht']))

/-! ### extensionality on rows -/

theorem ext_rows {M N : BMat} (h1 : M.nrows = N.nrows) (h2 : M.ncols = N.ncols) (h3 : M.rows.size = N.rows.size)
    (h : ∀ i, i < M.rows.size → M.row i = N.row i) : M = N := by
  cases M with | mk mr mc mrows =>
  cases N with | mk nr nc nrows =>
  simp only at h1 h2 h3
  subst h1; subst h2
  congr 1
  apply Array.ext h3
  intro i hi1 hi2
  have := h i hi1
  simpa [row, Array.getD, hi1, hi2] using this

/-! ### the naive run as a reachability relation -/

/-- state of the main loop of `_mzd_ple_naive` -/
structure NSt where
  M : BMat
  P : Array Nat
  Q : Array Nat
  rp : Nat
  cp : Nat

/-- `Reach s t`: `t` is reached from `s` by rounds of the naive main loop (`pivot`), where the column cursor may
    additionally be advanced over columns that hold no one from row `rp` on (`skip`) -/
inductive Reach : NSt → NSt → Prop
  | refl (s : NSt) : Reach s s
  | pivot {s t : NSt} (i j : Nat) (hs : search s.M s.rp s.cp = some (i, j))
      (h : Reach ⟨stepM s.M s.rp i j, s.P.setIfInBounds s.rp i, s.Q.setIfInBounds s.rp j, s.rp + 1, j + 1⟩ t) :
      Reach s t
  | skip {s t : NSt} (cp' : Nat) (h1 : s.cp ≤ cp') (h2 : cp' ≤ s.M.ncols)
      (hz : ∀ i j, s.rp ≤ i → i < s.M.nrows → s.cp ≤ j → j < cp' → s.M.get i j = false)
      (h : Reach ⟨s.M, s.P, s.Q, s.rp, cp'⟩ t) : Reach s t

/-- the row swaps `(rp+t) ↔ P[rp+t]`, `t < s`, applied in order -/
def swapsBy (P : Array Nat) (rp s : Nat) (M : BMat) : BMat :=
  (List.range s).foldl (fun M t => M.swapRows (rp + t) (P.getD (rp + t) 0)) M

/-- closed form of the state `N` after `s` rounds from `M0` at row `rp` with pivot columns `c 0 < … < c (s-1)` and
    pivot rows recorded in `P`: every row is the row-swapped original, eliminated by the pivot rows above it -/
def CF (M0 N : BMat) (P : Array Nat) (rp : Nat) (c : Nat → Nat) (s : Nat) : Prop :=
  ∀ x, x < M0.nrows →
    N.row x = elimSeq (fun t => N.row (rp + t)) c M0.ncols (List.range (min s (x - rp))) ((swapsBy P rp s M0).row x)

end PR
end BMat
end M4ri
