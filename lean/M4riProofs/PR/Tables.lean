/-
  PleRussian proofs: the Four-Russians lookup tables of `_mzd_ple_russian` (`mzd_make_table_ple`, `_kk_setup`)
  equal row-by-row elimination.
    `lookupM_spec` : the multiplication tables (`_mzd_ple_a11_N`)
    `lookupE_spec` : the elimination tables (`_mzd_process_rows_ple_N`), full-rank strip
  Everything lives in `M4ri.BMat.PR`; private helpers carry the prefix `tb`.
-/
import M4riProofs.PR.Base
import M4riProofs.Gray
namespace M4ri
namespace BMat
namespace PR
open Rec PN

/-! ## 0. small helpers -/

theorem tb_testBit_bitsAt (a y n l : Nat) :
    (bitsAt a y n).testBit l = (decide (l < n) && a.testBit (y + l)) := by
  unfold bitsAt; rw [Nat.testBit_mod_two_pow, Nat.testBit_shiftRight]

/-- XOR of `f t` over a list -/
def tbXl (l : List Nat) (f : Nat → Nat) : Nat := l.foldl (fun acc t => acc ^^^ f t) 0

theorem xfold_eq_tbXl (n : Nat) (f : Nat → Nat) : xfold n f = tbXl (List.range n) f := rfl

theorem tbXl_nil (f : Nat → Nat) : tbXl [] f = 0 := rfl

theorem tbXl_foldl_acc (l : List Nat) (f : Nat → Nat) (a : Nat) :
    l.foldl (fun acc t => acc ^^^ f t) a = a ^^^ tbXl l f := by
  induction l generalizing a with
  | nil => simp [tbXl]
  | cons t l ih =>
    unfold tbXl
    rw [List.foldl_cons, List.foldl_cons, ih, ih (0 ^^^ f t), Nat.zero_xor, Nat.xor_assoc]

theorem tbXl_cons (t : Nat) (l : List Nat) (f : Nat → Nat) : tbXl (t :: l) f = f t ^^^ tbXl l f := by
  unfold tbXl
  rw [List.foldl_cons, tbXl_foldl_acc, Nat.zero_xor]; rfl

theorem tbXl_append (l1 l2 : List Nat) (f : Nat → Nat) : tbXl (l1 ++ l2) f = tbXl l1 f ^^^ tbXl l2 f := by
  unfold tbXl
  rw [List.foldl_append, tbXl_foldl_acc]; rfl

theorem tbXl_map (l : List Nat) (g : Nat → Nat) (f : Nat → Nat) : tbXl (l.map g) f = tbXl l (fun t => f (g t)) := by
  unfold tbXl; rw [List.foldl_map]

theorem tbXl_congr (l : List Nat) (f f' : Nat → Nat) (h : ∀ t, t ∈ l → f t = f' t) : tbXl l f = tbXl l f' := by
  induction l with
  | nil => rfl
  | cons t l ih =>
    rw [tbXl_cons, tbXl_cons, h t (by simp), ih (fun t' ht' => h t' (by simp [ht']))]

theorem tbXl_range_succ (n : Nat) (f : Nat → Nat) : tbXl (List.range (n + 1)) f = tbXl (List.range n) f ^^^ f n := by
  rw [List.range_succ, tbXl_append, tbXl_cons, tbXl_nil, Nat.xor_zero]

/-- the combination `⊕_{j < k, bit j of x} f j` (the shape of `combRows`) -/
def tbComb (f : Nat → Nat) : Nat → Nat → Nat
  | 0, _ => 0
  | k + 1, x => tbComb f k x ^^^ (if x.testBit k then f k else 0)

theorem combRows_eq_tbComb (rows : Array Nat) (r mask k x : Nat) :
    combRows rows r mask k x = tbComb (fun j => rows.getD (r + j) 0 &&& mask) k x := by
  induction k with
  | zero => rfl
  | succ k ih => rw [combRows, tbComb, ih]

theorem tbComb_congr_sel (f : Nat → Nat) (k x y : Nat) (h : ∀ j, j < k → x.testBit j = y.testBit j) :
    tbComb f k x = tbComb f k y := by
  induction k with
  | zero => rfl
  | succ k ih => rw [tbComb, tbComb, ih (fun j hj => h j (by omega)), h k (by omega)]

theorem tbComb_congr_fun (f f' : Nat → Nat) (k x : Nat) (h : ∀ j, j < k → f j = f' j) :
    tbComb f k x = tbComb f' k x := by
  induction k with
  | zero => rfl
  | succ k ih => rw [tbComb, tbComb, ih (fun j hj => h j (by omega)), h k (by omega)]

theorem tbComb_zero (f : Nat → Nat) (k : Nat) : tbComb f k 0 = 0 := by
  induction k with
  | zero => rfl
  | succ k ih => simp [tbComb, ih]

theorem tbComb_xor (f : Nat → Nat) (k x y : Nat) : tbComb f k (x ^^^ y) = tbComb f k x ^^^ tbComb f k y := by
  induction k with
  | zero => simp [tbComb]
  | succ k ih =>
    simp only [tbComb, ih, Nat.testBit_xor]
    cases x.testBit k <;> cases y.testBit k <;> simp <;> grind

theorem tbComb_eq_tbXl (f : Nat → Nat) (k x : Nat) :
    tbComb f k x = tbXl (List.range k) (fun j => if x.testBit j then f j else 0) := by
  induction k with
  | zero => rfl
  | succ k ih => rw [tbComb, tbXl_range_succ, ih]

theorem part_tbComb (f : Nat → Nat) (k x lo hi : Nat) :
    part (tbComb f k x) lo hi = tbComb (fun j => part (f j) lo hi) k x := by
  induction k with
  | zero => exact part_zero lo hi
  | succ k ih =>
    rw [tbComb, tbComb, part_xor, ih]
    split
    · rfl
    · rw [part_zero]

/-- testBit of a combination whose rows `f j` vanish at `p` for `j ≥ m` -/
theorem tbComb_testBit_low (f : Nat → Nat) (p m : Nat) : ∀ (k x : Nat), m ≤ k →
    (∀ j, m ≤ j → j < k → (f j).testBit p = false) →
    (tbComb f k x).testBit p = (tbComb f m x).testBit p := by
  intro k
  induction k with
  | zero => intro x hm _; have : m = 0 := by omega
            subst this; rfl
  | succ k ih =>
    intro x hm h
    by_cases e : m = k + 1
    · subst e; rfl
    · rw [tbComb, Nat.testBit_xor, ih x (by omega) (fun j h1 h2 => h j h1 (by omega))]
      split
      · rw [h k (by omega) (by omega)]; simp
      · simp

/-! ## 1. sequential elimination by a unit upper triangular block = one table lookup (abstract form) -/

theorem tb_bitsAt_xor (a b y n : Nat) : bitsAt (a ^^^ b) y n = bitsAt a y n ^^^ bitsAt b y n := by
  apply Nat.eq_of_testBit_eq; intro p
  simp only [tb_testBit_bitsAt, Nat.testBit_xor]
  cases decide (p < n) <;> simp

theorem tb_xor_cancel {A B G : Nat} (h : B ^^^ (A ^^^ G) = G) : A = B := by
  apply Nat.eq_of_testBit_eq; intro p
  have := congrArg (fun z => z.testBit p) h
  simp only [Nat.testBit_xor] at this
  revert this
  cases A.testBit p <;> cases B.testBit p <;> cases G.testBit p <;> simp

theorem tb_bitsAt_shiftLeft (g c k : Nat) (hg : g < 2 ^ k) : bitsAt (g <<< c) c k = g := by
  apply Nat.eq_of_testBit_eq; intro p
  rw [tb_testBit_bitsAt, Nat.testBit_shiftLeft]
  by_cases hp : p < k
  · simp [hp]
  · have : g.testBit p = false :=
      Nat.testBit_lt_two_pow (Nat.lt_of_lt_of_le hg (Nat.pow_le_pow_right (by omega) (by omega)))
    simp [hp, this]

theorem tb_elimRow_eq (e c n v : Nat) :
    elimRow e c n v = v ^^^ (if v.testBit c then part e (c + 1) n else 0) := by
  unfold elimRow; split <;> simp

theorem tb_part_pivot (e c n : Nat) (h : e.testBit c = true) (hc : c < n) :
    part e c n = 2 ^ c ^^^ part e (c + 1) n := by
  apply Nat.eq_of_testBit_eq; intro p
  rw [Nat.testBit_xor, testBit_part, testBit_part, Nat.testBit_two_pow]
  by_cases e1 : c = p
  · subst e1
    simp [h, hc]
  · by_cases e2 : c ≤ p ∧ p < n
    · have : c + 1 ≤ p ∧ p < n := by omega
      simp [e1, e2, this]
    · have : ¬ (c + 1 ≤ p ∧ p < n) := by omega
      simp [e1, e2, this]

theorem tb_mod_succ_shift (g k c : Nat) :
    (g % 2 ^ (k + 1)) <<< c = ((g % 2 ^ k) <<< c) ^^^ (if g.testBit k then 2 ^ (c + k) else 0) := by
  apply Nat.eq_of_testBit_eq; intro p
  rw [Nat.testBit_xor, Nat.testBit_shiftLeft, Nat.testBit_shiftLeft, Nat.testBit_mod_two_pow,
    Nat.testBit_mod_two_pow]
  by_cases hp : c ≤ p
  · by_cases e : p = c + k
    · subst e
      have e1 : c + k - c = k := by omega
      rw [e1]
      cases hg : g.testBit k <;> simp
    · have hne : ¬ (c + k = p) := fun h => e h.symm
      have h2 : (if g.testBit k = true then 2 ^ (c + k) else 0).testBit p = false := by
        split
        · rw [Nat.testBit_two_pow]; simp [hne]
        · simp
      rw [h2]
      by_cases h3 : p - c < k
      · have : p - c < k + 1 := by omega
        simp [hp, h3, this]
      · have : ¬ (p - c < k + 1) := by omega
        simp [h3, this]
  · have h2 : (if g.testBit k = true then 2 ^ (c + k) else 0).testBit p = false := by
      split
      · rw [Nat.testBit_two_pow]
        have : ¬ (c + k = p) := by omega
        simp [this]
      · simp
    simp [hp, h2]

section tri
variable (e : Nat → Nat) (c n : Nat)

/-- `⊕ part (e b) (c+b) n` with the pivot block made `g`-relative is `⊕ part (e b) (c+b+1) n` -/
theorem tbComb_fix : ∀ (k g : Nat), (∀ b, b < k → (e b).testBit (c + b) = true) → c + k ≤ n →
    tbComb (fun b => part (e b) (c + b) n) k g ^^^ ((g % 2 ^ k) <<< c)
      = tbComb (fun b => part (e b) (c + b + 1) n) k g := by
  intro k
  induction k with
  | zero => intro g _ _; simp [tbComb, Nat.mod_one]
  | succ k ih =>
    intro g hd hk
    have h1 := ih g (fun b hb => hd b (by omega)) (by omega)
    rw [tbComb, tbComb, ← h1, tb_mod_succ_shift]
    by_cases hg : g.testBit k = true
    · rw [if_pos hg, if_pos hg, if_pos hg, tb_part_pivot (e k) (c + k) n (hd k (by omega)) (by omega)]
      grind
    · rw [if_neg hg, if_neg hg, if_neg hg]
      grind

/-- the row after the first `k` elimination steps -/
def tbW (k w : Nat) : Nat := elimSeq e (fun b => c + b) n (List.range k) w

theorem tbW_succ (k w : Nat) : tbW e c n (k + 1) w = elimRow (e k) (c + k) n (tbW e c n k w) := by
  unfold tbW; rw [List.range_succ, elimSeq_append]; rfl

theorem tbW_succ_low (k w p : Nat) (hp : p ≤ c + k) : (tbW e c n (k + 1) w).testBit p = (tbW e c n k w).testBit p := by
  rw [tbW_succ, elimRow_testBit]
  have : ¬ (c + k < p ∧ p < n) := by omega
  simp [this]

/-- sequential elimination XORs the combination selected by its own decisions (= the pattern left in the block) -/
theorem tbW_eq : ∀ (k w : Nat),
    tbW e c n k w = w ^^^ tbComb (fun b => part (e b) (c + b + 1) n) k (bitsAt (tbW e c n k w) c k) := by
  intro k
  induction k with
  | zero => intro w; simp [tbW, tbComb, elimSeq]
  | succ k ih =>
    intro w
    have h1 : tbComb (fun b => part (e b) (c + b + 1) n) k (bitsAt (tbW e c n (k + 1) w) c (k + 1))
        = tbComb (fun b => part (e b) (c + b + 1) n) k (bitsAt (tbW e c n k w) c k) := by
      apply tbComb_congr_sel
      intro j hj
      rw [tb_testBit_bitsAt, tb_testBit_bitsAt, tbW_succ_low e c n k w (c + j) (by omega)]
      have : j < k + 1 := by omega
      simp [hj, this]
    have h2 : (bitsAt (tbW e c n (k + 1) w) c (k + 1)).testBit k = (tbW e c n k w).testBit (c + k) := by
      rw [tb_testBit_bitsAt, tbW_succ_low e c n k w (c + k) (by omega)]; simp
    rw [tbComb, h1, h2, ← Nat.xor_assoc, ← ih w, tbW_succ, tb_elimRow_eq]

/-- the rows of a unit upper triangular block are independent on the block -/
theorem tbComb_inj0 : ∀ (k g : Nat), (∀ b, b < k → (e b).testBit (c + b) = true) → c + k ≤ n →
    (∀ b, b < k → (tbComb (fun b => part (e b) (c + b) n) k g).testBit (c + b) = false) →
    ∀ b, b < k → g.testBit b = false := by
  intro k
  induction k with
  | zero => intro g _ _ _ b hb; omega
  | succ k ih =>
    intro g hd hk hz
    have hlow : ∀ b, b < k → g.testBit b = false := by
      apply ih g (fun b hb => hd b (by omega)) (by omega)
      intro b hb
      have := hz b (by omega)
      rw [tbComb, Nat.testBit_xor] at this
      have h0 : (if g.testBit k = true then part (e k) (c + k) n else 0).testBit (c + b) = false := by
        split
        · rw [testBit_part]
          have : ¬ (c + k ≤ c + b ∧ c + b < n) := by omega
          rw [decide_eq_false this]; rfl
        · simp
      rw [h0] at this
      simpa using this
    have hzero : tbComb (fun b => part (e b) (c + b) n) k g = 0 := by
      rw [tbComb_congr_sel _ k g 0 (fun j hj => by rw [hlow j hj]; simp), tbComb_zero]
    intro b hb
    by_cases e1 : b = k
    · subst e1
      have := hz b (by omega)
      rw [tbComb, hzero, Nat.zero_xor] at this
      by_cases hg : g.testBit b = true
      · rw [if_pos hg, testBit_part, hd b (by omega)] at this
        have h3 : c + b ≤ c + b ∧ c + b < n := by omega
        simp [h3] at this
      · simpa using hg
    · exact hlow b (by omega)

theorem tbComb_inj (k g1 g2 : Nat) (hd : ∀ b, b < k → (e b).testBit (c + b) = true) (hk : c + k ≤ n)
    (h1 : g1 < 2 ^ k) (h2 : g2 < 2 ^ k)
    (h : bitsAt (tbComb (fun b => part (e b) (c + b) n) k g1) c k
      = bitsAt (tbComb (fun b => part (e b) (c + b) n) k g2) c k) : g1 = g2 := by
  have hz : ∀ b, b < k → (g1 ^^^ g2).testBit b = false := by
    apply tbComb_inj0 e c n k (g1 ^^^ g2) hd hk
    intro b hb
    have := congrArg (fun z => z.testBit b) h
    simp only [tb_testBit_bitsAt, hb, decide_true, Bool.true_and] at this
    rw [tbComb_xor, Nat.testBit_xor, this]; simp
  apply Nat.eq_of_testBit_eq; intro p
  by_cases hp : p < k
  · have := hz p hp
    rw [Nat.testBit_xor] at this
    revert this
    cases g1.testBit p <;> cases g2.testBit p <;> simp
  · rw [Nat.testBit_lt_two_pow (Nat.lt_of_lt_of_le h1 (Nat.pow_le_pow_right (by omega) (by omega))),
      Nat.testBit_lt_two_pow (Nat.lt_of_lt_of_le h2 (Nat.pow_le_pow_right (by omega) (by omega)))]

/-- the decisions `g` of the sequential elimination of `w`: the table row selected by `g` has the block pattern of `w`,
    and XORing it (with its block made `g`-relative) onto `w` is the sequential elimination -/
theorem tbElim_table (k w : Nat) (hd : ∀ b, b < k → (e b).testBit (c + b) = true) (hk : c + k ≤ n) :
    bitsAt (tbComb (fun b => part (e b) (c + b) n) k (bitsAt (tbW e c n k w) c k)) c k = bitsAt w c k ∧
    w ^^^ (tbComb (fun b => part (e b) (c + b) n) k (bitsAt (tbW e c n k w) c k)
        ^^^ (bitsAt (tbW e c n k w) c k <<< c)) = tbW e c n k w := by
  have hg : bitsAt (tbW e c n k w) c k < 2 ^ k := Nat.mod_lt _ (Nat.two_pow_pos k)
  have hA := tbComb_fix e c n k (bitsAt (tbW e c n k w) c k) hd hk
  rw [Nat.mod_eq_of_lt hg] at hA
  have hS := tbW_eq e c n k w
  have h2 : w ^^^ (tbComb (fun b => part (e b) (c + b) n) k (bitsAt (tbW e c n k w) c k)
        ^^^ (bitsAt (tbW e c n k w) c k <<< c)) = tbW e c n k w := by
    rw [hA]; exact hS.symm
  refine ⟨?_, h2⟩
  have h3 := congrArg (fun z => bitsAt z c k) h2
  simp only [tb_bitsAt_xor, tb_bitsAt_shiftLeft _ c k hg] at h3
  generalize bitsAt (tbComb (fun b => part (e b) (c + b) n) k (bitsAt (tbW e c n k w) c k)) c k = A at h3 ⊢
  generalize bitsAt w c k = B at h3 ⊢
  generalize bitsAt (tbW e c n k w) c k = G at h3
  exact tb_xor_cancel h3

end tri

/-! ## 2. arrays written at pairwise different positions; `spread`; counting pivots -/

/-- `A[f i] := i` for `i = 1, …, N-1` on a zero array, `f` injective on `[0, N)`: then `A[f i] = i` for all `i < N` -/
theorem tb_setFold (f : Nat → Nat) (N sz : Nat) (hf : ∀ i, i < N → f i < sz)
    (hinj : ∀ i j, i < N → j < N → f i = f j → i = j) :
    ∀ m, m + 1 ≤ N →
      ((List.range' 1 m).foldl (fun (A : Array Nat) i => A.setIfInBounds (f i) i) (Array.replicate sz 0)).size = sz ∧
      ∀ i, i ≤ m →
        ((List.range' 1 m).foldl (fun (A : Array Nat) i => A.setIfInBounds (f i) i) (Array.replicate sz 0)).getD (f i) 0 = i := by
  intro m
  induction m with
  | zero =>
    intro _
    refine ⟨by simp, ?_⟩
    intro i hi
    have : i = 0 := by omega
    subst this
    simp only [List.range'_zero, List.foldl_nil, Array.getD_eq_getD_getElem?, Array.getElem?_replicate]
    split <;> rfl
  | succ m ih =>
    intro hm
    obtain ⟨s1, h1⟩ := ih (by omega)
    rw [List.range'_concat, List.foldl_append]
    simp only [List.foldl_cons, List.foldl_nil, Nat.one_mul]
    generalize (List.range' 1 m).foldl (fun (A : Array Nat) i => A.setIfInBounds (f i) i) (Array.replicate sz 0) = A
      at s1 h1 ⊢
    refine ⟨by rw [Array.size_setIfInBounds, s1], ?_⟩
    intro i hi
    rw [getD_set]
    by_cases e : i = 1 + m
    · subst e
      rw [if_pos ⟨rfl, by rw [s1]; exact hf _ (by omega)⟩]
    · have : ¬ (f (1 + m) = f i ∧ f i < A.size) := by
        intro h
        exact e (hinj _ _ (by omega) (by omega) h.1).symm
      rw [if_neg this]
      exact h1 i (by omega)

theorem tb_pairFold (l : List Nat) (f1 f2 : Nat → Nat) (A B : Array Nat) :
    l.foldl (fun (EM : Array Nat × Array Nat) i => (EM.1.setIfInBounds (f1 i) i, EM.2.setIfInBounds (f2 i) i)) (A, B)
      = (l.foldl (fun (A : Array Nat) i => A.setIfInBounds (f1 i) i) A,
         l.foldl (fun (B : Array Nat) i => B.setIfInBounds (f2 i) i) B) := by
  induction l generalizing A B with
  | nil => rfl
  | cons t l ih => simp only [List.foldl_cons, ih]

/-! ### `spread` -/

theorem tb_foldl_or_testBit (g : Nat → Nat) (b : Nat) : ∀ (n a : Nat),
    (((List.range n).foldl (fun acc t => acc ||| g t) a).testBit b = true ↔
      a.testBit b = true ∨ ∃ t, t < n ∧ (g t).testBit b = true) := by
  intro n
  induction n with
  | zero => intro a; simp
  | succ n ih =>
    intro a
    rw [List.range_succ, List.foldl_append]
    simp only [List.foldl_cons, List.foldl_nil]
    rw [Nat.testBit_or, Bool.or_eq_true, ih a]
    constructor
    · rintro ((h | ⟨t, ht, h⟩) | h)
      · exact Or.inl h
      · exact Or.inr ⟨t, by omega, h⟩
      · exact Or.inr ⟨n, by omega, h⟩
    · rintro (h | ⟨t, ht, h⟩)
      · exact Or.inl (Or.inl h)
      · by_cases e : t = n
        · subst e; exact Or.inr h
        · exact Or.inl (Or.inr ⟨t, by omega, h⟩)

theorem tb_spread_term (x t s b : Nat) :
    ((x &&& (1 <<< t)) <<< s).testBit b = (decide (b = s + t) && x.testBit t) := by
  rw [Nat.testBit_shiftLeft, Nat.testBit_and, Nat.one_shiftLeft, Nat.testBit_two_pow]
  by_cases h1 : b = s + t
  · subst h1
    have : s + t - s = t := by omega
    simp [this]
  · by_cases h2 : s ≤ b
    · have : ¬ (t = b - s) := by omega
      simp [h1, this]
    · simp [h1, h2]

theorem tb_spread_testBit (x : Nat) (off : Nat → Nat) (len base b : Nat)
    (hoff : ∀ t, t < len → base + t ≤ off t) :
    ((spread x off len base).testBit b = true ↔ ∃ t, t < len ∧ x.testBit t = true ∧ off t - base = b) := by
  unfold spread
  rw [tb_foldl_or_testBit]
  simp only [Nat.zero_testBit, Bool.false_eq_true, false_or, tb_spread_term, Bool.and_eq_true, decide_eq_true_eq]
  constructor
  · rintro ⟨t, ht, h1, h2⟩
    have := hoff t ht
    exact ⟨t, ht, h2, by omega⟩
  · rintro ⟨t, ht, h1, h2⟩
    have := hoff t ht
    exact ⟨t, ht, by omega, h1⟩

theorem tb_spread_at (x : Nat) (off : Nat → Nat) (len base t : Nat)
    (hoff : ∀ t, t < len → base + t ≤ off t)
    (hinj : ∀ t t', t < len → t' < len → off t = off t' → t = t') (ht : t < len) :
    (spread x off len base).testBit (off t - base) = x.testBit t := by
  apply Bool.eq_iff_iff.mpr
  rw [tb_spread_testBit x off len base _ hoff]
  constructor
  · rintro ⟨t', ht', h1, h2⟩
    have a1 := hoff t ht
    have a2 := hoff t' ht'
    have : t' = t := hinj t' t ht' ht (by omega)
    subst this; exact h1
  · intro h; exact ⟨t, ht, h, rfl⟩

theorem tb_spread_lt (x : Nat) (off : Nat → Nat) (len base k : Nat)
    (hoff : ∀ t, t < len → base + t ≤ off t) (hlt : ∀ t, t < len → off t < base + k) :
    spread x off len base < 2 ^ k := by
  apply Nat.lt_pow_two_of_testBit
  intro b hb
  apply Bool.eq_false_iff.mpr
  intro h
  obtain ⟨t, ht, _, h2⟩ := (tb_spread_testBit x off len base b hoff).mp h
  have := hlt t ht
  have := hoff t ht
  omega

theorem tb_spread_inj (x y : Nat) (off : Nat → Nat) (len base : Nat)
    (hoff : ∀ t, t < len → base + t ≤ off t)
    (hinj : ∀ t t', t < len → t' < len → off t = off t' → t = t')
    (hx : x < 2 ^ len) (hy : y < 2 ^ len) (h : spread x off len base = spread y off len base) : x = y := by
  apply Nat.eq_of_testBit_eq; intro t
  by_cases ht : t < len
  · rw [← tb_spread_at x off len base t hoff hinj ht, ← tb_spread_at y off len base t hoff hinj ht, h]
  · rw [Nat.testBit_lt_two_pow (Nat.lt_of_lt_of_le hx (Nat.pow_le_pow_right (by omega) (by omega))),
      Nat.testBit_lt_two_pow (Nat.lt_of_lt_of_le hy (Nat.pow_le_pow_right (by omega) (by omega)))]

/-- the number below `2^n` with bit `t` equal to `h t` -/
def tbGather (h : Nat → Bool) : Nat → Nat
  | 0 => 0
  | n + 1 => tbGather h n ||| (if h n then 2 ^ n else 0)

theorem tbGather_testBit (h : Nat → Bool) (n t : Nat) : (tbGather h n).testBit t = (decide (t < n) && h t) := by
  induction n with
  | zero => simp [tbGather]
  | succ n ih =>
    rw [tbGather, Nat.testBit_or, ih]
    by_cases e : t = n
    · subst e
      cases h t <;> simp
    · have h2 : (if h n = true then 2 ^ n else 0).testBit t = false := by
        split
        · rw [Nat.testBit_two_pow]
          have : ¬ (n = t) := fun h => e h.symm
          simp [this]
        · simp
      rw [h2, Bool.or_false]
      have : decide (t < n + 1) = decide (t < n) := by apply decide_eq_decide.mpr; omega
      rw [this]

theorem tbGather_lt (h : Nat → Bool) (n : Nat) : tbGather h n < 2 ^ n := by
  apply Nat.lt_pow_two_of_testBit
  intro t ht
  rw [tbGather_testBit]
  have : ¬ (t < n) := by omega
  simp [this]

theorem tb_spread_gather (p : Nat) (off : Nat → Nat) (len base : Nat)
    (hoff : ∀ t, t < len → base + t ≤ off t)
    (hp : ∀ b, p.testBit b = true → ∃ t, t < len ∧ off t - base = b) :
    spread (tbGather (fun t => p.testBit (off t - base)) len) off len base = p := by
  apply Nat.eq_of_testBit_eq; intro b
  apply Bool.eq_iff_iff.mpr
  rw [tb_spread_testBit _ off len base b hoff]
  constructor
  · rintro ⟨t, ht, h1, h2⟩
    rw [tbGather_testBit] at h1
    simp only [ht, decide_true, Bool.true_and] at h1
    rw [← h2]; exact h1
  · intro h
    obtain ⟨t, ht, h2⟩ := hp b h
    refine ⟨t, ht, ?_, h2⟩
    rw [tbGather_testBit]
    simp only [ht, decide_true, Bool.true_and]
    rw [h2]; exact h

/-! ### counting pivots -/

/-- the number of pivots below `b` -/
def tbCnt (pivots : Array Nat) (b : Nat) : Nat := (pivots.toList.filter fun p => decide (p < b)).length

theorem tb_filter_chunk (l : List Nat) (lb k : Nat) :
    (l.filter fun p => decide (lb ≤ p ∧ p < lb + k)).length + (l.filter fun p => decide (p < lb)).length
      = (l.filter fun p => decide (p < lb + k)).length := by
  induction l with
  | nil => rfl
  | cons a l ih =>
    by_cases h1 : a < lb
    · have e1 : decide (lb ≤ a ∧ a < lb + k) = false := decide_eq_false (by omega)
      have e2 : decide (a < lb) = true := decide_eq_true h1
      have e3 : decide (a < lb + k) = true := decide_eq_true (by omega)
      simp only [List.filter_cons, e1, e2, e3, if_true, Bool.false_eq_true, if_false, List.length_cons]
      omega
    · by_cases h3 : a < lb + k
      · have e1 : decide (lb ≤ a ∧ a < lb + k) = true := decide_eq_true (by omega)
        have e2 : decide (a < lb) = false := decide_eq_false h1
        have e3 : decide (a < lb + k) = true := decide_eq_true h3
        simp only [List.filter_cons, e1, e2, e3, if_true, Bool.false_eq_true, if_false, List.length_cons]
        omega
      · have e1 : decide (lb ≤ a ∧ a < lb + k) = false := decide_eq_false (by omega)
        have e2 : decide (a < lb) = false := decide_eq_false h1
        have e3 : decide (a < lb + k) = false := decide_eq_false h3
        simp only [List.filter_cons, e1, e2, e3, Bool.false_eq_true, if_false]
        exact ih

theorem tb_sorted_filter (b : Nat) : ∀ (l : List Nat), l.Pairwise (· < ·) →
    ∀ t (ht : t < l.length), (l[t] < b ↔ t < (l.filter fun p => decide (p < b)).length) := by
  intro l
  induction l with
  | nil => intro _ t ht; simp at ht
  | cons a l ih =>
    intro hs t ht
    rw [List.pairwise_cons] at hs
    obtain ⟨hs1, hs2⟩ := hs
    simp only [List.filter_cons]
    by_cases h1 : a < b
    · simp only [h1, decide_true, if_true, List.length_cons]
      cases t with
      | zero => simp [h1]
      | succ t =>
        simp only [List.getElem_cons_succ]
        rw [ih hs2 t (by simpa using ht)]
        omega
    · simp only [h1, decide_false, Bool.false_eq_true, if_false]
      have hnil : (l.filter fun p => decide (p < b)) = [] := by
        rw [List.filter_eq_nil_iff]
        intro x hx
        have := hs1 x hx
        simp only [decide_eq_true_eq]; omega
      rw [hnil]
      simp only [List.length_nil, Nat.not_lt_zero, iff_false]
      cases t with
      | zero => simpa using h1
      | succ t =>
        have ht' : t < l.length := by simpa using ht
        simp only [List.getElem_cons_succ]
        have := hs1 l[t] (List.getElem_mem ht')
        omega

theorem tbCnt_le_size (pivots : Array Nat) (b : Nat) : tbCnt pivots b ≤ pivots.size := by
  unfold tbCnt
  have := List.length_filter_le (fun p => decide (p < b)) pivots.toList
  simpa using this

theorem tbCnt_zero (pivots : Array Nat) : tbCnt pivots 0 = 0 := by
  unfold tbCnt; simp

theorem tbCnt_chunk (pivots : Array Nat) (lb k : Nat) :
    (pivots.toList.filter fun p => decide (lb ≤ p ∧ p < lb + k)).length = tbCnt pivots (lb + k) - tbCnt pivots lb := by
  have := tb_filter_chunk pivots.toList lb k
  unfold tbCnt; omega

theorem tbCnt_mono (pivots : Array Nat) (lb k : Nat) : tbCnt pivots lb ≤ tbCnt pivots (lb + k) := by
  have := tb_filter_chunk pivots.toList lb k
  unfold tbCnt; omega

section cnt
variable (pivots : Array Nat)
  (hpiv_mono : ∀ t t', t < t' → t' < pivots.size → pivots.getD t 0 < pivots.getD t' 0)
include hpiv_mono

theorem tbCnt_iff (b t : Nat) (ht : t < pivots.size) : pivots.getD t 0 < b ↔ t < tbCnt pivots b := by
  have hs : pivots.toList.Pairwise (· < ·) := by
    rw [List.pairwise_iff_getElem]
    intro i j hi hj hij
    have := hpiv_mono i j hij (by simpa using hj)
    simp only [Array.length_toList] at hi hj
    simpa [Array.getD, hi, hj, (by omega : i < pivots.size)] using this
  have := tb_sorted_filter b pivots.toList hs t (by simpa using ht)
  unfold tbCnt
  rw [← this]
  simp [Array.getD, ht]

theorem tbCnt_all (b : Nat) (h : ∀ t, t < pivots.size → pivots.getD t 0 < b) : tbCnt pivots b = pivots.size := by
  have h1 := tbCnt_le_size pivots b
  by_cases e : tbCnt pivots b = pivots.size
  · exact e
  · have h2 : tbCnt pivots b < pivots.size := by omega
    have := (tbCnt_iff pivots hpiv_mono b (tbCnt pivots b) h2).mp (h _ h2)
    omega

end cnt

/-! ## 3. the components of one table -/

/-- the rows of the table before the fix -/
def tbT (U : Array Nat) (ncols r wc knar : Nat) : Array Nat :=
  (makeTable U U.size ncols r (64 * (wc / 64)) knar (Array.replicate (2 ^ knar) 0) (Array.replicate (2 ^ knar) 0)).1

theorem tbT_spec (U : Array Nat) (ncols r wc knar : Nat) (hr : r + knar ≤ U.size) :
    (tbT U ncols r wc knar).size = 2 ^ knar ∧
    ∀ i, i < 2 ^ knar → (tbT U ncols r wc knar).getD i 0 =
      tbComb (fun j => U.getD (r + j) 0 &&& colMask (64 * (wc / 64)) ncols) knar (i ^^^ (i >>> 1)) := by
  unfold tbT
  rw [makeTable_eq_foldl]
  obtain ⟨s1, _, iT, _⟩ := makeTable_prefix U U.size ncols r (64 * (wc / 64)) knar (Array.replicate (2 ^ knar) 0)
    (Array.replicate (2 ^ knar) 0) hr (by simp) (by simp)
    (by simp [Array.getD_eq_getD_getElem?, Nat.two_pow_pos]) (2 ^ knar - 1) (Nat.le_refl _)
  refine ⟨s1, ?_⟩
  intro i hi
  rw [iT i (by omega), getD_buildOrd knar i hi, combRows_eq_tbComb]

section one
variable (U : Array Nat) (ncols r wc k knar : Nat) (off : Nat → Nat) (base rc : Nat)

theorem tbPle_k (fr : Bool) : (makeTablePle U ncols r wc k knar off base rc fr).k = k := by
  unfold makeTablePle; cases fr <;> rfl

theorem tbPle_T_false : (makeTablePle U ncols r wc k knar off base rc false).T = tbT U ncols r wc knar := rfl

theorem tbPle_M_false : (makeTablePle U ncols r wc k knar off base rc false).M =
    (List.range' 1 (2 ^ knar - 1)).foldl (fun (M : Array Nat) i =>
      M.setIfInBounds (spread ((buildOrd k).getD i 0) off knar base) i) (Array.replicate (2 ^ k) 0) := rfl

/-- the rows of the table after the fix -/
def tbT' : Array Nat :=
  (tbT U ncols r wc knar).mapIdx fun i t => if 1 ≤ i ∧ i < 2 ^ knar then t ^^^ ((buildOrd k).getD i 0 <<< wc) else t

theorem tbPle_T_true : (makeTablePle U ncols r wc k knar off base rc true).T = tbT' U ncols r wc k knar := rfl

theorem tbPle_M_true : (makeTablePle U ncols r wc k knar off base rc true).M =
    (List.range' 1 (2 ^ knar - 1)).foldl (fun (M : Array Nat) i =>
      M.setIfInBounds ((buildOrd k).getD i 0) i) (Array.replicate (2 ^ k) 0) := by
  show ((List.range' 1 (2 ^ knar - 1)).foldl (fun (EM : Array Nat × Array Nat) i =>
      (EM.1.setIfInBounds (bitsAt ((tbT U ncols r wc knar).getD i 0) wc k) i,
        EM.2.setIfInBounds ((buildOrd k).getD i 0) i)) (Array.replicate (2 ^ k) 0, Array.replicate (2 ^ k) 0)).2 = _
  rw [tb_pairFold]

theorem tbPle_E_true : (makeTablePle U ncols r wc k knar off base rc true).E =
    (List.range' 1 (2 ^ knar - 1)).foldl (fun (E : Array Nat) i =>
      E.setIfInBounds (bitsAt ((tbT U ncols r wc knar).getD i 0) wc k) i) (Array.replicate (2 ^ k) 0) := by
  show ((List.range' 1 (2 ^ knar - 1)).foldl (fun (EM : Array Nat × Array Nat) i =>
      (EM.1.setIfInBounds (bitsAt ((tbT U ncols r wc knar).getD i 0) wc k) i,
        EM.2.setIfInBounds ((buildOrd k).getD i 0) i)) (Array.replicate (2 ^ k) 0, Array.replicate (2 ^ k) 0)).1 = _
  rw [tb_pairFold]

theorem tbPle_B_true : (makeTablePle U ncols r wc k knar off base rc true).B =
    (Array.range (2 ^ knar)).map fun i =>
      if 1 ≤ i then bitsAt ((tbT' U ncols r wc k knar).getD i 0) rc (min 64 (ncols - rc)) else 0 := rfl

theorem tbT'_getD (i : Nat) (hi : i < 2 ^ knar) (hs : (tbT U ncols r wc knar).size = 2 ^ knar)
    (h0 : (buildOrd k).getD 0 0 = 0) :
    (tbT' U ncols r wc k knar).getD i 0 = (tbT U ncols r wc knar).getD i 0 ^^^ ((buildOrd k).getD i 0 <<< wc) := by
  unfold tbT'
  simp only [Array.getD_eq_getD_getElem?, Array.getElem?_mapIdx]
  have h1 : i < (tbT U ncols r wc knar).size := by omega
  rw [Array.getElem?_eq_getElem h1]
  simp only [Option.map_some, Option.getD_some]
  by_cases e : 1 ≤ i
  · rw [if_pos ⟨e, hi⟩]
  · have : i = 0 := by omega
    subst this
    simp only [Array.getD_eq_getD_getElem?] at h0
    simp [h0]

/-! ## 4. one multiplication table -/

theorem tb_part_mask (a c ncols lo : Nat) (h : c ≤ lo) : part (a &&& colMask c ncols) lo ncols = part a lo ncols := by
  apply Nat.eq_of_testBit_eq; intro j
  rw [testBit_part, testBit_part, Nat.testBit_and, colMask_testBit]
  by_cases e : lo ≤ j ∧ j < ncols
  · have h1 : c ≤ j := by omega
    simp [e, h1]
  · simp [e]

theorem tb_part_shift (g wc k lo ncols : Nat) (hg : g < 2 ^ k) (h : wc + k ≤ lo) : part (g <<< wc) lo ncols = 0 := by
  apply Nat.eq_of_testBit_eq; intro j
  rw [testBit_part, Nat.testBit_shiftLeft, Nat.zero_testBit]
  by_cases e : lo ≤ j ∧ j < ncols
  · have : g.testBit (j - wc) = false :=
      Nat.testBit_lt_two_pow (Nat.lt_of_lt_of_le hg (Nat.pow_le_pow_right (by omega) (by omega)))
    simp [this]
  · simp [e]

theorem tbM_false (p lo : Nat) (hr : r + knar ≤ U.size)
    (hoff1 : ∀ t, t < knar → base + t ≤ off t) (hoff2 : ∀ t, t < knar → off t < base + k)
    (hinj : ∀ t t', t < knar → t' < knar → off t = off t' → t = t')
    (hp : ∀ b, p.testBit b = true → ∃ t, t < knar ∧ off t - base = b) (hlo : wc ≤ lo) :
    part ((makeTablePle U ncols r wc k knar off base rc false).T.getD
        ((makeTablePle U ncols r wc k knar off base rc false).M.getD p 0) 0) lo ncols
      = tbXl (List.range knar) (fun t => if p.testBit (off t - base) then part (U.getD (r + t) 0) lo ncols else 0) := by
  have hkn : knar ≤ k := by
    by_cases e : knar = 0
    · omega
    · have a1 := hoff1 (knar - 1) (by omega)
      have a2 := hoff2 (knar - 1) (by omega)
      omega
  have hpow : 2 ^ knar ≤ 2 ^ k := Nat.pow_le_pow_right (by omega) hkn
  have hpos : 0 < 2 ^ knar := Nat.two_pow_pos knar
  have hx : tbGather (fun t => p.testBit (off t - base)) knar < 2 ^ knar := tbGather_lt _ _
  obtain ⟨i, hi, hix⟩ := (buildOrd_bijective knar).2.2.2 _ hx
  rw [getD_buildOrd knar i hi] at hix
  have hM := (tb_setFold (fun i => spread ((buildOrd k).getD i 0) off knar base) (2 ^ knar) (2 ^ k)
    (fun i _ => tb_spread_lt _ off knar base k hoff1 hoff2)
    (by
      intro a b ha hb hab
      simp only [getD_buildOrd k a (by omega), getD_buildOrd k b (by omega)] at hab
      exact gray_injective a b (tb_spread_inj _ _ off knar base hoff1 hinj (gray_lt a knar ha) (gray_lt b knar hb) hab))
    (2 ^ knar - 1) (by omega)).2 i (by omega)
  simp only [getD_buildOrd k i (by omega), hix, tb_spread_gather p off knar base hoff1 hp] at hM
  rw [tbPle_T_false, tbPle_M_false, hM, (tbT_spec U ncols r wc knar hr).2 i hi, hix, part_tbComb,
    tbComb_congr_fun _ (fun j => part (U.getD (r + j) 0) lo ncols) knar _
      (fun j _ => tb_part_mask _ _ _ _ (by omega)),
    tbComb_eq_tbXl]
  apply tbXl_congr
  intro t ht
  rw [tbGather_testBit]
  have : t < knar := by simpa using ht
  simp [this]

theorem tbM_true (p lo : Nat) (hr : r + k ≤ U.size) (hp : p < 2 ^ k) (hlo : wc + k ≤ lo) :
    part ((makeTablePle U ncols r wc k k off base rc true).T.getD
        ((makeTablePle U ncols r wc k k off base rc true).M.getD p 0) 0) lo ncols
      = tbXl (List.range k) (fun t => if p.testBit t then part (U.getD (r + t) 0) lo ncols else 0) := by
  have hpos : 0 < 2 ^ k := Nat.two_pow_pos k
  obtain ⟨i, hi, hix⟩ := (buildOrd_bijective k).2.2.2 p hp
  have hM := (tb_setFold (fun i => (buildOrd k).getD i 0) (2 ^ k) (2 ^ k)
    (fun i hi => (buildOrd_bijective k).2.1 i hi) (buildOrd_bijective k).2.2.1
    (2 ^ k - 1) (by omega)).2 i (by omega)
  simp only [hix] at hM
  have h0 : (buildOrd k).getD 0 0 = 0 := by rw [getD_buildOrd k 0 hpos]; rfl
  rw [tbPle_T_true, tbPle_M_true, hM, tbT'_getD U ncols r wc k k i hi (tbT_spec U ncols r wc k hr).1 h0,
    (tbT_spec U ncols r wc k hr).2 i hi, hix, part_xor, tb_part_shift p wc k lo ncols hp hlo, Nat.xor_zero,
    ← getD_buildOrd k i hi, hix, part_tbComb,
    tbComb_congr_fun _ (fun j => part (U.getD (r + j) 0) lo ncols) k _
      (fun j _ => tb_part_mask _ _ _ _ (by omega)),
    tbComb_eq_tbXl]

end one

/-! ## 5. the multiplication tables of a strip -/

theorem tbGo_cons (pivots : Array Nat) (k lb : Nat) (ks : List Nat) :
    chunkRanks.go pivots (k :: ks) lb
      = (tbCnt pivots (lb + k) - tbCnt pivots lb) :: chunkRanks.go pivots ks (lb + k) := by
  rw [← tbCnt_chunk]; rfl

theorem tb_range'_append (a b c : Nat) (h1 : a ≤ b) (h2 : b ≤ c) :
    List.range' a (b - a) ++ List.range' b (c - b) = List.range' a (c - a) := by
  have := @List.range'_append a (b - a) (c - b) 1
  rw [Nat.one_mul, (by omega : a + (b - a) = b), (by omega : b - a + (c - b) = c - a)] at this
  exact this

section strip
variable (U : Array Nat) (ncols cp kk : Nat) (pivots : Array Nat)
  (hpiv_mono : ∀ t t', t < t' → t' < pivots.size → pivots.getD t 0 < pivots.getD t' 0)
include hpiv_mono

theorem tb_piv_ge (r : Nat) : ∀ t, r + t < pivots.size → pivots.getD r 0 + t ≤ pivots.getD (r + t) 0 := by
  intro t
  induction t with
  | zero => intro _; exact Nat.le_refl _
  | succ t ih =>
    intro h
    have := ih (by omega)
    have := hpiv_mono (r + t) (r + (t + 1)) (by omega) h
    omega

theorem tb_piv_inj (t t' : Nat) (ht : t < pivots.size) (ht' : t' < pivots.size)
    (h : pivots.getD t 0 = pivots.getD t' 0) : t = t' := by
  by_cases h1 : t < t'
  · have := hpiv_mono t t' h1 ht'; omega
  · by_cases h2 : t' < t
    · have := hpiv_mono t' t h2 ht; omega
    · omega

theorem tbCnt_id (hid : ∀ t, t < pivots.size → pivots.getD t 0 = t) (b : Nat) (hb : b ≤ pivots.size) :
    tbCnt pivots b = b := by
  have h1 := tbCnt_le_size pivots b
  by_cases e1 : tbCnt pivots b < b
  · have := (tbCnt_iff pivots hpiv_mono b (tbCnt pivots b) (by omega)).mp (by rw [hid _ (by omega)]; exact e1)
    omega
  · by_cases e2 : b < tbCnt pivots b
    · have := (tbCnt_iff pivots hpiv_mono b b (by omega)).mpr e2
      rw [hid _ (by omega)] at this
      omega
    · omega

variable (bits lo : Nat) (hU : U.size = pivots.size)
  (hbits : ∀ b, bits.testBit b = true → ∃ t, t < pivots.size ∧ pivots.getD t 0 = b)
  (hlo : cp + kk ≤ lo)
include hU hbits hlo

theorem tbM_chunk (fr : Bool) (hfr : fr = true → pivots.size = kk ∧ ∀ t, t < pivots.size → pivots.getD t 0 = t)
    (base k : Nat) (hbk : base + k ≤ kk) :
    part ((makeTablePle U ncols (tbCnt pivots base) (cp + base) k (tbCnt pivots (base + k) - tbCnt pivots base)
          (fun t => pivots.getD (tbCnt pivots base + t) 0) base cp fr).T.getD
        ((makeTablePle U ncols (tbCnt pivots base) (cp + base) k (tbCnt pivots (base + k) - tbCnt pivots base)
          (fun t => pivots.getD (tbCnt pivots base + t) 0) base cp fr).M.getD ((bits >>> base) % 2 ^ k) 0) 0) lo ncols
      = tbXl (List.range' (tbCnt pivots base) (tbCnt pivots (base + k) - tbCnt pivots base))
          (fun t => if bits.testBit (pivots.getD t 0) then part (U.getD t 0) lo ncols else 0) := by
  have hm := tbCnt_mono pivots base k
  have hsz := tbCnt_le_size pivots (base + k)
  have hptb : ∀ b, ((bits >>> base) % 2 ^ k).testBit b = (decide (b < k) && bits.testBit (base + b)) := by
    intro b; rw [Nat.testBit_mod_two_pow, Nat.testBit_shiftRight]
  cases fr with
  | false =>
    have hge : ∀ t, t < tbCnt pivots (base + k) - tbCnt pivots base → base ≤ pivots.getD (tbCnt pivots base) 0 := by
      intro t ht
      have := (tbCnt_iff pivots hpiv_mono base (tbCnt pivots base) (by omega)).not
      omega
    have hoff1 : ∀ t, t < tbCnt pivots (base + k) - tbCnt pivots base →
        base + t ≤ pivots.getD (tbCnt pivots base + t) 0 := by
      intro t ht
      have := tb_piv_ge pivots hpiv_mono (tbCnt pivots base) t (by omega)
      have := hge t ht
      omega
    have hoff2 : ∀ t, t < tbCnt pivots (base + k) - tbCnt pivots base →
        pivots.getD (tbCnt pivots base + t) 0 < base + k := by
      intro t ht
      exact (tbCnt_iff pivots hpiv_mono (base + k) (tbCnt pivots base + t) (by omega)).mpr (by omega)
    rw [tbM_false U ncols (tbCnt pivots base) (cp + base) k _ _ base cp _ lo (by omega) hoff1 hoff2
      (by
        intro t t' ht ht' h
        have := tb_piv_inj pivots hpiv_mono _ _ (by omega) (by omega) h
        omega)
      (by
        intro b hb
        rw [hptb] at hb
        simp only [Bool.and_eq_true, decide_eq_true_eq] at hb
        obtain ⟨t', ht', hpt⟩ := hbits _ hb.2
        have a1 := (tbCnt_iff pivots hpiv_mono base t' ht').not
        have a2 := tbCnt_iff pivots hpiv_mono (base + k) t' ht'
        refine ⟨t' - tbCnt pivots base, by omega, ?_⟩
        rw [(by omega : tbCnt pivots base + (t' - tbCnt pivots base) = t'), hpt]
        omega)
      (by omega)]
    rw [List.range'_eq_map_range, tbXl_map]
    apply tbXl_congr
    intro t ht
    have ht : t < tbCnt pivots (base + k) - tbCnt pivots base := by simpa using ht
    have b1 := hoff1 t ht
    have b2 := hoff2 t ht
    rw [hptb, (by omega : base + (pivots.getD (tbCnt pivots base + t) 0 - base) = pivots.getD (tbCnt pivots base + t) 0)]
    have : pivots.getD (tbCnt pivots base + t) 0 - base < k := by omega
    simp only [this, decide_true, Bool.true_and]
  | true =>
    obtain ⟨hs, hid⟩ := hfr rfl
    rw [tbCnt_id pivots hpiv_mono hid base (by omega), tbCnt_id pivots hpiv_mono hid (base + k) (by omega),
      (by omega : base + k - base = k)]
    rw [tbM_true U ncols base (cp + base) k _ base cp _ lo (by omega) (Nat.mod_lt _ (Nat.two_pow_pos k)) (by omega)]
    rw [List.range'_eq_map_range, tbXl_map]
    apply tbXl_congr
    intro t ht
    have ht : t < k := by simpa using ht
    rw [hptb, hid (base + t) (by omega)]
    simp [ht]

theorem tbLookupM_gen (fr : Bool) (hfr : fr = true → pivots.size = kk ∧ ∀ t, t < pivots.size → pivots.getD t 0 = t) :
    ∀ (ks : List Nat) (base : Nat), base + ks.sum ≤ kk →
    part (lookupM (makeTables U ncols cp pivots fr ks (chunkRanks.go pivots ks base) (tbCnt pivots base) base)
        (bits >>> base)) lo ncols
      = tbXl (List.range' (tbCnt pivots base) (tbCnt pivots (base + ks.sum) - tbCnt pivots base))
          (fun t => if bits.testBit (pivots.getD t 0) then part (U.getD t 0) lo ncols else 0) := by
  intro ks
  induction ks with
  | nil =>
    intro base _
    simp [makeTables, lookupM, part_zero, tbXl_nil]
  | cons k ks ih =>
    intro base hb
    rw [List.sum_cons] at hb
    have hm := tbCnt_mono pivots base k
    have hm2 := tbCnt_mono pivots (base + k) ks.sum
    rw [tbGo_cons, makeTables, lookupM, tbPle_k, part_xor,
      tbM_chunk U ncols cp kk pivots hpiv_mono bits lo hU hbits hlo fr hfr base k (by omega),
      (by omega : tbCnt pivots base + (tbCnt pivots (base + k) - tbCnt pivots base) = tbCnt pivots (base + k)),
      ← Nat.shiftRight_add, ih (base + k) (by omega), ← tbXl_append, List.sum_cons, ← Nat.add_assoc,
      tb_range'_append _ _ _ hm hm2]

end strip

/-! ## 6. `_kk_setup`: the chunk widths sum to `kk`;  `lookupM_spec` -/

theorem tb_chunk_prefix (kk nt : Nat) : ∀ j, j + 1 ≤ nt →
    ((List.range j).map fun t =>
      kk / nt + (if t + 1 < nt ∧ kk % nt ≥ nt - 1 - t then 1 else 0)).sum = j * (kk / nt) + (j + kk % nt - (nt - 1)) := by
  intro j
  induction j with
  | zero =>
    intro h
    have : kk % nt < nt := Nat.mod_lt _ (by omega)
    simp only [List.range_zero, List.map_nil, List.sum_nil, Nat.zero_mul]
    omega
  | succ j ih =>
    intro h
    have : kk % nt < nt := Nat.mod_lt _ (by omega)
    rw [List.range_succ, List.map_append, List.sum_append, ih (by omega), Nat.succ_mul]
    simp only [List.map_cons, List.map_nil, List.sum_cons, List.sum_nil]
    split <;> omega

theorem chunkSizes_sum (kk nt : Nat) (hnt : 1 ≤ nt) : (chunkSizes kk nt).sum = kk := by
  unfold chunkSizes
  obtain ⟨m, rfl⟩ : ∃ m, nt = m + 1 := ⟨nt - 1, by omega⟩
  rw [List.range_succ, List.map_append, List.sum_append, tb_chunk_prefix kk (m + 1) m (by omega)]
  simp only [List.map_cons, List.map_nil, List.sum_cons, List.sum_nil]
  have h1 : kk % (m + 1) < m + 1 := Nat.mod_lt _ (by omega)
  have h2 := Nat.div_add_mod kk (m + 1)
  rw [Nat.succ_mul] at h2
  have h3 : ¬ (m + 1 < m + 1 ∧ kk % (m + 1) ≥ m + 1 - 1 - m) := by omega
  rw [if_neg h3]
  simp only [Nat.add_sub_cancel] at *
  omega

theorem chunkSizes_length (kk nt : Nat) : (chunkSizes kk nt).length = nt := by
  unfold chunkSizes; simp

/-- multiplication tables: from column `lo ≥ cp + kk` on, the looked-up combination is the XOR of the rows `U[t]` whose pivot bit is set
    in `bits` (`bits` has ones only at pivot positions) -/
theorem lookupM_spec (U : Array Nat) (ncols cp kk nt : Nat) (pivots : Array Nat) (bits lo : Nat)
    (hnt : 1 ≤ nt) (hU : U.size = pivots.size)
    (hpiv_lt : ∀ t, t < pivots.size → pivots.getD t 0 < kk)
    (hpiv_mono : ∀ t t', t < t' → t' < pivots.size → pivots.getD t 0 < pivots.getD t' 0)
    (hbits : ∀ b, bits.testBit b = true → ∃ t, t < pivots.size ∧ pivots.getD t 0 = b)
    (hlo : cp + kk ≤ lo) :
    part (lookupM (makeTables U ncols cp pivots (pivots.size == kk) (chunkSizes kk nt)
        (chunkRanks (chunkSizes kk nt) pivots) 0 0) bits) lo ncols
      = xfold pivots.size (fun t => if bits.testBit (pivots.getD t 0) then part (U.getD t 0) lo ncols else 0) := by
  have hfr : (pivots.size == kk) = true → pivots.size = kk ∧ ∀ t, t < pivots.size → pivots.getD t 0 = t := by
    intro h
    have hs : pivots.size = kk := by simpa using h
    refine ⟨hs, ?_⟩
    intro t ht
    have a1 := tb_piv_ge pivots hpiv_mono 0 t (by omega)
    have a2 := tb_piv_ge pivots hpiv_mono t (pivots.size - 1 - t) (by omega)
    rw [(by omega : t + (pivots.size - 1 - t) = pivots.size - 1)] at a2
    have a3 := hpiv_lt (pivots.size - 1) (by omega)
    rw [Nat.zero_add] at a1
    omega
  have h := tbLookupM_gen U ncols cp kk pivots hpiv_mono bits lo hU hbits hlo (pivots.size == kk) hfr
    (chunkSizes kk nt) 0 (by rw [chunkSizes_sum kk nt hnt]; omega)
  rw [tbCnt_zero, Nat.shiftRight_zero, Nat.zero_add, chunkSizes_sum kk nt hnt,
    tbCnt_all pivots hpiv_mono kk hpiv_lt, Nat.sub_zero, ← List.range_eq_range'] at h
  exact h

/-! ## 7. one elimination table -/

theorem tb_part_shift_id (g c k lo n : Nat) (hg : g < 2 ^ k) (h1 : lo ≤ c) (h2 : c + k ≤ n) :
    part (g <<< c) lo n = g <<< c := by
  apply Nat.eq_of_testBit_eq; intro j
  rw [testBit_part, Nat.testBit_shiftLeft]
  by_cases e : lo ≤ j ∧ j < n
  · simp [e]
  · by_cases e2 : c ≤ j
    · have : g.testBit (j - c) = false :=
        Nat.testBit_lt_two_pow (Nat.lt_of_lt_of_le hg (Nat.pow_le_pow_right (by omega) (by omega)))
      simp [this]
    · simp [e2]

theorem tb_elimSeq_shift (e : Nat → Nat) (cp base n k w : Nat) :
    elimSeq (fun b => e (base + b)) (fun b => cp + base + b) n (List.range k) w
      = elimSeq e (fun t => cp + t) n (List.range' base k) w := by
  unfold elimSeq
  rw [List.range'_eq_map_range, List.foldl_map]
  simp only [Nat.add_assoc]

section etab
variable (U : Array Nat) (ncols cp kk : Nat)
  (hkk : kk ≤ 64) (hcols : cp + kk ≤ ncols) (hU : U.size = kk)
  (hUdiag : ∀ t, t < kk → (U.getD t 0).testBit (cp + t) = true)
  (hUlow : ∀ t j, t < kk → 64 * (cp / 64) ≤ j → j < cp + t → (U.getD t 0).testBit j = false)

include hUlow in
theorem tb_mask_row (base b : Nat) (hb : base + b < kk) :
    U.getD (base + b) 0 &&& colMask (64 * ((cp + base) / 64)) ncols = part (U.getD (base + b) 0) (cp + base + b) ncols := by
  have hlow : ∀ j, 64 * (cp / 64) ≤ j → j < cp + (base + b) → (U.getD (base + b) 0).testBit j = false :=
    fun j => hUlow (base + b) j hb
  generalize U.getD (base + b) 0 = u at hlow ⊢
  apply Nat.eq_of_testBit_eq; intro j
  rw [Nat.testBit_and, colMask_testBit, testBit_part]
  cases hj : u.testBit j
  · simp
  · by_cases h1 : cp + base + b ≤ j ∧ j < ncols
    · have h2 : 64 * ((cp + base) / 64) ≤ j := by omega
      simp [h1, h2]
    · by_cases h3 : j < ncols
      · have h4 : ¬ (64 * ((cp + base) / 64) ≤ j) := by
          intro h4
          have := hlow j (by omega) (by omega)
          rw [this] at hj; exact absurd hj (by simp)
        have h5 : ¬ (cp + base + b ≤ j) := by omega
        simp [h3, h4, h5]
      · simp [h3]

include hkk hcols hU hUdiag hUlow

/-- one elimination table: the row looked up through `E` for the pattern of `w`, XORed onto `w`, is the sequential
    elimination of `w` by the rows of the chunk; the looked-up row lies in the columns `[64·(cp/64), ncols)`, and `B` caches
    its columns `cp …` -/
theorem tbE_table (off : Nat → Nat) (base k : Nat) (hbk : base + k ≤ kk) (w : Nat) :
    ∃ x, (makeTablePle U ncols base (cp + base) k k off base cp true).E.getD (bitsAt w (cp + base) k) 0 = x ∧
      x < 2 ^ k ∧
      w ^^^ (makeTablePle U ncols base (cp + base) k k off base cp true).T.getD x 0
        = elimSeq (fun t => U.getD t 0) (fun t => cp + t) ncols (List.range' base k) w ∧
      part ((makeTablePle U ncols base (cp + base) k k off base cp true).T.getD x 0) (64 * (cp / 64)) ncols
        = (makeTablePle U ncols base (cp + base) k k off base cp true).T.getD x 0 ∧
      ∀ b, b < kk → ((makeTablePle U ncols base (cp + base) k k off base cp true).B.getD x 0).testBit b
        = ((makeTablePle U ncols base (cp + base) k k off base cp true).T.getD x 0).testBit (cp + b) := by
  have hpos : 0 < 2 ^ k := Nat.two_pow_pos k
  have hr : base + k ≤ U.size := by omega
  have hd : ∀ b, b < k → (U.getD (base + b) 0).testBit (cp + base + b) = true := by
    intro b hb
    have := hUdiag (base + b) (by omega)
    rwa [← Nat.add_assoc] at this
  have hck : cp + base + k ≤ ncols := by omega
  -- the rows of the table
  have hT : ∀ i, i < 2 ^ k → (tbT U ncols base (cp + base) k).getD i 0 =
      tbComb (fun b => part (U.getD (base + b) 0) (cp + base + b) ncols) k (i ^^^ (i >>> 1)) := by
    intro i hi
    rw [(tbT_spec U ncols base (cp + base) k hr).2 i hi]
    exact tbComb_congr_fun _ _ k _ (fun j hj => tb_mask_row U ncols cp kk hUlow base j (by omega))
  -- the `E` lookup
  have hE := (tb_setFold (fun i => bitsAt ((tbT U ncols base (cp + base) k).getD i 0) (cp + base) k) (2 ^ k) (2 ^ k)
    (fun i _ => Nat.mod_lt _ hpos)
    (by
      intro a b ha hb hab
      simp only [hT a ha, hT b hb] at hab
      exact gray_injective a b (tbComb_inj (fun b => U.getD (base + b) 0) (cp + base) ncols k _ _ hd hck
        (gray_lt a k ha) (gray_lt b k hb) hab))
    (2 ^ k - 1) (by omega)).2
  -- the decisions of the sequential elimination
  have hg : bitsAt (tbW (fun b => U.getD (base + b) 0) (cp + base) ncols k w) (cp + base) k < 2 ^ k :=
    Nat.mod_lt _ hpos
  obtain ⟨i, hi, hix⟩ := (buildOrd_bijective k).2.2.2 _ hg
  have hix' := hix
  rw [getD_buildOrd k i hi] at hix'
  obtain ⟨t1, t2⟩ := tbElim_table (fun b => U.getD (base + b) 0) (cp + base) ncols k w hd hck
  have hEi := hE i (by omega)
  simp only [hT i hi, hix', t1] at hEi
  have h0 : (buildOrd k).getD 0 0 = 0 := by rw [getD_buildOrd k 0 hpos]; rfl
  have hT' : (tbT' U ncols base (cp + base) k k).getD i 0 =
      tbComb (fun b => part (U.getD (base + b) 0) (cp + base + b) ncols) k
          (bitsAt (tbW (fun b => U.getD (base + b) 0) (cp + base) ncols k w) (cp + base) k)
        ^^^ (bitsAt (tbW (fun b => U.getD (base + b) 0) (cp + base) ncols k w) (cp + base) k <<< (cp + base)) := by
    rw [tbT'_getD U ncols base (cp + base) k k i hi (tbT_spec U ncols base (cp + base) k hr).1 h0, hT i hi, hix', hix]
  refine ⟨i, ?_, hi, ?_, ?_, ?_⟩
  · rw [tbPle_E_true]; exact hEi
  · rw [tbPle_T_true, hT', t2]
    exact tb_elimSeq_shift (fun t => U.getD t 0) cp base ncols k w
  · rw [tbPle_T_true, hT', part_xor, part_tbComb,
      tbComb_congr_fun _ (fun b => part (U.getD (base + b) 0) (cp + base + b) ncols) k _
        (fun j _ => by
          rw [part_part, Nat.max_eq_left (by omega), Nat.min_self]),
      tb_part_shift_id _ (cp + base) k _ ncols hg (by omega) hck]
  · intro b hb
    rw [tbPle_B_true, tbPle_T_true]
    simp only [Array.getD_eq_getD_getElem?, Array.getElem?_map, Array.getElem?_range]
    rw [if_pos hi]
    simp only [Option.map_some, Option.getD_some]
    by_cases e : 1 ≤ i
    · rw [if_pos e, tb_testBit_bitsAt]
      have : b < min 64 (ncols - cp) := by omega
      simp [this]
    · have : i = 0 := by omega
      subst this
      have hz := tbT'_getD U ncols base (cp + base) k k 0 hi (tbT_spec U ncols base (cp + base) k hr).1 h0
      rw [hT 0 hi, h0] at hz
      simp only [Nat.zero_shiftRight, Nat.xor_self, tbComb_zero, Nat.zero_shiftLeft] at hz
      simp only [Array.getD_eq_getD_getElem?] at hz
      rw [if_neg e, hz]
      simp

end etab

/-! ## 8. the elimination tables of a strip;  `lookupE_spec` -/

section estrip
variable (U : Array Nat) (ncols cp kk : Nat) (pivots : Array Nat)
  (hkk : kk ≤ 64) (hcols : cp + kk ≤ ncols)
  (hsz : pivots.size = kk) (hpiv : ∀ t, t < kk → pivots.getD t 0 = t)
  (hU : U.size = kk)
  (hUdiag : ∀ t, t < kk → (U.getD t 0).testBit (cp + t) = true)
  (hUlow : ∀ t j, t < kk → 64 * (cp / 64) ≤ j → j < cp + t → (U.getD t 0).testBit j = false)
include hkk hcols hsz hpiv hU hUdiag hUlow

theorem tbLookupE_gen : ∀ (ks : List Nat) (base w bits : Nat), base + ks.sum = kk →
    (∀ b, b < kk → bits.testBit b = w.testBit (cp + b)) →
    w ^^^ part (lookupE (makeTables U ncols cp pivots true ks (chunkRanks.go pivots ks base) base base) bits base)
        (64 * (cp / 64)) ncols
      = elimSeq (fun t => U.getD t 0) (fun t => cp + t) ncols (List.range' base (kk - base)) w := by
  have hmono : ∀ t t', t < t' → t' < pivots.size → pivots.getD t 0 < pivots.getD t' 0 := by
    intro t t' h1 h2
    rw [hpiv t (by omega), hpiv t' (by omega)]; exact h1
  have hid : ∀ t, t < pivots.size → pivots.getD t 0 = t := fun t ht => hpiv t (by omega)
  intro ks
  induction ks with
  | nil =>
    intro base w bits hb _
    simp only [List.sum_nil, Nat.add_zero] at hb
    subst hb
    simp [makeTables, lookupE, part_zero, elimSeq]
  | cons k ks ih =>
    intro base w bits hb hbits
    rw [List.sum_cons] at hb
    rw [tbGo_cons, tbCnt_id pivots hmono hid base (by omega), tbCnt_id pivots hmono hid (base + k) (by omega),
      (by omega : base + k - base = k), makeTables, lookupE]
    simp only [tbPle_k]
    have hpat : (bits >>> base) % 2 ^ k = bitsAt w (cp + base) k := by
      apply Nat.eq_of_testBit_eq; intro b
      rw [tb_testBit_bitsAt, Nat.testBit_mod_two_pow, Nat.testBit_shiftRight]
      by_cases e : b < k
      · rw [hbits (base + b) (by omega), Nat.add_assoc]
      · simp [e]
    rw [hpat]
    obtain ⟨x, hx1, hx2, hx3, hx4, hx5⟩ := tbE_table U ncols cp kk hkk hcols hU hUdiag hUlow
      (fun t => pivots.getD (base + t) 0) base k (by omega) w
    rw [hx1, part_xor, hx4, ← Nat.xor_assoc, hx3,
      ih (base + k) _ _ (by omega) (by
        intro b hb'
        rw [Nat.testBit_xor, hx5 b hb', hbits b hb', ← hx3, Nat.testBit_xor]),
      ← elimSeq_append, (by omega : kk - (base + k) = kk - base - k)]
    congr 1
    have := @List.range'_append base k (kk - base - k) 1
    rw [Nat.one_mul, (by omega : k + (kk - base - k) = kk - base)] at this
    exact this

end estrip

/-- `lookupE_spec` without the two size hypotheses (they are not needed: every table row is masked to `[.., ncols)` and
    `elimRow` only adds `part _ _ ncols`) -/
theorem lookupE_spec' (U : Array Nat) (ncols cp kk nt : Nat) (pivots : Array Nat) (v : Nat)
    (hnt : 1 ≤ nt) (hkk : kk ≤ 64) (hcols : cp + kk ≤ ncols)
    (hsz : pivots.size = kk) (hpiv : ∀ t, t < kk → pivots.getD t 0 = t)
    (hU : U.size = kk)
    (hUdiag : ∀ t, t < kk → (U.getD t 0).testBit (cp + t) = true)
    (hUlow : ∀ t j, t < kk → 64 * (cp / 64) ≤ j → j < cp + t → (U.getD t 0).testBit j = false) :
    v ^^^ part (lookupE (makeTables U ncols cp pivots (pivots.size == kk) (chunkSizes kk nt)
        (chunkRanks (chunkSizes kk nt) pivots) 0 0) (bitsAt v cp kk) 0) (64 * (cp / 64)) ncols
      = elimSeq (fun t => U.getD t 0) (fun t => cp + t) ncols (List.range kk) v := by
  have hfr : (pivots.size == kk) = true := by simp [hsz]
  have h := tbLookupE_gen U ncols cp kk pivots hkk hcols hsz hpiv hU hUdiag hUlow (chunkSizes kk nt) 0 v
    (bitsAt v cp kk) (by rw [chunkSizes_sum kk nt hnt]; omega)
    (by
      intro b hb
      rw [tb_testBit_bitsAt]; simp [hb])
  rw [Nat.sub_zero, ← List.range_eq_range'] at h
  rw [hfr]
  exact h

/-- elimination tables (full-rank strip: `kk` pivots in `kk` columns, pivot `t` in column `cp + t`): processing a row `v` with the
    `E`/`B` lookups is the sequential elimination of `v` by the rows `U[0], …, U[kk-1]` -/
theorem lookupE_spec (U : Array Nat) (ncols cp kk nt : Nat) (pivots : Array Nat) (v : Nat)
    (hnt : 1 ≤ nt) (hkk : kk ≤ 64) (hcols : cp + kk ≤ ncols)
    (hsz : pivots.size = kk) (hpiv : ∀ t, t < kk → pivots.getD t 0 = t)
    (hU : U.size = kk)
    (hUlt : ∀ t, t < kk → U.getD t 0 < 2 ^ ncols)
    (hUdiag : ∀ t, t < kk → (U.getD t 0).testBit (cp + t) = true)
    (hUlow : ∀ t j, t < kk → 64 * (cp / 64) ≤ j → j < cp + t → (U.getD t 0).testBit j = false)
    (hv : v < 2 ^ ncols) :
    v ^^^ part (lookupE (makeTables U ncols cp pivots (pivots.size == kk) (chunkSizes kk nt)
        (chunkRanks (chunkSizes kk nt) pivots) 0 0) (bitsAt v cp kk) 0) (64 * (cp / 64)) ncols
      = elimSeq (fun t => U.getD t 0) (fun t => cp + t) ncols (List.range kk) v :=
  have _ := hUlt
  have _ := hv
  lookupE_spec' U ncols cp kk nt pivots v hnt hkk hcols hsz hpiv hU hUdiag hUlow

/-! ## 9. non-vacuity -/

/-- `lookupM_spec` on a strip of width 3 with the pivots in the columns 0 and 2, two tables (chunk widths 2 and 1) -/
example :
    part (lookupM (makeTables #[0b10101, 0b01100] 5 0 #[0, 2] ((#[0, 2] : Array Nat).size == 3) (chunkSizes 3 2)
        (chunkRanks (chunkSizes 3 2) #[0, 2]) 0 0) 0b101) 3 5
      = xfold (#[0, 2] : Array Nat).size
          (fun t => if (0b101 : Nat).testBit ((#[0, 2] : Array Nat).getD t 0) then
            part ((#[0b10101, 0b01100] : Array Nat).getD t 0) 3 5 else 0) :=
  lookupM_spec #[0b10101, 0b01100] 5 0 3 2 #[0, 2] 0b101 3 (by decide) rfl
    (by
      intro t ht
      have : t = 0 ∨ t = 1 := by simp at ht; omega
      rcases this with rfl | rfl <;> decide)
    (by
      intro t t' h1 h2
      have : t = 0 ∧ t' = 1 := by simp at h2; omega
      obtain ⟨rfl, rfl⟩ := this
      decide)
    (by
      intro b hb
      have hb3 : b < 3 := by
        apply Classical.byContradiction
        intro h
        have := Nat.testBit_lt_two_pow (x := 5) (i := b)
          (Nat.lt_of_lt_of_le (by decide : 5 < 2 ^ 3) (Nat.pow_le_pow_right (by decide) (by omega)))
        rw [this] at hb; cases hb
      have : b = 0 ∨ b = 1 ∨ b = 2 := by omega
      rcases this with rfl | rfl | rfl
      · exact ⟨0, by decide, by decide⟩
      · exact absurd hb (by decide)
      · exact ⟨1, by decide, by decide⟩)
    (by decide)

/-- `lookupE_spec` on a full-rank strip of width 3, two tables (chunk widths 2 and 1) -/
example :
    0b0111 ^^^ part (lookupE (makeTables #[0b1011, 0b1110, 0b1100] 4 0 #[0, 1, 2] ((#[0, 1, 2] : Array Nat).size == 3)
        (chunkSizes 3 2) (chunkRanks (chunkSizes 3 2) #[0, 1, 2]) 0 0) (bitsAt 0b0111 0 3) 0) (64 * (0 / 64)) 4
      = elimSeq (fun t => (#[0b1011, 0b1110, 0b1100] : Array Nat).getD t 0) (fun t => 0 + t) 4 (List.range 3) 0b0111 :=
  lookupE_spec #[0b1011, 0b1110, 0b1100] 4 0 3 2 #[0, 1, 2] 0b0111 (by decide) (by decide) (by decide) rfl
    (by
      intro t ht
      have : t = 0 ∨ t = 1 ∨ t = 2 := by omega
      rcases this with rfl | rfl | rfl <;> decide)
    rfl
    (by
      intro t ht
      have : t = 0 ∨ t = 1 ∨ t = 2 := by omega
      rcases this with rfl | rfl | rfl <;> decide)
    (by
      intro t ht
      have : t = 0 ∨ t = 1 ∨ t = 2 := by omega
      rcases this with rfl | rfl | rfl <;> decide)
    (by
      intro t j ht h1 h2
      have : (t = 1 ∧ j = 0) ∨ (t = 2 ∧ j = 0) ∨ (t = 2 ∧ j = 1) := by omega
      rcases this with ⟨rfl, rfl⟩ | ⟨rfl, rfl⟩ | ⟨rfl, rfl⟩ <;> decide)
    (by decide)

end PR
end BMat
end M4ri
