/-
  C03: `_mzd_pluq_russian` returns a PLUQ certificate.

  `_mzd_pluq_russian` is `_mzd_ple_russian` followed by `mzd_apply_p_right_trans_tri` (`pluqRussian_eq`).  This file shows
  that `mzd_apply_p_right_trans_tri` turns PLE storage into PLUQ storage:

    `isPLUQ_of_isPLE_tri`   IsPLE A S P Q r, `Q[i] = i` for `r ≤ i < ncols`  ⟹  IsPLUQ A (S.applyPRightTransTri Q) P Q r
    `pleNaive_Q_tail`       `_mzd_ple_naive` leaves `Q[i] = i` for `r ≤ i < ncols`
    `pluqRussian_isPLUQ`, `checkPLUQ_pluqRussian`, `pluqRussian_rank`, `pluqRussian_WF`

  Proof.  Row `t` of the storage undergoes exactly the column transpositions `(k Q[k])`, `t < k < ncols`, in ascending order
  (`PQ.tri_get`, index permutation `PQ.triPerm Q t ncols`).  They touch only entries strictly above the diagonal, so `L`, the
  diagonal and the rows `≥ r` stay.  The full column permutation `rowPerm Q ncols` of `apply_p_right_trans` factors as
  `rowPerm Q (t+1) ∘ triPerm Q t ncols` (`PQ.rowPerm_tri`); on row `t` of the PLE storage `rowPerm Q (t+1)` is what the `L`
  compression has in effect applied already (pivot on the diagonal, zeros in the columns `(t, Q[t]]`), which gives
  `U'[t, j] = E[t, rowPerm Q ncols j]` (`PQ.upper_get`) and with it the product.
-/
import M4riProofs.PleRussian
namespace M4ri
namespace BMat
namespace PR
open Rec PN

namespace PQ

/-- the index permutation row `t` undergoes in `mzd_apply_p_right_trans_tri`: the transpositions `(k Q[k])`, `t < k < n`, as
    they act on column indices when the swaps are applied in ascending order -/
def triPerm (Q : Array Nat) (t : Nat) : Nat → Nat → Nat
  | 0, c => c
  | k + 1, c => triPerm Q t k (if t < k then swapIdx k (Q.getD k 0) c else c)

/-- the first `k` rounds of `mzd_apply_p_right_trans_tri`, row by row -/
theorem tri_fold (S : BMat) (Q : Array Nat) : ∀ k,
    SameShape S ((List.range k).foldl (fun M i => M.swapColsInRows i (Q.getD i 0) 0 (min M.nrows i)) S) ∧
    ∀ t c, ((List.range k).foldl (fun M i => M.swapColsInRows i (Q.getD i 0) 0 (min M.nrows i)) S).get t c =
      if t < S.nrows then S.get t (triPerm Q t k c) else S.get t c := by
  intro k
  induction k with
  | zero => exact ⟨SameShape.refl S, fun t c => by simp [triPerm]⟩
  | succ k ih =>
    obtain ⟨sh, hg⟩ := ih
    rw [List.range_succ, List.foldl_append]
    simp only [List.foldl_cons, List.foldl_nil]
    generalize (List.range k).foldl (fun M i => M.swapColsInRows i (Q.getD i 0) 0 (min M.nrows i)) S = C at sh hg
    refine ⟨sh.trans (swapColsInRows_shape _ _ _ _ _), fun t c => ?_⟩
    rw [swapColsInRows_get, sh.1]
    by_cases ht : t < S.nrows
    · rw [if_pos ht]
      by_cases htk : t < k
      · rw [if_pos ⟨Nat.zero_le _, by omega⟩, hg, if_pos ht]
        show _ = S.get t (triPerm Q t k (if t < k then swapIdx k (Q.getD k 0) c else c))
        rw [if_pos htk]
      · rw [if_neg (by omega), hg, if_pos ht]
        show _ = S.get t (triPerm Q t k (if t < k then swapIdx k (Q.getD k 0) c else c))
        rw [if_neg htk]
    · rw [if_neg (by omega), hg, if_neg ht, if_neg ht]

theorem tri_shape (S : BMat) (Q : Array Nat) : SameShape S (S.applyPRightTransTri Q) := (tri_fold S Q S.ncols).1

/-- **row-wise description of `mzd_apply_p_right_trans_tri`**: row `t` undergoes the transpositions `(k Q[k])`, `t < k < ncols` -/
theorem tri_get (S : BMat) (Q : Array Nat) (t c : Nat) (ht : t < S.nrows) :
    (S.applyPRightTransTri Q).get t c = S.get t (triPerm Q t S.ncols c) := by
  have := (tri_fold S Q S.ncols).2 t c
  rw [if_pos ht] at this
  exact this

theorem tri_get_ge (S : BMat) (Q : Array Nat) (t c : Nat) (ht : S.nrows ≤ t) :
    (S.applyPRightTransTri Q).get t c = S.get t c := by
  have := (tri_fold S Q S.ncols).2 t c
  rw [if_neg (by omega)] at this
  exact this

/-- nothing happens before round `t + 1` -/
theorem triPerm_early (Q : Array Nat) (t : Nat) : ∀ k, k ≤ t + 1 → ∀ c, triPerm Q t k c = c := by
  intro k
  induction k with
  | zero => intro _ c; rfl
  | succ k ih =>
    intro hk c
    show triPerm Q t k (if t < k then swapIdx k (Q.getD k 0) c else c) = c
    rw [if_neg (by omega)]
    exact ih (by omega) c

/-- the column permutation of `apply_p_right_trans` factors through the one of row `t` -/
theorem rowPerm_tri (Q : Array Nat) (t : Nat) : ∀ n, t + 1 ≤ n → ∀ c,
    rowPerm Q n c = rowPerm Q (t + 1) (triPerm Q t n c) := by
  intro n
  induction n with
  | zero => intro h; omega
  | succ n ih =>
    intro hn c
    by_cases e : t + 1 = n + 1
    · rw [triPerm_early Q t (n + 1) (by omega), e]
    · show rowPerm Q n (swapIdx n (Q.getD n 0) c) =
        rowPerm Q (t + 1) (triPerm Q t n (if t < n then swapIdx n (Q.getD n 0) c else c))
      rw [if_pos (by omega)]
      exact ih (by omega) _

section lapack
variable {Q : Array Nat} {t N : Nat}

/-- columns up to the diagonal are fixed -/
theorem triPerm_le : ∀ n, (∀ k, t < k → k < n → k ≤ Q.getD k 0) → ∀ c, c ≤ t → triPerm Q t n c = c := by
  intro n
  induction n with
  | zero => intro _ c _; rfl
  | succ n ih =>
    intro hge c hc
    show triPerm Q t n (if t < n then swapIdx n (Q.getD n 0) c else c) = c
    by_cases htn : t < n
    · rw [if_pos htn]
      have := hge n htn (by omega)
      have e : swapIdx n (Q.getD n 0) c = c := by unfold swapIdx; rw [if_neg (by omega), if_neg (by omega)]
      rw [e]
      exact ih (fun k h1 h2 => hge k h1 (by omega)) c hc
    · rw [if_neg htn]
      exact ih (fun k h1 h2 => hge k h1 (by omega)) c hc

/-- columns right of the diagonal stay right of it -/
theorem triPerm_gt : ∀ n, (∀ k, t < k → k < n → k ≤ Q.getD k 0) → ∀ c, t < c → t < triPerm Q t n c := by
  intro n
  induction n with
  | zero => intro _ c hc; exact hc
  | succ n ih =>
    intro hge c hc
    show t < triPerm Q t n (if t < n then swapIdx n (Q.getD n 0) c else c)
    by_cases htn : t < n
    · rw [if_pos htn]
      have := hge n htn (by omega)
      refine ih (fun k h1 h2 => hge k h1 (by omega)) _ ?_
      unfold swapIdx; split <;> (try split) <;> omega
    · rw [if_neg htn]
      exact ih (fun k h1 h2 => hge k h1 (by omega)) c hc

/-- columns inside the matrix stay inside -/
theorem triPerm_lt : ∀ n, n ≤ N → (∀ k, t < k → k < n → Q.getD k 0 < N) → ∀ c, c < N → triPerm Q t n c < N := by
  intro n
  induction n with
  | zero => intro _ _ c hc; exact hc
  | succ n ih =>
    intro hn hlt c hc
    show triPerm Q t n (if t < n then swapIdx n (Q.getD n 0) c else c) < N
    by_cases htn : t < n
    · rw [if_pos htn]
      exact ih (by omega) (fun k h1 h2 => hlt k h1 (by omega)) _ (swapIdx_lt (by omega) (hlt n htn (by omega)) hc)
    · rw [if_neg htn]
      exact ih (by omega) (fun k h1 h2 => hlt k h1 (by omega)) c hc

/-- columns outside the matrix are fixed -/
theorem triPerm_ge : ∀ n, n ≤ N → (∀ k, t < k → k < n → Q.getD k 0 < N) → ∀ c, N ≤ c → triPerm Q t n c = c := by
  intro n
  induction n with
  | zero => intro _ _ c _; rfl
  | succ n ih =>
    intro hn hlt c hc
    show triPerm Q t n (if t < n then swapIdx n (Q.getD n 0) c else c) = c
    by_cases htn : t < n
    · rw [if_pos htn, swapIdx_of_ge (m := N) (by omega) (hlt n htn (by omega)) hc]
      exact ih (by omega) (fun k h1 h2 => hlt k h1 (by omega)) c hc
    · rw [if_neg htn]
      exact ih (by omega) (fun k h1 h2 => hlt k h1 (by omega)) c hc

end lapack

/-- `mzd_apply_p_right_trans_tri` keeps the storage well formed (`Q` in LAPACK range) -/
theorem tri_WF {S : BMat} (hS : S.WF) {Q : Array Nat} (hQ : ∀ k, k < S.ncols → Q.getD k 0 < S.ncols) :
    (S.applyPRightTransTri Q).WF := by
  have sh := tri_shape S Q
  apply WF_of_get
  · rw [sh.2.2, sh.1]; exact hS.1
  · intro i j hj
    rw [sh.2.1] at hj
    by_cases hi : i < S.nrows
    · rw [tri_get S Q i j hi, triPerm_ge (N := S.ncols) S.ncols (Nat.le_refl _) (fun k _ h2 => hQ k h2) j hj]
      exact get_of_ge_ncols hS _ _ hj
    · rw [tri_get_ge S Q i j (by omega)]
      exact get_of_ge_ncols hS _ _ hj

section cert
variable {A S : BMat} {P Q : Array Nat} {r : Nat} (h : IsPLE A S P Q r)
  (hQ : ∀ i, r ≤ i → i < A.ncols → Q.getD i 0 = i)
include h hQ

/-- under the tail condition `Q` is in LAPACK form -/
theorem q_lapack : ∀ k, k < A.ncols → k ≤ Q.getD k 0 ∧ Q.getD k 0 < A.ncols := by
  intro k hk
  by_cases hkr : k < r
  · exact h.pivot_range k hkr
  · rw [hQ k (by omega) hk]; exact ⟨Nat.le_refl _, hk⟩

/-- `L` is untouched -/
theorem lower_get (i j : Nat) :
    ((S.applyPRightTransTri Q).lowerFactor r).get i j = (S.lowerFactor r).get i j := by
  have sh := tri_shape S Q
  rw [lowerFactor_get, lowerFactor_get, sh.1]
  by_cases hi : i < S.nrows
  · by_cases hji : j < i
    · rw [tri_get S Q i j hi, triPerm_le (t := i) S.ncols
        (fun k _ h2 => (q_lapack h hQ k (by rw [← h.ncols_eq]; exact h2)).1) j (by omega)]
    · simp [hji]
  · simp [hi]

/-- **`U` of the new storage is `E` with its columns permuted**: `U'[t, j] = E[t, rowPerm Q ncols j]` -/
theorem upper_get (t j : Nat) (ht : t < r) (hj : j < A.ncols) :
    ((S.applyPRightTransTri Q).upperFactor r).get t j = (S.echelonFactor Q r).get t (rowPerm Q A.ncols j) := by
  have sh := tri_shape S Q
  have hnc := h.ncols_eq
  have hrn := h.r_le_ncols
  have hlap := q_lapack h hQ
  have htm : t < S.nrows := by rw [h.nrows_eq]; have := h.r_le_nrows; omega
  have hge : ∀ k, t < k → k < A.ncols → k ≤ Q.getD k 0 := fun k _ h2 => (hlap k h2).1
  have hlt : ∀ k, t < k → k < A.ncols → Q.getD k 0 < A.ncols := fun k _ h2 => (hlap k h2).2
  -- the facts about the pivots `Q[0..t]`
  have pge : ∀ s, s < t + 1 → s ≤ Q.getD s 0 := fun s hs => (h.pivot_range s (by omega)).1
  have pm : ∀ s s', s < s' → s' < t + 1 → Q.getD s 0 < Q.getD s' 0 := fun s s' h1 h2 => h.pivot_mono s s' h1 (by omega)
  have plt : ∀ s, s < t + 1 → Q.getD s 0 < A.ncols := fun s hs => (h.pivot_range s (by omega)).2
  have ple : ∀ s, s < t + 1 → Q.getD s 0 ≤ Q.getD t 0 := fun s hs => by
    by_cases e : s = t
    · rw [e]
    · exact Nat.le_of_lt (h.pivot_mono s t (by omega) ht)
  rw [upperFactor_get, echelonFactor_get, sh.2.1, hnc, tri_get S Q t j htm, hnc,
    rowPerm_tri Q t A.ncols (by omega) j]
  generalize hc : triPerm Q t A.ncols j = c
  simp only [ht, hj, decide_true, Bool.true_and]
  by_cases hjt : j ≤ t
  · have ec : c = j := by rw [← hc]; exact triPerm_le A.ncols hge j hjt
    subst ec
    rw [rowPerm_lt pge pm c (by omega)]
    by_cases e : c = t
    · subst e
      rw [h.diag c ht, decide_eq_true (Nat.le_refl c), decide_eq_true (rfl : Q.getD c 0 = Q.getD c 0)]
      simp only [Bool.and_self, Bool.or_true]
    · have h1 := h.pivot_mono c t (by omega) ht
      have h2 : ¬ t ≤ c := by omega
      have h3 : ¬ Q.getD t 0 < Q.getD c 0 := by omega
      have h4 : ¬ Q.getD c 0 = Q.getD t 0 := by omega
      rw [decide_eq_false h2, decide_eq_false h3, decide_eq_false h4]
      simp only [Bool.false_and, Bool.or_false]
  · have hct : t < c := by rw [← hc]; exact triPerm_gt A.ncols hge j (by omega)
    have hcn : c < A.ncols := by rw [← hc]; exact triPerm_lt A.ncols (Nat.le_refl _) hlt j hj
    have h0 : t ≤ j := by omega
    simp only [h0, decide_true, Bool.true_and]
    by_cases hcq : Q.getD t 0 < c
    · rw [rowPerm_fix_above pge c (fun s hs => Nat.lt_of_le_of_lt (ple s hs) hcq)]
      have h4 : ¬ c = Q.getD t 0 := by omega
      rw [decide_eq_true hcq, decide_eq_true hcn, decide_eq_false h4]
      simp only [Bool.true_and, Bool.or_false]
    · rw [h.gap t c ht hct (by omega)]
      have d1 := rowPerm_le_last pge pm (by omega) c (by simpa using (by omega : c ≤ Q.getD t 0))
      have d2 := rowPerm_ne pge pm (n := A.ncols) (by omega) plt c (by omega) t (by omega)
      simp only [Nat.add_sub_cancel] at d1
      have h3 : ¬ Q.getD t 0 < rowPerm Q (t + 1) c := by omega
      rw [decide_eq_false h3, decide_eq_false d2]
      simp only [Bool.false_and, Bool.or_false]

end cert

end PQ

open PQ in
/-- `mzd_apply_p_right_trans_tri` turns PLE storage into PLUQ storage (neither `A.WF` nor `S.WF` is needed) -/
theorem isPLUQ_of_isPLE_tri' {A S : BMat} {P Q : Array Nat} {r : Nat} (h : IsPLE A S P Q r)
    (hQ : ∀ i, r ≤ i → i < A.ncols → Q.getD i 0 = i) : IsPLUQ A (S.applyPRightTransTri Q) P Q r := by
  have sh := tri_shape S Q
  have hlap := q_lapack h hQ
  have hnc := h.ncols_eq
  have hnr := h.nrows_eq
  have hge : ∀ t k, t < k → k < S.ncols → k ≤ Q.getD k 0 := fun t k _ h2 => (hlap k (by omega)).1
  have hlt : ∀ t k, t < k → k < S.ncols → Q.getD k 0 < S.ncols := fun t k _ h2 => by
    rw [hnc]; exact (hlap k (by omega)).2
  refine ⟨sh.1.trans hnr, sh.2.1.trans hnc, h.r_le_nrows, h.r_le_ncols, h.P_size, h.P_lapack, h.Q_size, hlap,
    ?_, ?_, ?_⟩
  · -- the diagonal
    intro i hi
    have := h.r_le_nrows
    rw [tri_get S Q i i (by omega), triPerm_le S.ncols (hge i) i (Nat.le_refl _)]
    exact h.diag i hi
  · -- rows `≥ r`
    intro i j hi1 hi2 hj1 hj2
    rw [tri_get S Q i j (by omega)]
    have hcn : triPerm Q i S.ncols j < A.ncols := by
      have := triPerm_lt (N := S.ncols) S.ncols (Nat.le_refl _) (hlt i) j (by omega)
      omega
    by_cases hji : j ≤ i
    · rw [triPerm_le S.ncols (hge i) j hji]
      exact h.outside i j hi1 hi2 hj1 hj2
    · have := triPerm_gt S.ncols (hge i) j (by omega)
      exact h.outside i _ hi1 hi2 (by omega) hcn
  · -- the product
    intro i j hi hj
    have shA := applyPLeft_shape A P
    have hperm := rowPerm_permOn Q A.ncols A.ncols (Nat.le_refl _) (fun t ht => (hlap t ht).2)
    rw [applyPRightTrans_get _ _ _ _ (by rw [shA.1]; exact hi), shA.2.1, h.Q_size, Nat.min_self,
      h.prod i _ hi (hperm.1 j hj).1]
    unfold dotSpec_T
    simp only [lowerFactor_ncols]
    apply xsum_congr
    intro t ht
    rw [lower_get h hQ, upper_get h hQ t j ht hj]

/-- `mzd_apply_p_right_trans_tri` turns PLE storage into PLUQ storage -/
theorem isPLUQ_of_isPLE_tri {A S : BMat} {P Q : Array Nat} {r : Nat} (hA : A.WF) (hS : S.WF) (h : IsPLE A S P Q r)
    (hQ : ∀ i, r ≤ i → i < A.ncols → Q.getD i 0 = i) : IsPLUQ A (S.applyPRightTransTri Q) P Q r :=
  have _ := hA
  have _ := hS
  isPLUQ_of_isPLE_tri' h hQ

/-- the storage stays well formed -/
theorem applyPRightTransTri_WF_of_isPLE {A S : BMat} {P Q : Array Nat} {r : Nat} (hS : S.WF) (h : IsPLE A S P Q r)
    (hQ : ∀ i, r ≤ i → i < A.ncols → Q.getD i 0 = i) : (S.applyPRightTransTri Q).WF :=
  PQ.tri_WF hS (fun k hk => by
    rw [h.ncols_eq] at hk ⊢
    exact (PQ.q_lapack h hQ k hk).2)

/-- `_mzd_ple_naive` leaves `Q[i] = i` from the rank on -/
theorem pleNaive_Q_tail {A : BMat} (hA : A.WF) {P Q : Array Nat} (hP : P.size = A.nrows) (hQ : Q.size = A.ncols) :
    ∀ i, (pleNaive A P Q).2.2.2 ≤ i → i < A.ncols → (pleNaive A P Q).2.2.1.getD i 0 = i := by
  obtain ⟨M', P', Q', r, cp', e, hI, _⟩ :=
    PN.go_spec A (min A.nrows A.ncols + 1) A P Q 0 0 (PN.Inv.init hA hP hQ) (by omega)
  rw [PN.pleNaive_unfold A P Q e]
  intro i h1 h2
  show ((List.range' r (M'.ncols - r)).foldl (fun Q i => Q.setIfInBounds i i) Q').getD i 0 = i
  rw [(PN.fill_spec (M'.ncols - r) r Q').2 i, if_pos ⟨h1, by rw [hI.nc]; omega, by rw [hI.qsz]; exact h2⟩]

/-- **C03, `_mzd_pluq_russian`**: for every well-formed `A`, whatever `P`, `Q` contain on entry, every `k ≤ 9` and every cache
    size, the routine returns a PLUQ certificate of `A` (what `checkPLUQ` tests) -/
theorem pluqRussian_isPLUQ {A : BMat} (hA : A.WF) {P Q : Array Nat} (hP : P.size = A.nrows) (hQ : Q.size = A.ncols)
    (k l2 : Nat) (hk : k ≤ 9) :
    IsPLUQ A (pluqRussian A P Q k l2).1 (pluqRussian A P Q k l2).2.1 (pluqRussian A P Q k l2).2.2.1
      (pluqRussian A P Q k l2).2.2.2 := by
  rw [pluqRussian_eq hA hP hQ k l2 hk]
  exact isPLUQ_of_isPLE_tri hA (pleNaive_WF hA hP hQ) (pleNaive_isPLE hA hP hQ) (pleNaive_Q_tail hA hP hQ)

/-- the storage `_mzd_pluq_russian` leaves is well formed -/
theorem pluqRussian_WF {A : BMat} (hA : A.WF) {P Q : Array Nat} (hP : P.size = A.nrows) (hQ : Q.size = A.ncols)
    (k l2 : Nat) (hk : k ≤ 9) : (pluqRussian A P Q k l2).1.WF := by
  rw [pluqRussian_eq hA hP hQ k l2 hk]
  exact applyPRightTransTri_WF_of_isPLE (pleNaive_WF hA hP hQ) (pleNaive_isPLE hA hP hQ) (pleNaive_Q_tail hA hP hQ)

/-- the executable checker accepts the output -/
theorem checkPLUQ_pluqRussian {A : BMat} (hA : A.WF) {P Q : Array Nat} (hP : P.size = A.nrows) (hQ : Q.size = A.ncols)
    (k l2 : Nat) (hk : k ≤ 9) :
    checkPLUQ A (pluqRussian A P Q k l2).1 (pluqRussian A P Q k l2).2.1 (pluqRussian A P Q k l2).2.2.1
      (pluqRussian A P Q k l2).2.2.2 = true := checkPLUQ_complete (pluqRussian_isPLUQ hA hP hQ k l2 hk)

/-- the returned `r` is the rank -/
theorem pluqRussian_rank {A : BMat} (hA : A.WF) {P Q : Array Nat} (hP : P.size = A.nrows) (hQ : Q.size = A.ncols)
    (k l2 : Nat) (hk : k ≤ 9) : (pluqRussian A P Q k l2).2.2.2 = A.rank :=
  GOK.pluq_rank hA (checkPLUQ_pluqRussian hA hP hQ k l2 hk)

/-- non-vacuity: a 3 × 4 matrix of rank 2 with pivot columns 1, 3, junk in `P`, `Q`; the PLE storage `#[9, 3, 2]` becomes the
    PLUQ storage `#[3, 3, 2]` (columns 1 and 3 of row 0 swapped) -/
example : (⟨3, 4, #[10, 2, 8]⟩ : BMat).WF ∧
    pluqRussian ⟨3, 4, #[10, 2, 8]⟩ #[7, 7, 7] #[9, 9, 9, 9] 3 = (⟨3, 4, #[3, 3, 2]⟩, #[0, 1, 2], #[1, 3, 2, 3], 2) ∧
    checkPLUQ ⟨3, 4, #[10, 2, 8]⟩ ⟨3, 4, #[3, 3, 2]⟩ #[0, 1, 2] #[1, 3, 2, 3] 2 = true := by
  refine ⟨⟨rfl, fun i => ?_⟩, by decide +kernel, by decide +kernel⟩
  by_cases h : i < 3
  · have : i = 0 ∨ i = 1 ∨ i = 2 := by omega
    rcases this with rfl | rfl | rfl <;> decide
  · rw [row_of_ge _ _ (by simp; omega)]; decide

end PR
end BMat
end M4ri
