/-
  Tie between the generated functions of `M4ri/Gen/CFuns.lean` that contain Duff's devices and the word-level model
  (`M4ri/Mzd.lean`, `M4ri/MulW.lean`), on the memory images `memOf` of `M4riProofs/GenTieMem.lean`.

  0. Duff's device.
     `duff_finish`  relational form used by every tie: the state at the `while` is the state after a first pass of
                    `j` statements, `n` full passes of 8 follow, `8·n + j = w` applications of the per-word step in all
                    (the loop state is seen through a view `f : τ → σ × Int`, so the lemma does not depend on the tuple
                    layout the translator chose);
     `duff`, `duff_eq`  the translation scheme over an abstract state: for `wide ≥ 1`, entry `wide % 8` and
                    `(wide + 7) / 8` passes are `wide` applications of the step;
     `duff_zero`, `duff_nonpos_mult8`  without a guard, `wide = 0` (any non-positive multiple of 8) runs ONE full pass:
                    8 words are processed; `duff_neg`: other negative `wide` run nothing (no label matches).
     Tactics `duff_case` / `duff_all` (and the two halves `duff_simp_all`, `duff_fin_all`): the eight entry points.
     Technique: guards are resolved with `simp (config := {iota := false})` BEFORE any match is reduced (a match
     on an unresolved `if` is turned into projections by `simp`/`dsimp`, which blows up exponentially), stores
     `*p ^= v` are folded into `xorAt`, and the per-word steps are strict (pattern matching) functions.
  1. `mzdCombineEvenInPlace_eq`   2. `mzdCombineEven_eq`   (scalar paths; nothing is required of the source matrices:
     reads outside a row give 0 in the memory image and in the model)
  3. `mzdReadBitsInt_eq` (`n ≤ 31`), `mzdReadBitsInt_32_counterexample` (the bound is sharp)
  4. `mzdProcessRows_eq` (= `mzdProcessRows_k1` + `mzdProcessRows_gen`), `mzdProcessRows_eq_contract`
-/
import M4ri.Gen.CFuns
import M4ri.Mzd
import M4ri.MulW
import M4riProofs.Basic
import M4riProofs.W.RowCol
import M4riProofs.GenTieMem
namespace M4ri.GenTieDuff
open M4ri M4ri.Gen M4ri.GenTieMem

/-- `n`-fold application -/
def iter {σ : Type} (S : σ → σ) : Nat → σ → σ
  | 0, s => s
  | n + 1, s => S (iter S n s)

scoped notation:max f "^[" n "]" => iter f n

/-! ### 0. Duff device -/

theorem iterate_add {σ : Type} (S : σ → σ) (a b : Nat) (s : σ) : S^[a] (S^[b] s) = S^[a + b] s := by
  induction a with
  | zero => simp [iter]
  | succ n ih =>
    show S (S^[n] (S^[b] s)) = S^[n + 1 + b] s
    rw [ih]
    have : n + 1 + b = (n + b) + 1 := by omega
    rw [this]
    rfl

theorem iterate_mul {σ : Type} (S : σ → σ) (a b : Nat) (s : σ) : (S^[a])^[b] s = S^[a * b] s := by
  induction b with
  | zero => rfl
  | succ n ih =>
    show S^[a] ((S^[a])^[n] s) = S^[a * (n + 1)] s
    rw [ih, iterate_add]
    congr 1
    rw [Nat.mul_succ]; omega

/-- The `while (--n > 0)` loop of a translated Duff device, seen through a view `f` of the loop state as
    (variables, counter): every pass applies `S8` and decrements the counter. -/
theorem duff_loop {τ σ : Type} (cond : τ → Bool) (body : τ → τ) (f : τ → σ × Int) (S8 : σ → σ)
    (hc : ∀ t, cond t = decide ((f t).2 > 0))
    (hb : ∀ t, f (body t) = (S8 (f t).1, (f t).2 - 1)) :
    ∀ (fuel : Nat) (t : τ), (f t).2.toNat ≤ fuel →
      (f (CLoop.loop fuel cond body t)).1 = S8^[(f t).2.toNat] (f t).1 := by
  intro fuel
  induction fuel with
  | zero =>
    intro t h
    have : (f t).2.toNat = 0 := by omega
    rw [this]; rfl
  | succ n ih =>
    intro t h
    rw [loop_succ, hc]
    by_cases hp : (f t).2 > 0
    · rw [if_pos (decide_eq_true hp)]
      have h1 := ih (body t) (by rw [hb]; dsimp only; omega)
      rw [h1, hb]
      dsimp only
      have : (f t).2.toNat = ((f t).2 - 1).toNat + 1 := by omega
      rw [this]
      exact iterate_add S8 _ 1 _
    · rw [if_neg (by rw [decide_eq_true_eq]; exact hp)]
      have : (f t).2.toNat = 0 := by omega
      rw [this]; rfl

/-- **Duff's device, relational form.**  The loop state `t` at the `while` is the state after a first pass of
    `j` statements from `s0` with counter `n`; then `n` full passes of 8 follow: `w = 8·n + j` applications
    of the per-word step `S` in all. -/
theorem duff_finish {τ σ : Type} {cond : τ → Bool} {body : τ → τ} {fuel : Nat} {t res : τ}
    (hres : CLoop.loop fuel cond body t = res) (f : τ → σ × Int) (S : σ → σ) (j : Nat) (s0 : σ) (n : Int)
    (w : Nat)
    (hc : ∀ t, cond t = decide ((f t).2 > 0))
    (hb : ∀ t, f (body t) = (S^[8] (f t).1, (f t).2 - 1))
    (ht : f t = (S^[j] s0, n))
    (hf : n.toNat ≤ fuel)
    (hw : 8 * n.toNat + j = w) :
    (f res).1 = S^[w] s0 := by
  subst hres
  rw [duff_loop cond body f (S^[8]) hc hb fuel t (by rw [ht]; exact hf), ht]
  dsimp only
  rw [iterate_mul, iterate_add, hw]

/-- `*p ^= v` -/
def xorAt (m : Int → Int → BitVec 64) (r i : Int) (v : BitVec 64) : Int → Int → BitVec 64 :=
  CLoop.upd2 m r i (m r i ^^^ v)

theorem xorAt_eq (m : Int → Int → BitVec 64) (r i : Int) (v : BitVec 64) :
    CLoop.upd2 m r i (m r i ^^^ v) = xorAt m r i v := rfl

theorem tdiv8 (w : Int) (h : 0 ≤ w) : Int.tdiv (w + 7) 8 = (w + 7) / 8 :=
  Int.tdiv_eq_ediv_of_nonneg (by omega)

theorem tmod8 (w : Int) (h : 0 ≤ w) : Int.tmod w 8 = w % 8 :=
  Int.tmod_eq_emod_of_nonneg h

theorem sel_cases (w : Int) (h : 0 ≤ w) :
    Int.tmod w 8 = 0 ∨ Int.tmod w 8 = 1 ∨ Int.tmod w 8 = 2 ∨ Int.tmod w 8 = 3 ∨ Int.tmod w 8 = 4 ∨
      Int.tmod w 8 = 5 ∨ Int.tmod w 8 = 6 ∨ Int.tmod w 8 = 7 := by
  rw [tmod8 w h]; omega

set_option hygiene false in
/-- one of the eight entry points of a translated Duff device: `hs` contains the value of the selector, `j` is the
    number of statements of the first pass; leaves `hd : (f res).1 = S^[w] s0` where `res` is the final loop state.
    Needs facts relating `Int.tdiv`/`Int.tmod` to `/`, `%` in the context (for `omega`). -/
macro "duff_case" "[" hs:Lean.Parser.Tactic.simpLemma,* "]" j:num f:term "," S:term "," s0:term "," w:term : tactic =>
  `(tactic| (
    simp (config := {iota := false}) only [$hs,*, Int.reduceEq, Int.reduceLE, Int.reduceLT, reduceIte, decide_true,
      decide_false, Bool.false_eq_true, eq_self, xorAt_eq]
    try dsimp only
    generalize hres : CLoop.loop _ _ _ _ = res
    have hd := duff_finish hres $f $S $j $s0 ?n $w ?hc ?hb ?ht ?hf ?hw
    case ht => rfl
    case hc => exact fun _ => rfl
    case hb => exact fun _ => rfl
    case hf => (try dsimp only); omega
    case hw => (try dsimp only); omega))

set_option hygiene false in
/-- all eight entry points: `wd` is the (non-negative) number of words, the selector is `Int.tmod wd 8` -/
macro "duff_all" "[" hs:Lean.Parser.Tactic.simpLemma,* "]" wd:term "," f:term "," S:term "," s0:term "," w:term : tactic =>
  `(tactic| (
    rcases sel_cases $wd (by omega) with h | h | h | h | h | h | h | h
    case' inl => duff_case [h, $hs,*] 8 $f, $S, $s0, $w
    case' inr.inl => duff_case [h, $hs,*] 1 $f, $S, $s0, $w
    case' inr.inr.inl => duff_case [h, $hs,*] 2 $f, $S, $s0, $w
    case' inr.inr.inr.inl => duff_case [h, $hs,*] 3 $f, $S, $s0, $w
    case' inr.inr.inr.inr.inl => duff_case [h, $hs,*] 4 $f, $S, $s0, $w
    case' inr.inr.inr.inr.inr.inl => duff_case [h, $hs,*] 5 $f, $S, $s0, $w
    case' inr.inr.inr.inr.inr.inr.inl => duff_case [h, $hs,*] 6 $f, $S, $s0, $w
    case' inr.inr.inr.inr.inr.inr.inr => duff_case [h, $hs,*] 7 $f, $S, $s0, $w))

set_option hygiene false in
/-- first half of `duff_case`: resolve the guards of the first pass for the selector value in `hs` -/
macro "duff_simp" "[" hs:Lean.Parser.Tactic.simpLemma,* "]" : tactic =>
  `(tactic| (
    simp (config := {iota := false}) only [$hs,*, Int.reduceEq, Int.reduceLE, Int.reduceLT, reduceIte, decide_true,
      decide_false, Bool.false_eq_true, eq_self, xorAt_eq]
    try dsimp only))

set_option hygiene false in
/-- second half of `duff_case` -/
macro "duff_fin" j:num f:term "," S:term "," s0:term "," w:term : tactic =>
  `(tactic| (
    generalize hres : CLoop.loop _ _ _ _ = res
    have hd := duff_finish hres $f $S $j $s0 ?n $w ?hc ?hb ?ht ?hf ?hw
    case ht => rfl
    case hc => exact fun _ => rfl
    case hb => exact fun _ => rfl
    case hf => (try dsimp only); omega
    case hw => (try dsimp only); omega))

set_option hygiene false in
macro "duff_simp_all" "[" hs:Lean.Parser.Tactic.simpLemma,* "]" wd:term : tactic =>
  `(tactic| (
    rcases sel_cases $wd (by omega) with h | h | h | h | h | h | h | h
    case' inl => duff_simp [h, $hs,*]
    case' inr.inl => duff_simp [h, $hs,*]
    case' inr.inr.inl => duff_simp [h, $hs,*]
    case' inr.inr.inr.inl => duff_simp [h, $hs,*]
    case' inr.inr.inr.inr.inl => duff_simp [h, $hs,*]
    case' inr.inr.inr.inr.inr.inl => duff_simp [h, $hs,*]
    case' inr.inr.inr.inr.inr.inr.inl => duff_simp [h, $hs,*]
    case' inr.inr.inr.inr.inr.inr.inr => duff_simp [h, $hs,*]))

set_option hygiene false in
macro "duff_fin_all" f:term "," S:term "," s0:term "," w:term : tactic =>
  `(tactic| (
    case' inl => duff_fin 8 $f, $S, $s0, $w
    case' inr.inl => duff_fin 1 $f, $S, $s0, $w
    case' inr.inr.inl => duff_fin 2 $f, $S, $s0, $w
    case' inr.inr.inr.inl => duff_fin 3 $f, $S, $s0, $w
    case' inr.inr.inr.inr.inl => duff_fin 4 $f, $S, $s0, $w
    case' inr.inr.inr.inr.inr.inl => duff_fin 5 $f, $S, $s0, $w
    case' inr.inr.inr.inr.inr.inr.inl => duff_fin 6 $f, $S, $s0, $w
    case' inr.inr.inr.inr.inr.inr.inr => duff_fin 7 $f, $S, $s0, $w))

/-! ### 0'. The translation scheme on an abstract state

`duff S entry count fuel s` is the translator's rendering of
`n = count; switch (entry) { case 0: do { S; case 7: S; … case 1: S; } while (--n > 0); }`
over an abstract state `σ` (the position of the matching label, the first pass with every statement guarded by
"at or after the entry position", then — if some label matched — `n := n - 1; while (n > 0) { S×8; n := n - 1 }`). -/

def duffPos (sel : Int) : Int :=
  if sel = 0 then 0 else if sel = 7 then 1 else if sel = 6 then 2 else if sel = 5 then 3 else
  if sel = 4 then 4 else if sel = 3 then 5 else if sel = 2 then 6 else if sel = 1 then 7 else 8

def duff {σ : Type} (S : σ → σ) (entry count : Int) (fuel : Nat) (s : σ) : σ :=
  let sw_pos := duffPos entry
  let s := if decide (sw_pos ≤ 0) then S s else s
  let s := if decide (sw_pos ≤ 1) then S s else s
  let s := if decide (sw_pos ≤ 2) then S s else s
  let s := if decide (sw_pos ≤ 3) then S s else s
  let s := if decide (sw_pos ≤ 4) then S s else s
  let s := if decide (sw_pos ≤ 5) then S s else s
  let s := if decide (sw_pos ≤ 6) then S s else s
  let s := if decide (sw_pos ≤ 7) then S s else s
  if decide (sw_pos < 8) then
    (CLoop.loop fuel (fun st : σ × Int => decide (st.2 > 0))
      (fun st => (S (S (S (S (S (S (S (S st.1))))))), st.2 - 1)) (s, count - 1)).1
  else s

/-- **Duff's device**: for `wide ≥ 1`, entering at `wide % 8` and running `(wide + 7) / 8` passes applies the
    per-word step exactly `wide` times. -/
theorem duff_eq {σ : Type} (S : σ → σ) (wide : Int) (hw : 1 ≤ wide) (fuel : Nat)
    (hf : (Int.tdiv (wide + 7) 8 - 1).toNat ≤ fuel) (s : σ) :
    duff S (Int.tmod wide 8) (Int.tdiv (wide + 7) 8) fuel s = S^[wide.toNat] s := by
  have h8 := tdiv8 wide (by omega)
  have hm8 := tmod8 wide (by omega)
  duff_all [duff, duffPos] wide, (fun t : σ × Int => t), S, s, wide.toNat
  all_goals exact hd

/-- Without a guard (`mzd_process_rows`), `wide = 0` enters at `case 0` and runs ONE full pass of 8 statements
    (`count = 0`, `--n > 0` fails): eight words are processed although none should be.  The same happens for any
    `wide ≤ 0` that is a multiple of 8. -/
theorem duff_nonpos_mult8 {σ : Type} (S : σ → σ) (wide : Int) (hw : wide ≤ 0) (h8 : Int.tmod wide 8 = 0)
    (fuel : Nat) (s : σ) :
    duff S (Int.tmod wide 8) (Int.tdiv (wide + 7) 8) fuel s = S^[8] s := by
  have hc : Int.tdiv (wide + 7) 8 - 1 ≤ 0 := by
    have hm := Int.mul_tdiv_add_tmod wide 8
    by_cases h0 : wide = 0
    · subst h0; decide
    · have e : wide + 7 = -(-(wide + 7)) := by omega
      rw [e, Int.neg_tdiv, Int.tdiv_eq_ediv_of_nonneg (by omega)]
      omega
  simp only [duff, duffPos, h8, if_true, Int.reduceLE, Int.reduceLT, decide_true]
  rw [loop_of_false _ _ _ _ (by simp only [decide_eq_false_iff_not]; omega)]
  rfl

theorem duff_zero {σ : Type} (S : σ → σ) (fuel : Nat) (s : σ) :
    duff S (Int.tmod 0 8) (Int.tdiv (0 + 7) 8) fuel s = S^[8] s :=
  duff_nonpos_mult8 S 0 (by omega) rfl fuel s

/-- For `wide < 0` not a multiple of 8 the selector `wide % 8` (C: truncated) is negative, no label matches and
    nothing runs. -/
theorem duff_neg {σ : Type} (S : σ → σ) (wide : Int) (h8 : Int.tmod wide 8 < 0) (fuel : Nat) (s : σ) :
    duff S (Int.tmod wide 8) (Int.tdiv (wide + 7) 8) fuel s = s := by
  have h0 : ¬ Int.tmod wide 8 = 0 := by omega
  have h1 : ¬ Int.tmod wide 8 = 1 := by omega
  have h2 : ¬ Int.tmod wide 8 = 2 := by omega
  have h3 : ¬ Int.tmod wide 8 = 3 := by omega
  have h4 : ¬ Int.tmod wide 8 = 4 := by omega
  have h5 : ¬ Int.tmod wide 8 = 5 := by omega
  have h6 : ¬ Int.tmod wide 8 = 6 := by omega
  have h7 : ¬ Int.tmod wide 8 = 7 := by omega
  simp only [duff, duffPos, h0, h1, h2, h3, h4, h5, h6, h7, if_false, Int.reduceLE, Int.reduceLT, decide_false,
    Bool.false_eq_true]

/-- memory `m` with the words `lo .. lo+j-1` of row `row` XOR-ed with `src (i + d)` -/
def xorMem (m : Int → Int → BitVec 64) (src : Int → BitVec 64) (row lo d : Int) (j : Nat) :
    Int → Int → BitVec 64 :=
  fun r i => if r = row ∧ lo ≤ i ∧ i < lo + (j : Int) then m r i ^^^ src (i + d) else m r i

theorem xorMem_zero (m : Int → Int → BitVec 64) (src : Int → BitVec 64) (row lo d : Int) :
    xorMem m src row lo d 0 = m := by
  funext r i
  unfold xorMem
  rw [if_neg (by omega)]

theorem xorMem_succ (m : Int → Int → BitVec 64) (src : Int → BitVec 64) (row lo d : Int) (j : Nat) :
    xorAt (xorMem m src row lo d j) row (lo + (j : Int)) (src (lo + (j : Int) + d)) =
      xorMem m src row lo d (j + 1) := by
  funext r i
  simp only [xorAt, upd2_apply, xorMem]
  by_cases hr : r = row
  · subst hr
    by_cases hi : i = lo + (j : Int)
    · subst hi
      ifs_omega
    · repeat' split
      all_goals first | rfl | (exfalso; omega)
  · ifs_omega

/-- per-word step of `mzd_combine_even_in_place`: variables `(mem_A, a, b)` -/
def stepCEIP (mB : Int → Int → BitVec 64) (arow brow : Int) :
    (Int → Int → BitVec 64) × Int × Int → (Int → Int → BitVec 64) × Int × Int
  | (m, a, b) => (xorAt m arow a (mB brow b), a + 1, b + 1)

theorem stepCEIP_iter (mB : Int → Int → BitVec 64) (arow brow : Int) (m : Int → Int → BitVec 64) (a b : Int)
    (j : Nat) :
    (stepCEIP mB arow brow)^[j] (m, a, b) =
      (xorMem m (mB brow) arow a (b - a) j, a + (j : Int), b + (j : Int)) := by
  induction j with
  | zero => simp [iter, xorMem_zero]
  | succ n ih =>
    show stepCEIP mB arow brow ((stepCEIP mB arow brow)^[n] (m, a, b)) = _
    rw [ih]
    show (xorAt _ _ _ _, _, _) = _
    have e : b + (n : Int) = a + (n : Int) + (b - a) := by omega
    rw [e, xorMem_succ]
    refine Prod.ext rfl (Prod.ext ?_ ?_) <;> dsimp only <;> omega

theorem mzdCombineEvenInPlace_eq (A B : Mzd) (a_row a_startblock b_row b_startblock : Nat)
    (hwf : A.WF) (ha : a_row < A.nrows) (hsb : a_startblock < A.width) :
    Gen.C.mzdCombineEvenInPlace a_row a_startblock b_row b_startblock (memOf A) A.width (memOf B) A.hb =
      memOf (A.setRow a_row (Mzd.combineEvenInPlaceWords (A.row a_row) (B.row b_row) a_startblock b_startblock
        A.width A.hb)) := by
  have hsz : (A.row a_row).size = A.width := hwf.2 a_row ha
  obtain ⟨wN, hwN⟩ : ∃ wN : Nat, wN = A.width - a_startblock - 1 := ⟨_, rfl⟩
  have hwide : (A.width : Int) - (a_startblock : Int) - 1 = (wN : Int) := by omega
  -- the last word, after the `wide` whole words
  have final : xorAt (xorMem (memOf A) (memOf B b_row) a_row ((0 : Int) + a_startblock)
        ((0 : Int) + b_startblock - ((0 : Int) + a_startblock)) wN) a_row ((0 : Int) + a_startblock + wN)
        (memOf B b_row ((0 : Int) + b_startblock + wN) &&& A.hb) =
      memOf (A.setRow a_row (Mzd.combineEvenInPlaceWords (A.row a_row) (B.row b_row) a_startblock b_startblock
        A.width A.hb)) := by
    have eB1 : memOf B b_row ((0 : Int) + b_startblock + wN) = (B.row b_row).w (b_startblock + wN) :=
      memOf_nat' B b_row _ _ (by omega)
    have eA1 : memOf A a_row ((0 : Int) + a_startblock + wN) = (A.row a_row).w (a_startblock + wN) :=
      memOf_nat' A a_row _ _ (by omega)
    have eB2 : ∀ k : Nat, a_startblock ≤ k →
        memOf B b_row ((k : Int) + ((0 : Int) + b_startblock - ((0 : Int) + a_startblock))) =
          (B.row b_row).w (k - a_startblock + b_startblock) :=
      fun k hk => memOf_nat' B b_row _ _ (by omega)
    apply eq_memOf_setRow _ _ _ (by rw [hwf.1]; exact ha)
    · intro k
      simp only [xorAt, upd2_apply, xorMem, Mzd.combineEvenInPlaceWords, Row.w_mapIdx', hsz, memOf_nat, true_and,
        eB1, eA1]
      by_cases hk : k < A.width
      · by_cases hk1 : k + 1 = A.width
        · have e : k - a_startblock + b_startblock = b_startblock + wN := by omega
          have e2 : a_startblock + wN = k := by omega
          rw [e, e2]
          ifs_omega
        · by_cases hk2 : k < a_startblock
          · ifs_omega
          · rw [eB2 k (by omega)]
            ifs_omega
      · rw [Row.w_of_ge (A.row a_row) k (by omega)]
        ifs_omega
    · intro z hz
      simp only [xorAt, upd2_apply, xorMem, true_and]
      rw [if_neg (by omega), if_neg (by omega), memOf_neg _ _ _ hz]
    · intro r' i' hr
      simp only [xorAt, upd2_apply, xorMem]
      rw [if_neg (by omega), if_neg (by omega)]
  unfold Gen.C.mzdCombineEvenInPlace
  rw [hwide]
  by_cases hw0 : (wN : Int) > 0
  · have h8 := tdiv8 wN (by omega)
    have hm8 := tmod8 wN (by omega)
    duff_all [hw0] (wN : Int), (fun t => ((t.1, t.2.1, t.2.2.1), t.2.2.2)), (stepCEIP (memOf B) a_row b_row),
      (memOf A, (0 : Int) + a_startblock, (0 : Int) + b_startblock), wN
    all_goals
      rw [stepCEIP_iter] at hd
      obtain ⟨m, a, b, n⟩ := res
      simp only [Prod.mk.injEq] at hd
      obtain ⟨h1, h2, h3⟩ := hd
      subst h1 h2 h3
      exact final
  · have hw : wN = 0 := by omega
    simp (config := {iota := false}) only [hw0, decide_false, Bool.false_eq_true, reduceIte, xorAt_eq]
    dsimp only
    subst hw
    rw [xorMem_zero] at final
    simpa using final

/-! ### 2. `mzd_combine_even` -/

/-- memory `m` with the words `lo .. lo+j-1` of row `row` overwritten by `src` -/
def setMem (m : Int → Int → BitVec 64) (src : Int → BitVec 64) (row lo : Int) (j : Nat) :
    Int → Int → BitVec 64 :=
  fun r i => if r = row ∧ lo ≤ i ∧ i < lo + (j : Int) then src i else m r i

theorem setMem_zero (m : Int → Int → BitVec 64) (src : Int → BitVec 64) (row lo : Int) :
    setMem m src row lo 0 = m := by
  funext r i
  unfold setMem
  rw [if_neg (by omega)]

theorem setMem_succ (m : Int → Int → BitVec 64) (src : Int → BitVec 64) (row lo : Int) (j : Nat) (v : BitVec 64)
    (hv : v = src (lo + (j : Int))) :
    CLoop.upd2 (setMem m src row lo j) row (lo + (j : Int)) v = setMem m src row lo (j + 1) := by
  subst hv
  funext r i
  simp only [upd2_apply, setMem]
  by_cases hr : r = row
  · subst hr
    by_cases hi : i = lo + (j : Int)
    · subst hi
      ifs_omega
    · repeat' split
      all_goals first | rfl | (exfalso; omega)
  · ifs_omega

/-- per-word step of `mzd_combine_even`: variables `(mem_C, c, a, b)` -/
def stepCE (mA mB : Int → Int → BitVec 64) (crow arow brow : Int) :
    (Int → Int → BitVec 64) × Int × Int × Int → (Int → Int → BitVec 64) × Int × Int × Int
  | (m, c, a, b) => (CLoop.upd2 m crow c (mA arow a ^^^ mB brow b), c + 1, a + 1, b + 1)

theorem stepCE_iter (mA mB : Int → Int → BitVec 64) (crow arow brow : Int) (m : Int → Int → BitVec 64)
    (c a b : Int) (j : Nat) :
    (stepCE mA mB crow arow brow)^[j] (m, c, a, b) =
      (setMem m (fun i => mA arow (i + (a - c)) ^^^ mB brow (i + (b - c))) crow c j,
        c + (j : Int), a + (j : Int), b + (j : Int)) := by
  induction j with
  | zero => simp [iter, setMem_zero]
  | succ n ih =>
    show stepCE mA mB crow arow brow ((stepCE mA mB crow arow brow)^[n] (m, c, a, b)) = _
    rw [ih]
    show (CLoop.upd2 _ _ _ _, _, _, _) = _
    rw [setMem_succ _ _ _ _ _ _ (by
      show _ = _ ^^^ _
      have e1 : c + (n : Int) + (a - c) = a + (n : Int) := by omega
      have e2 : c + (n : Int) + (b - c) = b + (n : Int) := by omega
      rw [e1, e2])]
    refine Prod.ext rfl (Prod.ext ?_ (Prod.ext ?_ ?_)) <;> dsimp only <;> omega

theorem xor_merge_r' (w x m : Word) : w ^^^ ((x ^^^ w) &&& m) = merge w x m := by
  unfold merge; rw [BitVec.xor_comm x w]

/-- `mzd_combine_even` (scalar path).  Nothing is required of `A`, `B`: reads outside a row give 0 on both sides. -/
theorem mzdCombineEven_eq (C A B : Mzd) (c_row c_startblock a_row a_startblock b_row b_startblock : Nat)
    (hwf : C.WF) (hc : c_row < C.nrows) (hsb : a_startblock < A.width)
    (hfit : c_startblock + (A.width - a_startblock) ≤ C.width) :
    Gen.C.mzdCombineEven c_row c_startblock a_row a_startblock b_row b_startblock (memOf C) A.width (memOf A)
        (memOf B) C.hb =
      memOf (C.setRow c_row (Mzd.combineEvenWords (C.row c_row) (A.row a_row) (B.row b_row) c_startblock
        a_startblock b_startblock A.width C.hb)) := by
  have hsz : (C.row c_row).size = C.width := hwf.2 c_row hc
  obtain ⟨wN, hwN⟩ : ∃ wN : Nat, wN = A.width - a_startblock - 1 := ⟨_, rfl⟩
  have hwide : (A.width : Int) - (a_startblock : Int) - 1 = (wN : Int) := by omega
  -- the last word, after the `wide` whole words
  have final : xorAt (setMem (memOf C) (fun i => memOf A a_row (i + ((0 : Int) + a_startblock - ((0 : Int) + c_startblock))) ^^^
          memOf B b_row (i + ((0 : Int) + b_startblock - ((0 : Int) + c_startblock)))) c_row
          ((0 : Int) + c_startblock) wN) c_row ((0 : Int) + c_startblock + wN)
        (((memOf A a_row ((0 : Int) + a_startblock + wN) ^^^ memOf B b_row ((0 : Int) + b_startblock + wN)) ^^^
          setMem (memOf C) (fun i => memOf A a_row (i + ((0 : Int) + a_startblock - ((0 : Int) + c_startblock))) ^^^
          memOf B b_row (i + ((0 : Int) + b_startblock - ((0 : Int) + c_startblock)))) c_row
          ((0 : Int) + c_startblock) wN c_row ((0 : Int) + c_startblock + wN)) &&& C.hb) =
      memOf (C.setRow c_row (Mzd.combineEvenWords (C.row c_row) (A.row a_row) (B.row b_row) c_startblock
        a_startblock b_startblock A.width C.hb)) := by
    have eA1 : memOf A a_row ((0 : Int) + a_startblock + wN) = (A.row a_row).w (a_startblock + wN) :=
      memOf_nat' A a_row _ _ (by omega)
    have eB1 : memOf B b_row ((0 : Int) + b_startblock + wN) = (B.row b_row).w (b_startblock + wN) :=
      memOf_nat' B b_row _ _ (by omega)
    have eC1 : memOf C c_row ((0 : Int) + c_startblock + wN) = (C.row c_row).w (c_startblock + wN) :=
      memOf_nat' C c_row _ _ (by omega)
    have eA2 : ∀ k : Nat, c_startblock ≤ k →
        memOf A a_row ((k : Int) + ((0 : Int) + a_startblock - ((0 : Int) + c_startblock))) =
          (A.row a_row).w (k - c_startblock + a_startblock) :=
      fun k hk => memOf_nat' A a_row _ _ (by omega)
    have eB2 : ∀ k : Nat, c_startblock ≤ k →
        memOf B b_row ((k : Int) + ((0 : Int) + b_startblock - ((0 : Int) + c_startblock))) =
          (B.row b_row).w (k - c_startblock + b_startblock) :=
      fun k hk => memOf_nat' B b_row _ _ (by omega)
    apply eq_memOf_setRow _ _ _ (by rw [hwf.1]; exact hc)
    · intro k
      simp only [xorAt, upd2_apply, setMem, Mzd.combineEvenWords, Row.w_mapIdx', hsz, memOf_nat, true_and,
        eA1, eB1, eC1, xor_merge_r']
      by_cases hk : k < C.width
      · by_cases hk1 : k = c_startblock + wN
        · have e1 : k - c_startblock + a_startblock = a_startblock + wN := by omega
          have e2 : k - c_startblock + b_startblock = b_startblock + wN := by omega
          rw [e1, e2, ← hk1]
          ifs_omega
        · by_cases hk2 : k < c_startblock
          · ifs_omega
          · by_cases hk3 : k < c_startblock + wN
            · rw [eA2 k (by omega), eB2 k (by omega)]
              ifs_omega
            · ifs_omega
      · rw [Row.w_of_ge (C.row c_row) k (by omega)]
        ifs_omega
    · intro z hz
      simp only [xorAt, upd2_apply, setMem, true_and]
      rw [if_neg (by omega), if_neg (by omega), memOf_neg _ _ _ hz]
    · intro r' i' hr
      simp only [xorAt, upd2_apply, setMem]
      rw [if_neg (by omega), if_neg (by omega)]
  unfold Gen.C.mzdCombineEven
  rw [hwide]
  by_cases hw0 : (wN : Int) > 0
  · have h8 := tdiv8 wN (by omega)
    have hm8 := tmod8 wN (by omega)
    duff_all [hw0] (wN : Int), (fun t => ((t.1, t.2.1, t.2.2.1, t.2.2.2.1), t.2.2.2.2)),
      (stepCE (memOf A) (memOf B) c_row a_row b_row),
      (memOf C, (0 : Int) + c_startblock, (0 : Int) + a_startblock, (0 : Int) + b_startblock), wN
    all_goals
      rw [stepCE_iter] at hd
      obtain ⟨m, c, a, b, n⟩ := res
      simp only [Prod.mk.injEq] at hd
      obtain ⟨h1, h2, h3, h4⟩ := hd
      subst h1 h2 h3 h4
      exact final
  · have hw : wN = 0 := by omega
    simp (config := {iota := false}) only [hw0, decide_false, Bool.false_eq_true, reduceIte, xorAt_eq]
    dsimp only
    subst hw
    rw [setMem_zero] at final
    simpa using final

/-! ### 3. `mzd_read_bits_int` -/

theorem readBitsRow_lt (r : Row) (y n : Nat) (hn : n ≤ 64) : (Mzd.readBitsRow r y n).toNat < 2 ^ n := by
  unfold Mzd.readBitsRow
  dsimp only
  rw [BitVec.toNat_ushiftRight, Nat.shiftRight_eq_div_pow]
  apply Nat.div_lt_of_lt_mul
  rw [← Nat.pow_add]
  have : 64 - n + n = 64 := by omega
  rw [this]
  exact BitVec.isLt _

theorem toInt_setWidth32 (v : BitVec 64) (h : v.toNat < 2 ^ 31) :
    BitVec.toInt (BitVec.setWidth 32 v) = (v.toNat : Int) := by
  have h1 : (BitVec.setWidth 32 v).toNat = v.toNat := by
    rw [BitVec.toNat_setWidth]
    exact Nat.mod_eq_of_lt (by omega)
  rw [BitVec.toInt_eq_toNat_cond, h1]
  rw [if_pos (by omega)]

/-- `mzd_read_bits_int`: the conversion `(int)mzd_read_bits(M, x, y, n)` preserves the value for `n ≤ 31`
    (no lower bound on `n` and no range hypothesis are needed). -/
theorem mzdReadBitsInt_eq (M : Mzd) (x y n : Nat) (hn' : n ≤ 31) :
    Gen.C.mzdReadBitsInt x y n (memOf M) = ((M.readBits x y n).toNat : Int) := by
  unfold Gen.C.mzdReadBitsInt
  rw [mzdReadBits_eq']
  apply toInt_setWidth32
  have := readBitsRow_lt (M.row x) y n (by omega)
  have h2 : 2 ^ n ≤ 2 ^ 31 := Nat.pow_le_pow_right (by omega) hn'
  unfold Mzd.readBits
  omega

/-- the bound is sharp: for `n = 32` the conversion to `int` wraps (C: implementation-defined) -/
theorem mzdReadBitsInt_32_counterexample :
    ∃ M : Mzd, M.WF ∧ Gen.C.mzdReadBitsInt (0 : Nat) (0 : Nat) (32 : Nat) (memOf M) ≠
      ((M.readBits 0 0 32).toNat : Int) := by
  refine ⟨⟨1, 64, #[#[0xFFFFFFFF#64]]⟩, ⟨rfl, ?_⟩, ?_⟩
  · intro i hi
    have : i = 0 := by simp at hi; omega
    subst this; rfl
  · unfold Gen.C.mzdReadBitsInt
    rw [mzdReadBits_eq']
    decide

/-! ### 4. `mzd_process_rows` -/

theorem xorAt_xorMem_comm (m : Int → Int → BitVec 64) (src : Int → BitVec 64) (row lo d : Int) (j : Nat)
    (r' p : Int) (v : BitVec 64) (h : r' ≠ row) :
    xorAt (xorMem m src row lo d j) r' p v = xorMem (xorAt m r' p v) src row lo d j := by
  funext r i
  simp only [xorAt, upd2_apply, xorMem]
  by_cases hr : r = r'
  · subst hr
    have hrow : ¬ (r = row) := h
    simp only [hrow, false_and, if_false]
  · simp only [hr, false_and, if_false]

/-- per-word step of the row-pair device of the general path: variables `(mem_M, m0, t0, m1, t1)` -/
def stepPair (mT : Int → Int → BitVec 64) (r0 x0 r1 x1 : Int) :
    (Int → Int → BitVec 64) × Int × Int × Int × Int → (Int → Int → BitVec 64) × Int × Int × Int × Int
  | (m, a0, b0, a1, b1) => (xorAt (xorAt m r0 a0 (mT x0 b0)) r1 a1 (mT x1 b1), a0 + 1, b0 + 1, a1 + 1, b1 + 1)

theorem stepPair_iter (mT : Int → Int → BitVec 64) (r0 x0 r1 x1 : Int) (hne : r0 ≠ r1)
    (m : Int → Int → BitVec 64) (a0 b0 a1 b1 : Int) (j : Nat) :
    (stepPair mT r0 x0 r1 x1)^[j] (m, a0, b0, a1, b1) =
      (xorMem (xorMem m (mT x0) r0 a0 (b0 - a0) j) (mT x1) r1 a1 (b1 - a1) j,
        a0 + (j : Int), b0 + (j : Int), a1 + (j : Int), b1 + (j : Int)) := by
  induction j with
  | zero => simp [iter, xorMem_zero]
  | succ n ih =>
    show stepPair mT r0 x0 r1 x1 ((stepPair mT r0 x0 r1 x1)^[n] (m, a0, b0, a1, b1)) = _
    rw [ih]
    show (xorAt (xorAt _ _ _ _) _ _ _, _, _, _, _) = _
    have e0 : b0 + (n : Int) = a0 + (n : Int) + (b0 - a0) := by omega
    have e1 : b1 + (n : Int) = a1 + (n : Int) + (b1 - a1) := by omega
    rw [xorAt_xorMem_comm _ _ _ _ _ _ _ _ _ hne, e0, xorMem_succ, e1, xorMem_succ]
    refine Prod.ext rfl (Prod.ext ?_ (Prod.ext ?_ (Prod.ext ?_ ?_))) <;> dsimp only <;> omega

/-- per-word step of the row-pair device of the `k = 1` path (both rows take table row `x`):
    variables `(mem_M, m0, m1, t)` -/
def stepPair1 (mT : Int → Int → BitVec 64) (r0 r1 x : Int) :
    (Int → Int → BitVec 64) × Int × Int × Int → (Int → Int → BitVec 64) × Int × Int × Int
  | (m, a0, a1, b) => (xorAt (xorAt m r0 a0 (mT x b)) r1 a1 (mT x b), a0 + 1, a1 + 1, b + 1)

theorem stepPair1_iter (mT : Int → Int → BitVec 64) (r0 r1 x : Int) (hne : r0 ≠ r1)
    (m : Int → Int → BitVec 64) (a0 a1 b : Int) (j : Nat) :
    (stepPair1 mT r0 r1 x)^[j] (m, a0, a1, b) =
      (xorMem (xorMem m (mT x) r0 a0 (b - a0) j) (mT x) r1 a1 (b - a1) j,
        a0 + (j : Int), a1 + (j : Int), b + (j : Int)) := by
  induction j with
  | zero => simp [iter, xorMem_zero]
  | succ n ih =>
    show stepPair1 mT r0 r1 x ((stepPair1 mT r0 r1 x)^[n] (m, a0, a1, b)) = _
    rw [ih]
    show (xorAt (xorAt _ _ _ _) _ _ _, _, _, _) = _
    have e0 : b + (n : Int) = a0 + (n : Int) + (b - a0) := by omega
    have e1 : b + (n : Int) = a1 + (n : Int) + (b - a1) := by omega
    rw [xorAt_xorMem_comm _ _ _ _ _ _ _ _ _ hne]
    conv => lhs; arg 1; arg 1; rw [e0, xorMem_succ]
    rw [e1, xorMem_succ]
    refine Prod.ext rfl (Prod.ext ?_ (Prod.ext ?_ ?_)) <;> dsimp only <;> omega

/-- the words added to row `r` by `mzd_process_rows` (zero: nothing is added) -/
def selW (M T : Mzd) (startrow stoprow startcol k : Nat) (L : Array Nat) (r : Nat) : Int → BitVec 64 :=
  match Mzd.W.processRowsSel (M.row r) r startrow stoprow startcol k L with
  | some x => memOf T (x : Int)
  | none => fun _ => 0#64

/-- memory image of `M` with the rows `lo ≤ r < hi` processed -/
def procMem (M : Mzd) (sw : Nat → Int → BitVec 64) (lo hi : Int) (blk : Nat) : Int → Int → BitVec 64 :=
  fun r i => if lo ≤ r ∧ r < hi ∧ (blk : Int) ≤ i ∧ i < (M.width : Int) then memOf M r i ^^^ sw r.toNat i
    else memOf M r i

theorem memOf_processRowsW (M T : Mzd) (startrow stoprow startcol k : Nat) (L : Array Nat) (hwf : M.WF)
    (hstop : stoprow ≤ M.nrows) :
    memOf (Mzd.W.processRowsW M startrow stoprow startcol k T L) =
      procMem M (selW M T startrow stoprow startcol k L) startrow stoprow (startcol / 64) := by
  funext r i
  unfold procMem
  by_cases hneg : r < 0 ∨ i < 0
  · have h1 : memOf (Mzd.W.processRowsW M startrow stoprow startcol k T L) r i = 0 := by
      unfold memOf; rw [if_pos hneg]
    have h2 : memOf M r i = 0 := by unfold memOf; rw [if_pos hneg]
    rw [h1, h2, if_neg (by omega)]
  · obtain ⟨rn, hrn⟩ : ∃ rn : Nat, r = (rn : Int) := ⟨r.toNat, by omega⟩
    obtain ⟨n, hn⟩ : ∃ n : Nat, i = (n : Int) := ⟨i.toNat, by omega⟩
    subst hrn hn
    rw [memOf_nat, memOf_nat, Int.toNat_natCast]
    unfold Mzd.W.processRowsW
    by_cases hr : rn < M.nrows
    · have hsz : (M.row rn).size = M.width := hwf.2 rn hr
      rw [Mzd.row_withRows_mapIdx _ _ _ (by rw [hwf.1]; exact hr)]
      by_cases hin : startrow ≤ rn ∧ rn < stoprow
      · rw [if_pos hin]
        unfold selW
        cases Mzd.W.processRowsSel (M.row rn) rn startrow stoprow startcol k L with
        | none =>
          dsimp only
          rw [BitVec.xor_zero]
          split <;> rfl
        | some x =>
          dsimp only
          unfold Mzd.W.xorWordsFrom
          rw [Row.w_mapIdx', memOf_nat, hsz]
          by_cases hn : n < M.width
          · by_cases hb : n < startcol / 64
            · ifs_omega
            · ifs_omega
          · rw [Row.w_of_ge (M.row rn) n (by omega)]
            ifs_omega
      · rw [if_neg hin, if_neg (by omega)]
    · rw [Mzd.row_of_ge _ _ (by simp [hwf.1]; omega), Mzd.row_of_ge M _ (by rw [hwf.1]; omega), if_neg (by omega)]

theorem procMem_step (M : Mzd) (sw : Nat → Int → BitVec 64) (lo : Int) (blk wN : Nat) (hw : blk + wN = M.width)
    (r : Int) (hlo : lo ≤ r) (src : Int → BitVec 64) (d : Int) (hsrc : ∀ i, src (i + d) = sw r.toNat i) :
    xorMem (procMem M sw lo r blk) src r blk d wN = procMem M sw lo (r + 1) blk := by
  funext r' i
  simp only [xorMem, procMem]
  by_cases hr : r' = r
  · subst hr
    by_cases hi : (blk : Int) ≤ i ∧ i < (M.width : Int)
    · rw [if_pos (by omega), if_neg (by omega), if_pos (by omega), hsrc]
    · rw [if_neg (by omega), if_neg (by omega), if_neg (by omega)]
  · rw [if_neg (by omega)]
    by_cases hr2 : lo ≤ r' ∧ r' < r
    · by_cases hi : (blk : Int) ≤ i ∧ i < (M.width : Int)
      · rw [if_pos (by omega), if_pos (by omega)]
      · rw [if_neg (by omega), if_neg (by omega)]
    · rw [if_neg (by omega), if_neg (by omega)]

theorem procMem_skip (M : Mzd) (sw : Nat → Int → BitVec 64) (lo : Int) (blk : Nat)
    (r : Int) (hlo : lo ≤ r) (hsw : sw r.toNat = fun _ => 0#64) :
    procMem M sw lo r blk = procMem M sw lo (r + 1) blk := by
  funext r' i
  simp only [procMem]
  by_cases hr : r' = r
  · subst hr
    rw [if_neg (by omega), hsw]
    dsimp only
    rw [BitVec.xor_zero]
    split <;> rfl
  · by_cases hr2 : lo ≤ r' ∧ r' < r
    · by_cases hi : (blk : Int) ≤ i ∧ i < (M.width : Int)
      · rw [if_pos (by omega), if_pos (by omega)]
      · rw [if_neg (by omega), if_neg (by omega)]
    · rw [if_neg (by omega), if_neg (by omega)]

theorem procMem_row (M : Mzd) (sw : Nat → Int → BitVec 64) (lo hi : Int) (blk : Nat) (r i : Int) (h : hi ≤ r) :
    procMem M sw lo hi blk r i = memOf M r i := by
  unfold procMem
  rw [if_neg (by omega)]

theorem procMem_zero (M : Mzd) (sw : Nat → Int → BitVec 64) (lo hi : Int) (blk : Nat) (h : hi ≤ lo) :
    procMem M sw lo hi blk = memOf M := by
  funext r i
  unfold procMem
  rw [if_neg (by omega)]

theorem procMem_step' (M : Mzd) (sw : Nat → Int → BitVec 64) (lo : Int) (blk wN : Nat) (hw : blk + wN = M.width)
    (r : Int) (hlo : lo ≤ r) (src : Int → BitVec 64) (d : Int) (hsrc : ∀ i, src (i + d) = sw r.toNat i)
    (r0 r1 lo0 : Int) (hr0 : r0 = r) (hr1 : r1 = r + 1) (hl0 : lo0 = blk) :
    xorMem (procMem M sw lo r blk) src r0 lo0 d wN = procMem M sw lo r1 blk := by
  subst hr0 hr1 hl0
  exact procMem_step M sw lo blk wN hw r0 hlo src d hsrc

theorem procMem_step2 (M : Mzd) (sw : Nat → Int → BitVec 64) (lo : Int) (blk wN : Nat) (hw : blk + wN = M.width)
    (r : Int) (hlo : lo ≤ r) (src0 src1 : Int → BitVec 64) (d0 d1 : Int)
    (hs0 : ∀ i, src0 (i + d0) = sw r.toNat i) (hs1 : ∀ i, src1 (i + d1) = sw (r + 1).toNat i)
    (r0 r1 r2 lo0 lo1 : Int) (hr0 : r0 = r) (hr1 : r1 = r + 1) (hr2 : r2 = r + 2) (hl0 : lo0 = blk)
    (hl1 : lo1 = blk) :
    xorMem (xorMem (procMem M sw lo r blk) src0 r0 lo0 d0 wN) src1 r1 lo1 d1 wN = procMem M sw lo r2 blk := by
  subst hr0 hr1 hr2 hl0 hl1
  rw [procMem_step M sw lo blk wN hw r0 hlo src0 d0 hs0,
    procMem_step M sw lo blk wN hw (r0 + 1) (by omega) src1 d1 hs1]
  congr 1
  omega

/-- `mzd_read_bits_int` only looks at row `x` -/
theorem readBitsInt_congr (x y n : Int) (m m' : Int → Int → BitVec 64) (h : ∀ i, m x i = m' x i) :
    Gen.C.mzdReadBitsInt x y n m = Gen.C.mzdReadBitsInt x y n m' := by
  unfold Gen.C.mzdReadBitsInt Gen.C.mzdReadBits
  simp only [h]

theorem one_shl_ne_zero (s : Nat) (hs : s < 64) : (1#64 <<< s) ≠ 0#64 := by
  intro h
  have := congrArg (fun v => v.getLsbD s) h
  simp [hs] at this

theorem and_bit (x : BitVec 64) (s : Nat) (hs : s < 64) :
    x &&& (1#64 <<< s) = if x.getLsbD s then 1#64 <<< s else 0#64 := by
  apply BitVec.eq_of_getLsbD_eq
  intro i hi
  have hone : (1#64 <<< s).getLsbD i = decide (i = s) := by
    simp only [BitVec.getLsbD_shiftLeft, BitVec.getLsbD_one, hi, decide_true, Bool.true_and]
    by_cases his : i = s
    · subst his; simp
    · by_cases h1 : i < s
      · simp [h1, his]
      · have : ¬ i - s = 0 := by omega
        simp [h1, his, this]
  rw [BitVec.getLsbD_and, hone]
  by_cases his : i = s
  · subst his
    cases hb : x.getLsbD i <;> simp [hone]
  · cases hb : x.getLsbD s <;> simp [his, hone]

/-- the test `(b0 & b1)` of the `k = 1` path, with `b = row[block] & bm` for a one-bit mask `bm` -/
theorem and_and_bit (x y : BitVec 64) (s : Nat) (hs : s < 64) :
    (x &&& (1#64 <<< s)) &&& (y &&& (1#64 <<< s)) ≠ 0#64 ↔
      (x &&& (1#64 <<< s) ≠ 0#64) ∧ (y &&& (1#64 <<< s) ≠ 0#64) := by
  rw [and_bit x s hs, and_bit y s hs]
  have h1 := one_shl_ne_zero s hs
  cases x.getLsbD s <;> cases y.getLsbD s <;> simp [h1]

theorem mzdProcessRows_gen (M T : Mzd) (startrow stoprow startcol k : Nat) (L : Array Nat)
    (hwf : M.WF) (hstop : stoprow ≤ M.nrows) (hcol : startcol < 64 * M.width) (hk : k ≤ 31) (hk1 : k ≠ 1) :
    Gen.C.mzdProcessRows startrow stoprow startcol k (fun i => ((L.getD i.toNat 0 : Nat) : Int)) (memOf M) M.width
        (memOf T) =
      memOf (Mzd.W.processRowsW M startrow stoprow startcol k T L) := by
  rw [memOf_processRowsW M T startrow stoprow startcol k L hwf hstop]
  obtain ⟨blk, hblk⟩ : ∃ blk : Nat, blk = startcol / 64 := ⟨_, rfl⟩
  obtain ⟨wN, hwN⟩ : ∃ wN : Nat, wN = M.width - blk := ⟨_, rfl⟩
  have hwide : (M.width : Int) - (blk : Int) = (wN : Int) := by omega
  have hk1' : ¬ ((k : Int) = 1) := by omega
  unfold Gen.C.mzdProcessRows
  simp (config := {iota := false}) only [hk1', decide_false, Bool.false_eq_true, reduceIte, xorAt_eq,
    GenTieMem.tdiv_nat, GenTieMem.tmod_nat, ← hblk, hwide]
  generalize hres1 : CLoop.loop _ _ _ _ = res1
  generalize hl2 : CLoop.loop _ _ _ = loop2
  obtain ⟨mem1, r1⟩ := res1
  dsimp only
  obtain ⟨np, hnp⟩ : ∃ np : Nat, np = (stoprow - startrow) / 2 := ⟨_, rfl⟩
  generalize hsw : selW M T startrow stoprow startcol k L = sw
  have hsel : ∀ rn : Nat, sw rn = memOf T ((L.getD (M.readBits rn startcol k).toNat 0 : Nat) : Int) := by
    intro rn
    rw [← hsw]
    unfold selW Mzd.W.processRowsSel
    rw [if_neg (by omega)]
    rfl
  have key1 := for_loop_eq hres1 np
    (fun j st => st.2 = (startrow : Int) + 2 * (j : Int) ∧
      st.1 = procMem M sw startrow ((startrow : Int) + 2 * (j : Int)) blk)
    (by omega) ⟨by simp, by rw [procMem_zero _ _ _ _ _ (by omega)]⟩ ?hcond1 ?hbody1
  case hcond1 =>
    intro j st hj hP
    obtain ⟨mem, r⟩ := st
    obtain ⟨h1, h2⟩ := hP
    dsimp only at h1 h2 ⊢
    subst h1
    congr 1
    apply propext
    omega
  case hbody1 =>
    clear hl2 hres1
    intro j st hj hP
    have h8 := tdiv8 wN (by omega)
    have hm8 := tmod8 wN (by omega)
    obtain ⟨mem, r⟩ := st
    obtain ⟨h1, h2⟩ := hP
    obtain ⟨rN, hrN⟩ : ∃ rN : Nat, rN = startrow + 2 * j := ⟨_, rfl⟩
    have e0 : (startrow : Int) + 2 * (j : Int) = (rN : Int) := by omega
    dsimp only at h1 h2
    rw [e0] at h1 h2
    subst h1 h2
    have e1 : (rN : Int) + 1 = ((rN + 1 : Nat) : Int) := by omega
    have hx0 : Gen.C.mzdReadBitsInt ((rN : Int) + 0) startcol k (procMem M sw startrow rN blk) =
        ((M.readBits rN startcol k).toNat : Int) := by
      rw [readBitsInt_congr _ _ _ _ (memOf M) (fun i => procMem_row _ _ _ _ _ _ _ (by omega)), Int.add_zero,
        mzdReadBitsInt_eq M rN startcol k hk]
    have hx1 : Gen.C.mzdReadBitsInt ((rN : Int) + 1) startcol k (procMem M sw startrow rN blk) =
        ((M.readBits (rN + 1) startcol k).toNat : Int) := by
      rw [readBitsInt_congr _ _ _ _ (memOf M) (fun i => procMem_row _ _ _ _ _ _ _ (by omega)), e1,
        mzdReadBitsInt_eq M (rN + 1) startcol k hk]
    duff_simp_all [] (wN : Int)
    all_goals
      rw [hx0, hx1]
      simp only [Int.toNat_natCast]
    duff_fin_all (fun t => ((t.1, t.2.1, t.2.2.1, t.2.2.2.1, t.2.2.2.2.1), t.2.2.2.2.2)),
      (stepPair (memOf T) ((rN : Int) + 0) ((L.getD (M.readBits rN startcol k).toNat 0 : Nat) : Int)
        ((rN : Int) + 1) ((L.getD (M.readBits (rN + 1) startcol k).toNat 0 : Nat) : Int)),
      (procMem M sw startrow rN blk, (0 : Int) + blk, (0 : Int) + blk, (0 : Int) + blk, (0 : Int) + blk), wN
    all_goals
      rw [stepPair_iter _ _ _ _ _ (by omega)] at hd
      obtain ⟨m, a0, b0, a1, b1, n⟩ := res
      simp only [Prod.mk.injEq] at hd
      obtain ⟨hd1, -⟩ := hd
      subst hd1
      clear hres
      refine ⟨by omega, ?_⟩
      exact procMem_step2 M sw startrow blk wN (by omega) rN (by omega) _ _ _ _
        (fun i => by rw [Int.toNat_natCast, hsel]; congr 1; omega)
        (fun i => by rw [e1, Int.toNat_natCast, hsel]; congr 1; omega)
        _ _ _ _ _ (by omega) (by omega) (by omega) (by omega) (by omega)
  obtain ⟨k1a, k1b⟩ := key1
  dsimp only at k1a k1b
  subst k1a k1b
  clear hres1
  subst hl2
  obtain ⟨r1N, hr1N⟩ : ∃ r1N : Nat, r1N = startrow + 2 * np := ⟨_, rfl⟩
  have e2 : (startrow : Int) + 2 * (np : Int) = (r1N : Int) := by omega
  rw [e2]
  generalize hres2 : CLoop.loop _ _ _ _ = res2
  obtain ⟨nl, hnl⟩ : ∃ nl : Nat, nl = stoprow - r1N := ⟨_, rfl⟩
  have key2 := for_loop_eq hres2 nl
    (fun j st => st.2 = (r1N : Int) + (j : Int) ∧ st.1 = procMem M sw startrow ((r1N : Int) + (j : Int)) blk)
    (by omega) ⟨by simp, by simp⟩ ?hcond2 ?hbody2
  case hcond2 =>
    intro j st hj hP
    obtain ⟨mem, r⟩ := st
    obtain ⟨h1, h2⟩ := hP
    dsimp only at h1 h2 ⊢
    subst h1
    congr 1
    apply propext
    omega
  case hbody2 =>
    clear hres2
    intro j st hj hP
    have h8 := tdiv8 wN (by omega)
    have hm8 := tmod8 wN (by omega)
    obtain ⟨mem, r⟩ := st
    obtain ⟨h1, h2⟩ := hP
    obtain ⟨rN, hrN⟩ : ∃ rN : Nat, rN = r1N + j := ⟨_, rfl⟩
    have e0 : (r1N : Int) + (j : Int) = (rN : Int) := by omega
    dsimp only at h1 h2
    rw [e0] at h1 h2
    subst h1 h2
    have hx0 : Gen.C.mzdReadBitsInt (rN : Int) startcol k (procMem M sw startrow rN blk) =
        ((M.readBits rN startcol k).toNat : Int) := by
      rw [readBitsInt_congr _ _ _ _ (memOf M) (fun i => procMem_row _ _ _ _ _ _ _ (by omega)),
        mzdReadBitsInt_eq M rN startcol k hk]
    duff_simp_all [] (wN : Int)
    all_goals
      rw [hx0]
      simp only [Int.toNat_natCast]
    duff_fin_all (fun t => ((t.1, t.2.1, t.2.2.1), t.2.2.2)),
      (stepCEIP (memOf T) (rN : Int) ((L.getD (M.readBits rN startcol k).toNat 0 : Nat) : Int)),
      (procMem M sw startrow rN blk, (0 : Int) + blk, (0 : Int) + blk), wN
    all_goals
      rw [stepCEIP_iter] at hd
      obtain ⟨m, a0, b0, n⟩ := res
      simp only [Prod.mk.injEq] at hd
      obtain ⟨hd1, -⟩ := hd
      subst hd1
      clear hres
      refine ⟨by omega, ?_⟩
      exact procMem_step' M sw startrow blk wN (by omega) rN (by omega) _ _
        (fun i => by rw [Int.toNat_natCast, hsel]; congr 1; omega)
        _ _ _ (by omega) (by omega) (by omega)
  obtain ⟨k2a, k2b⟩ := key2
  rw [k2b]
  by_cases hss : startrow ≤ stoprow
  · congr 1
    omega
  · rw [procMem_zero _ _ _ _ _ (by omega), procMem_zero _ _ _ _ _ (by omega)]

set_option maxHeartbeats 1000000 in
theorem mzdProcessRows_k1 (M T : Mzd) (startrow stoprow startcol : Nat) (L : Array Nat)
    (hwf : M.WF) (hstop : stoprow ≤ M.nrows) (hcol : startcol < 64 * M.width) :
    Gen.C.mzdProcessRows startrow stoprow startcol (1 : Nat) (fun i => ((L.getD i.toNat 0 : Nat) : Int)) (memOf M)
        M.width (memOf T) =
      memOf (Mzd.W.processRowsW M startrow stoprow startcol 1 T L) := by
  rw [memOf_processRowsW M T startrow stoprow startcol 1 L hwf hstop]
  obtain ⟨blk, hblk⟩ : ∃ blk : Nat, blk = startcol / 64 := ⟨_, rfl⟩
  obtain ⟨wN, hwN⟩ : ∃ wN : Nat, wN = M.width - blk := ⟨_, rfl⟩
  have hwide : (M.width : Int) - (blk : Int) = (wN : Int) := by omega
  have hone : ((1 : Nat) : Int) = 1 := rfl
  unfold Gen.C.mzdProcessRows
  simp (config := {iota := false}) only [hone, decide_true, reduceIte, xorAt_eq,
    GenTieMem.tdiv_nat, GenTieMem.tmod_nat, ← hblk, hwide, Int.toNat_natCast]
  generalize hres1 : CLoop.loop _ _ _ _ = res1
  generalize hl2 : CLoop.loop _ _ _ = loop2
  obtain ⟨mem1, r1⟩ := res1
  dsimp only
  obtain ⟨np, hnp⟩ : ∃ np : Nat, np = (stoprow - startrow) / 2 := ⟨_, rfl⟩
  generalize hsw : selW M T startrow stoprow startcol 1 L = sw
  have hs64 : startcol % 64 < 64 := by omega
  -- rows taken in pairs: the bit test, table row 1
  have hselP : ∀ rn : Nat, startrow + 2 * ((rn - startrow) / 2) + 2 ≤ stoprow →
      sw rn = if (M.row rn).w blk &&& 1#64 <<< (startcol % 64) ≠ 0#64 then memOf T 1 else fun _ => 0#64 := by
    intro rn h
    rw [← hsw, hblk]
    unfold selW Mzd.W.processRowsSel
    rw [if_pos ⟨rfl, h⟩]
    by_cases c : (M.row rn).w (startcol / 64) &&& 1#64 <<< (startcol % 64) ≠ 0#64
    · have c2 : (M.row rn).w (startcol / 64) &&& 1#64 <<< (startcol % 64) ≠ 0 := c
      rw [if_pos c2, if_pos c]; rfl
    · have c2 : ¬ ((M.row rn).w (startcol / 64) &&& 1#64 <<< (startcol % 64) ≠ 0) := c
      rw [if_neg c2, if_neg c]
  -- the left-over row: through `L`
  have hselG : ∀ rn : Nat, ¬ (startrow + 2 * ((rn - startrow) / 2) + 2 ≤ stoprow) →
      sw rn = memOf T ((L.getD (M.readBits rn startcol 1).toNat 0 : Nat) : Int) := by
    intro rn h
    rw [← hsw]
    unfold selW Mzd.W.processRowsSel
    rw [if_neg (by omega)]
    rfl
  have key1 := for_loop_eq hres1 np
    (fun j st => st.2 = (startrow : Int) + 2 * (j : Int) ∧
      st.1 = procMem M sw startrow ((startrow : Int) + 2 * (j : Int)) blk)
    (by omega) ⟨by simp, by rw [procMem_zero _ _ _ _ _ (by omega)]⟩ ?hcond1 ?hbody1
  case hcond1 =>
    intro j st hj hP
    obtain ⟨mem, r⟩ := st
    obtain ⟨h1, h2⟩ := hP
    dsimp only at h1 h2 ⊢
    subst h1
    congr 1
    apply propext
    omega
  case hbody1 =>
    clear hl2 hres1
    intro j st hj hP
    have h8 := tdiv8 wN (by omega)
    have hm8 := tmod8 wN (by omega)
    obtain ⟨mem, r⟩ := st
    obtain ⟨h1, h2⟩ := hP
    obtain ⟨rN, hrN⟩ : ∃ rN : Nat, rN = startrow + 2 * j := ⟨_, rfl⟩
    have e0 : (startrow : Int) + 2 * (j : Int) = (rN : Int) := by omega
    dsimp only at h1 h2
    rw [e0] at h1 h2
    subst h1 h2
    have e1 : (rN : Int) + 1 = ((rN + 1 : Nat) : Int) := by omega
    have hb0 : procMem M sw startrow rN blk ((rN : Int) + 0) ((0 : Int) + blk) = (M.row rN).w blk := by
      rw [procMem_row _ _ _ _ _ _ _ (by omega), Int.add_zero, Int.zero_add, memOf_nat]
    have hb1 : procMem M sw startrow rN blk ((rN : Int) + 1) ((0 : Int) + blk) = (M.row (rN + 1)).w blk := by
      rw [procMem_row _ _ _ _ _ _ _ (by omega), e1, Int.zero_add, memOf_nat]
    duff_simp_all [] (wN : Int)
    all_goals rw [hb0, hb1]
    duff_fin_all (fun t => ((t.1, t.2.1, t.2.2.1, t.2.2.2.1), t.2.2.2.2)),
      (stepPair1 (memOf T) ((rN : Int) + 0) ((rN : Int) + 1) 1),
      (procMem M sw startrow rN blk, (0 : Int) + blk, (0 : Int) + blk, (0 : Int) + blk), wN
    all_goals
      rw [stepPair1_iter _ _ _ _ (by omega)] at hd
      obtain ⟨mA, a0, a1, b, n⟩ := res
      simp only [Prod.mk.injEq] at hd
      obtain ⟨hdA, -⟩ := hd
      subst hdA
      clear hres
      dsimp only
    duff_fin_all (fun t => ((t.1, t.2.1, t.2.2.1), t.2.2.2)),
      (stepCEIP (memOf T) ((rN : Int) + 0) 1),
      (procMem M sw startrow rN blk, (0 : Int) + blk, (0 : Int) + blk), wN
    all_goals
      rw [stepCEIP_iter] at hd
      obtain ⟨mB, a0', b', n'⟩ := res
      simp only [Prod.mk.injEq] at hd
      obtain ⟨hdB, -⟩ := hd
      subst hdB
      clear hres
      dsimp only
    duff_fin_all (fun t => ((t.1, t.2.1, t.2.2.1), t.2.2.2)),
      (stepCEIP (memOf T) ((rN : Int) + 1) 1),
      (procMem M sw startrow rN blk, (0 : Int) + blk, (0 : Int) + blk), wN
    all_goals
      rw [stepCEIP_iter] at hd
      obtain ⟨mC, a0'', b'', n''⟩ := res
      simp only [Prod.mk.injEq] at hd
      obtain ⟨hdC, -⟩ := hd
      subst hdC
      clear hres
      dsimp only
    all_goals
      refine ⟨by omega, ?_⟩
      have hsw0 := hselP rN (by omega)
      have hsw1 := hselP (rN + 1) (by omega)
      by_cases c0 : (M.row rN).w blk &&& 1#64 <<< (startcol % 64) ≠ 0#64
      · rw [if_pos c0] at hsw0
        by_cases c1 : (M.row (rN + 1)).w blk &&& 1#64 <<< (startcol % 64) ≠ 0#64
        · rw [if_pos c1] at hsw1
          have cb := (and_and_bit _ _ _ hs64).2 ⟨c0, c1⟩
          simp only [if_pos (decide_eq_true cb)]
          exact procMem_step2 M sw startrow blk wN (by omega) rN (by omega) _ _ _ _
            (fun i => by rw [Int.toNat_natCast, hsw0]; congr 1; omega)
            (fun i => by rw [e1, Int.toNat_natCast, hsw1]; congr 1; omega)
            _ _ _ _ _ (by omega) (by omega) (by omega) (by omega) (by omega)
        · rw [if_neg c1] at hsw1
          have cb : ¬ ((M.row rN).w blk &&& 1#64 <<< (startcol % 64) &&&
              ((M.row (rN + 1)).w blk &&& 1#64 <<< (startcol % 64)) ≠ 0#64) :=
            fun h => c1 ((and_and_bit _ _ _ hs64).1 h).2
          simp only [if_neg (show ¬ _ from fun h => cb (of_decide_eq_true h)), if_pos (decide_eq_true c0)]
          rw [procMem_step' M sw startrow blk wN (by omega) rN (by omega) _ _
            (fun i => by rw [Int.toNat_natCast, hsw0]; congr 1; omega) _ ((rN : Int) + 1) _ (by omega) rfl (by omega)]
          rw [procMem_skip M sw startrow blk ((rN : Int) + 1) (by omega) (by rw [e1, Int.toNat_natCast, hsw1])]
          congr 1
          omega
      · rw [if_neg c0] at hsw0
        have cb : ¬ ((M.row rN).w blk &&& 1#64 <<< (startcol % 64) &&&
            ((M.row (rN + 1)).w blk &&& 1#64 <<< (startcol % 64)) ≠ 0#64) :=
          fun h => c0 ((and_and_bit _ _ _ hs64).1 h).1
        by_cases c1 : (M.row (rN + 1)).w blk &&& 1#64 <<< (startcol % 64) ≠ 0#64
        · rw [if_pos c1] at hsw1
          simp only [if_neg (show ¬ _ from fun h => cb (of_decide_eq_true h)),
            if_neg (show ¬ _ from fun h => c0 (of_decide_eq_true h)), if_pos (decide_eq_true c1)]
          rw [procMem_skip M sw startrow blk (rN : Int) (by omega) (by rw [Int.toNat_natCast, hsw0])]
          exact procMem_step' M sw startrow blk wN (by omega) ((rN : Int) + 1) (by omega) _ _
            (fun i => by rw [e1, Int.toNat_natCast, hsw1]; congr 1; omega) _ _ _ rfl (by omega) (by omega)
        · rw [if_neg c1] at hsw1
          simp only [if_neg (show ¬ _ from fun h => cb (of_decide_eq_true h)),
            if_neg (show ¬ _ from fun h => c0 (of_decide_eq_true h)),
            if_neg (show ¬ _ from fun h => c1 (of_decide_eq_true h))]
          rw [procMem_skip M sw startrow blk (rN : Int) (by omega) (by rw [Int.toNat_natCast, hsw0]),
            procMem_skip M sw startrow blk ((rN : Int) + 1) (by omega) (by rw [e1, Int.toNat_natCast, hsw1])]
          congr 1
          omega
  obtain ⟨k1a, k1b⟩ := key1
  dsimp only at k1a k1b
  subst k1a k1b
  clear hres1
  subst hl2
  obtain ⟨r1N, hr1N⟩ : ∃ r1N : Nat, r1N = startrow + 2 * np := ⟨_, rfl⟩
  have e2 : (startrow : Int) + 2 * (np : Int) = (r1N : Int) := by omega
  rw [e2]
  generalize hres2 : CLoop.loop _ _ _ _ = res2
  obtain ⟨nl, hnl⟩ : ∃ nl : Nat, nl = stoprow - r1N := ⟨_, rfl⟩
  have key2 := for_loop_eq hres2 nl
    (fun j st => st.2 = (r1N : Int) + (j : Int) ∧ st.1 = procMem M sw startrow ((r1N : Int) + (j : Int)) blk)
    (by omega) ⟨by simp, by simp⟩ ?hcond2 ?hbody2
  case hcond2 =>
    intro j st hj hP
    obtain ⟨mem, r⟩ := st
    obtain ⟨h1, h2⟩ := hP
    dsimp only at h1 h2 ⊢
    subst h1
    congr 1
    apply propext
    omega
  case hbody2 =>
    clear hres2
    intro j st hj hP
    have h8 := tdiv8 wN (by omega)
    have hm8 := tmod8 wN (by omega)
    obtain ⟨mem, r⟩ := st
    obtain ⟨h1, h2⟩ := hP
    obtain ⟨rN, hrN⟩ : ∃ rN : Nat, rN = r1N + j := ⟨_, rfl⟩
    have e0 : (r1N : Int) + (j : Int) = (rN : Int) := by omega
    dsimp only at h1 h2
    rw [e0] at h1 h2
    subst h1 h2
    have hx0 : Gen.C.mzdReadBitsInt (rN : Int) startcol 1 (procMem M sw startrow rN blk) =
        ((M.readBits rN startcol 1).toNat : Int) := by
      rw [readBitsInt_congr _ _ _ _ (memOf M) (fun i => procMem_row _ _ _ _ _ _ _ (by omega))]
      exact mzdReadBitsInt_eq M rN startcol 1 (by omega)
    have hswG := hselG rN (by omega)
    duff_simp_all [] (wN : Int)
    all_goals
      rw [hx0]
      simp only [Int.toNat_natCast]
    duff_fin_all (fun t => ((t.1, t.2.1, t.2.2.1), t.2.2.2)),
      (stepCEIP (memOf T) (rN : Int) ((L.getD (M.readBits rN startcol 1).toNat 0 : Nat) : Int)),
      (procMem M sw startrow rN blk, (0 : Int) + blk, (0 : Int) + blk), wN
    all_goals
      rw [stepCEIP_iter] at hd
      obtain ⟨m, a0, b0, n⟩ := res
      simp only [Prod.mk.injEq] at hd
      obtain ⟨hd1, -⟩ := hd
      subst hd1
      clear hres
      refine ⟨by omega, ?_⟩
      exact procMem_step' M sw startrow blk wN (by omega) rN (by omega) _ _
        (fun i => by rw [Int.toNat_natCast, hswG]; congr 1; omega)
        _ _ _ (by omega) (by omega) (by omega)
  obtain ⟨k2a, k2b⟩ := key2
  rw [k2b]
  by_cases hss : startrow ≤ stoprow
  · congr 1
    omega
  · rw [procMem_zero _ _ _ _ _ (by omega), procMem_zero _ _ _ _ _ (by omega)]

/-- **`mzd_process_rows`** (one-table Four-Russians row update; `k = 1` fast path on row pairs with its three Duff
    devices, the left-over row, and the general path on row pairs plus left-over row) against the word-level model.
    Nothing is required of `T`, `L`, `startrow` (reads outside a table give 0 on both sides; an empty row range is
    fine), and `k = 0` is allowed.  `startcol < 64·width` makes `wide = width - block ≥ 1` (see `duff_zero` for what
    the unguarded devices do when `wide = 0`), `k ≤ 31` keeps `(int)mzd_read_bits(…)` exact
    (`mzdReadBitsInt_32_counterexample`), `stoprow ≤ nrows` keeps the rows inside the matrix. -/
theorem mzdProcessRows_eq (M T : Mzd) (startrow stoprow startcol k : Nat) (L : Array Nat)
    (hwf : M.WF) (hstop : stoprow ≤ M.nrows) (hcol : startcol < 64 * M.width) (hk : k ≤ 31) :
    Gen.C.mzdProcessRows startrow stoprow startcol k (fun i => ((L.getD i.toNat 0 : Nat) : Int)) (memOf M) M.width
        (memOf T) =
      memOf (Mzd.W.processRowsW M startrow stoprow startcol k T L) := by
  by_cases hk1 : k = 1
  · subst hk1
    exact mzdProcessRows_k1 M T startrow stoprow startcol L hwf hstop hcol
  · exact mzdProcessRows_gen M T startrow stoprow startcol k L hwf hstop hcol hk hk1

/-- the same under the C contract of the callers (`startcol + k ≤ ncols`, `1 ≤ k ≤ 16`) -/
theorem mzdProcessRows_eq_contract (M T : Mzd) (startrow stoprow startcol k : Nat) (L : Array Nat)
    (hwf : M.WF) (hstop : stoprow ≤ M.nrows) (hk1 : 1 ≤ k) (hk16 : k ≤ 16) (hcol : startcol + k ≤ M.ncols) :
    Gen.C.mzdProcessRows startrow stoprow startcol k (fun i => ((L.getD i.toNat 0 : Nat) : Int)) (memOf M) M.width
        (memOf T) =
      memOf (Mzd.W.processRowsW M startrow stoprow startcol k T L) :=
  mzdProcessRows_eq M T startrow stoprow startcol k L hwf hstop
    (by have := Mzd.lt_width_of_le_ncols M startcol k hcol; omega) (by omega)

/-- non-vacuity: the hypotheses of `mzdProcessRows_eq` (both paths), `mzdCombineEvenInPlace_eq` and
    `mzdCombineEven_eq` hold on the 2×70 view `Mzd.exM` -/
example : Mzd.exM.WF ∧ 2 ≤ Mzd.exM.nrows ∧ 3 < 64 * Mzd.exM.width ∧ (1 : Nat) ≤ 31 ∧ (5 : Nat) ≤ 31 ∧
    1 < Mzd.exM.nrows ∧ 0 < Mzd.exM.width ∧ 0 + (Mzd.exM.width - 0) ≤ Mzd.exM.width :=
  ⟨Mzd.exM_WF, by decide, by decide, by decide, by decide, by decide, by decide, by decide⟩

#print axioms duff_finish
#print axioms duff_eq
#print axioms duff_zero
#print axioms mzdCombineEvenInPlace_eq
#print axioms mzdCombineEven_eq
#print axioms mzdReadBitsInt_eq
#print axioms mzdReadBitsInt_32_counterexample
#print axioms mzdProcessRows_eq
#print axioms mzdProcessRows_eq_contract

end M4ri.GenTieDuff
