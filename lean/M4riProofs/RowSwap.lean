/-
  Worked example of a W-level specification theorem (style guide for the other operations):
  `_mzd_row_swap(M, rowa, rowb, startblock)`.
  Standard shape: one `bit` equation that covers the entries inside the matrix, the excess bits of the
  last word (unchanged: they may belong to a parent matrix) and the rows not addressed; plus `WF`.
  Preconditions are exactly the documented ones (indices in range).
-/
import M4riProofs.Basic
namespace M4ri
namespace Mzd

theorem bit_def (M : Mzd) (i j : Nat) : M.bit i j = ((M.row i).w (j / 64)).getLsbD (j % 64) := rfl

theorem rowSwapFrom_WF (M : Mzd) (a b sb : Nat) (h : M.WF) (ha : a < M.nrows) (hb : b < M.nrows) :
    (M.rowSwapFrom a b sb).WF := by
  unfold rowSwapFrom
  split
  · exact h
  · apply WF.setRow
    · apply WF.setRow h
      simp only [rowSwapWords, Array.size_mapIdx]
      exact h.2 a ha
    · simp only [rowSwapWords, Array.size_mapIdx, width_setRow]
      exact h.2 b hb

/-- `_mzd_row_swap`: in the columns of the words `≥ startblock`, rows `a` and `b` are exchanged; every
    other bit of the view — other rows, earlier words, and the excess bits of the last word — is unchanged. -/
theorem rowSwapFrom_bit (M : Mzd) (a b sb : Nat) (h : M.WF) (ha : a < M.nrows) (hb : b < M.nrows)
    (i j : Nat) (hi : i < M.nrows) (hj : j < 64 * M.width) :
    (M.rowSwapFrom a b sb).bit i j =
      if j < M.ncols ∧ sb ≤ j / 64 then M.bit (if i = a then b else if i = b then a else i) j
      else M.bit i j := by
  have hsz : M.rows.size = M.nrows := h.1
  have hw : ∀ k, k < M.nrows → (M.row k).size = M.width := h.2
  have hjw : j / 64 < M.width := by omega
  unfold rowSwapFrom
  by_cases hab : a = b
  · subst hab; simp only [true_or, if_true]
    by_cases hia : i = a <;> simp [hia]
  by_cases hsb : sb ≥ M.width
  · have : ¬ (j < M.ncols ∧ sb ≤ j / 64) := by omega
    simp [hsb, this]
  simp only [hab, hsb, or_self, if_false]
  have hc : 0 < M.ncols := by
    unfold width widthOf at hjw; omega
  rw [bit_def, row_setRow _ _ _ _ (by rw [size_rows_setRow]; omega), row_setRow _ _ _ _ (by omega)]
  by_cases hib : b = i
  · subst hib
    simp only [if_true, rowSwapWords]
    rw [Row.w_mapIdx _ _ _ (by rw [hw _ hi]; exact hjw)]
    have hne : ¬ (b = a) := fun e => hab e.symm
    by_cases h1 : j / 64 < sb
    · have : ¬ (j < M.ncols ∧ sb ≤ j / 64) := by omega
      simp [h1, this, bit_def]
    · by_cases h2 : j / 64 + 1 < M.width
      · have hjn : j < M.ncols := by unfold width widthOf at h2; omega
        simp [h1, h2, hjn, Nat.le_of_not_lt h1, hne, bit_def]
      · have h3 : j / 64 + 1 = M.width := by omega
        rw [if_neg h1, if_neg h2, if_pos h3, merge_getLsbD]
        rw [hb_getLsbD M _ (Nat.mod_lt _ (by omega)) hc]
        have : 64 * (M.width - 1) + j % 64 = j := by omega
        rw [this]
        by_cases hjn : j < M.ncols
        · simp [hjn, Nat.le_of_not_lt h1, hne, bit_def]
        · simp [hjn, bit_def]
  · simp only [hib, if_false]
    by_cases hia : a = i
    · subst hia
      simp only [if_true, rowSwapWords]
      rw [Row.w_mapIdx _ _ _ (by rw [hw _ hi]; exact hjw)]
      by_cases h1 : j / 64 < sb
      · have : ¬ (j < M.ncols ∧ sb ≤ j / 64) := by omega
        simp [h1, this, bit_def]
      · by_cases h2 : j / 64 + 1 < M.width
        · have hjn : j < M.ncols := by unfold width widthOf at h2; omega
          simp [h1, h2, hjn, Nat.le_of_not_lt h1, bit_def]
        · have h3 : j / 64 + 1 = M.width := by omega
          rw [if_neg h1, if_neg h2, if_pos h3, merge_getLsbD]
          rw [hb_getLsbD M _ (Nat.mod_lt _ (by omega)) hc]
          have : 64 * (M.width - 1) + j % 64 = j := by omega
          rw [this]
          by_cases hjn : j < M.ncols
          · simp [hjn, Nat.le_of_not_lt h1, bit_def]
          · simp [hjn, bit_def]
    · have e1 : ¬ i = a := fun e => hia e.symm
      have e2 : ¬ i = b := fun e => hib e.symm
      simp [hia, e1, e2, bit_def]

/-- non-vacuity: a 2×70 view whose excess bits are all ones -/
example : (⟨2, 70, #[#[0x1#64, 0xFFFFFFFFFFFFFFC1#64], #[0x2#64, 0xFFFFFFFFFFFFFFC2#64]]⟩ : Mzd).WF := by
  refine ⟨rfl, ?_⟩
  intro i hi
  have : i = 0 ∨ i = 1 := by simp at hi; omega
  rcases this with rfl | rfl <;> rfl

end Mzd
end M4ri
