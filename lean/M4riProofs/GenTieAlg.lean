/-
  Tie between the generated algorithm-level functions of `M4ri/Gen/CFuns.lean`
  (`mzd_row_swap`, `mzd_row_add`, `mzd_find_pivot`, `mzd_gauss_delayed`) and the hand-written model.

  Main theorems (generated function on `memOf M` = model function):
    `mzdRowSwap0_eq`      `mzd_row_swap`   = `Mzd.rowSwap`           (WF, rows in range)
    `mzdRowAdd_eq`        `mzd_row_add`    = `Mzd.rowAdd`            (WF, dest in range, dest ≠ source, 1 ≤ ncols)
    `mzdFindPivot_eq`     `mzd_find_pivot` = `Mzd.findPivot`         (no hypotheses; return value and both out-parameters)
    `mzdGaussDelayed_eq`  `mzd_gauss_delayed` = row-level `BMat.gaussDelayed` through the lens `toB`/`putB`  (WF only)
    `mzdGaussDelayed_spec`, `mzdGaussDelayed_eq_ofB`  (lens form; owned-storage form)
  Loop rules: `loop_find` (search loop with `break`), `loop_foldl` (counting loop = `List.foldl` over `List.range'`),
  `scan3`/`scan4` (the `m4ri_lesser_LSB` row scans = `Mzd.pivotScan.go`), `lbit_loop`, `mid_loop`.
  Tactic note: `dsimp_m`/`simp_m` are `dsimp only`/`simp only` with structure eta switched off, so that
  `match loop … with | (a, b, c) => …` stays a `match` (no duplication of the loop term into projections).
-/
import M4riProofs.GenTie
import M4riProofs.GenTieMem
import M4riProofs.Gauss
import M4riProofs.W.Observers
namespace M4ri.GenTieAlg
open M4ri M4ri.Gen M4ri.GenTieMem M4ri.BMat

/-! ### 1-2. `mzd_row_swap`, `mzd_row_add` -/

/-- `mzd_row_swap` -/
theorem mzdRowSwap0_eq (M : Mzd) (a b : Nat) (hwf : M.WF) (ha : a < M.nrows) (hb : b < M.nrows) :
    Gen.C.mzdRowSwap0 a b (memOf M) M.width M.hb = memOf (M.rowSwap a b) := by
  unfold Gen.C.mzdRowSwap0 Mzd.rowSwap
  exact mzdRowSwap_eq M a b 0 hwf ha hb

/-- `mzd_row_add(M, sourcerow, destrow)` -/
theorem mzdRowAdd_eq (M : Mzd) (sourcerow destrow : Nat) (hwf : M.WF) (hd : destrow < M.nrows)
    (hne : destrow ≠ sourcerow) (hc : 1 ≤ M.ncols) :
    Gen.C.mzdRowAdd sourcerow destrow (memOf M) M.width M.hb = memOf (M.rowAdd sourcerow destrow) := by
  unfold Gen.C.mzdRowAdd Mzd.rowAdd
  have hw : 0 < 64 * M.width := by unfold Mzd.width widthOf; omega
  exact mzdRowAddOffset_eq M destrow sourcerow 0 hwf hd hne hw


/-! ### generic loop lemmas -/

/-- a loop that searches the first `k ∈ [lo, hi)` with `p k`, leaving through `body (st k)` on a hit -/
theorem loop_find {σ : Type} (cond : σ → Bool) (body : σ → σ) (st : Nat → σ) (p : Nat → Bool) (hi : Nat)
    (hcond : ∀ k, cond (st k) = decide (k < hi))
    (hmiss : ∀ k, k < hi → p k = false → body (st k) = st (k + 1))
    (hhit : ∀ k, k < hi → p k = true → cond (body (st k)) = false) :
    ∀ (fuel lo : Nat), hi - lo ≤ fuel →
      CLoop.loop fuel cond body (st lo) =
        match (List.range' lo (hi - lo)).find? p with
        | some j => body (st j)
        | none => st (max lo hi) := by
  intro fuel
  induction fuel with
  | zero =>
    intro lo h
    have e : hi - lo = 0 := by omega
    have e2 : max lo hi = lo := by omega
    rw [e, e2]; rfl
  | succ f ih =>
    intro lo h
    by_cases hlo : lo < hi
    · rw [loop_succ, hcond, if_pos (by simpa using hlo)]
      have e : hi - lo = (hi - (lo + 1)) + 1 := by omega
      rw [e, List.range'_succ, List.find?_cons]
      cases hp : p lo with
      | true => exact loop_of_false _ _ _ _ (hhit lo hlo hp)
      | false =>
        rw [hmiss lo hlo hp, ih (lo + 1) (by omega)]
        have e2 : max (lo + 1) hi = max lo hi := by omega
        rw [e2]
    · rw [loop_of_false _ _ _ _ (by rw [hcond]; simpa using hlo)]
      have e : hi - lo = 0 := by omega
      have e2 : max lo hi = lo := by omega
      rw [e, e2]; rfl

/-- a counting loop over `[lo, hi)` is a `foldl` over `List.range'` (with an invariant) -/
theorem loop_foldl {σ α : Type} (cond : σ → Bool) (body : σ → σ) (abs : α → Nat → σ) (f : α → Nat → α)
    (Inv : α → Nat → Prop) (hi : Nat)
    (hcond : ∀ a k, cond (abs a k) = decide (k < hi))
    (hbody : ∀ a k, Inv a k → k < hi → body (abs a k) = abs (f a k) (k + 1) ∧ Inv (f a k) (k + 1)) :
    ∀ (fuel lo : Nat) (a : α), hi - lo ≤ fuel → Inv a lo →
      CLoop.loop fuel cond body (abs a lo) = abs ((List.range' lo (hi - lo)).foldl f a) (max lo hi) ∧
      Inv ((List.range' lo (hi - lo)).foldl f a) (max lo hi) := by
  intro fuel
  induction fuel with
  | zero =>
    intro lo a h hI
    have e : hi - lo = 0 := by omega
    have e2 : max lo hi = lo := by omega
    rw [e, e2]; exact ⟨rfl, hI⟩
  | succ fu ih =>
    intro lo a h hI
    by_cases hlo : lo < hi
    · rw [loop_succ, hcond, if_pos (by simpa using hlo)]
      have e : hi - lo = (hi - (lo + 1)) + 1 := by omega
      have e2 : max lo hi = max (lo + 1) hi := by omega
      obtain ⟨hb, hI'⟩ := hbody a lo hI hlo
      rw [e, List.range'_succ, List.foldl_cons, hb, e2]
      exact ih (lo + 1) (f a lo) (by omega) hI'
    · rw [loop_of_false _ _ _ _ (by rw [hcond]; simpa using hlo)]
      have e : hi - lo = 0 := by omega
      have e2 : max lo hi = lo := by omega
      rw [e, e2]; exact ⟨rfl, hI⟩


/-! ### 3. `mzd_find_pivot` -/

/-- the `for (l = 0; l < len; ++l) if (GET_BIT(data, l)) { *c = base + l; break; }` loop -/
theorem lbit_loop (data : Word) (len : Nat) (base c0 : Int)
    (cond : Int × Int × Bool → Bool) (body : Int × Int × Bool → Int × Int × Bool)
    (hcond : ∀ c l b, cond (c, l, b) = (!b && decide (l < (len : Int))))
    (hbody : ∀ c l b, body (c, l, b) =
      if decide (BitVec.toInt (BitVec.setWidth 32 ((data >>> l.toNat) &&& (1#64))) ≠ 0) = true
      then (base + l, l, true) else (c, l + 1, b))
    (fuel : Nat) (hf : len ≤ fuel) :
    (CLoop.loop fuel cond body (c0, 0, false)).1 =
      match Mzd.lowestBit data len with
      | some l => base + (l : Int)
      | none => c0 := by
  have h := loop_find cond body (fun k => (c0, (k : Int), false)) (fun l => data.getLsbD l) len
    (by intro k; rw [hcond]; simp)
    (by intro k hk hp
        rw [hbody, Int.toNat_natCast, toInt_bit, hp]; simp)
    (by intro k hk hp
        rw [hbody, Int.toNat_natCast, toInt_bit, hp]; simp [hcond])
    fuel 0 (by omega)
  have e0 : ((0 : Nat) : Int) = 0 := rfl
  rw [e0] at h
  rw [h]
  unfold Mzd.lowestBit
  rw [List.range_eq_range', Nat.sub_zero]
  cases hfd : (List.range' 0 len).find? (fun l => data.getLsbD l) with
  | none => rfl
  | some j =>
    have hp : data.getLsbD j = true := by simpa using List.find?_some hfd
    simp only [hbody, Int.toNat_natCast, toInt_bit, hp]
    simp

/-- the scanning loop with early exit (`break` when the bit `bo` of the new `data` is set) -/
theorem scan4 (nrows : Nat) (get : Nat → Word) (getC : Int → BitVec 64) (bo : Nat)
    (cond : Int × BitVec 64 × Int × Bool → Bool)
    (body : Int × BitVec 64 × Int × Bool → Int × BitVec 64 × Int × Bool)
    (hget : ∀ i : Nat, getC (i : Int) = get i)
    (hcond : ∀ c d i b, cond (c, d, i, b) = (!b && decide (i < (nrows : Int))))
    (hbody : ∀ c d i b, body (c, d, i, b) =
      if decide (Gen.C.lesserLSB (getC i) d ≠ 0) = true then
        (if decide (BitVec.toInt (BitVec.setWidth 32 ((getC i >>> bo) &&& (1#64))) ≠ 0) = true
         then (i, getC i, i, true) else (i, getC i, i + 1, b))
      else (c, d, i + 1, b)) :
    ∀ (n i : Nat) (d : Word) (c : Int) (cn : Nat) (fuel : Nat), nrows - i ≤ n → n ≤ fuel →
      (CLoop.loop fuel cond body (c, d, (i : Int), false)).2.1 =
        (Mzd.pivotScan.go nrows get (fun d => d.getLsbD bo) n i d cn).1 ∧
      ((CLoop.loop fuel cond body (c, d, (i : Int), false)).1 =
        ((Mzd.pivotScan.go nrows get (fun d => d.getLsbD bo) n i d cn).2 : Int) ∨
       ((CLoop.loop fuel cond body (c, d, (i : Int), false)).1 = c ∧
        Mzd.pivotScan.go nrows get (fun d => d.getLsbD bo) n i d cn = (d, cn))) := by
  intro n
  induction n with
  | zero =>
    intro i d c cn fuel h1 h2
    have hc : cond (c, d, (i : Int), false) = false := by rw [hcond]; simp; omega
    rw [loop_of_false _ _ _ _ hc]
    simp [Mzd.pivotScan.go]
  | succ n ih =>
    intro i d c cn fuel h1 h2
    obtain ⟨f, rfl⟩ : ∃ f, fuel = f + 1 := ⟨fuel - 1, by omega⟩
    simp only [Mzd.pivotScan.go]
    by_cases hi : i ≥ nrows
    · have hc : cond (c, d, (i : Int), false) = false := by rw [hcond]; simp; omega
      rw [loop_of_false _ _ _ _ hc, if_pos hi]
      simp
    · have hc : cond (c, d, (i : Int), false) = true := by rw [hcond]; simp; omega
      rw [loop_succ, hc, if_pos rfl, if_neg hi, hbody, GenTie.lesserLSB_eq, toInt_bit, hget]
      by_cases hl : lesserLSB (get i) d = true
      · rw [if_pos hl, if_pos hl]
        by_cases hb : (get i).getLsbD bo = true
        · have hc2 : cond ((i : Int), get i, (i : Int), true) = false := by rw [hcond]; simp
          rw [if_pos (by simp [hb]), if_pos hb, loop_of_false _ _ _ _ hc2]
          simp
        · rw [if_neg (by simp [hb]), if_neg hb]
          obtain ⟨k1, k2⟩ := ih (i + 1) (get i) (i : Int) i f (by omega) (by omega)
          have e : ((i + 1 : Nat) : Int) = (i : Int) + 1 := by omega
          rw [e] at k1 k2
          refine ⟨k1, ?_⟩
          rcases k2 with k2 | ⟨k2, k3⟩
          · exact Or.inl k2
          · left; rw [k2, k3]
      · rw [if_neg hl, if_neg hl]
        have e : ((i + 1 : Nat) : Int) = (i : Int) + 1 := by omega
        have := ih (i + 1) d c cn f (by omega) (by omega)
        rw [e] at this
        exact this

/-- the scanning loop without early exit (chunk of fewer than 64 columns) -/
theorem scan3 (nrows : Nat) (get : Nat → Word) (getC : Int → BitVec 64)
    (cond : Int × BitVec 64 × Int → Bool)
    (body : Int × BitVec 64 × Int → Int × BitVec 64 × Int)
    (hget : ∀ i : Nat, getC (i : Int) = get i)
    (hcond : ∀ c d i, cond (c, d, i) = decide (i < (nrows : Int)))
    (hbody : ∀ c d i, body (c, d, i) =
      match (if decide (Gen.C.lesserLSB (getC i) d ≠ 0) = true then (i, getC i) else (c, d)) with
      | (c', d') => (c', d', i + 1)) :
    ∀ (n i : Nat) (d : Word) (c : Int) (cn : Nat) (fuel : Nat), nrows - i ≤ n → n ≤ fuel →
      (CLoop.loop fuel cond body (c, d, (i : Int))).2.1 =
        (Mzd.pivotScan.go nrows get (fun _ => false) n i d cn).1 ∧
      ((CLoop.loop fuel cond body (c, d, (i : Int))).1 =
        ((Mzd.pivotScan.go nrows get (fun _ => false) n i d cn).2 : Int) ∨
       ((CLoop.loop fuel cond body (c, d, (i : Int))).1 = c ∧
        Mzd.pivotScan.go nrows get (fun _ => false) n i d cn = (d, cn))) := by
  intro n
  induction n with
  | zero =>
    intro i d c cn fuel h1 h2
    have hc : cond (c, d, (i : Int)) = false := by rw [hcond]; simp; omega
    rw [loop_of_false _ _ _ _ hc]
    simp [Mzd.pivotScan.go]
  | succ n ih =>
    intro i d c cn fuel h1 h2
    obtain ⟨f, rfl⟩ : ∃ f, fuel = f + 1 := ⟨fuel - 1, by omega⟩
    simp only [Mzd.pivotScan.go]
    by_cases hi : i ≥ nrows
    · have hc : cond (c, d, (i : Int)) = false := by rw [hcond]; simp; omega
      rw [loop_of_false _ _ _ _ hc, if_pos hi]
      simp
    · have hc : cond (c, d, (i : Int)) = true := by rw [hcond]; simp; omega
      rw [loop_succ, hc, if_pos rfl, if_neg hi, hbody, GenTie.lesserLSB_eq, hget]
      have e : ((i + 1 : Nat) : Int) = (i : Int) + 1 := by omega
      by_cases hl : lesserLSB (get i) d = true
      · rw [if_pos hl, if_pos hl]
        obtain ⟨k1, k2⟩ := ih (i + 1) (get i) (i : Int) i f (by omega) (by omega)
        rw [e] at k1 k2
        simp only [Bool.false_eq_true, if_false]
        refine ⟨k1, ?_⟩
        rcases k2 with k2 | ⟨k2, k3⟩
        · exact Or.inl k2
        · left; rw [k2, k3]
      · rw [if_neg hl, if_neg hl]
        have := ih (i + 1) d c cn f (by omega) (by omega)
        rw [e] at this
        exact this


theorem scan3_eq {cond : Int × BitVec 64 × Int → Bool} {body : Int × BitVec 64 × Int → Int × BitVec 64 × Int}
    {fuel : Nat} {c : Int} {d : BitVec 64} {i : Nat} {res : Int × BitVec 64 × Int}
    (hres : CLoop.loop fuel cond body (c, d, (i : Int)) = res)
    (nrows : Nat) (get : Nat → Word) (getC : Int → BitVec 64)
    (hget : ∀ i : Nat, getC (i : Int) = get i)
    (hcond : ∀ c d i, cond (c, d, i) = decide (i < (nrows : Int)))
    (hbody : ∀ c d i, body (c, d, i) =
      match (if decide (Gen.C.lesserLSB (getC i) d ≠ 0) = true then (i, getC i) else (c, d)) with
      | (c', d') => (c', d', i + 1))
    (n cn : Nat) (h1 : nrows - i ≤ n) (h2 : n ≤ fuel) :
    res.2.1 = (Mzd.pivotScan.go nrows get (fun _ => false) n i d cn).1 ∧
      (res.1 = ((Mzd.pivotScan.go nrows get (fun _ => false) n i d cn).2 : Int) ∨
       (res.1 = c ∧ Mzd.pivotScan.go nrows get (fun _ => false) n i d cn = (d, cn))) := by
  subst hres
  exact scan3 nrows get getC cond body hget hcond hbody n i d c cn fuel h1 h2

theorem scan4_eq {cond : Int × BitVec 64 × Int × Bool → Bool}
    {body : Int × BitVec 64 × Int × Bool → Int × BitVec 64 × Int × Bool}
    {fuel : Nat} {c : Int} {d : BitVec 64} {i : Nat} {res : Int × BitVec 64 × Int × Bool}
    (hres : CLoop.loop fuel cond body (c, d, (i : Int), false) = res)
    (nrows : Nat) (get : Nat → Word) (getC : Int → BitVec 64) (bo : Nat)
    (hget : ∀ i : Nat, getC (i : Int) = get i)
    (hcond : ∀ c d i b, cond (c, d, i, b) = (!b && decide (i < (nrows : Int))))
    (hbody : ∀ c d i b, body (c, d, i, b) =
      if decide (Gen.C.lesserLSB (getC i) d ≠ 0) = true then
        (if decide (BitVec.toInt (BitVec.setWidth 32 ((getC i >>> bo) &&& (1#64))) ≠ 0) = true
         then (i, getC i, i, true) else (i, getC i, i + 1, b))
      else (c, d, i + 1, b))
    (n cn : Nat) (h1 : nrows - i ≤ n) (h2 : n ≤ fuel) :
    res.2.1 = (Mzd.pivotScan.go nrows get (fun d => d.getLsbD bo) n i d cn).1 ∧
      (res.1 = ((Mzd.pivotScan.go nrows get (fun d => d.getLsbD bo) n i d cn).2 : Int) ∨
       (res.1 = c ∧ Mzd.pivotScan.go nrows get (fun d => d.getLsbD bo) n i d cn = (d, cn))) := by
  subst hres
  exact scan4 nrows get getC bo cond body hget hcond hbody n i d c cn fuel h1 h2

theorem lbit_loop_eq {cond : Int × Int × Bool → Bool} {body : Int × Int × Bool → Int × Int × Bool}
    {fuel : Nat} {c0 : Int} {res : Int × Int × Bool}
    (hres : CLoop.loop fuel cond body (c0, 0, false) = res)
    (data : Word) (len : Nat) (base : Int)
    (hcond : ∀ c l b, cond (c, l, b) = (!b && decide (l < (len : Int))))
    (hbody : ∀ c l b, body (c, l, b) =
      if decide (BitVec.toInt (BitVec.setWidth 32 ((data >>> l.toNat) &&& (1#64))) ≠ 0) = true
      then (base + l, l, true) else (c, l + 1, b))
    (hf : len ≤ fuel) :
    res.1 = match Mzd.lowestBit data len with
      | some l => base + (l : Int)
      | none => c0 := by
  subst hres
  exact lbit_loop data len base c0 cond body hcond hbody fuel hf

/-- `dsimp only` that leaves `match` on a non-constructor tuple alone (no structure eta) -/
macro "dsimp_m" loc:(Lean.Parser.Tactic.location)? : tactic =>
  `(tactic| dsimp (config := {etaStruct := .none}) only $[$loc]?)

def enc (r0 c0 : Int) : Option (Nat × Nat) → Int × Int × Int
  | some (r, c) => (1, (r : Int), (c : Int))
  | none => (0, r0, c0)

theorem go_data_mem (nrows : Nat) (get : Nat → Word) (brk : Word → Bool) :
    ∀ (n i : Nat) (d : Word) (c : Nat),
      (Mzd.pivotScan.go nrows get brk n i d c).1 = d ∨ ∃ k, (Mzd.pivotScan.go nrows get brk n i d c).1 = get k := by
  intro n
  induction n with
  | zero => intro i d c; left; rfl
  | succ n ih =>
    intro i d c
    simp only [Mzd.pivotScan.go]
    split
    · left; rfl
    · split
      · split
        · right; exact ⟨i, rfl⟩
        · rcases ih (i + 1) (get i) i with h | h
          · right; exact ⟨i, h⟩
          · right; exact h
      · exact ih (i + 1) d c

theorem lowestBit_some_of (d : Word) (len : Nat) (hne : d ≠ 0) (hb : ∀ k, len ≤ k → d.getLsbD k = false) :
    ∃ l, Mzd.lowestBit d len = some l := by
  have h := Mzd.lowestBit_spec d len
  cases hl : Mzd.lowestBit d len with
  | some l => exact ⟨l, rfl⟩
  | none =>
    rw [hl] at h
    exfalso; apply hne
    rw [word_eq_zero_iff]
    intro p _
    by_cases hp : p < len
    · exact h p hp
    · exact hb p (by omega)

theorem findPivot_short (A : Mzd) (sr sc r0 c0 : Nat) (hs : A.ncols - sc < 64) :
    Gen.C.mzdFindPivot sr sc r0 c0 A.nrows A.ncols (memOf A) A.width = enc r0 c0 (A.findPivot sr sc) := by
  unfold Gen.C.mzdFindPivot Mzd.findPivot
  dsimp_m
  have hs' : ((A.ncols : Int) - (sc : Int) < 64) := by omega
  rw [if_pos (decide_eq_true hs'), if_pos hs]
  by_cases hge : sc ≥ A.ncols
  · rw [if_pos hge, loop_of_false _ _ _ _ (by simp; omega)]
    rfl
  · rw [if_neg hge]
    have hlen : (if decide ((64 : Int) < ↑A.ncols - ↑sc) = true then (64 : Int) else ↑A.ncols - ↑sc)
        = ((min 64 (A.ncols - sc) : Nat) : Int) := by
      rw [if_neg (by simp; omega)]; omega
    generalize hL : min 64 (A.ncols - sc) = len at hlen
    have hL1 : len ≤ 64 := by omega
    rw [loop_succ]
    dsimp_m
    rw [if_pos (by simp; omega), hlen]
    generalize hres2 : CLoop.loop ((A.nrows : Int)).toNat _ _ _ = res2
    have hsc := scan3_eq hres2 A.nrows (fun i => A.readBits i sc len) (fun i => Gen.C.mzdReadBits i sc len (memOf A))
      (fun i => mzdReadBits_eq' A i sc len) (fun _ _ _ => rfl) (fun _ _ _ => rfl)
      (A.nrows - sr) 0 (Nat.le_refl _) (by simp)
    clear hres2
    unfold Mzd.pivotScan
    have hmem := go_data_mem A.nrows (fun i => A.readBits i sc len) (fun _ => false) (A.nrows - sr) sr 0 0
    generalize Mzd.pivotScan.go A.nrows (fun i => A.readBits i sc len) (fun _ => false) (A.nrows - sr) sr 0 0 = ps at hsc hmem
    obtain ⟨data, cand⟩ := ps
    obtain ⟨rc, rd, ri⟩ := res2
    obtain ⟨h1, h2⟩ := hsc
    dsimp only at h1 h2 hmem
    subst h1
    dsimp_m
    by_cases hd : rd = 0
    · subst hd
      rw [if_neg (by simp), loop_of_false _ _ _ _ (by simp; omega)]
      simp [enc]
    · rw [if_pos (by simpa using hd), if_pos hd]
      have hcand : rc = (cand : Int) := by
        rcases h2 with h2 | ⟨_, h3⟩
        · exact h2
        · exfalso; apply hd; exact (Prod.mk.inj h3).1
      subst hcand
      have hbits : ∀ k, len ≤ k → rd.getLsbD k = false := by
        intro k hk
        rcases hmem with h | ⟨i, h⟩
        · exact absurd h hd
        · rw [h, Mzd.readBits_getLsbD _ _ _ _ hL1, if_neg (by omega)]
      obtain ⟨l, hl⟩ := lowestBit_some_of rd len hd hbits
      generalize hres3 : CLoop.loop 64 _ _ _ = res3
      have hlb := lbit_loop_eq hres3 rd len sc (fun _ _ _ => rfl) (fun _ _ _ => rfl) hL1
      rw [hl] at hlb
      obtain ⟨dc, dl, db⟩ := res3
      dsimp only at hlb
      subst hlb
      dsimp_m
      rw [loop_of_false _ _ _ _ rfl, hl]
      simp [enc]

macro "simp_m" "[" ls:Lean.Parser.Tactic.simpLemma,* "]" : tactic =>
  `(tactic| simp (config := {etaStruct := .none}) only [$ls,*])

/-- the scanning loop from `data = 0`, packaged against `pivotScan` -/
theorem scan4_pack {cond : Int × BitVec 64 × Int × Bool → Bool}
    {body : Int × BitVec 64 × Int × Bool → Int × BitVec 64 × Int × Bool}
    {fuel : Nat} {c : Int} {sr : Nat} {res : Int × BitVec 64 × Int × Bool}
    (hres : CLoop.loop fuel cond body (c, 0#64, (sr : Int), false) = res)
    (nrows : Nat) (get : Nat → Word) (getC : Int → BitVec 64) (bo : Nat)
    (hget : ∀ i : Nat, getC (i : Int) = get i)
    (hcond : ∀ c d i b, cond (c, d, i, b) = (!b && decide (i < (nrows : Int))))
    (hbody : ∀ c d i b, body (c, d, i, b) =
      if decide (Gen.C.lesserLSB (getC i) d ≠ 0) = true then
        (if decide (BitVec.toInt (BitVec.setWidth 32 ((getC i >>> bo) &&& (1#64))) ≠ 0) = true
         then (i, getC i, i, true) else (i, getC i, i + 1, b))
      else (c, d, i + 1, b))
    (h2 : nrows ≤ fuel) :
    res.2.1 = (Mzd.pivotScan nrows sr get (fun d => d.getLsbD bo) 0 0).1 ∧
    ((Mzd.pivotScan nrows sr get (fun d => d.getLsbD bo) 0 0).1 ≠ 0 →
      res.1 = ((Mzd.pivotScan nrows sr get (fun d => d.getLsbD bo) 0 0).2 : Int) ∧
      ∃ k, (Mzd.pivotScan nrows sr get (fun d => d.getLsbD bo) 0 0).1 = get k) := by
  unfold Mzd.pivotScan
  obtain ⟨k1, k2⟩ := scan4_eq hres nrows get getC bo hget hcond hbody (nrows - sr) 0 (Nat.le_refl _) (by omega)
  refine ⟨k1, fun hne => ⟨?_, ?_⟩⟩
  · rcases k2 with k2 | ⟨_, k3⟩
    · exact k2
    · exfalso; apply hne; exact congrArg Prod.fst k3
  · rcases go_data_mem nrows get (fun d => d.getLsbD bo) (nrows - sr) sr 0 0 with h | h
    · exact absurd h hne
    · exact h

/-- the loop over the complete words of `mzd_find_pivot` -/
theorem mid_loop (A : Mzd) (sr nrows : Nat) (r0 c0 : Int)
    (cond : Int × BitVec 64 × Int × Int × Int × Option (Int × Int × Int) → Bool)
    (body : Int × BitVec 64 × Int × Int × Int × Option (Int × Int × Int) →
      Int × BitVec 64 × Int × Int × Int × Option (Int × Int × Int))
    (hcond : ∀ cnd d r c wi ret, cond (cnd, d, r, c, wi, ret) =
      (ret.isNone && decide (wi < (A.width : Int) - 1)))
    (hstep : ∀ (cnd : Int) (wi : Nat), wi + 1 < A.width →
      ((Mzd.pivotScan nrows sr (fun i => (A.row i).w wi) (fun d => d.getLsbD 0) 0 0).1 ≠ 0 →
        ∃ l, Mzd.lowestBit (Mzd.pivotScan nrows sr (fun i => (A.row i).w wi) (fun d => d.getLsbD 0) 0 0).1 64 = some l ∧
          (body (cnd, 0#64, r0, c0, (wi : Int), none)).2.2.2.2.2 =
            some (1, ((Mzd.pivotScan nrows sr (fun i => (A.row i).w wi) (fun d => d.getLsbD 0) 0 0).2 : Int),
              ((wi * 64 + l : Nat) : Int))) ∧
      ((Mzd.pivotScan nrows sr (fun i => (A.row i).w wi) (fun d => d.getLsbD 0) 0 0).1 = 0 →
        ∃ cnd', body (cnd, 0#64, r0, c0, (wi : Int), none) = (cnd', 0#64, r0, c0, (wi : Int) + 1, none))) :
    ∀ (fuelM wi : Nat) (cnd : Int) (fuelC : Nat), A.width ≤ fuelM + wi + 1 → fuelM ≤ fuelC →
      match Mzd.findPivot.mid A sr nrows fuelM wi with
      | .inl o => (CLoop.loop fuelC cond body (cnd, 0#64, r0, c0, (wi : Int), none)).2.2.2.2.2 = some (enc r0 c0 o) ∧
          o ≠ none
      | .inr () => ∃ cnd' wi', CLoop.loop fuelC cond body (cnd, 0#64, r0, c0, (wi : Int), none) =
          (cnd', 0#64, r0, c0, wi', none) := by
  intro fuelM
  induction fuelM with
  | zero =>
    intro wi cnd fuelC h1 h2
    simp only [Mzd.findPivot.mid]
    have hc : cond (cnd, 0#64, r0, c0, (wi : Int), none) = false := by rw [hcond]; simp; omega
    rw [loop_of_false _ _ _ _ hc]
    exact ⟨_, _, rfl⟩
  | succ fm ih =>
    intro wi cnd fuelC h1 h2
    obtain ⟨fc, rfl⟩ : ∃ f, fuelC = f + 1 := ⟨fuelC - 1, by omega⟩
    simp only [Mzd.findPivot.mid]
    by_cases hw : wi + 1 ≥ A.width
    · rw [if_pos hw]
      have hc : cond (cnd, 0#64, r0, c0, (wi : Int), none) = false := by rw [hcond]; simp; omega
      rw [loop_of_false _ _ _ _ hc]
      exact ⟨_, _, rfl⟩
    · rw [if_neg hw]
      have hc : cond (cnd, 0#64, r0, c0, (wi : Int), none) = true := by rw [hcond]; simp; omega
      rw [loop_succ, hc, if_pos rfl]
      obtain ⟨s1, s2⟩ := hstep cnd wi (by omega)
      generalize Mzd.pivotScan nrows sr (fun i => (A.row i).w wi) (fun d => d.getLsbD 0) 0 0 = ps at s1 s2 ⊢
      obtain ⟨data, cand⟩ := ps
      dsimp only at s1 s2 ⊢
      by_cases hd : data = 0
      · obtain ⟨cnd', hb⟩ := s2 hd
        rw [if_neg (by simp [hd]), hb]
        have e : ((wi + 1 : Nat) : Int) = (wi : Int) + 1 := by omega
        have := ih (wi + 1) cnd' fc (by omega) (by omega)
        rw [e] at this
        exact this
      · obtain ⟨l, hl, hb⟩ := s1 hd
        rw [if_pos hd, hl]
        generalize body (cnd, 0#64, r0, c0, (wi : Int), none) = st' at hb ⊢
        obtain ⟨a1, a2, a3, a4, a5, a6⟩ := st'
        dsimp only at hb
        subst hb
        have hc2 : cond (a1, a2, a3, a4, a5, some (1, (cand : Int), ((wi * 64 + l : Nat) : Int))) = false := by
          rw [hcond]; rfl
        rw [loop_of_false _ _ _ _ hc2]
        simp [enc]



theorem mid_loop_eq {cond : Int × BitVec 64 × Int × Int × Int × Option (Int × Int × Int) → Bool}
    {body : Int × BitVec 64 × Int × Int × Int × Option (Int × Int × Int) →
      Int × BitVec 64 × Int × Int × Int × Option (Int × Int × Int)}
    {fuelC : Nat} {s res : Int × BitVec 64 × Int × Int × Int × Option (Int × Int × Int)}
    (hres : CLoop.loop fuelC cond body s = res)
    (A : Mzd) (sr nrows : Nat) (r0 c0 cnd : Int) (wi : Nat)
    (hs : s = (cnd, 0#64, r0, c0, (wi : Int), none))
    (hcond : ∀ cnd d r c wi ret, cond (cnd, d, r, c, wi, ret) =
      (ret.isNone && decide (wi < (A.width : Int) - 1)))
    (hstep : ∀ (cnd : Int) (wi : Nat), wi + 1 < A.width →
      ((Mzd.pivotScan nrows sr (fun i => (A.row i).w wi) (fun d => d.getLsbD 0) 0 0).1 ≠ 0 →
        ∃ l, Mzd.lowestBit (Mzd.pivotScan nrows sr (fun i => (A.row i).w wi) (fun d => d.getLsbD 0) 0 0).1 64 = some l ∧
          (body (cnd, 0#64, r0, c0, (wi : Int), none)).2.2.2.2.2 =
            some (1, ((Mzd.pivotScan nrows sr (fun i => (A.row i).w wi) (fun d => d.getLsbD 0) 0 0).2 : Int),
              ((wi * 64 + l : Nat) : Int))) ∧
      ((Mzd.pivotScan nrows sr (fun i => (A.row i).w wi) (fun d => d.getLsbD 0) 0 0).1 = 0 →
        ∃ cnd', body (cnd, 0#64, r0, c0, (wi : Int), none) = (cnd', 0#64, r0, c0, (wi : Int) + 1, none)))
    (fuelM : Nat) (h1 : A.width ≤ fuelM + wi + 1) (h2 : fuelM ≤ fuelC) :
    match Mzd.findPivot.mid A sr nrows fuelM wi with
    | .inl o => res.2.2.2.2.2 = some (enc r0 c0 o) ∧ o ≠ none
    | .inr () => ∃ cnd' wi', res = (cnd', 0#64, r0, c0, wi', none) := by
  subst hres hs
  exact mid_loop A sr nrows r0 c0 cond body hcond hstep fuelM wi cnd fuelC h1 h2

theorem findPivot_long (A : Mzd) (sr sc r0 c0 : Nat) (hs : ¬ A.ncols - sc < 64) :
    Gen.C.mzdFindPivot sr sc r0 c0 A.nrows A.ncols (memOf A) A.width = enc r0 c0 (A.findPivot sr sc) := by
  unfold Gen.C.mzdFindPivot Mzd.findPivot
  dsimp_m
  have hs' : ¬ ((A.ncols : Int) - (sc : Int) < 64) := by omega
  rw [if_neg (by simpa using hs'), if_neg hs]
  simp_m [tdiv_nat, tmod_nat, Int.toNat_natCast]
  have emb : BitVec.allOnes 64 <<< ((64 : Int) - (64 - ((sc % 64 : Nat) : Int))).toNat
      = rightMask (64 - sc % 64) := by
    unfold rightMask ffff
    congr 1
    omega
  have e64 : (64 : Int) - ((sc % 64 : Nat) : Int) = ((64 - sc % 64 : Nat) : Int) := by omega
  rw [emb, e64]
  have heo : (if decide (((A.ncols % 64 : Nat) : Int) ≠ 0) = true then ((A.ncols % 64 : Nat) : Int) else 64)
      = (((if A.ncols % 64 ≠ 0 then A.ncols % 64 else 64 : Nat)) : Int) := by
    by_cases h : A.ncols % 64 = 0
    · rw [if_neg (by simp; omega), if_neg (by omega)]; rfl
    · rw [if_pos (by simp; omega), if_pos h]
  rw [heo, leftmask_gen]
  generalize heoN : (if A.ncols % 64 ≠ 0 then A.ncols % 64 else 64) = eo
  have heo1 : 1 ≤ eo ∧ eo ≤ 64 := by subst heoN; split <;> omega
  have hsc : sc = 64 * (sc / 64) + sc % 64 := by omega
  generalize hbo : sc % 64 = bo at *
  generalize hwo : sc / 64 = wo at *
  have hbo64 : bo < 64 := by omega
  have hw1 : 1 ≤ A.width := by unfold Mzd.width widthOf; omega
  -- first word
  generalize hres1 : CLoop.loop A.nrows _ _ _ = res1
  obtain ⟨k1, k2⟩ := scan4_pack hres1 A.nrows (fun i => (A.row i).w wo &&& rightMask (64 - bo))
    (fun i => memOf A i (0 + (wo : Int)) &&& rightMask (64 - bo)) bo
    (by intro i; rw [Int.zero_add, memOf_nat]) (fun _ _ _ _ => rfl) (fun _ _ _ _ => rfl) (Nat.le_refl _)
  clear hres1
  generalize Mzd.pivotScan A.nrows sr (fun i => (A.row i).w wo &&& rightMask (64 - bo))
    (fun d => d.getLsbD bo) 0 0 = ps at k1 k2 ⊢
  obtain ⟨data, cand⟩ := ps
  obtain ⟨rc, rd, ri, rb⟩ := res1
  dsimp only at k1 k2
  subst k1
  dsimp_m
  by_cases hd : rd = 0
  · subst hd
    rw [if_neg (show ¬ (decide ((0 : BitVec 64) ≠ 0#64) = true) by simp),
      if_neg (show ¬ ((0 : Word) ≠ 0) by simp)]
    -- complete words
    generalize hres2 : CLoop.loop A.width _ _ _ = res2
    have hmid := mid_loop_eq hres2 A sr A.nrows r0 c0 rc (wo + 1) (by rw [Int.natCast_add]; rfl)
      (fun _ _ _ _ _ _ => rfl) ?_ A.width (by omega) (Nat.le_refl _)
    · generalize Mzd.findPivot.mid A sr A.nrows A.width (wo + 1) = md at hmid ⊢
      cases md with
      | inl o =>
        dsimp only at hmid ⊢
        obtain ⟨h1, h2⟩ := hmid
        obtain ⟨a1, a2, a3, a4, a5, a6⟩ := res2
        dsimp only at h1
        subst h1
        rfl
      | inr u =>
        cases u
        dsimp only at hmid ⊢
        obtain ⟨cnd', wi', hr⟩ := hmid
        subst hr
        dsimp_m
        -- last word
        generalize hres4 : CLoop.loop A.nrows _ _ _ = res4
        obtain ⟨k1, k2⟩ := scan4_pack hres4 A.nrows (fun i => (A.row i).w (A.width - 1) &&& leftMask (eo % 64))
          (fun i => memOf A i (0 + ((A.width : Int) - 1)) &&& leftMask (eo % 64)) 0
          (by intro i; rw [memOf_nat' A i (A.width - 1) _ (by omega)]) (fun _ _ _ _ => rfl) (fun _ _ _ _ => rfl)
          (Nat.le_refl _)
        clear hres4
        generalize Mzd.pivotScan A.nrows sr (fun i => (A.row i).w (A.width - 1) &&& leftMask (eo % 64))
          (fun d => d.getLsbD 0) 0 0 = ps at k1 k2 ⊢
        obtain ⟨data, cand⟩ := ps
        obtain ⟨rc', rd', ri', rb'⟩ := res4
        dsimp only at k1 k2
        subst k1
        dsimp_m
        by_cases hd : rd' = 0
        · subst hd
          rw [if_neg (show ¬ (decide ((0 : BitVec 64) ≠ 0#64) = true) by simp),
            if_neg (show ¬ ((0 : Word) ≠ 0) by simp)]
          rfl
        · obtain ⟨k2, k, k3⟩ := k2 hd
          subst k2
          rw [if_pos (by simpa using hd), if_pos hd]
          have hbits : ∀ j, eo ≤ j → rd'.getLsbD j = false := by
            intro j hj
            by_cases h64 : 64 ≤ j
            · exact BitVec.getLsbD_of_ge _ _ h64
            · have e : eo % 64 = eo := by omega
              rw [k3, BitVec.getLsbD_and, e, leftMask_getLsbD eo j heo1.1 heo1.2,
                decide_eq_false (by omega), Bool.and_false]
          obtain ⟨l, hl⟩ := lowestBit_some_of rd' eo hd hbits
          generalize hres5 : CLoop.loop 64 _ _ _ = res5
          have hlb := lbit_loop_eq hres5 rd' eo (((A.width : Int) - 1) * 64) (fun _ _ _ => rfl) (fun _ _ _ => rfl)
            heo1.2
          rw [hl] at hlb
          obtain ⟨dc, dl, db⟩ := res5
          dsimp only at hlb
          subst hlb
          dsimp_m
          rw [hl]
          simp [enc]
          omega
    · intro cnd wi hwi
      dsimp_m
      generalize hresS : CLoop.loop A.nrows _ _ _ = resS
      obtain ⟨k1, k2⟩ := scan4_pack hresS A.nrows (fun i => (A.row i).w wi) (fun i => memOf A i (0 + (wi : Int))) 0
        (by intro i; rw [Int.zero_add, memOf_nat]) (fun _ _ _ _ => rfl) (fun _ _ _ _ => rfl) (Nat.le_refl _)
      clear hresS
      generalize Mzd.pivotScan A.nrows sr (fun i => (A.row i).w wi) (fun d => d.getLsbD 0) 0 0 = ps at k1 k2 ⊢
      obtain ⟨data, cand⟩ := ps
      obtain ⟨rc', rd', ri', rb'⟩ := resS
      dsimp only at k1 k2
      subst k1
      dsimp_m
      refine ⟨fun hd => ?_, fun hd => ?_⟩
      · obtain ⟨k2, -⟩ := k2 hd
        subst k2
        rw [if_pos (by simpa using hd)]
        obtain ⟨l, hl⟩ := lowestBit_some_of rd' 64 hd (fun k hk => BitVec.getLsbD_of_ge _ _ hk)
        generalize hres3 : CLoop.loop 64 _ _ _ = res3
        have hlb := lbit_loop_eq hres3 rd' 64 ((wi : Int) * 64) (fun _ _ _ => rfl) (fun _ _ _ => rfl) (by omega)
        rw [hl] at hlb
        obtain ⟨dc, dl, db⟩ := res3
        dsimp only at hlb
        subst hlb
        dsimp_m
        exact ⟨l, hl, by rw [Int.natCast_add, Int.natCast_mul]; rfl⟩
      · subst hd
        rw [if_neg (show ¬ (decide ((0 : BitVec 64) ≠ 0#64) = true) by simp)]
        exact ⟨_, rfl⟩
  · obtain ⟨k2, k, k3⟩ := k2 hd
    subst k2
    rw [if_pos (by simpa using hd), if_pos hd]
    have hne : rd >>> bo ≠ 0 := by
      intro h0
      apply hd
      rw [word_eq_zero_iff] at h0 ⊢
      intro p hp
      by_cases hpb : p < bo
      · rw [k3, BitVec.getLsbD_and, rightMask_getLsbD _ _ (by omega)]
        have : ¬ (64 - (64 - bo) ≤ p ∧ p < 64) := by omega
        rw [decide_eq_false this, Bool.and_false]
      · have := h0 (p - bo) (by omega)
        rw [BitVec.getLsbD_ushiftRight] at this
        have e : bo + (p - bo) = p := by omega
        rw [e] at this
        exact this
    have hbits : ∀ k, 64 - bo ≤ k → (rd >>> bo).getLsbD k = false := by
      intro k hk
      rw [BitVec.getLsbD_ushiftRight]
      exact BitVec.getLsbD_of_ge _ _ (by omega)
    obtain ⟨l, hl⟩ := lowestBit_some_of (rd >>> bo) (64 - bo) hne hbits
    generalize hres3 : CLoop.loop 64 _ _ _ = res3
    have hlb := lbit_loop_eq hres3 (rd >>> bo) (64 - bo) sc (fun _ _ _ => rfl) (fun _ _ _ => rfl) (by omega)
    rw [hl] at hlb
    obtain ⟨dc, dl, db⟩ := res3
    dsimp only at hlb
    subst hlb
    dsimp_m
    rw [hl]
    simp [enc]

/-- `mzd_find_pivot(A, start_row, start_col, &r, &c)`: return value and the two out-parameters.
    No hypothesis is needed: out-of-range reads give 0 on both sides, and all four code paths
    (short tail / first word / complete words / last word) agree with the model for every natural
    `start_row`, `start_col`. -/
theorem mzdFindPivot_eq (A : Mzd) (sr sc r0 c0 : Nat) :
    Gen.C.mzdFindPivot sr sc r0 c0 A.nrows A.ncols (memOf A) A.width =
      match A.findPivot sr sc with
      | some (r, c) => (1, (r : Int), (c : Int))
      | none => (0, (r0 : Int), (c0 : Int)) := by
  have h : Gen.C.mzdFindPivot sr sc r0 c0 A.nrows A.ncols (memOf A) A.width = enc r0 c0 (A.findPivot sr sc) := by
    by_cases hs : A.ncols - sc < 64
    · exact findPivot_short A sr sc r0 c0 hs
    · exact findPivot_long A sr sc r0 c0 hs
  rw [h]
  cases A.findPivot sr sc with
  | none => rfl
  | some rc => obtain ⟨r, c⟩ := rc; rfl

/-! ### 4. `mzd_gauss_delayed` -/

/-- `B` is a well-formed abstract value of the shape of `M` -/
def Good (M : Mzd) (B : BMat) : Prop := B.WF ∧ B.nrows = M.nrows ∧ B.ncols = M.ncols

theorem readBit_putB (M : Mzd) (B : BMat) (hM : M.WF) (i j : Nat) (hi : i < M.nrows) (hj : j < M.ncols) :
    (M.putB B).readBit i j = B.get i j :=
  Mzd.bit_putB_of_lt M B hM i j hi hj

theorem rowSwap_putB (M : Mzd) (B : BMat) (hM : M.WF) (hB : Good M B) (a b : Nat)
    (ha : a < M.nrows) (hb : b < M.nrows) :
    (M.putB B).rowSwap a b = M.putB (B.swapRows a b) := by
  have hN : (M.putB B).WF := Mzd.WF_putB hM B
  unfold Mzd.rowSwap
  apply Mzd.eq_putB_of_bit (Mzd.rowSwapFrom_WF _ a b 0 hN ha hb) hM
    (Mzd.nrows_rowSwapFrom _ a b 0) (Mzd.ncols_rowSwapFrom _ a b 0)
  intro i j hi hj
  rw [Mzd.rowSwapFrom_bit _ a b 0 hN ha hb i j hi hj]
  have hp : (if i = a then b else if i = b then a else i) < M.nrows := by
    split
    · exact hb
    · split
      · exact ha
      · exact hi
  rw [Mzd.bit_putB M B hM _ j hp hj, Mzd.bit_putB M B hM i j hi hj]
  simp only [Mzd.ncols_putB, Nat.zero_le, and_true]
  by_cases hjn : j < M.ncols
  · simp only [hjn, if_true]
    unfold BMat.get
    rw [BMat.row_swapRows hB.1 a b i (by rw [hB.2.1]; exact ha) (by rw [hB.2.1]; exact hb)]
    by_cases h1 : i = a
    · simp [h1]
    · by_cases h2 : i = b
      · subst h2
        rw [if_neg h1, if_neg h1, if_pos rfl, if_pos rfl]
      · simp [h1, h2]
  · simp only [hjn, if_false]

theorem rowAddOffset_putB (M : Mzd) (B : BMat) (hM : M.WF) (hB : Good M B) (d s off : Nat)
    (hd : d < M.nrows) (hs : s < M.nrows) (hne : d ≠ s) (hoff : off < M.ncols) :
    (M.putB B).rowAddOffset d s off = M.putB (B.addRowFrom d s off) := by
  have hN : (M.putB B).WF := Mzd.WF_putB hM B
  apply Mzd.eq_putB_of_bit (Mzd.rowAddOffset_WF _ d s off hN hd) hM rfl rfl
  intro i j hi hj
  rw [Mzd.rowAddOffset_bit _ d s off hN hne hd hs hoff i j]
  rw [Mzd.bit_putB M B hM d j hd hj, Mzd.bit_putB M B hM s j hs hj, Mzd.bit_putB M B hM i j hi hj]
  simp only [Mzd.ncols_putB]
  rw [BMat.get_addRowFrom hB.1 d s off i j (by rw [hB.2.1]; exact hd)]
  by_cases hjn : j < M.ncols
  · by_cases h1 : i = d
    · subst h1
      by_cases h2 : off ≤ j
      · simp [hjn, h2]
      · simp [hjn, h2]
    · simp [hjn, h1]
  · simp [hjn]

theorem good_toB (M : Mzd) (hM : M.WF) : Good M M.toB := ⟨Mzd.WF_toB hM, rfl, rfl⟩
theorem good_swapRows {M : Mzd} {B : BMat} (h : Good M B) (a b : Nat) : Good M (B.swapRows a b) :=
  ⟨BMat.WF_swapRows h.1 a b, by rw [BMat.nrows_swapRows]; exact h.2.1, by rw [BMat.ncols_swapRows]; exact h.2.2⟩
theorem good_addRowFrom {M : Mzd} {B : BMat} (h : Good M B) (d s o : Nat) : Good M (B.addRowFrom d s o) :=
  ⟨BMat.WF_addRowFrom h.1 d s o, h.2.1, h.2.2⟩


theorem loop_find_eq {σ : Type} {cond : σ → Bool} {body : σ → σ} {fuel : Nat} {s res : σ}
    (hres : CLoop.loop fuel cond body s = res)
    (st : Nat → σ) (p : Nat → Bool) (lo hi : Nat) (hs : s = st lo) (hf : hi - lo ≤ fuel)
    (hcond : ∀ k, cond (st k) = decide (k < hi))
    (hmiss : ∀ k, k < hi → p k = false → body (st k) = st (k + 1))
    (hhit : ∀ k, k < hi → p k = true → cond (body (st k)) = false) :
    res = match (List.range' lo (hi - lo)).find? p with
      | some j => body (st j)
      | none => st (max lo hi) := by
  subst hres hs
  exact loop_find cond body st p hi hcond hmiss hhit fuel lo hf

theorem loop_foldl_eq {σ α : Type} {cond : σ → Bool} {body : σ → σ} {fuel : Nat} {s res : σ}
    (hres : CLoop.loop fuel cond body s = res)
    (abs : α → Nat → σ) (f : α → Nat → α) (Inv : α → Nat → Prop) (lo hi : Nat) (a : α)
    (hs : s = abs a lo) (hf : hi - lo ≤ fuel) (h0 : Inv a lo)
    (hcond : ∀ a k, cond (abs a k) = decide (k < hi))
    (hbody : ∀ a k, Inv a k → k < hi → body (abs a k) = abs (f a k) (k + 1) ∧ Inv (f a k) (k + 1)) :
    res = abs ((List.range' lo (hi - lo)).foldl f a) (max lo hi) ∧
      Inv ((List.range' lo (hi - lo)).foldl f a) (max lo hi) := by
  subst hres hs
  exact loop_foldl cond body abs f Inv hi hcond hbody fuel lo a hf h0

theorem read_step (M : Mzd) (B : BMat) (hM : M.WF) (i j : Nat) (hi : i < M.nrows) (hj : j < M.ncols) :
    Gen.C.mzdReadBit i j (memOf (M.putB B)) = if B.get i j then 1 else 0 := by
  rw [mzdReadBit_eq, readBit_putB M B hM i j hi hj]

theorem swap_step (M : Mzd) (B : BMat) (hM : M.WF) (hB : Good M B) (a b : Nat)
    (ha : a < M.nrows) (hb : b < M.nrows) :
    Gen.C.mzdRowSwap0 a b (memOf (M.putB B)) M.width M.hb = memOf (M.putB (B.swapRows a b)) := by
  have h := mzdRowSwap0_eq (M.putB B) a b (Mzd.WF_putB hM B) ha hb
  rw [Mzd.width_putB, Mzd.hb_putB] at h
  rw [h, rowSwap_putB M B hM hB a b ha hb]

theorem add_step (M : Mzd) (B : BMat) (hM : M.WF) (hB : Good M B) (d s off : Nat)
    (hd : d < M.nrows) (hs : s < M.nrows) (hne : d ≠ s) (hoff : off < M.ncols) :
    Gen.C.mzdRowAddOffset d s off (memOf (M.putB B)) M.width M.hb = memOf (M.putB (B.addRowFrom d s off)) := by
  have hw : off < 64 * M.width := by unfold Mzd.width widthOf; omega
  have h := mzdRowAddOffset_eq (M.putB B) d s off (Mzd.WF_putB hM B) hd hne hw
  rw [Mzd.width_putB, Mzd.hb_putB] at h
  rw [h, rowAddOffset_putB M B hM hB d s off hd hs hne hoff]

theorem good_elimStep {M : Mzd} {B : BMat} (h : Good M B) (s i ii : Nat) : Good M (elimStep s i B ii) := by
  unfold elimStep
  split
  · exact good_addRowFrom h _ _ _
  · exact h

/-- `mzd_gauss_delayed(M, startcol, full)`: the generated function returns the pivot count of the
    row-level model `gaussDelayed` on the abstract value `M.toB` and the memory of `M.putB B'`, i.e. of the
    matrix whose entries are those of the model result `B'` and whose excess bits are those of `M`.
    Only well-formedness of `M` is needed (no `padZero`, no bound on `startcol`). -/
theorem mzdGaussDelayed_eq (M : Mzd) (startcol : Nat) (full : Bool) (hwf : M.WF) :
    Gen.C.mzdGaussDelayed startcol (if full then 1 else 0) (memOf M) M.ncols M.nrows M.width M.hb =
      (((gaussDelayed M.toB startcol full).2 : Int), memOf (M.putB (gaussDelayed M.toB startcol full).1)) := by
  unfold Gen.C.mzdGaussDelayed
  dsimp_m
  rw [gaussDelayed_eq]
  simp_m [Int.toNat_natCast]
  generalize hres : CLoop.loop M.ncols _ _ _ = res
  have key := loop_foldl_eq hres
    (fun (a : BMat × Nat × Nat) k => (memOf (M.putB a.1), (a.2.2 : Int), (a.2.1 : Int), (k : Int)))
    (gstep full) (fun a _ => Good M a.1) startcol M.ncols (M.toB, startcol, 0)
    (by rw [Mzd.putB_toB hwf]; rfl) (by omega) (good_toB M hwf) ?hcond ?hbody
  case hcond =>
    intro a k
    dsimp_m
    simp
  case hbody =>
    intro a k hI hk
    obtain ⟨B, s, p⟩ := a
    replace hI : Good M B := hI
    dsimp_m
    -- search loop
    generalize hresJ : CLoop.loop M.nrows _ _ _ = resJ
    have keyJ := loop_find_eq hresJ
      (fun j => (memOf (M.putB B), (p : Int), (s : Int), (j : Int), false)) (fun j => B.get j k)
      s M.nrows rfl (by omega) ?hc ?hmiss ?hhit
    case hc =>
      intro j
      dsimp_m
      simp
    case hmiss =>
      intro j hj hp
      dsimp_m
      rw [read_step M B hwf j k hj hk, hp, if_neg (by simp), Int.natCast_add]
      rfl
    case hhit =>
      intro j hj hp
      dsimp_m
      rw [read_step M B hwf j k hj hk, hp, if_pos (by simp)]
      generalize CLoop.loop M.nrows _ _ _ = r
      obtain ⟨m, ii⟩ := r
      rfl
    clear hresJ
    have hgs : gstep full (B, s, p) k =
        match (List.range' s (M.nrows - s)).find? (fun j => B.get j k) with
        | none => (B, s, p)
        | some j => (elimLoop full s k (B.swapRows s j), s + 1, p + 1) := by
      unfold gstep
      dsimp only
      rw [hI.2.1]
      cases List.find? (fun j => B.get j k) (List.range' s (M.nrows - s)) <;> rfl
    rw [hgs]
    cases hf : (List.range' s (M.nrows - s)).find? (fun j => B.get j k) with
    | none =>
      rw [hf] at keyJ
      subst keyJ
      dsimp_m
      refine ⟨?_, hI⟩
      rw [Int.natCast_add]
      rfl
    | some j =>
      rw [hf] at keyJ
      have hjm := List.mem_of_find?_eq_some hf
      have hjp : B.get j k = true := by simpa using List.find?_some hf
      rw [List.mem_range'_1] at hjm
      have hj : j < M.nrows := by omega
      have hs : s < M.nrows := by omega
      dsimp_m at keyJ
      rw [read_step M B hwf j k hj hk, hjp, if_pos (by simp), swap_step M B hwf hI s j hs hj] at keyJ
      -- elimination loop
      generalize hresI : CLoop.loop M.nrows _ _ _ = resI at keyJ
      have keyI := loop_foldl_eq hresI
        (fun (B' : BMat) ii => (memOf (M.putB B'), (ii : Int)))
        (elimStep s k) (fun B' _ => Good M B') (if full then 0 else s + 1) M.nrows (B.swapRows s j)
        (by cases full <;> simp) (by omega) (good_swapRows hI s j) ?hc2 ?hb2
      case hc2 =>
        intro B' ii
        dsimp_m
        simp
      case hb2 =>
        intro B' ii hB' hii
        dsimp_m
        refine ⟨?_, good_elimStep hB' s k ii⟩
        unfold elimStep
        by_cases h1 : ii = s
        · subst h1
          rw [if_neg (by simp), if_neg (by simp), Int.natCast_add]
          rfl
        · rw [if_pos (by simp; omega), read_step M B' hwf ii k hii hk]
          by_cases h2 : B'.get ii k = true
          · rw [h2, if_pos (by simp), if_pos ⟨h1, rfl⟩, add_step M B' hwf hB' ii s k hii hs h1 hk, Int.natCast_add]
            rfl
          · rw [Bool.not_eq_true] at h2
            rw [h2, if_neg (by simp), if_neg (by simp), Int.natCast_add]
            rfl
      obtain ⟨i1, i2⟩ := keyI
      subst i1
      dsimp_m at keyJ
      subst keyJ
      dsimp_m
      unfold elimLoop
      rw [BMat.nrows_swapRows, hI.2.1]
      refine ⟨?_, i2⟩
      rw [Int.natCast_add, Int.natCast_add, Int.natCast_add]
      rfl
  obtain ⟨k1, k2⟩ := key
  subst k1
  rfl

theorem good_foldl_elimStep {M : Mzd} (s i : Nat) (l : List Nat) :
    ∀ {B : BMat}, Good M B → Good M (l.foldl (elimStep s i) B) := by
  induction l with
  | nil => intro B h; exact h
  | cons a t ih => intro B h; exact ih (good_elimStep h s i a)

theorem good_gstep {M : Mzd} (full : Bool) (st : BMat × Nat × Nat) (i : Nat) (h : Good M st.1) :
    Good M (gstep full st i).1 := by
  unfold gstep
  split
  · exact h
  · exact good_foldl_elimStep _ _ _ (good_swapRows h _ _)

theorem good_gaussDelayed (M : Mzd) (hwf : M.WF) (startcol : Nat) (full : Bool) :
    Good M (gaussDelayed M.toB startcol full).1 := by
  rw [gaussDelayed_eq]
  have : ∀ (l : List Nat) (st : BMat × Nat × Nat), Good M st.1 → Good M (l.foldl (gstep full) st).1 := by
    intro l
    induction l with
    | nil => intro st h; exact h
    | cons a t ih => intro st h; exact ih _ (good_gstep full st a h)
  exact this _ _ (good_toB M hwf)

/-- `mzdGaussDelayed_eq` in "lens" form: the result memory is that of a well-formed matrix `M'` of the
    same shape with `M'.toB = B'` (the model result) and the excess bits of `M`. -/
theorem mzdGaussDelayed_spec (M : Mzd) (startcol : Nat) (full : Bool) (hwf : M.WF) :
    ∃ M' : Mzd,
      Gen.C.mzdGaussDelayed startcol (if full then 1 else 0) (memOf M) M.ncols M.nrows M.width M.hb =
        (((gaussDelayed M.toB startcol full).2 : Int), memOf M') ∧
      M'.WF ∧ M'.nrows = M.nrows ∧ M'.ncols = M.ncols ∧
      M'.toB = (gaussDelayed M.toB startcol full).1 ∧
      (∀ i j, i < M.nrows → M.ncols ≤ j → j < 64 * M.width → M'.bit i j = M.bit i j) := by
  have hg := good_gaussDelayed M hwf startcol full
  refine ⟨M.putB (gaussDelayed M.toB startcol full).1, mzdGaussDelayed_eq M startcol full hwf,
    Mzd.WF_putB hwf _, rfl, rfl, Mzd.toB_putB hwf hg.1 hg.2.1 hg.2.2, ?_⟩
  intro i j hi hj hj'
  exact Mzd.bit_putB_of_ge M _ hwf i j hi hj hj'

/-- for a matrix that owns its storage (zero excess bits) the result is the fresh image of the model result -/
theorem mzdGaussDelayed_eq_ofB (M : Mzd) (startcol : Nat) (full : Bool) (hwf : M.WF) (hp : M.padZero) :
    Gen.C.mzdGaussDelayed startcol (if full then 1 else 0) (memOf M) M.ncols M.nrows M.width M.hb =
      (((gaussDelayed M.toB startcol full).2 : Int), memOf (Mzd.ofB (gaussDelayed M.toB startcol full).1)) := by
  have hg := good_gaussDelayed M hwf startcol full
  rw [mzdGaussDelayed_eq M startcol full hwf, Mzd.putB_eq_ofB hwf hp _ hg.2.1 hg.2.2]

/-- non-vacuity: a closed well-formed view with non-zero excess bits -/
example : ∃ M' : Mzd, M'.WF ∧ M'.toB = (gaussDelayed exView.toB 0 true).1 :=
  let ⟨M', _, h1, _, _, h2, _⟩ := mzdGaussDelayed_spec exView 0 true exView_WF
  ⟨M', h1, h2⟩

#print axioms mzdRowSwap0_eq
#print axioms mzdRowAdd_eq
#print axioms mzdFindPivot_eq
#print axioms mzdGaussDelayed_eq
#print axioms mzdGaussDelayed_spec
#print axioms mzdGaussDelayed_eq_ofB

end M4ri.GenTieAlg
