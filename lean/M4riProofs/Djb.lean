/-
  C01, last clause: a compiled DJB linear map applied to a zeroed target yields exactly `A·V`
  (`M4ri/Djb.lean`, mirror of `m4ri/djb.c`).
-/
import M4ri.Djb
import M4riProofs.MulR
namespace M4ri
namespace Djb
open BMat MulR

/-! ## §1 the comparison `mzd_compare_rows_revlex` is `≥` on the rows read as numbers -/

theorem mod_pow_succ_words (r j : Nat) :
    r % 2 ^ (64 * (j + 1)) = wordOf r j * 2 ^ (64 * j) + r % 2 ^ (64 * j) := by
  unfold wordOf
  rw [Nat.shiftRight_eq_div_pow, Nat.mul_succ, Nat.pow_add, Nat.mod_mul, Nat.add_comm, Nat.mul_comm]

theorem cmpWords_eq (ra rb w : Nat) :
    cmpWords ra rb w = decide (rb % 2 ^ (64 * w) ≤ ra % 2 ^ (64 * w)) := by
  induction w with
  | zero => simp [cmpWords, Nat.mod_one]
  | succ j ih =>
    unfold cmpWords
    rw [mod_pow_succ_words ra j, mod_pow_succ_words rb j, ih]
    have ha : ra % 2 ^ (64 * j) < 2 ^ (64 * j) := Nat.mod_lt _ (Nat.two_pow_pos _)
    have hb : rb % 2 ^ (64 * j) < 2 ^ (64 * j) := Nat.mod_lt _ (Nat.two_pow_pos _)
    generalize ra % 2 ^ (64 * j) = x at *
    generalize rb % 2 ^ (64 * j) = y at *
    generalize wordOf ra j = wa
    generalize wordOf rb j = wb
    generalize 2 ^ (64 * j) = P at *
    by_cases h1 : wa < wb
    · simp only [h1, if_true]
      have : (wa + 1) * P ≤ wb * P := Nat.mul_le_mul_right P h1
      rw [Nat.succ_mul] at this
      symm; simp only [decide_eq_false_iff_not]; omega
    · simp only [h1, if_false]
      by_cases h2 : wa > wb
      · simp only [h2, if_true]
        have : (wb + 1) * P ≤ wa * P := Nat.mul_le_mul_right P h2
        rw [Nat.succ_mul] at this
        symm; simp only [decide_eq_true_eq]; omega
      · simp only [h2, if_false]
        have : wa = wb := by omega
        subst this
        congr 1; apply propext; omega

/-- the key `(row mod 2^(64·width))` the comparison really orders by -/
def key (A : BMat) (a : Nat) : Nat := A.row a % 2 ^ (64 * widthOf A.ncols)

theorem cmpRevlex_key (A : BMat) (a b : Nat) : cmpRevlex A a b = decide (key A b ≤ key A a) := by
  unfold cmpRevlex key; exact cmpWords_eq _ _ _

theorem cmpRevlex_refl (A : BMat) (a : Nat) : cmpRevlex A a a = true := by
  simp [cmpRevlex_key]

theorem cmpRevlex_total (A : BMat) (a b : Nat) (h : cmpRevlex A a b = false) : cmpRevlex A b a = true := by
  simp only [cmpRevlex_key, decide_eq_false_iff_not, decide_eq_true_eq] at *; omega

theorem cmpRevlex_trans (A : BMat) (a b c : Nat) (h1 : cmpRevlex A a b = true) (h2 : cmpRevlex A b c = true) :
    cmpRevlex A a c = true := by
  simp only [cmpRevlex_key, decide_eq_true_eq] at *; omega

theorem pow_ncols_le_width (c : Nat) : 2 ^ c ≤ 2 ^ (64 * widthOf c) :=
  Nat.pow_le_pow_right (by omega) (by unfold widthOf; omega)

/-- on a matrix whose rows fit in `ncols` bits the comparison is `row a ≥ row b` -/
theorem cmpRevlex_eq (A : BMat) (hA : ∀ i, A.row i < 2 ^ A.ncols) (a b : Nat) :
    cmpRevlex A a b = decide (A.row b ≤ A.row a) := by
  rw [cmpRevlex_key]; unfold key
  rw [Nat.mod_eq_of_lt (Nat.lt_of_lt_of_le (hA a) (pow_ncols_le_width _)),
      Nat.mod_eq_of_lt (Nat.lt_of_lt_of_le (hA b) (pow_ncols_le_width _))]

/-- the comparison looks at the two rows only -/
theorem cmpRevlex_congr (A B : BMat) (a b : Nat) (hc : A.ncols = B.ncols) (ha : A.row a = B.row a)
    (hb : A.row b = B.row b) : cmpRevlex A a b = cmpRevlex B a b := by
  unfold cmpRevlex; rw [hc, ha, hb]

/-! ## §2 the heap -/

/-- total read -/
def g (d : Array Nat) (j : Nat) : Nat := d.getD j 0

theorem g_set (d : Array Nat) (i v j : Nat) (hi : i < d.size) :
    g (d.setIfInBounds i v) j = if j = i then v else g d j := by
  unfold g
  simp only [Array.getD_eq_getD_getElem?, Array.getElem?_setIfInBounds]
  by_cases h : i = j
  · subst h; simp [hi]
  · have h' : ¬ j = i := fun e => h e.symm
    simp [h, h']

/-- heap order: every node is `≤` its parent -/
def HeapOrd (A : BMat) (d : Array Nat) : Prop :=
  ∀ j, 0 < j → j < d.size → cmpRevlex A (g d ((j - 1) / 2)) (g d j) = true

theorem size_siftUp (A : BMat) (value : Nat) (data : Array Nat) (index : Nat) :
    (siftUp A value data index).size = data.size := by
  fun_induction siftUp A value data index with
  | case1 data => simp
  | case2 data index h parent hc => simp
  | case3 data index h parent hc ih => rw [ih]; simp

theorem size_siftDown (A : BMat) (temp : Nat) (data : Array Nat) (index : Nat) :
    (siftDown A temp data index).size = data.size := by
  fun_induction siftDown A temp data index with
  | case1 data index swap h => simp
  | case2 data index swap h other swap' hc => simp
  | case3 data index swap h other swap' hc ih => rw [ih]; simp

theorem g_def (d : Array Nat) (j : Nat) : d.getD j 0 = g d j := rfl

/-- sift-up with a hole at `index`: (h1) pairs not touching the hole are ordered, (h1c) `value` dominates
    the children of the hole, (h2) the parent of the hole dominates the children of the hole -/
theorem siftUp_heap (A : BMat) (value : Nat) (data : Array Nat) (index : Nat) :
    index < data.size →
    (∀ j, 0 < j → j < data.size → j ≠ index → (j - 1) / 2 ≠ index →
        cmpRevlex A (g data ((j - 1) / 2)) (g data j) = true) →
    (∀ c, 0 < c → c < data.size → (c - 1) / 2 = index → cmpRevlex A value (g data c) = true) →
    (0 < index → ∀ c, 0 < c → c < data.size → (c - 1) / 2 = index →
        cmpRevlex A (g data ((index - 1) / 2)) (g data c) = true) →
    HeapOrd A (siftUp A value data index) := by
  fun_induction siftUp A value data index with
  | case1 data =>
    intro hidx h1 h1c _ j hj0 hjs
    simp only [Array.size_setIfInBounds] at hjs
    simp only [g_set _ _ _ _ hidx]
    by_cases hp : (j - 1) / 2 = 0
    · simp only [hp, if_true, if_neg (Nat.ne_of_gt hj0)]; exact h1c j hj0 hjs hp
    · simp only [if_neg hp, if_neg (Nat.ne_of_gt hj0)]; exact h1 j hj0 hjs (Nat.ne_of_gt hj0) hp
  | case2 data index h parent hc =>
    intro hidx h1 h1c _ j hj0 hjs
    simp only [Array.size_setIfInBounds] at hjs
    simp only [g_set _ _ _ _ hidx]
    by_cases hj : j = index
    · subst hj
      have : ¬ (j - 1) / 2 = j := by omega
      simp only [if_neg this, if_true]; exact hc
    · by_cases hp : (j - 1) / 2 = index
      · simp only [hp, if_true, if_neg hj]; exact h1c j hj0 hjs hp
      · simp only [if_neg hp, if_neg hj]; exact h1 j hj0 hjs hj hp
  | case3 data index h parent hc ih =>
    intro hidx h1 h1c h2
    have hi0 : 0 < index := Nat.pos_of_ne_zero h
    have hpi : parent ≠ index := by show (index - 1) / 2 ≠ index; omega
    have hps : parent < data.size := by show (index - 1) / 2 < data.size; omega
    have hvp : cmpRevlex A value (g data parent) = true :=
      cmpRevlex_total A (g data parent) value ((Bool.not_eq_true _).mp hc)
    simp only [g_def] at ih ⊢
    apply ih
    · simpa using hps
    · intro j hj0 hjs hjp hpp
      simp only [Array.size_setIfInBounds] at hjs
      simp only [g_set _ _ _ _ hidx]
      have hji : j ≠ index := fun e => hpp (by subst e; rfl)
      by_cases hp : (j - 1) / 2 = index
      · simp only [hp, if_true, if_neg hji]; exact h2 hi0 j hj0 hjs hp
      · simp only [if_neg hp, if_neg hji]; exact h1 j hj0 hjs hji hp
    · intro c hc0 hcs hcp
      simp only [Array.size_setIfInBounds] at hcs
      simp only [g_set _ _ _ _ hidx]
      by_cases hci : c = index
      · simp only [hci, if_true]; exact hvp
      · simp only [if_neg hci]
        refine cmpRevlex_trans _ _ _ _ hvp ?_
        have := h1 c hc0 hcs hci (by rw [hcp]; exact hpi)
        rwa [hcp] at this
    · intro hp0 c hc0 hcs hcp
      simp only [Array.size_setIfInBounds] at hcs
      simp only [g_set _ _ _ _ hidx]
      have hgp : ¬ (parent - 1) / 2 = index := by
        have : parent = (index - 1) / 2 := rfl
        omega
      have hpp : cmpRevlex A (g data ((parent - 1) / 2)) (g data parent) = true :=
        h1 parent hp0 hps hpi hgp
      simp only [if_neg hgp]
      by_cases hci : c = index
      · simp only [hci, if_true]; exact hpp
      · simp only [if_neg hci]
        refine cmpRevlex_trans _ _ _ _ hpp ?_
        have := h1 c hc0 hcs hci (by rw [hcp]; exact hpi)
        rwa [hcp] at this

/-- the child chosen by `heap_pop` dominates both children -/
theorem maxChild (A : BMat) (data : Array Nat) (index : Nat) (h : 2 * index + 1 < data.size) :
    let s := if 2 * index + 1 + 1 < data.size &&
        cmpRevlex A (g data (2 * index + 1 + 1)) (g data (2 * index + 1)) then 2 * index + 1 + 1 else 2 * index + 1
    (s - 1) / 2 = index ∧ 0 < s ∧ s < data.size ∧ index < s ∧
    ∀ c, 0 < c → c < data.size → (c - 1) / 2 = index → cmpRevlex A (g data s) (g data c) = true := by
  intro s
  by_cases hcond : (2 * index + 1 + 1 < data.size &&
        cmpRevlex A (g data (2 * index + 1 + 1)) (g data (2 * index + 1))) = true
  · have hs : s = 2 * index + 1 + 1 := by simp only [s, hcond, if_true]
    simp only [Bool.and_eq_true, decide_eq_true_eq] at hcond
    refine ⟨by omega, by omega, by omega, by omega, fun c hc0 hcs hcp => ?_⟩
    have : c = 2 * index + 1 ∨ c = 2 * index + 1 + 1 := by omega
    rcases this with e | e
    · rw [hs, e]; exact hcond.2
    · rw [hs, e]; exact cmpRevlex_refl _ _
  · have hs : s = 2 * index + 1 := by simp only [s, hcond]; rfl
    refine ⟨by omega, by omega, by omega, by omega, fun c hc0 hcs hcp => ?_⟩
    have : c = 2 * index + 1 ∨ c = 2 * index + 1 + 1 := by omega
    rcases this with e | e
    · rw [hs, e]; exact cmpRevlex_refl _ _
    · rw [hs, e]
      apply cmpRevlex_total
      simp only [Bool.and_eq_true, decide_eq_true_eq, not_and, Bool.not_eq_true] at hcond
      exact hcond (by omega)

/-- sift-down with a hole at `index`: (d1) pairs not touching the hole are ordered, (d0) the parent of the
    hole dominates `temp`, (d2) the parent of the hole dominates the children of the hole -/
theorem siftDown_heap (A : BMat) (temp : Nat) (data : Array Nat) (index : Nat) :
    index < data.size →
    (∀ j, 0 < j → j < data.size → j ≠ index → (j - 1) / 2 ≠ index →
        cmpRevlex A (g data ((j - 1) / 2)) (g data j) = true) →
    (0 < index → cmpRevlex A (g data ((index - 1) / 2)) temp = true) →
    (0 < index → ∀ c, 0 < c → c < data.size → (c - 1) / 2 = index →
        cmpRevlex A (g data ((index - 1) / 2)) (g data c) = true) →
    HeapOrd A (siftDown A temp data index) := by
  fun_induction siftDown A temp data index with
  | case1 data index swap h =>
    intro hidx d1 d0 _ j hj0 hjs
    simp only [Array.size_setIfInBounds] at hjs
    simp only [g_set _ _ _ _ hidx]
    have hp : ¬ (j - 1) / 2 = index := by
      have : 2 * index + 1 ≥ data.size := h
      omega
    by_cases hj : j = index
    · subst hj; simp only [if_neg hp, if_true]; exact d0 hj0
    · simp only [if_neg hp, if_neg hj]; exact d1 j hj0 hjs hj hp
  | case2 data index swap h other swap' hc =>
    intro hidx d1 d0 _ j hj0 hjs
    have hlt : 2 * index + 1 < data.size := Nat.lt_of_not_le h
    have hmc : (swap' - 1) / 2 = index ∧ 0 < swap' ∧ swap' < data.size ∧ index < swap' ∧
        ∀ c, 0 < c → c < data.size → (c - 1) / 2 = index → cmpRevlex A (g data swap') (g data c) = true :=
      maxChild A data index hlt
    obtain ⟨_, _, _, hs4, hs5⟩ := hmc
    simp only [Array.size_setIfInBounds] at hjs
    simp only [g_set _ _ _ _ hidx]
    by_cases hj : j = index
    · subst hj
      have hp : ¬ (j - 1) / 2 = j := by omega
      simp only [if_neg hp, if_true]; exact d0 hj0
    · by_cases hp : (j - 1) / 2 = index
      · simp only [hp, if_true, if_neg hj]
        exact cmpRevlex_trans _ _ _ _ hc (hs5 j hj0 hjs hp)
      · simp only [if_neg hp, if_neg hj]; exact d1 j hj0 hjs hj hp
  | case3 data index swap h other swap' hc ih =>
    intro hidx d1 d0 d2
    have hlt : 2 * index + 1 < data.size := Nat.lt_of_not_le h
    have hmc : (swap' - 1) / 2 = index ∧ 0 < swap' ∧ swap' < data.size ∧ index < swap' ∧
        ∀ c, 0 < c → c < data.size → (c - 1) / 2 = index → cmpRevlex A (g data swap') (g data c) = true :=
      maxChild A data index hlt
    obtain ⟨hs1, hs2, hs3, hs4, hs5⟩ := hmc
    have hst : cmpRevlex A (g data swap') temp = true :=
      cmpRevlex_total A temp (g data swap') ((Bool.not_eq_true _).mp hc)
    simp only [g_def] at ih ⊢
    apply ih
    · simpa using hs3
    · intro j hj0 hjs hjp hpp
      simp only [Array.size_setIfInBounds] at hjs
      simp only [g_set _ _ _ _ hidx]
      by_cases hj : j = index
      · subst hj
        have hp : ¬ (j - 1) / 2 = j := by omega
        simp only [if_neg hp, if_true]
        exact d2 hj0 swap' hs2 hs3 hs1
      · by_cases hp : (j - 1) / 2 = index
        · simp only [hp, if_true, if_neg hj]; exact hs5 j hj0 hjs hp
        · simp only [if_neg hp, if_neg hj]; exact d1 j hj0 hjs hj hp
    · intro _
      simp only [g_set _ _ _ _ hidx, hs1, if_true]; exact hst
    · intro _ c hc0 hcs hcp
      simp only [Array.size_setIfInBounds] at hcs
      have hci : ¬ c = index := by omega
      simp only [g_set _ _ _ _ hidx, hs1, if_true, if_neg hci]
      have := d1 c hc0 hcs hci (by omega)
      rwa [hcp] at this

/-! ### the heap keeps its multiset -/

theorem set_hole_perm (L : List Nat) (i p v : Nat) (hi : i < L.length) (hp : p < L.length) (hne : p ≠ i) :
    ((L.set i (L.getD p 0)).set p v).Perm (L.set i v) := by
  have h := List.set_set_perm (as := L.set i v) (i := i) (j := p) (by simp [hi]) (by simp [hp])
  have e1 : (L.set i v)[p]'(by simp [hp]) = L.getD p 0 := by
    rw [List.getElem_set_ne (by omega)]; simp [List.getD, hp]
  have e2 : (L.set i v)[i]'(by simp [hi]) = v := by simp
  rw [e1, e2, List.set_set] at h
  exact h

theorem getD_toList (d : Array Nat) (j : Nat) : d.getD j 0 = d.toList.getD j 0 := by
  simp [List.getD]

theorem siftUp_perm (A : BMat) (value : Nat) (data : Array Nat) (index : Nat) :
    index < data.size → (siftUp A value data index).toList.Perm (data.toList.set index value) := by
  fun_induction siftUp A value data index with
  | case1 data => intro _; simp
  | case2 data index h parent hc => intro _; simp
  | case3 data index h parent hc ih =>
    intro hidx
    have hps : parent < data.size := by show (index - 1) / 2 < data.size; omega
    have hpi : parent ≠ index := by show (index - 1) / 2 ≠ index; omega
    refine (ih (by simpa using hps)).trans ?_
    rw [Array.toList_setIfInBounds, getD_toList]
    exact set_hole_perm _ _ _ _ (by simpa using hidx) (by simpa using hps) hpi

theorem siftDown_perm (A : BMat) (temp : Nat) (data : Array Nat) (index : Nat) :
    index < data.size → (siftDown A temp data index).toList.Perm (data.toList.set index temp) := by
  fun_induction siftDown A temp data index with
  | case1 data index swap h => intro _; simp
  | case2 data index swap h other swap' hc => intro _; simp
  | case3 data index swap h other swap' hc ih =>
    intro hidx
    have hlt : 2 * index + 1 < data.size := Nat.lt_of_not_le h
    have hmc : (swap' - 1) / 2 = index ∧ 0 < swap' ∧ swap' < data.size ∧ index < swap' ∧
        ∀ c, 0 < c → c < data.size → (c - 1) / 2 = index → cmpRevlex A (g data swap') (g data c) = true :=
      maxChild A data index hlt
    obtain ⟨_, _, hs3, hs4, _⟩ := hmc
    refine (ih (by simpa using hs3)).trans ?_
    rw [Array.toList_setIfInBounds, getD_toList]
    exact set_hole_perm _ _ _ _ (by simpa using hidx) (by simpa using hs3) (by omega)

theorem g_push (d : Array Nat) (v j : Nat) : g (d.push v) j = if j = d.size then v else g d j := by
  unfold g
  simp only [Array.getD_eq_getD_getElem?, Array.getElem?_push]
  by_cases h : j = d.size
  · simp [h]
  · simp [h]

theorem g_pop (d : Array Nat) (j : Nat) (hj : j < d.size - 1) : g d.pop j = g d j := by
  unfold g
  simp only [Array.getD_eq_getD_getElem?, Array.getElem?_pop]
  simp [hj]

theorem heapPush_heap (A : BMat) (h : Heap) (v : Nat) (hh : HeapOrd A h.data) :
    HeapOrd A (heapPush A h v).data := by
  unfold heapPush
  apply siftUp_heap
  · simp
  · intro j hj0 hjs hj1 hj2
    simp only [Array.size_push] at hjs
    have hlt : j < h.data.size := by omega
    rw [g_push, g_push, if_neg (by omega), if_neg (by omega)]
    exact hh j hj0 hlt
  · intro c hc0 hcs hcp
    simp only [Array.size_push] at hcs; omega
  · intro _ c hc0 hcs hcp
    simp only [Array.size_push] at hcs; omega

theorem heapPush_perm (A : BMat) (h : Heap) (v : Nat) :
    (heapPush A h v).data.toList.Perm (v :: h.data.toList) := by
  unfold heapPush
  refine (siftUp_perm A v (h.data.push v) h.data.size (by simp)).trans ?_
  have : (h.data.push v).toList.set h.data.size v = h.data.toList ++ [v] := by
    rw [Array.toList_push, ← Array.length_toList, List.set_append_right _ _ (Nat.le_refl _)]
    simp
  rw [this]
  exact List.perm_append_singleton v _

theorem heapPop_heap (A : BMat) (h : Heap) (hh : HeapOrd A h.data) :
    HeapOrd A (heapPop A h).data := by
  unfold heapPop
  by_cases hs : h.data.size ≤ 1
  · intro j hj0 hjs
    rw [size_siftDown, Array.size_pop] at hjs; omega
  · apply siftDown_heap
    · simp only [Array.size_pop]; omega
    · intro j hj0 hjs hj1 hj2
      simp only [Array.size_pop] at hjs
      rw [g_pop _ _ hjs, g_pop _ _ (by omega)]
      exact hh j hj0 (by omega)
    · intro h0; omega
    · intro h0; omega

theorem heapPop_data (A : BMat) (h : Heap) :
    (heapPop A h).data = siftDown A (h.data.getD (h.data.size - 1) 0) h.data.pop 0 := rfl

theorem heapPush_data (A : BMat) (h : Heap) (v : Nat) :
    (heapPush A h v).data = siftUp A v (h.data.push v) h.data.size := rfl

theorem pop_list_perm (l : List Nat) (h2 : 2 ≤ l.length) :
    (l.getD 0 0 :: (l.dropLast.set 0 (l.getD (l.length - 1) 0))).Perm l := by
  match l, h2 with
  | x :: y :: t, _ =>
    have hne : (y :: t) ≠ [] := by simp
    have hlast : (x :: y :: t).getD ((x :: y :: t).length - 1) 0 = (y :: t).getLast hne := by
      simp [List.getD, List.getLast_eq_getElem]
    rw [hlast]
    simp only [List.dropLast_cons_cons, List.set_cons_zero]
    have : (x :: y :: t).getD 0 0 = x := by simp [List.getD]
    rw [this]
    refine List.Perm.cons _ ?_
    have e : (y :: t) = (y :: t).dropLast ++ [(y :: t).getLast hne] := (List.dropLast_concat_getLast hne).symm
    conv => rhs; rw [e]
    exact (List.perm_append_singleton _ _).symm

theorem heapPop_perm (A : BMat) (h : Heap) (hs : 0 < h.data.size) :
    (heapFront h :: (heapPop A h).data.toList).Perm h.data.toList := by
  rw [heapPop_data]; unfold heapFront
  by_cases h1 : h.data.size = 1
  · have hsz : (siftDown A (h.data.getD (h.data.size - 1) 0) h.data.pop 0).size = 0 := by
      rw [size_siftDown, Array.size_pop]; omega
    rw [Array.eq_empty_of_size_eq_zero hsz]
    have hl : h.data.toList.length = 1 := by simpa using h1
    obtain ⟨x, hx⟩ := List.length_eq_one_iff.mp hl
    rw [getD_toList, hx]; simp [List.getD]
  · have hp : 0 < h.data.pop.size := by simp only [Array.size_pop]; omega
    refine (List.Perm.cons _ (siftDown_perm A _ h.data.pop 0 hp)).trans ?_
    rw [getD_toList, getD_toList, Array.toList_pop, ← Array.length_toList]
    exact pop_list_perm _ (by rw [Array.length_toList]; omega)

/-- **the heap front is a maximum** -/
theorem heapFront_is_max (A : BMat) (d : Array Nat) (hh : HeapOrd A d) :
    ∀ j, j < d.size → cmpRevlex A (g d 0) (g d j) = true := by
  intro j
  induction j using Nat.strongRecOn with
  | _ j ih =>
    intro hj
    by_cases h0 : j = 0
    · subst h0; exact cmpRevlex_refl _ _
    · exact cmpRevlex_trans _ _ _ _ (ih ((j - 1) / 2) (by omega) (by omega)) (hh j (by omega) hj)

theorem heapFront_ge_mem (A : BMat) (h : Heap) (hh : HeapOrd A h.data) (x : Nat) (hx : x ∈ h.data.toList) :
    cmpRevlex A (heapFront h) x = true := by
  obtain ⟨j, hj, rfl⟩ := List.mem_iff_getElem.mp hx
  have := heapFront_is_max A h.data hh j (by simpa using hj)
  unfold heapFront
  rw [g_def]
  have e : g h.data j = h.data.toList[j] := by
    unfold g; simp at hj; simp [hj]
  rwa [e] at this

theorem heapFront_mem (h : Heap) (hs : 0 < h.data.size) : heapFront h ∈ h.data.toList := by
  unfold heapFront
  have : h.data.getD 0 0 = h.data.toList[0]'(by simpa using hs) := by simp [hs]
  rw [this]; exact List.getElem_mem _

/-! ## §3 rows of products; one `djb_apply_mzd` step undoes one `djb_compile` step -/

theorem row_setRow (M : BMat) (i v k : Nat) :
    (M.setRow i v).row k = if k = i ∧ i < M.rows.size then v else M.row k := by
  unfold row setRow
  simp only [Array.getD_eq_getD_getElem?, Array.getElem?_setIfInBounds]
  by_cases h : i = k
  · subst h
    by_cases h2 : i < M.rows.size
    · simp [h2]
    · simp [h2]
  · have h' : ¬ k = i := fun e => h e.symm
    simp [h, h']

theorem size_setRow (M : BMat) (i v : Nat) : (M.setRow i v).rows.size = M.rows.size := by
  simp [setRow]

theorem size_mul (A V : BMat) : (A.mul V).rows.size = A.nrows := by simp [mul]

theorem eq_of_rows (A B : BMat) (hr : A.nrows = B.nrows) (hc : A.ncols = B.ncols)
    (hA : A.rows.size = A.nrows) (hB : B.rows.size = B.nrows)
    (h : ∀ i, i < A.nrows → A.row i = B.row i) : A = B := by
  obtain ⟨ar, ac, arows⟩ := A
  obtain ⟨br, bc, brows⟩ := B
  simp only at hr hc hA hB
  subst hr hc
  congr 1
  apply Array.ext (by omega)
  intro i h1 h2
  have := h i (by simp only; omega)
  simp only [row, Array.getD_eq_getD_getElem?] at this
  simpa [h1, h2] using this

theorem xor_eq_bne (x y : Bool) : (x ^^ y) = (x != y) := by cases x <;> cases y <;> rfl

theorem comb_xor (a b : Nat) (rows : Array Nat) (n : Nat) :
    comb (a ^^^ b) rows n = comb a rows n ^^^ comb b rows n := by
  apply Nat.eq_of_testBit_eq; intro p
  rw [Nat.testBit_xor, testBit_comb, testBit_comb, testBit_comb, xor_eq_bne, ← xorRange_bne]
  apply xorRange_congr; intro t _
  rw [Nat.testBit_xor]
  cases a.testBit t <;> cases b.testBit t <;> simp

theorem comb_two_pow (k : Nat) (rows : Array Nat) (n : Nat) (hk : k < n) :
    comb (2 ^ k) rows n = rows.getD k 0 := by
  apply Nat.eq_of_testBit_eq; intro p
  rw [testBit_comb]
  have : (fun t => (2 ^ k).testBit t && (rows.getD t 0).testBit p)
      = (fun t => (t == k) && (rows.getD t 0).testBit p) := by
    funext t
    rw [Nat.testBit_two_pow]
    by_cases h : k = t
    · subst h; simp
    · have h' : ¬ t = k := fun e => h e.symm
      simp [h, h']
  rw [this, xorRange_single]; simp [hk]

theorem comb_zero (rows : Array Nat) (n : Nat) : comb 0 rows n = 0 := by
  apply Nat.eq_of_testBit_eq; intro p
  rw [testBit_comb, Nat.zero_testBit, ← xorRange_false n]
  apply xorRange_congr; intro t _; simp

theorem testBit_clearBit (r c j : Nat) : (clearBit r c).testBit j = (r.testBit j && !(j == c)) := by
  unfold clearBit
  rw [Nat.testBit_xor, Nat.testBit_and, Nat.one_shiftLeft, Nat.testBit_two_pow]
  by_cases h : c = j
  · subst h; simp
  · have h' : ¬ j = c := fun e => h e.symm
    simp [h, h']

theorem clearBit_eq_xor (r c : Nat) (h : r.testBit c = true) : clearBit r c = r ^^^ 2 ^ c := by
  apply Nat.eq_of_testBit_eq; intro j
  rw [testBit_clearBit, Nat.testBit_xor, Nat.testBit_two_pow]
  by_cases hj : c = j
  · subst hj; simp [h]
  · have h' : ¬ j = c := fun e => hj e.symm
    simp [hj, h']

theorem clearBit_lt (r c n : Nat) (h : r < 2 ^ n) : clearBit r c < 2 ^ n := by
  apply Nat.lt_pow_two_of_testBit; intro p hp
  rw [testBit_clearBit, Nat.testBit_lt_two_pow (Nat.lt_of_lt_of_le h (Nat.pow_le_pow_right (by omega) hp))]
  rfl

/-- undoing `A[t] ^= A[s]` on the product: `W[t] ^= W[s]` -/
theorem applyOp_sourceTarget (A V : BMat) (t s : Nat) (hsz : A.rows.size = A.nrows)
    (ht : t < A.nrows) (hs : s < A.nrows) (hst : s ≠ t) :
    applyOp ⟨t, s, .sourceTarget⟩ ((A.setRow t (A.row t ^^^ A.row s)).mul V) V = A.mul V := by
  generalize hA' : A.setRow t (A.row t ^^^ A.row s) = A'
  have hn : A'.nrows = A.nrows := by rw [← hA']; rfl
  have hc : A'.ncols = A.ncols := by rw [← hA']; rfl
  have hrow : ∀ k, A'.row k = if k = t then A.row t ^^^ A.row s else A.row k := by
    intro k; rw [← hA', row_setRow, hsz]; simp [ht]
  apply eq_of_rows
  · exact hn
  · rfl
  · simp only [applyOp]; rw [size_setRow, size_mul]; rfl
  · exact size_mul _ _
  · intro i hi
    have hi' : i < A.nrows := hn ▸ hi
    simp only [applyOp]
    rw [row_setRow, size_mul, row_mul A' V t (hn ▸ ht), row_mul A' V s (hn ▸ hs), row_mul A' V i hi,
      row_mul A V i hi', hrow t, hrow s, hrow i, if_pos rfl, if_neg hst, hc, hn]
    by_cases hit : i = t
    · subst hit
      simp only [true_and, hi', if_true]
      rw [comb_xor, Nat.xor_assoc, Nat.xor_self, Nat.xor_zero]
    · simp [hit]

/-- undoing `A[t,k] = 0` on the product: `W[t] ^= V[k]` -/
theorem applyOp_sourceSource (A V : BMat) (t k : Nat) (hsz : A.rows.size = A.nrows)
    (ht : t < A.nrows) (hk : k < A.ncols) (hbit : A.get t k = true) :
    applyOp ⟨t, k, .sourceSource⟩ ((A.setRow t (clearBit (A.row t) k)).mul V) V = A.mul V := by
  generalize hA' : A.setRow t (clearBit (A.row t) k) = A'
  have hn : A'.nrows = A.nrows := by rw [← hA']; rfl
  have hc : A'.ncols = A.ncols := by rw [← hA']; rfl
  have hrow : ∀ j, A'.row j = if j = t then clearBit (A.row t) k else A.row j := by
    intro j; rw [← hA', row_setRow, hsz]; simp [ht]
  apply eq_of_rows
  · exact hn
  · rfl
  · simp only [applyOp]; rw [size_setRow, size_mul]; rfl
  · exact size_mul _ _
  · intro i hi
    have hi' : i < A.nrows := hn ▸ hi
    simp only [applyOp]
    rw [row_setRow, size_mul, row_mul A' V t (hn ▸ ht), row_mul A' V i hi,
      row_mul A V i hi', hrow t, hrow i, if_pos rfl, hc, hn]
    by_cases hit : i = t
    · subst hit
      simp only [true_and, hi', if_true]
      rw [clearBit_eq_xor _ _ hbit, comb_xor, comb_two_pow _ _ _ hk]
      show _ ^^^ V.rows.getD k 0 ^^^ V.rows.getD k 0 = _
      rw [Nat.xor_assoc, Nat.xor_self, Nat.xor_zero]
    · simp [hit]

/-- a matrix whose rows are all 0 has the zero product -/
theorem mul_of_rows_zero (A V : BMat) (h : ∀ i, A.row i = 0) : A.mul V = BMat.zero A.nrows V.ncols := by
  apply eq_of_rows
  · rfl
  · rfl
  · exact size_mul _ _
  · simp [BMat.zero]
  · intro i hi
    rw [row_mul A V i hi, h i, comb_zero, row_zero]

/-! ## §4 the loop invariant of `djb_compile` -/

/-- number of rows (among the first `m`) with bit `k` set -/
def cnt (A : BMat) (m k : Nat) : Nat := (List.range m).countP (fun i => A.get i k)

theorem cnt_le (A : BMat) (m k : Nat) : cnt A m k ≤ m := by
  unfold cnt
  exact Nat.le_trans List.countP_le_length (by simp)

theorem countP_lt_of {α : Type} (l : List α) (p q : α → Bool) (h : ∀ x ∈ l, p x = true → q x = true)
    (a : α) (ha : a ∈ l) (hq : q a = true) (hp : p a = false) : l.countP p < l.countP q := by
  induction l with
  | nil => cases ha
  | cons x t ih =>
    have hmono : t.countP p ≤ t.countP q :=
      List.countP_mono_left (fun y hy => h y (List.mem_cons_of_mem _ hy))
    rw [List.countP_cons, List.countP_cons]
    rcases List.mem_cons.mp ha with e | hmem
    · subst e; simp only [hq, hp, if_true]; simp; omega
    · have := ih (fun y hy => h y (List.mem_cons_of_mem _ hy)) hmem
      by_cases hpx : p x = true
      · simp only [hpx, h x (List.mem_cons_self) hpx, if_true]; omega
      · simp only [hpx, Bool.false_eq_true, if_false]; omega

theorem get_setRow (A : BMat) (t r i k : Nat) (ht : t < A.rows.size) :
    (A.setRow t r).get i k = if i = t then r.testBit k else A.get i k := by
  unfold BMat.get; rw [row_setRow]; simp only [ht, and_true]; split <;> rfl

theorem cnt_setRow_lt (A : BMat) (m k t r : Nat) (hsz : A.rows.size = m) (ht : t < m)
    (hset : A.get t k = true) (hclr : r.testBit k = false) : cnt (A.setRow t r) m k < cnt A m k := by
  unfold cnt
  apply countP_lt_of _ _ _ _ t (by simpa using ht) hset
  · rw [get_setRow _ _ _ _ _ (by omega)]; simpa using hclr
  · intro x _ hx
    rw [get_setRow _ _ _ _ _ (by omega)] at hx
    by_cases hxt : x = t
    · subst hxt; exact hset
    · simpa [hxt] using hx

theorem lt_of_testBit_false (r k : Nat) (h : r < 2 ^ (k + 1)) (hb : r.testBit k = false) : r < 2 ^ k := by
  apply Nat.lt_pow_two_of_testBit; intro p hp
  by_cases e : p = k
  · subst e; exact hb
  · exact Nat.testBit_lt_two_pow (Nat.lt_of_lt_of_le h (Nat.pow_le_pow_right (by omega) (by omega)))

theorem row_of_ge_size (A : BMat) (i : Nat) (h : A.rows.size ≤ i) : A.row i = 0 := by
  unfold row; simp [Nat.not_lt.mpr h]

theorem lt_size_of_get (A : BMat) (i k : Nat) (h : A.get i k = true) : i < A.rows.size := by
  apply Nat.lt_of_not_le; intro hle
  unfold BMat.get at h; rw [row_of_ge_size A i hle] at h; simp at h

/-- the progress measure of the loop -/
def measure (m : Nat) (s : CState) : Nat := s.n * (m + 1) + cnt s.A m (s.n - 1)

/-- loop invariant: shape, column bound, heap = permutation of all row indices in heap order w.r.t. the
    CURRENT matrix, and "`apply z` turns `A'·V` into `A₀·V`" -/
structure Inv (A0 : BMat) (s : CState) : Prop where
  nrows : s.A.nrows = A0.nrows
  ncols : s.A.ncols = A0.ncols
  size : s.A.rows.size = A0.nrows
  nle : s.n ≤ A0.ncols
  bound : ∀ i, s.A.row i < 2 ^ s.n
  perm : s.h.data.toList.Perm (List.range A0.nrows)
  heap : HeapOrd s.A s.h.data
  spec : ∀ V, djbApply s.z.toList (s.A.mul V) V = A0.mul V
  ops : ∀ op ∈ s.z.toList, op.target < A0.nrows ∧ (op.srctyp = .sourceSource → op.source < A0.ncols) ∧
          (op.srctyp = .sourceTarget → op.source < A0.nrows ∧ op.source ≠ op.target)

theorem Inv.rowsBounded {A0 : BMat} {s : CState} (inv : Inv A0 s) : ∀ i, s.A.row i < 2 ^ s.A.ncols := by
  intro i
  rw [inv.ncols]
  exact Nat.lt_of_lt_of_le (inv.bound i) (Nat.pow_le_pow_right (by omega) inv.nle)

/-- `--n` is sound: the heap front is a maximal row, and a maximal row `< 2^(n-1)` bounds them all -/
theorem Inv.decr {A0 : BMat} {s : CState} (inv : Inv A0 s) (hn : 0 < s.n)
    (hb : s.A.get (heapFront s.h) (s.n - 1) = false) : Inv A0 { s with n := s.n - 1 } := by
  refine ⟨inv.nrows, inv.ncols, inv.size, ?_, ?_, inv.perm, inv.heap, inv.spec, inv.ops⟩
  · have := inv.nle; show s.n - 1 ≤ A0.ncols; omega
  · intro i
    show s.A.row i < 2 ^ (s.n - 1)
    have hfront : s.A.row (heapFront s.h) < 2 ^ (s.n - 1) := by
      apply lt_of_testBit_false _ _ _ hb
      have : s.n - 1 + 1 = s.n := by omega
      rw [this]; exact inv.bound _
    by_cases hi : i < A0.nrows
    · have hmem : i ∈ s.h.data.toList := inv.perm.mem_iff.mpr (List.mem_range.mpr hi)
      have hge := heapFront_ge_mem s.A s.h inv.heap i hmem
      rw [cmpRevlex_eq s.A inv.rowsBounded] at hge
      simp only [decide_eq_true_eq] at hge
      omega
    · rw [row_of_ge_size s.A i (by rw [inv.size]; omega)]
      exact Nat.two_pow_pos _

theorem Inv.pop_facts {A0 : BMat} {s : CState} (inv : Inv A0 s)
    (hb : s.A.get (heapFront s.h) (s.n - 1) = true) :
    heapFront s.h < A0.nrows ∧
    (heapFront s.h :: (heapPop s.A s.h).data.toList).Perm (List.range A0.nrows) ∧
    heapFront s.h ∉ (heapPop s.A s.h).data.toList ∧
    ((heapPop s.A s.h).data.size + 1 = A0.nrows) := by
  have hlt : heapFront s.h < A0.nrows := by rw [← inv.size]; exact lt_size_of_get _ _ _ hb
  have hsz : s.h.data.size = A0.nrows := by
    have := inv.perm.length_eq; simpa using this
  have hp := (heapPop_perm s.A s.h (by omega)).trans inv.perm
  have hnd : (heapFront s.h :: (heapPop s.A s.h).data.toList).Nodup :=
    hp.nodup_iff.mpr List.nodup_range
  refine ⟨hlt, hp, (List.nodup_cons.mp hnd).1, ?_⟩
  have := hp.length_eq
  simpa using this

/-- the two rewriting branches share everything but the new row and the op -/
theorem Inv.modify {A0 : BMat} {s : CState} (inv : Inv A0 s)
    (hb : s.A.get (heapFront s.h) (s.n - 1) = true) (r' : Nat) (op : Op)
    (hr : r' < 2 ^ s.n) (hclr : r'.testBit (s.n - 1) = false)
    (hop : ∀ V, applyOp op ((s.A.setRow (heapFront s.h) r').mul V) V = s.A.mul V)
    (hrange : op.target < A0.nrows ∧ (op.srctyp = .sourceSource → op.source < A0.ncols) ∧
          (op.srctyp = .sourceTarget → op.source < A0.nrows ∧ op.source ≠ op.target)) :
    Inv A0 ⟨s.A.setRow (heapFront s.h) r',
            heapPush (s.A.setRow (heapFront s.h) r') (heapPop s.A s.h) (heapFront s.h), s.n, s.z.push op⟩ ∧
    measure A0.nrows ⟨s.A.setRow (heapFront s.h) r',
            heapPush (s.A.setRow (heapFront s.h) r') (heapPop s.A s.h) (heapFront s.h), s.n, s.z.push op⟩
      < measure A0.nrows s := by
  obtain ⟨hlt, hp, hnot, _⟩ := inv.pop_facts hb
  generalize hA' : s.A.setRow (heapFront s.h) r' = A'
  have hrow : ∀ k, k ≠ heapFront s.h → A'.row k = s.A.row k := by
    intro k hk; rw [← hA', row_setRow]; simp [hk]
  have hc : A'.ncols = s.A.ncols := by rw [← hA']; rfl
  constructor
  · refine ⟨by rw [← hA']; exact inv.nrows, by rw [← hA']; exact inv.ncols,
      by rw [← hA', size_setRow]; exact inv.size, inv.nle, ?_, ?_, ?_, ?_, ?_⟩
    · intro i
      show A'.row i < 2 ^ s.n
      rw [← hA', row_setRow]; split
      · exact hr
      · exact inv.bound i
    · exact (heapPush_perm _ _ _).trans hp
    · apply heapPush_heap
      have hold := heapPop_heap s.A s.h inv.heap
      intro j hj0 hjs
      have hm : ∀ k, k < (heapPop s.A s.h).data.size → g (heapPop s.A s.h).data k ≠ heapFront s.h := by
        intro k hk e
        apply hnot
        have : g (heapPop s.A s.h).data k = (heapPop s.A s.h).data.toList[k]'(by simpa using hk) := by
          unfold g; simp [hk]
        rw [← e, this]; exact List.getElem_mem _
      rw [cmpRevlex_congr A' s.A _ _ hc (hrow _ (hm _ (by omega))) (hrow _ (hm _ hjs))]
      exact hold j hj0 hjs
    · intro V
      show djbApply (s.z.push op).toList (A'.mul V) V = A0.mul V
      rw [← inv.spec V, ← hop V, hA']
      unfold djbApply
      rw [Array.toList_push, List.foldr_append]
      rfl
    · intro o ho
      have : o ∈ (s.z.push op).toList := ho
      rw [Array.toList_push, List.mem_append, List.mem_singleton] at this
      rcases this with h | h
      · exact inv.ops o h
      · rw [h]; exact hrange
  · unfold measure
    show s.n * (A0.nrows + 1) + cnt A' A0.nrows (s.n - 1) < s.n * (A0.nrows + 1) + cnt s.A A0.nrows (s.n - 1)
    have := cnt_setRow_lt s.A A0.nrows (s.n - 1) (heapFront s.h) r' inv.size hlt hb hclr
    rw [hA'] at this
    omega

/-- one loop iteration keeps the invariant and lowers the measure -/
theorem Inv.step {A0 : BMat} {s : CState} (inv : Inv A0 s) (hn : 0 < s.n) :
    Inv A0 (compileStep A0.nrows s) ∧ measure A0.nrows (compileStep A0.nrows s) < measure A0.nrows s := by
  unfold compileStep
  by_cases hb : s.A.get (heapFront s.h) (s.n - 1) = false
  · simp only [hb, if_true]
    refine ⟨inv.decr hn hb, ?_⟩
    unfold measure
    show (s.n - 1) * (A0.nrows + 1) + cnt s.A A0.nrows (s.n - 1 - 1) < s.n * (A0.nrows + 1) + _
    have h1 := cnt_le s.A A0.nrows (s.n - 1 - 1)
    have h2 : s.n * (A0.nrows + 1) = (s.n - 1) * (A0.nrows + 1) + (A0.nrows + 1) := by
      conv => lhs; rw [show s.n = (s.n - 1) + 1 by omega, Nat.succ_mul]
    omega
  · have hb' : s.A.get (heapFront s.h) (s.n - 1) = true := by simpa using hb
    simp only [hb', Bool.true_eq_false, if_false]
    obtain ⟨hlt, hp, hnot, hsz⟩ := inv.pop_facts hb'
    have hrsz : s.A.rows.size = s.A.nrows := by rw [inv.size, inv.nrows]
    by_cases hcond : A0.nrows ≥ 2 ∧ s.A.get (heapFront (heapPop s.A s.h)) (s.n - 1) = true
    · simp only [hcond, and_self, if_true]
      have hf' : heapFront (heapPop s.A s.h) < A0.nrows := by
        rw [← inv.size]; exact lt_size_of_get _ _ _ hcond.2
      have hne : heapFront (heapPop s.A s.h) ≠ heapFront s.h := by
        intro e
        apply hnot
        rw [← e]; exact heapFront_mem _ (by omega)
      apply inv.modify hb'
      · exact Nat.xor_lt_two_pow (inv.bound _) (inv.bound _)
      · have h1 := hcond.2
        have h2 := hb'
        unfold BMat.get at h1 h2
        rw [Nat.testBit_xor, h1, h2]; rfl
      · intro V
        exact applyOp_sourceTarget s.A V _ _ hrsz (by rw [inv.nrows]; exact hlt)
          (by rw [inv.nrows]; exact hf') hne
      · exact ⟨hlt, (fun h => by cases h), fun _ => ⟨hf', hne⟩⟩
    · simp only [hcond, if_false]
      have hk : s.n - 1 < A0.ncols := by have := inv.nle; omega
      apply inv.modify hb'
      · exact clearBit_lt _ _ _ (inv.bound _)
      · rw [testBit_clearBit]; simp
      · intro V
        exact applyOp_sourceSource s.A V _ _ hrsz (by rw [inv.nrows]; exact hlt)
          (by rw [inv.ncols]; exact hk) hb'
      · exact ⟨hlt, fun _ => hk, (fun h => by cases h)⟩

/-! ## §5 the loop, the initial heap, the main theorem -/

/-- with enough fuel the loop ends because `n = 0` (not because the fuel ran out), keeping the invariant -/
theorem compileLoop_inv {A0 : BMat} : ∀ (fuel : Nat) (s : CState), Inv A0 s → measure A0.nrows s < fuel →
    Inv A0 (compileLoop A0.nrows fuel s) ∧ (compileLoop A0.nrows fuel s).n = 0 := by
  intro fuel
  induction fuel with
  | zero => intro s _ h; omega
  | succ fuel ih =>
    intro s inv hm
    unfold compileLoop
    by_cases hn : s.n = 0
    · rw [if_pos hn]; exact ⟨inv, hn⟩
    · simp only [hn, if_false]
      obtain ⟨inv', hlt⟩ := inv.step (Nat.pos_of_ne_zero hn)
      exact ih _ inv' (by omega)

/-- more fuel than the measure changes nothing: the fuel is only a termination device -/
theorem compileLoop_fuel_stable {A0 : BMat} : ∀ (fuel : Nat) (s : CState), Inv A0 s →
    measure A0.nrows s < fuel → ∀ extra, compileLoop A0.nrows (fuel + extra) s = compileLoop A0.nrows fuel s := by
  intro fuel
  induction fuel with
  | zero => intro s _ h; omega
  | succ fuel ih =>
    intro s inv hm extra
    rw [show fuel + 1 + extra = (fuel + extra) + 1 by omega]
    unfold compileLoop
    by_cases hn : s.n = 0
    · simp only [hn, if_true]
    · simp only [hn, if_false]
      obtain ⟨inv', hlt⟩ := inv.step (Nat.pos_of_ne_zero hn)
      exact ih _ inv' (by omega) extra

def initHeapN (A : BMat) (k : Nat) : Heap := (List.range k).foldl (fun h i => heapPush A h i) heapInit

theorem initHeapN_succ (A : BMat) (k : Nat) : initHeapN A (k + 1) = heapPush A (initHeapN A k) k := by
  unfold initHeapN; rw [List.range_succ, List.foldl_append]; rfl

theorem initHeapN_spec (A : BMat) (k : Nat) :
    (initHeapN A k).data.toList.Perm (List.range k) ∧ HeapOrd A (initHeapN A k).data := by
  induction k with
  | zero =>
    refine ⟨by simp [initHeapN, heapInit], ?_⟩
    intro j _ hj
    simp [initHeapN, heapInit] at hj
  | succ k ih =>
    rw [initHeapN_succ]
    refine ⟨?_, heapPush_heap _ _ _ ih.2⟩
    refine (heapPush_perm _ _ _).trans ?_
    rw [List.range_succ]
    exact ((List.Perm.cons k ih.1).trans (List.perm_append_singleton k _).symm)

theorem initHeap_eq (A : BMat) : initHeap A = initHeapN A A.nrows := rfl

/-- the invariant holds on entry to the loop -/
theorem Inv.init (A : BMat) (hA : A.WF) : Inv A ⟨A, initHeap A, A.ncols, #[]⟩ := by
  refine ⟨rfl, rfl, hA.1, Nat.le_refl _, hA.2, ?_, ?_, ?_, ?_⟩
  · rw [initHeap_eq]; exact (initHeapN_spec A A.nrows).1
  · rw [initHeap_eq]; exact (initHeapN_spec A A.nrows).2
  · intro V; rfl
  · intro o ho; simp at ho

theorem measure_init_lt (A : BMat) : measure A.nrows ⟨A, initHeap A, A.ncols, #[]⟩ < compileFuel A := by
  unfold measure compileFuel
  have := cnt_le A A.nrows (A.ncols - 1)
  show A.ncols * (A.nrows + 1) + cnt A A.nrows (A.ncols - 1) < (A.ncols + 1) * (A.nrows + 1)
  rw [Nat.succ_mul]; omega

/-- `djb_compile` terminates through `n = 0`, with the invariant, and has destroyed `A` (all rows 0) -/
theorem djbCompileState_spec (A : BMat) (hA : A.WF) :
    Inv A (djbCompileState A) ∧ (djbCompileState A).n = 0 ∧ ∀ i, (djbCompileState A).A.row i = 0 := by
  obtain ⟨inv, hn⟩ := compileLoop_inv (compileFuel A) _ (Inv.init A hA) (measure_init_lt A)
  refine ⟨inv, hn, fun i => ?_⟩
  have := inv.bound i
  unfold djbCompileState
  rw [hn] at this
  omega

/-- the result of `djb_compile` does not depend on the fuel once it is at least `compileFuel A` -/
theorem djbCompile_fuel_irrelevant (A : BMat) (hA : A.WF) (extra : Nat) :
    compileLoop A.nrows (compileFuel A + extra) ⟨A, initHeap A, A.ncols, #[]⟩ = djbCompileState A :=
  compileLoop_fuel_stable (compileFuel A) _ (Inv.init A hA) (measure_init_lt A) extra

/-- every emitted op satisfies the `assert` of `djb_push_back` (and never adds a row to itself) -/
theorem djbCompile_ops_inrange (A : BMat) (hA : A.WF) :
    ∀ op ∈ djbCompile A, op.target < A.nrows ∧ (op.srctyp = .sourceSource → op.source < A.ncols) ∧
      (op.srctyp = .sourceTarget → op.source < A.nrows ∧ op.source ≠ op.target) :=
  (djbCompileState_spec A hA).1.ops

/-- **C01, DJB clause**: a compiled DJB map applied to a zeroed target is exactly `A·V`.
    (`V` is arbitrary: no shape or well-formedness hypothesis on it is needed.) -/
theorem djb_spec (A V : BMat) (hA : A.WF) : runDjb A V = A.mul V := by
  obtain ⟨inv, _, hz⟩ := djbCompileState_spec A hA
  have h := inv.spec V
  rw [mul_of_rows_zero _ V hz, inv.nrows] at h
  exact h

/-- non-vacuity: a well-formed 3×70 input (more than one word per row), and the theorem used on it -/
example : (⟨3, 70, #[2 ^ 69 + 5, 0, 2 ^ 69 + 5]⟩ : BMat).WF := by
  refine ⟨rfl, fun i => ?_⟩
  match i with
  | 0 => decide
  | 1 => decide
  | 2 => decide
  | k + 3 => simp [BMat.row]

example (V : BMat) : runDjb ⟨3, 70, #[2 ^ 69 + 5, 0, 2 ^ 69 + 5]⟩ V
    = (⟨3, 70, #[2 ^ 69 + 5, 0, 2 ^ 69 + 5]⟩ : BMat).mul V :=
  djb_spec _ V (by
    refine ⟨rfl, fun i => ?_⟩
    match i with
    | 0 => decide
    | 1 => decide
    | 2 => decide
    | k + 3 => simp [BMat.row])

/-! ### corollaries in entry form -/

/-- entry-wise: `⊕_t A[i,t] ∧ V[t,j]` -/
theorem get_runDjb (A V : BMat) (hA : A.WF) (i j : Nat) (hi : i < A.nrows) :
    (runDjb A V).get i j = dotSpec A V i j := by
  rw [djb_spec A V hA, get_mul A V i j hi]

theorem WF_runDjb (A V : BMat) (hA : A.WF) (hV : V.WF) : (runDjb A V).WF := by
  rw [djb_spec A V hA]; exact WF_mul A V hV

theorem nrows_runDjb (A V : BMat) (hA : A.WF) : (runDjb A V).nrows = A.nrows := by
  rw [djb_spec A V hA]; rfl

theorem ncols_runDjb (A V : BMat) (hA : A.WF) : (runDjb A V).ncols = V.ncols := by
  rw [djb_spec A V hA]; rfl

/-! ### the heap facts, packaged: after any sequence of pushes and pops (w.r.t. one matrix) the heap holds
    exactly the pushed-minus-popped indices and its front dominates all of them -/

/-- `h` holds exactly the multiset `ms`, in heap order w.r.t. `A` -/
def HeapOK (A : BMat) (h : Heap) (ms : List Nat) : Prop := h.data.toList.Perm ms ∧ HeapOrd A h.data

theorem heapOK_init (A : BMat) : HeapOK A heapInit [] :=
  ⟨by simp [heapInit], fun j _ hj => by simp [heapInit] at hj⟩

theorem heapOK_push (A : BMat) (h : Heap) (ms : List Nat) (v : Nat) (ok : HeapOK A h ms) :
    HeapOK A (heapPush A h v) (v :: ms) :=
  ⟨(heapPush_perm A h v).trans (List.Perm.cons v ok.1), heapPush_heap A h v ok.2⟩

/-- popping removes one copy of the front -/
theorem heapOK_pop (A : BMat) (h : Heap) (ms : List Nat) (ok : HeapOK A h ms) (hne : ms ≠ []) :
    HeapOK A (heapPop A h) (ms.erase (heapFront h)) := by
  have hs : 0 < h.data.size := by
    have := ok.1.length_eq
    have h2 : 0 < ms.length := List.length_pos_iff.mpr hne
    simp at this; omega
  refine ⟨?_, heapPop_heap A h ok.2⟩
  have hp := (heapPop_perm A h hs).trans ok.1
  have := hp.erase (heapFront h)
  simpa using this

/-- `heapFrontIsMax`: the front is `≥` (w.r.t. `mzd_compare_rows_revlex`) every element of the heap -/
theorem heapOK_front_max (A : BMat) (h : Heap) (ms : List Nat) (ok : HeapOK A h ms) :
    ∀ x ∈ ms, cmpRevlex A (heapFront h) x = true :=
  fun x hx => heapFront_ge_mem A h ok.2 x (ok.1.mem_iff.mpr hx)

/-- the `realloc` bookkeeping is sound: the live items always fit the allocation -/
def HeapCap (h : Heap) : Prop := h.data.size ≤ h.size ∧ 0 < h.size

theorem heapCap_init : HeapCap heapInit := by simp [HeapCap, heapInit, heapBaseSize]

theorem heapCap_push (A : BMat) (h : Heap) (v : Nat) (c : HeapCap h) : HeapCap (heapPush A h v) := by
  unfold HeapCap at *
  rw [heapPush_data, size_siftUp, Array.size_push]
  unfold heapPush
  simp only
  split <;> omega

theorem heapCap_pop (A : BMat) (h : Heap) (c : HeapCap h) : HeapCap (heapPop A h) := by
  unfold HeapCap at *
  rw [heapPop_data, size_siftDown, Array.size_pop]
  unfold heapPop heapBaseSize
  simp only [Array.size_pop]
  split <;> omega

/-! ### sanity runs of the executable model against `BMat.mul` (identity, zero and empty matrices,
    duplicate and zero rows, more than 64 columns / rows; `selfTest*` live in `M4ri/Djb.lean`) -/

#guard selfTestFixed
#guard selfTestRandom 1 60 12 12 70
#guard selfTestRandom 2 30 40 150 100
#guard selfTestRandom 3 30 150 40 10
#guard selfTestRandom 4 40 5 5 5

end Djb
end M4ri
