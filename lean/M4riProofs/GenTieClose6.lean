/-
  GenTieClose6: THE PRODUCT PARAMETER OF THE CLOSED TRSM / PLE RECURSIONS BOUND TO THE GENERATED PRODUCT.

  In `GenTieClose` (`cTrsmLL/UL/UR/LR`) and `GenTieClose4` (`cPleFull`) the callee `mzd_addmul(C, A, B, cutoff)` of the
  generated `_mzd_trsm_*` and `_mzd_ple` is instantiated by the LIFTED MODEL `addmulM` (`C + A·B` on what the records
  show).  Here it is instantiated by THE GENERATED PUBLIC `Gen.C.mzdAddmul` over the closed Strassen recursion
  `cStrassen hd k` (`genAddmul`), and the results of the closures are transferred.

  §1  `genAddmul`, `genAddmul_sim` (on canonical records of conforming shapes over ARBITRARY memories the generated
      product agrees with `addmulM` on the cells of `C`), `genAddmul_rel`, `genAddmul_agree` (views of well-formed
      conforming matrices)
  §2  congruence of the generated `_mzd_trsm_*` in BOTH the recursive-call and the product parameter
      (`trsm*Rec_callee_congr2`), the closures with ANY product callee `G` that cannot be told apart from `addmulM`
      (`HG : ∀ c, Sim3 c G addmulM`): `cTrsm*_gen_raw`, `_gen_view_subst`, `_gen_correct`, `_gen_window`; the
      instances `cTrsmLLG/ULG/URG/LRG` (`G := genAddmul …`) and `cTrsm*G_correct`
  §3  `_mzd_ple`: congruence of the recursive branch in the product parameter (`schurMem_agreeG`, `seg2_congrG`,
      `pleRecStep_congrG`, `trsmLL_HTG`), one step `pleFull_stepG`, the closure `cPleFullWith G` and its instance
      `cPleFullG`, `cPleFullWith_raw`, `_agree` (`PleAgree` with `cPleFull`), `_view`, `_correct`, `_spec`,
      `cPleFullG_agree`, `cPleFullG_correct`, `cPleFullG_spec`
  Core Lean tactics only.
-/
import M4riProofs.GenTieClose4
import M4riProofs.GenTieMul
set_option linter.unusedVariables false
namespace M4ri.GenTieClose6
open M4ri M4ri.Gen M4ri.GenTieMem M4ri.GenTieView M4ri.BMat M4ri.GenTieAlg M4ri.GenTieRec M4ri.GenTieClose
  M4ri.GenTieClose2 M4ri.GenTieClose3 M4ri.GenTieClose4 M4ri.GenTieMul M4ri.GenTieStrassen M4ri.GenTieStrassen2

/-- a product callee -/
abbrev Fn3 := CLoop.MView → CLoop.MView → CLoop.MView → Int → Mem

/-! ### 1. the generated product as a callee -/

/-- **`mzd_addmul(C, A, B, cutoff)` as a callee: THE GENERATED `Gen.C.mzdAddmul`** on the fields of the three records,
    over the closed Strassen recursion `cStrassen hd k` (depth `k`), with arbitrary flags and row strides; the
    `A == B` flag is `false` (in `_mzd_trsm_*` and `_mzd_ple` the factors are different windows) -/
def genAddmul (hd : Hdr) (k : Nat) (rsA rsB rsC : Int) (fA fB fC : BitVec 8) : Fn3 :=
  fun C A B cutoff =>
    Gen.C.mzdAddmul cutoff C.mem A.ncols B.nrows A.nrows B.ncols false C.nrows fA fC C.ncols C.width C.hb cCopyNew
      A.mem A.width A.hb cAddmulM4rm cCopy rsA rsC cAdd (cStrassen hd k).sqr (cStrassen hd k).mul
      (cStrassen hd k).addsqr (cStrassen hd k).addmul fB B.mem B.width B.hb rsB

/-- the normalised cut-off is a natural number, whatever the `int` -/
theorem cutoffNormI_isNat (c : Int) : ∃ n : Nat, cutoffNormI c = (n : Int) := by
  refine ⟨(cutoffNormI c).toNat, ?_⟩
  have : 0 ≤ cutoffNormI c := by
    unfold cutoffNormI
    dsimp only
    split <;> omega
  omega

/-- **the generated product on canonical records of conforming shapes over ARBITRARY memories** (in particular the
    window views that `_mzd_trsm_*` and `_mzd_ple` pass): it agrees with the lifted `C + A·B` on the rows and words
    of `C` — every `int` cut-off, every depth, flags, strides; the early return included -/
theorem genAddmul_sim (hd : Hdr) (d : Nat) (rsA rsB rsC : Int) (fA fB fC : BitVec 8) (cutoff : Int) :
    Sim3 cutoff (genAddmul hd d rsA rsB rsC fA fB fC) addmulM := by
  intro m k n c a b
  have hE : addmulM (canon c m n) (canon a m k) (canon b k n) cutoff
      = memOf ((rawM c m n).putB ((rawM c m n).toB.add ((rawM a m k).toB.mul (rawM b k n).toB))) := rfl
  rw [hE]
  show AgreeOn m ((n + 63) / 64)
    (Gen.C.mzdAddmul cutoff c (k : Int) (k : Int) (m : Int) (n : Int) false (m : Int) fA fC (n : Int)
      (((n + 63) / 64 : Nat) : Int) (leftMask (n % 64)) cCopyNew a (((k + 63) / 64 : Nat) : Int) (leftMask (k % 64))
      cAddmulM4rm cCopy rsA rsC cAdd (cStrassen hd d).sqr (cStrassen hd d).mul (cStrassen hd d).addsqr
      (cStrassen hd d).addmul fB b (((n + 63) / 64 : Nat) : Int) (leftMask (n % 64)) rsB) _
  rw [mzdAddmul_unfold]
  by_cases h0 : m = 0 ∨ k = 0 ∨ n = 0
  · rw [if_pos (by omega), putB_add_mul_degenerate (rawM c m n) (rawM a m k) (rawM b k n) (rawM_WF _ _ _)
      (rawM_WF _ _ _) (rawM_WF _ _ _) (by simp) (by simp) (by simp) (by simpa using h0)]
    exact agree_rawM c m n
  · rw [if_neg (by omega)]
    obtain ⟨cn, hcn⟩ := cutoffNormI_isNat cutoff
    rw [hcn]
    unfold Gen.C.mzdAddmulDispatch
    simp only [Bool.false_eq_true, if_false]
    refine (strassenAddmulEven_step_view d cn rsA rsB rsC fA fB fC _ _ (cStrassen_raw hd cn d).1
      (cStrassen_raw hd cn d).2.1 m k n c a b).trans ?_
    rw [cAddmulEven_nat]
    have e : addmulEven (d + 1) (rawM c m n).toB (rawM a m k).toB (rawM b k n).toB cn
        = (rawM c m n).toB.add ((rawM a m k).toB.mul (rawM b k n).toB) :=
      (addAllP (d + 1)).1 cn (r := m) (k := k) (c := n) ⟨Mzd.WF_toB (rawM_WF _ _ _), by simp, by simp⟩
        ⟨Mzd.WF_toB (rawM_WF _ _ _), by simp, by simp⟩ ⟨Mzd.WF_toB (rawM_WF _ _ _), by simp, by simp⟩
    show AgreeOn m ((n + 63) / 64)
      (memOf ((rawM c m n).putB (addmulEven (d + 1) (rawM c m n).toB (rawM a m k).toB (rawM b k n).toB cn))) _
    rw [e]
    exact AgreeOn.refl _ _ _

/-- … hence related to it: over memories that agree on the regions of the records -/
theorem genAddmul_rel (hd : Hdr) (d : Nat) (rsA rsB rsC : Int) (fA fB fC : BitVec 8) (cutoff : Int) :
    Rel3 cutoff (genAddmul hd d rsA rsB rsC fA fB fC) addmulM :=
  Sim3.rel (fun C A B => C.add (A.mul B)) (fun _ _ _ => rfl) (genAddmul_sim hd d rsA rsB rsC fA fB fC cutoff)

/-- **the generated product on views of well-formed conforming matrices**: for memories that coincide with those of
    `C`, `A`, `B` on their rows and words, `genAddmul` agrees on the cells of `C` with the lifted model `addmulM`
    applied to the same records, and with the memory of `C + A·B` -/
theorem genAddmul_agree (hd : Hdr) (d : Nat) (rsA rsB rsC : Int) (fA fB fC : BitVec 8) (cutoff : Int)
    (C A B : Mzd) (hC : C.WF) (hA : A.WF) (hB : B.WF) (hk : A.ncols = B.nrows) (hr : C.nrows = A.nrows)
    (hc : C.ncols = B.ncols) (mC mA mB : Mem) (hmC : AgreeOn C.nrows C.width mC (memOf C))
    (hmA : AgreeOn A.nrows A.width mA (memOf A)) (hmB : AgreeOn B.nrows B.width mB (memOf B)) :
    AgreeOn C.nrows C.width
        (genAddmul hd d rsA rsB rsC fA fB fC ⟨mC, C.nrows, C.ncols, C.width, C.hb⟩
          ⟨mA, A.nrows, A.ncols, A.width, A.hb⟩ ⟨mB, B.nrows, B.ncols, B.width, B.hb⟩ cutoff)
        (addmulM ⟨mC, C.nrows, C.ncols, C.width, C.hb⟩ ⟨mA, A.nrows, A.ncols, A.width, A.hb⟩
          ⟨mB, B.nrows, B.ncols, B.width, B.hb⟩ cutoff) ∧
      AgreeOn C.nrows C.width
        (genAddmul hd d rsA rsB rsC fA fB fC ⟨mC, C.nrows, C.ncols, C.width, C.hb⟩
          ⟨mA, A.nrows, A.ncols, A.width, A.hb⟩ ⟨mB, B.nrows, B.ncols, B.width, B.hb⟩ cutoff)
        (memOf (C.putB (C.toB.add (A.toB.mul B.toB)))) := by
  have hwC : C.width = (B.ncols + 63) / 64 := by rw [width_eq, hc]
  have hbC : C.hb = leftMask (B.ncols % 64) := by rw [hb_eq, hc]
  have key : AgreeOn C.nrows C.width
      (genAddmul hd d rsA rsB rsC fA fB fC ⟨mC, C.nrows, C.ncols, C.width, C.hb⟩
        ⟨mA, A.nrows, A.ncols, A.width, A.hb⟩ ⟨mB, B.nrows, B.ncols, B.width, B.hb⟩ cutoff)
      (addmulM ⟨mC, C.nrows, C.ncols, C.width, C.hb⟩ ⟨mA, A.nrows, A.ncols, A.width, A.hb⟩
        ⟨mB, B.nrows, B.ncols, B.width, B.hb⟩ cutoff) := by
    rw [hr, hc, ← hk, hwC, hbC, width_eq A, hb_eq A, width_eq B, hb_eq B]
    exact genAddmul_sim hd d rsA rsB rsC fA fB fC cutoff A.nrows A.ncols B.ncols mC mA mB
  refine ⟨key, key.trans ?_⟩
  rw [← liftM3_of (fun C A B => C.add (A.mul B)) C A B hC hA hB]
  show AgreeOn C.nrows C.width (liftM3 (fun C A B => C.add (A.mul B)) _ _ _) _
  rw [liftM3_congr_nat (fun C A B => C.add (A.mul B)) C.nrows C.width A.nrows A.width B.nrows B.width _ _ _ _ _ _ _ _ _
    hmC hmA hmB]
  exact AgreeOn.refl _ _ _

/-! ### 2. `_mzd_trsm_*`: congruence in the product parameter, the closures over any product callee -/

/-- a three-operand call through windows on equal memories: two callees that agree on the rows and words of the
    written window (for these very arguments) leave the same parent memory -/
theorem step3_callee {f g : Fn3} {m m' a a' b b' : Mem} (hm : m = m') (ha : a = a') (hb : b = b')
    (lr lw : Int) (nr nw : Nat) (ar aw anr anw br bw bnr bnw : Int) (nc anc bnc : Int) (ch ah bh : BitVec 64) (c : Int)
    (H : AgreeOn nr nw
      (f ⟨CLoop.view m' lr lw, (nr : Int), nc, (nw : Int), ch⟩ ⟨CLoop.view a' ar aw, anr, anc, anw, ah⟩
        ⟨CLoop.view b' br bw, bnr, bnc, bnw, bh⟩ c)
      (g ⟨CLoop.view m' lr lw, (nr : Int), nc, (nw : Int), ch⟩ ⟨CLoop.view a' ar aw, anr, anc, anw, ah⟩
        ⟨CLoop.view b' br bw, bnr, bnc, bnw, bh⟩ c)) :
    CLoop.unview m lr lw (nr : Int) (nw : Int)
        (f ⟨CLoop.view m lr lw, (nr : Int), nc, (nw : Int), ch⟩ ⟨CLoop.view a ar aw, anr, anc, anw, ah⟩
          ⟨CLoop.view b br bw, bnr, bnc, bnw, bh⟩ c)
      = CLoop.unview m' lr lw (nr : Int) (nw : Int)
        (g ⟨CLoop.view m' lr lw, (nr : Int), nc, (nw : Int), ch⟩ ⟨CLoop.view a' ar aw, anr, anc, anw, ah⟩
          ⟨CLoop.view b' br bw, bnr, bnc, bnw, bh⟩ c) := by
  subst hm ha hb
  exact unview_congr _ _ _ _ _ H

/-- **callee congruence, both parameters** for the generated `_mzd_trsm_lower_left`: the recursive-call parameter
    through its values on strictly smaller conforming canonical records, the product parameter through its values
    on canonical records of conforming shapes (`Sim3`).  Equality of the results. -/
theorem trsmLowerLeftRec_callee_congr2 (cutoff rsB rsL : Int) (mb nb : Nat) (mB mL : Mem) (hbL hbB : BitVec 64)
    (fruss : CLoop.MView → CLoop.MView → Int → Mem) (f g : CLoop.MView → CLoop.MView → Int → Mem)
    (addmul addmul' : Fn3)
    (H : ∀ (k : Nat) (mL' mB' : Mem), 0 < k → k < mb → AgreeOn k ((nb + 63) / 64)
      (f ⟨mL', (k : Int), (k : Int), (((k + 63) / 64 : Nat) : Int), leftMask (k % 64)⟩
        ⟨mB', (k : Int), (nb : Int), (((nb + 63) / 64 : Nat) : Int), leftMask (nb % 64)⟩ cutoff)
      (g ⟨mL', (k : Int), (k : Int), (((k + 63) / 64 : Nat) : Int), leftMask (k % 64)⟩
        ⟨mB', (k : Int), (nb : Int), (((nb + 63) / 64 : Nat) : Int), leftMask (nb % 64)⟩ cutoff))
    (HA : Sim3 cutoff addmul addmul') :
    Gen.C.trsmLowerLeftRec cutoff mB mb nb mL (((nb + 63) / 64 : Nat) : Int) mb mb (((mb + 63) / 64 : Nat) : Int)
        hbL hbB fruss rsB rsL f addmul
      = Gen.C.trsmLowerLeftRec cutoff mB mb nb mL (((nb + 63) / 64 : Nat) : Int) mb mb
        (((mb + 63) / 64 : Nat) : Int) hbL hbB fruss rsB rsL g addmul' := by
  unfold Gen.C.trsmLowerLeftRec
  dsimp_m
  by_cases h64 : mb ≤ 64
  · have h64' : decide ((mb : Int) ≤ 64) = true := by simp; omega
    rw [if_pos h64', if_pos h64']
  simp_m [blocksize_eq]
  have h64' : ¬ (decide ((mb : Int) ≤ 64) = true) := by simp; omega
  rw [if_neg h64', if_neg h64']
  by_cases h2048 : mb ≤ 2048
  · have h2048' : decide ((mb : Int) ≤ 2048) = true := by simp; omega
    rw [if_pos h2048', if_pos h2048']
  · have h2048' : ¬ (decide ((mb : Int) ≤ 2048) = true) := by simp; omega
    rw [if_neg h2048', if_neg h2048']
    have hsp : ((Int.tdiv ((mb : Int) - 1) 64 + 1) >>> (1 : Int).toNat) * 64
        = ((Rec.splitPoint mb : Nat) : Int) := GenTie.pleSplit_eq mb
    rw [hsp]
    have hk := Rec.splitPoint_lt mb (by omega)
    have hk0 := splitPoint_pos mb (by omega)
    have hk64 := splitPoint_mod mb
    generalize Rec.splitPoint mb = mb1 at *
    rw [mzdInitWindow_in 0 0 mb1 nb mb rsB 0 0 mb1 nb mb rfl rfl rfl rfl rfl (by omega) (by omega) (by omega)
        (by omega),
      mzdInitWindow_in mb1 0 mb nb mb rsB mb1 0 mb nb mb rfl rfl rfl rfl rfl (by omega) (by omega) (by omega)
        (by omega),
      mzdInitWindow_in 0 0 mb1 mb1 mb rsL 0 0 mb1 mb1 mb rfl rfl rfl rfl rfl (by omega) (by omega)
        (by omega) (by omega),
      mzdInitWindow_in mb1 0 mb mb1 mb rsL mb1 0 mb mb1 mb rfl rfl rfl rfl rfl (by omega) (by omega)
        (by omega) (by omega),
      mzdInitWindow_in mb1 mb1 mb mb mb rsL mb1 mb1 mb mb mb rfl rfl rfl rfl rfl hk64 (by omega)
        (by omega) (by omega)]
    dsimp_m
    norm_win'
    have a1 := step2_callee (f := f) (g := g) (rfl : mB = mB) mL ((0 : Nat) : Int) ((0 : Nat) : Int)
      ((mb1 : Nat) : Int) (((mb1 + 63) / 64 : Nat) : Int) ((0 : Nat) : Int) ((0 : Nat) : Int) mb1 ((nb + 63) / 64)
      ((mb1 : Nat) : Int) ((nb : Nat) : Int) (leftMask (mb1 % 64)) (leftMask (nb % 64)) cutoff
      (H mb1 _ _ hk0 hk)
    have a2 := step3_callee (f := addmul) (g := addmul') a1 (rfl : mL = mL) a1 ((mb1 : Nat) : Int) ((0 : Nat) : Int)
      (mb - mb1) ((nb + 63) / 64) ((mb1 : Nat) : Int) ((0 : Nat) : Int)
      ((mb - mb1 : Nat) : Int) (((mb1 + 63) / 64 : Nat) : Int) ((0 : Nat) : Int) ((0 : Nat) : Int)
      ((mb1 : Nat) : Int) (((nb + 63) / 64 : Nat) : Int) ((nb : Nat) : Int) ((mb1 : Nat) : Int) ((nb : Nat) : Int)
      (leftMask (nb % 64)) (leftMask (mb1 % 64)) (leftMask (nb % 64)) cutoff (HA (mb - mb1) mb1 nb _ _ _)
    exact step2_callee a2 mL ((mb1 : Nat) : Int) ((mb1 / 64 : Nat) : Int) ((mb - mb1 : Nat) : Int)
      (((mb - mb1 + 63) / 64 : Nat) : Int) ((mb1 : Nat) : Int) ((0 : Nat) : Int) (mb - mb1) ((nb + 63) / 64)
      ((mb - mb1 : Nat) : Int) ((nb : Nat) : Int) (leftMask ((mb - mb1) % 64)) (leftMask (nb % 64)) cutoff
      (H (mb - mb1) _ _ (by omega) (by omega))

/-- **the closure over any product callee `G` that cannot be told apart from `addmulM`, on canonical records**:
    it agrees with the closure over `addmulM` (at every depth `n ≥ 1` the two memories are EQUAL) -/
theorem cTrsmLL_gen_raw (G : Fn3) (HG : ∀ c, Sim3 c G addmulM) (rsB rsL : Int) (n : Nat) :
    ∀ (cutoff : Int) (mb nb : Nat) (mL mB : Mem),
    AgreeOn mb ((nb + 63) / 64)
      (cTrsmLL llRuss G rsB rsL n
        ⟨mL, (mb : Int), (mb : Int), (((mb + 63) / 64 : Nat) : Int), leftMask (mb % 64)⟩
        ⟨mB, (mb : Int), (nb : Int), (((nb + 63) / 64 : Nat) : Int), leftMask (nb % 64)⟩ cutoff)
      (cTrsmLL llRuss addmulM rsB rsL n
        ⟨mL, (mb : Int), (mb : Int), (((mb + 63) / 64 : Nat) : Int), leftMask (mb % 64)⟩
        ⟨mB, (mb : Int), (nb : Int), (((nb + 63) / 64 : Nat) : Int), leftMask (nb % 64)⟩ cutoff) := by
  induction n with
  | zero => intro cutoff mb nb mL mB; exact AgreeOn.refl _ _ _
  | succ n ih =>
    intro cutoff mb nb mL mB
    show AgreeOn mb ((nb + 63) / 64)
      (Gen.C.trsmLowerLeftRec cutoff mB mb nb mL (((nb + 63) / 64 : Nat) : Int) mb mb
        (((mb + 63) / 64 : Nat) : Int) (leftMask (mb % 64)) (leftMask (nb % 64)) llRuss rsB rsL
        (cTrsmLL llRuss G rsB rsL n) G)
      (Gen.C.trsmLowerLeftRec cutoff mB mb nb mL (((nb + 63) / 64 : Nat) : Int) mb mb
        (((mb + 63) / 64 : Nat) : Int) (leftMask (mb % 64)) (leftMask (nb % 64)) llRuss rsB rsL
        (cTrsmLL llRuss addmulM rsB rsL n) addmulM)
    rw [trsmLowerLeftRec_callee_congr2 cutoff rsB rsL mb nb mB mL _ _ llRuss (cTrsmLL llRuss G rsB rsL n)
      (cTrsmLL llRuss addmulM rsB rsL n) G addmulM (fun k mL' mB' _ _ => ih cutoff k nb mL' mB') (HG cutoff)]
    exact AgreeOn.refl _ _ _

/-- every depth, on views: the substitution form -/
theorem cTrsmLL_gen_view_subst (G : Fn3) (HG : ∀ c, Sim3 c G addmulM) (rsB rsL : Int) (n : Nat) (cutoff : Int)
    (L B : Mzd) (hL : L.WF) (hB : B.WF)
    (hLr : L.nrows = B.nrows) (hLc : L.ncols = B.nrows) (hc : 1 ≤ B.ncols) (mB mL : Mem)
    (hmB : AgreeOn B.nrows B.width mB (memOf B)) (hmL : AgreeOn L.nrows L.width mL (memOf L)) :
    AgreeOn B.nrows B.width
      (cTrsmLL llRuss G rsB rsL n ⟨mL, L.nrows, L.ncols, L.width, L.hb⟩
        ⟨mB, B.nrows, B.ncols, B.width, B.hb⟩ cutoff)
      (memOf (B.putB (trsmLowerLeft L.toB B.toB))) := by
  have h := cTrsmLL_view_subst rsB rsL n cutoff L B hL hB hLr hLc hc mB mL hmB hmL
  have hwL : L.width = (B.nrows + 63) / 64 := by unfold Mzd.width widthOf; rw [hLc]
  have hhL : L.hb = leftMask (B.nrows % 64) := by unfold Mzd.hb; rw [hLc]
  rw [hLr, hLc, hwL, hhL] at h ⊢
  exact (cTrsmLL_gen_raw G HG rsB rsL n cutoff B.nrows B.ncols mL mB).trans h

/-- **`_mzd_trsm_lower_left` with the product callee `G`, the C recursion at every depth, on whole matrices = the
    substitution form** (equality of the memories) -/
theorem cTrsmLL_gen_correct (G : Fn3) (HG : ∀ c, Sim3 c G addmulM) (rsB rsL : Int) (n : Nat) (cutoff : Int)
    (L B : Mzd) (hL : L.WF) (hB : B.WF)
    (hLr : L.nrows = B.nrows) (hLc : L.ncols = B.nrows) (hc : 1 ≤ B.ncols) :
    cTrsmLL llRuss G rsB rsL n (CLoop.MView.of L) (CLoop.MView.of B) cutoff
      = memOf (B.putB (trsmLowerLeft L.toB B.toB)) := by
  rw [← cTrsmLL_correct rsB rsL n cutoff L B hL hB hLr hLc hc]
  cases n with
  | zero => rfl
  | succ n =>
    have hwL : L.width = (B.nrows + 63) / 64 := by unfold Mzd.width widthOf; rw [hLc]
    show Gen.C.trsmLowerLeftRec cutoff (memOf B) B.nrows B.ncols (memOf L) B.width L.nrows L.ncols L.width L.hb
        B.hb llRuss rsB rsL (cTrsmLL llRuss G rsB rsL n) G
      = Gen.C.trsmLowerLeftRec cutoff (memOf B) B.nrows B.ncols (memOf L) B.width L.nrows L.ncols L.width L.hb
        B.hb llRuss rsB rsL (cTrsmLL llRuss addmulM rsB rsL n) addmulM
    rw [hLr, hLc, hwL]
    exact trsmLowerLeftRec_callee_congr2 cutoff rsB rsL B.nrows B.ncols (memOf B) (memOf L) _ _ llRuss
      _ _ G addmulM (fun k mL' mB' _ _ => cTrsmLL_gen_raw G HG rsB rsL n cutoff k B.ncols mL' mB') (HG cutoff)

/-- the closure over `G` called on two windows (as its callers do), result written back into `A` -/
theorem cTrsmLL_gen_window (G : Fn3) (HG : ∀ c, Sim3 c G addmulM) (rsB rsT : Int) (n : Nat) (cutoff : Int)
    (A Tm : Mzd) (hA : A.WF)
    (lr lc hr hc ar ac ahr ahc : Nat) (hW : InWin A lr lc hr hc) (hWT : InWin Tm ar ac ahr ahc)
    (hsq1 : ahr - ar = hr - lr) (hsq2 : ahc - ac = hr - lr) (hc1 : 1 ≤ hc - lc) :
    CLoop.unview (memOf A) (lr : Int) ((lc / 64 : Nat) : Int) ((hr - lr : Nat) : Int)
        (((hc - lc + 63) / 64 : Nat) : Int)
        (cTrsmLL llRuss G rsB rsT n (winView (memOf Tm) ar ac ahr ahc) (winView (memOf A) lr lc hr hc) cutoff)
      = memOf (A.putB (A.toB.paste lr lc (trsmLowerLeft (Tm.toB.sub ar ac ahr ahc) (A.toB.sub lr lc hr hc)))) := by
  have hBs : Shaped (A.toB.sub lr lc hr hc) (hr - lr) (hc - lc) :=
    (shaped_toB hA).sub lr lc hr hc hW.hr
  have hX : Shaped (trsmLowerLeft (Tm.toB.sub ar ac ahr ahc) (A.toB.sub lr lc hr hc)) (hr - lr) (hc - lc) :=
    shaped_llRec 2048 0 (hBs) (by rw [nrows_sub, Mzd.nrows_toB]; have := hWT.hr; omega)
  apply unview_window_of_agree A hA lr lc hr hc hW.lc hW.hr hW.hc _ hX.nr hX.nc
  have h := cTrsmLL_gen_view_subst G HG rsB rsT n cutoff (Tm.window ar ac ahr ahc) (A.window lr lc hr hc)
    (window_WF _ _ _ _ _) (window_WF _ _ _ _ _) (by simp [hsq1]) (by simp [hsq2]) (by simpa using hc1)
    _ _ (view_agree_window A lr lc hr hc) (view_agree_window Tm ar ac ahr ahc)
  simp only [nrows_window, ncols_window, width_window, hb_window] at h
  rw [window_toB A lr lc hr hc hW.lc hW.hr hW.hc, window_toB Tm ar ac ahr ahc hWT.lc hWT.hr hWT.hc] at h
  exact h

/-- **`_mzd_trsm_lower_left` closed over THE GENERATED PRODUCT** -/
abbrev cTrsmLLG (hd : Hdr) (d : Nat) (rsA rsB rsC : Int) (fA fB fC : BitVec 8) (rsBm rsL : Int) :
    Nat → CLoop.MView → CLoop.MView → Int → Mem :=
  cTrsmLL llRuss (genAddmul hd d rsA rsB rsC fA fB fC) rsBm rsL

theorem cTrsmLLG_correct (hd : Hdr) (d : Nat) (rsA rsB rsC : Int) (fA fB fC : BitVec 8) (rsBm rsL : Int) (n : Nat)
    (cutoff : Int) (L B : Mzd) (hL : L.WF) (hB : B.WF) (hLr : L.nrows = B.nrows) (hLc : L.ncols = B.nrows)
    (hc : 1 ≤ B.ncols) :
    cTrsmLLG hd d rsA rsB rsC fA fB fC rsBm rsL n (CLoop.MView.of L) (CLoop.MView.of B) cutoff
      = memOf (B.putB (trsmLowerLeft L.toB B.toB)) :=
  cTrsmLL_gen_correct _ (genAddmul_sim hd d rsA rsB rsC fA fB fC) rsBm rsL n cutoff L B hL hB hLr hLc hc


/-! #### the other three `_mzd_trsm_*` -/

/-- **callee congruence, both parameters** (recursive call, product) for the generated `_mzd_trsm_*` -/
theorem trsmUpperLeftRec_callee_congr2 (cutoff rsB rsU : Int) (mb nb : Nat) (mB mU : Mem) (hbU hbB : BitVec 64)
    (fruss : CLoop.MView → CLoop.MView → Int → Mem) (f g : CLoop.MView → CLoop.MView → Int → Mem)
    (addmul addmul' : Fn3)
    (H : ∀ (k : Nat) (mU' mB' : Mem), 0 < k → k < mb → AgreeOn k ((nb + 63) / 64)
      (f ⟨mU', (k : Int), (k : Int), (((k + 63) / 64 : Nat) : Int), leftMask (k % 64)⟩
        ⟨mB', (k : Int), (nb : Int), (((nb + 63) / 64 : Nat) : Int), leftMask (nb % 64)⟩ cutoff)
      (g ⟨mU', (k : Int), (k : Int), (((k + 63) / 64 : Nat) : Int), leftMask (k % 64)⟩
        ⟨mB', (k : Int), (nb : Int), (((nb + 63) / 64 : Nat) : Int), leftMask (nb % 64)⟩ cutoff))
    (HA : Sim3 cutoff addmul addmul') :
    Gen.C.trsmUpperLeftRec cutoff mB mb nb hbB mU (((nb + 63) / 64 : Nat) : Int) mb mb
        (((mb + 63) / 64 : Nat) : Int) hbU fruss rsB rsU f addmul
      = Gen.C.trsmUpperLeftRec cutoff mB mb nb hbB mU (((nb + 63) / 64 : Nat) : Int) mb mb
        (((mb + 63) / 64 : Nat) : Int) hbU fruss rsB rsU g addmul' := by
  unfold Gen.C.trsmUpperLeftRec
  dsimp_m
  by_cases h64 : mb ≤ 64
  · have h64' : decide ((mb : Int) ≤ 64) = true := by simp; omega
    rw [if_pos h64', if_pos h64']
  simp_m [blocksize_eq]
  have h64' : ¬ (decide ((mb : Int) ≤ 64) = true) := by simp; omega
  rw [if_neg h64', if_neg h64']
  by_cases h2048 : mb ≤ 2048
  · have h2048' : decide ((mb : Int) ≤ 2048) = true := by simp; omega
    rw [if_pos h2048', if_pos h2048']
  · have h2048' : ¬ (decide ((mb : Int) ≤ 2048) = true) := by simp; omega
    rw [if_neg h2048', if_neg h2048']
    have hsp : ((Int.tdiv ((mb : Int) - 1) 64 + 1) >>> (1 : Int).toNat) * 64
        = ((Rec.splitPoint mb : Nat) : Int) := GenTie.pleSplit_eq mb
    rw [hsp]
    have hk := Rec.splitPoint_lt mb (by omega)
    have hk0 := splitPoint_pos mb (by omega)
    have hk64 := splitPoint_mod mb
    generalize Rec.splitPoint mb = mb1 at *
    rw [mzdInitWindow_in 0 0 mb1 nb mb rsB 0 0 mb1 nb mb rfl rfl rfl rfl rfl (by omega) (by omega) (by omega)
        (by omega),
      mzdInitWindow_in mb1 0 mb nb mb rsB mb1 0 mb nb mb rfl rfl rfl rfl rfl (by omega) (by omega) (by omega)
        (by omega),
      mzdInitWindow_in 0 0 mb1 mb1 mb rsU 0 0 mb1 mb1 mb rfl rfl rfl rfl rfl (by omega) (by omega)
        (by omega) (by omega),
      mzdInitWindow_in 0 mb1 mb1 mb mb rsU 0 mb1 mb1 mb mb rfl rfl rfl rfl rfl hk64 (by omega)
        (by omega) (by omega),
      mzdInitWindow_in mb1 mb1 mb mb mb rsU mb1 mb1 mb mb mb rfl rfl rfl rfl rfl hk64 (by omega)
        (by omega) (by omega)]
    dsimp_m
    norm_win'
    have a1 := step2_callee (f := f) (g := g) (rfl : mB = mB) mU ((mb1 : Nat) : Int) ((mb1 / 64 : Nat) : Int)
      ((mb - mb1 : Nat) : Int) (((mb - mb1 + 63) / 64 : Nat) : Int) ((mb1 : Nat) : Int) ((0 : Nat) : Int)
      (mb - mb1) ((nb + 63) / 64) ((mb - mb1 : Nat) : Int) ((nb : Nat) : Int) (leftMask ((mb - mb1) % 64))
      (leftMask (nb % 64)) cutoff (H (mb - mb1) _ _ (by omega) (by omega))
    have a2 := step3_callee (f := addmul) (g := addmul') a1 (rfl : mU = mU) a1 ((0 : Nat) : Int) ((0 : Nat) : Int)
      mb1 ((nb + 63) / 64) ((0 : Nat) : Int) ((mb1 / 64 : Nat) : Int) ((mb1 : Nat) : Int) (((mb - mb1 + 63) / 64 : Nat) : Int)
      ((mb1 : Nat) : Int) ((0 : Nat) : Int) ((mb - mb1 : Nat) : Int) (((nb + 63) / 64 : Nat) : Int) ((nb : Nat) : Int) ((mb - mb1 : Nat) : Int) ((nb : Nat) : Int)
      (leftMask (nb % 64)) (leftMask ((mb - mb1) % 64)) (leftMask (nb % 64)) cutoff (HA mb1 (mb - mb1) nb _ _ _)
    exact step2_callee a2 mU ((0 : Nat) : Int) ((0 : Nat) : Int) ((mb1 : Nat) : Int)
      (((mb1 + 63) / 64 : Nat) : Int) ((0 : Nat) : Int) ((0 : Nat) : Int) mb1 ((nb + 63) / 64)
      ((mb1 : Nat) : Int) ((nb : Nat) : Int) (leftMask (mb1 % 64)) (leftMask (nb % 64)) cutoff
      (H mb1 _ _ hk0 hk)

/-- **callee congruence, both parameters** (recursive call, product) for the generated `_mzd_trsm_*` -/
theorem trsmUpperRightRec_callee_congr2 (cutoff rsB rsU : Int) (mb nb : Nat) (mB mU : Mem) (hbU hbB : BitVec 64)
    (base trtri : CLoop.MView → CLoop.MView → Mem) (f g : CLoop.MView → CLoop.MView → Int → Mem)
    (addmul addmul' : Fn3)
    (H : ∀ (k : Nat) (mU' mB' : Mem), 0 < k → k < nb → AgreeOn mb ((k + 63) / 64)
      (f ⟨mU', (k : Int), (k : Int), (((k + 63) / 64 : Nat) : Int), leftMask (k % 64)⟩
        ⟨mB', (mb : Int), (k : Int), (((k + 63) / 64 : Nat) : Int), leftMask (k % 64)⟩ cutoff)
      (g ⟨mU', (k : Int), (k : Int), (((k + 63) / 64 : Nat) : Int), leftMask (k % 64)⟩
        ⟨mB', (mb : Int), (k : Int), (((k + 63) / 64 : Nat) : Int), leftMask (k % 64)⟩ cutoff))
    (HA : Sim3 cutoff addmul addmul') :
    Gen.C.trsmUpperRightRec cutoff mB mb nb mU nb nb (((nb + 63) / 64 : Nat) : Int) hbU
        (((nb + 63) / 64 : Nat) : Int) hbB base trtri rsB rsU f addmul
      = Gen.C.trsmUpperRightRec cutoff mB mb nb mU nb nb (((nb + 63) / 64 : Nat) : Int) hbU
        (((nb + 63) / 64 : Nat) : Int) hbB base trtri rsB rsU g addmul' := by
  unfold Gen.C.trsmUpperRightRec
  dsimp_m
  simp_m [blocksize_eq]
  by_cases h64 : nb ≤ 64
  · have h64' : decide ((nb : Int) ≤ 64) = true := by simp; omega
    rw [if_pos h64', if_pos h64']
  have h64' : ¬ (decide ((nb : Int) ≤ 64) = true) := by simp; omega
  rw [if_neg h64', if_neg h64']
  by_cases h2048 : nb ≤ 2048
  · have h2048' : decide ((nb : Int) ≤ 2048) = true := by simp; omega
    rw [if_pos h2048', if_pos h2048']
  · have h2048' : ¬ (decide ((nb : Int) ≤ 2048) = true) := by simp; omega
    rw [if_neg h2048', if_neg h2048']
    have hsp : ((Int.tdiv ((nb : Int) - 1) 64 + 1) >>> (1 : Int).toNat) * 64
        = ((Rec.splitPoint nb : Nat) : Int) := GenTie.pleSplit_eq nb
    rw [hsp]
    have hk := Rec.splitPoint_lt nb (by omega)
    have hk0 := splitPoint_pos nb (by omega)
    have hk64 := splitPoint_mod nb
    generalize Rec.splitPoint nb = nb1 at *
    rw [mzdInitWindow_in 0 0 mb nb1 mb rsB 0 0 mb nb1 mb rfl rfl rfl rfl rfl (by omega) (by omega) (by omega)
        (by omega),
      mzdInitWindow_in 0 nb1 mb nb mb rsB 0 nb1 mb nb mb rfl rfl rfl rfl rfl hk64 (by omega) (by omega)
        (by omega),
      mzdInitWindow_in 0 0 nb1 nb1 nb rsU 0 0 nb1 nb1 nb rfl rfl rfl rfl rfl (by omega) (by omega)
        (by omega) (by omega),
      mzdInitWindow_in 0 nb1 nb1 nb nb rsU 0 nb1 nb1 nb nb rfl rfl rfl rfl rfl hk64 (by omega)
        (by omega) (by omega),
      mzdInitWindow_in nb1 nb1 nb nb nb rsU nb1 nb1 nb nb nb rfl rfl rfl rfl rfl hk64 (by omega)
        (by omega) (by omega)]
    dsimp_m
    norm_win'
    have a1 := step2_callee (f := f) (g := g) (rfl : mB = mB) mU ((0 : Nat) : Int) ((0 : Nat) : Int)
      ((nb1 : Nat) : Int) (((nb1 + 63) / 64 : Nat) : Int) ((0 : Nat) : Int) ((0 : Nat) : Int) mb ((nb1 + 63) / 64)
      ((nb1 : Nat) : Int) ((nb1 : Nat) : Int) (leftMask (nb1 % 64)) (leftMask (nb1 % 64)) cutoff
      (H nb1 _ _ hk0 hk)
    have a2 := step3_callee (f := addmul) (g := addmul') a1 a1 (rfl : mU = mU) ((0 : Nat) : Int) ((nb1 / 64 : Nat) : Int)
      mb ((nb - nb1 + 63) / 64) ((0 : Nat) : Int) ((0 : Nat) : Int) ((mb : Nat) : Int) (((nb1 + 63) / 64 : Nat) : Int)
      ((0 : Nat) : Int) ((nb1 / 64 : Nat) : Int) ((nb1 : Nat) : Int) (((nb - nb1 + 63) / 64 : Nat) : Int) ((nb - nb1 : Nat) : Int) ((nb1 : Nat) : Int) ((nb - nb1 : Nat) : Int)
      (leftMask ((nb - nb1) % 64)) (leftMask (nb1 % 64)) (leftMask ((nb - nb1) % 64)) cutoff (HA mb nb1 (nb - nb1) _ _ _)
    exact step2_callee a2 mU ((nb1 : Nat) : Int) ((nb1 / 64 : Nat) : Int) ((nb - nb1 : Nat) : Int)
      (((nb - nb1 + 63) / 64 : Nat) : Int) ((0 : Nat) : Int) ((nb1 / 64 : Nat) : Int) mb
      ((nb - nb1 + 63) / 64) ((nb - nb1 : Nat) : Int) ((nb - nb1 : Nat) : Int) (leftMask ((nb - nb1) % 64))
      (leftMask ((nb - nb1) % 64)) cutoff (H (nb - nb1) _ _ (by omega) (by omega))

/-- **callee congruence, both parameters** (recursive call, product) for the generated `_mzd_trsm_*` -/
theorem trsmLowerRightRec_callee_congr2 (cutoff rsB rsL : Int) (mb nb : Nat) (mB mL : Mem) (hbL hbB : BitVec 64)
    (base : CLoop.MView → CLoop.MView → Mem) (f g : CLoop.MView → CLoop.MView → Int → Mem)
    (addmul addmul' : Fn3)
    (H : ∀ (k : Nat) (mL' mB' : Mem), 0 < k → k < nb → AgreeOn mb ((k + 63) / 64)
      (f ⟨mL', (k : Int), (k : Int), (((k + 63) / 64 : Nat) : Int), leftMask (k % 64)⟩
        ⟨mB', (mb : Int), (k : Int), (((k + 63) / 64 : Nat) : Int), leftMask (k % 64)⟩ cutoff)
      (g ⟨mL', (k : Int), (k : Int), (((k + 63) / 64 : Nat) : Int), leftMask (k % 64)⟩
        ⟨mB', (mb : Int), (k : Int), (((k + 63) / 64 : Nat) : Int), leftMask (k % 64)⟩ cutoff))
    (HA : Sim3 cutoff addmul addmul') :
    Gen.C.trsmLowerRightRec cutoff mB mb nb mL nb nb (((nb + 63) / 64 : Nat) : Int) hbL
        (((nb + 63) / 64 : Nat) : Int) hbB base rsB rsL f addmul
      = Gen.C.trsmLowerRightRec cutoff mB mb nb mL nb nb (((nb + 63) / 64 : Nat) : Int) hbL
        (((nb + 63) / 64 : Nat) : Int) hbB base rsB rsL g addmul' := by
  unfold Gen.C.trsmLowerRightRec
  dsimp_m
  by_cases h64 : nb ≤ 64
  · have h64' : decide ((nb : Int) ≤ 64) = true := by simp; omega
    rw [if_pos h64', if_pos h64']
  have h64' : ¬ (decide ((nb : Int) ≤ 64) = true) := by simp; omega
  rw [if_neg h64', if_neg h64']
  have hsp : ((Int.tdiv ((nb : Int) - 1) 64 + 1) >>> (1 : Int).toNat) * 64
      = ((Rec.splitPoint nb : Nat) : Int) := GenTie.pleSplit_eq nb
  rw [hsp]
  have hk := Rec.splitPoint_lt nb (by omega)
  have hk0 := splitPoint_pos nb (by omega)
  have hk64 := splitPoint_mod nb
  generalize Rec.splitPoint nb = nb1 at *
  rw [mzdInitWindow_in 0 0 mb nb1 mb rsB 0 0 mb nb1 mb rfl rfl rfl rfl rfl (by omega) (by omega) (by omega)
      (by omega),
    mzdInitWindow_in 0 nb1 mb nb mb rsB 0 nb1 mb nb mb rfl rfl rfl rfl rfl hk64 (by omega) (by omega)
      (by omega),
    mzdInitWindow_in 0 0 nb1 nb1 nb rsL 0 0 nb1 nb1 nb rfl rfl rfl rfl rfl (by omega) (by omega)
      (by omega) (by omega),
    mzdInitWindow_in nb1 0 nb nb1 nb rsL nb1 0 nb nb1 nb rfl rfl rfl rfl rfl (by omega) (by omega)
      (by omega) (by omega),
    mzdInitWindow_in nb1 nb1 nb nb nb rsL nb1 nb1 nb nb nb rfl rfl rfl rfl rfl hk64 (by omega)
      (by omega) (by omega)]
  dsimp_m
  norm_win'
  have a1 := step2_callee (f := f) (g := g) (rfl : mB = mB) mL ((nb1 : Nat) : Int) ((nb1 / 64 : Nat) : Int)
    ((nb - nb1 : Nat) : Int) (((nb - nb1 + 63) / 64 : Nat) : Int) ((0 : Nat) : Int) ((nb1 / 64 : Nat) : Int) mb
    ((nb - nb1 + 63) / 64) ((nb - nb1 : Nat) : Int) ((nb - nb1 : Nat) : Int) (leftMask ((nb - nb1) % 64))
    (leftMask ((nb - nb1) % 64)) cutoff (H (nb - nb1) _ _ (by omega) (by omega))
  have a2 := step3_callee (f := addmul) (g := addmul') a1 a1 (rfl : mL = mL) ((0 : Nat) : Int) ((0 : Nat) : Int)
    mb ((nb1 + 63) / 64) ((0 : Nat) : Int) ((nb1 / 64 : Nat) : Int) ((mb : Nat) : Int) (((nb - nb1 + 63) / 64 : Nat) : Int)
    ((nb1 : Nat) : Int) ((0 : Nat) : Int) ((nb - nb1 : Nat) : Int) (((nb1 + 63) / 64 : Nat) : Int) ((nb1 : Nat) : Int) ((nb - nb1 : Nat) : Int) ((nb1 : Nat) : Int)
    (leftMask (nb1 % 64)) (leftMask ((nb - nb1) % 64)) (leftMask (nb1 % 64)) cutoff (HA mb (nb - nb1) nb1 _ _ _)
  exact step2_callee a2 mL ((0 : Nat) : Int) ((0 : Nat) : Int) ((nb1 : Nat) : Int)
    (((nb1 + 63) / 64 : Nat) : Int) ((0 : Nat) : Int) ((0 : Nat) : Int) mb ((nb1 + 63) / 64)
    ((nb1 : Nat) : Int) ((nb1 : Nat) : Int) (leftMask (nb1 % 64)) (leftMask (nb1 % 64)) cutoff
    (H nb1 _ _ hk0 hk)

/-- the closure of `_mzd_trsm_*` (UL) over any product callee `G` that cannot be told apart from `addmulM`, on
    canonical records: it agrees with the closure over `addmulM` -/
theorem cTrsmUL_gen_raw (G : Fn3) (HG : ∀ c, Sim3 c G addmulM) (rsB rsU : Int) (n : Nat) :
    ∀ (cutoff : Int) (mb nb : Nat) (mU mB : Mem),
    AgreeOn mb ((nb + 63) / 64)
      (cTrsmUL ulRuss G rsB rsU n
        ⟨mU, (mb : Int), (mb : Int), (((mb + 63) / 64 : Nat) : Int), leftMask (mb % 64)⟩
        ⟨mB, (mb : Int), (nb : Int), (((nb + 63) / 64 : Nat) : Int), leftMask (nb % 64)⟩ cutoff)
      (cTrsmUL ulRuss addmulM rsB rsU n
        ⟨mU, (mb : Int), (mb : Int), (((mb + 63) / 64 : Nat) : Int), leftMask (mb % 64)⟩
        ⟨mB, (mb : Int), (nb : Int), (((nb + 63) / 64 : Nat) : Int), leftMask (nb % 64)⟩ cutoff) := by
  induction n with
  | zero => intro cutoff mb nb mU mB; exact AgreeOn.refl _ _ _
  | succ n ih =>
    intro cutoff mb nb mU mB
    show AgreeOn mb ((nb + 63) / 64)
      (Gen.C.trsmUpperLeftRec cutoff mB mb nb (leftMask (nb % 64)) mU (((nb + 63) / 64 : Nat) : Int) mb mb
        (((mb + 63) / 64 : Nat) : Int) (leftMask (mb % 64)) ulRuss rsB rsU
        (cTrsmUL ulRuss G rsB rsU n) G)
      (Gen.C.trsmUpperLeftRec cutoff mB mb nb (leftMask (nb % 64)) mU (((nb + 63) / 64 : Nat) : Int) mb mb
        (((mb + 63) / 64 : Nat) : Int) (leftMask (mb % 64)) ulRuss rsB rsU
        (cTrsmUL ulRuss addmulM rsB rsU n) addmulM)
    rw [trsmUpperLeftRec_callee_congr2 cutoff rsB rsU mb nb mB mU _ _ ulRuss (cTrsmUL ulRuss G rsB rsU n)
      (cTrsmUL ulRuss addmulM rsB rsU n) G addmulM (fun k mU' mB' _ _ => ih cutoff k nb mU' mB') (HG cutoff)]
    exact AgreeOn.refl _ _ _

/-- every depth, on views: the substitution form (UL, product callee `G`) -/
theorem cTrsmUL_gen_view_subst (G : Fn3) (HG : ∀ c, Sim3 c G addmulM) (rsB rsU : Int) (n : Nat) (cutoff : Int)
    (U B : Mzd) (hU : U.WF) (hB : B.WF) (hUr : U.nrows = B.nrows) (hUc : U.ncols = B.nrows) (hc : 1 ≤ B.ncols) (mB mU : Mem)
    (hmB : AgreeOn B.nrows B.width mB (memOf B)) (hmU : AgreeOn U.nrows U.width mU (memOf U)) :
    AgreeOn B.nrows B.width
      (cTrsmUL ulRuss G rsB rsU n ⟨mU, U.nrows, U.ncols, U.width, U.hb⟩
        ⟨mB, B.nrows, B.ncols, B.width, B.hb⟩ cutoff)
      (memOf (B.putB (trsmUpperLeft U.toB B.toB))) := by
  have h := cTrsmUL_view_subst rsB rsU n cutoff U B hU hB hUr hUc hc mB mU hmB hmU
  have hwU : U.width = (B.nrows + 63) / 64 := by unfold Mzd.width widthOf; rw [hUc]
  have hhU : U.hb = leftMask (B.nrows % 64) := by unfold Mzd.hb; rw [hUc]
  rw [hUr, hUc, hwU, hhU] at h ⊢
  exact (cTrsmUL_gen_raw G HG rsB rsU n cutoff B.nrows B.ncols mU mB).trans h

/-- **`_mzd_trsm_*` (UL) with the product callee `G`, the C recursion at every depth, on whole matrices = the
    substitution form** (equality of the memories) -/
theorem cTrsmUL_gen_correct (G : Fn3) (HG : ∀ c, Sim3 c G addmulM) (rsB rsU : Int) (n : Nat) (cutoff : Int)
    (U B : Mzd) (hU : U.WF) (hB : B.WF) (hUr : U.nrows = B.nrows) (hUc : U.ncols = B.nrows) (hc : 1 ≤ B.ncols) :
    cTrsmUL ulRuss G rsB rsU n (CLoop.MView.of U) (CLoop.MView.of B) cutoff
      = memOf (B.putB (trsmUpperLeft U.toB B.toB)) := by
  rw [← cTrsmUL_correct rsB rsU n cutoff U B hU hB hUr hUc hc]
  cases n with
  | zero => rfl
  | succ n =>
    have hwU : U.width = (B.nrows + 63) / 64 := by unfold Mzd.width widthOf; rw [hUc]
    show Gen.C.trsmUpperLeftRec cutoff (memOf B) B.nrows B.ncols B.hb (memOf U) B.width U.nrows U.ncols U.width
        U.hb ulRuss rsB rsU (cTrsmUL ulRuss G rsB rsU n) G
      = Gen.C.trsmUpperLeftRec cutoff (memOf B) B.nrows B.ncols B.hb (memOf U) B.width U.nrows U.ncols U.width
        U.hb ulRuss rsB rsU (cTrsmUL ulRuss addmulM rsB rsU n) addmulM
    rw [hUr, hUc, hwU]
    exact trsmUpperLeftRec_callee_congr2 cutoff rsB rsU B.nrows B.ncols (memOf B) (memOf U) _ _ ulRuss
      _ _ G addmulM (fun k mU' mB' _ _ => cTrsmUL_gen_raw G HG rsB rsU n cutoff k B.ncols mU' mB') (HG cutoff)

/-- the closure (UL) over `G` called on two windows (as its callers do), result written back into `A` -/
theorem cTrsmUL_gen_window (G : Fn3) (HG : ∀ c, Sim3 c G addmulM) (rsB rsT : Int) (n : Nat) (cutoff : Int) (A Tm : Mzd) (hA : A.WF)
    (lr lc hr hc ar ac ahr ahc : Nat) (hW : InWin A lr lc hr hc) (hWT : InWin Tm ar ac ahr ahc)
    (hsq1 : ahr - ar = hr - lr) (hsq2 : ahc - ac = hr - lr) (hc1 : 1 ≤ hc - lc) :
    CLoop.unview (memOf A) (lr : Int) ((lc / 64 : Nat) : Int) ((hr - lr : Nat) : Int)
        (((hc - lc + 63) / 64 : Nat) : Int)
        (cTrsmUL ulRuss G rsB rsT n (winView (memOf Tm) ar ac ahr ahc) (winView (memOf A) lr lc hr hc) cutoff)
      = memOf (A.putB (A.toB.paste lr lc (trsmUpperLeft (Tm.toB.sub ar ac ahr ahc) (A.toB.sub lr lc hr hc)))) := by
  have hBs : Shaped (A.toB.sub lr lc hr hc) (hr - lr) (hc - lc) :=
    (shaped_toB hA).sub lr lc hr hc hW.hr
  have hX : Shaped (trsmUpperLeft (Tm.toB.sub ar ac ahr ahc) (A.toB.sub lr lc hr hc)) (hr - lr) (hc - lc) :=
    shaped_ulRec 2048 0 (hBs) (by rw [nrows_sub, Mzd.nrows_toB]; have := hWT.hr; omega)
  apply unview_window_of_agree A hA lr lc hr hc hW.lc hW.hr hW.hc _ hX.nr hX.nc
  have h := cTrsmUL_gen_view_subst G HG rsB rsT n cutoff (Tm.window ar ac ahr ahc) (A.window lr lc hr hc)
    (window_WF _ _ _ _ _) (window_WF _ _ _ _ _) (by simp [hsq1]) (by simp [hsq2]) (by simpa using hc1)
    _ _ (view_agree_window A lr lc hr hc) (view_agree_window Tm ar ac ahr ahc)
  simp only [nrows_window, ncols_window, width_window, hb_window] at h
  rw [window_toB A lr lc hr hc hW.lc hW.hr hW.hc, window_toB Tm ar ac ahr ahc hWT.lc hWT.hr hWT.hc] at h
  exact h

/-- **`_mzd_trsm_*` (UL) closed over THE GENERATED PRODUCT** -/
abbrev cTrsmULG (hd : Hdr) (d : Nat) (rsA rsB rsC : Int) (fA fB fC : BitVec 8) (rsBm rsU : Int) :
    Nat → CLoop.MView → CLoop.MView → Int → Mem :=
  cTrsmUL ulRuss (genAddmul hd d rsA rsB rsC fA fB fC) rsBm rsU

theorem cTrsmULG_correct (hd : Hdr) (d : Nat) (rsA rsB rsC : Int) (fA fB fC : BitVec 8) (rsBm rsU : Int) (n : Nat)
    (cutoff : Int) (U B : Mzd) (hU : U.WF) (hB : B.WF) (hUr : U.nrows = B.nrows) (hUc : U.ncols = B.nrows) (hc : 1 ≤ B.ncols) :
    cTrsmULG hd d rsA rsB rsC fA fB fC rsBm rsU n (CLoop.MView.of U) (CLoop.MView.of B) cutoff
      = memOf (B.putB (trsmUpperLeft U.toB B.toB)) :=
  cTrsmUL_gen_correct _ (genAddmul_sim hd d rsA rsB rsC fA fB fC) rsBm rsU n cutoff U B hU hB hUr hUc hc

/-- the closure of `_mzd_trsm_*` (UR) over any product callee `G` that cannot be told apart from `addmulM`, on
    canonical records: it agrees with the closure over `addmulM` -/
theorem cTrsmUR_gen_raw (G : Fn3) (HG : ∀ c, Sim3 c G addmulM) (rsB rsU : Int) (n : Nat) :
    ∀ (cutoff : Int) (mb nb : Nat) (mU mB : Mem),
    AgreeOn mb ((nb + 63) / 64)
      (cTrsmUR urBase urTrtri G rsB rsU n
        ⟨mU, (nb : Int), (nb : Int), (((nb + 63) / 64 : Nat) : Int), leftMask (nb % 64)⟩
        ⟨mB, (mb : Int), (nb : Int), (((nb + 63) / 64 : Nat) : Int), leftMask (nb % 64)⟩ cutoff)
      (cTrsmUR urBase urTrtri addmulM rsB rsU n
        ⟨mU, (nb : Int), (nb : Int), (((nb + 63) / 64 : Nat) : Int), leftMask (nb % 64)⟩
        ⟨mB, (mb : Int), (nb : Int), (((nb + 63) / 64 : Nat) : Int), leftMask (nb % 64)⟩ cutoff) := by
  induction n with
  | zero => intro cutoff mb nb mU mB; exact AgreeOn.refl _ _ _
  | succ n ih =>
    intro cutoff mb nb mU mB
    show AgreeOn mb ((nb + 63) / 64)
      (Gen.C.trsmUpperRightRec cutoff mB mb nb mU nb nb (((nb + 63) / 64 : Nat) : Int) (leftMask (nb % 64))
        (((nb + 63) / 64 : Nat) : Int) (leftMask (nb % 64)) urBase urTrtri rsB rsU
        (cTrsmUR urBase urTrtri G rsB rsU n) G)
      (Gen.C.trsmUpperRightRec cutoff mB mb nb mU nb nb (((nb + 63) / 64 : Nat) : Int) (leftMask (nb % 64))
        (((nb + 63) / 64 : Nat) : Int) (leftMask (nb % 64)) urBase urTrtri rsB rsU
        (cTrsmUR urBase urTrtri addmulM rsB rsU n) addmulM)
    rw [trsmUpperRightRec_callee_congr2 cutoff rsB rsU mb nb mB mU _ _ urBase urTrtri (cTrsmUR urBase urTrtri G rsB rsU n)
      (cTrsmUR urBase urTrtri addmulM rsB rsU n) G addmulM (fun k mU' mB' _ _ => ih cutoff mb k mU' mB') (HG cutoff)]
    exact AgreeOn.refl _ _ _

/-- every depth, on views: the substitution form (UR, product callee `G`) -/
theorem cTrsmUR_gen_view_subst (G : Fn3) (HG : ∀ c, Sim3 c G addmulM) (rsB rsU : Int) (n : Nat) (cutoff : Int)
    (U B : Mzd) (hU : U.WF) (hB : B.WF) (hUr : U.nrows = B.ncols) (hUc : U.ncols = B.ncols) (mB mU : Mem)
    (hmB : AgreeOn B.nrows B.width mB (memOf B)) (hmU : AgreeOn U.nrows U.width mU (memOf U)) :
    AgreeOn B.nrows B.width
      (cTrsmUR urBase urTrtri G rsB rsU n ⟨mU, U.nrows, U.ncols, U.width, U.hb⟩
        ⟨mB, B.nrows, B.ncols, B.width, B.hb⟩ cutoff)
      (memOf (B.putB (trsmUpperRight U.toB B.toB))) := by
  have h := cTrsmUR_view_subst rsB rsU n cutoff U B hU hB hUr hUc mB mU hmB hmU
  have hwU : U.width = (B.ncols + 63) / 64 := by unfold Mzd.width widthOf; rw [hUc]
  have hhU : U.hb = leftMask (B.ncols % 64) := by unfold Mzd.hb; rw [hUc]
  rw [hUr, hUc, hwU, hhU] at h ⊢
  exact (cTrsmUR_gen_raw G HG rsB rsU n cutoff B.nrows B.ncols mU mB).trans h

/-- **`_mzd_trsm_*` (UR) with the product callee `G`, the C recursion at every depth, on whole matrices = the
    substitution form** (equality of the memories) -/
theorem cTrsmUR_gen_correct (G : Fn3) (HG : ∀ c, Sim3 c G addmulM) (rsB rsU : Int) (n : Nat) (cutoff : Int)
    (U B : Mzd) (hU : U.WF) (hB : B.WF) (hUr : U.nrows = B.ncols) (hUc : U.ncols = B.ncols) :
    cTrsmUR urBase urTrtri G rsB rsU n (CLoop.MView.of U) (CLoop.MView.of B) cutoff
      = memOf (B.putB (trsmUpperRight U.toB B.toB)) := by
  rw [← cTrsmUR_correct rsB rsU n cutoff U B hU hB hUr hUc]
  cases n with
  | zero => rfl
  | succ n =>
    have hwU : U.width = (B.ncols + 63) / 64 := by unfold Mzd.width widthOf; rw [hUc]
    show Gen.C.trsmUpperRightRec cutoff (memOf B) B.nrows B.ncols (memOf U) U.nrows U.ncols U.width U.hb B.width
        B.hb urBase urTrtri rsB rsU (cTrsmUR urBase urTrtri G rsB rsU n) G
      = Gen.C.trsmUpperRightRec cutoff (memOf B) B.nrows B.ncols (memOf U) U.nrows U.ncols U.width U.hb B.width
        B.hb urBase urTrtri rsB rsU (cTrsmUR urBase urTrtri addmulM rsB rsU n) addmulM
    rw [hUr, hUc, hwU]
    exact trsmUpperRightRec_callee_congr2 cutoff rsB rsU B.nrows B.ncols (memOf B) (memOf U) _ _ urBase urTrtri
      _ _ G addmulM (fun k mU' mB' _ _ => cTrsmUR_gen_raw G HG rsB rsU n cutoff B.nrows k mU' mB') (HG cutoff)

/-- the closure (UR) over `G` called on two windows (as its callers do), result written back into `A` -/
theorem cTrsmUR_gen_window (G : Fn3) (HG : ∀ c, Sim3 c G addmulM) (rsB rsT : Int) (n : Nat) (cutoff : Int) (A Tm : Mzd) (hA : A.WF)
    (lr lc hr hc ar ac ahr ahc : Nat) (hW : InWin A lr lc hr hc) (hWT : InWin Tm ar ac ahr ahc)
    (hsq1 : ahr - ar = hc - lc) (hsq2 : ahc - ac = hc - lc) :
    CLoop.unview (memOf A) (lr : Int) ((lc / 64 : Nat) : Int) ((hr - lr : Nat) : Int)
        (((hc - lc + 63) / 64 : Nat) : Int)
        (cTrsmUR urBase urTrtri G rsB rsT n (winView (memOf Tm) ar ac ahr ahc) (winView (memOf A) lr lc hr hc) cutoff)
      = memOf (A.putB (A.toB.paste lr lc (trsmUpperRight (Tm.toB.sub ar ac ahr ahc) (A.toB.sub lr lc hr hc)))) := by
  have hBs : Shaped (A.toB.sub lr lc hr hc) (hr - lr) (hc - lc) :=
    (shaped_toB hA).sub lr lc hr hc hW.hr
  have hX : Shaped (trsmUpperRight (Tm.toB.sub ar ac ahr ahc) (A.toB.sub lr lc hr hc)) (hr - lr) (hc - lc) :=
    shaped_urRec 64 2048 0 (hBs) (by rw [nrows_sub, Mzd.nrows_toB]; have := hWT.hr; omega)
  apply unview_window_of_agree A hA lr lc hr hc hW.lc hW.hr hW.hc _ hX.nr hX.nc
  have h := cTrsmUR_gen_view_subst G HG rsB rsT n cutoff (Tm.window ar ac ahr ahc) (A.window lr lc hr hc)
    (window_WF _ _ _ _ _) (window_WF _ _ _ _ _) (by simp [hsq1]) (by simp [hsq2])
    _ _ (view_agree_window A lr lc hr hc) (view_agree_window Tm ar ac ahr ahc)
  simp only [nrows_window, ncols_window, width_window, hb_window] at h
  rw [window_toB A lr lc hr hc hW.lc hW.hr hW.hc, window_toB Tm ar ac ahr ahc hWT.lc hWT.hr hWT.hc] at h
  exact h

/-- **`_mzd_trsm_*` (UR) closed over THE GENERATED PRODUCT** -/
abbrev cTrsmURG (hd : Hdr) (d : Nat) (rsA rsB rsC : Int) (fA fB fC : BitVec 8) (rsBm rsU : Int) :
    Nat → CLoop.MView → CLoop.MView → Int → Mem :=
  cTrsmUR urBase urTrtri (genAddmul hd d rsA rsB rsC fA fB fC) rsBm rsU

theorem cTrsmURG_correct (hd : Hdr) (d : Nat) (rsA rsB rsC : Int) (fA fB fC : BitVec 8) (rsBm rsU : Int) (n : Nat)
    (cutoff : Int) (U B : Mzd) (hU : U.WF) (hB : B.WF) (hUr : U.nrows = B.ncols) (hUc : U.ncols = B.ncols) :
    cTrsmURG hd d rsA rsB rsC fA fB fC rsBm rsU n (CLoop.MView.of U) (CLoop.MView.of B) cutoff
      = memOf (B.putB (trsmUpperRight U.toB B.toB)) :=
  cTrsmUR_gen_correct _ (genAddmul_sim hd d rsA rsB rsC fA fB fC) rsBm rsU n cutoff U B hU hB hUr hUc

/-- the closure of `_mzd_trsm_*` (LR) over any product callee `G` that cannot be told apart from `addmulM`, on
    canonical records: it agrees with the closure over `addmulM` -/
theorem cTrsmLR_gen_raw (G : Fn3) (HG : ∀ c, Sim3 c G addmulM) (rsB rsL : Int) (n : Nat) :
    ∀ (cutoff : Int) (mb nb : Nat) (mL mB : Mem),
    AgreeOn mb ((nb + 63) / 64)
      (cTrsmLR lrBase G rsB rsL n
        ⟨mL, (nb : Int), (nb : Int), (((nb + 63) / 64 : Nat) : Int), leftMask (nb % 64)⟩
        ⟨mB, (mb : Int), (nb : Int), (((nb + 63) / 64 : Nat) : Int), leftMask (nb % 64)⟩ cutoff)
      (cTrsmLR lrBase addmulM rsB rsL n
        ⟨mL, (nb : Int), (nb : Int), (((nb + 63) / 64 : Nat) : Int), leftMask (nb % 64)⟩
        ⟨mB, (mb : Int), (nb : Int), (((nb + 63) / 64 : Nat) : Int), leftMask (nb % 64)⟩ cutoff) := by
  induction n with
  | zero => intro cutoff mb nb mL mB; exact AgreeOn.refl _ _ _
  | succ n ih =>
    intro cutoff mb nb mL mB
    show AgreeOn mb ((nb + 63) / 64)
      (Gen.C.trsmLowerRightRec cutoff mB mb nb mL nb nb (((nb + 63) / 64 : Nat) : Int) (leftMask (nb % 64))
        (((nb + 63) / 64 : Nat) : Int) (leftMask (nb % 64)) lrBase rsB rsL
        (cTrsmLR lrBase G rsB rsL n) G)
      (Gen.C.trsmLowerRightRec cutoff mB mb nb mL nb nb (((nb + 63) / 64 : Nat) : Int) (leftMask (nb % 64))
        (((nb + 63) / 64 : Nat) : Int) (leftMask (nb % 64)) lrBase rsB rsL
        (cTrsmLR lrBase addmulM rsB rsL n) addmulM)
    rw [trsmLowerRightRec_callee_congr2 cutoff rsB rsL mb nb mB mL _ _ lrBase (cTrsmLR lrBase G rsB rsL n)
      (cTrsmLR lrBase addmulM rsB rsL n) G addmulM (fun k mL' mB' _ _ => ih cutoff mb k mL' mB') (HG cutoff)]
    exact AgreeOn.refl _ _ _

/-- every depth, on views: the substitution form (LR, product callee `G`) -/
theorem cTrsmLR_gen_view_subst (G : Fn3) (HG : ∀ c, Sim3 c G addmulM) (rsB rsL : Int) (n : Nat) (cutoff : Int)
    (L B : Mzd) (hL : L.WF) (hB : B.WF) (hLr : L.nrows = B.ncols) (hLc : L.ncols = B.ncols) (mB mL : Mem)
    (hmB : AgreeOn B.nrows B.width mB (memOf B)) (hmL : AgreeOn L.nrows L.width mL (memOf L)) :
    AgreeOn B.nrows B.width
      (cTrsmLR lrBase G rsB rsL n ⟨mL, L.nrows, L.ncols, L.width, L.hb⟩
        ⟨mB, B.nrows, B.ncols, B.width, B.hb⟩ cutoff)
      (memOf (B.putB (trsmLowerRight L.toB B.toB))) := by
  have h := cTrsmLR_view_subst rsB rsL n cutoff L B hL hB hLr hLc mB mL hmB hmL
  have hwL : L.width = (B.ncols + 63) / 64 := by unfold Mzd.width widthOf; rw [hLc]
  have hhL : L.hb = leftMask (B.ncols % 64) := by unfold Mzd.hb; rw [hLc]
  rw [hLr, hLc, hwL, hhL] at h ⊢
  exact (cTrsmLR_gen_raw G HG rsB rsL n cutoff B.nrows B.ncols mL mB).trans h

/-- **`_mzd_trsm_*` (LR) with the product callee `G`, the C recursion at every depth, on whole matrices = the
    substitution form** (equality of the memories) -/
theorem cTrsmLR_gen_correct (G : Fn3) (HG : ∀ c, Sim3 c G addmulM) (rsB rsL : Int) (n : Nat) (cutoff : Int)
    (L B : Mzd) (hL : L.WF) (hB : B.WF) (hLr : L.nrows = B.ncols) (hLc : L.ncols = B.ncols) :
    cTrsmLR lrBase G rsB rsL n (CLoop.MView.of L) (CLoop.MView.of B) cutoff
      = memOf (B.putB (trsmLowerRight L.toB B.toB)) := by
  rw [← cTrsmLR_correct rsB rsL n cutoff L B hL hB hLr hLc]
  cases n with
  | zero => rfl
  | succ n =>
    have hwL : L.width = (B.ncols + 63) / 64 := by unfold Mzd.width widthOf; rw [hLc]
    show Gen.C.trsmLowerRightRec cutoff (memOf B) B.nrows B.ncols (memOf L) L.nrows L.ncols L.width L.hb B.width
        B.hb lrBase rsB rsL (cTrsmLR lrBase G rsB rsL n) G
      = Gen.C.trsmLowerRightRec cutoff (memOf B) B.nrows B.ncols (memOf L) L.nrows L.ncols L.width L.hb B.width
        B.hb lrBase rsB rsL (cTrsmLR lrBase addmulM rsB rsL n) addmulM
    rw [hLr, hLc, hwL]
    exact trsmLowerRightRec_callee_congr2 cutoff rsB rsL B.nrows B.ncols (memOf B) (memOf L) _ _ lrBase
      _ _ G addmulM (fun k mL' mB' _ _ => cTrsmLR_gen_raw G HG rsB rsL n cutoff B.nrows k mL' mB') (HG cutoff)

/-- the closure (LR) over `G` called on two windows (as its callers do), result written back into `A` -/
theorem cTrsmLR_gen_window (G : Fn3) (HG : ∀ c, Sim3 c G addmulM) (rsB rsT : Int) (n : Nat) (cutoff : Int) (A Tm : Mzd) (hA : A.WF)
    (lr lc hr hc ar ac ahr ahc : Nat) (hW : InWin A lr lc hr hc) (hWT : InWin Tm ar ac ahr ahc)
    (hsq1 : ahr - ar = hc - lc) (hsq2 : ahc - ac = hc - lc) :
    CLoop.unview (memOf A) (lr : Int) ((lc / 64 : Nat) : Int) ((hr - lr : Nat) : Int)
        (((hc - lc + 63) / 64 : Nat) : Int)
        (cTrsmLR lrBase G rsB rsT n (winView (memOf Tm) ar ac ahr ahc) (winView (memOf A) lr lc hr hc) cutoff)
      = memOf (A.putB (A.toB.paste lr lc (trsmLowerRight (Tm.toB.sub ar ac ahr ahc) (A.toB.sub lr lc hr hc)))) := by
  have hBs : Shaped (A.toB.sub lr lc hr hc) (hr - lr) (hc - lc) :=
    (shaped_toB hA).sub lr lc hr hc hW.hr
  have hX : Shaped (trsmLowerRight (Tm.toB.sub ar ac ahr ahc) (A.toB.sub lr lc hr hc)) (hr - lr) (hc - lc) :=
    shaped_lrRec 64 0 (hBs) (by rw [nrows_sub, Mzd.nrows_toB]; have := hWT.hr; omega)
  apply unview_window_of_agree A hA lr lc hr hc hW.lc hW.hr hW.hc _ hX.nr hX.nc
  have h := cTrsmLR_gen_view_subst G HG rsB rsT n cutoff (Tm.window ar ac ahr ahc) (A.window lr lc hr hc)
    (window_WF _ _ _ _ _) (window_WF _ _ _ _ _) (by simp [hsq1]) (by simp [hsq2])
    _ _ (view_agree_window A lr lc hr hc) (view_agree_window Tm ar ac ahr ahc)
  simp only [nrows_window, ncols_window, width_window, hb_window] at h
  rw [window_toB A lr lc hr hc hW.lc hW.hr hW.hc, window_toB Tm ar ac ahr ahc hWT.lc hWT.hr hWT.hc] at h
  exact h

/-- **`_mzd_trsm_*` (LR) closed over THE GENERATED PRODUCT** -/
abbrev cTrsmLRG (hd : Hdr) (d : Nat) (rsA rsB rsC : Int) (fA fB fC : BitVec 8) (rsBm rsL : Int) :
    Nat → CLoop.MView → CLoop.MView → Int → Mem :=
  cTrsmLR lrBase (genAddmul hd d rsA rsB rsC fA fB fC) rsBm rsL

theorem cTrsmLRG_correct (hd : Hdr) (d : Nat) (rsA rsB rsC : Int) (fA fB fC : BitVec 8) (rsBm rsL : Int) (n : Nat)
    (cutoff : Int) (L B : Mzd) (hL : L.WF) (hB : B.WF) (hLr : L.nrows = B.ncols) (hLc : L.ncols = B.ncols) :
    cTrsmLRG hd d rsA rsB rsC fA fB fC rsBm rsL n (CLoop.MView.of L) (CLoop.MView.of B) cutoff
      = memOf (B.putB (trsmLowerRight L.toB B.toB)) :=
  cTrsmLR_gen_correct _ (genAddmul_sim hd d rsA rsB rsC fA fB fC) rsBm rsL n cutoff L B hL hB hLr hLc

/-! ### 3. `_mzd_ple` -/

section Ple
open M4ri.GenTieGlue M4ri.GenTiePle M4ri.GenTieTab M4ri.GenTieSlice

/-- the Schur-complement block keeps two memories in agreement: on one side ANY product callee `fadd` that is
    related to `addmulM` (and a translated `_mzd_trsm_lower_left` over it), on the other `addmulM` -/
theorem schurMem_agreeG (fadd : Fn3) (cutoff rs : Int) (HA : Rel3 cutoff fadd addmulM)
    (fruss frec fruss' frec' : CLoop.MView → CLoop.MView → Int → Mem)
    (nrows ncols nr k n1 : Nat) (hnr : nr ≤ nrows) (hk : k ≤ nr) (hn1 : n1 ≤ ncols) (hn64 : n1 % 64 = 0)
    (hkn1 : k ≤ n1) (hn1lt : k ≠ 0 → n1 < ncols)
    {m m' : Mem} (hm : AgreeOn nrows ((ncols + 63) / 64) m m') (Pv : Int → Int)
    (hPv : ∀ i : Int, 0 ≤ i → i < nr → 0 ≤ Pv (0 + i) ∧ Pv (0 + i) < nr)
    (HT : ∀ (r c : Nat) (mL mL' mB mB' : Mem), 1 ≤ r → 1 ≤ c → AgreeOn r ((r + 63) / 64) mL mL' →
      AgreeOn r ((c + 63) / 64) mB mB' → AgreeOn r ((c + 63) / 64)
        (Gen.C.trsmLowerLeftRec cutoff mB r c mL (((c + 63) / 64 : Nat) : Int) r r (((r + 63) / 64 : Nat) : Int)
          (leftMask (r % 64)) (leftMask (c % 64)) fruss rs rs frec fadd)
        (Gen.C.trsmLowerLeftRec cutoff mB' r c mL' (((c + 63) / 64 : Nat) : Int) r r (((r + 63) / 64 : Nat) : Int)
          (leftMask (r % 64)) (leftMask (c % 64)) fruss' rs rs frec' addmulM)) :
    AgreeOn nrows ((ncols + 63) / 64)
      (schurMem m Pv nr k cutoff 0
        ((nr : Nat) : Int) ((ncols - n1 : Nat) : Int) (((ncols - n1 + 63) / 64 : Nat) : Int)
        (leftMask ((ncols - n1) % 64)) ((0 : Nat) : Int) ((n1 / 64 : Nat) : Int)
        ((k : Nat) : Int) ((k : Nat) : Int) (((k + 63) / 64 : Nat) : Int)
        (leftMask (k % 64)) ((0 : Nat) : Int) ((0 : Nat) : Int) rs
        ((k : Nat) : Int) ((ncols - n1 : Nat) : Int) (((ncols - n1 + 63) / 64 : Nat) : Int)
        (leftMask ((ncols - n1) % 64)) ((0 : Nat) : Int) ((n1 / 64 : Nat) : Int) rs
        ((nr - k : Nat) : Int) ((k : Nat) : Int) (((k + 63) / 64 : Nat) : Int)
        (leftMask (k % 64)) (k : Int) ((0 : Nat) : Int)
        ((nr - k : Nat) : Int) ((ncols - n1 : Nat) : Int) (((ncols - n1 + 63) / 64 : Nat) : Int)
        (leftMask ((ncols - n1) % 64)) (k : Int) ((n1 / 64 : Nat) : Int)
        fruss frec fadd)
      (schurMem m' Pv nr k cutoff 0
        ((nr : Nat) : Int) ((ncols - n1 : Nat) : Int) (((ncols - n1 + 63) / 64 : Nat) : Int)
        (leftMask ((ncols - n1) % 64)) ((0 : Nat) : Int) ((n1 / 64 : Nat) : Int)
        ((k : Nat) : Int) ((k : Nat) : Int) (((k + 63) / 64 : Nat) : Int)
        (leftMask (k % 64)) ((0 : Nat) : Int) ((0 : Nat) : Int) rs
        ((k : Nat) : Int) ((ncols - n1 : Nat) : Int) (((ncols - n1 + 63) / 64 : Nat) : Int)
        (leftMask ((ncols - n1) % 64)) ((0 : Nat) : Int) ((n1 / 64 : Nat) : Int) rs
        ((nr - k : Nat) : Int) ((k : Nat) : Int) (((k + 63) / 64 : Nat) : Int)
        (leftMask (k % 64)) (k : Int) ((0 : Nat) : Int)
        ((nr - k : Nat) : Int) ((ncols - n1 : Nat) : Int) (((ncols - n1 + 63) / 64 : Nat) : Int)
        (leftMask ((ncols - n1) % 64)) (k : Int) ((n1 / 64 : Nat) : Int)
        fruss' frec' addmulM) := by
  unfold schurMem
  by_cases h0 : k = 0
  · rw [if_neg (by simp [h0]), if_neg (by simp [h0])]
    exact hm
  rw [if_pos (by simpa using (show (k : Int) ≠ 0 by omega)), if_pos (by simpa using (show (k : Int) ≠ 0 by omega))]
  dsm
  have hn1' := hn1lt h0
  have b1 := agree_unview hm ((0 : Nat) : Int) ((n1 / 64 : Nat) : Int) nr ((ncols - n1 + 63) / 64)
    (AgI.to (mzdApplyPLeft_agree
      (AgI.of (hm.view 0 (n1 / 64) nr ((ncols - n1 + 63) / 64) (by omega) (by omega)))
      ((ncols - n1 : Nat) : Int) ((nr : Int) - 0) (fun i => Pv (0 + i)) (fun i => Pv (0 + i))
      (leftMask ((ncols - n1) % 64)) (fun i h0 _ hi => ⟨rfl, hPv i h0 hi⟩)))
  have b2 := agree_unview b1 ((0 : Nat) : Int) ((n1 / 64 : Nat) : Int) k ((ncols - n1 + 63) / 64)
    (HT k (ncols - n1) _ _ _ _ (by omega) (by omega)
      (b1.view 0 0 k ((k + 63) / 64) (by omega) (by omega))
      (b1.view 0 (n1 / 64) k ((ncols - n1 + 63) / 64) (by omega) (by omega)))
  exact agree_unview b2 (k : Int) ((n1 / 64 : Nat) : Int) (nr - k) ((ncols - n1 + 63) / 64)
    (HA (nr - k) k (ncols - n1) _ _ _ _ _ _
      (b2.view k (n1 / 64) (nr - k) ((ncols - n1 + 63) / 64) (by omega) (by omega))
      (b2.view k 0 (nr - k) ((k + 63) / 64) (by omega) (by omega))
      (b2.view 0 (n1 / 64) k ((ncols - n1 + 63) / 64) (by omega) (by omega)))

/-- **second part, congruence** (any related product callee on the left) -/
theorem seg2_congrG (fadd : Fn3) (rec : BMat → Rec.Out) (hrec : ∀ W : BMat, W.WF → Rec.GoodOut W (rec W))
    (cutoff rs : Int) (HA : Rel3 cutoff fadd addmulM)
    (f : PleFn) (fruss frec fruss' frec' : CLoop.MView → CLoop.MView → Int → Mem)
    (nrows ncols nr k n1 : Nat) (hnr : nr ≤ nrows) (hk : k ≤ nr) (hn1 : n1 ≤ ncols) (hn64 : n1 % 64 = 0)
    (hkn1 : k ≤ n1) (hn1lt : k ≠ 0 → n1 < ncols)
    {m m' : Mem} (hm : AgreeOn nrows ((ncols + 63) / 64) m m') (P Q : Int → Int) (hb : BitVec 64)
    (hPv : ∀ i : Int, 0 ≤ i → i < nr → 0 ≤ P (0 + i) ∧ P (0 + i) < nr)
    (H : ∀ (r c : Nat) (mem : Mem) (P Q : Int → Int), PleAgree r c
      (f ⟨mem, (r : Int), (c : Int), (((c + 63) / 64 : Nat) : Int), leftMask (c % 64)⟩ P Q cutoff)
      (liftPle rec ⟨mem, (r : Int), (c : Int), (((c + 63) / 64 : Nat) : Int), leftMask (c % 64)⟩ P Q cutoff))
    (HT : ∀ (r c : Nat) (mL mL' mB mB' : Mem), 1 ≤ r → 1 ≤ c → AgreeOn r ((r + 63) / 64) mL mL' →
      AgreeOn r ((c + 63) / 64) mB mB' → AgreeOn r ((c + 63) / 64)
        (Gen.C.trsmLowerLeftRec cutoff mB r c mL (((c + 63) / 64 : Nat) : Int) r r (((r + 63) / 64 : Nat) : Int)
          (leftMask (r % 64)) (leftMask (c % 64)) fruss rs rs frec fadd)
        (Gen.C.trsmLowerLeftRec cutoff mB' r c mL' (((c + 63) / 64 : Nat) : Int) r r (((r + 63) / 64 : Nat) : Int)
          (leftMask (r % 64)) (leftMask (c % 64)) fruss' rs rs frec' addmulM)) :
    seg2 m P Q nr ncols k n1 cutoff nrows rs 0
      ((nr : Nat) : Int) ((ncols - n1 : Nat) : Int) (((ncols - n1 + 63) / 64 : Nat) : Int)
      (leftMask ((ncols - n1) % 64)) ((0 : Nat) : Int) ((n1 / 64 : Nat) : Int)
      f fruss frec fadd ncols (((ncols + 63) / 64 : Nat) : Int) hb liftCompress
    = seg2 m' P Q nr ncols k n1 cutoff nrows rs 0
      ((nr : Nat) : Int) ((ncols - n1 : Nat) : Int) (((ncols - n1 + 63) / 64 : Nat) : Int)
      (leftMask ((ncols - n1) % 64)) ((0 : Nat) : Int) ((n1 / 64 : Nat) : Int)
      (liftPle rec) fruss' frec' addmulM ncols (((ncols + 63) / 64 : Nat) : Int) hb liftCompress := by
  unfold seg2
  dsm
  rw [mzdInitWindow_in 0 0 k k nrows rs 0 0 k k nrows rfl rfl rfl rfl rfl rfl (by omega) (by omega)
      (by omega),
    mzdInitWindow_in k 0 nr k nrows rs k 0 nr k nrows rfl rfl rfl rfl rfl rfl (by omega) (by omega)
      (by omega),
    mzdInitWindow_in 0 n1 k ncols nrows rs 0 n1 k ncols nrows rfl rfl rfl rfl rfl hn64 (by omega)
      (by omega) (by omega),
    mzdInitWindow_in k n1 nr ncols nrows rs k n1 nr ncols nrows rfl rfl rfl rfl rfl hn64 (by omega)
      (by omega) (by omega)]
  dsm
  norm_win'
  exact seg3_congr rec hrec cutoff f nrows ncols nr k n1 hnr hk hn1 hn64 hkn1
    (schurMem_agreeG fadd cutoff rs HA fruss frec fruss' frec' nrows ncols nr k n1 hnr hk hn1 hn64 hkn1 hn1lt hm P hPv
      HT)
    P Q hb H

/-- **congruence of the generated recursive branch of `_mzd_ple`**, the product parameter included: on the left any
    product callee related to `addmulM` -/
theorem pleRecStep_congrG (fadd : Fn3) (rec : BMat → Rec.Out) (hrec : ∀ W : BMat, W.WF → Rec.GoodOut W (rec W))
    (cutoff rs : Int) (HA : Rel3 cutoff fadd addmulM)
    (f : PleFn) (fruss frec fruss' frec' : CLoop.MView → CLoop.MView → Int → Mem)
    (nrows ncols nr : Nat) (hnr : nr ≤ nrows)
    {m m' : Mem} (hm : AgreeOn nrows ((ncols + 63) / 64) m m') (P Q : Int → Int) (hb : BitVec 64)
    (H : ∀ (r c : Nat) (mem : Mem) (P Q : Int → Int), PleAgree r c
      (f ⟨mem, (r : Int), (c : Int), (((c + 63) / 64 : Nat) : Int), leftMask (c % 64)⟩ P Q cutoff)
      (liftPle rec ⟨mem, (r : Int), (c : Int), (((c + 63) / 64 : Nat) : Int), leftMask (c % 64)⟩ P Q cutoff))
    (HT : ∀ (r c : Nat) (mL mL' mB mB' : Mem), 1 ≤ r → 1 ≤ c → AgreeOn r ((r + 63) / 64) mL mL' →
      AgreeOn r ((c + 63) / 64) mB mB' → AgreeOn r ((c + 63) / 64)
        (Gen.C.trsmLowerLeftRec cutoff mB r c mL (((c + 63) / 64 : Nat) : Int) r r (((r + 63) / 64 : Nat) : Int)
          (leftMask (r % 64)) (leftMask (c % 64)) fruss rs rs frec fadd)
        (Gen.C.trsmLowerLeftRec cutoff mB' r c mL' (((c + 63) / 64 : Nat) : Int) r r (((r + 63) / 64 : Nat) : Int)
          (leftMask (r % 64)) (leftMask (c % 64)) fruss' rs rs frec' addmulM)) :
    Gen.C.pleRecStep m P Q ncols nr nrows rs cutoff f fruss frec fadd ncols (((ncols + 63) / 64 : Nat) : Int) hb
        liftCompress
      = Gen.C.pleRecStep m' P Q ncols nr nrows rs cutoff (liftPle rec) fruss' frec' addmulM ncols
        (((ncols + 63) / 64 : Nat) : Int) hb liftCompress := by
  rw [pleRecStep_split, pleRecStep_split]
  dsm
  have hsp : ((Int.tdiv ((ncols : Int) - 1) 64 + 1) >>> (1 : Int).toNat) * 64
      = ((Rec.splitPoint ncols : Nat) : Int) := GenTie.pleSplit_eq ncols
  rw [hsp]
  have hk := Rec.splitPoint_le ncols
  have hk64 := GenTiePle.splitPoint_mod ncols
  have hklt : 0 < ncols → Rec.splitPoint ncols < ncols := Rec.splitPoint_lt ncols
  generalize Rec.splitPoint ncols = n1 at *
  rw [mzdInitWindow_in 0 0 nr n1 nrows rs 0 0 nr n1 nrows rfl rfl rfl rfl rfl rfl (by omega) (by omega) hnr,
    mzdInitWindow_in 0 n1 nr ncols nrows rs 0 n1 nr ncols nrows rfl rfl rfl rfl rfl hk64 (by omega) hk hnr]
  dsm
  norm_win'
  have hv := hm.view 0 0 nr ((n1 + 63) / 64) (by omega) (by omega)
  rw [← liftPle_congr_nat rec nr ((n1 + 63) / 64) ((n1 : Nat) : Int) _ _ hv (fun i => P i) (fun i => Q i) _ _
    cutoff cutoff]
  have hH := H nr n1 (CLoop.view m ((0 : Nat) : Int) ((0 : Nat) : Int)) (fun i => P i) (fun i => Q i)
  obtain ⟨r1, P1, Q1, res, e, r1r, r1c, p1s, p1l, q1s⟩ := liftPle_facts rec hrec
    (CLoop.view m ((0 : Nat) : Int) ((0 : Nat) : Int)) nr n1 (fun i => P i) (fun i => Q i) cutoff
  rw [e] at hH ⊢
  generalize f _ _ _ _ = o at hH ⊢
  obtain ⟨r1', res', p', q'⟩ := o
  obtain ⟨h1, h2, h3, h4⟩ := hH
  dsm at h1 h2 h3 h4 ⊢
  subst h1
  have ep : ∀ i : Int, (if 0 ≤ i ∧ i < (nr : Int) - 0 then p' (i - 0) else P i)
      = (if 0 ≤ i ∧ i < (nr : Int) - 0 then arrOf P1 (i - 0) else P i) := by
    intro i
    split
    · rw [h3 _ (by omega) (by omega)]
    · rfl
  have eq : ∀ i : Int, (if 0 ≤ i ∧ i < (n1 : Int) - 0 then q' (i - 0) else Q i)
      = (if 0 ≤ i ∧ i < (n1 : Int) - 0 then arrOf Q1 (i - 0) else Q i) := by
    intro i
    split
    · rw [h4 _ (by omega) (by omega)]
    · rfl
  simp_m [ep, eq]
  refine seg2_congrG fadd rec hrec cutoff rs HA f fruss frec fruss' frec' nrows ncols nr r1 n1 hnr r1r hk hk64 r1c
    (fun h => hklt (by omega)) (agree_unview hm _ _ nr _ h2) _ _ hb ?_ H HT
  intro i h0 hi
  rw [if_pos (by omega)]
  have := p1l i.toNat (by omega)
  unfold arrOf
  rw [show (0 : Int) + i - 0 = i by omega]
  omega

/-- the contract `HT` of `pleRecStep_congrG`: the translated `_mzd_trsm_lower_left` over the product callee `G`, its
    recursive-call parameter bound to the closed recursion over `G`, cannot be told apart from the one with the
    lifted model recursion over `addmulM` -/
theorem trsmLL_HTG (G : Fn3) (HG : ∀ c, Sim3 c G addmulM) (cutoff rs : Int) (mt : Nat) (r c : Nat)
    (mL mL' mB mB' : Mem) (hr : 1 ≤ r) (hc : 1 ≤ c)
    (hL : AgreeOn r ((r + 63) / 64) mL mL') (hB : AgreeOn r ((c + 63) / 64) mB mB') :
    AgreeOn r ((c + 63) / 64)
      (Gen.C.trsmLowerLeftRec cutoff mB r c mL (((c + 63) / 64 : Nat) : Int) r r (((r + 63) / 64 : Nat) : Int)
        (leftMask (r % 64)) (leftMask (c % 64)) llRuss rs rs (cTrsmLL llRuss G rs rs mt) G)
      (Gen.C.trsmLowerLeftRec cutoff mB' r c mL' (((c + 63) / 64 : Nat) : Int) r r (((r + 63) / 64 : Nat) : Int)
        (leftMask (r % 64)) (leftMask (c % 64)) llRuss rs rs
        (fun L B _ => liftM2 (Rec.trsmLowerLeftRec 2048 mt) L B) addmulM) := by
  rw [trsmLowerLeftRec_callee_congr2 cutoff rs rs r c mB mL _ _ llRuss (cTrsmLL llRuss G rs rs mt)
    (cTrsmLL llRuss addmulM rs rs mt) G addmulM
    (fun k mL' mB' _ _ => cTrsmLL_gen_raw G HG rs rs mt cutoff k c mL' mB') (HG cutoff)]
  exact trsmLL_HT cutoff rs mt r c mL mL' mB mB' hr hc hL hB

theorem sim3_toRel {cutoff : Int} {G : Fn3} (h : Sim3 cutoff G addmulM) : Rel3 cutoff G addmulM :=
  Sim3.rel (fun C A B => C.add (A.mul B)) (fun _ _ _ => rfl) h

/-- **one step of the WHOLE generated `_mzd_ple` over the product callee `G`** (and the closed
    `_mzd_trsm_lower_left` over `G`): the statement of `pleFull_step` -/
theorem pleFull_stepG (G : Fn3) (HG : ∀ c, Sim3 c G addmulM)
    (base : BMat → Rec.Out) (hbase : Rec.GoodBase base) (baseRows fuel mt : Nat) (cutoff rs : Int)
    (f : PleFn)
    (H : ∀ (r c : Nat) (mem : Mem) (P Q : Int → Int), 1 ≤ c → PleAgree r c
      (f ⟨mem, (r : Int), (c : Int), (((c + 63) / 64 : Nat) : Int), leftMask (c % 64)⟩ P Q cutoff)
      (liftPle (pleM base baseRows fuel) ⟨mem, (r : Int), (c : Int), (((c + 63) / 64 : Nat) : Int),
        leftMask (c % 64)⟩ P Q cutoff))
    (A : Mzd) (hA : A.WF) (hc : 1 ≤ A.ncols) (m : Mem) (hm : AgreeOn A.nrows A.width m (memOf A))
    (P Q : Int → Int) :
    (Gen.C.pleFull cutoff P Q m A.ncols A.width A.nrows A.hb liftCopyNew (liftPle base) GenTieEch.liftCopy rs f
        llRuss (cTrsmLL llRuss G rs rs mt) G liftCompress).1
      = (((pleM base baseRows (fuel + 1) A.toB).2.2.2 : Nat) : Int) ∧
    (Gen.C.pleFull cutoff P Q m A.ncols A.width A.nrows A.hb liftCopyNew (liftPle base) GenTieEch.liftCopy rs f
        llRuss (cTrsmLL llRuss G rs rs mt) G liftCompress).2.2.2
      = (if Rec.firstZeroRow A.toB = 0 then m else memOf (A.putB (pleM base baseRows (fuel + 1) A.toB).1)) ∧
    PAg A.nrows
      (Gen.C.pleFull cutoff P Q m A.ncols A.width A.nrows A.hb liftCopyNew (liftPle base) GenTieEch.liftCopy rs f
        llRuss (cTrsmLL llRuss G rs rs mt) G liftCompress).2.1
      (arrOf (pleM base baseRows (fuel + 1) A.toB).2.1) ∧
    PAg A.ncols
      (Gen.C.pleFull cutoff P Q m A.ncols A.width A.nrows A.hb liftCopyNew (liftPle base) GenTieEch.liftCopy rs f
        llRuss (cTrsmLL llRuss G rs rs mt) G liftCompress).2.2.1
      (arrOf (pleM base baseRows (fuel + 1) A.toB).2.2.1) := by
  have hw : 1 ≤ A.width := by unfold Mzd.width widthOf; omega
  have hww : A.width = (A.ncols + 63) / 64 := rfl
  rw [pleFull_split]
  dsm
  rw [mzdFirstZeroRow_agree A.ncols A.nrows A.width hw hm, mzdFirstZeroRow_rec A hA hc]
  have hnr : Rec.firstZeroRow A.toB ≤ A.nrows := by
    have := Rec.firstZeroRow_le A.toB
    simpa using this
  generalize hres : CLoop.loop _ _ _ _ = res
  generalize hres2 : CLoop.loop _ _ _ _ = res2
  have k1 := write_loop hres (fun i _ => i) ((Rec.firstZeroRow A.toB : Nat) : Int)
    (A.nrows - Rec.firstZeroRow A.toB) (by simp)
    (by intro mm k; dsimp only; rw [decide_eq_decide]; omega)
    (by intro mm k hk; rfl)
  have k2 := write_loop hres2 (fun i _ => i) (0 : Int) A.ncols (by simp)
    (by intro mm k; dsimp only; rw [decide_eq_decide]; omega)
    (by intro mm k hk; dsimp only)
  subst k1 k2
  dsm
  unfold restF
  clear hres hres2
  have fP0 : ∀ i : Int, ((Rec.firstZeroRow A.toB : Nat) : Int) ≤ i → i < A.nrows →
      mapMem P (fun i _ => i) ((Rec.firstZeroRow A.toB : Nat) : Int) (A.nrows - Rec.firstZeroRow A.toB) i = i := by
    intro i h0 h1
    unfold mapMem
    rw [if_pos (by omega)]
  have fQ0 : ∀ i : Int, 0 ≤ i → i < A.ncols → mapMem Q (fun i _ => i) 0 A.ncols i = i := by
    intro i h0 h1
    unfold mapMem
    rw [if_pos (by omega)]
  generalize mapMem P (fun i _ => i) ((Rec.firstZeroRow A.toB : Nat) : Int) (A.nrows - Rec.firstZeroRow A.toB) = P0
    at *
  generalize mapMem Q (fun i _ => i) 0 A.ncols = Q0 at *
  rw [pleCutoff_eq]
  by_cases h0 : Rec.firstZeroRow A.toB = 0
  · -- no non-zero row: `return 0`
    rw [if_pos (by rw [h0]; rfl), if_pos h0]
    unfold pleM
    rw [pleRec_succ_zero _ _ _ _ _ _ h0]
    dsm
    rw [Mzd.nrows_toB, Mzd.ncols_toB]
    refine ⟨rfl, rfl, fun i i0 i1 => ?_, fun i i0 i1 => ?_⟩
    · rw [fP0 i (by omega) i1, arrOf_range _ i i0 i1]
    · rw [fQ0 i i0 i1, arrOf_range _ i i0 i1]
  rw [if_neg (by
    rw [decide_eq_true (show ((Rec.firstZeroRow A.toB : Nat) : Int) ≠ 0 by omega)]; decide), if_neg h0]
  have hreg : ((((A.ncols + 63) / 64 : Nat) : Int) * (A.nrows : Int) ≤ 524288)
      ↔ ((A.ncols + 63) / 64) * A.nrows ≤ 524288 := by
    rw [← Int.natCast_mul]
    generalize ((A.ncols + 63) / 64) * A.nrows = z
    omega
  by_cases hb : A.ncols ≤ 64 ∨ ((A.ncols + 63) / 64) * A.nrows ≤ 524288
  · -- the base case through a copy
    rw [if_pos (by
      rw [hww, Bool.or_eq_true, decide_eq_true_eq, decide_eq_true_eq, hreg]
      rcases hb with hb | hb
      · left; omega
      · right; exact hb)]
    rw [baseF_eq base A hA m hm]
    unfold pleM
    rw [pleRec_succ_base _ _ _ _ _ _ h0 (by simpa using hb)]
    exact ⟨rfl, rfl, fun _ _ _ => rfl, fun _ _ _ => rfl⟩
  -- the recursive branch
  rw [if_neg (by
    rw [hww, Bool.or_eq_true, decide_eq_true_eq, decide_eq_true_eq, hreg]
    intro hb'
    apply hb
    rcases hb' with hb' | hb'
    · left; omega
    · right; exact hb')]
  have hrec : ∀ W : BMat, W.WF → Rec.GoodOut W (pleM base baseRows fuel W) :=
    fun W hW => Rec.pleRec_spec hbase 64 524288 baseRows fuel hW
  rw [hww, recF_eq (pleM base baseRows fuel) hrec cutoff rs f llRuss (cTrsmLL llRuss G rs rs mt) G
    liftCompress A.nrows A.ncols (Rec.firstZeroRow A.toB) hnr (by omega) m P0 Q0 A.hb H]
  rw [pleRecStep_congrG G (pleM base baseRows fuel) hrec cutoff rs (sim3_toRel (HG cutoff)) _ llRuss _ llRuss
    (fun L B _ => liftM2 (Rec.trsmLowerLeftRec 2048 mt) L B) A.nrows A.ncols _ hnr
    (by rw [← hww]; exact hm) _ _ _
    (guardF_agree (pleM base baseRows fuel) f cutoff H) (trsmLL_HTG G HG cutoff rs mt)]
  have hp := pleRecStep_perm (pleM base baseRows fuel) hrec cutoff rs llRuss
    (fun L B _ => liftM2 (Rec.trsmLowerLeftRec 2048 mt) L B) addmulM A.nrows A.ncols (Rec.firstZeroRow A.toB) hnr
    (memOf A) P0 (arrOf (Array.range A.nrows)) Q0 (arrOf (Array.range A.ncols)) A.hb
    (fun i i0 i1 => by rw [fP0 i i0 i1, arrOf_range _ i (by omega) i1])
  have h := pleRecStep_pleRec_full base hbase 64 524288 baseRows fuel mt cutoff rs A hA h0 hb
  rw [hww] at h
  rw [h] at hp
  obtain ⟨p1, p2, p3, p4⟩ := hp
  generalize Gen.C.pleRecStep _ _ _ _ _ _ _ _ _ _ _ _ _ _ _ _ = o at p1 p2 p3 p4 ⊢
  obtain ⟨o1, o2, o3, o4⟩ := o
  unfold reord
  dsm at p1 p2 p3 p4 ⊢
  refine ⟨p1, p2, fun i i0 i1 => ?_, fun i i0 i1 => ?_⟩
  · rw [p3 i i0 i1, arrMem_nonneg _ _ i i0]
  · rw [p4 i i0 i1, arrMem_nonneg _ _ i i0]

/-- **the C recursion `_mzd_ple` unrolled `n` levels over the product callee `G`**: `cPleFull` with BOTH occurrences
    of `addmulM` (the callee `mzd_addmul` of `_mzd_ple` itself and the one of the closed `_mzd_trsm_lower_left`)
    replaced by `G` -/
def cPleFullWith (G : Fn3) (base : BMat → Rec.Out) (baseRows : Nat) (rs : Int) (mt : Nat) : Nat → PleFn
  | 0 => liftPle (pleM base baseRows 0)
  | n + 1 => fun V P Q c =>
      unord (Gen.C.pleFull c P Q V.mem V.ncols V.width V.nrows V.hb liftCopyNew (liftPle base) GenTieEch.liftCopy rs
        (cPleFullWith G base baseRows rs mt n) llRuss (cTrsmLL llRuss G rs rs mt) G liftCompress)

/-- **the induction** (statement of `cPleFull_raw`) -/
theorem cPleFullWith_raw (G : Fn3) (HG : ∀ c, Sim3 c G addmulM) (base : BMat → Rec.Out) (hbase : Rec.GoodBase base)
    (baseRows : Nat) (rs : Int) (mt : Nat)
    (n : Nat) : ∀ (cutoff : Int) (r c : Nat) (mem : Mem) (P Q : Int → Int), 1 ≤ c →
    PleAgree r c
      (cPleFullWith G base baseRows rs mt n
        ⟨mem, (r : Int), (c : Int), (((c + 63) / 64 : Nat) : Int), leftMask (c % 64)⟩ P Q cutoff)
      (liftPle (pleM base baseRows n)
        ⟨mem, (r : Int), (c : Int), (((c + 63) / 64 : Nat) : Int), leftMask (c % 64)⟩ P Q cutoff) := by
  induction n with
  | zero => intro cutoff r c mem P Q _; exact PleAgree.refl _ _ _
  | succ n ih =>
    intro cutoff r c mem P Q hc
    have h := pleFull_stepG G HG base hbase baseRows n mt cutoff rs (cPleFullWith G base baseRows rs mt n) (ih cutoff)
      (rawM mem r c) (rawM_WF mem r c) (by simpa using hc) mem (by simpa using agree_rawM mem r c) P Q
    simp only [nrows_rawM, ncols_rawM, width_rawM, hb_rawM] at h
    obtain ⟨h1, h2, h3, h4⟩ := h
    rw [liftPle_rawM]
    unfold cPleFullWith unord
    refine ⟨h1, ?_, h3, h4⟩
    show AgreeOn r ((c + 63) / 64) (Gen.C.pleFull _ _ _ _ _ _ _ _ _ _ _ _ _ _ _ _ _).2.2.2 _
    rw [h2]
    by_cases h0 : Rec.firstZeroRow (rawM mem r c).toB = 0
    · rw [if_pos h0]
      unfold pleM
      rw [pleRec_succ_zero _ _ _ _ _ _ h0]
      dsm
      rw [Mzd.putB_toB (rawM_WF mem r c)]
      exact agree_rawM mem r c
    · rw [if_neg h0]
      exact AgreeOn.refl _ _ _

theorem pleAgree_symm {r c : Nat} {o o' : Int × Mem × (Int → Int) × (Int → Int)} (h : PleAgree r c o o') :
    PleAgree r c o' o :=
  ⟨h.1.symm, h.2.1.symm, fun i i0 i1 => (h.2.2.1 i i0 i1).symm, fun i i0 i1 => (h.2.2.2 i i0 i1).symm⟩

theorem pleAgree_trans {r c : Nat} {o o' o'' : Int × Mem × (Int → Int) × (Int → Int)} (h : PleAgree r c o o')
    (h' : PleAgree r c o' o'') : PleAgree r c o o'' :=
  ⟨h.1.trans h'.1, h.2.1.trans h'.2.1, fun i i0 i1 => (h.2.2.1 i i0 i1).trans (h'.2.2.1 i i0 i1),
    fun i i0 i1 => (h.2.2.2 i i0 i1).trans (h'.2.2.2 i i0 i1)⟩

/-- **`PleAgree`-equivalence with `cPleFull`**: at every depth, on canonical records (at least one column) of
    arbitrary memories, with arbitrary incoming permutations, the closure over `G` cannot be told apart from the
    closure over `addmulM` -/
theorem cPleFullWith_agree (G : Fn3) (HG : ∀ c, Sim3 c G addmulM) (base : BMat → Rec.Out)
    (hbase : Rec.GoodBase base) (baseRows : Nat) (rs : Int) (mt n : Nat) (cutoff : Int) (r c : Nat) (mem : Mem)
    (P Q : Int → Int) (hc : 1 ≤ c) :
    PleAgree r c
      (cPleFullWith G base baseRows rs mt n
        ⟨mem, (r : Int), (c : Int), (((c + 63) / 64 : Nat) : Int), leftMask (c % 64)⟩ P Q cutoff)
      (cPleFull base baseRows rs mt n
        ⟨mem, (r : Int), (c : Int), (((c + 63) / 64 : Nat) : Int), leftMask (c % 64)⟩ P Q cutoff) :=
  pleAgree_trans (cPleFullWith_raw G HG base hbase baseRows rs mt n cutoff r c mem P Q hc)
    (pleAgree_symm (cPleFull_raw base hbase baseRows rs mt n cutoff r c mem P Q hc))

/-- **every depth, on views** (statement of `cPleFull_view`) -/
theorem cPleFullWith_view (G : Fn3) (HG : ∀ c, Sim3 c G addmulM) (base : BMat → Rec.Out)
    (hbase : Rec.GoodBase base) (baseRows : Nat) (rs : Int)
    (mt n : Nat) (cutoff : Int) (A : Mzd) (hA : A.WF) (hc : 1 ≤ A.ncols) (mA : Mem)
    (hmA : AgreeOn A.nrows A.width mA (memOf A)) (P Q : Int → Int) :
    PleAgree A.nrows A.ncols
      (cPleFullWith G base baseRows rs mt n ⟨mA, A.nrows, A.ncols, A.width, A.hb⟩ P Q cutoff)
      ((((Rec.pleRec base 64 524288 baseRows n A.toB).2.2.2 : Nat) : Int),
        memOf (A.putB (Rec.pleRec base 64 524288 baseRows n A.toB).1),
        arrOf (Rec.pleRec base 64 524288 baseRows n A.toB).2.1,
        arrOf (Rec.pleRec base 64 524288 baseRows n A.toB).2.2.1) := by
  have hw : A.width = (A.ncols + 63) / 64 := rfl
  have hh : A.hb = leftMask (A.ncols % 64) := rfl
  have h := cPleFull_view base hbase baseRows rs mt n cutoff A hA hc mA hmA P Q
  rw [hw, hh] at h ⊢
  exact pleAgree_trans (cPleFullWith_agree G HG base hbase baseRows rs mt n cutoff A.nrows A.ncols mA P Q hc) h

/-- **`_mzd_ple`, THE WHOLE GENERATED FUNCTION bound to itself `n` levels deep over the product callee `G`, on a
    whole matrix = the model recursion** (statement of `cPleFull_correct`) -/
theorem cPleFullWith_correct (G : Fn3) (HG : ∀ c, Sim3 c G addmulM) (base : BMat → Rec.Out)
    (hbase : Rec.GoodBase base) (baseRows : Nat) (rs : Int)
    (mt n : Nat) (cutoff : Int) (A : Mzd) (hA : A.WF) (hc : 1 ≤ A.ncols) (P Q : Int → Int) :
    (cPleFullWith G base baseRows rs mt n (CLoop.MView.of A) P Q cutoff).1
        = (((Rec.pleRec base 64 524288 baseRows n A.toB).2.2.2 : Nat) : Int) ∧
    (cPleFullWith G base baseRows rs mt n (CLoop.MView.of A) P Q cutoff).2.1
        = memOf (A.putB (Rec.pleRec base 64 524288 baseRows n A.toB).1) ∧
    (∀ i : Int, 0 ≤ i → i < A.nrows → (cPleFullWith G base baseRows rs mt n (CLoop.MView.of A) P Q cutoff).2.2.1 i
        = arrOf (Rec.pleRec base 64 524288 baseRows n A.toB).2.1 i) ∧
    (∀ i : Int, 0 ≤ i → i < A.ncols → (cPleFullWith G base baseRows rs mt n (CLoop.MView.of A) P Q cutoff).2.2.2 i
        = arrOf (Rec.pleRec base 64 524288 baseRows n A.toB).2.2.1 i) := by
  have eA := ofView_of A hA
  unfold CLoop.MView.of at eA ⊢
  cases n with
  | zero =>
    unfold cPleFullWith liftPle
    rw [eA]
    exact ⟨rfl, rfl, fun _ _ _ => rfl, fun _ _ _ => rfl⟩
  | succ n =>
    obtain ⟨h1, h2, h3, h4⟩ := pleFull_stepG G HG base hbase baseRows n mt cutoff rs
      (cPleFullWith G base baseRows rs mt n)
      (cPleFullWith_raw G HG base hbase baseRows rs mt n cutoff) A hA hc (memOf A) (AgreeOn.refl _ _ _) P Q
    unfold cPleFullWith unord
    refine ⟨h1, ?_, h3, h4⟩
    show (Gen.C.pleFull _ _ _ _ _ _ _ _ _ _ _ _ _ _ _ _ _).2.2.2 = _
    rw [h2]
    by_cases h0 : Rec.firstZeroRow A.toB = 0
    · rw [if_pos h0, pleRec_succ_zero _ _ _ _ _ _ h0]
      dsm
      rw [Mzd.putB_toB hA]
    · rw [if_neg h0]

/-- … hence a good PLE certificate (statement of `cPleFull_spec`) -/
theorem cPleFullWith_spec (G : Fn3) (HG : ∀ c, Sim3 c G addmulM) (base : BMat → Rec.Out)
    (hbase : Rec.GoodBase base) (baseRows : Nat) (rs : Int)
    (mt n : Nat) (cutoff : Int) (A : Mzd) (hA : A.WF) (hc : 1 ≤ A.ncols) (P Q : Int → Int) :
    ∃ o : Rec.Out, Rec.GoodOut A.toB o ∧
      (cPleFullWith G base baseRows rs mt n (CLoop.MView.of A) P Q cutoff).1 = ((o.2.2.2 : Nat) : Int) ∧
      (cPleFullWith G base baseRows rs mt n (CLoop.MView.of A) P Q cutoff).2.1 = memOf (A.putB o.1) ∧
      (∀ i : Int, 0 ≤ i → i < A.nrows → (cPleFullWith G base baseRows rs mt n (CLoop.MView.of A) P Q cutoff).2.2.1 i
        = arrOf o.2.1 i) ∧
      (∀ i : Int, 0 ≤ i → i < A.ncols → (cPleFullWith G base baseRows rs mt n (CLoop.MView.of A) P Q cutoff).2.2.2 i
        = arrOf o.2.2.1 i) :=
  ⟨_, Rec.pleRec_spec hbase 64 524288 baseRows n (Mzd.WF_toB hA),
    cPleFullWith_correct G HG base hbase baseRows rs mt n cutoff A hA hc P Q⟩

/-! #### the instance: the generated product -/

/-- **`_mzd_ple` closed over THE GENERATED PRODUCT**: `cPleFull` with both occurrences of `addmulM` replaced by
    `genAddmul hd d …` (no lifted product remains: `mzd_addmul` is the generated `Gen.C.mzdAddmul` over the closed
    Strassen recursion, in `_mzd_ple` and in the closed `_mzd_trsm_lower_left`) -/
abbrev cPleFullG (hd : Hdr) (d : Nat) (rsA rsB rsC : Int) (fA fB fC : BitVec 8) (base : BMat → Rec.Out)
    (baseRows : Nat) (rs : Int) (mt : Nat) : Nat → PleFn :=
  cPleFullWith (genAddmul hd d rsA rsB rsC fA fB fC) base baseRows rs mt

theorem cPleFullG_succ (hd : Hdr) (d : Nat) (rsA rsB rsC : Int) (fA fB fC : BitVec 8) (base : BMat → Rec.Out)
    (baseRows : Nat) (rs : Int) (mt n : Nat) (V : CLoop.MView) (P Q : Int → Int) (c : Int) :
    cPleFullG hd d rsA rsB rsC fA fB fC base baseRows rs mt (n + 1) V P Q c
      = unord (Gen.C.pleFull c P Q V.mem V.ncols V.width V.nrows V.hb liftCopyNew (liftPle base) GenTieEch.liftCopy rs
          (cPleFullG hd d rsA rsB rsC fA fB fC base baseRows rs mt n) llRuss
          (cTrsmLLG hd d rsA rsB rsC fA fB fC rs rs mt) (genAddmul hd d rsA rsB rsC fA fB fC) liftCompress) := rfl

theorem cPleFullG_agree (hd : Hdr) (d : Nat) (rsA rsB rsC : Int) (fA fB fC : BitVec 8) (base : BMat → Rec.Out)
    (hbase : Rec.GoodBase base) (baseRows : Nat) (rs : Int) (mt n : Nat) (cutoff : Int) (r c : Nat) (mem : Mem)
    (P Q : Int → Int) (hc : 1 ≤ c) :
    PleAgree r c
      (cPleFullG hd d rsA rsB rsC fA fB fC base baseRows rs mt n
        ⟨mem, (r : Int), (c : Int), (((c + 63) / 64 : Nat) : Int), leftMask (c % 64)⟩ P Q cutoff)
      (cPleFull base baseRows rs mt n
        ⟨mem, (r : Int), (c : Int), (((c + 63) / 64 : Nat) : Int), leftMask (c % 64)⟩ P Q cutoff) :=
  cPleFullWith_agree _ (genAddmul_sim hd d rsA rsB rsC fA fB fC) base hbase baseRows rs mt n cutoff r c mem P Q hc

theorem cPleFullG_correct (hd : Hdr) (d : Nat) (rsA rsB rsC : Int) (fA fB fC : BitVec 8) (base : BMat → Rec.Out)
    (hbase : Rec.GoodBase base) (baseRows : Nat) (rs : Int)
    (mt n : Nat) (cutoff : Int) (A : Mzd) (hA : A.WF) (hc : 1 ≤ A.ncols) (P Q : Int → Int) :
    (cPleFullG hd d rsA rsB rsC fA fB fC base baseRows rs mt n (CLoop.MView.of A) P Q cutoff).1
        = (((Rec.pleRec base 64 524288 baseRows n A.toB).2.2.2 : Nat) : Int) ∧
    (cPleFullG hd d rsA rsB rsC fA fB fC base baseRows rs mt n (CLoop.MView.of A) P Q cutoff).2.1
        = memOf (A.putB (Rec.pleRec base 64 524288 baseRows n A.toB).1) ∧
    (∀ i : Int, 0 ≤ i → i < A.nrows →
      (cPleFullG hd d rsA rsB rsC fA fB fC base baseRows rs mt n (CLoop.MView.of A) P Q cutoff).2.2.1 i
        = arrOf (Rec.pleRec base 64 524288 baseRows n A.toB).2.1 i) ∧
    (∀ i : Int, 0 ≤ i → i < A.ncols →
      (cPleFullG hd d rsA rsB rsC fA fB fC base baseRows rs mt n (CLoop.MView.of A) P Q cutoff).2.2.2 i
        = arrOf (Rec.pleRec base 64 524288 baseRows n A.toB).2.2.1 i) :=
  cPleFullWith_correct _ (genAddmul_sim hd d rsA rsB rsC fA fB fC) base hbase baseRows rs mt n cutoff A hA hc P Q

/-- **`_mzd_ple` over the generated product leaves a good PLE certificate of `A`**, for every depth of the four
    closed recursions (`n`: `_mzd_ple`, `mt`: `_mzd_trsm_lower_left`, `d`: Strassen), every cut-off, flags, strides -/
theorem cPleFullG_spec (hd : Hdr) (d : Nat) (rsA rsB rsC : Int) (fA fB fC : BitVec 8) (base : BMat → Rec.Out)
    (hbase : Rec.GoodBase base) (baseRows : Nat) (rs : Int)
    (mt n : Nat) (cutoff : Int) (A : Mzd) (hA : A.WF) (hc : 1 ≤ A.ncols) (P Q : Int → Int) :
    ∃ o : Rec.Out, Rec.GoodOut A.toB o ∧
      (cPleFullG hd d rsA rsB rsC fA fB fC base baseRows rs mt n (CLoop.MView.of A) P Q cutoff).1
        = ((o.2.2.2 : Nat) : Int) ∧
      (cPleFullG hd d rsA rsB rsC fA fB fC base baseRows rs mt n (CLoop.MView.of A) P Q cutoff).2.1
        = memOf (A.putB o.1) ∧
      (∀ i : Int, 0 ≤ i → i < A.nrows →
        (cPleFullG hd d rsA rsB rsC fA fB fC base baseRows rs mt n (CLoop.MView.of A) P Q cutoff).2.2.1 i
          = arrOf o.2.1 i) ∧
      (∀ i : Int, 0 ≤ i → i < A.ncols →
        (cPleFullG hd d rsA rsB rsC fA fB fC base baseRows rs mt n (CLoop.MView.of A) P Q cutoff).2.2.2 i
          = arrOf o.2.2.1 i) :=
  cPleFullWith_spec _ (genAddmul_sim hd d rsA rsB rsC fA fB fC) base hbase baseRows rs mt n cutoff A hA hc P Q

end Ple

end M4ri.GenTieClose6

#print axioms M4ri.GenTieClose6.genAddmul_sim
#print axioms M4ri.GenTieClose6.genAddmul_agree
#print axioms M4ri.GenTieClose6.cTrsmLLG_correct
#print axioms M4ri.GenTieClose6.cTrsmLL_gen_window
#print axioms M4ri.GenTieClose6.cTrsmULG_correct
#print axioms M4ri.GenTieClose6.cTrsmUL_gen_window
#print axioms M4ri.GenTieClose6.cTrsmURG_correct
#print axioms M4ri.GenTieClose6.cTrsmUR_gen_window
#print axioms M4ri.GenTieClose6.cTrsmLRG_correct
#print axioms M4ri.GenTieClose6.cTrsmLR_gen_window
#print axioms M4ri.GenTieClose6.pleFull_stepG
#print axioms M4ri.GenTieClose6.cPleFullG_agree
#print axioms M4ri.GenTieClose6.cPleFullG_correct
#print axioms M4ri.GenTieClose6.cPleFullG_spec
